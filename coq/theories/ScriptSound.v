(* ScriptSound.v — theorems about the binding-layer model of Script.v (property C17).
   S1 operand order / call spellings, S2 coercions and banned comparisons, S3 order independence
   of the positional-unique form, S4 agreement of the call forms, S5 vec2->vec3 promotion,
   S6 the unit tests of fidget-rhai replayed, plus the statements that are FALSE for the code
   as written, each refuted by a concrete script. *)
From Coq Require Import ZArith List Bool String Ascii Lia Permutation.
From Flocq Require Import IEEE754.BinarySingleNaN.
From FV Require Import F32 Ops Expr Shapes Shapes32 Script.
Import ListNotations.
Local Open Scope string_scope.
Local Open Scope list_scope.

(* ====================================================================================== *)
(* basics                                                                                  *)
Lemma ty_eqb_eq a b : ty_eqb a b = true <-> a = b.
Proof. destruct a, b; simpl; split; intros H; try reflexivity; try discriminate. Qed.
Lemma ty_eqb_refl a : ty_eqb a a = true.
Proof. destruct a; reflexivity. Qed.
Lemma ty_eqb_neq a b : ty_eqb a b = false <-> a <> b.
Proof. split; intros H. - intros E; subst; rewrite ty_eqb_refl in H; discriminate.
  - destruct (ty_eqb a b) eqn:E; auto. apply ty_eqb_eq in E; contradiction. Qed.
Lemma tag_eqb_eq a b : tag_eqb a b = true <-> a = b.
Proof. destruct a, b; simpl; split; intros H; try reflexivity; try discriminate. Qed.
Lemma pty_eqb_eq a b : pty_eqb a b = true <-> a = b.
Proof.
  destruct a, b; simpl; split; intros H; try reflexivity; try discriminate.
  - apply tag_eqb_eq in H; subst; reflexivity.
  - inversion H; subst. apply tag_eqb_eq; reflexivity.
Qed.
Lemma ptys_eqb_eq a : forall b, ptys_eqb a b = true <-> a = b.
Proof.
  induction a as [|x a IH]; intros [|y b]; simpl; split; intros H; try reflexivity; try discriminate.
  - apply andb_true_iff in H. destruct H as [H1 H2]. apply pty_eqb_eq in H1. apply IH in H2. subst; reflexivity.
  - inversion H; subst. apply andb_true_iff. split; [apply pty_eqb_eq|apply IH]; reflexivity.
Qed.

Definition res_equiv {A} (r1 r2 : res A) : Prop := r1 = r2 \/ (is_ok r1 = false /\ is_ok r2 = false).
(* same value, or both are errors (possibly of different classes) *)
Definition same_outcome {A} (r1 r2 : res A) : Prop :=
  match r1, r2 with ROk a, ROk b => a = b | RErr _, RErr _ => True | _, _ => False end.

Lemma mapM_app {A B} (f : A -> res B) l1 l2 :
  mapM f (l1 ++ l2) = do a <- mapM f l1; do b <- mapM f l2; ROk (a ++ b).
Proof.
  induction l1 as [|x l1 IH]; simpl.
  - destruct (mapM f l2); reflexivity.
  - destruct (f x); simpl; auto. rewrite IH. destruct (mapM f l1); simpl; auto. destruct (mapM f l2); reflexivity.
Qed.
Lemma mapM_length {A B} (f : A -> res B) l : forall r, mapM f l = ROk r -> List.length r = List.length l.
Proof.
  induction l as [|x l IH]; simpl; intros r H.
  - inversion H; reflexivity.
  - destruct (f x); simpl in H; try discriminate. destruct (mapM f l); simpl in H; try discriminate.
    inversion H; subst; simpl. f_equal. apply IH; reflexivity.
Qed.

(* ====================================================================================== *)
(* unfolding [eval]                                                                         *)
Section WithRot.
Variable rot : @vec3 f32 -> f32 -> list f32.
Notation eval := (eval rot).
Notation call := (call rot).

Lemma evals_mapM l :
  (fix evals (l : list sexpr) : res (list dyn) :=
     match l with [] => ROk [] | a :: r => do v <- eval a; do vs <- evals r; ROk (v :: vs) end) l = mapM eval l.
Proof. induction l as [|a l IH]; simpl; auto. destruct (eval a); simpl; auto. rewrite IH. reflexivity. Qed.

Lemma eval_bin o a b : eval (SBin o a b) = do va <- eval a; do vb <- eval b; eval_op rot (BA o) va vb.
Proof. reflexivity. Qed.
Lemma eval_cmp c a b : eval (SCmp c a b) = do va <- eval a; do vb <- eval b; eval_op rot (BC c) va vb.
Proof. reflexivity. Qed.
Lemma eval_neg a : eval (SNeg a) = do v <- eval a; call "-" [v].
Proof. reflexivity. Qed.
Lemma eval_meth r f args : eval (SMeth r f args) = do vs <- mapM eval args; do v <- eval r; call f (v :: vs).
Proof. simpl. rewrite evals_mapM. reflexivity. Qed.
Lemma eval_call_var f n rest :
  eval (SCall f (SVar n :: rest)) = do vs <- mapM eval rest; do v <- lookup_var n; call f (v :: vs).
Proof. simpl. rewrite evals_mapM. reflexivity. Qed.
Definition evals_fix :=
  fix evals (l : list sexpr) : res (list dyn) :=
     match l with [] => ROk [] | a :: r => do v <- eval a; do vs <- evals r; ROk (v :: vs) end.
Lemma evals_fix_mapM l : evals_fix l = mapM eval l.
Proof. apply evals_mapM. Qed.
Lemma eval_call_unfold f args :
  eval (SCall f args) =
  match args with
  | SVar n :: rest => do vs <- evals_fix rest; do v <- lookup_var n; call f (v :: vs)
  | _ => do vs <- evals_fix args; call f vs
  end.
Proof. reflexivity. Qed.
Lemma eval_call_gen f args :
  (forall n rest, args <> SVar n :: rest) -> eval (SCall f args) = do vs <- mapM eval args; call f vs.
Proof.
  intros H. rewrite eval_call_unfold. destruct args as [|a rest].
  - reflexivity.
  - destruct a; try (exfalso; eapply H; reflexivity); rewrite evals_fix_mapM; reflexivity.
Qed.
Lemma eval_arr es : eval (SArr es) = rmap DArr (mapM eval es).
Proof. simpl. rewrite evals_mapM. reflexivity. Qed.

(* when every argument evaluates, the two evaluation orders cannot be told apart *)
Lemma eval_call_ok f args vs : mapM eval args = ROk vs -> eval (SCall f args) = call f vs.
Proof.
  intros H. destruct args as [|a rest].
  - simpl in H. inversion H; subst. reflexivity.
  - assert (G : forall n, a = SVar n -> eval (SCall f (a :: rest)) = call f vs).
    { intros n ->. rewrite eval_call_var. simpl in H. change (eval (SVar n)) with (lookup_var n) in H.
      destruct (lookup_var n); simpl in *; try discriminate.
      destruct (mapM eval rest); simpl in *; try discriminate. inversion H; subst. reflexivity. }
    destruct a; try (eapply G; reflexivity); (rewrite eval_call_gen; [rewrite H; reflexivity|intros n r E; discriminate]).
Qed.
Lemma eval_meth_ok r f args v vs : eval r = ROk v -> mapM eval args = ROk vs -> eval (SMeth r f args) = call f (v :: vs).
Proof. intros H1 H2. rewrite eval_meth, H2, H1. reflexivity. Qed.

(* ====================================================================================== *)
(* S1 — operand order                                                                       *)

(* overload resolution on the REAL registration table, computed *)
Lemma resolve_left nb t : In nb tree_binary_fns ->
  resolve (user_regs rot) pkg_regs (fst nb) [TTree; t] = Some (NTreeDyn (snd nb)).
Proof. intros H. simpl in H. repeat (destruct H as [<-|H]; [destruct t; vm_compute; reflexivity|]). destruct H. Qed.
Definition coercible_tag (t : tag) : Prop := t = TInt \/ t = TFloat \/ t = TArr.
Lemma resolve_right nb t : In nb tree_binary_fns -> coercible_tag t ->
  resolve (user_regs rot) pkg_regs (fst nb) [t; TTree] = Some (NDynTree (snd nb)).
Proof.
  intros H [->|[->| ->]]; simpl in H;
    repeat (destruct H as [<-|H]; [vm_compute; reflexivity|]); destruct H.
Qed.
Lemma known_binary nb : In nb tree_binary_fns -> known_name rot (fst nb) = true.
Proof. intros H. simpl in H. repeat (destruct H as [<-|H]; [vm_compute; reflexivity|]). destruct H. Qed.
Lemma resolve_unary nu : In nu tree_unary_fns ->
  resolve (user_regs rot) pkg_regs (fst nu) [TTree] = Some (NUnary (snd nu)).
Proof. intros H. simpl in H. repeat (destruct H as [<-|H]; [vm_compute; reflexivity|]). destruct H. Qed.
Lemma known_unary nu : In nu tree_unary_fns -> known_name rot (fst nu) = true.
Proof. intros H. simpl in H. repeat (destruct H as [<-|H]; [vm_compute; reflexivity|]). destruct H. Qed.

Lemma tree_from_dyn_tag d t : tree_from_dyn d = ROk t -> tag_of d = TTree \/ coercible_tag (tag_of d).
Proof. destruct d; simpl; intros H; try discriminate; unfold coercible_tag; auto. Qed.
Lemma arith_in o : In (arith_name o, arith_bop o) tree_binary_fns.
Proof. destruct o; simpl; auto 12. Qed.

(* every binary Tree function (operators included): left operand first, right operand second,
   whichever side the tree is on; the other side is coerced *)
Theorem S1_binary_call nb va vb ta tb :
  In nb tree_binary_fns ->
  tag_of va = TTree \/ tag_of vb = TTree ->
  tree_from_dyn va = ROk ta -> tree_from_dyn vb = ROk tb ->
  call_fn rot (fst nb) [va; vb] = ROk (DTree (EBin (snd nb) ta tb)).
Proof.
  intros Hin Ht Ha Hb. unfold call_fn. simpl map.
  destruct (tag_of va) eqn:Ea;
    try (destruct Ht as [Ht|Ht]; [discriminate|];
         destruct (tree_from_dyn_tag _ _ Ha) as [C|C]; [rewrite Ea in C; discriminate|];
         rewrite Ea in C; rewrite Ht, (resolve_right nb _ Hin C);
         destruct vb; try discriminate; simpl in Hb; inversion Hb; subst;
         destruct va; try discriminate; cbn [run_native]; rewrite Ha; reflexivity).
  (* va is a tree *)
  rewrite (resolve_left nb _ Hin). destruct va; try discriminate. simpl in Ha. inversion Ha; subst.
  cbn [run_native]. rewrite Hb. reflexivity.
Qed.

Theorem S1_operator_order o a b va vb ta tb :
  eval a = ROk va -> eval b = ROk vb ->
  tag_of va = TTree \/ tag_of vb = TTree ->
  tree_from_dyn va = ROk ta -> tree_from_dyn vb = ROk tb ->
  eval (SBin o a b) = ROk (DTree (EBin (arith_bop o) ta tb)).
Proof.
  intros Ea Eb Ht Ha Hb. rewrite eval_bin, Ea, Eb. simpl rbind. unfold eval_op.
  assert (V : is_variant va || is_variant vb = true).
  { destruct Ht as [H|H]; [destruct va|destruct vb]; try discriminate; simpl; auto using orb_true_r. }
  rewrite V.
  pose proof (S1_binary_call _ va vb ta tb (arith_in o) Ht Ha Hb) as C. unfold call_fn in C. simpl in C.
  change (binop_name (BA o)) with (arith_name o).
  destruct (resolve (user_regs rot) pkg_regs (arith_name o) [tag_of va; tag_of vb]); [exact C|discriminate].
Qed.

(* the named functions min max compare mix and or atan2, in call and in method spelling *)
Theorem S1_function_order nb a b va vb ta tb :
  In nb tree_binary_fns -> ident_ok (fst nb) = true ->
  eval a = ROk va -> eval b = ROk vb ->
  tag_of va = TTree \/ tag_of vb = TTree ->
  tree_from_dyn va = ROk ta -> tree_from_dyn vb = ROk tb ->
  eval (SCall (fst nb) [a; b]) = ROk (DTree (EBin (snd nb) ta tb)) /\
  eval (SMeth a (fst nb) [b]) = ROk (DTree (EBin (snd nb) ta tb)).
Proof.
  intros Hin _ Ea Eb Ht Ha Hb.
  assert (C : call (fst nb) [va; vb] = ROk (DTree (EBin (snd nb) ta tb))).
  { unfold Script.call. rewrite (known_binary _ Hin). apply S1_binary_call; auto. }
  split.
  - rewrite (eval_call_ok _ _ [va; vb]); [exact C|]. simpl. rewrite Ea, Eb. reflexivity.
  - rewrite (eval_meth_ok _ _ _ va [vb]); [exact C|exact Ea|]. simpl. rewrite Eb. reflexivity.
Qed.

Theorem S1_unary_call nu t : In nu tree_unary_fns ->
  call (fst nu) [DTree t] = ROk (DTree (EUn (snd nu) t)).
Proof.
  intros H. unfold Script.call. rewrite (known_unary _ H). unfold call_fn. simpl map. rewrite (resolve_unary _ H). reflexivity.
Qed.
Theorem S1_negate a t : eval a = ROk (DTree t) -> eval (SNeg a) = ROk (DTree (EUn UNeg t)).
Proof. intros H. rewrite eval_neg, H. simpl rbind. apply (S1_unary_call ("-", UNeg)). simpl; auto 20. Qed.
Theorem S1_unary_function nu a t : In nu tree_unary_fns -> eval a = ROk (DTree t) ->
  eval (SCall (fst nu) [a]) = ROk (DTree (EUn (snd nu) t)) /\ eval (SMeth a (fst nu) []) = ROk (DTree (EUn (snd nu) t)).
Proof.
  intros H E. split.
  - rewrite (eval_call_ok _ _ [DTree t]); [apply S1_unary_call; exact H|]. simpl. rewrite E. reflexivity.
  - rewrite (eval_meth_ok _ _ _ (DTree t) []); [apply S1_unary_call; exact H|exact E|reflexivity].
Qed.

(* f(a, rest..) and a.f(rest..) run the same native on the same values; they differ only in
   which error surfaces when BOTH a and some element of rest fail (rhai evaluates the
   arguments of a method call before its receiver) *)
Theorem S1_call_method_var f n rest : eval (SCall f (SVar n :: rest)) = eval (SMeth (SVar n) f rest).
Proof. rewrite eval_call_var, eval_meth. reflexivity. Qed.
Theorem S1_call_method_eq f a rest :
  is_ok (eval a) = true \/ is_ok (mapM eval rest) = true ->
  eval (SCall f (a :: rest)) = eval (SMeth a f rest).
Proof.
  intros H.
  assert (G : (do vs <- mapM eval (a :: rest); call f vs) = eval (SMeth a f rest)).
  { rewrite eval_meth. simpl. destruct (eval a) as [v|e] eqn:Ea; destruct (mapM eval rest) as [vs|e'] eqn:Er; simpl; auto.
    destruct H; discriminate. }
  destruct a; try (rewrite eval_call_gen; [exact G|intros ? ? E; discriminate]).
  apply S1_call_method_var.
Qed.
Theorem S1_call_method_equiv f a rest : res_equiv (eval (SCall f (a :: rest))) (eval (SMeth a f rest)).
Proof.
  destruct (eval a) as [v|e] eqn:Ea.
  - left. apply S1_call_method_eq. rewrite Ea; auto.
  - destruct (mapM eval rest) as [vs|e'] eqn:Er.
    + left. apply S1_call_method_eq. rewrite Er; auto.
    + right. split.
      * assert (G : (do vs <- mapM eval (a :: rest); call f vs) = RErr e) by (simpl; rewrite Ea; reflexivity).
        destruct a; try (rewrite eval_call_gen; [rewrite G; reflexivity|intros ? ? E; discriminate]).
        rewrite eval_call_var, Er. reflexivity.
      * rewrite eval_meth, Er. reflexivity.
Qed.

(* ====================================================================================== *)
(* S2 — coercions, and comparisons are rejected                                             *)
Theorem S2_int_is_constant z : tree_from_dyn (DInt z) = ROk (EConst (f32_of_int z)).
Proof. reflexivity. Qed.
Theorem S2_float_is_constant d : tree_from_dyn (DFloat d) = ROk (EConst (f32_of_f64 d)).
Proof. reflexivity. Qed.
Lemma tree_from_dyn_arr l : tree_from_dyn (DArr l) = rmap s_union_l (mapM tree_from_dyn l).
Proof.
  simpl. f_equal. induction l as [|a l IH]; simpl; auto. destruct (tree_from_dyn a); simpl; auto. rewrite IH. reflexivity.
Qed.
Theorem S2_array_is_union l ts : mapM tree_from_dyn l = ROk ts -> tree_from_dyn (DArr l) = ROk (s_union ts).
Proof. intros H. rewrite tree_from_dyn_arr, H. reflexivity. Qed.
Theorem S2_array_error l e : mapM tree_from_dyn l = RErr e -> tree_from_dyn (DArr l) = RErr e.
Proof. intros H. rewrite tree_from_dyn_arr, H. reflexivity. Qed.
(* nothing else is a tree *)
Theorem S2_nothing_else d : tag_of d <> TTree -> ~ coercible_tag (tag_of d) -> tree_from_dyn d = RErr ETypeMismatch.
Proof. unfold coercible_tag. destruct d; simpl; intros H1 H2; try reflexivity; try congruence; exfalso; apply H2; auto. Qed.

(* the places where a tree is expected all go through [tree_from_dyn] *)
Theorem S2_sites :
  (forall b a d, run_native (NTreeDyn b) [DTree a; d] = do t <- tree_from_dyn d; ROk (DTree (EBin b a t))) /\
  (forall b d t, run_native (NDynTree b) [d; DTree t] = do a <- tree_from_dyn d; ROk (DTree (EBin b a t))) /\
  (forall u d, run_native (NUnary u) [d] = do a <- tree_from_dyn d; ROk (DTree (EUn u a))) /\
  (forall d dflt, build_tagged_value TyTree d dflt = rmap VTree (tree_from_dyn d)) /\
  (forall d dflt, build_tagged_value TyVecTree d dflt = rmap VVecTree (vectree_from_dyn d)) /\
  (forall s t m, build_transform s t m =
     do t' <- tree_from_dyn t; do vals <- bt_fields true (s_fields s) (Some t') m;
     if unknown_key (s_fields s) m then RErr EUnknownField else finish s vals).
Proof. repeat split; intros; reflexivity. Qed.

Lemma resolve_cmp_left c t : resolve (user_regs rot) pkg_regs (cmp_name c) [TTree; t] = Some NBadCmp.
Proof. destruct c, t; vm_compute; reflexivity. Qed.
Lemma resolve_cmp_right c t : resolve (user_regs rot) pkg_regs (cmp_name c) [t; TTree] = Some NBadCmp.
Proof. destruct c, t; vm_compute; reflexivity. Qed.
Theorem S2_compare_rejected c a b va vb :
  eval a = ROk va -> eval b = ROk vb -> tag_of va = TTree \/ tag_of vb = TTree ->
  eval (SCmp c a b) = RErr ECompareTree.
Proof.
  intros Ea Eb Ht. rewrite eval_cmp, Ea, Eb. simpl rbind. unfold eval_op.
  assert (V : is_variant va || is_variant vb = true).
  { destruct Ht as [H|H]; [destruct va|destruct vb]; try discriminate; simpl; auto using orb_true_r. }
  rewrite V. change (binop_name (BC c)) with (cmp_name c).
  destruct Ht as [H|H]; rewrite H.
  - rewrite resolve_cmp_left. reflexivity.
  - rewrite resolve_cmp_right. reflexivity.
Qed.

End WithRot.

(* ====================================================================================== *)
(* classification facts                                                                    *)
Notation vfd := (fun a => value_from_dynamic a None).

Lemma chain_err (f : ty -> res value) l e :
  fold_right (fun t acc => ror (f t) acc) (RErr ETypeMismatch) l = RErr e -> e = ETypeMismatch.
Proof.
  induction l as [|t l IH]; simpl; intros H.
  - inversion H; reflexivity.
  - destruct (f t); simpl in H; [discriminate|auto].
Qed.
Lemma vfd_err d dflt e : value_from_dynamic d dflt = RErr e -> e = ETypeMismatch.
Proof. apply chain_err. Qed.
Lemma mapM_vfd_err l e : mapM vfd l = RErr e -> e = ETypeMismatch.
Proof.
  induction l as [|a l IH]; simpl; intros H; [discriminate|].
  destruct (value_from_dynamic a None) eqn:E; simpl in H.
  - destruct (mapM vfd l); simpl in H; [discriminate|]. inversion H; subst. apply IH; reflexivity.
  - inversion H; subst. eapply vfd_err; eauto.
Qed.

Lemma tagged_ty t d dflt v : build_tagged_value t d dflt = ROk v -> ty_of v = t.
Proof.
  destruct t; simpl; intros H.
  all: match type of H with rmap _ ?r = _ => destruct r as [x|]; simpl in H; [|discriminate] end.
  all: try (destruct x as [[[? ?] ?] ?]).
  all: inversion H; subst; reflexivity.
Qed.
Lemma chain_ok (f : ty -> res value) l v :
  fold_right (fun t acc => ror (f t) acc) (RErr ETypeMismatch) l = ROk v -> exists t, In t l /\ f t = ROk v.
Proof.
  induction l as [|t l IH]; simpl; intros H; [discriminate|].
  destruct (f t) eqn:E; simpl in H.
  - inversion H; subst. exists t; auto.
  - destruct (IH H) as (t' & Hin & Ht'). exists t'; auto.
Qed.
Lemma vfd_tagged_none d v : value_from_dynamic d None = ROk v -> build_tagged_value (ty_of v) d None = ROk v.
Proof.
  intros H. destruct (chain_ok _ _ _ H) as (t & _ & Ht). rewrite (tagged_ty _ _ _ _ Ht). exact Ht.
Qed.
(* the chain tries Vec2 before Vec3: a value classified as Vec3 is not a Vec2 *)
Lemma vfd_vec3_not_vec2 d v : value_from_dynamic d None = ROk (VVec3 v) -> exists e, vec2_from_dyn d = RErr e.
Proof.
  unfold value_from_dynamic, vfd_chain. cbn [fold_right]. intros H.
  destruct (build_tagged_value TyFloat d None) eqn:E1; cbn [ror] in H.
  { apply tagged_ty in E1. inversion H; subst. discriminate. }
  destruct (build_tagged_value TyVec2 d None) eqn:E2; cbn [ror] in H.
  { apply tagged_ty in E2. inversion H; subst. discriminate. }
  simpl in E2. destruct (vec2_from_dyn d); [discriminate|eauto].
Qed.
Lemma vec3_default_irrelevant d e dflt : vec2_from_dyn d = RErr e -> vec3_from_dyn d dflt = vec3_from_dyn d None.
Proof.
  intros H. unfold vec3_from_dyn. rewrite H.
  destruct d; try reflexivity. destruct l as [|a [|b [|c l]]]; try reflexivity.
  simpl in H. destruct (f32_from_dyn a); simpl in *; auto. destruct (f32_from_dyn b); simpl in *; auto. discriminate.
Qed.
(* classification is consistent with the hinted coercion of the map form, whatever the default *)
Theorem vfd_tagged d v dflt : value_from_dynamic d None = ROk v -> build_tagged_value (ty_of v) d dflt = ROk v.
Proof.
  intros H. pose proof (vfd_tagged_none _ _ H) as G. destruct v; simpl in *; auto.
  destruct (vfd_vec3_not_vec2 _ _ H) as (e & He).
  rewrite (vec3_default_irrelevant _ _ _ He). exact G.
Qed.

(* ====================================================================================== *)
(* S3 — the positional-unique form does not depend on the order of its arguments            *)
Definition put (s : slots) (v : value) : slots := sset s (ty_of v) (Some v).
Lemma fill_slots_fold args : forall s0,
  fill_slots args s0 = do vs <- mapM vfd args; ROk (fold_left put vs s0).
Proof.
  induction args as [|a r IH]; intros s0; simpl; auto.
  destruct (value_from_dynamic a None); simpl; auto. rewrite IH. destruct (mapM vfd r); reflexivity.
Qed.
Fixpoint last_of (t : ty) (vs : list value) : option value :=
  match vs with
  | [] => None
  | v :: r => match last_of t r with Some w => Some w | None => if ty_eqb t (ty_of v) then Some v else None end
  end.
Lemma fold_put vs : forall s0 t, fold_left put vs s0 t = match last_of t vs with Some w => Some w | None => s0 t end.
Proof.
  induction vs as [|v r IH]; intros s0 t; simpl; auto.
  rewrite IH. destruct (last_of t r); auto. unfold put, sset. destruct (ty_eqb t (ty_of v)); reflexivity.
Qed.
Lemma last_of_some t vs w : last_of t vs = Some w -> In w vs /\ ty_of w = t.
Proof.
  induction vs as [|v r IH]; simpl; intros H; [discriminate|].
  destruct (last_of t r) eqn:E.
  - inversion H; subst. destruct (IH eq_refl); auto.
  - destruct (ty_eqb t (ty_of v)) eqn:E2; [|discriminate]. inversion H; subst. apply ty_eqb_eq in E2. auto.
Qed.
Lemma last_of_none t vs : last_of t vs = None <-> (forall v, In v vs -> ty_of v <> t).
Proof.
  induction vs as [|v r IH]; simpl.
  - split; [intros _ v []|reflexivity].
  - destruct (last_of t r) eqn:E.
    + split; [discriminate|]. intros H. apply last_of_some in E. destruct E as [Hin Ht]. exfalso. apply (H v0); auto.
    + destruct (ty_eqb t (ty_of v)) eqn:E2.
      * split; [discriminate|]. intros H. apply ty_eqb_eq in E2. exfalso. apply (H v); auto.
      * split; auto. intros _ w [<-|Hin]; [apply ty_eqb_neq in E2; congruence|]. apply IH; auto.
Qed.
Lemma last_of_in vs : NoDup (map ty_of vs) -> forall v, In v vs -> last_of (ty_of v) vs = Some v.
Proof.
  induction vs as [|u r IH]; simpl; intros ND v Hin; [destruct Hin|].
  inversion ND as [|? ? Hnot ND']; subst.
  destruct Hin as [->|Hin].
  - assert (last_of (ty_of v) r = None).
    { apply last_of_none. intros w Hw E. apply Hnot. rewrite <- E. apply in_map; exact Hw. }
    rewrite H, ty_eqb_refl. reflexivity.
  - rewrite (IH ND' v Hin). reflexivity.
Qed.
Lemma last_of_perm t vs vs' : Permutation vs vs' -> NoDup (map ty_of vs) -> last_of t vs = last_of t vs'.
Proof.
  intros P ND.
  assert (ND' : NoDup (map ty_of vs')) by (eapply Permutation_NoDup; [apply Permutation_map; exact P|exact ND]).
  destruct (last_of t vs) eqn:E.
  - apply last_of_some in E. destruct E as [Hin <-]. symmetry. apply last_of_in; auto. eapply Permutation_in; eauto.
  - symmetry. apply last_of_none. intros v Hin. rewrite last_of_none in E. apply E. eapply Permutation_in; [apply Permutation_sym; exact P|exact Hin].
Qed.

Lemma mapM_perm {A B} (f : A -> res B) l l' : Permutation l l' ->
  forall vs, mapM f l = ROk vs -> exists vs', mapM f l' = ROk vs' /\ Permutation vs vs'.
Proof.
  induction 1 as [|x l l' P IH|x y l|l l' l'' P1 IH1 P2 IH2]; intros vs H.
  - exists vs; auto.
  - simpl in *. destruct (f x) as [bx|]; simpl in *; [|discriminate]. destruct (mapM f l); simpl in *; [|discriminate].
    inversion H; subst. destruct (IH _ eq_refl) as (vs' & -> & P'). exists (bx :: vs'); simpl; auto.
  - simpl in *. destruct (f y); simpl in *; [|discriminate]. destruct (f x); simpl in *; [|discriminate].
    destruct (mapM f l); simpl in *; [|discriminate]. inversion H; subst. eexists; split; [reflexivity|apply perm_swap].
  - destruct (IH1 _ H) as (v1 & H1 & Q1). destruct (IH2 _ H1) as (v2 & H2 & Q2). exists v2; split; auto. eapply perm_trans; eauto.
Qed.

Definition seq_slots (a b : slots) : Prop := forall t, a t = b t.
Lemma sset_ext a b t v : seq_slots a b -> seq_slots (sset a t v) (sset b t v).
Proof. intros H t'. unfold sset. destruct (ty_eqb t' t); auto. Qed.
Lemma clear_ext a b c : seq_slots a b -> seq_slots (clear a c) (clear b c).
Proof. intros H. destruct c; simpl; auto using sset_ext. Qed.
Definition step_agree (r1 r2 : res (value * slots)) : Prop :=
  match r1, r2 with
  | ROk (v, a), ROk (w, b) => v = w /\ seq_slots a b
  | RErr e, RErr e' => e = e'
  | _, _ => False
  end.
Lemma fem_step_ext hv2 hax htr f a b : seq_slots a b -> step_agree (fem_step hv2 hax htr f a) (fem_step hv2 hax htr f b).
Proof.
  intros H. unfold fem_step. rewrite (H (f_ty f)), (H TyVec2), (H TyAxis), (H TyTree).
  destruct (fem_pick hv2 hax htr f (b (f_ty f)) (b TyVec2) (b TyAxis) (b TyTree)) as [[v c]|e]; simpl; auto.
  split; [reflexivity|apply clear_ext; exact H].
Qed.
Lemma fem_fields_ext hv2 hax htr fs : forall a b, seq_slots a b ->
  match fem_fields hv2 hax htr fs a, fem_fields hv2 hax htr fs b with
  | ROk (vs, a'), ROk (ws, b') => vs = ws /\ seq_slots a' b'
  | RErr e, RErr e' => e = e'
  | _, _ => False
  end.
Proof.
  induction fs as [|f r IH]; intros a b H; simpl; [auto|].
  pose proof (fem_step_ext hv2 hax htr f a b H) as S. unfold step_agree in S.
  destruct (fem_step hv2 hax htr f a) as [[v a']|e], (fem_step hv2 hax htr f b) as [[w b']|e']; simpl; try contradiction; auto.
  destruct S as [-> S]. specialize (IH _ _ S).
  destruct (fem_fields hv2 hax htr r a') as [[vs a'']|e], (fem_fields hv2 hax htr r b') as [[ws b'']|e']; simpl; try contradiction; auto.
  destruct IH as [-> IH]. auto.
Qed.
Lemma leftover_ext a b : seq_slots a b -> leftover a = leftover b.
Proof. intros H. unfold leftover, all_tys. simpl. rewrite !H. reflexivity. Qed.
Lemma from_enum_map_gen_ext htr s a b : seq_slots a b -> from_enum_map_gen htr s a = from_enum_map_gen htr s b.
Proof.
  intros H. unfold from_enum_map_gen.
  pose proof (fem_fields_ext (has_ty (s_fields s) TyVec2) (has_ty (s_fields s) TyAxis) htr (s_fields s) a b H) as S.
  destruct (fem_fields _ _ _ _ a) as [[vs a']|e], (fem_fields _ _ _ _ b) as [[ws b']|e']; simpl; try contradiction; try congruence.
  destruct S as [-> S]. rewrite (leftover_ext _ _ S). reflexivity.
Qed.
Lemma from_enum_map_ext s a b : seq_slots a b -> from_enum_map s a = from_enum_map s b.
Proof. apply from_enum_map_gen_ext. Qed.

(* S3, for every signature: any permutation of arguments whose classified types are pairwise
   distinct builds the same shape (or fails with the same error) *)
Theorem S3_unique_order_independent s args args' :
  Permutation args args' ->
  (forall vs, mapM vfd args = ROk vs -> NoDup (map ty_of vs)) ->
  build_unique s args = build_unique s args'.
Proof.
  intros P ND. unfold build_unique. rewrite !fill_slots_fold.
  destruct (mapM vfd args) as [vs|e] eqn:E.
  - destruct (mapM_perm _ _ _ P _ E) as (vs' & E' & Q). rewrite E'. simpl.
    apply from_enum_map_ext. intros t. rewrite !fold_put. rewrite (last_of_perm t _ _ Q (ND _ eq_refl)). reflexivity.
  - destruct (mapM vfd args') as [vs'|e'] eqn:E'.
    + destruct (mapM_perm _ _ _ (Permutation_sym P) _ E') as (vs & E2 & _). congruence.
    + apply mapM_vfd_err in E. apply mapM_vfd_err in E'. subst. reflexivity.
Qed.

(* ---- S3 at the level of a CALL: which native runs ------------------------------------------ *)
Definition call_with (user pkg : list reg) (nm : string) (args : list dyn) : res dyn :=
  match resolve user pkg nm (map tag_of args) with
  | Some f => run_native f args
  | None => RErr ENoSuchFunction
  end.
Lemma call_fn_with rot nm args : call_fn rot nm args = call_with (user_regs rot) pkg_regs nm args.
Proof. reflexivity. Qed.

Lemma cands_shape tys : forall c, In c (cands tys) -> Forall2 (fun p t => p = PDyn \/ p = PT t) c tys.
Proof.
  induction tys as [|t r IH]; simpl; intros c H.
  - destruct H as [<-|[]]. constructor.
  - apply in_app_or in H. destruct H as [H|H]; apply in_map_iff in H; destruct H as (c' & <- & Hc); constructor; auto.
Qed.
Lemma cands_last tys : exists pre, cands tys = pre ++ [dyns (List.length tys)] /\ forall c, In c pre -> c <> dyns (List.length tys).
Proof.
  induction tys as [|t r IH]; simpl.
  - exists []. split; [reflexivity|intros c []].
  - destruct IH as (pre & E & Hpre). rewrite E.
    exists (map (cons (PT t)) (pre ++ [dyns (List.length r)]) ++ map (cons PDyn) pre). split.
    + rewrite (map_app (cons PDyn)). simpl. rewrite app_assoc. reflexivity.
    + intros c H. apply in_app_or in H. destruct H as [H|H]; apply in_map_iff in H; destruct H as (c' & <- & Hc).
      * unfold dyns. simpl. discriminate.
      * unfold dyns in *. simpl. intros E'. inversion E'. apply (Hpre c'); auto.
Qed.
Lemma first_some_app {A B} (f : A -> option B) l x :
  (forall a, In a l -> f a = None) -> first_some f (l ++ [x]) = f x.
Proof.
  induction l as [|a l IH]; simpl; intros H.
  - destruct (f x); reflexivity.
  - rewrite (H a) by auto. apply IH. intros b Hb. apply H; auto.
Qed.
Lemma find_last_some rs nm ps : forall acc f, find_last rs nm ps acc = Some f ->
  acc = Some f \/ exists r, In r rs /\ r_name r = nm /\ r_params r = ps /\ r_fn r = f.
Proof.
  induction rs as [|r rs IH]; simpl; intros acc f H; [auto|].
  destruct (IH _ _ H) as [E|(r' & Hin & Hr)].
  - destruct (String.eqb (r_name r) nm && ptys_eqb (r_params r) ps) eqn:C; [|auto].
    apply andb_true_iff in C. destruct C as [C1 C2]. apply String.eqb_eq in C1. apply ptys_eqb_eq in C2.
    inversion E; subst. right. exists r. auto.
  - right. exists r'. split; [right; exact Hin|exact Hr].
Qed.
Lemma lookup_some user pkg nm ps f : lookup user pkg nm ps = Some f ->
  exists r, In r (user ++ pkg) /\ r_name r = nm /\ r_params r = ps /\ r_fn r = f.
Proof.
  unfold lookup. intros H. destruct (find_last user nm ps None) eqn:E.
  - inversion H; subst. destruct (find_last_some _ _ _ _ _ E) as [C|(r & Hin & Hr)]; [discriminate|].
    exists r. split; [apply in_or_app; auto|exact Hr].
  - destruct (find_last_some _ _ _ _ _ H) as [C|(r & Hin & Hr)]; [discriminate|].
    exists r. split; [apply in_or_app; auto|exact Hr].
Qed.

(* a registration that can never be selected for arguments with these type tags *)
Definition excluded (r : reg) (tags : list tag) : Prop := exists t, In (PT t) (r_params r) /\ ~ In t tags.

Lemma forall2_in_pt c tys t : Forall2 (fun p t => p = PDyn \/ p = PT t) c tys -> In (PT t) c -> In t tys.
Proof.
  induction 1 as [|p t' c' tys' Hp _ IH]; simpl; intros H; [destruct H|].
  destruct H as [->|H]; [destruct Hp as [Hp|Hp]; [discriminate|inversion Hp; auto]|auto].
Qed.
Lemma forall2_len {A B} (R : A -> B -> Prop) l l' : Forall2 R l l' -> List.length l = List.length l'.
Proof. induction 1; simpl; auto. Qed.

(* if every same-named registration of this arity is all-Dynamic or excluded, the all-Dynamic one runs *)
Lemma resolve_only_dyn user pkg nm tys :
  (forall r, In r (user ++ pkg) -> r_name r = nm -> List.length (r_params r) = List.length tys ->
     r_params r = dyns (List.length tys) \/ excluded r tys) ->
  resolve user pkg nm tys = lookup user pkg nm (dyns (List.length tys)).
Proof.
  intros H. unfold resolve. destruct (cands_last tys) as (pre & E & Hpre). rewrite E.
  apply first_some_app. intros c Hc.
  destruct (lookup user pkg nm c) as [f|] eqn:L; [|reflexivity]. exfalso.
  destruct (lookup_some _ _ _ _ _ L) as (r & Hin & Hn & Hp & _).
  assert (Sh : Forall2 (fun p t => p = PDyn \/ p = PT t) c tys).
  { apply cands_shape. rewrite E. apply in_or_app; auto. }
  destruct (H r Hin Hn) as [D|(t & Ht & Hnot)].
  - rewrite Hp. apply forall2_len in Sh. exact Sh.
  - rewrite Hp in D. apply (Hpre c Hc D).
  - rewrite Hp in Ht. apply Hnot. eapply forall2_in_pt; eauto.
Qed.

Theorem S3_call_order_independent user pkg nm s k args args' :
  Permutation args args' ->
  (forall r, In r (user ++ pkg) -> r_name r = nm -> List.length (r_params r) = List.length args ->
     r_params r = dyns (List.length args) \/ excluded r (map tag_of args)) ->
  lookup user pkg nm (dyns (List.length args)) = Some (NUnique s k) ->
  (forall vs, mapM vfd args = ROk vs -> NoDup (map ty_of vs)) ->
  call_with user pkg nm args = call_with user pkg nm args'.
Proof.
  intros P H L ND. unfold call_with.
  assert (Lm : List.length (map tag_of args) = List.length args) by apply map_length.
  assert (Lp : List.length args' = List.length args) by (symmetry; apply Permutation_length; exact P).
  rewrite (resolve_only_dyn user pkg nm (map tag_of args)).
  2:{ intros r Hin Hn Hl. rewrite Lm in *. apply H; auto. }
  rewrite (resolve_only_dyn user pkg nm (map tag_of args')).
  2:{ intros r Hin Hn Hl. rewrite map_length, Lp in *. destruct (H r Hin Hn Hl) as [D|(t & Ht & Hnot)]; [left; exact D|].
      right. exists t. split; auto. intros Hin'. apply Hnot.
      eapply Permutation_in; [apply Permutation_map, Permutation_sym; exact P|exact Hin']. }
  rewrite !map_length, Lp, L. simpl. apply S3_unique_order_independent; auto.
Qed.

(* ---- ... instantiated on the engine's real table ------------------------------------------- *)
Lemma vfd_map_fails m : value_from_dynamic (DMap m) None = RErr ETypeMismatch.
Proof. reflexivity. Qed.
Lemma mapM_vfd_no_map args vs : mapM vfd args = ROk vs -> ~ In TMap (map tag_of args).
Proof.
  revert vs. induction args as [|a r IH]; simpl; intros vs H; [tauto|].
  destruct (value_from_dynamic a None) eqn:E; simpl in H; [|discriminate].
  destruct (mapM vfd r) eqn:E2; simpl in H; [|discriminate].
  intros [C|C]; [|eapply IH; eauto]. destruct a; try discriminate.
Qed.

Definition dyn_or_map (r : reg) : bool :=
  ptys_eqb (r_params r) (dyns (List.length (r_params r))) || existsb (fun p => pty_eqb p (PT TMap)) (r_params r).
Definition s3_safe (rs : list reg) (nm : string) (n : nat) : bool :=
  forallb (fun r => negb (String.eqb (r_name r) nm && Nat.eqb (List.length (r_params r)) n) || dyn_or_map r) rs.
Definition is_unique_reg (r : reg) : bool := match r_fn r with NUnique _ _ => true | _ => false end.

Section Engine.
Variable rot : @vec3 f32 -> f32 -> list f32.

(* of all build_unique registrations only `plane/2` shares its (name, arity) with an overload that
   is selected by an argument TYPE: types.rs registers plane(Dynamic, f64) *)
Lemma unique_regs_safe :
  forallb (fun r => negb (is_unique_reg r) || s3_safe (user_regs rot ++ pkg_regs) (r_name r) (List.length (r_params r))
                    || String.eqb (r_name r) "plane") (user_regs rot ++ pkg_regs) = true.
Proof. vm_compute. reflexivity. Qed.

Theorem S3_engine nm s k args args' vs :
  Permutation args args' ->
  lookup (user_regs rot) pkg_regs nm (dyns (List.length args)) = Some (NUnique s k) ->
  nm <> "plane" ->
  mapM vfd args = ROk vs -> NoDup (map ty_of vs) ->
  call_fn rot nm args = call_fn rot nm args'.
Proof.
  intros P L Hnm E ND. rewrite !call_fn_with.
  apply (S3_call_order_independent _ _ nm s k); auto.
  2:{ intros vs' E'. rewrite E in E'. inversion E'; subst; exact ND. }
  destruct (lookup_some _ _ _ _ _ L) as (r0 & Hin0 & Hn0 & Hp0 & Hf0).
  pose proof unique_regs_safe as U. rewrite forallb_forall in U. specialize (U r0 Hin0).
  unfold is_unique_reg in U. rewrite Hf0 in U. cbn [negb orb] in U.
  apply orb_true_iff in U. destruct U as [U|U]; [|apply String.eqb_eq in U; congruence].
  rewrite Hn0, Hp0 in U. unfold dyns in U. rewrite repeat_length in U.
  unfold s3_safe in U. rewrite forallb_forall in U.
  intros r Hin Hn Hl. specialize (U r Hin). rewrite Hn, Hl, String.eqb_refl, Nat.eqb_refl in U. cbn [negb andb orb] in U.
  unfold dyn_or_map in U. apply orb_true_iff in U. destruct U as [U|U].
  - left. apply ptys_eqb_eq in U. rewrite U, Hl. reflexivity.
  - right. exists TMap. apply existsb_exists in U. destruct U as (p & Hp & Ep). apply pty_eqb_eq in Ep. subst.
    split; auto. eapply mapM_vfd_no_map; eauto.
Qed.

End Engine.


(* ====================================================================================== *)
(* S4 — the call forms agree                                                               *)

(* "the same field values": for each field of the signature, either nothing is supplied or a
   dynamic value [d] whose classification [v] has the field's type *)
Definition supplied := list (field * option (dyn * value)).
Definition sup_ok (l : supplied) : Prop :=
  forall f d v, In (f, Some (d, v)) l -> value_from_dynamic d None = ROk v /\ ty_of v = f_ty f.
Definition map_of (l : supplied) : list (string * dyn) :=
  flat_map (fun fo => match snd fo with Some (d, _) => [(f_name (fst fo), d)] | None => [] end) l.
Definition args_of (l : supplied) : list dyn :=
  flat_map (fun fo => match snd fo with Some (d, _) => [d] | None => [] end) l.
Definition vals_of (l : supplied) : list value :=
  flat_map (fun fo => match snd fo with Some (_, v) => [v] | None => [] end) l.
(* what every form should build: the supplied value, else the declared default, else nothing *)
Fixpoint spec_vals (l : supplied) : option (list value) :=
  match l with
  | [] => Some []
  | (f, o) :: r =>
      match (match o with Some (_, v) => Some v | None => f_default f end), spec_vals r with
      | Some v, Some vs => Some (v :: vs)
      | _, _ => None
      end
  end.

Lemma map_get_absent (l : supplied) k : (forall fo, In fo l -> f_name (fst fo) <> k) -> map_get (map_of l) k = None.
Proof.
  induction l as [|[f o] r IH]; simpl; intros H; auto.
  destruct o as [[d v]|]; simpl.
  - destruct (String.eqb (f_name f) k) eqn:E; [apply String.eqb_eq in E; exfalso; apply (H (f, Some (d, v))); auto|].
    apply IH. intros fo Hin. apply H; auto.
  - apply IH. intros fo Hin. apply H; auto.
Qed.
Lemma map_get_of (l : supplied) : NoDup (map f_name (map fst l)) ->
  forall f o, In (f, o) l -> map_get (map_of l) (f_name f) = option_map fst o.
Proof.
  induction l as [|[f0 o0] r IH]; simpl; intros ND f o Hin; [destruct Hin|].
  inversion ND as [|? ? Hnot ND']; subst.
  destruct Hin as [E|Hin].
  - inversion E; subst. destruct o as [[d v]|]; simpl.
    + rewrite String.eqb_refl. reflexivity.
    + apply map_get_absent. intros fo Hfo E'. apply Hnot. rewrite <- E'. apply in_map, in_map. exact Hfo.
  - assert (Hne : f_name f0 <> f_name f).
    { intros E. apply Hnot. rewrite E. apply (in_map fst) in Hin. apply (in_map f_name) in Hin. exact Hin. }
    destruct o0 as [[d0 v0]|]; simpl.
    + apply String.eqb_neq in Hne. rewrite Hne. apply IH; auto.
    + apply IH; auto.
Qed.

Lemma bfm_spec (l : supplied) m :
  (forall f o, In (f, o) l -> map_get m (f_name f) = option_map fst o) -> sup_ok l ->
  bfm_fields (map fst l) m = match spec_vals l with Some vals => ROk vals | None => RErr EMissingField end.
Proof.
  induction l as [|[f o] r IH]; intros Hg Hok; simpl; auto.
  rewrite (Hg f o) by (left; reflexivity).
  assert (IH' : bfm_fields (map fst r) m = match spec_vals r with Some vals => ROk vals | None => RErr EMissingField end).
  { apply IH. - intros f' o' Hin. apply Hg. right; exact Hin. - intros f' d v Hin. apply (Hok f' d v). right; exact Hin. }
  destruct o as [[d v]|]; simpl.
  - destruct (Hok f d v) as [Hv Ht]; [left; reflexivity|]. rewrite <- Ht, (vfd_tagged _ _ _ Hv). simpl.
    rewrite IH'. destruct (spec_vals r); reflexivity.
  - destruct (f_default f); simpl; [|reflexivity]. rewrite IH'. destruct (spec_vals r); reflexivity.
Qed.
Lemma unknown_key_of (l : supplied) : unknown_key (map fst l) (map_of l) = false.
Proof.
  unfold unknown_key. apply not_true_is_false. intros H. apply existsb_exists in H. destruct H as ([k d] & Hin & Hk).
  unfold map_of in Hin. apply in_flat_map in Hin. destruct Hin as ([f o] & Hl & Hk'). simpl in Hk'.
  destruct o as [[d' v']|]; [|destruct Hk']. destruct Hk' as [E|[]]. inversion E; subst.
  simpl in Hk. apply negb_true_iff in Hk. unfold has_key in Hk.
  assert (existsb (fun f0 => String.eqb (f_name f0) (f_name f)) (map fst l) = true); [|congruence].
  apply existsb_exists. exists f. split; [apply (in_map fst) in Hl; exact Hl|apply String.eqb_refl].
Qed.
Theorem S4_map_form s (l : supplied) :
  s_fields s = map fst l -> sup_ok l -> NoDup (map f_name (map fst l)) ->
  build_from_map s (map_of l) = match spec_vals l with Some vals => finish s vals | None => RErr EMissingField end.
Proof.
  intros Hs Hok ND. unfold build_from_map. rewrite Hs, (bfm_spec l (map_of l)); auto.
  - destruct (spec_vals l); simpl; [rewrite unknown_key_of; reflexivity|reflexivity].
  - apply map_get_of; exact ND.
Qed.

(* the slots the unique form fills *)
Fixpoint slot_of (l : supplied) (t : ty) : option value :=
  match l with
  | [] => None
  | (f, Some (_, v)) :: r => if ty_eqb t (f_ty f) then Some v else slot_of r t
  | (_, None) :: r => slot_of r t
  end.
Lemma slot_of_has l t v : slot_of l t = Some v -> has_ty (map fst l) t = true.
Proof.
  induction l as [|[f o] r IH]; simpl; intros H; [discriminate|].
  unfold has_ty in *. simpl.
  destruct o as [[d w]|].
  - destruct (ty_eqb t (f_ty f)) eqn:E.
    + apply ty_eqb_eq in E. subst. rewrite ty_eqb_refl. reflexivity.
    + rewrite (IH H). apply orb_true_r.
  - rewrite (IH H). apply orb_true_r.
Qed.
Lemma slot_of_absent l t : ~ In t (map f_ty (map fst l)) -> slot_of l t = None.
Proof.
  intros H. destruct (slot_of l t) eqn:E; auto. exfalso. apply H.
  apply slot_of_has in E. unfold has_ty in E. apply existsb_exists in E. destruct E as (f & Hin & Ht).
  apply ty_eqb_eq in Ht. subst. apply in_map; exact Hin.
Qed.
Definition sup_ty (l : supplied) : Prop := forall f d v, In (f, Some (d, v)) l -> ty_of v = f_ty f.
Lemma last_of_vals l : NoDup (map f_ty (map fst l)) -> sup_ty l -> forall t, last_of t (vals_of l) = slot_of l t.
Proof.
  induction l as [|[f o] r IH]; simpl; intros ND Hty t; auto.
  inversion ND as [|? ? Hnot ND']; subst.
  assert (Hty' : sup_ty r) by (intros f' d v Hin; apply (Hty f' d v); right; exact Hin).
  destruct o as [[d v]|]; simpl; [|apply IH; auto].
  rewrite (IH ND' Hty' t). rewrite (Hty f d v) by (left; reflexivity).
  destruct (ty_eqb t (f_ty f)) eqn:E.
  - apply ty_eqb_eq in E. subst. rewrite (slot_of_absent r (f_ty f) Hnot). reflexivity.
  - destruct (slot_of r t); reflexivity.
Qed.
Lemma vals_of_types l : sup_ty l -> NoDup (map f_ty (map fst l)) -> NoDup (map ty_of (vals_of l)).
Proof.
  induction l as [|[f o] r IH]; simpl; intros Hty ND; [constructor|].
  inversion ND as [|? ? Hnot ND']; subst.
  assert (Hty' : sup_ty r) by (intros f' d v Hin; apply (Hty f' d v); right; exact Hin).
  destruct o as [[d v]|]; simpl; [|apply IH; auto].
  constructor; [|apply IH; auto].
  rewrite (Hty f d v) by (left; reflexivity). intros Hin. apply Hnot.
  apply in_map_iff in Hin. destruct Hin as (w & Hw & Hin). unfold vals_of in Hin. apply in_flat_map in Hin.
  destruct Hin as ([g o] & Hg & Hw'). simpl in Hw'. destruct o as [[d' w']|]; [|destruct Hw']. destruct Hw' as [->|[]].
  rewrite <- Hw, (Hty' g d' w Hg). apply in_map. apply (in_map fst) in Hg. exact Hg.
Qed.
Lemma mapM_args_of l : sup_ok l -> mapM vfd (args_of l) = ROk (vals_of l).
Proof.
  induction l as [|[f o] r IH]; simpl; intros Hok; auto.
  assert (Hok' : sup_ok r) by (intros f' d v Hin; apply (Hok f' d v); right; exact Hin).
  destruct o as [[d v]|]; simpl; [|apply IH; auto].
  destruct (Hok f d v) as [Hv _]; [left; reflexivity|]. rewrite Hv. simpl. rewrite (IH Hok'). reflexivity.
Qed.

(* the loop of from_enum_map, started on exactly the supplied slots: no upgrade can fire, because an
   upgrade needs a filled slot whose type no field has *)
Lemma fem_spec hv2 hax htr (l : supplied) :
  NoDup (map f_ty (map fst l)) ->
  (has_ty (map fst l) TyVec2 = true -> hv2 = true) ->
  (has_ty (map fst l) TyAxis = true -> hax = true) ->
  (has_ty (map fst l) TyTree = true -> htr = true) ->
  forall vs, (forall t, vs t = slot_of l t) ->
  match spec_vals l with
  | Some vals => exists vs', fem_fields hv2 hax htr (map fst l) vs = ROk (vals, vs') /\ forall t, vs' t = None
  | None => fem_fields hv2 hax htr (map fst l) vs = RErr EMissingArg
  end.
Proof.
  induction l as [|[f o] r IH]; intros ND H2 HA HT vs Hvs.
  - simpl. exists vs. split; auto.
  - inversion ND as [|? ? Hnot ND']; subst.
    assert (Hsub : forall t, has_ty (map fst r) t = true -> has_ty (map fst ((f, o) :: r)) t = true).
    { intros t H. unfold has_ty in *. simpl. rewrite H. apply orb_true_r. }
    assert (H2' := fun H => H2 (Hsub TyVec2 H)). assert (HA' := fun H => HA (Hsub TyAxis H)). assert (HT' := fun H => HT (Hsub TyTree H)).
    cbn [map fst fem_fields spec_vals].
    destruct o as [[d v]|].
    + (* supplied: the slot is taken *)
      assert (S : fem_step hv2 hax htr f vs = ROk (v, sset vs (f_ty f) None)).
      { unfold fem_step, fem_pick. rewrite (Hvs (f_ty f)). simpl. rewrite ty_eqb_refl. reflexivity. }
      rewrite S. cbn [rbind fst snd].
      assert (Hvs' : forall t, sset vs (f_ty f) None t = slot_of r t).
      { intros t. unfold sset. destruct (ty_eqb t (f_ty f)) eqn:E.
        - apply ty_eqb_eq in E. subst. symmetry. apply slot_of_absent. exact Hnot.
        - rewrite (Hvs t). simpl. rewrite E. reflexivity. }
      specialize (IH ND' H2' HA' HT' _ Hvs'). destruct (spec_vals r) as [vals|].
      * destruct IH as (vs' & E & Hn). rewrite E. simpl. eauto.
      * rewrite IH. reflexivity.
    + (* not supplied: default or error *)
      assert (Hown : vs (f_ty f) = None).
      { rewrite (Hvs (f_ty f)). simpl. apply slot_of_absent. exact Hnot. }
      assert (Hvs' : forall t, vs t = slot_of r t) by (intros t; rewrite (Hvs t); reflexivity).
      assert (S : fem_step hv2 hax htr f vs = match f_default f with Some dv => ROk (dv, vs) | None => RErr EMissingArg end).
      { unfold fem_step, fem_pick, dflt_or_missing. rewrite Hown.
        assert (V2 : forall v2, vs TyVec2 = Some v2 -> hv2 = true).
        { intros v2 E. apply H2. rewrite (Hvs TyVec2) in E. apply slot_of_has in E. exact E. }
        assert (AX : forall va, vs TyAxis = Some va -> hax = true).
        { intros va E. apply HA. rewrite (Hvs TyAxis) in E. apply slot_of_has in E. exact E. }
        assert (TR : forall vt, vs TyTree = Some vt -> htr = true).
        { intros vt E. apply HT. rewrite (Hvs TyTree) in E. apply slot_of_has in E. exact E. }
        destruct (f_ty f), (vs TyVec2) as [v2|] eqn:E2, (f_default f) as [dv|], (vs TyAxis) as [va|] eqn:EA, (vs TyTree) as [vt|] eqn:ET;
          try rewrite (V2 _ eq_refl); try rewrite (AX _ eq_refl); try rewrite (TR _ eq_refl); reflexivity. }
      rewrite S. specialize (IH ND' H2' HA' HT' _ Hvs').
      destruct (f_default f) as [dv|]; [|reflexivity]. cbn [rbind fst snd].
      destruct (spec_vals r) as [vals|].
      * destruct IH as (vs' & E & Hn). rewrite E. simpl. eauto.
      * rewrite IH. reflexivity.
Qed.
Lemma leftover_none vs : (forall t, vs t = None) -> leftover vs = false.
Proof. intros H. unfold leftover, all_tys. simpl. rewrite !H. reflexivity. Qed.

Lemma fem_gen_spec htr s (l : supplied) :
  s_fields s = map fst l -> sup_ok l -> NoDup (map f_ty (map fst l)) ->
  (has_ty (map fst l) TyTree = true -> htr = true) ->
  from_enum_map_gen htr s (fold_left put (vals_of l) no_slots) =
  match spec_vals l with Some vals => finish s vals | None => RErr EMissingArg end.
Proof.
  intros Hs Hok ND HT.
  assert (Hty : sup_ty l) by (intros f d v Hin; apply (Hok f d v Hin)).
  unfold from_enum_map_gen. rewrite Hs.
  pose proof (fem_spec (has_ty (map fst l) TyVec2) (has_ty (map fst l) TyAxis) htr l ND (fun H => H) (fun H => H) HT
                (fold_left put (vals_of l) no_slots)) as F.
  assert (Hvs : forall t, fold_left put (vals_of l) no_slots t = slot_of l t).
  { intros t. rewrite fold_put, (last_of_vals l ND Hty t). destruct (slot_of l t); reflexivity. }
  specialize (F Hvs). destruct (spec_vals l) as [vals|].
  - destruct F as (vs' & E & Hn). rewrite E. cbn [rbind fst snd]. rewrite (leftover_none _ Hn). reflexivity.
  - rewrite F. reflexivity.
Qed.
Theorem S4_unique_form s (l : supplied) args' :
  s_fields s = map fst l -> sup_ok l -> NoDup (map f_ty (map fst l)) -> Permutation (args_of l) args' ->
  build_unique s args' = match spec_vals l with Some vals => finish s vals | None => RErr EMissingArg end.
Proof.
  intros Hs Hok ND P.
  assert (Hty : sup_ty l) by (intros f d v Hin; apply (Hok f d v Hin)).
  rewrite <- (S3_unique_order_independent s _ _ P).
  2:{ intros vs E. rewrite (mapM_args_of l Hok) in E. inversion E; subst. apply vals_of_types; auto. }
  unfold build_unique. rewrite fill_slots_fold, (mapM_args_of l Hok). cbn [rbind].
  unfold from_enum_map. apply fem_gen_spec; auto. rewrite Hs. auto.
Qed.
(* the same, for the code before 0735cc3: the repair did not change this case *)
Theorem S4_unique_form_old s (l : supplied) :
  s_fields s = map fst l -> sup_ok l -> NoDup (map f_ty (map fst l)) ->
  build_unique_old s (args_of l) = match spec_vals l with Some vals => finish s vals | None => RErr EMissingArg end.
Proof.
  intros Hs Hok ND. unfold build_unique_old. rewrite fill_slots_fold, (mapM_args_of l Hok). cbn [rbind].
  unfold from_enum_map_old. apply fem_gen_spec; auto.
Qed.

(* S4, map form vs positional-unique form, for every signature with pairwise distinct field types and
   names: both build the same shape from the same supplied values, every omitted field takes its
   declared default in both, and both fail when an omitted field has no default *)
Theorem S4_map_vs_unique s (l : supplied) args' :
  s_fields s = map fst l -> sup_ok l ->
  NoDup (map f_name (map fst l)) -> NoDup (map f_ty (map fst l)) -> Permutation (args_of l) args' ->
  match spec_vals l with
  | Some vals => build_from_map s (map_of l) = finish s vals /\ build_unique s args' = finish s vals
  | None => build_from_map s (map_of l) = RErr EMissingField /\ build_unique s args' = RErr EMissingArg
  end.
Proof.
  intros Hs Hok NDn NDt P.
  pose proof (S4_map_form s l Hs Hok NDn) as M. pose proof (S4_unique_form s l args' Hs Hok NDt P) as U.
  destruct (spec_vals l); auto.
Qed.

(* ---- the ordered form -------------------------------------------------------------------- *)
Definition all_supplied (l : supplied) : Prop := forall f o, In (f, o) l -> o <> None.
Lemma all_supplied_tl fo l : all_supplied (fo :: l) -> all_supplied l.
Proof. intros H f o Hin. apply (H f o). right; exact Hin. Qed.
Lemma spec_all l : all_supplied l -> spec_vals l = Some (vals_of l).
Proof.
  induction l as [|[f o] r IH]; simpl; intros H; auto.
  rewrite (IH (all_supplied_tl _ _ H)). destruct o as [[d v]|]; [reflexivity|]. exfalso. apply (H f None); auto. left; reflexivity.
Qed.
Lemma fvl_ok l : all_supplied l -> sup_ty l -> fvl (map fst l) (vals_of l) = ROk (vals_of l).
Proof.
  induction l as [|[f o] r IH]; simpl; intros H Hty; auto.
  assert (Hty' : sup_ty r) by (intros f' d v Hin; apply (Hty f' d v); right; exact Hin).
  destruct o as [[d v]|]; [|exfalso; apply (H f None); auto; left; reflexivity].
  simpl. rewrite (Hty f d v) by (left; reflexivity). rewrite ty_eqb_refl.
  rewrite (IH (all_supplied_tl _ _ H) Hty'). reflexivity.
Qed.
Lemma vals_len l : all_supplied l -> List.length (vals_of l) = List.length l.
Proof.
  induction l as [|[f o] r IH]; simpl; intros H; auto.
  destruct o as [[d v]|]; [|exfalso; apply (H f None); auto; left; reflexivity].
  simpl. rewrite (IH (all_supplied_tl _ _ H)). reflexivity.
Qed.
(* S4, ordered form: with every field supplied in declaration order it builds what the map form builds *)
Theorem S4_ordered_vs_map s (l : supplied) :
  s_fields s = map fst l -> sup_ok l -> all_supplied l -> NoDup (map f_name (map fst l)) ->
  build_ordered s (args_of l) = finish s (vals_of l) /\ build_from_map s (map_of l) = finish s (vals_of l).
Proof.
  intros Hs Hok Hall ND. split.
  - unfold build_ordered. rewrite (mapM_args_of l Hok). cbn [rbind]. rewrite Hs, map_length, (vals_len l Hall), Nat.eqb_refl.
    cbn [negb]. rewrite fvl_ok; auto. intros f d v Hin. apply (Hok f d v Hin).
  - rewrite (S4_map_form s l Hs Hok ND), (spec_all l Hall). reflexivity.
Qed.

(* ---- the transform (chained) form ---------------------------------------------------------- *)
Lemma bt_bfm rest k t m :
  (forall f, In f rest -> f_ty f <> TyTree /\ f_name f <> k) ->
  bt_fields true rest None m = bfm_fields rest ((k, t) :: m).
Proof.
  induction rest as [|f r IH]; simpl; intros H; auto.
  destruct (H f) as (Ht & Hk); [left; reflexivity|].
  assert (E : String.eqb k (f_name f) = false) by (apply String.eqb_neq; congruence). rewrite E.
  rewrite (IH (fun f' Hin => H f' (or_intror Hin))).
  destruct (f_ty f); try reflexivity. congruence.
Qed.
(* S4, transform form (current code): `f(t, #{..})` / `t.f(#{..})` IS the map form with the tree stored
   under the first field's name — omitted defaulted fields included *)
Theorem S4_transform_vs_map s t m f0 rest :
  s_fields s = f0 :: rest -> f_ty f0 = TyTree ->
  (forall f, In f rest -> f_ty f <> TyTree /\ f_name f <> f_name f0) ->
  build_transform s t m = build_from_map s ((f_name f0, t) :: m).
Proof.
  intros Hs Ht0 H. unfold build_transform, build_transform_gen, build_from_map. rewrite Hs. cbn [bt_fields bfm_fields map_get].
  rewrite Ht0, String.eqb_refl. cbn [build_tagged_value].
  destruct (tree_from_dyn t) as [t'|e]; cbn [rbind rmap]; [|reflexivity].
  rewrite (bt_bfm rest (f_name f0) t m H).
  destruct (bfm_fields rest ((f_name f0, t) :: m)); cbn [rbind]; [|reflexivity].
  unfold unknown_key. cbn [existsb fst]. unfold has_key at 2. cbn [existsb]. rewrite String.eqb_refl. reflexivity.
Qed.
(* before 2eb99d2 this needed the map to mention every non-tree field *)
Lemma bt_bfm_old rest k t m :
  (forall f, In f rest -> f_ty f <> TyTree /\ f_name f <> k /\ map_get m (f_name f) <> None) ->
  bt_fields false rest None m = bfm_fields rest ((k, t) :: m).
Proof.
  induction rest as [|f r IH]; simpl; intros H; auto.
  destruct (H f) as (Ht & Hk & Hm); [left; reflexivity|].
  assert (E : String.eqb k (f_name f) = false) by (apply String.eqb_neq; congruence). rewrite E.
  destruct (map_get m (f_name f)) as [d|]; [|congruence].
  rewrite (IH (fun f' Hin => H f' (or_intror Hin))).
  destruct (f_ty f); try reflexivity. congruence.
Qed.
Theorem S4_transform_vs_map_old s t m f0 rest :
  s_fields s = f0 :: rest -> f_ty f0 = TyTree ->
  (forall f, In f rest -> f_ty f <> TyTree /\ f_name f <> f_name f0 /\ map_get m (f_name f) <> None) ->
  build_transform_old s t m = build_from_map s ((f_name f0, t) :: m).
Proof.
  intros Hs Ht0 H. unfold build_transform_old, build_transform_gen, build_from_map. rewrite Hs. cbn [bt_fields bfm_fields map_get].
  rewrite Ht0, String.eqb_refl. cbn [build_tagged_value].
  destruct (tree_from_dyn t) as [t'|e]; cbn [rbind rmap]; [|reflexivity].
  rewrite (bt_bfm_old rest (f_name f0) t m H).
  destruct (bfm_fields rest ((f_name f0, t) :: m)); cbn [rbind]; [|reflexivity].
  unfold unknown_key. cbn [existsb fst]. unfold has_key at 2. cbn [existsb]. rewrite String.eqb_refl. reflexivity.
Qed.
Lemma is_transform_shape fs : is_transform fs = true ->
  exists f0 rest, fs = f0 :: rest /\ f_ty f0 = TyTree /\ forall f, In f rest -> f_ty f <> TyTree.
Proof.
  unfold is_transform. intros H. apply andb_true_iff in H. destruct H as [H _]. apply andb_true_iff in H. destruct H as [Hc Hf].
  destruct fs as [|f0 rest]; [discriminate|]. simpl in Hf. apply ty_eqb_eq in Hf.
  exists f0, rest. split; [reflexivity|]. split; [exact Hf|].
  unfold count_ty in Hc. simpl in Hc. rewrite Hf in Hc. simpl in Hc. apply Nat.eqb_eq in Hc. inversion Hc as [Hl].
  intros f Hin E. assert (In f (filter (fun f1 => ty_eqb (f_ty f1) TyTree) rest)).
  { apply filter_In. split; auto. rewrite E. reflexivity. }
  destruct (filter (fun f1 => ty_eqb (f_ty f1) TyTree) rest); [contradiction|discriminate].
Qed.

(* ---- missing fields and unknown keys ---------------------------------------------------------- *)
Lemma bfm_missing fs m f : In f fs -> f_default f = None -> map_get m (f_name f) = None -> is_ok (bfm_fields fs m) = false.
Proof.
  induction fs as [|g r IH]; simpl; intros Hin Hd Hm; [destruct Hin|].
  destruct Hin as [->|Hin].
  - rewrite Hm, Hd. reflexivity.
  - destruct (match map_get m (f_name g) with Some d => _ | None => _ end); simpl; auto.
    specialize (IH Hin Hd Hm). destruct (bfm_fields r m); simpl in *; auto.
Qed.
Theorem S4_missing_field_map s m f :
  In f (s_fields s) -> f_default f = None -> map_get m (f_name f) = None -> is_ok (build_from_map s m) = false.
Proof.
  intros Hin Hd Hm. unfold build_from_map. pose proof (bfm_missing _ m f Hin Hd Hm) as B.
  destruct (bfm_fields (s_fields s) m); [discriminate|reflexivity].
Qed.
Lemma bt_missing usedef fs ot m f : In f fs -> f_ty f <> TyTree -> map_get m (f_name f) = None ->
  (usedef = true -> f_default f = None) -> is_ok (bt_fields usedef fs ot m) = false.
Proof.
  revert ot. induction fs as [|g r IH]; simpl; intros ot Hin Ht Hm Hd; [destruct Hin|].
  destruct Hin as [->|Hin].
  - rewrite Hm. assert (E : (if usedef then f_default f else None) = None) by (destruct usedef; auto). rewrite E.
    destruct (f_ty f); try reflexivity. congruence.
  - assert (forall ot', is_ok (bt_fields usedef r ot' m) = false) by (intros; apply IH; auto).
    destruct (f_ty g);
      try (match goal with |- is_ok (do v <- ?X; _) = false => destruct X end; simpl; auto;
           specialize (H ot); destruct (bt_fields usedef r ot m); simpl in *; auto).
    destruct ot; [|reflexivity]. specialize (H None). destruct (bt_fields usedef r None m); simpl in *; auto.
Qed.
(* a missing field without default is an error in the transform form ... *)
Theorem S4_missing_field_transform s t m f :
  In f (s_fields s) -> f_ty f <> TyTree -> f_default f = None -> map_get m (f_name f) = None ->
  is_ok (build_transform s t m) = false.
Proof.
  intros Hin Ht Hd Hm. unfold build_transform, build_transform_gen. destruct (tree_from_dyn t); [|reflexivity]. cbn [rbind].
  pose proof (bt_missing true _ (Some a) m f Hin Ht Hm (fun _ => Hd)) as B. destruct (bt_fields true (s_fields s) (Some a) m); [discriminate|reflexivity].
Qed.
(* ... and before 2eb99d2 it was an error EVEN IF the field declared a default *)
Theorem S4_missing_field_transform_old s t m f :
  In f (s_fields s) -> f_ty f <> TyTree -> map_get m (f_name f) = None -> is_ok (build_transform_old s t m) = false.
Proof.
  intros Hin Ht Hm. unfold build_transform_old, build_transform_gen. destruct (tree_from_dyn t); [|reflexivity]. cbn [rbind].
  assert (Hd : false = true -> f_default f = None) by discriminate.
  pose proof (bt_missing false _ (Some a) m f Hin Ht Hm Hd) as B. destruct (bt_fields false (s_fields s) (Some a) m); [discriminate|reflexivity].
Qed.
Theorem S4_unknown_key s m k d : In (k, d) m -> has_key (s_fields s) k = false ->
  is_ok (build_from_map s m) = false /\ forall usedef t, is_ok (build_transform_gen usedef s t m) = false.
Proof.
  intros Hin Hk.
  assert (U : unknown_key (s_fields s) m = true).
  { unfold unknown_key. apply existsb_exists. exists (k, d). split; auto. simpl. rewrite Hk. reflexivity. }
  split; [|intros usedef t]; unfold build_from_map, build_transform_gen; rewrite U.
  - destruct (bfm_fields (s_fields s) m); reflexivity.
  - destruct (tree_from_dyn t); [|reflexivity]. cbn [rbind]. destruct (bt_fields usedef (s_fields s) (Some a) m); reflexivity.
Qed.

(* ---- reducers: a lone tree (0735cc3) ---------------------------------------------------------- *)
(* for a signature whose only field is a Vec<Tree> without default, the one-argument positional call
   with a tree builds the shape from the singleton list, i.e. what the map form builds from [t] *)
Theorem reducer_single_tree s f t :
  s_fields s = [f] -> f_ty f = TyVecTree -> f_default f = None ->
  build_unique s [DTree t] = finish s [VVecTree [t]] /\
  build_from_map s [(f_name f, DArr [DTree t])] = finish s [VVecTree [t]].
Proof.
  intros Hs Ht Hd. split.
  - unfold build_unique, from_enum_map, from_enum_map_gen. rewrite Hs. cbn [fill_slots rbind].
    change (value_from_dynamic (DTree t) None) with (ROk (VTree t)). cbn [rbind].
    unfold has_ty. cbn [existsb fem_fields]. unfold fem_step, fem_pick. rewrite Ht. cbn.
    reflexivity.
  - unfold build_from_map. rewrite Hs. cbn [bfm_fields map_get]. rewrite String.eqb_refl, Ht. cbn.
    unfold unknown_key, has_key. cbn. rewrite String.eqb_refl. reflexivity.
Qed.
(* the same call before the repair *)
Theorem reducer_single_tree_old s f t :
  s_fields s = [f] -> f_ty f = TyVecTree -> f_default f = None ->
  build_unique_old s [DTree t] = RErr EMissingArg.
Proof.
  intros Hs Ht Hd. unfold build_unique_old, from_enum_map_old, from_enum_map_gen. rewrite Hs. cbn [fill_slots rbind].
  change (value_from_dynamic (DTree t) None) with (ROk (VTree t)). cbn [rbind].
  unfold has_ty. cbn [existsb fem_fields]. unfold fem_step, fem_pick, dflt_or_missing. rewrite Ht, Hd. cbn. reflexivity.
Qed.

(* ====================================================================================== *)
(* S5 — vec2 -> vec3 promotion in the positional form                                        *)
Lemma last_of_app t a b : last_of t (a ++ b) = match last_of t b with Some w => Some w | None => last_of t a end.
Proof.
  induction a as [|v a IH]; simpl.
  - destruct (last_of t b); reflexivity.
  - rewrite IH. destruct (last_of t b); reflexivity.
Qed.
Lemma mapM_in {A B} (f : A -> res B) l : forall vs v, mapM f l = ROk vs -> In v vs -> exists a, In a l /\ f a = ROk v.
Proof.
  induction l as [|x l IH]; simpl; intros vs v H Hin.
  - inversion H; subst. destruct Hin.
  - destruct (f x) as [bx|] eqn:E; simpl in H; [|discriminate]. destruct (mapM f l) as [bs|]; simpl in H; [|discriminate].
    inversion H; subst. destruct Hin as [->|Hin]; [exists x; auto|]. destruct (IH _ _ eq_refl Hin) as (a & Ha & Hf). exists a; auto.
Qed.
Lemma leftover_some vs t v : vs t = Some v -> leftover vs = true.
Proof. intros H. unfold leftover. apply existsb_exists. exists t. split; [destruct t; simpl; auto 10|rewrite H; reflexivity]. Qed.

(* away from a Vec3 field the loop body never looks at the Vec2 slot, and never empties Vec2 / Vec3 *)
Lemma fem_pick_other hv2 hax htr f own v2 ax tr : f_ty f <> TyVec3 ->
  fem_pick hv2 hax htr f own v2 ax tr = fem_pick hv2 hax htr f own None ax tr.
Proof.
  intros H. unfold fem_pick. destruct own; [reflexivity|].
  destruct (f_ty f); try congruence; destruct v2, (f_default f); reflexivity.
Qed.
Lemma fem_pick_clears hv2 hax htr f own ax tr v c :
  f_ty f <> TyVec3 -> f_ty f <> TyVec2 ->
  fem_pick hv2 hax htr f own None ax tr = ROk (v, Some c) -> c <> TyVec2 /\ c <> TyVec3.
Proof.
  intros H3 H2. unfold fem_pick, dflt_or_missing. destruct own as [o|].
  - intros E. inversion E; subst. auto.
  - destruct (f_ty f); try congruence;
      destruct (f_default f), ax as [va|], tr as [vt|], hax, htr; simpl;
      try destruct va; try destruct vt; simpl; intros E; inversion E; subst; split; discriminate.
Qed.

Section Promote.
Variables (x y : f32) (dflt : @vec3 f32).
Definition promo_rel (s1 s2 : slots) : Prop :=
  s1 TyVec2 = Some (VVec2 x y) /\ s1 TyVec3 = None /\ s2 TyVec2 = None /\
  s2 TyVec3 = Some (VVec3 (mk3 x y (vz dflt))) /\
  forall t, t <> TyVec2 -> t <> TyVec3 -> s1 t = s2 t.
Definition outcome (hax htr : bool) (fs : list field) (s : slots) : res (list value) :=
  do p <- fem_fields false hax htr fs s; if leftover (snd p) then RErr EExtraArg else ROk (fst p).

Lemma promo_sset s1 s2 t v : t <> TyVec2 -> t <> TyVec3 -> promo_rel s1 s2 -> promo_rel (sset s1 t v) (sset s2 t v).
Proof.
  intros H2 H3 (A & B & C & D & E). unfold promo_rel, sset.
  assert (E2 : ty_eqb TyVec2 t = false) by (apply ty_eqb_neq; congruence).
  assert (E3 : ty_eqb TyVec3 t = false) by (apply ty_eqb_neq; congruence).
  rewrite E2, E3. repeat split; auto. intros t' H2' H3'. destruct (ty_eqb t' t); auto.
Qed.

Lemma fem_promote hax htr fs : forall s1 s2,
  (forall f, In f fs -> f_ty f <> TyVec2) ->
  (forall f, In f fs -> f_ty f = TyVec3 -> f_default f = Some (VVec3 dflt)) ->
  promo_rel s1 s2 -> outcome hax htr fs s1 = outcome hax htr fs s2.
Proof.
  induction fs as [|f r IH]; intros s1 s2 Hn2 Hd R.
  - destruct R as (A & B & C & D & E). unfold outcome. simpl.
    rewrite (leftover_some _ _ _ A), (leftover_some _ _ _ D). reflexivity.
  - assert (Hn2' : forall g, In g r -> f_ty g <> TyVec2) by (intros g Hg; apply Hn2; right; exact Hg).
    assert (Hd' : forall g, In g r -> f_ty g = TyVec3 -> f_default g = Some (VVec3 dflt)) by (intros g Hg; apply Hd; right; exact Hg).
    destruct (ty_eqb (f_ty f) TyVec3) eqn:E3.
    + (* the Vec3 field: promotion on the left, the plain slot on the right *)
      apply ty_eqb_eq in E3. destruct R as (A & B & C & D & E).
      assert (S1 : fem_step false hax htr f s1 = ROk (VVec3 (mk3 x y (vz dflt)), sset s1 TyVec2 None)).
      { unfold fem_step, fem_pick. rewrite E3, B, A, (Hd f (or_introl eq_refl) E3). reflexivity. }
      assert (S2 : fem_step false hax htr f s2 = ROk (VVec3 (mk3 x y (vz dflt)), sset s2 TyVec3 None)).
      { unfold fem_step, fem_pick. rewrite E3, D. reflexivity. }
      unfold outcome. cbn [fem_fields]. rewrite S1, S2. cbn [rbind fst snd].
      assert (Q : seq_slots (sset s1 TyVec2 None) (sset s2 TyVec3 None)).
      { intros t. unfold sset. destruct t; simpl; auto; apply E; discriminate. }
      pose proof (fem_fields_ext false hax htr r _ _ Q) as X.
      destruct (fem_fields false hax htr r (sset s1 TyVec2 None)) as [[vs a']|e],
               (fem_fields false hax htr r (sset s2 TyVec3 None)) as [[ws b']|e']; simpl; try contradiction; try congruence.
      destruct X as [-> X]. rewrite (leftover_ext _ _ X). reflexivity.
    + (* any other field reads the same slots on both sides and keeps the relation *)
      apply ty_eqb_neq in E3. pose proof (Hn2 f (or_introl eq_refl)) as E2.
      pose proof R as (A & B & C & D & E).
      unfold outcome. cbn [fem_fields]. unfold fem_step.
      rewrite (fem_pick_other _ _ _ f (s1 (f_ty f)) (s1 TyVec2)) by exact E3.
      rewrite (fem_pick_other _ _ _ f (s2 (f_ty f)) (s2 TyVec2)) by exact E3.
      rewrite <- (E (f_ty f) E2 E3), <- (E TyAxis), <- (E TyTree) by discriminate.
      destruct (fem_pick false hax htr f (s1 (f_ty f)) None (s1 TyAxis) (s1 TyTree)) as [[v c]|e] eqn:P; cbn [rbind fst snd]; [|reflexivity].
      assert (R' : promo_rel (clear s1 c) (clear s2 c)).
      { destruct c as [c|]; simpl; [|exact R]. destruct (fem_pick_clears _ _ _ _ _ _ _ _ _ E3 E2 P). apply promo_sset; auto. }
      pose proof (IH _ _ Hn2' Hd' R') as X. unfold outcome in X.
      destruct (fem_fields false hax htr r (clear s1 c)) as [[vs a']|e],
               (fem_fields false hax htr r (clear s2 c)) as [[ws b']|e']; simpl in *;
        try destruct (leftover a'); try destruct (leftover b'); congruence.
Qed.
End Promote.

Lemma vfd_vec3 v : value_from_dynamic (DVec3 v) None = ROk (VVec3 v).
Proof. reflexivity. Qed.

(* S5, for every signature without a Vec2 field whose Vec3 fields default to [dflt]: a positional
   argument classified as Vec2 (x, y) means exactly the Vec3 (x, y, dflt.z) *)
Theorem S5_vec2_promotes s pre post d2 x y dflt :
  has_ty (s_fields s) TyVec2 = false ->
  (forall f, In f (s_fields s) -> f_ty f = TyVec3 -> f_default f = Some (VVec3 dflt)) ->
  value_from_dynamic d2 None = ROk (VVec2 x y) ->
  (forall a v, In a (pre ++ post) -> value_from_dynamic a None = ROk v -> ty_of v <> TyVec2 /\ ty_of v <> TyVec3) ->
  build_unique s (pre ++ d2 :: post) = build_unique s (pre ++ DVec3 (mk3 x y (vz dflt)) :: post).
Proof.
  intros H2 Hd Hv Hoth. unfold build_unique. rewrite !fill_slots_fold, !mapM_app. cbn [mapM]. rewrite Hv, vfd_vec3.
  destruct (mapM vfd pre) as [vp|e] eqn:Ep; cbn [rbind]; [|reflexivity].
  destruct (mapM vfd post) as [vq|e] eqn:Eq; cbn [rbind]; [|reflexivity].
  assert (Np : forall t, t = TyVec2 \/ t = TyVec3 -> last_of t vp = None).
  { intros t Ht. apply last_of_none. intros v Hin E. destruct (mapM_in _ _ _ _ Ep Hin) as (a & Ha & Hf).
    destruct (Hoth a v) as [N2 N3]; [apply in_or_app; auto|exact Hf|]. destruct Ht; congruence. }
  assert (Nq : forall t, t = TyVec2 \/ t = TyVec3 -> last_of t vq = None).
  { intros t Ht. apply last_of_none. intros v Hin E. destruct (mapM_in _ _ _ _ Eq Hin) as (a & Ha & Hf).
    destruct (Hoth a v) as [N2 N3]; [apply in_or_app; auto|exact Hf|]. destruct Ht; congruence. }
  set (s1 := fold_left put (vp ++ VVec2 x y :: vq) no_slots).
  set (s2 := fold_left put (vp ++ VVec3 (mk3 x y (vz dflt)) :: vq) no_slots).
  assert (R : promo_rel x y dflt s1 s2).
  { unfold promo_rel, s1, s2. rewrite !fold_put, !last_of_app. cbn [last_of].
    rewrite !(Nq TyVec2), !(Nq TyVec3), !(Np TyVec2), !(Np TyVec3) by auto. cbn [ty_of ty_eqb].
    repeat split; auto. intros t N2 N3. rewrite !fold_put, !last_of_app. cbn [last_of ty_of].
    assert (ty_eqb t TyVec2 = false) by (apply ty_eqb_neq; exact N2).
    assert (ty_eqb t TyVec3 = false) by (apply ty_eqb_neq; exact N3).
    rewrite H, H0. reflexivity. }
  pose proof (fem_promote x y dflt (has_ty (s_fields s) TyAxis) (has_ty (s_fields s) TyTree) (s_fields s) s1 s2) as P.
  unfold from_enum_map, from_enum_map_gen. rewrite H2. unfold outcome in P.
  assert (X : (do p <- fem_fields false (has_ty (s_fields s) TyAxis) (has_ty (s_fields s) TyTree) (s_fields s) s1;
               if leftover (snd p) then RErr EExtraArg else ROk (fst p)) =
              (do p <- fem_fields false (has_ty (s_fields s) TyAxis) (has_ty (s_fields s) TyTree) (s_fields s) s2;
               if leftover (snd p) then RErr EExtraArg else ROk (fst p))).
  { apply P; auto. intros f Hin E. unfold has_ty in H2.
    assert (existsb (fun f0 => ty_eqb (f_ty f0) TyVec2) (s_fields s) = true); [|congruence].
    apply existsb_exists. exists f. split; auto. rewrite E. reflexivity. }
  destruct (fem_fields false (has_ty (s_fields s) TyAxis) (has_ty (s_fields s) TyTree) (s_fields s) s1) as [[vs a']|e],
           (fem_fields false (has_ty (s_fields s) TyAxis) (has_ty (s_fields s) TyTree) (s_fields s) s2) as [[ws b']|e']; simpl in *;
    try destruct (leftover a'); try destruct (leftover b'); congruence.
Qed.


(* ====================================================================================== *)
(* S6 — the unit tests and doc examples of fidget-rhai, replayed on the model, and the        *)
(* statements that are FALSE for the code as written                                          *)
Section Examples.
Variable rot : @vec3 f32 -> f32 -> list f32.
Local Open Scope Z_scope.
Let x := SVar "x". Let y := SVar "y". Let z := SVar "z".
Let I := SInt.
Let f1 := SFloat 4607182418800017408.   (* 1.0 *)
Let fhalf := SFloat 4602678819172646912. (* 0.5 *)
Let f2 := SFloat 4611686018427387904.   (* 2.0 *)
Let f3 := SFloat 4613937818241073152.   (* 3.0 *)
Let f4 := SFloat 4616189618054758400.   (* 4.0 *)
Let f10 := SFloat 4621819117588971520.  (* 10.0 *)
Let T := eval_tree_bits rot.
Let V := eval_show rot.
Let circle_tree (cx cy r : Z) : etree Z :=
  EBin BSub (EUn USqrt (EBin BAdd (EUn USquare (EBin BSub EX (EConst cx))) (EUn USquare (EBin BSub EY (EConst cy))))) (EConst r).
Let one := 1065353216. Let two := 1073741824. Let three := 1077936128.
Ltac run := vm_compute; reflexivity.

(* ---- lib.rs ---- *)
Example lib_test_eval : T (SBin OAdd x y) = ROk (EBin BAdd EX EY). Proof. run. Qed.
Example lib_test_no_comparison : T (SCmp CLt x (I 0)) = RErr ECompareTree. Proof. run. Qed.
Example lib_test_constants_pi : V (SVar "PI") = ROk (ShFloat 4614256656552045848). Proof. run. Qed.
(* `x * cos(PI / 4.0) + y * ...`: cos(FLOAT) is rhai's own f64 cosine, outside the model *)
Example lib_test_constants_cos : V (SBin OMul x (SCall "cos" [SBin ODiv (SVar "PI") f4])) = RErr EUnsupported. Proof. run. Qed.
(* ---- tree.rs ---- *)
Example tree_build_print_1 : V (SCall "to_string" [SGet (SCall "axes" []) "x"]) = ROk (ShStr "x"). Proof. run. Qed.
Example tree_build_print_2 : V (SCall "to_string" [SBin OAdd (SGet (SCall "axes" []) "x") (I 1)]) = ROk (ShStr "Tree(..)"). Proof. run. Qed.
Example tree_remap_xy : T (SCall "remap" [SBin OAdd x y; y; x]) = ROk (ERemapAxes (EBin BAdd EX EY) EY EX EZ). Proof. run. Qed.
Example tree_remap_xyz : T (SMeth (I 1) "remap" [y; x; z]) = ROk (ERemapAxes (EConst one) EY EX EZ). Proof. run. Qed.
(* ---- types.rs ---- *)
Example types_vec2 : V (SCall "vec2" [SArr [I 5; f10]]) = ROk (ShVec [1084227584; 1092616192]). Proof. run. Qed.
Example types_vec3 : V (SCall "vec3" [SArr [I 1; I 2; I 3]]) = ROk (ShVec [one; two; three]). Proof. run. Qed.
Example types_vec3_of_2 : V (SCall "vec3" [SArr [I 1; I 2]]) = ROk (ShVec [one; two; 0]). Proof. run. Qed.
Example types_axis_2 : V (SCall "axis" [SArr [I 1; I 0]]) = ROk (ShAxis [one; 0; 0]). Proof. run. Qed.
Example types_axis_3 : V (SCall "axis" [SArr [I 0; I 0; I 1]]) = ROk (ShAxis [0; 0; one]). Proof. run. Qed.
Example types_axis_char : V (SCall "axis" [SChar "z"%char]) = ROk (ShAxis [0; 0; one]). Proof. run. Qed.
Example types_axis_str : V (SCall "axis" [SStr "z"]) = ROk (ShAxis [0; 0; one]). Proof. run. Qed.
Example types_axis_zero : V (SCall "axis" [SArr [I 0; I 0; I 0]]) = RErr ETypeMismatch. Proof. run. Qed.
Example types_plane_vec : V (SCall "plane" [SArr [I 1; I 0]]) = ROk (ShPlane [one; 0; 0] 0). Proof. run. Qed.
Example types_plane_off : V (SCall "plane" [SArr [I 1; I 0]; fhalf]) = ROk (ShPlane [one; 0; 0] 1056964608). Proof. run. Qed.
Example types_plane_name : V (SCall "plane" [SStr "yz"]) = ROk (ShPlane [one; 0; 0] 0). Proof. run. Qed.
Example types_neg_vec : V (SNeg (SCall "vec2" [I 1; I 2])) = ROk (ShVec [3212836864; 3221225472]). Proof. run. Qed.
(* ---- shapes.rs ---- *)
Example circle_builder_1 :
  T (SCall "circle" [SMap [("center", SCall "vec2" [I 1; I 2]); ("radius", I 3)]]) = ROk (circle_tree one two three). Proof. run. Qed.
Example circle_builder_2 : T (SCall "circle" [SMap [("center", f3); ("radius", I 3)]]) = RErr ETypeMismatch. Proof. run. Qed.
Example circle_builder_3 :
  T (SCall "circle" [SMap [("center", SCall "vec2" [SStr "omg"; SStr "wtf"]); ("radius", I 3)]]) = RErr ETypeMismatch. Proof. run. Qed.
Example circle_builder_4 :
  T (SCall "circle" [SMap [("radius", I 4); ("xy", SCall "vec2" [I 1; I 2])]]) = RErr EUnknownField. Proof. run. Qed.
Example circle_builder_5 : T (SCall "circle" [SArr [I 1; I 2]; I 3]) = ROk (circle_tree one two three). Proof. run. Qed.
Example circle_default_1 : T (SCall "circle" [SMap [("center", SCall "vec2" [I 1; I 2])]]) = ROk (circle_tree one two one). Proof. run. Qed.
Example circle_default_2 : T (SCall "circle" [SMap [("radius", I 1)]]) = ROk (circle_tree 0 0 one). Proof. run. Qed.
Example circle_default_3 : T (SCall "circle" [I 3]) = ROk (circle_tree 0 0 three). Proof. run. Qed.
Example circle_default_4 : T (SCall "circle" [SArr [I 1; I 2]]) = ROk (circle_tree one two one). Proof. run. Qed.
Example circle_default_5 : T (SCall "circle" []) = ROk (circle_tree 0 0 one). Proof. run. Qed.
(* Move defaults to 0 and Scale to 1 on Z: the third matrix row is (0 0 1 -0) resp. (0 0 1 0) *)
Example move_default_z : T (SMeth z "move" [SArr [I 1; I 1]]) =
  ROk (ERemapAffine EZ [one; 0; 0; 3212836864; 0; one; 0; 3212836864; 0; 0; one; 2147483648]). Proof. run. Qed.
Example scale_default_z : T (SMeth z "scale" [SArr [I 1; I 1]]) =
  ROk (ERemapAffine EZ [one; 0; 0; 0; 0; one; 0; 0; 0; 0; one; 0]). Proof. run. Qed.
Example string_to_plane : T (SMeth x "reflect" [SStr "yz"]) = T (SMeth x "reflect" [SStr "x"]) /\
  is_ok (T (SMeth x "reflect" [SStr "yz"])) = true. Proof. split; run. Qed.
Example rect_builder_ordered_ok : is_ok (T (SCall "rectangle" [SArr [I 0; I 0]; SArr [I 1; I 1]])) = true. Proof. run. Qed.
Example rect_builder_ordered_err : T (SCall "rectangle" [SArr [I 0; I 0]; SArr [I 1; I 1; I 1]]) = RErr ETypeMismatch. Proof. run. Qed.
Example extrude_builder_ordered : T (SCall "extrude_z" [x; I 0; I 1]) =
  ROk (EBin BMax (ERemapAxes EX EX EY (EConst 0)) (EBin BMax (EBin BSub (EConst 0) EZ) (EBin BSub EZ (EConst one)))). Proof. run. Qed.
(* ---- the doc examples of lib.rs ---- *)
Let c := SCall "circle" [SMap [("center", SArr [I 1; I 2]); ("radius", I 3)]].
Example doc_order_does_not_matter : T (SCall "circle" [SArr [I 1; I 2]; I 3]) = T (SCall "circle" [I 3; SArr [I 1; I 2]]). Proof. run. Qed.
Example doc_sphere_vec2 : T (SCall "sphere" [SArr [I 1; I 1]; I 4]) = T (SCall "sphere" [SMap [("center", SArr [I 1; I 1; I 0]); ("radius", I 4)]]) /\
  is_ok (T (SCall "sphere" [SArr [I 1; I 1]; I 4])) = true. Proof. split; run. Qed.
Example doc_chaining :
  T (SCall "move" [SMap [("shape", c); ("offset", SArr [I 1; I 1])]]) = T (SCall "move" [c; SMap [("offset", SArr [I 1; I 1])]]) /\
  T (SCall "move" [c; SMap [("offset", SArr [I 1; I 1])]]) = T (SMeth c "move" [SMap [("offset", SArr [I 1; I 1])]]) /\
  T (SMeth c "move" [SMap [("offset", SArr [I 1; I 1])]]) = T (SMeth c "move" [SArr [I 1; I 1]]) /\
  is_ok (T (SMeth c "move" [SArr [I 1; I 1]])) = true. Proof. repeat split; run. Qed.
Example doc_difference : T (SCall "difference" [x; y]) = ROk (EBin BMax EX (EUn UNeg EY)). Proof. run. Qed.
Example doc_union : T (SCall "union" [SArr [x; y; z]]) = T (SCall "union" [x; y; z]) /\
  T (SCall "union" [x; y; z]) = ROk (EBin BMin EX (EBin BMin EY EZ)). Proof. split; run. Qed.
Example doc_union_8 : T (SCall "union" [x; y; z; x; y; z; x; y]) =
  ROk (EBin BMin (EBin BMin (EBin BMin EX EY) (EBin BMin EZ EX)) (EBin BMin (EBin BMin EY EZ) (EBin BMin EX EY))). Proof. run. Qed.
Example doc_auto_union : T (SMeth (SArr [x; y]) "move" [SMap [("offset", SArr [I 1; I 1])]]) =
  T (SMeth (SCall "union" [x; y]) "move" [SMap [("offset", SArr [I 1; I 1])]]) /\
  is_ok (T (SMeth (SArr [x; y]) "move" [SMap [("offset", SArr [I 1; I 1])]])) = true. Proof. split; run. Qed.
(* numbers *)
Example int_division : V (SBin ODiv (I 1) (I 2)) = ROk (ShInt 0). Proof. run. Qed.
Example int_overflow : V (SBin OAdd (I 9223372036854775807) (I 1)) = RErr EArith. Proof. run. Qed.
Example number_on_the_left : T (SBin OSub (I 1) x) = ROk (EBin BSub (EConst one) EX) /\
  T (SBin ODiv fhalf x) = ROk (EBin BDiv (EConst 1056964608) EX) /\
  T (SBin OMod x (I 2)) = ROk (EBin BMod EX (EConst two)). Proof. repeat split; run. Qed.

(* ---- REFUTED statements and surprises, each with its witness --------------------------------- *)

(* (R1) build_reduce1 is dead code: build_unique1 is registered later under the identical key
   (name, [Dynamic]) and replaces it.  Since 0735cc3 from_enum_map turns a lone Tree into a one-element
   Vec<Tree>, so a single tree is accepted again — through build_unique1, not build_reduce1.  An
   array of numbers is still classified as a Vec2 / Vec3 and rejected. *)
Example R1_reduce1_shadowed :
  lookup (user_regs rot) pkg_regs "union" [PDyn] = Some (NUnique sig_union 1) /\
  T (SCall "union" [x]) = ROk EX /\
  T (SCall "union" [x]) = T (SCall "union" [SMap [("input", SArr [x])]]) /\
  T (SCall "intersection" [SBin OAdd x y]) = T (SCall "intersection" [SMap [("input", SArr [SBin OAdd x y])]]) /\
  is_ok (T (SCall "intersection" [SBin OAdd x y])) = true /\
  T (SCall "union" [SArr [I 1; I 2]]) = RErr EMissingArg /\          (* classified as a Vec2 *)
  T (SCall "union" [x; y]) = ROk (EBin BMin EX EY).
Proof. repeat split; run. Qed.
(* before 0735cc3 a single tree was rejected *)
Example R1_reduce1_shadowed_old :
  rmap dyn_show (build_unique_old sig_union [DTree EX]) = RErr EMissingArg /\
  rmap dyn_show (build_unique_old sig_intersection [DTree EX]) = RErr EMissingArg /\
  rmap dyn_show (build_reduce sig_union [DTree EX]) = ROk (ShTree EX).
Proof. repeat split; run. Qed.

(* (R2) S3 without "pairwise distinct types" is false: a later argument of the same type silently
   replaces the earlier one — no error *)
Example R2_same_type_overwrites :
  T (SCall "circle" [I 1; I 2]) = ROk (circle_tree 0 0 two) /\ T (SCall "circle" [I 2; I 1]) = ROk (circle_tree 0 0 one) /\
  T (SMeth y "reflect" [x]) = T (SMeth x "reflect" []) /\ is_ok (T (SMeth y "reflect" [x])) = true.
Proof. repeat split; run. Qed.
Theorem S3_without_distinct_types_refuted :
  ~ (forall s args args', Permutation args args' -> build_unique s args = build_unique s args').
Proof.
  intros H. specialize (H sig_circle [DInt 1; DInt 2] [DInt 2; DInt 1] (perm_swap _ _ _)).
  assert (E : rmap dyn_show (build_unique sig_circle [DInt 1; DInt 2]) = rmap dyn_show (build_unique sig_circle [DInt 2; DInt 1])) by (rewrite H; reflexivity).
  vm_compute in E. discriminate E.
Qed.

(* (R3) S3 at the level of calls is false for `plane`: types.rs registers plane(Dynamic, f64), which
   wins over build_unique2 exactly when the SECOND argument is a float; then the result is not even
   a tree *)
Example R3_plane_overload :
  V (SCall "plane" [SStr "x"; fhalf]) = ROk (ShPlane [one; 0; 0] 1056964608) /\
  V (SCall "plane" [fhalf; SStr "x"]) =
    ROk (ShTree (EBin BSub (EBin BAdd (EBin BAdd (EBin BMul EX (EConst one)) (EBin BMul EY (EConst 0))) (EBin BMul EZ (EConst 0))) (EConst 1056964608))) /\
  T (SCall "plane" [SStr "x"; fhalf]) = RErr EOutputType /\
  is_ok (T (SCall "plane" [SStr "x"; I 1])) = true /\
  V (SBin OAdd (SCall "plane" [SStr "x"; fhalf]) x) = RErr ETypeMismatch.
Proof. repeat split; run. Qed.

(* (R4) ... and for the reducers, whose n-ary positional form is ordered although every field type
   is unique *)
Example R4_reducer_is_ordered :
  T (SCall "union" [x; SArr [y; z]]) = ROk (EBin BMin EX (EBin BMin EY EZ)) /\
  T (SCall "union" [SArr [y; z]; x]) = ROk (EBin BMin (EBin BMin EY EZ) EX).
Proof. split; run. Qed.

(* (R5) before 2eb99d2, S4 "omitted defaulted fields take the default in every form" was false for the
   transform form: the map of build_transform had to mention every non-tree field *)
Example R5_transform_ignores_defaults_old :
  rmap dyn_show (build_transform_old sig_move (DTree EX) []) = RErr EMissingField /\
  is_ok (build_from_map sig_move [("shape", DTree EX)]) = true.
Proof. split; run. Qed.
Theorem S4_transform_defaults_refuted_old :
  ~ (forall s t m f0 rest, s_fields s = f0 :: rest -> f_ty f0 = TyTree ->
       (forall f, In f rest -> f_ty f <> TyTree /\ f_name f <> f_name f0) ->
       same_outcome (build_transform_old s t m) (build_from_map s ((f_name f0, t) :: m))).
Proof.
  intros H. specialize (H sig_move (DTree EX) [] _ _ eq_refl eq_refl).
  assert (G : same_outcome (build_transform_old sig_move (DTree EX) []) (build_from_map sig_move [("shape", DTree EX)])).
  { apply H. intros f [<-|[]]. split; discriminate. }
  vm_compute in G. exact G.
Qed.
(* the current code: every way of omitting the offset agrees *)
Example R5_transform_applies_defaults :
  T (SMeth x "move" [SMap []]) = T (SCall "move" [SMap [("shape", x)]]) /\
  T (SCall "move" [x; SMap []]) = T (SMeth x "move" []) /\
  T (SMeth x "move" [SMap []]) = T (SMeth x "move" []) /\
  is_ok (T (SMeth x "move" [SMap []])) = true /\
  T (SMeth x "rotate" [SMap [("angle", I 0)]]) = T (SCall "rotate" [SMap [("shape", x); ("angle", I 0)]]) /\
  (* `blend` has two trees, hence no transform form at all (S4_missing_field_transform is the general
     statement about a missing field without default; no shipped transform has such a field) *)
  T (SMeth x "blend" [SMap []]) = RErr ENoSuchFunction /\
  (* a "shape" key next to the positional tree is silently ignored *)
  T (SCall "move" [x; SMap [("shape", y); ("offset", SArr [I 1; I 1])]]) = T (SMeth x "move" [SArr [I 1; I 1]]).
Proof. repeat split; run. Qed.

(* (R6) S2 "a number / an array of trees where a tree is expected" is false in the positional
   (unique and ordered) forms: value_from_dynamic classifies a number as Float and an array of
   trees as Vec<Tree>, and from_enum_map / from_value_list never convert those to Tree *)
Example R6_positional_forms_do_not_coerce :
  T (SCall "inverse" [I 1]) = RErr EMissingArg /\
  T (SCall "inverse" [SMap [("shape", I 1)]]) = ROk (EUn UNeg (EConst one)) /\
  T (SCall "inverse" [SArr [x; y]]) = RErr EMissingArg /\
  T (SCall "inverse" [SMap [("shape", SArr [x; y])]]) = ROk (EUn UNeg (EBin BMin EX EY)) /\
  T (SMeth (SArr [x; y]) "move" [SArr [I 1; I 1]]) = RErr EMissingArg /\
  is_ok (T (SMeth (SArr [x; y]) "move" [SMap [("offset", SArr [I 1; I 1])]])) = true /\
  T (SCall "extrude_z" [I 1; I 0; I 1]) = RErr ETypeMismatch /\
  T (SCall "box" [SArr [I 0; I 0]; SArr [I 1; I 1]]) = RErr ETypeMismatch.    (* no vec2->vec3 either *)
Proof. repeat split; run. Qed.

(* (R7) a string on the LEFT of `+` never reaches the Tree overload: rhai's own
   `+`(string, Dynamic) is tried first and concatenates to_string(tree) *)
Example R7_string_plus_tree :
  V (SBin OAdd (SStr "s") x) = ROk (ShStr "sx") /\ V (SBin OAdd x (SStr "s")) = RErr ETypeMismatch.
Proof. split; run. Qed.

(* (R8) the vec getters return a raw f32, which no coercion of fidget-rhai accepts (FLOAT is f64) *)
Example R8_vec_component_is_unusable :
  V (SGet (SCall "vec2" [I 1; I 2]) "x") = ROk (ShF32 one) /\
  V (SBin OAdd (SGet (SCall "vec2" [I 1; I 2]) "x") x) = RErr ETypeMismatch /\
  V (SCall "circle" [SGet (SCall "vec2" [I 1; I 2]) "x"]) = RErr ETypeMismatch.
Proof. repeat split; run. Qed.

(* (R9) whether a named function builds a tree from a number depends on rhai's own overloads:
   sqrt(2) is a Tree, sqrt(2.0) is a FLOAT; abs(2) is an INT, ceil(2.5) is a Tree, floor(2.5) a FLOAT *)
Example R9_number_functions :
  V (SCall "sqrt" [I 2]) = ROk (ShTree (EUn USqrt (EConst two))) /\
  V (SCall "sqrt" [f2]) = ROk (ShFloat 4609047870845172685) /\
  V (SCall "abs" [I 2]) = ROk (ShInt 2) /\
  V (SCall "ceil" [fhalf]) = ROk (ShTree (EUn UCeil (EConst 1056964608))) /\
  V (SCall "floor" [fhalf]) = ROk (ShFloat 0).
Proof. repeat split; run. Qed.

(* (R10) in the positional form [0, 0, 1] is a Vec3 (the centre of `rotate`), in the map form under
   the key `axis` it is the axis: the two forms read the same literal differently *)
Example R10_axis_literal :
  V (SCall "axis" [SArr [I 0; I 0; I 1]]) = ROk (ShAxis [0; 0; one]) /\
  value_from_dynamic (DArr [DInt 0; DInt 0; DInt 1]) None = ROk (VVec3 (mk3 (f32_of_int 0) (f32_of_int 0) (f32_of_int 1))).
Proof. split; [run|reflexivity]. Qed.

End Examples.

(* rotate with a concrete matrix oracle (the identity): center moves in, rotation, center moves out,
   flattened into one affine map *)
Example rotate_with_oracle :
  eval_tree_bits (fun _ _ => [fone; fzero; fzero; fzero; fone; fzero; fzero; fzero; fone])
    (SCall "rotate_z" [SVar "x"; SInt 90; SArr [SInt 1; SInt 0; SInt 0]]) =
  ROk (ERemapAffine EX [1065353216; 0; 0; 0; 0; 1065353216; 0; 0; 0; 0; 1065353216; 0]).
Proof. vm_compute. reflexivity. Qed.

(* the bitmask order of Engine::resolve_fn, spelled out for up to four arguments *)
Example cands_is_bitmask_order :
  (forall a, cands [a] = map (cand_mask [a]) (seq 0 2)) /\
  (forall a b, cands [a; b] = map (cand_mask [a; b]) (seq 0 4)) /\
  (forall a b c, cands [a; b; c] = map (cand_mask [a; b; c]) (seq 0 8)) /\
  (forall a b c d, cands [a; b; c; d] = map (cand_mask [a; b; c; d]) (seq 0 16)).
Proof. repeat split; intros; reflexivity. Qed.
Example cands_two a b : cands [a; b] = [[PT a; PT b]; [PT a; PDyn]; [PDyn; PT b]; [PDyn; PDyn]].
Proof. reflexivity. Qed.

(* every shape's builder accepts exactly the values of its declared field types: the EInternal
   of [finish] is unreachable *)
Lemma all_shapes_build_total rot s vals :
  In s (all_shapes rot) -> map ty_of vals = map f_ty (s_fields s) -> s_build s vals <> None.
Proof.
  intros Hin Hty. simpl in Hin.
  repeat (destruct Hin as [<-|Hin];
    [simpl in Hty |- *;
     repeat (match goal with vs : list value |- _ => destruct vs as [|? vs]; simpl in Hty; try discriminate end);
     repeat (match goal with v : value |- _ => destruct v; simpl in Hty; try discriminate end);
     discriminate|]).
  destruct Hin.
Qed.

(* which call forms exist, per shape, as (form, arity) in registration order — register_shape run on
   the 26 signatures.  Note `union`/`intersection`: ("reduce", 1) is followed by ("unique", 1) with the
   identical key, so the reducer of arity 1 is unreachable (R1) *)
Definition form_kind (f : native) : string :=
  match f with
  | NFromMap _ => "map" | NTransform _ => "transform" | NBinary _ => "binary" | NReduce _ _ => "reduce"
  | NUnique _ _ => "unique" | NOrdered _ _ => "ordered" | _ => "other"
  end.
Definition call_forms rot : list (string * list (string * nat)) :=
  map (fun s => (s_name s, map (fun r => (form_kind (r_fn r), List.length (r_params r))) (register_shape s))) (all_shapes rot).
Example call_forms_table rot : call_forms rot =
  let m := ("map", 1%nat) in let t := ("transform", 2%nat) in let u (k : nat) := ("unique", k) in
  let o (k : nat) := ("ordered", k) in let r (k : nat) := ("reduce", k) in
  [("sphere", [m; u 0; u 1; u 2]); ("box", [m; o 2]); ("plane", [m; u 2]); ("circle", [m; u 0; u 1; u 2]);
   ("rectangle", [m; o 2]); ("move", [m; t; u 1; u 2]); ("scale", [m; t; u 1; u 2]); ("scale_uniform", [m; t; u 1; u 2]);
   ("reflect", [m; t; u 1; u 2]); ("reflect_x", [m; t; u 1; u 2]); ("reflect_y", [m; t; u 1; u 2]);
   ("reflect_z", [m; t; u 1; u 2]); ("reflect_xy", [m; t; u 1; u 2]); ("repeat_x", [m; t; o 3]);
   ("rotate", [m; t; u 1; u 2; u 3; u 4]); ("rotate_x", [m; t; u 1; u 2; u 3]); ("rotate_y", [m; t; u 1; u 2; u 3]);
   ("rotate_z", [m; t; u 1; u 2; u 3]); ("revolve_y", [m; t; u 1; u 2]); ("extrude_z", [m; t; o 3]); ("loft_z", [m; o 4]);
   ("union", [m; r 1; r 2; r 3; r 4; r 5; r 6; r 7; r 8; u 1]); ("blend", [m; o 3]);
   ("intersection", [m; r 1; r 2; r 3; r 4; r 5; r 6; r 7; r 8; u 1]); ("difference", [m; ("binary", 2%nat)]);
   ("inverse", [m; t; u 1])]%nat.
Proof. vm_compute. reflexivity. Qed.

(* ====================================================================================== *)
Print Assumptions S1_binary_call.
Print Assumptions S1_operator_order.
Print Assumptions S1_function_order.
Print Assumptions S1_unary_function.
Print Assumptions S1_call_method_equiv.
Print Assumptions S2_array_is_union.
Print Assumptions S2_compare_rejected.
Print Assumptions S3_unique_order_independent.
Print Assumptions S3_call_order_independent.
Print Assumptions S3_engine.
Print Assumptions S3_without_distinct_types_refuted.
Print Assumptions S4_map_vs_unique.
Print Assumptions S4_ordered_vs_map.
Print Assumptions S4_transform_vs_map.
Print Assumptions S4_transform_defaults_refuted_old.
Print Assumptions S4_transform_vs_map_old.
Print Assumptions reducer_single_tree.
Print Assumptions S4_missing_field_transform.
Print Assumptions S4_unknown_key.
Print Assumptions S5_vec2_promotes.
Print Assumptions vfd_tagged.
