(* F32Choice.v — the f32 point semantics has an honest choice function
   (types/float.rs: min_choice, max_choice, and_choice, or_choice). *)
From Coq Require Import List Bool.
From FV Require Import F32 Ops Tape F32Sem TraceValid.

Lemma f32_choice_law (o : oracle) : choice_law (f32_sem o).
Proof.
  split; intros b x y Hb; destruct b; try discriminate Hb; simpl;
    unfold fmin_choice, fmax_choice, fand_choice, for_choice;
    repeat match goal with |- context [if ?c then _ else _] => destruct c end;
    simpl; split; intros H; try discriminate H; reflexivity.
Qed.
