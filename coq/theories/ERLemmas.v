(* ERLemmas.v — definitions ([valid], [encl]), tactics and the lemma library on
   the extended reals with NaN used by the enclosure proofs (IntervalSound.v etc.).

   For an interval operation [iop] with point operation [pop]:
     valid a -> valid b -> encl a x -> encl b y -> pop x y <> ENaN ->
     forall r, iop a b = Some r -> valid r /\ encl r (pop x y)
   ([sound2s]; the form with the additional hypotheses x <> ENaN, y <> ENaN is
   [sound2] and follows trivially).  The hypothesis [pop x y <> ENaN] is
   essential: see [imul_hides_nan], [encl_not_compositional_and]. *)
From Coq Require Import Reals Lra Lia Psatz List Bool.
From FV Require Import Ops Tape Interval ER.
Local Open Scope R_scope.

Arguments inew : simpl never.
Arguments inew_nan : simpl never.

(* lo <= hi as extended reals (so neither is NaN), or both NaN *)
Definition valid (i : interval er) : Prop :=
  er_le (lo i) (hi i) \/ (lo i = ENaN /\ hi i = ENaN).
(* the value lies within the interval, unless the interval is the NaN interval *)
Definition encl (i : interval er) (v : er) : Prop :=
  has_nan er_fl i = true \/ (v <> ENaN /\ er_le (lo i) v /\ er_le v (hi i)).

Definition finite (x : er) : Prop := match x with EFin _ => True | _ => False end.
Definition ifinite (i : interval er) : Prop := finite (lo i) /\ finite (hi i).

(* ---- tactics ------------------------------------------------------------------ *)
Ltac dec1 :=
  match goal with
  | H : context[Rlt_dec ?a ?b] |- _ => destruct (Rlt_dec a b)
  | H : context[Rle_dec ?a ?b] |- _ => destruct (Rle_dec a b)
  | H : context[Req_EM_T ?a ?b] |- _ => destruct (Req_EM_T a b)
  | |- context[Rlt_dec ?a ?b] => destruct (Rlt_dec a b)
  | |- context[Rle_dec ?a ?b] => destruct (Rle_dec a b)
  | |- context[Req_EM_T ?a ?b] => destruct (Req_EM_T a b)
  | H : context[Rcase_abs ?a] |- _ => destruct (Rcase_abs a)
  | |- context[Rcase_abs ?a] => destruct (Rcase_abs a)
  end.

Ltac er_unf := unfold Rleb, Rltb, Reqb, sgn_inf, Rabs in *.
Ltac prune := cbn in *; try contradiction; try discriminate; try congruence.
(* destruct every er variable, pruning impossible shapes as early as possible *)
Ltac er_destr := repeat match goal with x : er |- _ => destruct x; prune end.
Ltac split_all := repeat match goal with
  | |- _ /\ _ => split
  | |- True => exact I
  | |- _ -> _ => intro
  | |- _ <> _ => intro
  | |- ~ _ => intro
  | |- _ <-> _ => split
  | H : _ /\ _ |- _ => destruct H
  end.
Ltac inj_fin := repeat match goal with H : EFin _ = EFin _ |- _ => injection H as H end.
Ltac fin0 := try contradiction; try discriminate; try congruence; try lra; try (inj_fin; lra).
Ltac fin :=
  prune; er_unf; split_all; fin0;
  repeat (dec1; prune; er_unf; split_all; fin0).
(* reduce only the projections of the concrete [FL] record *)
Ltac fl_red_in H :=
  cbn [fl_zero fl_one fl_neg_one fl_two fl_three fl_four fl_nan fl_inf fl_neg_inf fl_pi fl_tau
       fl_neg_pi fl_is_nan fl_lt fl_le fl_eq fl_add fl_sub fl_mul fl_div fl_neg fl_abs fl_sqrt
       fl_floor fl_ceil fl_round fl_min fl_max fl_sin fl_cos fl_tan fl_asin fl_acos fl_atan
       fl_exp fl_ln fl_atan2 fl_rem_euclid fl_bits_eq fl_rand fl_mix er_fl_gen er_fl lo hi] in H.
Ltac fl_red :=
  cbn [fl_zero fl_one fl_neg_one fl_two fl_three fl_four fl_nan fl_inf fl_neg_inf fl_pi fl_tau
       fl_neg_pi fl_is_nan fl_lt fl_le fl_eq fl_add fl_sub fl_mul fl_div fl_neg fl_abs fl_sqrt
       fl_floor fl_ceil fl_round fl_min fl_max fl_sin fl_cos fl_tan fl_asin fl_acos fl_atan
       fl_exp fl_ln fl_atan2 fl_rem_euclid fl_bits_eq fl_rand fl_mix er_fl_gen er_fl lo hi].
Ltac signs := er_unf; repeat (dec1; prune; er_unf).
Ltac orsolve tac := solve [ tac | left; orsolve tac | right; orsolve tac ].
Ltac atom := prune; split_all; fin0; try reflexivity; try (f_equal; lra); try nra.

(* ---- the order --------------------------------------------------------------- *)
Lemma er_le_refl x : x <> ENaN -> er_le x x.
Proof. er_destr; fin. Qed.
Lemma er_le_trans x y z : er_le x y -> er_le y z -> er_le x z.
Proof. er_destr; fin. Qed.
Lemma er_le_nn_l x y : er_le x y -> x <> ENaN.
Proof. er_destr; fin. Qed.
Lemma er_le_nn_r x y : er_le x y -> y <> ENaN.
Proof. er_destr; fin. Qed.
Lemma er_lt_le x y : er_lt x y -> er_le x y.
Proof. er_destr; fin. Qed.
Lemma er_le_lt_trans x y z : er_le x y -> er_lt y z -> er_lt x z.
Proof. er_destr; fin. Qed.
Lemma er_lt_le_trans x y z : er_lt x y -> er_le y z -> er_lt x z.
Proof. er_destr; fin. Qed.
Lemma er_le_antisym x y : er_le x y -> er_le y x -> x = y.
Proof. er_destr; fin; try (f_equal; lra). Qed.
Lemma er_le_total x y : x <> ENaN -> y <> ENaN -> er_le x y \/ er_le y x.
Proof. er_destr; fin; try tauto; try lra. Qed.
Lemma er_ltb_false_le x y : x <> ENaN -> y <> ENaN -> er_ltb x y = false -> er_le y x.
Proof. er_destr; fin. Qed.
Lemma er_neg_le x y : er_le x y -> er_le (er_neg y) (er_neg x).
Proof. er_destr; fin. Qed.
Lemma er_neg_nan x : er_neg x = ENaN <-> x = ENaN.
Proof. er_destr; fin. Qed.

(* ---- NaN-ignoring min / max ---------------------------------------------------- *)
Lemma er_min_lb_l p q v : er_le p v -> er_le (er_min p q) v.
Proof. unfold er_min. er_destr; fin. Qed.
Lemma er_min_lb_r p q v : er_le q v -> er_le (er_min p q) v.
Proof. unfold er_min. er_destr; fin. Qed.
Lemma er_max_ub_l p q v : er_le v p -> er_le v (er_max p q).
Proof. unfold er_max. er_destr; fin. Qed.
Lemma er_max_ub_r p q v : er_le v q -> er_le v (er_max p q).
Proof. unfold er_max. er_destr; fin. Qed.
Lemma er_min_nan p q : er_min p q = ENaN <-> p = ENaN /\ q = ENaN.
Proof. unfold er_min. er_destr; fin. Qed.
Lemma er_max_nan p q : er_max p q = ENaN <-> p = ENaN /\ q = ENaN.
Proof. unfold er_max. er_destr; fin. Qed.
(* greatest lower bound / least upper bound *)
Lemma er_min_glb p q v : er_le v p -> er_le v q -> er_le v (er_min p q).
Proof. unfold er_min. er_destr; fin. Qed.
Lemma er_max_lub p q v : er_le p v -> er_le q v -> er_le (er_max p q) v.
Proof. unfold er_max. er_destr; fin. Qed.
Lemma er_min_cases p q : er_min p q = p \/ er_min p q = q.
Proof. unfold er_min. er_destr; fin; tauto. Qed.
Lemma er_max_cases p q : er_max p q = p \/ er_max p q = q.
Proof. unfold er_max. er_destr; fin; tauto. Qed.
Lemma er_min_le_max p q : er_min p q <> ENaN -> er_le (er_min p q) (er_max p q).
Proof. unfold er_min, er_max. er_destr; fin. Qed.
(* min and max are monotone on non-NaN values *)
Lemma er_min_mono p q p' q' : er_le p p' -> er_le q q' -> er_le (er_min p q) (er_min p' q').
Proof. unfold er_min. er_destr; fin. Qed.
Lemma er_max_mono p q p' q' : er_le p p' -> er_le q q' -> er_le (er_max p q) (er_max p' q').
Proof. unfold er_max. er_destr; fin. Qed.

Definition sound1 (iop : interval er -> option (interval er)) (pop : er -> er) : Prop :=
  forall a x, valid a -> encl a x -> x <> ENaN -> pop x <> ENaN ->
  forall r, iop a = Some r -> valid r /\ encl r (pop x).
Definition sound2 (iop : interval er -> interval er -> option (interval er)) (pop : er -> er -> er) : Prop :=
  forall a b x y, valid a -> valid b -> encl a x -> encl b y ->
  x <> ENaN -> y <> ENaN -> pop x y <> ENaN ->
  forall r, iop a b = Some r -> valid r /\ encl r (pop x y).
(* the same without the (redundant, given [valid] and [encl]) operand hypotheses *)
Definition sound1s (iop : interval er -> option (interval er)) (pop : er -> er) : Prop :=
  forall a x, valid a -> encl a x -> pop x <> ENaN ->
  forall r, iop a = Some r -> valid r /\ encl r (pop x).
Definition sound2s (iop : interval er -> interval er -> option (interval er)) (pop : er -> er -> er) : Prop :=
  forall a b x y, valid a -> valid b -> encl a x -> encl b y -> pop x y <> ENaN ->
  forall r, iop a b = Some r -> valid r /\ encl r (pop x y).
Lemma sound1s_sound1 iop pop : sound1s iop pop -> sound1 iop pop.
Proof. unfold sound1s, sound1. eauto. Qed.
Lemma sound2s_sound2 iop pop : sound2s iop pop -> sound2 iop pop.
Proof. unfold sound2s, sound2. eauto. Qed.

(* ---- multiplication ------------------------------------------------------------- *)

Lemma er_mul_comm x y : er_mul x y = er_mul y x.
Proof. er_destr; fin; f_equal; ring. Qed.

(* one-variable steps: x*y is bounded below (above) by one of the end points times y,
   except in one corner case where both end-point products are NaN *)
Lemma mul_lower1 a1 a2 x y : er_le a1 x -> er_le x a2 -> y <> ENaN -> er_mul x y <> ENaN ->
  er_le (er_mul a1 y) (er_mul x y) \/ er_le (er_mul a2 y) (er_mul x y) \/
  (y = EFin 0 /\ a1 = ENInf /\ a2 = EPInf).
Proof.
  intros. er_destr; signs; try (orsolve atom).
  match goal with |- _ * ?y <= _ \/ _ => destruct (Rle_dec 0 y) end; orsolve atom.
Qed.

Lemma mul_upper1 a1 a2 x y : er_le a1 x -> er_le x a2 -> y <> ENaN -> er_mul x y <> ENaN ->
  er_le (er_mul x y) (er_mul a1 y) \/ er_le (er_mul x y) (er_mul a2 y) \/
  (y = EFin 0 /\ a1 = ENInf /\ a2 = EPInf).
Proof.
  intros. er_destr; signs; try (orsolve atom).
  match goal with |- _ * ?y <= _ \/ _ => destruct (Rle_dec 0 y) end; orsolve atom.
Qed.

Definition lower4 (o0 o1 o2 o3 v : er) : Prop :=
  er_le o0 v \/ er_le o1 v \/ er_le o2 v \/ er_le o3 v.
Definition upper4 (o0 o1 o2 o3 v : er) : Prop :=
  er_le v o0 \/ er_le v o1 \/ er_le v o2 \/ er_le v o3.
Definition all_nan4 (o0 o1 o2 o3 : er) : Prop :=
  o0 = ENaN /\ o1 = ENaN /\ o2 = ENaN /\ o3 = ENaN.

Lemma mul_lower a1 a2 b1 b2 x y :
  er_le a1 x -> er_le x a2 -> er_le b1 y -> er_le y b2 -> er_mul x y <> ENaN ->
  lower4 (er_mul a1 b1) (er_mul a1 b2) (er_mul a2 b1) (er_mul a2 b2) (er_mul x y) \/
  all_nan4 (er_mul a1 b1) (er_mul a1 b2) (er_mul a2 b1) (er_mul a2 b2).
Proof.
  intros A1 A2 B1 B2 Hn. unfold lower4, all_nan4.
  pose proof (er_le_nn_r _ _ B1) as Hy.
  destruct (mul_lower1 a1 a2 x y A1 A2 Hy Hn) as [L|[L|[-> [-> ->]]]].
  - pose proof (er_le_nn_l _ _ L) as Hn1. rewrite (er_mul_comm a1 y) in L, Hn1.
    destruct (mul_lower1 b1 b2 y a1 B1 B2 (er_le_nn_l _ _ A1) Hn1) as [M|[M|[-> [-> ->]]]].
    + left. left. rewrite (er_mul_comm a1 b1). eapply er_le_trans; eauto.
    + left. right. left. rewrite (er_mul_comm a1 b2). eapply er_le_trans; eauto.
    + clear A1 B1 B2 Hn1. er_destr; signs; orsolve atom.
  - pose proof (er_le_nn_l _ _ L) as Hn1. rewrite (er_mul_comm a2 y) in L, Hn1.
    destruct (mul_lower1 b1 b2 y a2 B1 B2 (er_le_nn_r _ _ A2) Hn1) as [M|[M|[-> [-> ->]]]].
    + left. right. right. left. rewrite (er_mul_comm a2 b1). eapply er_le_trans; eauto.
    + left. right. right. right. rewrite (er_mul_comm a2 b2). eapply er_le_trans; eauto.
    + clear A2 B1 B2 Hn1. er_destr; signs; orsolve atom.
  - clear A1 A2 Hy. er_destr; signs; orsolve atom.
Qed.

Lemma mul_upper a1 a2 b1 b2 x y :
  er_le a1 x -> er_le x a2 -> er_le b1 y -> er_le y b2 -> er_mul x y <> ENaN ->
  upper4 (er_mul a1 b1) (er_mul a1 b2) (er_mul a2 b1) (er_mul a2 b2) (er_mul x y) \/
  all_nan4 (er_mul a1 b1) (er_mul a1 b2) (er_mul a2 b1) (er_mul a2 b2).
Proof.
  intros A1 A2 B1 B2 Hn. unfold upper4, all_nan4.
  pose proof (er_le_nn_r _ _ B1) as Hy.
  destruct (mul_upper1 a1 a2 x y A1 A2 Hy Hn) as [L|[L|[-> [-> ->]]]].
  - pose proof (er_le_nn_r _ _ L) as Hn1. rewrite (er_mul_comm a1 y) in L, Hn1.
    destruct (mul_upper1 b1 b2 y a1 B1 B2 (er_le_nn_l _ _ A1) Hn1) as [M|[M|[-> [-> ->]]]].
    + left. left. rewrite (er_mul_comm a1 b1). eapply er_le_trans; eauto.
    + left. right. left. rewrite (er_mul_comm a1 b2). eapply er_le_trans; eauto.
    + clear A1 B1 B2 Hn1. er_destr; signs; orsolve atom.
  - pose proof (er_le_nn_r _ _ L) as Hn1. rewrite (er_mul_comm a2 y) in L, Hn1.
    destruct (mul_upper1 b1 b2 y a2 B1 B2 (er_le_nn_r _ _ A2) Hn1) as [M|[M|[-> [-> ->]]]].
    + left. right. right. left. rewrite (er_mul_comm a2 b1). eapply er_le_trans; eauto.
    + left. right. right. right. rewrite (er_mul_comm a2 b2). eapply er_le_trans; eauto.
    + clear A2 B1 B2 Hn1. er_destr; signs; orsolve atom.
  - clear A1 A2 Hy. er_destr; signs; orsolve atom.
Qed.

(* ---- division ------------------------------------------------------------------ *)
Lemma Rrecip_pos b : 0 < b -> 0 < 1 / b.
Proof. intros. apply Rdiv_lt_0_compat; lra. Qed.
Lemma Rrecip_neg b : b < 0 -> 1 / b < 0.
Proof. intros. unfold Rdiv. rewrite Rmult_1_l. now apply Rinv_lt_0_compat. Qed.
Lemma Rrecip_anti a b : 0 < a -> a <= b -> 1 / b <= 1 / a.
Proof. intros. unfold Rdiv. rewrite !Rmult_1_l. apply Rinv_le_contravar; assumption. Qed.
Lemma Rrecip_anti_neg a b : b < 0 -> a <= b -> 1 / b <= 1 / a.
Proof.
  intros. replace (1 / b) with (- (1 / - b)) by (field; lra).
  replace (1 / a) with (- (1 / - a)) by (field; lra).
  apply Ropp_le_contravar. apply Rrecip_anti; lra.
Qed.

Lemma er_div_mul x y : y <> EFin 0 -> er_div x y = er_mul x (er_div (EFin 1) y).
Proof.
  intros Hy. destruct y as [| | |b]; [destruct x; reflexivity | | |].
  - destruct x; cbn; signs; atom.
  - destruct x; cbn; signs; atom.
  - assert (b <> 0) by (intros ->; now apply Hy).
    pose proof (Rrecip_pos b). pose proof (Rrecip_neg b).
    destruct x; cbn; signs; try (f_equal; field; assumption); atom.
Qed.

(* 1/y is antitone on an interval that excludes zero *)
Lemma recip_bounds b1 b2 y :
  er_lt (EFin 0) b1 \/ er_lt b2 (EFin 0) -> er_le b1 y -> er_le y b2 ->
  er_le (er_div (EFin 1) b2) (er_div (EFin 1) y) /\ er_le (er_div (EFin 1) y) (er_div (EFin 1) b1).
Proof.
  intros H B1 B2. er_destr; signs; try (destruct H; contradiction); split_all; fin0.
  all: try match goal with |- 0 <= 1 / ?b => pose proof (Rrecip_pos b); lra end.
  all: try match goal with |- 1 / ?b <= 0 => pose proof (Rrecip_neg b); lra end.
  all: try (apply Rrecip_anti; lra).
  all: destruct H; [apply Rrecip_anti; lra | apply Rrecip_anti_neg; lra].
Qed.

Lemma nz_of_bounds b1 b2 y :
  er_lt (EFin 0) b1 \/ er_lt b2 (EFin 0) -> er_le b1 y -> er_le y b2 ->
  b1 <> EFin 0 /\ b2 <> EFin 0 /\ y <> EFin 0.
Proof. intros [H|H] B1 B2; er_destr; fin. Qed.


(* what the hypotheses "valid a, encl a x" amount to *)
Lemma encl_cases a x : valid a -> encl a x ->
  (lo a = ENaN /\ hi a = ENaN) \/ (er_le (lo a) x /\ er_le x (hi a)).
Proof.
  destruct a as [a1 a2]. unfold valid, encl, has_nan. cbn. intros V E.
  destruct V as [V|V]; [|now left]. right.
  destruct E as [E|E]; [|tauto]. destruct a1, a2; cbn in *; try discriminate; contradiction.
Qed.

Lemma encl_nan_interval v : encl {| lo := ENaN; hi := ENaN |} v.
Proof. now left. Qed.
Lemma valid_nan_interval : valid {| lo := ENaN; hi := ENaN |}.
Proof. now right. Qed.

Section Basics.
Variable rnd : er -> er.
Variable mix : er -> er -> er.
Notation F := (er_fl_gen rnd mix).

(* ---- Interval::new ------------------------------------------------------------ *)
Lemma inew_some l u r : inew F l u = Some r -> r = {| lo := l; hi := u |} /\ valid r.
Proof.
  unfold inew, ge, valid. cbn. intros H.
  destruct (er_leb l u) eqn:E.
  - cbn in H. injection H as <-. split; [reflexivity|]. left. now apply er_leb_spec.
  - cbn in H. destruct l, u; cbn in *; try discriminate. injection H as <-. split; [reflexivity|]. now right.
Qed.

Lemma inew_total l u : er_le l u \/ (l = ENaN /\ u = ENaN) -> exists r, inew F l u = Some r.
Proof.
  unfold inew, ge. cbn. intros [H|[-> ->]].
  - apply er_leb_spec in H. rewrite H. cbn. eauto.
  - cbn. eauto.
Qed.

Lemma inew_none l u : inew F l u = None <-> ~ (er_le l u \/ (l = ENaN /\ u = ENaN)).
Proof.
  split.
  - intros H C. destruct (inew_total _ _ C) as [r Hr]. congruence.
  - intros H. destruct (inew F l u) eqn:E; [|reflexivity]. exfalso. apply H.
    destruct (inew_some _ _ _ E) as [-> V]. exact V.
Qed.

(* the workhorse: for results built by [inew], validity is free and enclosure only
   has to be shown when the two bounds are ordered *)
Lemma inew_encl l u v r :
  inew F l u = Some r -> v <> ENaN ->
  (er_le l u -> er_le l v /\ er_le v u) ->
  valid r /\ encl r v.
Proof.
  intros H Hv Hb. destruct (inew_some _ _ _ H) as [-> V]. split; [exact V|].
  destruct V as [V | [V1 V2]]; cbn in *.
  - right. split; [exact Hv|]. now apply Hb.
  - left. subst. reflexivity.
Qed.

Lemma inew_nan_res r v : inew F ENaN ENaN = Some r -> valid r /\ encl r v.
Proof.
  intros H. destruct (inew_some _ _ _ H) as [-> V]. split; [exact V|]. now left.
Qed.

(* inew_nan (the repaired add / sub / Mul<f32>): a NaN in either bound gives the NaN interval *)
Lemma inew_nan_some l u r : inew_nan F l u = Some r -> valid r.
Proof.
  unfold inew_nan. destruct (fl_is_nan er F l || fl_is_nan er F u); intros H.
  - unfold inan, ifrom in H. apply inew_some in H. tauto.
  - apply inew_some in H. tauto.
Qed.

Lemma inew_nan_encl l u v r :
  inew_nan F l u = Some r -> v <> ENaN ->
  (er_le l u -> er_le l v /\ er_le v u) ->
  valid r /\ encl r v.
Proof.
  unfold inew_nan. destruct (fl_is_nan er F l || fl_is_nan er F u); intros H Hv Hb.
  - unfold inan, ifrom in H. cbn [fl_nan er_fl_gen] in H. now apply inew_nan_res.
  - now apply (inew_encl l u v r).
Qed.

Lemma inew_nan_total l u : (l <> ENaN -> u <> ENaN -> er_le l u) -> exists r, inew_nan F l u = Some r.
Proof.
  intros H. unfold inew_nan. cbn [fl_is_nan er_fl_gen].
  destruct (er_is_nan l || er_is_nan u) eqn:E.
  - unfold inan, ifrom. apply inew_total. right. split; reflexivity.
  - apply inew_total. left. apply orb_false_iff in E. destruct E.
    apply H; intros ->; discriminate.
Qed.

(* four_minmax: NaN-ignoring min / max of four candidates *)
Lemma four_minmax_encl o0 o1 o2 o3 v r :
  four_minmax F o0 o1 o2 o3 = Some r -> v <> ENaN ->
  lower4 o0 o1 o2 o3 v \/ all_nan4 o0 o1 o2 o3 ->
  upper4 o0 o1 o2 o3 v \/ all_nan4 o0 o1 o2 o3 ->
  valid r /\ encl r v.
Proof.
  unfold four_minmax. cbn. intros H Hv HL HU.
  apply (inew_encl _ _ _ _ H Hv). clear H. intros Hlu.
  assert (Hnn : ~ all_nan4 o0 o1 o2 o3).
  { intros (-> & -> & -> & ->). cbn in Hlu. exact Hlu. }
  destruct HL as [HL|HL]; [|contradiction]. destruct HU as [HU|HU]; [|contradiction].
  split.
  - destruct HL as [L|[L|[L|L]]].
    + now apply er_min_lb_l, er_min_lb_l, er_min_lb_l.
    + now apply er_min_lb_l, er_min_lb_l, er_min_lb_r.
    + now apply er_min_lb_l, er_min_lb_r.
    + now apply er_min_lb_r.
  - destruct HU as [L|[L|[L|L]]].
    + now apply er_max_ub_l, er_max_ub_l, er_max_ub_l.
    + now apply er_max_ub_l, er_max_ub_l, er_max_ub_r.
    + now apply er_max_ub_l, er_max_ub_r.
    + now apply er_max_ub_r.
Qed.

End Basics.
Arguments inew_some {rnd mix}. Arguments inew_total {rnd mix}. Arguments inew_none {rnd mix}.
Arguments inew_encl {rnd mix}. Arguments inew_nan_res {rnd mix}. Arguments four_minmax_encl {rnd mix}.
Arguments inew_nan_some {rnd mix}. Arguments inew_nan_encl {rnd mix}. Arguments inew_nan_total {rnd mix}.

(* ---- proof tactics for the operation lemmas ---------------------------------------- *)
Ltac start1 a x :=
  let Va := fresh "Va" in let Ea := fresh "Ea" in
  intros a x Va Ea;
  pose proof (encl_cases a x Va Ea) as Ca;
  destruct a as [a1 a2]; cbn [lo hi] in Ca.
Ltac start2 a b x y :=
  let Va := fresh "Va" in let Vb := fresh "Vb" in let Ea := fresh "Ea" in let Eb := fresh "Eb" in
  intros a b x y Va Vb Ea Eb;
  pose proof (encl_cases a x Va Ea) as Ca; pose proof (encl_cases b y Vb Eb) as Cb;
  destruct a as [a1 a2], b as [b1 b2]; cbn [lo hi] in Ca, Cb.

(* finish a goal [valid r /\ encl r v] from H : <result expression> = Some r,
   where the result expression has been reduced to [inew ..] or [Some ..] *)
Ltac norm_res H := unfold inan, ifrom in H; fl_red_in H.
Ltac nan_res H := norm_res H; apply (inew_nan_res _ _ H).
Ltac res_inew H Hn :=
  norm_res H;
  first [ apply (inew_nan_res _ _ H)
        | apply (inew_encl _ _ _ _ H Hn); clear H; try solve [fin]
        | apply (inew_nan_encl _ _ _ _ H Hn); clear H; try solve [fin] ].

(* close [valid r /\ encl r v] when the result is an operand passed through *)
Ltac res_some H :=
  injection H as <-; unfold valid, encl; cbn; split; [left|right]; fin.

