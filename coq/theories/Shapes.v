(* Shapes.v — fidget-shapes/src/lib.rs and types.rs: every `From<_> for Tree` body as a
   tree builder, generic in the scalar type (f32: what runs and is compared with
   `Tree::from(shape)` after import; reals: what the geometry theorems are about).
   Scalars computed while building (1/(4r), radius*2, -offset, hi-lo, normalised axes) use
   the scalar operations of [SC]; the rotation matrix of `Rotate` is a parameter (nalgebra's
   Rotation3::new for f32, Rodrigues' formula over the reals). *)
From Coq Require Import List Bool Arith.
From FV Require Import Ops Expr.
Import ListNotations.

Section Shapes.
Context {T : Type}.
Variable Sc : SC T.
Variable sc_sqrt : T -> T.
Variable sc_two sc_four sc_inf sc_ninf : T.
Variable sc_pos : T -> bool.              (* v.radius > 0.0 *)
Notation E := (etree T).
Notation K := (@EConst T).

Notation "a '-e' b" := (EBin BSub a b) (at level 50, left associativity).
Notation "a '+e' b" := (EBin BAdd a b) (at level 50, left associativity).
Notation "a '*e' b" := (EBin BMul a b) (at level 40, left associativity).
Definition emax (a b : E) : E := EBin BMax a b.
Definition emin (a b : E) : E := EBin BMin a b.
Definition esq (a : E) : E := EUn USquare a.

Record vec3 := { vx : T; vy : T; vz : T }.
Definition vneg (v : vec3) : vec3 := {| vx := sc_neg Sc (vx v); vy := sc_neg Sc (vy v); vz := sc_neg Sc (vz v) |}.

(* ---- primitives ---- *)
Definition circle (cx cy r : T) : E :=
  EUn USqrt (esq (EX -e K cx) +e esq (EY -e K cy)) -e K r.
Definition rectangle (lx ly ux uy : T) : E :=
  emax (emax (K lx -e EX) (EX -e K ux)) (emax (K ly -e EY) (EY -e K uy)).
Definition sphere (c : vec3) (r : T) : E :=
  EUn USqrt (esq (EX -e K (vx c)) +e esq (EY -e K (vy c)) +e esq (EZ -e K (vz c))) -e K r.
Definition box (lo hi : vec3) : E :=
  emax (emax (emax (K (vx lo) -e EX) (EX -e K (vx hi)))
             (emax (K (vy lo) -e EY) (EY -e K (vy hi))))
       (emax (K (vz lo) -e EZ) (EZ -e K (vz hi))).
(* From<Plane> for Tree: x * a.x + y * a.y + z * a.z - offset *)
Definition plane (a : vec3) (off : T) : E :=
  EX *e K (vx a) +e EY *e K (vy a) +e EZ *e K (vz a) -e K off.

(* ---- CSG ---- *)
(* recurse(&s[..n/2]).min(recurse(&s[n/2..])), by fuel = length *)
Fixpoint csg_tree (f : E -> E -> E) (fuel : nat) (s : list E) (dflt : E) : E :=
  match fuel with
  | O => dflt
  | S k =>
      match s with
      | [] => dflt
      | [x] => x
      | _ => let n := length s in
             f (csg_tree f k (firstn (n / 2) s) dflt) (csg_tree f k (skipn (n / 2) s) dflt)
      end
  end.
Definition union (s : list E) : E := match s with [] => K sc_inf | _ => csg_tree emin (length s) s (K sc_inf) end.
Definition intersection (s : list E) : E := match s with [] => K sc_ninf | _ => csg_tree emax (length s) s (K sc_ninf) end.
Definition inverse (s : E) : E := EUn UNeg s.
Definition difference (s cut : E) : E := emax s (EUn UNeg cut).
Definition blend (a b : E) (r : T) : E :=
  if sc_pos r then
    emin a b -e K (sc_div Sc (sc_one Sc) (sc_mul Sc sc_four r)) *e esq (emax (K r -e EUn UAbs (a -e b)) (K (sc_zero Sc)))
  else emin a b.

(* ---- affine transforms ---- *)
Definition translation (v : vec3) : list T :=
  [sc_one Sc; sc_zero Sc; sc_zero Sc; vx v;  sc_zero Sc; sc_one Sc; sc_zero Sc; vy v;  sc_zero Sc; sc_zero Sc; sc_one Sc; vz v].
Definition scaling (v : vec3) : list T :=
  [vx v; sc_zero Sc; sc_zero Sc; sc_zero Sc;  sc_zero Sc; vy v; sc_zero Sc; sc_zero Sc;  sc_zero Sc; sc_zero Sc; vz v; sc_zero Sc].
Definition rotation3 (r : list T) : list T :=     (* 3x3 row-major -> 3x4 *)
  let g k := nth k r (sc_zero Sc) in
  [g 0; g 1; g 2; sc_zero Sc;  g 3; g 4; g 5; sc_zero Sc;  g 6; g 7; g 8; sc_zero Sc].

Definition move (s : E) (off : vec3) : E := remap_affine Sc s (translation (vneg off)).
Definition scale (s : E) (k : vec3) : E :=
  remap_affine Sc s (scaling {| vx := sc_div Sc (sc_one Sc) (vx k); vy := sc_div Sc (sc_one Sc) (vy k); vz := sc_div Sc (sc_one Sc) (vz k) |}).
Definition scale_uniform (s : E) (k : T) : E :=
  let i := sc_div Sc (sc_one Sc) k in remap_affine Sc s (scaling {| vx := i; vy := i; vz := i |}).
(* Rotate: move by -center, rotate by the given matrix (angle -deg about axis), move back *)
Definition rotate (s : E) (rot : list T) (center : vec3) : E :=
  let s1 := move s (vneg center) in
  let s2 := remap_affine Sc s1 (rotation3 rot) in
  move s2 center.

(* ---- reflection (remap_xyz) ---- *)
Definition reflect (s : E) (a : vec3) (off : T) : E :=
  let d := K (vx a) *e EX +e K (vy a) *e EY +e K (vz a) *e EZ -e K off in
  let sc := K sc_two *e d in
  remap_xyz s (EX -e sc *e K (vx a)) (EY -e sc *e K (vy a)) (EZ -e sc *e K (vz a)).

Definition axis_x : vec3 := {| vx := sc_one Sc; vy := sc_zero Sc; vz := sc_zero Sc |}.
Definition axis_y : vec3 := {| vx := sc_zero Sc; vy := sc_one Sc; vz := sc_zero Sc |}.
Definition axis_z : vec3 := {| vx := sc_zero Sc; vy := sc_zero Sc; vz := sc_one Sc |}.
(* Axis::try_from(v) = v / norm(v), norm = sqrt(x^2 + y^2 + z^2) *)
Definition normalize (v : vec3) : vec3 :=
  let n := sc_sqrt (sc_add Sc (sc_add Sc (sc_mul Sc (vx v) (vx v)) (sc_mul Sc (vy v) (vy v))) (sc_mul Sc (vz v) (vz v))) in
  {| vx := sc_div Sc (vx v) n; vy := sc_div Sc (vy v) n; vz := sc_div Sc (vz v) n |}.
Definition reflect_x (s : E) (off : T) := reflect s axis_x off.
Definition reflect_y (s : E) (off : T) := reflect s axis_y off.
Definition reflect_z (s : E) (off : T) := reflect s axis_z off.
Definition reflect_xy (s : E) (off : T) :=
  reflect s (normalize {| vx := sc_neg Sc (sc_one Sc); vy := sc_one Sc; vz := sc_zero Sc |}) off.

(* ---- named planes (types.rs) ----
   [plane_xy_axis] is regenerated from the source (gen/ShapesGen.v) and compared. *)
Inductive axis_name := AX | AY | AZ.
Definition axis_of (n : axis_name) : vec3 := match n with AX => axis_x | AY => axis_y | AZ => axis_z end.

(* ---- revolve / extrude / loft / repeat ---- *)
(* [revolve_other]: which coordinate is squared together with x (regenerated from the source) *)
Definition revolve_y (other : axis_name) (s : E) (off : T) : E :=
  let offset := {| vx := sc_neg Sc off; vy := sc_zero Sc; vz := sc_zero Sc |} in
  let s1 := move s (vneg offset) in
  let o := match other with AX => EX | AY => EY | AZ => EZ end in
  let r := EUn USqrt (esq EX +e esq o) in
  let s2 := remap_xyz s1 r EY EZ in
  move s2 offset.
Definition extrude_z (s : E) (lo hi : T) : E :=
  let t := remap_xyz s EX EY (K (sc_zero Sc)) in
  emax t (emax (K lo -e EZ) (EZ -e K hi)).
Definition loft_z (a b : E) (lo hi : T) : E :=
  let ta := remap_xyz a EX EY (K (sc_zero Sc)) in
  let tb := remap_xyz b EX EY (K (sc_zero Sc)) in
  let t := EBin BDiv ((EZ -e K lo) *e tb +e (K hi -e EZ) *e ta) (K (sc_sub Sc hi lo)) in
  emax t (emax (K lo -e EZ) (EZ -e K hi)).
Definition repeat_x (s : E) (radius off : T) : E :=
  let r := sc_sub Sc radius off in
  remap_xyz s (EBin BMod (EX +e K r) (K (sc_mul Sc radius sc_two)) -e K r) EY EZ.

End Shapes.
