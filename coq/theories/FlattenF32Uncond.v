(* FlattenF32Uncond.v — flatten_correct on the f32 semantics with no commutation
   hypothesis: Add / Mul / Min / Max of F32.v commute (F32Facts.f32_bin_comm). *)
From Coq Require Import ZArith List Bool Arith.
From FV Require Import F32 Ops Tape Alloc Flatten CtxEval F32Sem
  FlattenPass2 FlattenSem FlattenProof FlattenF32 F32Facts.
Import ListNotations.
Local Close Scope Z_scope.

Theorem flatten_correct_f32_all : forall o env arena roots t vars,
  arena_ok arena roots -> flatten arena roots = Ok (t, vars) ->
  eval_outputs (f32_sem o) (t_ops t) (length roots) (map env vars)
  = map (ctx_eval (f32_sem o) arena env) roots.
Proof.
  intros o env arena roots t vars.
  apply flatten_correct; try reflexivity.
  intros b x c Hb. simpl. apply f32_bin_comm, Hb.
Qed.

(* in particular the commutation hypothesis of flatten_correct_f32 always holds *)
Theorem comm_at_nodes_f32 o env arena : comm_at_nodes (f32_sem o) env arena.
Proof.
  intros node b l r c _ _ Hf. simpl. apply f32_bin_comm.
  destruct b; simpl in *; try discriminate; auto 6.
Qed.

Print Assumptions flatten_correct_f32_all.
Print Assumptions comm_at_nodes_f32.
