(* AllocSem.v — semantic building blocks for the allocator proof: backward
   simulation steps for each kind of emitted instruction. *)
From Coq Require Import List Bool Arith Lia.
From FV Require Import Ops Tape.
Import ListNotations.

Section Sem.
Context {V I : Type}.
Variable sem : Sem V I.
Variable inputs : list V.
Notation op := (Tape.op I).
Notation mstate := (@mstate V).

Definition amap := nat -> option nat.

(* every allocated SSA variable's location holds its value *)
Definition agreeA (A : amap) (ea eb : @env V) : Prop :=
  forall v l, A v = Some l -> eb l = ea v.

Definition obs_eq (a b : mstate) : Prop :=
  m_out a = m_out b /\ m_trace a = m_trace b.

(* [ssa] and [out] both in evaluation order *)
Definition sim (ssa out : list op) (A : amap) : Prop :=
  forall a b, agreeA A (m_slots a) (m_slots b) -> obs_eq a b ->
    obs_eq (run_fwd sem inputs ssa a) (run_fwd sem inputs out b).

Lemma sim_weaken ssa out A A' :
  sim ssa out A -> (forall v l, A v = Some l -> A' v = Some l) -> sim ssa out A'.
Proof.
  intros S H a b Ha Ho. apply S; auto. intros v l E. apply Ha, H, E.
Qed.

Lemma sim_load ssa out A A' r m :
  sim ssa out A ->
  (forall v l, A v = Some l -> if Nat.eqb l r then A' v = Some m else A' v = Some l) ->
  sim ssa (OLoad r m :: out) A'.
Proof.
  intros S H a b Ha Ho. unfold run_fwd at 2. simpl. apply S.
  - intros v l E. simpl. unfold upd. specialize (H v l E).
    destruct (Nat.eqb l r); apply Ha; exact H.
  - exact Ho.
Qed.

Lemma sim_store ssa out A A' r m :
  sim ssa out A ->
  (forall v l, A v = Some l -> if Nat.eqb l m then A' v = Some r else A' v = Some l) ->
  sim ssa (OStore r m :: out) A'.
Proof.
  intros S H a b Ha Ho. unfold run_fwd at 2. simpl. apply S.
  - intros v l E. simpl. unfold upd. specialize (H v l E).
    destruct (Nat.eqb l m); apply Ha; exact H.
  - exact Ho.
Qed.

(* [so] defines SSA variable [out] from SSA arguments, [ro] defines register [rx]
   from register arguments, by the same operation; [args] pairs them up *)
Definition def_corr (so ro : op) (out rx : nat) (args : list (nat * nat)) : Prop :=
  forall a b : mstate,
    (forall v r, In (v, r) args -> m_slots b r = m_slots a v) -> obs_eq a b ->
    obs_eq (step sem inputs a so) (step sem inputs b ro) /\
    exists x, m_slots (step sem inputs a so) = upd (m_slots a) out x /\
              m_slots (step sem inputs b ro) = upd (m_slots b) rx x.

Lemma sim_def ssa out A A' so ro o rx args :
  sim ssa out A ->
  def_corr so ro o rx args ->
  (forall v r, In (v, r) args -> A' v = Some r) ->
  (forall v l, A v = Some l -> (v = o /\ l = rx) \/ (v <> o /\ l <> rx /\ A' v = Some l)) ->
  sim (so :: ssa) (ro :: out) A'.
Proof.
  intros S D Hargs HA a b Ha Ho. unfold run_fwd. simpl.
  assert (Hargs' : forall v r, In (v, r) args -> m_slots b r = m_slots a v)
    by (intros v r Hin; apply Ha, Hargs, Hin).
  destruct (D a b Hargs' Ho) as [Ho' (x & Ea & Eb)].
  apply S; auto.
  rewrite Ea, Eb. intros v l E. unfold upd.
  destruct (HA v l E) as [[-> ->]|(Hv & Hl & E')].
  - now rewrite !Nat.eqb_refl.
  - apply Nat.eqb_neq in Hv, Hl. rewrite Hv, Hl. apply Ha, E'.
Qed.

Lemma sim_output ssa out A A' arg r i :
  sim ssa out A ->
  A' arg = Some r ->
  (forall v l, A v = Some l -> A' v = Some l) ->
  sim (OOutput arg i :: ssa) (OOutput r i :: out) A'.
Proof.
  intros S Harg HA a b Ha [Ho Ht]. unfold run_fwd. simpl. apply S.
  - simpl. intros v l E. apply Ha, HA, E.
  - split; simpl; [|exact Ht]. rewrite (Ha _ _ Harg), Ho. reflexivity.
Qed.

(* ---- instances of def_corr ---- *)
Lemma dc_input o rx i : def_corr (OInput o i) (OInput rx i) o rx [].
Proof. intros a b _ Ho. split; [exact Ho|]. eexists; split; reflexivity. Qed.

Lemma dc_copyimm o rx c : def_corr (OCopyImm o c) (OCopyImm rx c) o rx [].
Proof. intros a b _ Ho. split; [exact Ho|]. eexists; split; reflexivity. Qed.

Lemma dc_un u o rx arg ry : def_corr (OUn u o arg) (OUn u rx ry) o rx [(arg, ry)].
Proof.
  intros a b H Ho. split; [exact Ho|]. simpl.
  rewrite (H arg ry) by (left; reflexivity). eexists; split; reflexivity.
Qed.

Lemma dc_ir bo o rx arg ry c : def_corr (OBinIR bo o arg c) (OBinIR bo rx ry c) o rx [(arg, ry)].
Proof.
  intros a b H Ho. split; [exact Ho|]. simpl.
  rewrite (H arg ry) by (left; reflexivity). eexists; split; reflexivity.
Qed.

Lemma dc_ri bo o rx arg ry c : def_corr (OBinRI bo o arg c) (OBinRI bo rx ry c) o rx [(arg, ry)].
Proof.
  intros a b H [Ho Ht]. simpl.
  rewrite (H arg ry) by (left; reflexivity).
  destruct (bop_has_choice bo); (split; [split; simpl; congruence|]);
    eexists; split; reflexivity.
Qed.

Lemma dc_rr bo o rx l r ry rz :
  def_corr (OBinRR bo o l r) (OBinRR bo rx ry rz) o rx [(l, ry); (r, rz)].
Proof.
  intros a b H [Ho Ht]. simpl.
  rewrite (H l ry) by (left; reflexivity).
  rewrite (H r rz) by (right; left; reflexivity).
  destruct (bop_has_choice bo); (split; [split; simpl; congruence|]);
    eexists; split; reflexivity.
Qed.

(* ---- whole "tails": defining op preceded (in push order) by 0, 1 or 2 stores ---- *)
Lemma sim_tail0 ssa out A A' so ro o rx args :
  sim ssa out A ->
  def_corr so ro o rx args ->
  A o = Some rx -> (forall w, A w = Some rx -> w = o) ->
  (forall v r, In (v, r) args -> A' v = Some r) ->
  (forall v l, v <> o -> A v = Some l -> A' v = Some l) ->
  sim (so :: ssa) (ro :: out) A'.
Proof.
  intros S D Ho Hu Hargs Hext. eapply sim_def; eauto.
  intros v l Hv. destruct (Nat.eq_dec v o) as [->|Hne].
  - left. split; congruence.
  - right. split; [assumption|]. split; [|auto]. intros ->. auto.
Qed.

Lemma sim_tail1 ssa out A A' so ro o rx args y my ra :
  sim ssa out A ->
  def_corr so ro o rx args ->
  A o = Some rx -> (forall w, A w = Some rx -> w = o) ->
  A y = Some my -> (forall w, A w = Some my -> w = y) ->
  y <> o -> ra <> rx ->
  (forall v r, In (v, r) args -> A' v = Some r) ->
  A' y = Some ra ->
  (forall v l, v <> o -> v <> y -> A v = Some l -> A' v = Some l) ->
  sim (so :: ssa) (ro :: OStore ra my :: out) A'.
Proof.
  intros S D Ho Hu Hy Huy Hyo Hra Hargs Hy' Hext.
  set (A1 := fun j => if Nat.eqb j y then Some ra else A j).
  assert (S1 : sim ssa (OStore ra my :: out) A1).
  { eapply sim_store; [exact S|]. intros v l Hv. unfold A1.
    destruct (Nat.eqb_spec l my) as [->|Hl].
    - rewrite (Huy _ Hv), Nat.eqb_refl. reflexivity.
    - destruct (Nat.eqb_spec v y) as [->|Hvy]; [congruence|exact Hv]. }
  eapply (sim_tail0 _ _ A1); eauto; unfold A1.
  - destruct (Nat.eqb_spec o y); [congruence|exact Ho].
  - intros w. destruct (Nat.eqb_spec w y); [congruence|auto].
  - intros v l Hvo. destruct (Nat.eqb_spec v y) as [->|Hvy]; [congruence|auto].
Qed.

Lemma sim_tail2 ssa out A A' so ro o rx args y my ra z mz rb :
  sim ssa out A ->
  def_corr so ro o rx args ->
  A o = Some rx -> (forall w, A w = Some rx -> w = o) ->
  A y = Some my -> (forall w, A w = Some my -> w = y) ->
  A z = Some mz -> (forall w, A w = Some mz -> w = z) ->
  y <> o -> z <> o -> y <> z -> ra <> rx -> rb <> rx -> ra <> mz ->
  (forall v r, In (v, r) args -> A' v = Some r) ->
  A' y = Some ra -> A' z = Some rb ->
  (forall v l, v <> o -> v <> y -> v <> z -> A v = Some l -> A' v = Some l) ->
  sim (so :: ssa) (ro :: OStore rb mz :: OStore ra my :: out) A'.
Proof.
  intros S D Ho Hu Hy Huy Hz Huz Hyo Hzo Hyz Hra Hrb Hramz Hargs Hy' Hz' Hext.
  set (A1 := fun j => if Nat.eqb j y then Some ra else A j).
  assert (S1 : sim ssa (OStore ra my :: out) A1).
  { eapply sim_store; [exact S|]. intros v l Hv. unfold A1.
    destruct (Nat.eqb_spec l my) as [->|Hl].
    - rewrite (Huy _ Hv), Nat.eqb_refl. reflexivity.
    - destruct (Nat.eqb_spec v y) as [->|Hvy]; [congruence|exact Hv]. }
  eapply (sim_tail1 _ _ A1 A' so ro o rx args z mz rb); eauto; unfold A1.
  - destruct (Nat.eqb_spec o y); [congruence|exact Ho].
  - intros w. destruct (Nat.eqb_spec w y); [congruence|auto].
  - destruct (Nat.eqb_spec z y); [congruence|exact Hz].
  - intros w. destruct (Nat.eqb_spec w y); [congruence|auto].
  - intros v l Hvo Hvz. destruct (Nat.eqb_spec v y) as [->|Hvy]; [congruence|auto].
Qed.

Lemma sim_out1 ssa out A A' arg i my ra :
  sim ssa out A ->
  A arg = Some my -> (forall w, A w = Some my -> w = arg) ->
  A' arg = Some ra ->
  (forall v l, v <> arg -> A v = Some l -> A' v = Some l) ->
  sim (OOutput arg i :: ssa) (OOutput ra i :: OStore ra my :: out) A'.
Proof.
  intros S Ha Hu Ha' Hext.
  set (A1 := fun j => if Nat.eqb j arg then Some ra else A j).
  assert (S1 : sim ssa (OStore ra my :: out) A1).
  { eapply sim_store; [exact S|]. intros v l Hv. unfold A1.
    destruct (Nat.eqb_spec l my) as [->|Hl].
    - rewrite (Hu _ Hv), Nat.eqb_refl. reflexivity.
    - destruct (Nat.eqb_spec v arg) as [->|Hvy]; [congruence|exact Hv]. }
  eapply sim_output; [exact S1|exact Ha'|]. unfold A1. intros v l.
  destruct (Nat.eqb_spec v arg) as [->|Hv]; [congruence|auto].
Qed.

End Sem.
