(* IntervalSound.v — enclosure (C03) and choice soundness (C04) of the interval
   operations of Interval.v, instantiated at the extended reals with NaN (ER.v).

   For an interval operation [iop] with point operation [pop]:
     valid a -> valid b -> encl a x -> encl b y -> pop x y <> ENaN ->
     forall r, iop a b = Some r -> valid r /\ encl r (pop x y)
   ([sound2s]; the form with the additional hypotheses x <> ENaN, y <> ENaN is
   [sound2] and follows trivially, [sound2s_sound2]).  The hypothesis
   [pop x y <> ENaN] is essential: see [imul_hides_nan],
   [encl_not_compositional_and]. *)
From Coq Require Import Reals Lra Lia Psatz List Bool.
From FV Require Import Ops Tape Interval ER ERLemmas.
Local Open Scope R_scope.

Section Sound.
Variable rnd : er -> er.
Variable mix : er -> er -> er.
Notation F := (er_fl_gen rnd mix).

(* ---- neg, abs, add, sub -------------------------------------------------------- *)
Lemma ineg_sound : sound1s (ineg F) er_neg.
Proof.
  start1 a x. intros Hn r H. unfold ineg in H. cbn in H.
  apply (inew_encl _ _ _ _ H Hn). clear H Va Ea.
  destruct Ca as [[-> ->]|[A1 A2]]; er_destr; fin.
Qed.

Lemma iadd_sound : sound2s (iadd F) er_add.
Proof.
  start2 a b x y. intros Hn r H. unfold iadd in H. fl_red_in H.
  apply (inew_nan_encl _ _ _ _ H Hn). clear H Va Vb Ea Eb.
  destruct Ca as [[-> ->]|[A1 A2]], Cb as [[-> ->]|[B1 B2]]; er_destr; fin.
Qed.

Lemma isub_sound : sound2s (isub F) er_sub.
Proof.
  start2 a b x y. intros Hn r H. unfold isub in H. fl_red_in H.
  apply (inew_nan_encl _ _ _ _ H Hn). clear H Va Vb Ea Eb.
  destruct Ca as [[-> ->]|[A1 A2]], Cb as [[-> ->]|[B1 B2]]; er_destr; fin.
Qed.

Lemma iabs_sound : sound1s (iabs F) er_abs.
Proof.
  start1 a x. intros Hn r H. unfold iabs, gt in H. cbn in H. clear Va Ea.
  destruct Ca as [[-> ->]|[A1 A2]].
  - cbn in H. injection H as <-. split; [apply valid_nan_interval | apply encl_nan_interval].
  - unfold er_max in H.
    er_destr; er_unf; repeat (dec1; prune);
    first [ res_some H | res_inew H Hn ].
Qed.

(* ---- multiplication, division ---------------------------------------------------- *)
Lemma imul_sound : sound2s (imul F) er_mul.
Proof.
  start2 a b x y. intros Hn r H. unfold imul, has_nan in H. cbn in H. clear Va Vb Ea Eb.
  destruct Ca as [[-> ->]|[A1 A2]].
  { cbn in H. nan_res H. }
  destruct Cb as [[-> ->]|[B1 B2]].
  { rewrite orb_true_r in H. nan_res H. }
  assert (E : er_is_nan a1 || er_is_nan a2 || (er_is_nan b1 || er_is_nan b2) = false).
  { apply er_le_nn_l in A1, B1. apply er_le_nn_r in A2, B2.
    destruct a1, a2, b1, b2; try reflexivity; contradiction. }
  rewrite E in H.
  apply (four_minmax_encl _ _ _ _ _ _ H Hn).
  - now apply mul_lower.
  - now apply mul_upper.
Qed.

(* Mul<f32> for Interval: interval times scalar *)
Lemma imul_f_sound c : sound1s (fun a => imul_f F a c) (fun x => er_mul x c).
Proof.
  start1 a x. intros Hn r H. unfold imul_f, has_nan in H. cbn in H. clear Va Ea.
  destruct Ca as [[-> ->]|[A1 A2]].
  { cbn in H. nan_res H. }
  er_destr; signs; res_inew H Hn; atom.
Qed.

Lemma idiv_sound : sound2s (idiv F) er_div.
Proof.
  start2 a b x y. intros Hn r H. unfold idiv, has_nan, gt in H. fl_red_in H. clear Va Vb Ea Eb.
  destruct Ca as [[-> ->]|[A1 A2]].
  { cbn in H. nan_res H. }
  assert (E : er_is_nan a1 || er_is_nan a2 = false).
  { apply er_le_nn_l in A1. apply er_le_nn_r in A2. destruct a1, a2; try reflexivity; contradiction. }
  rewrite E in H. clear E.
  destruct (er_ltb (EFin 0) b1 || er_ltb b2 (EFin 0)) eqn:Eb; [|nan_res H].
  destruct Cb as [[-> ->]|[B1 B2]]; [discriminate|].
  assert (Hb : er_lt (EFin 0) b1 \/ er_lt b2 (EFin 0)).
  { apply orb_true_iff in Eb. rewrite !er_ltb_spec in Eb. exact Eb. }
  destruct (nz_of_bounds b1 b2 y Hb B1 B2) as (Hb1 & Hb2 & Hy0).
  destruct (recip_bounds b1 b2 y Hb B1 B2) as [R1 R2].
  rewrite (er_div_mul x y Hy0) in Hn |- *.
  rewrite (er_div_mul a1 b1 Hb1), (er_div_mul a1 b2 Hb2), (er_div_mul a2 b1 Hb1), (er_div_mul a2 b2 Hb2) in H.
  apply (four_minmax_encl _ _ _ _ _ _ H Hn).
  - destruct (mul_lower a1 a2 _ _ x _ A1 A2 R1 R2 Hn) as [L|L]; [left|right];
      unfold lower4, all_nan4 in *; tauto.
  - destruct (mul_upper a1 a2 _ _ x _ A1 A2 R1 R2 Hn) as [L|L]; [left|right];
      unfold upper4, all_nan4 in *; tauto.
Qed.

Lemma irecip_sound : sound1s (irecip F) (er_div (EFin 1)).
Proof.
  start1 a x. intros Hn r H. unfold irecip, gt in H. fl_red_in H. clear Va Ea.
  destruct (er_ltb (EFin 0) a1 || er_ltb a2 (EFin 0)) eqn:Eb; [|nan_res H].
  destruct Ca as [[-> ->]|[A1 A2]]; [discriminate|].
  apply orb_true_iff in Eb. rewrite !er_ltb_spec in Eb.
  apply (inew_encl _ _ _ _ H Hn). intros _. now apply recip_bounds.
Qed.

Lemma isquare_sound : sound1s (isquare F) (fun x => er_mul x x).
Proof.
  start1 a x. intros Hn r H. unfold isquare, gt, powi2, has_nan in H. cbn in H. clear Va Ea.
  destruct Ca as [[-> ->]|[A1 A2]].
  { cbn in H. nan_res H. }
  unfold er_max in H.
  er_destr; signs; res_inew H Hn; atom.
Qed.

Lemma isqrt_sound : sound1s (isqrt F) er_sqrt.
Proof.
  start1 a x. intros Hn r H. unfold isqrt in H. cbn in H. clear Va Ea.
  destruct Ca as [[-> ->]|[A1 A2]].
  { cbn in H. nan_res H. }
  er_destr; signs; res_inew H Hn; atom; apply sqrt_le_1_alt; lra.
Qed.

(* ---- min, max, and, or: values --------------------------------------------------- *)
Ltac nan_cases H Ca Cb :=
  destruct Ca as [[-> ->]|[A1 A2]];
  [ cbn in H; nan_res H |];
  destruct Cb as [[-> ->]|[B1 B2]];
  [ fl_red_in H; cbn [er_is_nan] in H; rewrite orb_true_r in H; cbn in H; nan_res H |].
Ltac brute H Hn := er_destr; signs; first [ res_some H | res_inew H Hn; atom ].

Lemma imin_sound : sound2s (fun a b => fst (imin_choice F a b)) er_pmin.
Proof.
  start2 a b x y. intros Hn r H. unfold imin_choice, has_nan in H. clear Va Vb Ea Eb.
  nan_cases H Ca Cb. unfold er_pmin, er_min in *. cbn in H. brute H Hn.
Qed.

Lemma imax_sound : sound2s (fun a b => fst (imax_choice F a b)) er_pmax.
Proof.
  start2 a b x y. intros Hn r H. unfold imax_choice, has_nan, gt in H. clear Va Vb Ea Eb.
  nan_cases H Ca Cb. unfold er_pmax, er_max in *. cbn in H. brute H Hn.
Qed.

Lemma iand_sound : sound2s (fun a b => fst (iand_choice F a b)) er_and.
Proof.
  start2 a b x y. intros Hn r H. unfold iand_choice, has_nan, contains, ge in H. clear Va Vb Ea Eb.
  nan_cases H Ca Cb. unfold er_and, er_is_zero, er_min, er_max in *. cbn in H. brute H Hn.
Qed.

Lemma ior_sound : sound2s (fun a b => fst (ior_choice F a b)) er_or.
Proof.
  start2 a b x y. intros Hn r H. unfold ior_choice, has_nan, contains, ge in H. clear Va Vb Ea Eb.
  nan_cases H Ca Cb. unfold er_or, er_is_zero, er_min, er_max in *. cbn in H. brute H Hn.
Qed.

Lemma icompare_sound : sound2s (icompare F) er_compare.
Proof.
  start2 a b x y. intros Hn r H. unfold icompare, has_nan, gt in H. clear Va Vb Ea Eb.
  nan_cases H Ca Cb. unfold er_compare in *. cbn in H. brute H Hn.
Qed.

(* inot never returns the NaN interval: er_not is 0 or 1 on every value, NaN included *)
Lemma inot_sound : sound1s (inot F) er_not.
Proof.
  start1 a x. intros Hn r H. unfold inot, has_nan, contains, ge in H. cbn in H. clear Va Ea.
  unfold er_not, er_is_zero, er_of_bool in *.
  destruct Ca as [[-> ->]|[A1 A2]].
  - cbn in H. destruct x; cbn; signs; res_inew H Hn; atom.
  - brute H Hn.
Qed.

(* constants: [ifrom c] encloses c (also for c = NaN: it is the NaN interval) *)
Lemma ifrom_sound c : forall r, ifrom F c = Some r -> valid r /\ encl r c.
Proof.
  intros r H. unfold ifrom in H. destruct (inew_some _ _ _ H) as [-> V]. split; [exact V|].
  destruct c; [now left| | |]; right; cbn; repeat split; try discriminate; lra.
Qed.
Lemma ifrom_total c : exists r, ifrom F c = Some r.
Proof.
  unfold ifrom. apply inew_total. destruct c; cbn; auto. left; lra.
Qed.

(* ---- choice soundness (what makes interval traces valid for simplification, C04) --- *)
Ltac start_choice a b x y :=
  let Va := fresh "Va" in let Vb := fresh "Vb" in let Ea := fresh "Ea" in let Eb := fresh "Eb" in
  intros Va Vb Ea Eb Hx Hy;
  pose proof (encl_cases a x Va Ea) as Ca; pose proof (encl_cases b y Vb Eb) as Cb;
  clear Va Vb Ea Eb;
  destruct a as [a1 a2], b as [b1 b2]; cbn [lo hi] in Ca, Cb;
  destruct Ca as [[-> ->]|[A1 A2]]; [cbn; split; discriminate|];
  destruct Cb as [[-> ->]|[B1 B2]];
    [cbn [has_nan lo hi fl_is_nan er_fl_gen er_is_nan]; rewrite orb_true_r; cbn; split; discriminate|].

Definition choice_ok (c : tchoice) (v x y : er) : Prop :=
  (c = TLeft -> v = x) /\ (c = TRight -> v = y).

Lemma imin_choice_sound a b x y : valid a -> valid b -> encl a x -> encl b y -> x <> ENaN -> y <> ENaN ->
  choice_ok (snd (imin_choice F a b)) (er_pmin x y) x y.
Proof.
  unfold choice_ok, imin_choice. start_choice a b x y.
  unfold er_pmin. er_destr; signs; atom.
Qed.

Lemma imax_choice_sound a b x y : valid a -> valid b -> encl a x -> encl b y -> x <> ENaN -> y <> ENaN ->
  choice_ok (snd (imax_choice F a b)) (er_pmax x y) x y.
Proof.
  unfold choice_ok, imax_choice, gt. start_choice a b x y.
  unfold er_pmax. er_destr; signs; atom.
Qed.

Lemma iand_choice_sound a b x y : valid a -> valid b -> encl a x -> encl b y -> x <> ENaN -> y <> ENaN ->
  choice_ok (snd (iand_choice F a b)) (er_and x y) x y.
Proof.
  unfold choice_ok, iand_choice, contains, ge. start_choice a b x y.
  unfold er_and, er_is_zero. er_destr; signs; atom.
Qed.

Lemma ior_choice_sound a b x y : valid a -> valid b -> encl a x -> encl b y -> x <> ENaN -> y <> ENaN ->
  choice_ok (snd (ior_choice F a b)) (er_or x y) x y.
Proof.
  unfold choice_ok, ior_choice, contains, ge. start_choice a b x y.
  unfold er_or, er_is_zero. er_destr; signs; atom.
Qed.

(* all four at once, in terms of the opcode semantics: if the interval evaluator records
   Left (Right) for a choice opcode, every point evaluation inside the operand intervals
   returns its left (right) operand *)
Theorem choice_sound op a b x y : valid a -> valid b -> encl a x -> encl b y -> x <> ENaN -> y <> ENaN ->
  choice_ok (i_choice F op a b) (er_bin mix op x y) x y.
Proof.
  intros. destruct op; cbn [i_choice er_bin]; try (split; discriminate).
  - now apply imin_choice_sound.
  - now apply imax_choice_sound.
  - now apply iand_choice_sound.
  - now apply ior_choice_sound.
Qed.

(* ---- rand, mix ---------------------------------------------------------------------- *)
(* rng::rand lands in [0,1] *)
Definition rnd_in_unit : Prop :=
  forall x, rnd x <> ENaN -> er_le (EFin 0) (rnd x) /\ er_le (rnd x) (EFin 1).

Lemma er_same_refl_eq p q : er_same p q = true -> p = q.
Proof. apply er_same_spec. Qed.

Lemma irand_sound : rnd_in_unit -> sound1s (irand F) rnd.
Proof.
  intros Hr. start1 a x. intros Hn r H. unfold irand, has_nan in H. fl_red_in H. clear Va Ea.
  destruct (er_is_nan a1 || er_is_nan a2 || negb (er_same a1 a2)) eqn:E.
  - apply (inew_encl _ _ _ _ H Hn). intros _. now apply Hr.
  - apply orb_false_iff in E. destruct E as [E1 E2]. apply negb_false_iff, er_same_spec in E2. subst a2.
    destruct Ca as [[-> _]|[A1 A2]]; [discriminate|].
    rewrite (er_le_antisym _ _ A1 A2) in *.
    unfold ifrom in H. apply (inew_encl _ _ _ _ H Hn). intros _. split; now apply er_le_refl.
Qed.

Lemma imix_sound : sound2s (imix F) mix.
Proof.
  start2 a b x y. intros Hn r H. unfold imix, has_nan in H. fl_red_in H. clear Va Vb Ea Eb.
  destruct (_ || _) eqn:E; [nan_res H|].
  repeat (apply orb_false_iff in E; destruct E as [E ?]).
  repeat match goal with H : negb (er_same _ _) = false |- _ => apply negb_false_iff, er_same_spec in H end.
  subst a2 b2.
  destruct Ca as [[-> _]|[A1 A2]]; [discriminate|].
  destruct Cb as [[-> _]|[B1 B2]]; [discriminate|].
  rewrite (er_le_antisym _ _ A1 A2), (er_le_antisym _ _ B1 B2) in *.
  unfold ifrom in H. apply (inew_encl _ _ _ _ H Hn). intros _. split; now apply er_le_refl.
Qed.

End Sound.

(* ---- why the hypotheses are needed: two documented counterexamples ------------------ *)
Definition mk (l u : er) : interval er := {| lo := l; hi := u |}.

(* 0 * inf = NaN at the point level, but the NaN-ignoring min/max in [imul] drop the
   NaN corner products: [0,1] * [inf,inf] = [inf,inf], which is not the NaN interval
   and does not "enclose" the NaN point result 0 * inf.  So [pop x y <> ENaN] cannot
   be dropped from [sound2]. *)
Example imul_hides_nan :
  exists a b x y r,
    valid a /\ valid b /\ encl a x /\ encl b y /\ x <> ENaN /\ y <> ENaN /\
    imul er_fl a b = Some r /\ er_mul x y = ENaN /\ has_nan er_fl r = false /\
    ~ encl r (er_mul x y).
Proof.
  exists (mk (EFin 0) (EFin 1)), (mk EPInf EPInf), (EFin 0), EPInf, (mk EPInf EPInf).
  assert (E : er_mul (EFin 0) EPInf = ENaN) by (cbn; signs; atom).
  repeat split; try discriminate; try exact E.
  - left; cbn; lra.
  - left; exact I.
  - right. cbn. repeat split; try discriminate; lra.
  - right. cbn. repeat split; discriminate.
  - unfold imul, four_minmax, inew, mk, ge, er_min, er_max. cbn. signs; atom.
  - rewrite E. intros [H|[H _]]; [discriminate H | now apply H].
Qed.

(* The relation "the interval encloses the point value, OR the point value is NaN"
   (which is all that C03 promises about a single operation) is NOT preserved by the
   opcodes: and(NaN, 5) = 5 at the point level (NaN == 0 is false, so the right operand
   is returned), while the interval evaluator, seeing the left operand interval [0,0],
   returns [0,0].  The NaN left operand is "related" to [0,0] only through the
   NaN escape clause; the result 5 is not NaN and is not in [0,0].  Hence the guard
   "no intermediate point value is NaN" ([x <> ENaN], [y <> ENaN]) in the
   compositional theorem. *)
Example encl_not_compositional_and :
  exists a b x y r,
    valid a /\ valid b /\ (x = ENaN \/ encl a x) /\ encl b y /\ y <> ENaN /\
    fst (iand_choice er_fl a b) = Some r /\
    er_and x y <> ENaN /\ ~ (er_and x y = ENaN \/ encl r (er_and x y)).
Proof.
  exists (mk (EFin 0) (EFin 0)), (mk (EFin 5) (EFin 5)), ENaN, (EFin 5), (mk (EFin 0) (EFin 0)).
  repeat split; try discriminate.
  - left; cbn; lra.
  - left; cbn; lra.
  - now left.
  - right. cbn. repeat split; try discriminate; lra.
  - unfold iand_choice, ifrom, inew, mk, ge, has_nan, contains. cbn. signs; atom.
  - cbn. intros [H|[H|(_ & H1 & H2)]]; try discriminate. cbn in *. lra.
Qed.

Print Assumptions imul_sound.
Print Assumptions idiv_sound.
Print Assumptions choice_sound.
Print Assumptions imul_hides_nan.
Print Assumptions encl_not_compositional_and.
