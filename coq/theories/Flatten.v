(* Flatten.v — SsaTape::new (compiler/ssa_tape.rs): the two-pass parent-count DFS
   that turns a Context arena + roots into a root-first SSA tape and a VarMap.
   The explicit `todo` stack is kept; the loops take fuel (a bound on pops) and
   running out of fuel is an error value the theorems exclude. *)
From Coq Require Import List Bool Arith.
From FV Require Import Ops Tape Alloc.
Import ListNotations.

Section Flatten.
Context {I : Type}.
Notation op := (Tape.op I).

(* context/op.rs Op; a Node is an index into the arena *)
Inductive cnode :=
| NInput (v : nat)                 (* Var: 0 = X, 1 = Y, 2 = Z, 3+k = k-th V *)
| NConst (c : I)
| NUnary (u : uop) (a : nat)
| NBinary (b : bop) (l r : nat).

Definition children (n : cnode) : list nat :=
  match n with
  | NBinary _ a b => [a; b]
  | NUnary _ a => [a]
  | _ => []
  end.

Inductive slot := SReg (r : nat) | SImm (c : I).

(* VarMap: variables in first-insertion order; index = position *)
Definition varmap := list nat.
Fixpoint var_index (m : varmap) (v : nat) : option nat :=
  match m with
  | [] => None
  | x :: xs => if Nat.eqb x v then Some 0 else option_map S (var_index xs v)
  end.
Definition var_insert (m : varmap) (v : nat) : varmap :=
  match var_index m v with Some _ => m | None => m ++ [v] end.

Record p1 := {
  p1_seen : list bool;
  p1_map : list (option slot);
  p1_parents : list nat;
  p1_vars : varmap;
  p1_slots : nat;
}.

Definition bump (l : list nat) (k : nat) : list nat := list_upd l k (S (nth k l 0)).

(* one pop of the first loop *)
Definition pass1_step (arena : list cnode) (st : p1) (node : nat) (todo : list nat)
  : result (p1 * list nat) :=
  match nth_error arena node with
  | None => Err 100   (* BadNode (an error value in Rust, not a panic) *)
  | Some o =>
      if nth node (p1_seen st) false then Ok (st, todo) else
      let seen := list_upd (p1_seen st) node true in
      let '(mp, vars, slots) :=
        match o with
        | NConst c => (list_upd (p1_map st) node (Some (SImm c)), p1_vars st, p1_slots st)
        | NInput v => (list_upd (p1_map st) node (Some (SReg (p1_slots st))),
                       var_insert (p1_vars st) v, S (p1_slots st))
        | _ => (list_upd (p1_map st) node (Some (SReg (p1_slots st))), p1_vars st, S (p1_slots st))
        end in
      let ch := children o in
      let parents := fold_left bump ch (p1_parents st) in
      (* todo.push(child) for each child in order: last child ends on top *)
      Ok ({| p1_seen := seen; p1_map := mp; p1_parents := parents; p1_vars := vars; p1_slots := slots |},
          rev ch ++ todo)
  end.

Fixpoint pass1 (fuel : nat) (arena : list cnode) (st : p1) (todo : list nat) : result p1 :=
  match todo with
  | [] => Ok st
  | node :: rest =>
      match fuel with
      | O => Err 101
      | S f =>
          match pass1_step arena st node rest with
          | Ok (st', todo') => pass1 f arena st' todo'
          | Err c => Err c
          end
      end
  end.

Record p2 := {
  p2_seen : list bool;
  p2_parents : list nat;
  p2_tape : list op;        (* head = most recently pushed *)
  p2_choices : nat;
}.

Definition emit (mp : list (option slot)) (vars : varmap) (i : nat) (o : cnode) : result op :=
  let slot_of n := match nth n mp None with Some s => Ok s | None => Err 102 end in
  match o with
  | NInput v => match var_index vars v with Some k => Ok (OInput i k) | None => Err 103 end
  | NConst _ => Err 104
  | NUnary u a =>
      match slot_of a with
      | Ok (SReg r) => Ok (OUn u i r)
      | Ok (SImm _) => Err 105   (* "Cannot handle f(imm)" *)
      | Err c => Err c
      end
  | NBinary b l r =>
      match slot_of l, slot_of r with
      | Ok (SReg l'), Ok (SReg r') => Ok (OBinRR b i l' r')
      | Ok (SReg a), Ok (SImm c) => Ok (OBinRI b i a c)
      | Ok (SImm c), Ok (SReg a) =>
          match flatten_imm_lhs b with
          | Some RegImm => Ok (OBinRI b i a c)
          | Some ImmReg => Ok (OBinIR b i a c)
          | _ => Err 106   (* "AndImmReg must be collapsed" *)
          end
      | Ok (SImm _), Ok (SImm _) => Err 107   (* "Cannot handle f(imm, imm)" *)
      | Err c, _ => Err c
      | _, Err c => Err c
      end
  end.

Definition dec (l : list nat) (k : nat) : list nat := list_upd l k (pred (nth k l 0)).

Definition pass2_step (arena : list cnode) (mp : list (option slot)) (vars : varmap)
           (st : p2) (node : nat) (todo : list nat) : result (p2 * list nat) :=
  if Nat.ltb 0 (nth node (p2_parents st) 0) then Ok (st, todo) else
  if nth node (p2_seen st) false then Ok (st, todo) else
  match nth_error arena node with
  | None => Err 108
  | Some o =>
      let seen := list_upd (p2_seen st) node true in
      let ch := children o in
      let parents := fold_left dec ch (p2_parents st) in
      let todo' := rev ch ++ todo in
      match nth node mp None with
      | Some (SReg i) =>
          match emit mp vars i o with
          | Ok e =>
              let cc := match o with NBinary b _ _ => if bop_has_choice b then 1 else 0 | _ => 0 end in
              Ok ({| p2_seen := seen; p2_parents := parents; p2_tape := e :: p2_tape st;
                     p2_choices := p2_choices st + cc |}, todo')
          | Err c => Err c
          end
      | Some (SImm _) =>
          Ok ({| p2_seen := seen; p2_parents := parents; p2_tape := p2_tape st;
                 p2_choices := p2_choices st |}, todo')
      | None => Err 109
      end
  end.

Fixpoint pass2 (fuel : nat) (arena : list cnode) (mp : list (option slot)) (vars : varmap)
         (st : p2) (todo : list nat) : result p2 :=
  match todo with
  | [] => Ok st
  | node :: rest =>
      match fuel with
      | O => Err 110
      | S f =>
          match pass2_step arena mp vars st node rest with
          | Ok (st', todo') => pass2 f arena mp vars st' todo'
          | Err c => Err c
          end
      end
  end.

(* the Output / CopyImm prologue, one root at a time *)
Fixpoint root_ops (mp : list (option slot)) (roots : list nat) (i slots : nat) (acc : list op)
  : result (list op * nat) :=
  match roots with
  | [] => Ok (acc, slots)
  | r :: rest =>
      match nth r mp None with
      | Some (SReg out) => root_ops mp rest (S i) slots (OOutput out i :: acc)
      | Some (SImm c) => root_ops mp rest (S i) (S slots) (OCopyImm slots c :: OOutput slots i :: acc)
      | None => Err 111
      end
  end.

Record ssa_tape := { t_ops : list op; (* root first *) t_choices : nat; t_outputs : nat }.

Definition flatten (arena : list cnode) (roots : list nat) : result (ssa_tape * varmap) :=
  let n := length arena in
  let fuel := S (length roots + 2 * n) in
  let st0 := {| p1_seen := repeat false n; p1_map := repeat None n; p1_parents := repeat 0 n;
                p1_vars := []; p1_slots := 0 |} in
  (* todo = roots.to_vec(); pop takes the last root first *)
  match pass1 fuel arena st0 (rev roots) with
  | Err c => Err c
  | Ok s1 =>
      match root_ops (p1_map s1) roots 0 (p1_slots s1) [] with
      | Err c => Err c
      | Ok (pro, _) =>
          let st2 := {| p2_seen := repeat false n; p2_parents := p1_parents s1; p2_tape := pro; p2_choices := 0 |} in
          match pass2 fuel arena (p1_map s1) (p1_vars s1) st2 (rev roots) with
          | Err c => Err c
          | Ok s2 => Ok ({| t_ops := rev (p2_tape s2); t_choices := p2_choices s2; t_outputs := length roots |},
                         p1_vars s1)
          end
      end
  end.

End Flatten.
Arguments cnode : clear implicits.
Arguments ssa_tape : clear implicits.
