(* Run01.v — glue executed by the extracted runner for the C01 family:
   arena -> flatten -> allocate -> run, all on the f32 instance. *)
From Coq Require Import ZArith List Bool Arith.
From FV Require Import F32 Ops Tape Lru Alloc Flatten F32Sem CtxEval.
Import ListNotations.

Definition fop := Tape.op f32.

(* inputs in VarMap order from a by-variable assignment *)
Definition inputs_of (vars : varmap) (env : nat -> f32) : list f32 := map env vars.

Definition run_point (o : oracle) (tape : list fop) (nout : nat) (inputs : list f32) : list f32 * list tchoice :=
  let st := eval_tape (f32_sem o) tape inputs (fresh_env (f32_sem o)) (fresh_out (f32_sem o) nout) in
  (m_out st, rev (m_trace st)).
