(* Run01.v — glue executed by the extracted runner for the C01 family:
   arena -> flatten -> allocate -> run, all on the f32 instance. *)
From Coq Require Import ZArith List Bool Arith.
From FV Require Import F32 Ops Tape Lru Alloc Flatten F32Sem CtxEval.
Import ListNotations.

Definition fop := Tape.op f32.

(* inputs in VarMap order from a by-variable assignment *)
Definition inputs_of (vars : varmap) (env : nat -> f32) : list f32 := map env vars.

Definition run_point (o : oracle) (tape : list fop) (nout : nat) (inputs : list f32) : list f32 * list tchoice :=
  let st := eval_tape (f32_sem o) tape inputs (fresh_env (f32_sem o)) (fresh_out (f32_sem o) nout) in
  (m_out st, rev (m_trace st)).

(* ---- C04 family glue ---- *)
From FV Require Import Simplify Interval F32Interval.
From FVGen Require Import SimplifyGen.

Definition run_interval (o : oracle) (tape : list fop) (nout : nat) (inputs : list (option (interval f32)))
  : list (option (interval f32)) * list tchoice :=
  let sem := f32_interval_sem o in
  let st := eval_tape sem tape inputs (fresh_env sem) (fresh_out sem nout) in
  (m_out st, rev (m_trace st)).

Definition mk_interval (o : oracle) (l u : f32) : option (interval f32) := inew (f32_fl o) l u.

(* the `simplify` flag of the tracing evaluators: some choice is not Both *)
Definition trace_useful (t : list tchoice) : bool :=
  existsb (fun c => match c with TBoth => false | _ => true end) t.

(* VmData::simplify with the closing assertion as the source has it on this run *)
Definition fsimplify (m : nat) (parent : list fop) (cc : nat) (trace : list tchoice) :=
  simplify gen_simplify_assert_outputs m parent cc trace.
