(* GenCheck.v — the hand-written tables of the model equal the tables regenerated
   from the Rust source on this run (finite domains: decided by computation). *)
From Coq Require Import List Bool.
From FV Require Import Ops.
From FVGen Require Import OpsGen FlattenGen SimplifyGen.
Import ListNotations.

Definition form_eqb (a b : form) : bool :=
  match a, b with RegReg, RegReg | RegImm, RegImm | ImmReg, ImmReg => true | _, _ => false end.
Definition all_forms := [RegReg; RegImm; ImmReg].

Definition in_forms (b : bop) (f : form) : bool :=
  existsb (fun p => bop_eqb (fst p) b && form_eqb (snd p) f) gen_forms.

(* the (opcode, operand form) universe of compiler/op.rs is the model's *)
Lemma forms_match :
  forallb (fun b => forallb (fun f => Bool.eqb (bop_has_form b f) (in_forms b f)) all_forms) all_bops = true.
Proof. vm_compute. reflexivity. Qed.

Lemma unary_match :
  forallb (fun u => existsb (uop_eqb u) gen_unary) all_uops
  && forallb (fun u => existsb (uop_eqb u) all_uops) gen_unary
  && Nat.eqb (length gen_unary) (length all_uops) = true.
Proof. vm_compute. reflexivity. Qed.

(* SsaOp::has_choice *)
Lemma choice_match :
  forallb (fun b => Bool.eqb (bop_has_choice b) (existsb (bop_eqb b) gen_choice_bops)) all_bops = true.
Proof. vm_compute. reflexivity. Qed.

(* SsaTape::new: constructor chosen for (imm, reg) operands, and which opcodes count as choices *)
Definition oform_eqb (a b : option form) : bool :=
  match a, b with
  | None, None => true
  | Some x, Some y => form_eqb x y
  | _, _ => false
  end.
Lemma flatten_table_match :
  forallb (fun b => existsb (fun p => bop_eqb (fst p) b && oform_eqb (snd p) (flatten_imm_lhs b)) gen_flatten_imm_lhs) all_bops
  && Nat.eqb (length gen_flatten_imm_lhs) (length all_bops) = true.
Proof. vm_compute. reflexivity. Qed.
Lemma flatten_choice_match :
  forallb (fun b => Bool.eqb (bop_has_choice b) (existsb (bop_eqb b) gen_flatten_choice_bops)) all_bops = true.
Proof. vm_compute. reflexivity. Qed.

(* fidget-bytecode: opcode numbering of the model = BytecodeOp tags of the source *)
From Coq Require Import ZArith.
From FV Require Import Bytecode.
From FVGen Require Import BytecodeGen.
Lemma bytecode_codes_match :
  forallb (fun u => existsb (fun p => uop_eqb (fst p) u && Z.eqb (snd p) (bc_un u)) gen_bc_un) all_uops
  && forallb (fun b => existsb (fun p => bop_eqb (fst p) b && Z.eqb (snd p) (bc_bin b)) gen_bc_bin) all_bops
  && Z.eqb gen_bc_output bc_output && Z.eqb gen_bc_input bc_input && Z.eqb gen_bc_copyimm bc_copy
  && Z.eqb gen_bc_load bc_mem && Z.eqb gen_bc_store bc_mem = true.
Proof. vm_compute. reflexivity. Qed.
