(* MeshCheck.v -- a verified checker for indexed triangle meshes.

   Self-contained (Coq stdlib only).  Contents:

   - [manifold nv tris]: the specification "closed, consistently oriented
     2-manifold connectivity" (every directed edge occurs at most once, and
     when it occurs its reverse occurs exactly once; indices in range and
     pairwise distinct inside a triangle).
   - [check_manifold nv tris : bool]: an efficient executable checker
     (adjacency lists in a PositiveMap keyed by the start vertex), with
     soundness AND completeness.
   - [sum_det] / [vol6_translation_invariant]: six times the signed volume
     of a mesh, as an exact integer, and the proof that for a [manifold]
     mesh it does not depend on the origin.
   - [sum_flux] / [sum_flux_eq_sum_det]: a 3x cheaper formula for the same
     number, equal to [sum_det] on every [manifold] mesh.
   - [check_mesh]: the single monomorphic entry point meant for extraction
     ([vol6], [count_zero_area], [check_manifold] can be extracted too).
*)

From Coq Require Import NArith ZArith List Lia Permutation FMapPositive Bool.
Import ListNotations.



(* ------------------------------------------------------------------ *)
(** * Connectivity: specification                                       *)
(* ------------------------------------------------------------------ *)

Open Scope N_scope.

Definition tri  := (N * N * N)%type.
Definition edge := (N * N)%type.

Definition tri_edges (t : tri) : list edge :=
  let '(a, b, c) := t in [(a, b); (b, c); (c, a)].

(** The 3*|tris| directed edges of a mesh. *)
Definition edges (tris : list tri) : list edge := flat_map tri_edges tris.

Definition edge_eq_dec : forall x y : edge, {x = y} + {x <> y}.
Proof. decide equality; apply N.eq_dec. Defined.

Definition ecount (e : edge) (l : list edge) : nat := count_occ edge_eq_dec l e.

Definition tri_wf (nv : N) (t : tri) : Prop :=
  let '(a, b, c) := t in
  a < nv /\ b < nv /\ c < nv /\ a <> b /\ b <> c /\ c <> a.

Definition manifold (nv : N) (tris : list tri) : Prop :=
  (forall t, In t tris -> tri_wf nv t) /\
  (forall a b,
      let c := ecount (a, b) (edges tris) in
      (c <= 1)%nat /\ (c = 1%nat -> ecount (b, a) (edges tris) = 1%nat)).

Definition swap (e : edge) : edge := (snd e, fst e).

(* ------------------------------------------------------------------ *)
(** * Connectivity: executable checker                                  *)
(* ------------------------------------------------------------------ *)

Definition tri_ok (nv : N) (t : tri) : bool :=
  let '(a, b, c) := t in
  (a <? nv) && (b <? nv) && (c <? nv) &&
  negb (a =? b) && negb (b =? c) && negb (c =? a).

(** The set of directed edges seen so far is stored as adjacency lists: a
    [PositiveMap] from the start vertex a (key a+1) to the list of end
    vertices b.  Vertex indices are dense in 0..nv-1, so the trie is
    perfectly shared (about 2*nv nodes) and the lists have the length of the
    vertex valence (about 6).

    (A first version used one map keyed by a*nv+b, as a single number.  It
    is correct but on a PositiveMap every such sparse key owns a private
    path of ~17 trie nodes: 25M nodes for a 500k-triangle mesh, and the
    product a*nv dominated the running time.  The adjacency form is 5x
    faster and uses a fraction of the memory.) *)
Definition eset := PositiveMap.t (list N).

Definition adj (m : eset) (a : N) : list N :=
  match PositiveMap.find (N.succ_pos a) m with Some l => l | None => [] end.

Fixpoint memN (b : N) (l : list N) : bool :=
  match l with
  | [] => false
  | x :: l' => if b =? x then true else memN b l'
  end.

Definition has (m : eset) (e : edge) : bool := memN (snd e) (adj m (fst e)).

(** Insert an edge; the flag drops to [false] on the first duplicate. *)
Definition ins (st : eset * bool) (e : edge) : eset * bool :=
  let (m, ok) := st in
  let l := adj m (fst e) in
  if memN (snd e) l then (m, false)
  else (PositiveMap.add (N.succ_pos (fst e)) (snd e :: l) m, ok).

Definition ins_tri (st : eset * bool) (t : tri) : eset * bool :=
  let '(a, b, c) := t in ins (ins (ins st (a, b)) (b, c)) (c, a).

Definition build_set (tris : list tri) : eset * bool :=
  fold_left ins_tri tris (PositiveMap.empty (list N), true).

Definition rev_ok (m : eset) (t : tri) : bool :=
  let '(a, b, c) := t in has m (b, a) && has m (c, b) && has m (a, c).

(** Tail-recursive [forallb] (so that the extracted code runs in constant
    stack on half a million triangles). *)
Fixpoint all_tris (f : tri -> bool) (l : list tri) : bool :=
  match l with
  | [] => true
  | t :: l' => if f t then all_tris f l' else false
  end.

Definition check_manifold (nv : N) (tris : list tri) : bool :=
  if all_tris (tri_ok nv) tris then
    let (m, ok) := build_set tris in
    if ok then all_tris (rev_ok m) tris else false
  else false.

(* ------------------------------------------------------------------ *)
(** * Correctness of the checker                                        *)
(* ------------------------------------------------------------------ *)

Lemma all_tris_forallb f l : all_tris f l = forallb f l.
Proof. induction l as [|t l IH]; simpl; [reflexivity|]. destruct (f t); auto. Qed.

Lemma tri_ok_wf nv t : tri_ok nv t = true <-> tri_wf nv t.
Proof.
  destruct t as [[a b] c]; unfold tri_ok, tri_wf.
  rewrite !andb_true_iff, !negb_true_iff, !N.ltb_lt, !N.eqb_neq. tauto.
Qed.

Lemma memN_In b l : memN b l = true <-> In b l.
Proof.
  induction l as [|x l IH]; simpl; [split; [discriminate|tauto]|].
  destruct (N.eqb_spec b x) as [->|Hn]; [tauto|].
  rewrite IH. split; [tauto|]. intros [H|H]; [congruence|assumption].
Qed.

Definition add_edge (m : eset) (e : edge) : eset :=
  PositiveMap.add (N.succ_pos (fst e)) (snd e :: adj m (fst e)) m.

Lemma succ_pos_inj a b : N.succ_pos a = N.succ_pos b -> a = b.
Proof.
  intro H. apply N.succ_inj. rewrite <- !N.succ_pos_spec. now f_equal.
Qed.

Lemma adj_add_edge m e a :
  adj (add_edge m e) a = if a =? fst e then snd e :: adj m (fst e) else adj m a.
Proof.
  unfold add_edge, adj at 1. destruct (N.eqb_spec a (fst e)) as [->|Hn].
  - now rewrite PositiveMap.gss.
  - rewrite PositiveMap.gso; [reflexivity|]. intro H. apply Hn. now apply succ_pos_inj.
Qed.

Lemma has_add m e e' :
  has (add_edge m e) e' = true <-> e' = e \/ has m e' = true.
Proof.
  unfold has. rewrite adj_add_edge. destruct e as [a b], e' as [a' b']; simpl.
  destruct (N.eqb_spec a' a) as [->|Hn].
  - simpl. destruct (N.eqb_spec b' b) as [->|Hb]; [tauto|].
    split; [tauto|]. intros [H|H]; [congruence|assumption].
  - split; [tauto|]. intros [H|H]; [congruence|assumption].
Qed.

Lemma has_empty e : has (PositiveMap.empty (list N)) e = false.
Proof. unfold has, adj. now rewrite PositiveMap.gempty. Qed.

Lemma ins_eq m ok e :
  ins (m, ok) e = if has m e then (m, false) else (add_edge m e, ok).
Proof. reflexivity. Qed.

(** Folding [ins] over a list of edges: the resulting set is the union, and
    the flag records "no duplicate, and nothing already present". *)
Lemma ins_fold_spec es : forall m ok,
  let r := fold_left ins es (m, ok) in
  (forall e, has (fst r) e = true <-> has m e = true \/ In e es) /\
  (snd r = true <->
     ok = true /\ NoDup es /\ forall e, In e es -> has m e = false).
Proof.
  induction es as [|k0 ks IH]; intros m ok; cbn [fold_left In]; cbv zeta.
  - simpl. split; [intro k; tauto|].
    split; [intro H; repeat split; [assumption|constructor|intros ? []]|tauto].
  - rewrite ins_eq. destruct (has m k0) eqn:Hk0.
    + destruct (IH m false) as [IH1 IH2]. split.
      * intro k. rewrite IH1. split; [tauto|].
        intros [H|[<-|H]]; tauto.
      * split.
        -- intro H. apply IH2 in H. destruct H as [H _]; discriminate.
        -- intros (_ & _ & H). rewrite (H k0) in Hk0 by (now left). discriminate.
    + destruct (IH (add_edge m k0) ok) as [IH1 IH2]. split.
      * intro k. rewrite IH1, has_add. split.
        -- intros [[->|H]|H]; auto.
        -- intros [H|[->|H]]; auto.
      * rewrite IH2. split.
        -- intros (Hok & Hnd & Hfresh). split; [assumption|]. split.
           ++ constructor; [|assumption]. intro Hin.
              specialize (Hfresh _ Hin).
              assert (has (add_edge m k0) k0 = true) by (apply has_add; auto).
              congruence.
           ++ intros k [<-|Hin]; [assumption|].
              specialize (Hfresh _ Hin).
              destruct (has m k) eqn:Hk; [|reflexivity].
              assert (has (add_edge m k0) k = true) by (apply has_add; auto).
              congruence.
        -- intros (Hok & Hnd & Hfresh).
           inversion Hnd as [|x l' Hnotin Hnd']; subst x l'.
           split; [assumption|]. split; [assumption|].
           intros k Hin. destruct (has (add_edge m k0) k) eqn:Hk; [|reflexivity].
           apply has_add in Hk. destruct Hk as [->|Hk]; [contradiction|].
           rewrite Hfresh in Hk by (now right). discriminate.
Qed.

Lemma ins_fold_spec' es m ok m' ok' :
  fold_left ins es (m, ok) = (m', ok') ->
  (forall e, has m' e = true <-> has m e = true \/ In e es) /\
  (ok' = true <->
     ok = true /\ NoDup es /\ forall e, In e es -> has m e = false).
Proof.
  intro H. pose proof (ins_fold_spec es m ok) as S. cbv zeta in S.
  rewrite H in S. exact S.
Qed.

Lemma fold_left_ext' {A B} (f g : A -> B -> A) l :
  (forall a b, f a b = g a b) -> forall a, fold_left f l a = fold_left g l a.
Proof.
  intro H. induction l as [|x l IH]; intro a; simpl; [reflexivity|].
  now rewrite H, IH.
Qed.

Lemma fold_left_flat_map {A B C} (f : A -> B -> A) (g : C -> list B) l : forall a,
  fold_left f (flat_map g l) a = fold_left (fun acc t => fold_left f (g t) acc) l a.
Proof.
  induction l as [|t l IH]; intro a; simpl; [reflexivity|].
  now rewrite fold_left_app, IH.
Qed.

Lemma build_set_edges tris :
  build_set tris = fold_left ins (edges tris) (PositiveMap.empty (list N), true).
Proof.
  unfold build_set, edges. rewrite fold_left_flat_map.
  apply fold_left_ext'. intros st [[a b] c]. reflexivity.
Qed.

Lemma ecount_NoDup (l : list edge) :
  NoDup l <-> forall e, (ecount e l <= 1)%nat.
Proof. apply NoDup_count_occ. Qed.

Lemma ecount_pos e (l : list edge) : In e l <-> (ecount e l > 0)%nat.
Proof. apply count_occ_In. Qed.

Lemma in_edges_tri t tris e : In t tris -> In e (tri_edges t) -> In e (edges tris).
Proof. intros. unfold edges. apply in_flat_map. eauto. Qed.

Lemma NoDup_map_inj {A B} (f : A -> B) (l : list A) :
  (forall x y, f x = f y -> x = y) -> NoDup l -> NoDup (map f l).
Proof.
  intro Hinj. induction l as [|a l IH]; intro Hnd; simpl; [constructor|].
  inversion Hnd; subst. constructor; [|auto].
  intro Hin. apply in_map_iff in Hin. destruct Hin as (x & Hfx & Hx).
  apply Hinj in Hfx. subst. contradiction.
Qed.

(** The intermediate, list-level characterisation of [manifold]. *)
Definition manifold' (nv : N) (tris : list tri) : Prop :=
  (forall t, In t tris -> tri_wf nv t) /\
  NoDup (edges tris) /\
  (forall e, In e (edges tris) -> In (swap e) (edges tris)).

Lemma manifold_manifold' nv tris : manifold nv tris <-> manifold' nv tris.
Proof.
  unfold manifold, manifold'. split.
  - intros [Hwf H]. split; [assumption|]. split.
    + apply ecount_NoDup. intros [a b]. apply (H a b).
    + intros [a b] Hin. unfold swap; simpl.
      destruct (H a b) as [Hle Hrev]. apply ecount_pos in Hin.
      apply ecount_pos. rewrite Hrev; lia.
  - intros (Hwf & Hnd & Hrev). split; [assumption|].
    intros a b. pose proof (proj1 (ecount_NoDup _) Hnd) as Hle.
    split; [apply Hle|]. intro H1.
    assert (Hin : In (a, b) (edges tris)) by (apply ecount_pos; cbv zeta in H1; lia).
    apply Hrev in Hin. unfold swap in Hin; simpl in Hin.
    apply ecount_pos in Hin. specialize (Hle (b, a)). lia.
Qed.

Lemma check_manifold_iff' nv tris :
  check_manifold nv tris = true <-> manifold' nv tris.
Proof.
  unfold check_manifold, manifold'.
  rewrite all_tris_forallb.
  destruct (forallb (tri_ok nv) tris) eqn:Hok.
  2:{ split; [discriminate|]. intros (Hwf & _).
      assert (forallb (tri_ok nv) tris = true).
      { apply forallb_forall. intros t Ht. apply tri_ok_wf. auto. }
      congruence. }
  assert (Hwf : forall t, In t tris -> tri_wf nv t).
  { intros t Ht. apply tri_ok_wf. rewrite forallb_forall in Hok. auto. }
  rewrite build_set_edges.
  destruct (fold_left ins (edges tris) (PositiveMap.empty (list N), true))
    as [m ok] eqn:Hfold.
  destruct (ins_fold_spec' _ _ _ _ _ Hfold) as [Hmem Hflag].
  assert (Hmem' : forall e, has m e = true <-> In e (edges tris)).
  { intro e. rewrite Hmem, has_empty. split; [intros [H|H]; [discriminate|assumption]|auto]. }
  assert (Hnd : ok = true <-> NoDup (edges tris)).
  { rewrite Hflag. split; [tauto|]. intro H. repeat split; [assumption|].
    intros e _. apply has_empty. }
  assert (Hrev : all_tris (rev_ok m) tris = true <->
                 (forall e, In e (edges tris) -> In (swap e) (edges tris))).
  { rewrite all_tris_forallb, forallb_forall. split.
    - intros H e He. unfold edges in He. apply in_flat_map in He.
      destruct He as ([[a b] c] & Ht & He).
      pose proof (H _ Ht) as Hr. simpl in Hr, He. rewrite !andb_true_iff in Hr.
      destruct Hr as [[H1 H2] H3]. rewrite !Hmem' in *.
      destruct He as [<-|[<-|[<-|[]]]]; unfold swap; simpl; assumption.
    - intros H [[a b] c] Ht. simpl.
      rewrite !andb_true_iff, !Hmem'. repeat split.
      + apply (H (a, b)). eapply in_edges_tri; [eassumption|simpl; auto].
      + apply (H (b, c)). eapply in_edges_tri; [eassumption|simpl; auto].
      + apply (H (c, a)). eapply in_edges_tri; [eassumption|simpl; auto]. }
  destruct ok.
  - rewrite Hrev. split.
    + intro H. split; [assumption|]. split; [now apply Hnd|assumption].
    + tauto.
  - split; [discriminate|]. intros (_ & H & _). apply Hnd in H. discriminate.
Qed.

Theorem check_manifold_sound nv tris :
  check_manifold nv tris = true -> manifold nv tris.
Proof. intro H. apply manifold_manifold', check_manifold_iff', H. Qed.

Theorem check_manifold_complete nv tris :
  manifold nv tris -> check_manifold nv tris = true.
Proof. intro H. apply check_manifold_iff', manifold_manifold', H. Qed.

Corollary check_manifold_iff nv tris :
  check_manifold nv tris = true <-> manifold nv tris.
Proof. split; [apply check_manifold_sound|apply check_manifold_complete]. Qed.

(** In a [manifold] mesh the multiset of directed edges is closed under
    reversal. *)
Theorem manifold_edges_perm nv tris :
  manifold nv tris -> Permutation (edges tris) (map swap (edges tris)).
Proof.
  intro H. apply manifold_manifold' in H. destruct H as (_ & Hnd & Hrev).
  assert (Hswap : forall e, swap (swap e) = e) by (intros [a b]; reflexivity).
  apply NoDup_Permutation.
  - assumption.
  - apply NoDup_map_inj; [|assumption].
    intros x y Hxy. rewrite <- (Hswap x), <- (Hswap y). now f_equal.
  - intro e. split.
    + intro He. apply in_map_iff. exists (swap e). split; [apply Hswap|auto].
    + intro He. apply in_map_iff in He. destruct He as (e' & <- & He'). auto.
Qed.

(* ------------------------------------------------------------------ *)
(** * Exact signed volume                                               *)
(* ------------------------------------------------------------------ *)

Open Scope Z_scope.

Definition vec := (Z * Z * Z)%type.

Definition det3 (a b c : vec) : Z :=
  let '(ax, ay, az) := a in
  let '(bx, by_, bz) := b in
  let '(cx, cy, cz) := c in
  ax * (by_ * cz - bz * cy) - ay * (bx * cz - bz * cx) + az * (bx * cy - by_ * cx).

Definition vadd (a b : vec) : vec :=
  let '(ax, ay, az) := a in let '(bx, by_, bz) := b in (ax + bx, ay + by_, az + bz).

Definition cross (a b : vec) : vec :=
  let '(ax, ay, az) := a in let '(bx, by_, bz) := b in
  (ay * bz - az * by_, az * bx - ax * bz, ax * by_ - ay * bx).

Definition dot (a b : vec) : Z :=
  let '(ax, ay, az) := a in let '(bx, by_, bz) := b in ax * bx + ay * by_ + az * bz.

(** Six times the signed volume: the sum over the triangles of det[a;b;c].
    Written with [fold_left] so that the extracted code is tail recursive. *)
Definition sum_det (p : N -> vec) (tris : list tri) : Z :=
  fold_left (fun acc (t : tri) =>
               let '(a, b, c) := t in acc + det3 (p a) (p b) (p c)) tris 0.

Definition sumZ (l : list Z) : Z := fold_right Z.add 0 l.

Lemma fold_left_sumZ {A} (f : A -> Z) l : forall a,
  fold_left (fun acc x => acc + f x) l a = a + sumZ (map f l).
Proof.
  induction l as [|x l IH]; intro a; simpl; [lia|]. rewrite IH. lia.
Qed.

Definition tri_det (p : N -> vec) (t : tri) : Z :=
  let '(a, b, c) := t in det3 (p a) (p b) (p c).

Lemma sum_det_sumZ p tris : sum_det p tris = sumZ (map (tri_det p) tris).
Proof.
  unfold sum_det.
  rewrite (fold_left_ext' _ (fun acc t => acc + tri_det p t)).
  - now rewrite fold_left_sumZ.
  - intros acc [[a b] c]. reflexivity.
Qed.

(** The per-triangle algebraic identity. *)
Lemma det3_translate a b c t :
  det3 (vadd a t) (vadd b t) (vadd c t) =
  det3 a b c + (dot t (cross a b) + dot t (cross b c) + dot t (cross c a)).
Proof.
  destruct a as [[ax ay] az], b as [[bx by_] bz], c as [[cx cy] cz],
           t as [[tx ty] tz].
  unfold det3, vadd, dot, cross. ring.
Qed.

(** Weight of a directed edge: antisymmetric. *)
Definition eweight (p : N -> vec) (t : vec) (e : edge) : Z :=
  dot t (cross (p (fst e)) (p (snd e))).

Lemma eweight_swap p t e : eweight p t (swap e) = - eweight p t e.
Proof.
  destruct e as [a b]. unfold eweight, swap; simpl.
  destruct (p a) as [[ax ay] az], (p b) as [[bx by_] bz], t as [[tx ty] tz].
  unfold dot, cross. ring.
Qed.

Lemma sumZ_app l1 l2 : sumZ (l1 ++ l2) = sumZ l1 + sumZ l2.
Proof. induction l1; simpl; lia. Qed.

Lemma sumZ_perm l1 l2 : Permutation l1 l2 -> sumZ l1 = sumZ l2.
Proof. induction 1; simpl; lia. Qed.

Lemma sumZ_map_opp {A} (f : A -> Z) l :
  sumZ (map (fun x => - f x) l) = - sumZ (map f l).
Proof. induction l; simpl; lia. Qed.

(** The cancellation lemma: if the directed edges are closed under reversal
    (as a multiset), every antisymmetric edge weight sums to zero. *)
Lemma antisym_cancel (w : edge -> Z) (es : list edge) :
  (forall e, w (swap e) = - w e) ->
  Permutation es (map swap es) -> sumZ (map w es) = 0.
Proof.
  intros Hw Hperm.
  assert (H : sumZ (map w es) = - sumZ (map w es)).
  { rewrite (sumZ_perm _ _ (Permutation_map w Hperm)) at 1.
    rewrite map_map, <- sumZ_map_opp. f_equal. apply map_ext. exact Hw. }
  lia.
Qed.

Lemma edge_weights_cancel p t (es : list edge) :
  Permutation es (map swap es) -> sumZ (map (eweight p t) es) = 0.
Proof. apply antisym_cancel. apply eweight_swap. Qed.

Lemma sum_det_translate_gen p t tris :
  sum_det (fun i => vadd (p i) t) tris =
  sum_det p tris + sumZ (map (eweight p t) (edges tris)).
Proof.
  rewrite !sum_det_sumZ. induction tris as [|[[a b] c] l IH]; simpl; [reflexivity|].
  rewrite IH, det3_translate. unfold eweight; simpl. lia.
Qed.

(** Translating every vertex of a closed, consistently oriented mesh leaves
    the sum of determinants (six times the signed volume) unchanged. *)
Theorem vol6_translation_invariant nv tris (p : N -> vec) (t : vec) :
  manifold nv tris ->
  sum_det (fun i => vadd (p i) t) tris = sum_det p tris.
Proof.
  intro H. rewrite sum_det_translate_gen.
  rewrite edge_weights_cancel; [lia|]. eapply manifold_edges_perm; eassumption.
Qed.

(** Same statement with the hypothesis on the edge multiset only. *)
Theorem vol6_translation_invariant_perm tris (p : N -> vec) (t : vec) :
  Permutation (edges tris) (map swap (edges tris)) ->
  sum_det (fun i => vadd (p i) t) tris = sum_det p tris.
Proof.
  intro H. rewrite sum_det_translate_gen, edge_weights_cancel; [lia|assumption].
Qed.

(** Reversing every triangle negates the volume (used by the examples and
    for the "wound outward" reading of the sign). *)
Definition flip (t : tri) : tri := let '(a, b, c) := t in (a, c, b).

Lemma det3_flip a b c : det3 a c b = - det3 a b c.
Proof.
  destruct a as [[ax ay] az], b as [[bx by_] bz], c as [[cx cy] cz].
  unfold det3. ring.
Qed.

Theorem sum_det_flip p tris : sum_det p (map flip tris) = - sum_det p tris.
Proof.
  rewrite !sum_det_sumZ, map_map.
  induction tris as [|[[a b] c] l IH]; simpl; [reflexivity|].
  rewrite IH, det3_flip. lia.
Qed.

(** ** A cheaper formula for closed meshes

    By the divergence theorem applied to the field (x,0,0), six times the
    volume is also  sum (ax+bx+cx) * ((b-a) x (c-a))_x .  This needs three
    multiplications per triangle instead of nine.  The two sums differ, per
    triangle, by an antisymmetric edge weight, so they agree on every
    [manifold] mesh. *)
Definition tri_flux (p : N -> vec) (t : tri) : Z :=
  let '(a, b, c) := t in
  let '(ax, ay, az) := p a in
  let '(bx, by_, bz) := p b in
  let '(cx, cy, cz) := p c in
  (ax + bx + cx) * ((by_ - ay) * (cz - az) - (bz - az) * (cy - ay)).

Definition sum_flux (p : N -> vec) (tris : list tri) : Z :=
  fold_left (fun acc t => acc + tri_flux p t) tris 0.

Definition fweight (p : N -> vec) (e : edge) : Z :=
  let '(ux, uy, uz) := p (fst e) in
  let '(vx, vy, vz) := p (snd e) in
  (ux + vx) * (uy * vz - uz * vy).

Lemma fweight_swap p e : fweight p (swap e) = - fweight p e.
Proof.
  destruct e as [a b]. unfold fweight, swap; simpl.
  destruct (p a) as [[ax ay] az], (p b) as [[bx by_] bz]. ring.
Qed.

Lemma tri_flux_det p t :
  tri_flux p t = tri_det p t + sumZ (map (fweight p) (tri_edges t)).
Proof.
  destruct t as [[a b] c]. unfold tri_flux, tri_det, fweight; simpl.
  destruct (p a) as [[ax ay] az], (p b) as [[bx by_] bz], (p c) as [[cx cy] cz].
  unfold det3. ring.
Qed.

Lemma sum_flux_gen p tris :
  sum_flux p tris = sum_det p tris + sumZ (map (fweight p) (edges tris)).
Proof.
  unfold sum_flux. rewrite fold_left_sumZ, sum_det_sumZ.
  induction tris as [|t l IH]; simpl; [reflexivity|].
  rewrite map_app, sumZ_app, tri_flux_det. simpl in IH. lia.
Qed.

Theorem sum_flux_eq_sum_det nv tris (p : N -> vec) :
  manifold nv tris -> sum_flux p tris = sum_det p tris.
Proof.
  intro H. rewrite sum_flux_gen, antisym_cancel; [lia|apply fweight_swap|].
  eapply manifold_edges_perm; eassumption.
Qed.

(* ------------------------------------------------------------------ *)
(** * Dyadic coordinates                                                *)
(* ------------------------------------------------------------------ *)

(** A finite binary32 coordinate (m, e) stands for m * 2^e. *)
Definition fcoord := (Z * Z)%type.
Definition fvert := (fcoord * fcoord * fcoord)%type.

Definition min_exp_coord (acc : option Z) (c : fcoord) : option Z :=
  let (m, e) := c in
  if m =? 0 then acc
  else match acc with None => Some e | Some x => Some (Z.min x e) end.

Definition min_exp_vert (acc : option Z) (v : fvert) : option Z :=
  let '(x, y, z) := v in min_exp_coord (min_exp_coord (min_exp_coord acc x) y) z.

(** Minimum exponent over all nonzero coordinates (0 for an all-zero mesh). *)
Definition min_exp (verts : list fvert) : Z :=
  match fold_left min_exp_vert verts None with Some e => e | None => 0 end.

(** The integer m * 2^(e - emin). *)
Definition scale_coord (emin : Z) (c : fcoord) : Z :=
  let (m, e) := c in Z.shiftl m (e - emin).

Definition scale_vert (emin : Z) (v : fvert) : vec :=
  let '(x, y, z) := v in (scale_coord emin x, scale_coord emin y, scale_coord emin z).

Definition vtable := PositiveMap.t vec.

Definition vt_step (emin : Z) (st : vtable * N) (v : fvert) : vtable * N :=
  let (m, i) := st in
  (PositiveMap.add (N.succ_pos i) (scale_vert emin v) m, N.succ i).

Definition build_vtable (emin : Z) (verts : list fvert) : vtable * N :=
  fold_left (vt_step emin) verts (PositiveMap.empty vec, 0%N).

Definition vget (tbl : vtable) (i : N) : vec :=
  match PositiveMap.find (N.succ_pos i) tbl with
  | Some v => v
  | None => (0, 0, 0)
  end.

(** Exact volume of a mesh with dyadic coordinates:
    [vol6 verts tris = (V, s)] means  6 * volume = V * 2^s  with s = 3*emin. *)
Definition vol6 (verts : list fvert) (tris : list tri) : Z * Z :=
  let emin := min_exp verts in
  let tbl := fst (build_vtable emin verts) in
  (sum_det (vget tbl) tris, 3 * emin).

(** Number of triangles of zero area (exact): (b-a) x (c-a) = 0. *)
Definition vsub (a b : vec) : vec :=
  let '(ax, ay, az) := a in let '(bx, by_, bz) := b in (ax - bx, ay - by_, az - bz).

Definition zero_area (p : N -> vec) (t : tri) : bool :=
  let '(a, b, c) := t in
  match cross (vsub (p b) (p a)) (vsub (p c) (p a)) with
  | (0, 0, 0) => true
  | _ => false
  end.

Definition count_zero_area (verts : list fvert) (tris : list tri) : N :=
  let emin := min_exp verts in
  let tbl := fst (build_vtable emin verts) in
  fold_left (fun acc t => if zero_area (vget tbl) t then N.succ acc else acc)
            tris 0%N.

(** ** Facts about the decoding *)

Lemma min_exp_coord_le acc c r :
  min_exp_coord acc c = Some r ->
  (forall a, acc = Some a -> r <= a) /\ (fst c <> 0 -> r <= snd c).
Proof.
  destruct c as [m e]; simpl. destruct (Z.eqb_spec m 0) as [->|Hm].
  - intros ->. split; [intros a [= ->]; lia|congruence].
  - destruct acc as [a|]; intros [= <-]; split; try (intros ? [= ->]); lia.
Qed.

Lemma min_exp_coord_mono acc c :
  match acc with
  | Some a => exists r, min_exp_coord acc c = Some r /\ r <= a
  | None => True
  end.
Proof.
  destruct acc as [a|]; [|exact I]. destruct c as [m e]; simpl.
  destruct (m =? 0); eexists; split; try reflexivity; lia.
Qed.

Definition coords (v : fvert) : list fcoord := let '(x, y, z) := v in [x; y; z].

Lemma fold_min_exp_coord_spec cs : forall acc,
  let r := fold_left min_exp_coord cs acc in
  (forall a, acc = Some a -> exists x, r = Some x /\ x <= a) /\
  (forall c, In c cs -> fst c <> 0 -> exists x, r = Some x /\ x <= snd c).
Proof.
  induction cs as [|c cs IH]; intro acc; simpl.
  - split; [intros a ->; eexists; split; [reflexivity|lia]|intros ? []].
  - destruct (IH (min_exp_coord acc c)) as [IH1 IH2]. split.
    + intros a ->. pose proof (min_exp_coord_mono (Some a) c) as (r & Hr & Hle).
      destruct (IH1 _ Hr) as (x & Hx & Hxr). exists x. split; [assumption|lia].
    + intros c' [<-|Hin] Hnz; [|auto].
      destruct (min_exp_coord acc c) as [r|] eqn:Hr.
      * destruct (min_exp_coord_le _ _ _ Hr) as [_ Hle].
        destruct (IH1 _ eq_refl) as (x & Hx & Hxr). exists x.
        split; [assumption|]. specialize (Hle Hnz). lia.
      * exfalso. destruct c as [m e]; simpl in *.
        destruct (Z.eqb_spec m 0); [contradiction|]. destruct acc; discriminate.
Qed.

Lemma min_exp_fold_coords verts acc :
  fold_left min_exp_vert verts acc =
  fold_left min_exp_coord (flat_map coords verts) acc.
Proof.
  rewrite fold_left_flat_map. apply fold_left_ext'.
  intros a [[x y] z]. reflexivity.
Qed.

(** [min_exp] is a lower bound on the exponent of every nonzero coordinate. *)
Lemma min_exp_le verts v c :
  In v verts -> In c (coords v) -> fst c <> 0 -> min_exp verts <= snd c.
Proof.
  intros Hv Hc Hnz. unfold min_exp. rewrite min_exp_fold_coords.
  destruct (fold_min_exp_coord_spec (flat_map coords verts) None) as [_ H].
  destruct (H c) as (x & -> & Hx); auto. apply in_flat_map. eauto.
Qed.

(** Hence scaling is exact: the scaled integer is m * 2^(e-emin). *)
Lemma scale_coord_exact verts v c :
  In v verts -> In c (coords v) ->
  scale_coord (min_exp verts) c = fst c * 2 ^ (snd c - min_exp verts) /\
  (fst c <> 0 -> 0 <= snd c - min_exp verts).
Proof.
  intros Hv Hc. destruct c as [m e]; simpl. destruct (Z.eq_dec m 0) as [->|Hm].
  - rewrite Z.shiftl_0_l. split; [lia|congruence].
  - pose proof (min_exp_le _ _ _ Hv Hc Hm) as Hle; simpl in Hle.
    split; [|lia]. apply Z.shiftl_mul_pow2. lia.
Qed.

(** The vertex table is the list, indexed from 0. *)
Lemma build_vtable_spec emin verts :
  let r := build_vtable emin verts in
  snd r = N.of_nat (length verts) /\
  forall i, vget (fst r) i =
            nth (N.to_nat i) (map (scale_vert emin) verts) (0, 0, 0).
Proof.
  unfold build_vtable. induction verts as [|v l IH] using rev_ind.
  - simpl. split; [reflexivity|]. intro i. unfold vget.
    rewrite PositiveMap.gempty. now destruct (N.to_nat i).
  - rewrite fold_left_app. simpl.
    destruct (fold_left (vt_step emin) l (PositiveMap.empty vec, 0%N)) as [m n].
    simpl in *. destruct IH as [-> IH]. split.
    + rewrite app_length; simpl. lia.
    + intro i. unfold vget in *. rewrite map_app; simpl.
      destruct (N.eq_dec i (N.of_nat (length l))) as [->|Hne].
      * rewrite PositiveMap.gss, Nat2N.id, app_nth2; rewrite map_length; [|lia].
        now rewrite Nat.sub_diag.
      * rewrite PositiveMap.gso.
        2:{ intro H. apply Hne. apply N.succ_inj.
            rewrite <- !N.succ_pos_spec. now f_equal. }
        rewrite IH.
        destruct (Nat.lt_ge_cases (N.to_nat i) (length l)) as [Hlt|Hge].
        -- rewrite app_nth1; [reflexivity|now rewrite map_length].
        -- rewrite nth_overflow by (rewrite map_length; lia).
           rewrite nth_overflow; [reflexivity|].
           rewrite app_length, map_length; simpl. lia.
Qed.

Lemma build_vtable_spec' emin verts tbl n :
  build_vtable emin verts = (tbl, n) ->
  n = N.of_nat (length verts) /\
  forall i, vget tbl i = nth (N.to_nat i) (map (scale_vert emin) verts) (0, 0, 0).
Proof.
  intro H. pose proof (build_vtable_spec emin verts) as S. cbv zeta in S.
  rewrite H in S. exact S.
Qed.

(** Translation invariance for vertex LISTS with integer coordinates: the
    concrete form of [vol6_translation_invariant]. *)
Definition lookup (vs : list vec) (i : N) : vec := nth (N.to_nat i) vs (0, 0, 0).

Lemma sum_det_ext_in p q tris :
  (forall a b c, In (a, b, c) tris -> p a = q a /\ p b = q b /\ p c = q c) ->
  sum_det p tris = sum_det q tris.
Proof.
  intro H. rewrite !sum_det_sumZ. f_equal. apply map_ext_in.
  intros [[a b] c] Hin. destruct (H _ _ _ Hin) as (Ha & Hb & Hc).
  simpl. now rewrite Ha, Hb, Hc.
Qed.

Theorem vol6_list_translation_invariant (vs : list vec) tris (t : vec) :
  manifold (N.of_nat (length vs)) tris ->
  sum_det (lookup (map (fun v => vadd v t) vs)) tris = sum_det (lookup vs) tris.
Proof.
  intro Hm. rewrite <- (vol6_translation_invariant _ _ (lookup vs) t Hm).
  apply sum_det_ext_in. intros a b c Hin.
  destruct Hm as [Hwf _]. specialize (Hwf _ Hin). simpl in Hwf.
  assert (Hl : forall i, (i < N.of_nat (length vs))%N ->
     lookup (map (fun v => vadd v t) vs) i = vadd (lookup vs i) t).
  { intros i Hi. unfold lookup.
    rewrite (nth_indep _ (0, 0, 0) (vadd (0, 0, 0) t)) by (rewrite map_length; lia).
    apply (map_nth (fun v => vadd v t)). }
  repeat split; apply Hl; tauto.
Qed.

(* ------------------------------------------------------------------ *)
(** * The extracted entry point                                         *)
(* ------------------------------------------------------------------ *)

(** [check_mesh nv verts tris = (ok, V, s)]:
    - [ok] is [true] iff the vertex list has exactly [nv] entries and the
      connectivity is [manifold nv tris];
    - if [ok], six times the signed volume enclosed by the mesh is exactly
      V * 2^s (V is computed by the cheap formula [sum_flux], which equals
      [sum_det] on manifold meshes; use [vol6] for the unconditional sum of
      determinants). *)
Definition check_mesh (nv : N) (verts : list fvert) (tris : list tri)
  : bool * Z * Z :=
  let emin := min_exp verts in
  let (tbl, n) := build_vtable emin verts in
  (check_manifold nv tris && (n =? nv)%N, sum_flux (vget tbl) tris, 3 * emin).

Lemma sum_flux_ext_in p q tris :
  (forall a b c, In (a, b, c) tris -> p a = q a /\ p b = q b /\ p c = q c) ->
  sum_flux p tris = sum_flux q tris.
Proof.
  intro H. unfold sum_flux. rewrite !fold_left_sumZ. f_equal. f_equal.
  apply map_ext_in.
  intros [[a b] c] Hin. destruct (H _ _ _ Hin) as (Ha & Hb & Hc).
  unfold tri_flux. now rewrite Ha, Hb, Hc.
Qed.

Theorem check_mesh_spec nv verts tris ok V s :
  check_mesh nv verts tris = (ok, V, s) ->
  let p := lookup (map (scale_vert (min_exp verts)) verts) in
  (ok = true <-> (manifold nv tris /\ N.of_nat (length verts) = nv)) /\
  s = 3 * min_exp verts /\
  V = sum_flux p tris /\
  (ok = true -> V = sum_det p tris).
Proof.
  unfold check_mesh.
  destruct (build_vtable (min_exp verts) verts) as [tbl n] eqn:Hb.
  destruct (build_vtable_spec' _ _ _ _ Hb) as [-> Hget]. intros [= <- <- <-].
  cbv zeta.
  assert (Hok : check_manifold nv tris && (N.of_nat (length verts) =? nv)%N = true
                <-> manifold nv tris /\ N.of_nat (length verts) = nv).
  { rewrite andb_true_iff, N.eqb_eq, check_manifold_iff. tauto. }
  assert (HV : sum_flux (vget tbl) tris =
               sum_flux (lookup (map (scale_vert (min_exp verts)) verts)) tris).
  { apply sum_flux_ext_in. intros. unfold lookup. now rewrite !Hget. }
  split; [exact Hok|]. split; [reflexivity|]. split; [exact HV|].
  intro H. apply Hok in H. destruct H as [Hm _].
  rewrite HV. eapply sum_flux_eq_sum_det; eassumption.
Qed.

(** [vol6] agrees with [check_mesh] on accepted meshes. *)
Theorem vol6_spec verts tris :
  vol6 verts tris =
  (sum_det (lookup (map (scale_vert (min_exp verts)) verts)) tris,
   3 * min_exp verts).
Proof.
  unfold vol6.
  destruct (build_vtable (min_exp verts) verts) as [tbl n] eqn:Hb.
  destruct (build_vtable_spec' _ _ _ _ Hb) as [_ Hget]. simpl. f_equal.
  apply sum_det_ext_in. intros. unfold lookup. now rewrite !Hget.
Qed.

(* ------------------------------------------------------------------ *)
(** * Examples                                                          *)
(* ------------------------------------------------------------------ *)

Module Examples.

  Definition fz (m : Z) : fcoord := (m, 0).

  (** Tetrahedron 0,(1,0,0),(0,1,0),(0,0,1); outward winding; volume 1/6. *)
  Definition tet_verts : list fvert :=
    [ (fz 0, fz 0, fz 0); (fz 1, fz 0, fz 0); (fz 0, fz 1, fz 0); (fz 0, fz 0, fz 1) ].
  Definition tet_tris : list tri :=
    [ (0, 2, 1); (0, 1, 3); (0, 3, 2); (1, 2, 3) ]%N.

  Example tet_ok : check_mesh 4 tet_verts tet_tris = (true, 1, 0).
  Proof. vm_compute. reflexivity. Qed.

  (** The same tetrahedron at half scale, given with exponent -1, shifted by
      (8,8,8): 6*volume = 1/8 = 1 * 2^-3. *)
  Definition tet2_verts : list fvert :=
    [ ((16, -1), (16, -1), (16, -1)); ((17, -1), (16, -1), (16, -1));
      ((16, -1), (17, -1), (16, -1)); ((16, -1), (16, -1), (17, -1)) ].
  Example tet2_ok : check_mesh 4 tet2_verts tet_tris = (true, 1, -3).
  Proof. vm_compute. reflexivity. Qed.

  (** One triangle flipped: not consistently oriented. *)
  Definition tet_bad : list tri := [ (0, 1, 2); (0, 1, 3); (0, 3, 2); (1, 2, 3) ]%N.
  Example tet_bad_fails : fst (fst (check_mesh 4 tet_verts tet_bad)) = false.
  Proof. vm_compute. reflexivity. Qed.

  (** All triangles flipped: still a manifold, volume negated (inward). *)
  Example tet_inward : check_mesh 4 tet_verts (map flip tet_tris) = (true, -1, 0).
  Proof. vm_compute. reflexivity. Qed.

  (** An open mesh (one face missing). *)
  Example tet_open_fails :
    fst (fst (check_mesh 4 tet_verts [ (0, 2, 1); (0, 1, 3); (0, 3, 2) ]%N)) = false.
  Proof. vm_compute. reflexivity. Qed.

  (** A repeated index / an out-of-range index. *)
  Example degenerate_fails : check_manifold 4 [ (0, 0, 1); (0, 1, 0) ]%N = false.
  Proof. vm_compute. reflexivity. Qed.
  Example range_fails : check_manifold 3 tet_tris = false.
  Proof. vm_compute. reflexivity. Qed.

  (** Unit cube [0,1]^3 scaled by 2 (side 2, volume 8, 6*volume = 48),
      12 outward triangles.  Vertex i has coordinates (bit0, bit1, bit2). *)
  Definition cube_verts : list fvert :=
    map (fun i : N =>
           let c (b : N) := if N.testbit i b then fz 2 else fz 0 in
           (c 0%N, c 1%N, c 2%N)) [0; 1; 2; 3; 4; 5; 6; 7]%N.
  Definition cube_tris : list tri :=
    [ (0, 2, 3); (0, 3, 1);    (* z = 0, normal -z *)
      (4, 5, 7); (4, 7, 6);    (* z = 1, normal +z *)
      (0, 1, 5); (0, 5, 4);    (* y = 0, normal -y *)
      (2, 6, 7); (2, 7, 3);    (* y = 1, normal +y *)
      (0, 4, 6); (0, 6, 2);    (* x = 0, normal -x *)
      (1, 3, 7); (1, 7, 5) ]%N. (* x = 1, normal +x *)
  Example cube_ok : check_mesh 8 cube_verts cube_tris = (true, 48, 0).
  Proof. vm_compute. reflexivity. Qed.

  Example cube_vol6 : vol6 cube_verts cube_tris = (48, 0).
  Proof. vm_compute. reflexivity. Qed.

  Example cube_no_zero_area : count_zero_area cube_verts cube_tris = 0%N.
  Proof. vm_compute. reflexivity. Qed.

  (** Two tetrahedra sharing an edge (4 triangles around one edge): the edge
      (0,1) is used twice in the same direction, so this is rejected. *)
  Example nonmanifold_edge_fails :
    check_manifold 6
      [ (0, 2, 1); (0, 1, 3); (0, 3, 2); (1, 2, 3);
        (0, 4, 1); (0, 1, 5); (0, 5, 4); (1, 4, 5) ]%N = false.
  Proof. vm_compute. reflexivity. Qed.

  (** Synthetic closed mesh for timing: an n x m grid torus, 2*n*m triangles. *)
  Definition torus_tris (n m : N) : list tri :=
    let idx i j := ((i mod n) * m + (j mod m))%N in
    flat_map (fun i =>
      flat_map (fun j =>
        [ (idx i j, idx (i + 1) j, idx (i + 1) (j + 1));
          (idx i j, idx (i + 1) (j + 1), idx i (j + 1)) ]%N)
        (map N.of_nat (seq 0 (N.to_nat m))))
      (map N.of_nat (seq 0 (N.to_nat n))).

  Example torus_small : check_manifold (5 * 7) (torus_tris 5 7) = true.
  Proof. vm_compute. reflexivity. Qed.

End Examples.

Print Assumptions check_manifold_sound.
Print Assumptions check_manifold_complete.
Print Assumptions manifold_edges_perm.
Print Assumptions vol6_translation_invariant.
Print Assumptions vol6_list_translation_invariant.
Print Assumptions sum_flux_eq_sum_det.
Print Assumptions check_mesh_spec.
Print Assumptions vol6_spec.
Print Assumptions scale_coord_exact.
