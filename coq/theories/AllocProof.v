(* AllocProof.v — Stage B: the for-all correctness theorem of the register allocator. *)
From Coq Require Import List Bool Arith Lia.
From FV Require Import Ops Tape Lru Alloc SsaWf LruProof AllocSem AllocInv AllocOps.
Import ListNotations.

(* ---------- SsaWf helper facts ---------- *)
Lemma mem_In x l : mem x l = true <-> In x l.
Proof.
  unfold mem. rewrite existsb_exists. split.
  - intros (y & Hy & E). apply Nat.eqb_eq in E. now subst.
  - intros H. exists x. split; [exact H|apply Nat.eqb_refl].
Qed.

Lemma mem_false x l : mem x l = false <-> ~ In x l.
Proof. rewrite <- mem_In. destruct (mem x l); split; congruence. Qed.

Lemma In_remove_nat x v l : In v (remove_nat x l) <-> v <> x /\ In v l.
Proof.
  unfold remove_nat. rewrite filter_In. split.
  - intros [H1 H2]. split; [|exact H1]. intros ->. now rewrite Nat.eqb_refl in H2.
  - intros [H1 H2]. split; [exact H2|]. apply Bool.negb_true_iff, Nat.eqb_neq. congruence.
Qed.

Lemma In_add_nat x v l : In v (add_nat x l) <-> v = x \/ In v l.
Proof.
  unfold add_nat. destruct (mem x l) eqn:E.
  - apply mem_In in E. split; [auto|]. intros [->|H]; auto.
  - simpl. split; intros [H|H]; auto.
Qed.

Lemma In_fold_add v args l : In v (fold_right add_nat l args) <-> In v args \/ In v l.
Proof.
  induction args as [|a args IH]; simpl.
  - tauto.
  - rewrite In_add_nat, IH. split; intuition congruence.
Qed.

(* ---------- the initial state ---------- *)
Section Init.
Context {I : Type}.
Variables n size : nat.
Hypothesis Hn : 1 <= n.

Lemma nth_error_repeat_None {A} (k j : nat) :
  match nth_error (repeat (@None A) k) j with Some x => x | None => None end = None.
Proof.
  destruct (nth_error (repeat None k) j) eqn:E; [|reflexivity].
  apply nth_error_In, repeat_spec in E. exact E.
Qed.

Lemma alloc_new_inv : @PInv I n size (alloc_new n size) [] [] (seq 0 n).
Proof.
  assert (Ea : forall v, allocf (@alloc_new I n size) v = None)
    by (intros v; apply nth_error_repeat_None).
  assert (Er : forall v, regf (@alloc_new I n size) v = None)
    by (intros v; apply nth_error_repeat_None).
  constructor; simpl.
  - reflexivity.
  - apply repeat_length.
  - apply repeat_length.
  - split; [|split]; intros *; rewrite ?Ea, ?Er; discriminate.
  - split; [apply seq_NoDup|]. split; [|split].
    + intros r Hr. apply in_seq in Hr. rewrite Er. repeat split; auto; lia.
    + intros r [].
    + intros r Hr _. left. apply in_seq. lia.
  - split; [constructor|]. split; [intros m []|].
    split; [intros v m; rewrite Ea; discriminate|].
    split; [intros v m; rewrite Ea; discriminate|].
    split; [intros v w m; rewrite Ea; discriminate|intros v []].
  - intros r Hr Hnin. exfalso. apply Hnin. apply in_seq. lia.
  - constructor.
  - apply lru_new_rep. exact Hn.
Qed.

Lemma alloc_new_allocf v : allocf (@alloc_new I n size) v = None.
Proof. apply nth_error_repeat_None. Qed.

End Init.

(* ---------- the main loop ---------- *)
Section Main.
Context {V I : Type}.
Variable sem : Sem V I.
Variable inputs : list V.
Variables n size bound : nat.
Hypothesis Hn : 1 <= n.
Hypothesis Hbound : bound <= size.
Notation op := (Tape.op I).
Notation ast := (ast I).
Notation PInv := (@PInv I n size).
Notation sim := (@sim V I sem inputs).

(* one step: the allocator's op against wf_step.  Total for n >= 3, partial below. *)
Lemma alloc_op_spec s ord o live defd st' :
  PInv s [] [] ord ->
  (forall v, allocf s v <> None <-> In v live) ->
  wf_step bound o (live, defd) = Some st' ->
  match alloc_op o s with
  | Ok (_, s') => exists ord',
      PInv s' [] [] ord' /\
      (forall v, allocf s' v <> None <-> In v (fst st')) /\
      (forall ssa, sim ssa (a_out s) (allocf s) -> sim (o :: ssa) (a_out s') (allocf s'))
  | Err _ => n < 3
  end.
Proof.
  intros P Hdom Hwf. unfold wf_step in Hwf.
  destruct (negb (is_ssa_op o)) eqn:Essa; [discriminate|].
  destruct (op_out o) as [out|] eqn:Eout.
  - (* defining op *)
    match type of Hwf with (if ?c then _ else _) = _ => destruct c eqn:Ec; [|discriminate] end.
    injection Hwf as <-. simpl fst.
    apply andb_prop in Ec. destruct Ec as [Ec Hargs].
    apply andb_prop in Ec. destruct Ec as [Ec Hob].
    apply andb_prop in Ec. destruct Ec as [Hlive Hnd].
    apply mem_In in Hlive. apply Nat.ltb_lt in Hob.
    assert (Ho : out < size) by lia.
    assert (Hl : allocf s out <> None) by (apply Hdom; exact Hlive).
    rewrite forallb_forall in Hargs.
    assert (Harg : forall a, In a (op_args o) -> a <> out /\ a < size).
    { intros a Ha. specialize (Hargs a Ha). apply andb_prop in Hargs. destruct Hargs as [H1 H2].
      apply Bool.negb_true_iff, mem_false in H1. apply Nat.ltb_lt in H2.
      split; [|lia]. intros ->. apply H1. left. reflexivity. }
    assert (Hfin : forall s', OpPost sem inputs n size s s' o (Some out) (op_args o) ->
      exists ord', PInv s' [] [] ord' /\
        (forall v, allocf s' v <> None <->
                   In v (fold_right add_nat (remove_nat out live) (op_args o))) /\
        (forall ssa, sim ssa (a_out s) (allocf s) -> sim (o :: ssa) (a_out s') (allocf s'))).
    { intros s' (ord' & P' & D & S). exists ord'. split; [exact P'|]. split; [|exact S].
      intros v. rewrite D, In_fold_add, In_remove_nat, Hdom.
      split; (intros [H|[H1 H2]]; [left; exact H|right; split; [congruence|exact H2]]). }
    destruct o; simpl in Eout; try discriminate; injection Eout as ->; simpl op_args in *; simpl alloc_op.
    + (* Input *)
      destruct (op_out_only_spec sem inputs n size Hn s ord (OInput out i) out
                  (fun r => OInput r i) P Ho Hl (fun rx => dc_input sem inputs out rx i)
                  ltac:(intros sc rx H; exact H)) as (s' & E & Post).
      rewrite E. apply Hfin, Post.
    + (* CopyImm *)
      destruct (op_out_only_spec sem inputs n size Hn s ord (OCopyImm out imm) out
                  (fun r => OCopyImm r imm) P Ho Hl (fun rx => dc_copyimm sem inputs out rx imm)
                  ltac:(intros sc rx H; exact H)) as (s' & E & Post).
      rewrite E. apply Hfin, Post.
    + (* Un *)
      destruct (Harg arg (or_introl eq_refl)) as [Hne Has].
      pose proof (op_reg_fn_spec sem inputs n size Hn s ord (OUn u out arg) out arg
                  (fun o a => OUn u o a) P Ho Hl Has Hne
                  (fun rx ry => dc_un sem inputs u out rx arg ry)
                  ltac:(intros sc rx ry H1 H2; split; assumption)) as Sp.
      destruct (op_reg_fn out arg _ s) as [[[] s']|c]; [apply Hfin, Sp|exact Sp].
    + (* BinRR *)
      destruct (Harg lhs (or_introl eq_refl)) as [Hlne Hls].
      destruct (Harg rhs (or_intror (or_introl eq_refl))) as [Hrne Hrs].
      pose proof (op_reg_reg_spec sem inputs n size Hn s ord (OBinRR b out lhs rhs) out lhs rhs
                  (fun o l r => OBinRR b o l r) P Ho Hl Hls Hlne Hrs Hrne
                  (fun rx ry rz => dc_rr sem inputs b out rx lhs rhs ry rz)
                  ltac:(intros sc rx ry rz H1 H2 H3; split; [|split]; assumption)) as Sp.
      destruct (op_reg_reg out lhs rhs _ s) as [[[] s']|c]; [apply Hfin, Sp|exact Sp].
    + (* BinRI *)
      destruct (Harg arg (or_introl eq_refl)) as [Hne Has].
      pose proof (op_reg_fn_spec sem inputs n size Hn s ord (OBinRI b out arg imm) out arg
                  (fun o a => OBinRI b o a imm) P Ho Hl Has Hne
                  (fun rx ry => dc_ri sem inputs b out rx arg ry imm)
                  ltac:(intros sc rx ry H1 H2; split; assumption)) as Sp.
      destruct (op_reg_fn out arg _ s) as [[[] s']|c]; [apply Hfin, Sp|exact Sp].
    + (* BinIR *)
      destruct (Harg arg (or_introl eq_refl)) as [Hne Has].
      pose proof (op_reg_fn_spec sem inputs n size Hn s ord (OBinIR b out arg imm) out arg
                  (fun o a => OBinIR b o a imm) P Ho Hl Has Hne
                  (fun rx ry => dc_ir sem inputs b out rx arg ry imm)
                  ltac:(intros sc rx ry H1 H2; split; assumption)) as Sp.
      destruct (op_reg_fn out arg _ s) as [[[] s']|c]; [apply Hfin, Sp|exact Sp].
  - (* Output *)
    match type of Hwf with (if ?c then _ else _) = _ => destruct c eqn:Hargs; [|discriminate] end.
    injection Hwf as <-. simpl fst.
    destruct o; simpl in Eout; try discriminate. simpl op_args in *. simpl alloc_op.
    rewrite forallb_forall in Hargs. specialize (Hargs arg (or_introl eq_refl)).
    apply andb_prop in Hargs. destruct Hargs as [_ Hab]. apply Nat.ltb_lt in Hab.
    destruct (op_output_spec sem inputs n size Hn s ord arg i P ltac:(lia))
      as (s' & E & (ord' & P' & D & S)).
    rewrite E. exists ord'. split; [exact P'|]. split; [|exact S].
    intros v. rewrite D. simpl. rewrite In_add_nat, Hdom.
    split; [intros [[H|[]]|[_ H]]; auto|intros [H|H]; [left; auto|right; split; [discriminate|exact H]]].
Qed.

Lemma alloc_ops_spec t : forall s ord live defd processed,
  PInv s [] [] ord ->
  (forall v, allocf s v <> None <-> In v live) ->
  wf_walk bound t (live, defd) = true ->
  sim processed (a_out s) (allocf s) ->
  match alloc_ops t s with
  | Ok (_, s') => exists ord',
      PInv s' [] [] ord' /\
      (forall v, allocf s' v = None) /\
      sim (rev t ++ processed) (a_out s') (allocf s')
  | Err _ => n < 3
  end.
Proof.
  induction t as [|o t IH]; intros s ord live defd processed P Hdom Hwf S.
  - simpl in Hwf. destruct live as [|x live]; [|discriminate].
    simpl. exists ord. split; [exact P|]. split; [|exact S].
    intros v. destruct (allocf s v) eqn:E; [|reflexivity].
    exfalso. apply (proj1 (Hdom v)). rewrite E. discriminate.
  - cbn [wf_walk] in Hwf. destruct (wf_step bound o (live, defd)) as [[live' defd']|] eqn:Estep; [|discriminate].
    pose proof (alloc_op_spec s ord o live defd _ P Hdom Estep) as Sp.
    cbn [alloc_ops]. unfold bind.
    destruct (alloc_op o s) as [[[] s1]|c]; [|exact Sp].
    destruct Sp as (ord1 & P1 & D1 & S1). simpl fst in D1.
    pose proof (IH s1 ord1 live' defd' (o :: processed) P1 D1 Hwf (S1 _ S)) as Sp'.
    destruct (alloc_ops t s1) as [[[] s']|c']; [|exact Sp'].
    destruct Sp' as (ord' & P' & D' & S'). exists ord'. split; [exact P'|]. split; [exact D'|].
    simpl. rewrite <- app_assoc. exact S'.
Qed.

End Main.

(* ---------- the theorems ---------- *)
Definition obs_equal {V I} (sem : Sem V I) (ssa rt : list (op I)) : Prop :=
  forall (inputs : list V) (e0 e0' : env) (out0 : list V),
    m_out (eval_tape sem ssa inputs e0 out0) = m_out (eval_tape sem rt inputs e0' out0) /\
    m_trace (eval_tape sem ssa inputs e0 out0) = m_trace (eval_tape sem rt inputs e0' out0).

(* operand bounds of a register tape: every register operand is < n and < slots,
   every memory operand of a Load/Store is >= n and < slots *)
Definition tape_bounds {I} (n slots : nat) (rt : list (op I)) : Prop :=
  Forall (fun o =>
    match o with
    | OLoad r m | OStore r m => (r < n /\ r < slots) /\ (n <= m /\ m < slots)
    | OOutput a _ => a < n /\ a < slots
    | OInput r _ | OCopyImm r _ => r < n /\ r < slots
    | OUn _ r a | OBinRI _ r a _ | OBinIR _ r a _ => (r < n /\ r < slots) /\ (a < n /\ a < slots)
    | OBinRR _ r a b => (r < n /\ r < slots) /\ (a < n /\ a < slots) /\ (b < n /\ b < slots)
    end) rt.

(* Everything at once, for every budget >= 1: the result is either Ok with an
   observationally equal, in-bounds register tape, or an Err and then the budget is < 3. *)
Theorem alloc_run :
  forall (V I : Type) (sem : Sem V I) (n size bound : nat) (ssa : list (op I)),
    1 <= n -> n <= 255 -> bound <= size -> wf_walk bound ssa ([], []) = true ->
    match reg_tape_alloc n size ssa with
    | Ok (rt, slots) => obs_equal sem ssa rt /\ tape_bounds n slots rt
    | Err _ => n < 3
    end.
Proof.
  intros V I sem n size bound ssa Hn Hn255 Hb Hwf.
  unfold reg_tape_alloc.
  assert (E255 : Nat.ltb 255 n = false) by (apply Nat.ltb_ge; lia). rewrite E255.
  assert (E0 : Nat.eqb n 0 = false) by (apply Nat.eqb_neq; lia). rewrite E0.
  pose proof (alloc_new_inv (I:=I) n size Hn) as P0.
  assert (D0 : forall v, allocf (@alloc_new I n size) v <> None <-> In v [])
    by (intros v; rewrite alloc_new_allocf; simpl; tauto).
  assert (Hall : forall inputs,
            match alloc_ops ssa (alloc_new n size) with
            | Ok (_, s') => exists ord',
                PInv n size s' [] [] ord' /\ (forall v, allocf s' v = None) /\
                sim sem inputs (rev ssa ++ []) (a_out s') (allocf s')
            | Err _ => n < 3
            end).
  { intros inputs. eapply alloc_ops_spec; eauto.
    intros a b _ Ho. exact Ho. }
  destruct (alloc_ops ssa (alloc_new n size)) as [[[] s']|c]; [|exact (Hall [])].
  split.
  - intros inputs e0 e0' out0.
    destruct (Hall inputs) as (ord' & P' & D' & S'). rewrite app_nil_r in S'.
    unfold eval_tape. rewrite rev_involutive. apply S'.
    + intros v l Hv. rewrite D' in Hv. discriminate.
    + split; reflexivity.
  - destruct (Hall []) as (ord' & P' & _ & _).
    pose proof (pi_ou _ _ _ _ _ _ P') as Hou. unfold OU in Hou.
    unfold tape_bounds. apply Forall_rev. eapply Forall_impl; [|exact Hou].
    intros o Ho. destruct o; exact Ho.
Qed.

(* (1) the main theorem, for any [size] covering the variable indices *)
Theorem alloc_correct_gen :
  forall (V I : Type) (sem : Sem V I) (n size bound : nat) (ssa : list (op I)),
    3 <= n -> n <= 255 -> bound <= size -> wf_walk bound ssa ([], []) = true ->
    exists rt slots,
      reg_tape_alloc n size ssa = Ok (rt, slots) /\ obs_equal sem ssa rt.
Proof.
  intros V I sem n size bound ssa Hn3 Hn255 Hb Hwf.
  pose proof (alloc_run V I sem n size bound ssa ltac:(lia) Hn255 Hb Hwf) as R.
  destruct (reg_tape_alloc n size ssa) as [[rt slots]|c]; [|lia].
  exists rt, slots. split; [reflexivity|apply R].
Qed.

Theorem alloc_correct :
  forall (V I : Type) (sem : Sem V I) (n : nat) (ssa : list (op I)),
    3 <= n -> n <= 255 -> ssa_wf ssa = true ->
    exists rt slots,
      reg_tape_new n ssa = Ok (rt, slots) /\
      forall (inputs : list V) (e0 e0' : env) (out0 : list V),
        m_out (eval_tape sem ssa inputs e0 out0) = m_out (eval_tape sem rt inputs e0' out0) /\
        m_trace (eval_tape sem ssa inputs e0 out0) = m_trace (eval_tape sem rt inputs e0' out0).
Proof.
  intros V I sem n ssa H3 H255 Hwf. unfold reg_tape_new.
  exact (alloc_correct_gen V I sem n (length ssa) (length ssa) ssa H3 H255 (le_n _) Hwf).
Qed.

(* (2) a budget below 3 may fail, but never miscompiles *)
Theorem alloc_small_budget_gen :
  forall (V I : Type) (sem : Sem V I) (n size bound : nat) (ssa rt : list (op I)) (slots : nat),
    1 <= n -> bound <= size -> wf_walk bound ssa ([], []) = true ->
    reg_tape_alloc n size ssa = Ok (rt, slots) ->
    obs_equal sem ssa rt.
Proof.
  intros V I sem n size bound ssa rt slots Hn Hb Hwf E.
  assert (Hn255 : n <= 255).
  { unfold reg_tape_alloc in E. destruct (Nat.ltb 255 n) eqn:E1; [discriminate|].
    apply Nat.ltb_ge in E1. exact E1. }
  pose proof (alloc_run V I sem n size bound ssa Hn Hn255 Hb Hwf) as R.
  rewrite E in R. apply R.
Qed.

Theorem alloc_small_budget :
  forall (V I : Type) (sem : Sem V I) (n : nat) (ssa rt : list (op I)) (slots : nat),
    1 <= n -> ssa_wf ssa = true -> reg_tape_new n ssa = Ok (rt, slots) ->
    forall (inputs : list V) (e0 e0' : env) (out0 : list V),
      m_out (eval_tape sem ssa inputs e0 out0) = m_out (eval_tape sem rt inputs e0' out0) /\
      m_trace (eval_tape sem ssa inputs e0 out0) = m_trace (eval_tape sem rt inputs e0' out0).
Proof.
  intros V I sem n ssa rt slots Hn Hwf E.
  exact (alloc_small_budget_gen V I sem n (length ssa) (length ssa) ssa rt slots Hn (le_n _) Hwf E).
Qed.

(* (3) operand bounds *)
Theorem alloc_bounds_gen :
  forall (I : Type) (n size bound : nat) (ssa rt : list (op I)) (slots : nat),
    1 <= n -> bound <= size -> wf_walk bound ssa ([], []) = true ->
    reg_tape_alloc n size ssa = Ok (rt, slots) ->
    tape_bounds n slots rt.
Proof.
  intros I n size bound ssa rt slots Hn Hb Hwf E.
  assert (Hn255 : n <= 255).
  { unfold reg_tape_alloc in E. destruct (Nat.ltb 255 n) eqn:E1; [discriminate|].
    apply Nat.ltb_ge in E1. exact E1. }
  pose (sem := {| s_dflt := tt; s_imm := fun _ : I => tt; s_un := fun _ _ => tt;
                  s_rr := fun _ _ _ => tt; s_ri := fun _ _ _ => tt; s_ir := fun _ _ _ => tt;
                  s_ch_rr := fun _ _ _ => TUnknown; s_ch_ri := fun _ _ _ => TUnknown |}).
  pose proof (alloc_run unit I sem n size bound ssa Hn Hn255 Hb Hwf) as R.
  rewrite E in R. apply R.
Qed.

Theorem alloc_bounds :
  forall (I : Type) (n : nat) (ssa rt : list (op I)) (slots : nat),
    1 <= n -> ssa_wf ssa = true -> reg_tape_new n ssa = Ok (rt, slots) ->
    tape_bounds n slots rt.
Proof.
  intros I n ssa rt slots Hn Hwf E.
  exact (alloc_bounds_gen I n (length ssa) (length ssa) ssa rt slots Hn (le_n _) Hwf E).
Qed.

Print Assumptions alloc_correct.
Print Assumptions alloc_correct_gen.
Print Assumptions alloc_small_budget.
Print Assumptions alloc_bounds.
