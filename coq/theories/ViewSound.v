(* ViewSound.v — property C18: theorems about the View.v model, instantiated
   with the real numbers [r_num]. *)
From Coq Require Import List ZArith Reals Lra Lia Bool.
From FV Require Import View.
Import ListNotations.
Local Open Scope R_scope.

(** * Tactics *)

Ltac unnum :=
  cbv [r_num n_add n_sub n_mul n_div n_opp n_zero n_one n_two n_neqb n_exp2
       n_sin n_cos n_fmod_tau n_clamp_0_pi n_of_Z] in *.

Ltac unmodel :=
  cbv [view2_default view2_from_components view2_w2m_point view2_neqb view2_zoom
       begin_translate2 handle2_center translate2
       view3_default view3_from_center_and_scale view3_from_components
       rot_x rot_z view3_w2m_point view3_neqb view3_zoom
       begin_translate3 handle3_center translate3
       begin_rotate rh_yaw rh_pitch rotate3 ROTATE_SPEED
       vadd2 vsub2 vneqb2 vadd3 vsub3 vneqb3
       v2_center v2_scale v3_center v3_scale v3_yaw v3_pitch
       h2_start h2_mat h2_initial_center h3_start h3_mat h3_initial_center
       rh_start rh_initial_yaw rh_initial_pitch fst snd] in *;
  unnum.

Ltac destr_all :=
  repeat match goal with
  | v : view2 _ |- _ => destruct v
  | v : view3 _ |- _ => destruct v
  | h : handle2 _ |- _ => destruct h
  | h : handle3 _ |- _ => destruct h
  | h : rotate_handle _ |- _ => destruct h
  | p : vec2 _ |- _ => destruct p
  | p : vec3 _ |- _ => destruct p
  | p : (_ * _)%type |- _ => destruct p
  end.

Ltac split_pairs :=
  repeat match goal with |- (_, _) = (_, _) => apply (f_equal2 pair) end.

(** * The [!=] of the reals *)

Lemma r_neqb_false : forall x y, r_neqb x y = false <-> x = y.
Proof. intros; unfold r_neqb; destruct (Req_EM_T x y); split; congruence. Qed.

Lemma r_neqb_true : forall x y, r_neqb x y = true <-> x <> y.
Proof. intros; unfold r_neqb; destruct (Req_EM_T x y); split; congruence. Qed.

Lemma r_neqb_refl : forall x, r_neqb x x = false.
Proof. intros; apply r_neqb_false; reflexivity. Qed.

(** * World-to-model is translate . rotate . scale *)

Definition Rz (a : R) (q : R * R * R) : R * R * R :=
  let '(x, y, z) := q in (cos a * x - sin a * y, sin a * x + cos a * y, z).
Definition Rx (a : R) (q : R * R * R) : R * R * R :=
  let '(x, y, z) := q in (x, cos a * y - sin a * z, sin a * y + cos a * z).
Definition smul3 (s : R) (q : R * R * R) : R * R * R :=
  let '(x, y, z) := q in (s * x, s * y, s * z).
Definition plus3 (a b : R * R * R) : R * R * R :=
  let '(ax, ay, az) := a in let '(bx, by_, bz) := b in (ax + bx, ay + by_, az + bz).
Definition smul2 (s : R) (q : R * R) : R * R := let '(x, y) := q in (s * x, s * y).
Definition plus2 (a b : R * R) : R * R :=
  let '(ax, ay) := a in let '(bx, by_) := b in (ax + bx, ay + by_).

Theorem w2m2_is_TS : forall (v : view2 R) (p : R * R),
  view2_w2m_point r_num v p = plus2 (v2_center v) (smul2 (v2_scale v) p).
Proof.
  intros; destr_all; unmodel; cbv [plus2 smul2]. split_pairs; ring.
Qed.

Theorem w2m_is_TRS : forall (v : view3 R) (p : R * R * R),
  view3_w2m_point r_num v p
  = plus3 (v3_center v) (Rz (v3_yaw v) (Rx (v3_pitch v) (smul3 (v3_scale v) p))).
Proof.
  intros; destr_all; unmodel; cbv [plus3 Rz Rx smul3]. split_pairs; ring.
Qed.

(** * screen_to_world *)

Theorem screen_to_world2_spec : forall w h px py,
  let s := 2 / IZR (Z.min w h) in
  screen_to_world2 r_num w h px py
  = ((IZR px - IZR w / 2) * s, (IZR py - (IZR h / 2 - 1)) * (- s)).
Proof.
  intros; cbv [screen_to_world2]; unnum. subst s. split_pairs; ring.
Qed.

Theorem screen_to_world3_spec : forall w h d px py pz,
  let s := 2 / IZR (Z.min (Z.min w h) d) in
  screen_to_world3 r_num w h d px py pz
  = ((IZR px - IZR w / 2) * s, (IZR py - (IZR h / 2 - 1)) * (- s),
     (IZR pz - IZR d / 2) * s).
Proof.
  intros; cbv [screen_to_world3]; unnum. subst s. split_pairs; ring.
Qed.

(** * Zoom keeps the model point under the cursor fixed *)

Theorem zoom2_fixes_cursor : forall (v : view2 R) (amount : R) (p : R * R),
  view2_w2m_point r_num (fst (view2_zoom r_num v amount (Some p))) p
  = view2_w2m_point r_num v p.
Proof.
  intros; destr_all; unmodel. split_pairs; ring.
Qed.

Theorem zoom3_fixes_cursor : forall (v : view3 R) (amount : R) (p : R * R * R),
  view3_w2m_point r_num (fst (view3_zoom r_num v amount (Some p))) p
  = view3_w2m_point r_num v p.
Proof.
  intros; destr_all; unmodel. split_pairs; ring.
Qed.

(* zoom multiplies the scale, and never touches yaw / pitch *)
Theorem zoom2_scale : forall (v : view2 R) amount pos,
  v2_scale (fst (view2_zoom r_num v amount pos)) = v2_scale v * amount.
Proof. intros; destruct pos; destr_all; unmodel; reflexivity. Qed.

Theorem zoom3_scale_yaw_pitch : forall (v : view3 R) amount pos,
  let v' := fst (view3_zoom r_num v amount pos) in
  v3_scale v' = v3_scale v * amount /\ v3_yaw v' = v3_yaw v /\ v3_pitch v' = v3_pitch v.
Proof. intros; subst v'; destruct pos; destr_all; unmodel; auto. Qed.

(** * Panning keeps the grabbed model point under the cursor *)

Theorem pan2_tracks_grab : forall (v v1 : view2 R) (start pos : R * R) h,
  h = begin_translate2 r_num v start ->
  v2_scale v1 = v2_scale v ->
  view2_w2m_point r_num (fst (translate2 r_num v1 h pos)) pos
  = view2_w2m_point r_num v start.
Proof.
  intros v v1 start pos h -> Hs; destr_all; unmodel. subst. split_pairs; ring.
Qed.

Theorem pan3_tracks_grab : forall (v v1 : view3 R) (start pos : R * R * R) h,
  h = begin_translate3 r_num v start ->
  v3_scale v1 = v3_scale v -> v3_yaw v1 = v3_yaw v -> v3_pitch v1 = v3_pitch v ->
  view3_w2m_point r_num (fst (translate3 r_num v1 h pos)) pos
  = view3_w2m_point r_num v start.
Proof.
  intros v v1 start pos h -> Hs Hy Hp; destr_all; unmodel. subst.
  split_pairs; ring.
Qed.

(** * fmod by 2*PI and clamp to [0, PI] *)

Lemma two_pi_pos : 0 < 2 * PI.
Proof. generalize PI_RGT_0; lra. Qed.

Lemma r_trunc_bounds : forall q,
  (0 <= q -> q - 1 < r_trunc q <= q) /\ (q < 0 -> q <= r_trunc q < q + 1).
Proof.
  intros q; unfold r_trunc; destruct (Rle_dec 0 q); split; intros; try lra.
  - destruct (base_Int_part q); lra.
  - destruct (base_Int_part (- q)); lra.
Qed.

(* x = 2PI * trunc (x / 2PI) + fmod x, the remainder has the sign of the
   dividend and magnitude below 2PI *)
Lemma r_fmod_tau_sign : forall x,
  (0 <= x -> 0 <= r_fmod_tau x < 2 * PI) /\
  (x < 0 -> - (2 * PI) < r_fmod_tau x <= 0).
Proof.
  intros x. pose proof two_pi_pos as Ht. unfold r_fmod_tau.
  set (t := 2 * PI) in *. set (q := x / t).
  assert (Hx : x = t * q) by (unfold q; field; lra).
  destruct (r_trunc_bounds q) as [Hpos Hneg].
  assert (Hq1 : 0 <= x -> 0 <= q).
  { intros; unfold q; apply Rmult_le_pos; [lra | left; apply Rinv_0_lt_compat; lra]. }
  assert (Hq2 : x < 0 -> q < 0).
  { intros; unfold q, Rdiv. rewrite <- (Rmult_0_l (/ t)).
    apply Rmult_lt_compat_r; [apply Rinv_0_lt_compat; lra | lra]. }
  clearbody q. subst x.
  split; intros Hs.
  - specialize (Hpos (Hq1 Hs)). nra.
  - specialize (Hneg (Hq2 Hs)). nra.
Qed.

Lemma r_fmod_tau_range : forall x, - (2 * PI) < r_fmod_tau x < 2 * PI.
Proof.
  intros x. pose proof two_pi_pos. destruct (r_fmod_tau_sign x) as [A B].
  destruct (Rle_or_lt 0 x) as [H0|H0]; [specialize (A H0) | specialize (B H0)]; lra.
Qed.

Lemma r_clamp_0_pi_range : forall x, 0 <= r_clamp_0_pi x <= PI.
Proof.
  intros x. pose proof PI_RGT_0. unfold r_clamp_0_pi.
  destruct (Rlt_dec x 0); [lra|]. destruct (Rlt_dec PI x); lra.
Qed.

Lemma r_exp2_0 : r_exp2 0 = 1.
Proof.
  unfold r_exp2, Rpower. replace (0 / 100 * ln 2) with 0 by (unfold Rdiv; ring).
  apply exp_0.
Qed.

Lemma r_exp2_100 : r_exp2 100 = 2.
Proof.
  unfold r_exp2. replace (100 / 100) with 1 by field. apply Rpower_1; lra.
Qed.

Lemma r_exp2_pos : forall a, 0 < r_exp2 a.
Proof. intros; unfold r_exp2, Rpower; apply exp_pos. Qed.

(** * Rotation *)

Theorem rotate3_keeps_center_scale : forall (v : view3 R) h pos,
  let v' := fst (rotate3 r_num v h pos) in
  v3_center v' = v3_center v /\ v3_scale v' = v3_scale v.
Proof. intros; subst v'; destr_all; unmodel; auto. Qed.

Theorem rotate3_ranges : forall (v : view3 R) h pos,
  let v' := fst (rotate3 r_num v h pos) in
  0 <= v3_pitch v' <= PI /\ - (2 * PI) < v3_yaw v' < 2 * PI.
Proof.
  intros; subst v'; destr_all; unmodel.
  split; [apply r_clamp_0_pi_range | apply r_fmod_tau_range].
Qed.

(** * The `changed` flags *)

Ltac flag_tac :=
  rewrite ?orb_false_iff, ?r_neqb_false;
  split; [ intuition congruence | let H := fresh in intros H; repeat split; congruence ].

Theorem zoom2_changed_flag_sound : forall (v : view2 R) amount pos,
  snd (view2_zoom r_num v amount pos) = false
  <-> fst (view2_zoom r_num v amount pos) = v.
Proof. intros; destruct pos; destr_all; unmodel; flag_tac. Qed.

Theorem translate2_changed_flag_sound : forall (v : view2 R) h pos,
  snd (translate2 r_num v h pos) = false <-> fst (translate2 r_num v h pos) = v.
Proof. intros; destr_all; unmodel; flag_tac. Qed.

Theorem zoom3_changed_flag_sound : forall (v : view3 R) amount pos,
  snd (view3_zoom r_num v amount pos) = false
  <-> fst (view3_zoom r_num v amount pos) = v.
Proof. intros; destruct pos; destr_all; unmodel; flag_tac. Qed.

Theorem translate3_changed_flag_sound : forall (v : view3 R) h pos,
  snd (translate3 r_num v h pos) = false <-> fst (translate3 r_num v h pos) = v.
Proof. intros; destr_all; unmodel; flag_tac. Qed.

Theorem rotate3_changed_flag_sound : forall (v : view3 R) h pos,
  snd (rotate3 r_num v h pos) = false <-> fst (rotate3 r_num v h pos) = v.
Proof. intros; destr_all; unmodel; flag_tac. Qed.

(* The historical flag of View2::zoom / View3::zoom was `amount != 1.0`.  It is
   not sound: with scale = 0 any amount leaves the view unchanged. *)
Theorem zoom_old_flag_refuted : exists (v : view2 R) (amount : R) (p : R * R),
  amount <> 1 /\ fst (view2_zoom r_num v amount (Some p)) = v.
Proof.
  exists (mkView2 (0, 0) 0), 2, (0, 0). split; [lra|].
  unmodel. f_equal; [split_pairs|]; ring.
Qed.

(* ... and in the other direction it is also wrong only at scale = 0: when
   scale <> 0 the current flag agrees with `amount != 1`. *)
Theorem zoom2_flag_vs_old_flag : forall (v : view2 R) amount pos,
  v2_scale v <> 0 ->
  (snd (view2_zoom r_num v amount pos) = false <-> amount = 1).
Proof.
  intros v amount pos Hs. rewrite zoom2_changed_flag_sound.
  destruct pos; destr_all; unmodel; simpl in Hs; split; intros H.
  - injection H; intros. apply Rmult_eq_reg_l with v2_scale; [lra | assumption].
  - subst. f_equal; [split_pairs|]; ring.
  - injection H; intros. apply Rmult_eq_reg_l with v2_scale; [lra | assumption].
  - subst. f_equal; ring.
Qed.

(** * Canvas2: call-level specifications *)

(* the world point under a screen position only depends on the canvas size *)
Lemma canvas2_s2w_size : forall (c c' : canvas2 R) p,
  c2_size c' = c2_size c ->
  canvas2_screen_to_world r_num c' p = canvas2_screen_to_world r_num c p.
Proof. intros c c' p H; unfold canvas2_screen_to_world; rewrite H; reflexivity. Qed.

Lemma canvas2_eta : forall c : canvas2 R,
  c = {| c2_view := c2_view c; c2_size := c2_size c; c2_drag := c2_drag c |}.
Proof. destruct c; reflexivity. Qed.

Lemma translate2_scale : forall (v : view2 R) h p,
  v2_scale (fst (translate2 r_num v h p)) = v2_scale v.
Proof. intros; destr_all; unmodel; reflexivity. Qed.

Lemma zoom2_noop_if_scale_same : forall (v : view2 R) a pos,
  v2_scale (fst (view2_zoom r_num v a pos)) = v2_scale v ->
  fst (view2_zoom r_num v a pos) = v.
Proof.
  intros v a pos; destruct pos; destr_all; unmodel; intros H; rewrite H.
  - f_equal; split_pairs; ring.
  - reflexivity.
Qed.

Lemma canvas2_drag_spec : forall (c : canvas2 R) pos, exists v' b,
  canvas2_drag r_num c pos
    = ({| c2_view := v'; c2_size := c2_size c; c2_drag := c2_drag c |}, b)
  /\ (b = false <-> v' = c2_view c)
  /\ v2_scale v' = v2_scale (c2_view c).
Proof.
  intros c pos. unfold canvas2_drag. destruct (c2_drag c) as [h|] eqn:D.
  - set (w := canvas2_screen_to_world r_num c pos).
    exists (fst (translate2 r_num (c2_view c) h w)), (snd (translate2 r_num (c2_view c) h w)).
    split; [reflexivity|]. split.
    + apply translate2_changed_flag_sound.
    + apply translate2_scale.
  - exists (c2_view c), false. split; [rewrite <- D; f_equal; apply canvas2_eta|].
    split; tauto.
Qed.

Lemma canvas2_zoom_spec : forall (c : canvas2 R) a pos, exists v' b,
  canvas2_zoom r_num c a pos
    = ({| c2_view := v'; c2_size := c2_size c; c2_drag := c2_drag c |}, b)
  /\ (b = false <-> v' = c2_view c)
  /\ (v2_scale v' = v2_scale (c2_view c) -> v' = c2_view c)
  /\ v2_scale v' = v2_scale (c2_view c) * r_exp2 a.
Proof.
  intros c a pos. unfold canvas2_zoom.
  set (w := option_map (canvas2_screen_to_world r_num c) pos).
  exists (fst (view2_zoom r_num (c2_view c) (n_exp2 r_num a) w)),
         (snd (view2_zoom r_num (c2_view c) (n_exp2 r_num a) w)).
  split; [reflexivity|]. split; [apply zoom2_changed_flag_sound|].
  split; [apply zoom2_noop_if_scale_same | apply zoom2_scale].
Qed.

Lemma canvas2_begin_drag_view : forall (c : canvas2 R) p,
  c2_view (canvas2_begin_drag r_num c p) = c2_view c
  /\ c2_size (canvas2_begin_drag r_num c p) = c2_size c.
Proof. intros; unfold canvas2_begin_drag; destruct (c2_drag c); auto. Qed.

Lemma two_stage_flag2 : forall (va vb vc : view2 R) b1 b2,
  (b1 = false <-> vb = va) -> (b2 = false <-> vc = vb) ->
  v2_scale vb = v2_scale va -> (v2_scale vc = v2_scale vb -> vc = vb) ->
  (b1 || b2 = false <-> vc = va).
Proof.
  intros va vb vc b1 b2 H1 H2 Hs Hz. rewrite orb_false_iff. split.
  - intros [A B]. transitivity vb; tauto.
  - intros E. assert (vc = vb) by (apply Hz; rewrite E; auto).
    split; [apply H1; congruence | apply H2; auto].
Qed.

(* Canvas2::interact: the OR of the drag flag and the zoom flag is false
   exactly when the view is unchanged by the whole call. *)
Theorem canvas2_interact_flag_sound : forall (c : canvas2 R) size cursor scroll,
  snd (canvas2_interact r_num c size cursor scroll) = false
  <-> c2_view (fst (canvas2_interact r_num c size cursor scroll)) = c2_view c.
Proof.
  intros c size cursor scroll. unfold canvas2_interact.
  set (c0 := canvas2_resize c size).
  assert (V0 : c2_view c0 = c2_view c) by reflexivity.
  destruct cursor as [[p [|]]|].
  - destruct (canvas2_begin_drag_view c0 p) as [Va _].
    destruct (canvas2_drag_spec (canvas2_begin_drag r_num c0 p) p)
      as (v1 & b1 & E1 & F1 & S1).
    rewrite E1; cbv beta iota zeta.
    match goal with |- context [canvas2_zoom r_num ?cc scroll (Some p)] =>
      destruct (canvas2_zoom_spec cc scroll (Some p)) as (v2 & b2 & E2 & F2 & Z2 & _)
    end.
    rewrite E2; cbv beta iota zeta. simpl in *.
    apply two_stage_flag2 with (vb := v1); try assumption; congruence.
  - destruct (canvas2_zoom_spec (canvas2_end_drag c0) scroll (Some p))
      as (v2 & b2 & E2 & F2 & _).
    rewrite E2; cbv beta iota zeta. simpl in *. exact F2.
  - destruct (canvas2_zoom_spec (canvas2_end_drag c0) scroll None)
      as (v2 & b2 & E2 & F2 & _).
    rewrite E2; cbv beta iota zeta. simpl in *. exact F2.
Qed.

(** * Event level, 2D *)

(* [Some b]: the call returned the flag b; [None]: the call returns unit *)
Definition flag_ok2 (c c' : canvas2 R) (ob : option bool) : Prop :=
  match ob with
  | Some b => b = false <-> c2_view c' = c2_view c
  | None => c2_view c' = c2_view c
  end.

Theorem step2_flag_sound : forall (c : canvas2 R) e,
  flag_ok2 c (fst (step2 r_num c e)) (snd (step2 r_num c e)).
Proof.
  intros c e; destruct e; unfold step2.
  - pose proof (canvas2_interact_flag_sound c size cursor scroll) as H.
    destruct (canvas2_interact r_num c size cursor scroll); exact H.
  - simpl. apply canvas2_begin_drag_view.
  - destruct (canvas2_drag_spec c pos) as (v & b & E & F & _). rewrite E. exact F.
  - reflexivity.
  - destruct (canvas2_zoom_spec c amount pos) as (v & b & E & F & _). rewrite E. exact F.
  - reflexivity.
Qed.

(* the instrumented run: (canvas before, event, canvas after, returned flag) *)
Fixpoint trace2 (evs : list (event2 R)) (c : canvas2 R)
  : list (canvas2 R * event2 R * canvas2 R * option bool) :=
  match evs with
  | [] => []
  | e :: rest =>
      let r := step2 r_num c e in (c, e, fst r, snd r) :: trace2 rest (fst r)
  end.

Definition flags_of {A} (tr : list (A * option bool)) : list bool :=
  flat_map (fun x => match snd x with Some b => [b] | None => [] end) tr.

Lemma run2_cons : forall e rest (c : canvas2 R),
  run2 r_num (e :: rest) c
  = (fst (run2 r_num rest (fst (step2 r_num c e))),
     cons_flag (snd (step2 r_num c e)) (snd (run2 r_num rest (fst (step2 r_num c e))))).
Proof.
  intros. simpl. destruct (step2 r_num c e) as [c' ob]. simpl.
  destruct (run2 r_num rest c'); reflexivity.
Qed.

Lemma run2_app : forall evs1 evs2 (c : canvas2 R),
  fst (run2 r_num (evs1 ++ evs2) c) = fst (run2 r_num evs2 (fst (run2 r_num evs1 c))).
Proof.
  induction evs1; intros; [reflexivity|].
  rewrite <- app_comm_cons, !run2_cons. simpl. apply IHevs1.
Qed.

Lemma last_cons_default : forall A (l : list A) x d d',
  last (x :: l) d = last (x :: l) d'.
Proof.
  induction l as [|y l IH]; intros; [reflexivity|].
  change (last (y :: l) d = last (y :: l) d'). apply IH.
Qed.

(* [trace2] is [run2] with the intermediate canvases kept *)
Theorem run2_trace : forall evs (c : canvas2 R),
  snd (run2 r_num evs c) = flags_of (trace2 evs c)
  /\ fst (run2 r_num evs c) = last (map (fun x => snd (fst x)) (trace2 evs c)) c.
Proof.
  induction evs as [|e rest IH]; intros c; [split; reflexivity|].
  rewrite run2_cons. destruct (IH (fst (step2 r_num c e))) as [A B].
  split.
  - simpl. rewrite A. destruct (snd (step2 r_num c e)); reflexivity.
  - simpl fst. rewrite B. simpl.
    destruct (map _ (trace2 rest _)) eqn:M; [reflexivity|].
    apply last_cons_default.
Qed.

(* (a) the view of every canvas is  p |-> center + scale * p  (w2m2_is_TS, for
       any view whatsoever);
   (b) every entry of the trace is a genuine step, every returned flag is
       [false] exactly when that event left the view unchanged, and the
       events that return no flag (begin_drag, end_drag, resize) never change
       the view. *)
Theorem run2_invariants : forall evs (c : canvas2 R),
  Forall (fun x => let '(c0, e, c1, ob) := x in
            step2 r_num c0 e = (c1, ob)
            /\ flag_ok2 c0 c1 ob
            /\ (forall p, view2_w2m_point r_num (c2_view c1) p
                          = plus2 (v2_center (c2_view c1)) (smul2 (v2_scale (c2_view c1)) p)))
         (trace2 evs c).
Proof.
  induction evs as [|e rest IH]; intros c; simpl; constructor.
  - split; [apply surjective_pairing|].
    split; [apply step2_flag_sound | intros; apply w2m2_is_TS].
  - apply IH.
Qed.

(* Corollary, without the trace: if every flag returned along a run is
   [false], the final view is the initial view. *)
Theorem run2_all_false_view_unchanged : forall evs (c : canvas2 R),
  Forall (fun b => b = false) (snd (run2 r_num evs c)) ->
  c2_view (fst (run2 r_num evs c)) = c2_view c.
Proof.
  induction evs as [|e rest IH]; intros c H; [reflexivity|].
  rewrite run2_cons in *. simpl fst; simpl snd in H.
  pose proof (step2_flag_sound c e) as F. unfold flag_ok2 in F.
  destruct (snd (step2 r_num c e)) as [b|]; simpl in H.
  - inversion H; subst. rewrite IH by assumption. apply F; reflexivity.
  - rewrite IH by assumption. exact F.
Qed.

(** ** The drag invariant, 2D *)

(* the model point under screen position s *)
Definition under2 (c : canvas2 R) (s : Z * Z) : R * R :=
  view2_w2m_point r_num (c2_view c) (canvas2_screen_to_world r_num c s).

(* "a drag is in progress, the handle is a begin_translate handle whose grabbed
   model point is m, and the scale has not changed since the grab" *)
Definition grab_inv2 (c : canvas2 R) (m : R * R) : Prop :=
  exists h, c2_drag c = Some h
         /\ h2_start h = m
         /\ h2_initial_center h = v2_center (h2_mat h)
         /\ v2_scale (c2_view c) = v2_scale (h2_mat h).

(* events that neither release the button nor zoom *)
Definition zoomfree2 (e : event2 R) : Prop :=
  match e with
  | EInteract2 _ (Some (_, true)) scroll => scroll = 0
  | EInteract2 _ _ _ => False
  | EBeginDrag2 _ | EDrag2 _ | EResize2 _ => True
  | EEndDrag2 => False
  | EZoom2 amount _ => amount = 0
  end.

Lemma begin_drag2_establishes : forall (c : canvas2 R) s0,
  c2_drag c = None -> grab_inv2 (canvas2_begin_drag r_num c s0) (under2 c s0).
Proof.
  intros c s0 H. unfold canvas2_begin_drag, grab_inv2. rewrite H. simpl.
  eexists; split; [reflexivity|]. simpl. auto.
Qed.

Lemma begin_drag2_noop : forall (c : canvas2 R) m s,
  grab_inv2 c m -> canvas2_begin_drag r_num c s = c.
Proof.
  intros c m s (h & D & _). unfold canvas2_begin_drag. rewrite D. reflexivity.
Qed.

Lemma resize2_grab : forall (c : canvas2 R) m size,
  grab_inv2 c m -> grab_inv2 (canvas2_resize c size) m.
Proof. intros c m size (h & D & A); exists h; simpl; auto. Qed.

Lemma drag2_grab : forall (c : canvas2 R) m s,
  grab_inv2 c m ->
  under2 (fst (canvas2_drag r_num c s)) s = m
  /\ grab_inv2 (fst (canvas2_drag r_num c s)) m.
Proof.
  intros c m s (h & D & A & B & C).
  unfold canvas2_drag, under2. rewrite D.
  unfold canvas2_screen_to_world at 2. simpl c2_size.
  fold (canvas2_screen_to_world r_num c s).
  set (w := canvas2_screen_to_world r_num c s). clearbody w.
  split.
  - destruct c as [v sz d]; simpl in *. destr_all; unmodel. subst.
    injection A; injection B; intros; subst. split_pairs; ring.
  - exists h. unfold translate2. simpl. auto.
Qed.

Lemma zoom2_grab : forall (c : canvas2 R) m pos,
  grab_inv2 c m -> grab_inv2 (fst (canvas2_zoom r_num c 0 pos)) m.
Proof.
  intros c m pos (h & D & A & B & C).
  destruct (canvas2_zoom_spec c 0 pos) as (v & b & E & _ & _ & S). rewrite E.
  exists h; simpl. rewrite S, r_exp2_0, Rmult_1_r. auto.
Qed.

Lemma step2_preserves_grab : forall (c : canvas2 R) m e,
  grab_inv2 c m -> zoomfree2 e -> grab_inv2 (fst (step2 r_num c e)) m.
Proof.
  intros c m e G Z. destruct e; simpl in Z; try contradiction.
  - destruct cursor as [[p [|]]|]; try contradiction. subst scroll.
    unfold step2, canvas2_interact.
    pose proof (resize2_grab _ _ size G) as G0.
    rewrite (begin_drag2_noop _ _ p G0).
    destruct (drag2_grab _ _ p G0) as [_ G1].
    destruct (canvas2_drag r_num (canvas2_resize c size) p) as [c1 b1]; simpl in G1.
    pose proof (zoom2_grab _ _ (Some p) G1) as G2.
    destruct (canvas2_zoom r_num c1 0 (Some p)); exact G2.
  - simpl. rewrite (begin_drag2_noop _ _ pos G). exact G.
  - unfold step2. destruct (drag2_grab _ _ pos G) as [_ G1].
    destruct (canvas2_drag r_num c pos); exact G1.
  - subst amount. unfold step2. pose proof (zoom2_grab _ _ pos G) as G1.
    destruct (canvas2_zoom r_num c 0 pos); exact G1.
  - simpl. apply resize2_grab; exact G.
Qed.

Lemma run2_preserves_grab : forall evs (c : canvas2 R) m,
  grab_inv2 c m -> Forall zoomfree2 evs -> grab_inv2 (fst (run2 r_num evs c)) m.
Proof.
  induction evs as [|e rest IH]; intros c m G F; [exact G|].
  inversion F; subst. rewrite run2_cons; simpl fst.
  apply IH; [apply step2_preserves_grab|]; assumption.
Qed.

(* Between a begin_drag at s0 (no drag previously in progress) and the
   end_drag, as long as no event zooms (scroll / amount = 0) or releases the
   button, after every [drag s] -- and after every immediate-mode
   [interact size (Some (s, true)) 0] -- the model point that was under s0 at
   grab time is under s.  Resizes in between are allowed ("under" is taken with
   respect to the current size). *)
Theorem drag2_tracks_grab : forall (c : canvas2 R) s0 evs,
  c2_drag c = None ->
  Forall zoomfree2 evs ->
  let c1 := fst (run2 r_num evs (canvas2_begin_drag r_num c s0)) in
  (forall s, under2 (fst (step2 r_num c1 (EDrag2 s))) s = under2 c s0)
  /\ (forall size s,
        under2 (fst (step2 r_num c1 (EInteract2 size (Some (s, true)) 0))) s
        = under2 c s0).
Proof.
  intros c s0 evs H F c1.
  assert (G : grab_inv2 c1 (under2 c s0)).
  { apply run2_preserves_grab; [apply begin_drag2_establishes|]; assumption. }
  clearbody c1. split.
  - intros s. unfold step2. destruct (drag2_grab _ _ s G) as [U _].
    destruct (canvas2_drag r_num c1 s); exact U.
  - intros size s. unfold step2, canvas2_interact.
    pose proof (resize2_grab _ _ size G) as G0.
    rewrite (begin_drag2_noop _ _ s G0).
    destruct (drag2_grab _ _ s G0) as [U G1].
    destruct (canvas2_drag r_num (canvas2_resize c1 size) s) as [c2 b2]; simpl in U, G1.
    destruct (canvas2_zoom_spec c2 0 (Some s)) as (v & b & E & _ & Z & S).
    rewrite E. cbv beta iota zeta. simpl fst.
    rewrite r_exp2_0, Rmult_1_r in S. rewrite (Z S). 
    rewrite <- (canvas2_eta c2). exact U.
Qed.

(* The "no zoom" hypothesis is necessary: a zoom during a drag makes the
   grabbed point slip at the next drag, even if the cursor does not move.
   (The handle keeps the world-to-model matrix of grab time; zoom changes the
   scale of the view but [translate] only rewrites the centre.)
   Size 2x2, grab at (2,0) [world (1,0), model (1,0)], zoom by 2^(100/100),
   drag to the same screen position: the point under the cursor is (2,0). *)
Theorem drag2_after_zoom_refuted : exists (c : canvas2 R) s0 a,
  c2_drag c = None /\
  let c1 := fst (run2 r_num [EZoom2 a None] (canvas2_begin_drag r_num c s0)) in
  under2 (fst (step2 r_num c1 (EDrag2 s0))) s0 <> under2 c s0.
Proof.
  exists (canvas2_new r_num (2, 2)%Z), (2, 0)%Z, 100. split; [reflexivity|].
  cbv [run2 step2 canvas2_zoom canvas2_begin_drag canvas2_drag canvas2_new under2
       canvas2_screen_to_world screen_to_world2 option_map cons_flag
       c2_view c2_size c2_drag Z.min Z.compare Pos.compare Pos.compare_cont].
  unmodel. rewrite r_exp2_100. intros H. injection H; intros _ Hx. 
  replace (2 / 2) with 1 in Hx by field. lra.
Qed.

(** * Canvas3: call-level specifications *)

Definition range3 (v : view3 R) : Prop :=
  0 <= v3_pitch v <= PI /\ - (2 * PI) < v3_yaw v < 2 * PI.

Lemma range3_default : range3 (view3_default r_num).
Proof. pose proof PI_RGT_0. unfold range3; unmodel; lra. Qed.

Lemma canvas3_eta : forall c : canvas3 R,
  c = {| c3_view := c3_view c; c3_size := c3_size c; c3_drag := c3_drag c |}.
Proof. destruct c; reflexivity. Qed.

Lemma translate3_keeps : forall (v : view3 R) h p,
  let v' := fst (translate3 r_num v h p) in
  v3_scale v' = v3_scale v /\ v3_yaw v' = v3_yaw v /\ v3_pitch v' = v3_pitch v.
Proof. intros; subst v'; destr_all; unmodel; auto. Qed.

Lemma zoom3_noop_if_scale_same : forall (v : view3 R) a pos,
  v3_scale (fst (view3_zoom r_num v a pos)) = v3_scale v ->
  fst (view3_zoom r_num v a pos) = v.
Proof.
  intros v a pos; destruct pos; destr_all; unmodel; intros H; rewrite H.
  - f_equal; split_pairs; ring.
  - reflexivity.
Qed.

Lemma canvas3_drag_spec : forall (c : canvas3 R) pos, exists v' b,
  canvas3_drag r_num c pos
    = ({| c3_view := v'; c3_size := c3_size c; c3_drag := c3_drag c |}, b)
  /\ (b = false <-> v' = c3_view c)
  /\ v3_scale v' = v3_scale (c3_view c)
  /\ (range3 (c3_view c) -> range3 v').
Proof.
  intros c pos. unfold canvas3_drag.
  set (w := canvas3_screen_to_world r_num c pos). clearbody w.
  destruct (c3_drag c) as [[h|h]|] eqn:D.
  - exists (fst (translate3 r_num (c3_view c) h w)), (snd (translate3 r_num (c3_view c) h w)).
    split; [reflexivity|]. split; [apply translate3_changed_flag_sound|].
    destruct (translate3_keeps (c3_view c) h w) as (S & Y & P).
    split; [exact S|]. unfold range3. rewrite Y, P. tauto.
  - exists (fst (rotate3 r_num (c3_view c) h w)), (snd (rotate3 r_num (c3_view c) h w)).
    split; [destruct w as [[wx wy] wz]; reflexivity|]. split; [apply rotate3_changed_flag_sound|].
    split; [apply rotate3_keeps_center_scale|]. intros _. apply rotate3_ranges.
  - exists (c3_view c), false. split; [rewrite <- D; f_equal; apply canvas3_eta|].
    split; [tauto|]. split; [reflexivity | tauto].
Qed.

Lemma canvas3_zoom_spec : forall (c : canvas3 R) a pos, exists v' b,
  canvas3_zoom r_num c a pos
    = ({| c3_view := v'; c3_size := c3_size c; c3_drag := c3_drag c |}, b)
  /\ (b = false <-> v' = c3_view c)
  /\ (v3_scale v' = v3_scale (c3_view c) -> v' = c3_view c)
  /\ v3_scale v' = v3_scale (c3_view c) * r_exp2 a
  /\ v3_yaw v' = v3_yaw (c3_view c) /\ v3_pitch v' = v3_pitch (c3_view c).
Proof.
  intros c a pos. unfold canvas3_zoom.
  set (w := option_map (canvas3_screen_to_world r_num c) pos).
  exists (fst (view3_zoom r_num (c3_view c) (n_exp2 r_num a) w)),
         (snd (view3_zoom r_num (c3_view c) (n_exp2 r_num a) w)).
  split; [reflexivity|]. split; [apply zoom3_changed_flag_sound|].
  split; [apply zoom3_noop_if_scale_same | apply zoom3_scale_yaw_pitch].
Qed.

Lemma canvas3_begin_drag_view : forall (c : canvas3 R) p m,
  c3_view (canvas3_begin_drag r_num c p m) = c3_view c
  /\ c3_size (canvas3_begin_drag r_num c p m) = c3_size c.
Proof. intros; unfold canvas3_begin_drag; destruct (c3_drag c); auto. Qed.

Lemma two_stage_flag3 : forall (va vb vc : view3 R) b1 b2,
  (b1 = false <-> vb = va) -> (b2 = false <-> vc = vb) ->
  v3_scale vb = v3_scale va -> (v3_scale vc = v3_scale vb -> vc = vb) ->
  (b1 || b2 = false <-> vc = va).
Proof.
  intros va vb vc b1 b2 H1 H2 Hs Hz. rewrite orb_false_iff. split.
  - intros [A B]. transitivity vb; tauto.
  - intros E. assert (vc = vb) by (apply Hz; rewrite E; auto).
    split; [apply H1; congruence | apply H2; auto].
Qed.

(* Canvas3::interact: flag false iff view unchanged; ranges preserved *)
Theorem canvas3_interact_flag_sound : forall (c : canvas3 R) size cursor scroll,
  (snd (canvas3_interact r_num c size cursor scroll) = false
   <-> c3_view (fst (canvas3_interact r_num c size cursor scroll)) = c3_view c)
  /\ (range3 (c3_view c)
      -> range3 (c3_view (fst (canvas3_interact r_num c size cursor scroll)))).
Proof.
  intros c size cursor scroll. unfold canvas3_interact.
  set (c0 := canvas3_set_size c size).
  destruct cursor as [[p [m|]]|].
  - destruct (canvas3_begin_drag_view c0 p m) as [Va _].
    destruct (canvas3_drag_spec (canvas3_begin_drag r_num c0 p m) p)
      as (v1 & b1 & E1 & F1 & S1 & R1).
    rewrite E1; cbv beta iota zeta.
    match goal with |- context [canvas3_zoom r_num ?cc scroll (Some p)] =>
      destruct (canvas3_zoom_spec cc scroll (Some p))
        as (v2 & b2 & E2 & F2 & Z2 & _ & Y2 & P2)
    end.
    rewrite E2; cbv beta iota zeta. simpl in *. split.
    + apply two_stage_flag3 with (vb := v1); try assumption; congruence.
    + intros Rg. rewrite Va in R1. specialize (R1 Rg).
      unfold range3 in *. rewrite Y2, P2. exact R1.
  - destruct (canvas3_zoom_spec (canvas3_end_drag c0) scroll (Some p))
      as (v2 & b2 & E2 & F2 & _ & _ & Y2 & P2).
    rewrite E2; cbv beta iota zeta. simpl in *. split; [exact F2|].
    unfold range3. rewrite Y2, P2. tauto.
  - destruct (canvas3_zoom_spec (canvas3_end_drag c0) scroll None)
      as (v2 & b2 & E2 & F2 & _ & _ & Y2 & P2).
    rewrite E2; cbv beta iota zeta. simpl in *. split; [exact F2|].
    unfold range3. rewrite Y2, P2. tauto.
Qed.

(** * Event level, 3D *)

Definition flag_ok3 (c c' : canvas3 R) (ob : option bool) : Prop :=
  match ob with
  | Some b => b = false <-> c3_view c' = c3_view c
  | None => c3_view c' = c3_view c
  end.

Theorem step3_flag_sound : forall (c : canvas3 R) e,
  flag_ok3 c (fst (step3 r_num c e)) (snd (step3 r_num c e)).
Proof.
  intros c e; destruct e; unfold step3.
  - destruct (canvas3_interact_flag_sound c size cursor scroll) as [H _].
    destruct (canvas3_interact r_num c size cursor scroll); exact H.
  - simpl. apply canvas3_begin_drag_view.
  - destruct (canvas3_drag_spec c pos) as (v & b & E & F & _). rewrite E. exact F.
  - reflexivity.
  - destruct (canvas3_zoom_spec c amount pos) as (v & b & E & F & _). rewrite E. exact F.
Qed.

Theorem step3_ranges : forall (c : canvas3 R) e,
  range3 (c3_view c) -> range3 (c3_view (fst (step3 r_num c e))).
Proof.
  intros c e Rg; destruct e; unfold step3.
  - destruct (canvas3_interact_flag_sound c size cursor scroll) as [_ H].
    destruct (canvas3_interact r_num c size cursor scroll); apply H; exact Rg.
  - simpl. destruct (canvas3_begin_drag_view c pos m) as [-> _]. exact Rg.
  - destruct (canvas3_drag_spec c pos) as (v & b & E & _ & _ & H). rewrite E. apply H; exact Rg.
  - exact Rg.
  - destruct (canvas3_zoom_spec c amount pos) as (v & b & E & _ & _ & _ & Y & P).
    rewrite E. unfold range3 in *. simpl. rewrite Y, P. exact Rg.
Qed.

Fixpoint trace3 (evs : list (event3 R)) (c : canvas3 R)
  : list (canvas3 R * event3 R * canvas3 R * option bool) :=
  match evs with
  | [] => []
  | e :: rest =>
      let r := step3 r_num c e in (c, e, fst r, snd r) :: trace3 rest (fst r)
  end.

Lemma run3_cons : forall e rest (c : canvas3 R),
  run3 r_num (e :: rest) c
  = (fst (run3 r_num rest (fst (step3 r_num c e))),
     cons_flag (snd (step3 r_num c e)) (snd (run3 r_num rest (fst (step3 r_num c e))))).
Proof.
  intros. simpl. destruct (step3 r_num c e) as [c' ob]. simpl.
  destruct (run3 r_num rest c'); reflexivity.
Qed.

Theorem run3_trace : forall evs (c : canvas3 R),
  snd (run3 r_num evs c) = flags_of (trace3 evs c)
  /\ fst (run3 r_num evs c) = last (map (fun x => snd (fst x)) (trace3 evs c)) c.
Proof.
  induction evs as [|e rest IH]; intros c; [split; reflexivity|].
  rewrite run3_cons. destruct (IH (fst (step3 r_num c e))) as [A B].
  split.
  - simpl. rewrite A. destruct (snd (step3 r_num c e)); reflexivity.
  - simpl fst. rewrite B. simpl.
    destruct (map _ (trace3 rest _)) eqn:M; [reflexivity|].
    apply last_cons_default.
Qed.

Theorem run3_invariants : forall evs (c : canvas3 R),
  Forall (fun x => let '(c0, e, c1, ob) := x in
            step3 r_num c0 e = (c1, ob)
            /\ flag_ok3 c0 c1 ob
            /\ (range3 (c3_view c0) -> range3 (c3_view c1))
            /\ (forall p, view3_w2m_point r_num (c3_view c1) p
                 = plus3 (v3_center (c3_view c1))
                     (Rz (v3_yaw (c3_view c1))
                        (Rx (v3_pitch (c3_view c1)) (smul3 (v3_scale (c3_view c1)) p)))))
         (trace3 evs c).
Proof.
  induction evs as [|e rest IH]; intros c; simpl; constructor.
  - split; [apply surjective_pairing|].
    split; [apply step3_flag_sound|].
    split; [apply step3_ranges | intros; apply w2m_is_TRS].
  - apply IH.
Qed.

Theorem run3_all_false_view_unchanged : forall evs (c : canvas3 R),
  Forall (fun b => b = false) (snd (run3 r_num evs c)) ->
  c3_view (fst (run3 r_num evs c)) = c3_view c.
Proof.
  induction evs as [|e rest IH]; intros c H; [reflexivity|].
  rewrite run3_cons in *. simpl fst; simpl snd in H.
  pose proof (step3_flag_sound c e) as F. unfold flag_ok3 in F.
  destruct (snd (step3 r_num c e)) as [b|]; simpl in H.
  - inversion H; subst. rewrite IH by assumption. apply F; reflexivity.
  - rewrite IH by assumption. exact F.
Qed.

(* pitch in [0,PI] and yaw in (-2PI, 2PI) along every run that starts in range
   (in particular from [canvas3_new]) *)
Theorem run3_ranges : forall evs (c : canvas3 R),
  range3 (c3_view c) -> range3 (c3_view (fst (run3 r_num evs c))).
Proof.
  induction evs as [|e rest IH]; intros c Rg; [exact Rg|].
  rewrite run3_cons; simpl fst. apply IH, step3_ranges, Rg.
Qed.

(** ** The drag invariant, 3D (pan) *)

Definition under3 (c : canvas3 R) (s : Z * Z) : R * R * R :=
  view3_w2m_point r_num (c3_view c) (canvas3_screen_to_world r_num c s).

Definition grab_inv3 (c : canvas3 R) (m : R * R * R) : Prop :=
  exists h, c3_drag c = Some (DPan h)
         /\ h3_start h = m
         /\ h3_initial_center h = v3_center (h3_mat h)
         /\ v3_scale (c3_view c) = v3_scale (h3_mat h)
         /\ v3_yaw (c3_view c) = v3_yaw (h3_mat h)
         /\ v3_pitch (c3_view c) = v3_pitch (h3_mat h).

(* events that neither release the button nor zoom; the drag mode passed to
   interact / begin_drag is irrelevant once a drag is in progress *)
Definition zoomfree3 (e : event3 R) : Prop :=
  match e with
  | EInteract3 _ (Some (_, Some _)) scroll => scroll = 0
  | EInteract3 _ _ _ => False
  | EBeginDrag3 _ _ | EDrag3 _ => True
  | EEndDrag3 => False
  | EZoom3 amount _ => amount = 0
  end.

Lemma begin_drag3_establishes : forall (c : canvas3 R) s0,
  c3_drag c = None -> grab_inv3 (canvas3_begin_drag r_num c s0 Pan) (under3 c s0).
Proof.
  intros c s0 H. unfold canvas3_begin_drag, grab_inv3. rewrite H. simpl.
  eexists; split; [reflexivity|]. simpl. auto 6.
Qed.

Lemma begin_drag3_noop : forall (c : canvas3 R) m s md,
  grab_inv3 c m -> canvas3_begin_drag r_num c s md = c.
Proof.
  intros c m s md (h & D & _). unfold canvas3_begin_drag. rewrite D. reflexivity.
Qed.

Lemma set_size3_grab : forall (c : canvas3 R) m size,
  grab_inv3 c m -> grab_inv3 (canvas3_set_size c size) m.
Proof. intros c m size (h & D & A); exists h; simpl; auto. Qed.

Lemma drag3_grab : forall (c : canvas3 R) m s,
  grab_inv3 c m ->
  under3 (fst (canvas3_drag r_num c s)) s = m
  /\ grab_inv3 (fst (canvas3_drag r_num c s)) m.
Proof.
  intros c m s (h & D & A & B & C & Y & P).
  unfold canvas3_drag, under3. rewrite D.
  unfold canvas3_screen_to_world at 2. simpl c3_size.
  fold (canvas3_screen_to_world r_num c s).
  set (w := canvas3_screen_to_world r_num c s). clearbody w.
  split.
  - destruct c as [v sz d]; simpl in *. destr_all; unmodel.
    injection A; injection B; intros; subst. split_pairs; ring.
  - exists h. unfold translate3. simpl. auto 6.
Qed.

Lemma zoom3_grab : forall (c : canvas3 R) m pos,
  grab_inv3 c m -> grab_inv3 (fst (canvas3_zoom r_num c 0 pos)) m.
Proof.
  intros c m pos (h & D & A & B & C & Y & P).
  destruct (canvas3_zoom_spec c 0 pos) as (v & b & E & _ & _ & S & Y' & P'). rewrite E.
  exists h; simpl. rewrite S, Y', P', r_exp2_0, Rmult_1_r. auto 6.
Qed.

Lemma step3_preserves_grab : forall (c : canvas3 R) m e,
  grab_inv3 c m -> zoomfree3 e -> grab_inv3 (fst (step3 r_num c e)) m.
Proof.
  intros c m e G Z. destruct e; simpl in Z; try contradiction.
  - destruct cursor as [[p [md|]]|]; try contradiction. subst scroll.
    unfold step3, canvas3_interact.
    pose proof (set_size3_grab _ _ size G) as G0.
    rewrite (begin_drag3_noop _ _ p md G0).
    destruct (drag3_grab _ _ p G0) as [_ G1].
    destruct (canvas3_drag r_num (canvas3_set_size c size) p) as [c1 b1]; simpl in G1.
    pose proof (zoom3_grab _ _ (Some p) G1) as G2.
    destruct (canvas3_zoom r_num c1 0 (Some p)); exact G2.
  - simpl. rewrite (begin_drag3_noop _ _ pos m0 G). exact G.
  - unfold step3. destruct (drag3_grab _ _ pos G) as [_ G1].
    destruct (canvas3_drag r_num c pos); exact G1.
  - subst amount. unfold step3. pose proof (zoom3_grab _ _ pos G) as G1.
    destruct (canvas3_zoom r_num c 0 pos); exact G1.
Qed.

Lemma run3_preserves_grab : forall evs (c : canvas3 R) m,
  grab_inv3 c m -> Forall zoomfree3 evs -> grab_inv3 (fst (run3 r_num evs c)) m.
Proof.
  induction evs as [|e rest IH]; intros c m G F; [exact G|].
  inversion F; subst. rewrite run3_cons; simpl fst.
  apply IH; [apply step3_preserves_grab|]; assumption.
Qed.

(* Same statement as [drag2_tracks_grab] for a Pan drag in 3D: scale, yaw and
   pitch cannot change during a pan drag without a zoom (rotation needs a
   Rotate handle, and begin_drag is a no-op while a drag is in progress). *)
Theorem drag3_tracks_grab : forall (c : canvas3 R) s0 evs,
  c3_drag c = None ->
  Forall zoomfree3 evs ->
  let c1 := fst (run3 r_num evs (canvas3_begin_drag r_num c s0 Pan)) in
  (forall s, under3 (fst (step3 r_num c1 (EDrag3 s))) s = under3 c s0)
  /\ (forall size s md,
        under3 (fst (step3 r_num c1 (EInteract3 size (Some (s, Some md)) 0))) s
        = under3 c s0).
Proof.
  intros c s0 evs H F c1.
  assert (G : grab_inv3 c1 (under3 c s0)).
  { apply run3_preserves_grab; [apply begin_drag3_establishes|]; assumption. }
  clearbody c1. split.
  - intros s. unfold step3. destruct (drag3_grab _ _ s G) as [U _].
    destruct (canvas3_drag r_num c1 s); exact U.
  - intros size s md. unfold step3, canvas3_interact.
    pose proof (set_size3_grab _ _ size G) as G0.
    rewrite (begin_drag3_noop _ _ s md G0).
    destruct (drag3_grab _ _ s G0) as [U G1].
    destruct (canvas3_drag r_num (canvas3_set_size c1 size) s) as [c2 b2]; simpl in U, G1.
    destruct (canvas3_zoom_spec c2 0 (Some s)) as (v & b & E & _ & Z & S & _).
    rewrite E. cbv beta iota zeta. simpl fst.
    rewrite r_exp2_0, Rmult_1_r in S. rewrite (Z S).
    rewrite <- (canvas3_eta c2). exact U.
Qed.

(** ** Zoom at canvas level keeps the model point under the cursor *)

Theorem canvas2_zoom_fixes_cursor : forall (c : canvas2 R) amount s,
  under2 (fst (canvas2_zoom r_num c amount (Some s))) s = under2 c s.
Proof.
  intros. unfold canvas2_zoom, under2. simpl option_map.
  unfold canvas2_screen_to_world at 1. 
  rewrite (surjective_pairing (view2_zoom _ _ _ _)). simpl c2_size. simpl c2_view.
  fold (canvas2_screen_to_world r_num c s). apply zoom2_fixes_cursor.
Qed.

Theorem canvas3_zoom_fixes_cursor : forall (c : canvas3 R) amount s,
  under3 (fst (canvas3_zoom r_num c amount (Some s))) s = under3 c s.
Proof.
  intros. unfold canvas3_zoom, under3. simpl option_map.
  unfold canvas3_screen_to_world at 1.
  rewrite (surjective_pairing (view3_zoom _ _ _ _)). simpl c3_size. simpl c3_view.
  fold (canvas3_screen_to_world r_num c s). apply zoom3_fixes_cursor.
Qed.

(** * Assumptions *)

Print Assumptions zoom2_fixes_cursor.
Print Assumptions zoom3_fixes_cursor.
Print Assumptions pan2_tracks_grab.
Print Assumptions pan3_tracks_grab.
Print Assumptions rotate3_keeps_center_scale.
Print Assumptions rotate3_ranges.
Print Assumptions w2m_is_TRS.
Print Assumptions zoom2_changed_flag_sound.
Print Assumptions zoom3_changed_flag_sound.
Print Assumptions translate2_changed_flag_sound.
Print Assumptions translate3_changed_flag_sound.
Print Assumptions rotate3_changed_flag_sound.
Print Assumptions zoom_old_flag_refuted.
Print Assumptions canvas2_interact_flag_sound.
Print Assumptions canvas3_interact_flag_sound.
Print Assumptions run2_invariants.
Print Assumptions run3_invariants.
Print Assumptions run2_all_false_view_unchanged.
Print Assumptions run3_ranges.
Print Assumptions drag2_tracks_grab.
Print Assumptions drag3_tracks_grab.
Print Assumptions drag2_after_zoom_refuted.
