(* FlattenSem.v — the tape produced by [flatten] computes, output by output,
   the reference value [ctx_eval] of each root. *)
From Coq Require Import List Bool Arith Lia.
From FV Require Import Ops Tape Alloc Flatten CtxEval FlattenLib FlattenPass1 FlattenPass2 FlattenRun FlattenWf.
Import ListNotations.

Lemma list_upd_firstn {A} (v : A) : forall i (l t : list A), i < length l ->
  list_upd (firstn (S i) l ++ t) i v = firstn i l ++ v :: t.
Proof.
  induction i; destruct l; simpl; intros t H; try lia; auto.
  f_equal. apply (IHi l t). lia.
Qed.

Section Sem.
Context {V I : Type}.
Variable sem : Sem V I.
Variable env : nat -> V.
Variable arena : list (cnode I).
Variable roots : list nat.
Notation op := (Tape.op I).
Hypothesis OK : arena_ok arena roots.
Variable s1 : @p1 I.
Variable vis : list nat.
Hypothesis F1 : Inv1 arena roots s1 [] vis.
Variable order : list nat.
Hypothesis O_nd : NoDup order.
Hypothesis O_vis : forall k, In k order <-> In k vis.
Hypothesis O_ok : ord_ok arena roots order.

Notation mp := (p1_map s1).
Notation vars := (p1_vars s1).
Notation s0 := (p1_slots s1).
Notation val := (ctx_eval sem arena env).
Notation inputs := (map env vars).

(* the immediate forms mean the register form applied to the converted immediate *)
Hypothesis H_ri : forall b x c, s_ri sem b x c = s_rr sem b x (s_imm sem c).
Hypothesis H_ir : forall b c x, s_ir sem b c x = s_rr sem b (s_imm sem c) x.
(* SsaTape::new turns Binary(op, const, reg) into op-RegImm(reg, const) for
   Add / Mul / Min / Max: needed exactly at those nodes, on the value of the node's
   right child *)
Definition comm_at_nodes : Prop :=
  forall node b l r c,
    nth_error arena node = Some (NBinary b l r) ->
    nth_error arena l = Some (NConst c) ->
    flatten_imm_lhs b = Some RegImm ->
    s_rr sem b (val r) (s_imm sem c) = s_rr sem b (s_imm sem c) (val r).
Hypothesis H_comm : comm_at_nodes.

Lemma WFa : arena_wf arena. Proof. apply OK. Qed.

Lemma val_node k o : nth_error arena k = Some o ->
  val k = match o with
          | NInput v => env v
          | NConst c => s_imm sem c
          | NUnary u a => s_un sem u (val a)
          | NBinary b l r => s_rr sem b (val l) (val r)
          end.
Proof.
  intros E. rewrite (ctx_eval_node sem env arena k o WFa E). destruct o; reflexivity.
Qed.

Lemma input_val v k : var_index vars v = Some k -> nth k inputs (s_dflt sem) = env v.
Proof.
  intros H. apply var_index_some in H.
  rewrite (nth_indep _ (s_dflt sem) (env v)).
  - rewrite map_nth. f_equal. apply nth_error_nth; auto.
  - rewrite map_length. apply nth_error_Some. congruence.
Qed.

Lemma imm_const k c : In k vis -> nth k mp None = Some (SImm c) -> nth_error arena k = Some (NConst c).
Proof.
  intros Hk E.
  destruct (node_op_cases arena roots OK s1 vis F1 k Hk)
    as [(c' & Eo & E' & _)|(o & i & e & _ & E' & _)]; rewrite E in E'; inversion E'; subst; auto.
Qed.

Lemma step_shape k o i e : emit_shape s1 i o e -> nth_error arena k = Some o -> In k vis ->
  forall s,
    (forall c a, In c (children o) -> nth c mp None = Some (SReg a) -> m_slots s a = val c) ->
    m_slots (step sem inputs s e) = upd (m_slots s) i (val k) /\
    m_out (step sem inputs s e) = m_out s.
Proof.
  intros Sh Eo Hk s Hs.
  assert (Hcv : forall c, In c (children o) -> In c vis).
  { intros c Hc. apply (vis_closed arena roots s1 vis F1 k); auto. unfold childs. rewrite Eo; auto. }
  rewrite (val_node k o Eo).
  destruct Sh as [v j Hj|u a ra Ha|b l r rl rr Hl Hr|b l r rl c Hl Hr|b l r c rr Hl Hr Hf|b l r c rr Hl Hr Hf];
    simpl.
  - rewrite (input_val v j Hj). auto.
  - rewrite (Hs a ra); simpl; auto.
  - rewrite (Hs l rl), (Hs r rr); simpl; auto. destruct (bop_has_choice b); auto.
  - rewrite (Hs l rl); simpl; auto.
    assert (Er : nth_error arena r = Some (NConst c)) by (apply imm_const; [apply Hcv; simpl; auto | auto]).
    rewrite (val_node r _ Er), H_ri. destruct (bop_has_choice b); auto.
  - rewrite (Hs r rr); simpl; auto.
    assert (El : nth_error arena l = Some (NConst c)) by (apply imm_const; [apply Hcv; simpl; auto | auto]).
    rewrite (val_node l _ El), H_ri, (H_comm k b l r c Eo El Hf).
    destruct (bop_has_choice b); auto.
  - rewrite (Hs r rr); simpl; auto.
    assert (El : nth_error arena l = Some (NConst c)) by (apply imm_const; [apply Hcv; simpl; auto | auto]).
    rewrite (val_node l _ El), H_ir. auto.
Qed.

Lemma run_fwd_app ops1 ops2 s :
  run_fwd sem inputs (ops1 ++ ops2) s = run_fwd sem inputs ops2 (run_fwd sem inputs ops1 s).
Proof. unfold run_fwd. apply fold_left_app. Qed.

Lemma sem_nodes s_init : forall l1 l2, order = l1 ++ l2 ->
  let s := run_fwd sem inputs (ops_of arena s1 l1) s_init in
  (forall k r, In k l1 -> nth k mp None = Some (SReg r) -> m_slots s r = val k) /\
  m_out s = m_out s_init.
Proof.
  induction l1 as [|k l1 IH] using rev_ind; intros l2 Ho.
  - simpl. split; auto. intros k r [].
  - rewrite <- app_assoc in Ho. simpl in Ho.
    destruct (IH (k :: l2) Ho) as [IHs IHo].
    unfold FlattenPass2.ops_of. rewrite flat_map_app. simpl. rewrite app_nil_r.
    fold (ops_of arena s1 l1). rewrite run_fwd_app.
    set (s' := run_fwd sem inputs (ops_of arena s1 l1) s_init) in *.
    assert (Hkv : In k vis).
    { apply O_vis. rewrite Ho. apply in_or_app; simpl; auto. }
    assert (Hkn : ~ In k l1).
    { rewrite Ho in O_nd. apply NoDup_remove_2 in O_nd. intros A; apply O_nd. apply in_or_app; auto. }
    pose proof O_ok as Hok. rewrite Ho in Hok.
    apply (ord_ok_split arena roots) in Hok. destruct Hok as [_ Hkids].
    destruct (node_op_cases arena roots OK s1 vis F1 k Hkv)
      as [(c & Eo & Em & ->)|(o & i & e & Eo & Em & Li & Sh & ->)].
    + simpl. split; auto. intros k' r Hk' Er.
      apply in_app_or in Hk'. destruct Hk' as [Hk'|[<-|[]]]; auto. congruence.
    + simpl.
      destruct (step_shape k o i e Sh Eo Hkv s') as [Hsl Hout].
      { intros c a Hc Ea. apply IHs; auto.
        assert (Hck : In c (childs arena k)) by (unfold childs; rewrite Eo; auto).
        assert (Hcv : In c vis) by (apply (vis_closed arena roots s1 vis F1 k); auto).
        apply O_vis in Hcv. rewrite Ho in Hcv. apply in_app_or in Hcv.
        destruct Hcv as [A|[A|A]]; auto.
        - apply (childs_lt arena WFa) in Hck. lia.
        - exfalso. apply (Hkids c); auto. }
      split; [|congruence].
      intros k' r Hk' Er. rewrite Hsl. unfold upd.
      apply in_app_or in Hk'. destruct Hk' as [Hk'|[<-|[]]].
      * assert (r <> i).
        { intros ->. assert (k' = k); [|subst; contradiction].
          eapply (reg_inj arena roots s1 vis F1); eauto.
          apply O_vis. rewrite Ho. apply in_or_app; auto. }
        destruct (Nat.eqb_spec r i); try contradiction. auto.
      * assert (r = i) by congruence. subst. rewrite Nat.eqb_refl. auto.
Qed.

Lemma sem_prologue : forall rts i slots s,
  (forall r, In r rts -> In r vis) ->
  (forall k r, In k vis -> nth k mp None = Some (SReg r) -> m_slots s r = val k) ->
  length (m_out s) = i + length rts -> s0 <= slots ->
  let s' := run_fwd sem inputs (rev (pro_fwd mp rts i slots)) s in
  m_out s' = firstn i (m_out s) ++ map val rts /\
  (forall k r, In k vis -> nth k mp None = Some (SReg r) -> m_slots s' r = val k).
Proof.
  induction rts as [|r rest IH]; intros i slots s Hv Hs Hl Hsl.
  - simpl in *. rewrite app_nil_r. rewrite firstn_all2 by lia. auto.
  - assert (Hrv : In r vis) by (apply Hv; simpl; auto).
    assert (Hv' : forall r', In r' rest -> In r' vis) by (intros; apply Hv; simpl; auto).
    simpl pro_fwd. simpl in Hl.
    destruct (root_slot arena roots OK s1 vis F1 r Hrv) as [(out & E & Lo & _)|(c & E & _)]; rewrite E.
    + simpl rev. intros s'. unfold s'. rewrite run_fwd_app.
      destruct (IH (S i) slots s Hv' Hs) as [IHo IHs]; auto; try lia.
      set (s2 := run_fwd sem inputs (rev (pro_fwd mp rest (S i) slots)) s) in *.
      simpl. split; auto.
      rewrite IHo, (IHs r out Hrv E). apply list_upd_firstn. lia.
    + simpl rev. intros s'. unfold s'. rewrite !run_fwd_app.
      destruct (IH (S i) (S slots) s Hv' Hs) as [IHo IHs]; auto; try lia.
      set (s2 := run_fwd sem inputs (rev (pro_fwd mp rest (S i) (S slots))) s) in *.
      simpl. split.
      * rewrite IHo. unfold upd. rewrite Nat.eqb_refl.
        rewrite (val_node r _ (imm_const r c Hrv E)). apply list_upd_firstn. lia.
      * intros k r' Hk Er. unfold upd.
        pose proof (reg_lt arena roots OK s1 vis F1 k r' Hk Er).
        destruct (Nat.eqb_spec r' slots); try lia. auto.
Qed.

Theorem final_correct :
  eval_outputs sem (final_tape arena roots s1 order) (length roots) inputs = map val roots.
Proof.
  unfold eval_outputs, eval_tape, final_tape, final_pro.
  rewrite rev_app_distr, rev_involutive, run_fwd_app.
  destruct (sem_nodes (init_state (fresh_env sem) (fresh_out sem (length roots))) order [])
    as [Hs Ho]; [rewrite app_nil_r; auto|].
  set (s := run_fwd sem inputs (ops_of arena s1 order) _) in *.
  destruct (sem_prologue roots 0 s0 s) as [A _].
  - apply (roots_vis arena roots s1 vis F1).
  - intros k r Hk. apply Hs. apply O_vis; auto.
  - rewrite Ho. simpl. unfold fresh_out. rewrite repeat_length. auto.
  - lia.
  - rewrite A. reflexivity.
Qed.

End Sem.
