(* CtxEval.v — Context::eval (context/mod.rs:815): the reference meaning of a node,
   "the graph evaluated directly operation by operation".  The Rust code recurses
   with a cache; the arena is append-only with children created before parents,
   so the model evaluates nodes in index order, each from the values before it. *)
From Coq Require Import List Bool Arith.
From FV Require Import Ops Tape Flatten.
Import ListNotations.

Section CtxEval.
Context {V I : Type}.
Variable sem : Sem V I.

Definition node_eval (vars : nat -> V) (vals : list V) (n : cnode I) : V :=
  let get k := nth k vals (s_dflt sem) in
  match n with
  | NInput v => vars v
  | NConst c => s_imm sem c
  | NUnary u a => s_un sem u (get a)
  | NBinary b l r => s_rr sem b (get l) (get r)
  end.

Definition arena_eval (arena : list (cnode I)) (vars : nat -> V) : list V :=
  fold_left (fun vals n => vals ++ [node_eval vars vals n]) arena [].

Definition ctx_eval (arena : list (cnode I)) (vars : nat -> V) (root : nat) : V :=
  nth root (arena_eval arena vars) (s_dflt sem).

(* children precede parents *)
Definition arena_wf (arena : list (cnode I)) : Prop :=
  forall i n, nth_error arena i = Some n -> forall c, In c (children n) -> c < i.

End CtxEval.
