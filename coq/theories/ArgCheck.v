(* ArgCheck.v — var/mod.rs: VarMap::check_tracing_arguments / check_bulk_arguments.
   Argument errors are values, never panics. *)
From Coq Require Import List Bool Arith Lia.
Import ListNotations.

Inductive arg_error :=
| BadVarSlice (actual expected : nat)
| MismatchedSlices (index_a length_a index_b length_b : nat).

(* vars.len() < self.len()  =>  BadVarSlice; extra variables are fine *)
Definition check_tracing_arguments (expected actual : nat) : option arg_error :=
  if Nat.ltb actual expected then Some (BadVarSlice actual expected) else None.

Fixpoint find_mismatch (n : nat) (i : nat) (lens : list nat) : option (nat * nat) :=
  match lens with
  | [] => None
  | l :: rest => if Nat.eqb l n then find_mismatch n (S i) rest else Some (i, l)
  end.

Definition check_bulk_arguments (expected : nat) (lens : list nat) : option arg_error :=
  if Nat.ltb (length lens) expected then Some (BadVarSlice (length lens) expected)
  else match lens with
       | [] => None
       | n :: _ =>
           match find_mismatch n 0 lens with
           | Some (i, l) => Some (MismatchedSlices 0 n i l)
           | None => None
           end
       end.

Lemma tracing_ok_iff expected actual :
  check_tracing_arguments expected actual = None <-> expected <= actual.
Proof.
  unfold check_tracing_arguments. destruct (Nat.ltb_spec actual expected); split; intros; try discriminate; try lia; reflexivity.
Qed.

Lemma find_mismatch_none n lens : forall i, find_mismatch n i lens = None <-> Forall (fun l => l = n) lens.
Proof.
  induction lens as [|l lens IH]; intros i; simpl.
  - split; [constructor | reflexivity].
  - destruct (Nat.eqb_spec l n).
    + rewrite IH. split; [intros H; constructor; assumption | intros H; inversion H; assumption].
    + split; [discriminate | intros H; inversion H; contradiction].
Qed.

(* accepted exactly when enough slices are given and all have the same length *)
Lemma bulk_ok_iff expected lens :
  check_bulk_arguments expected lens = None <->
  expected <= length lens /\ (forall n rest, lens = n :: rest -> Forall (fun l => l = n) lens).
Proof.
  unfold check_bulk_arguments. destruct (Nat.ltb_spec (length lens) expected) as [Hlt|Hge].
  - split; [discriminate | intros [H _]; lia].
  - destruct lens as [|n rest].
    + split; [intros _; split; [exact Hge | intros ? ? E; discriminate E] | reflexivity].
    + destruct (find_mismatch n 0 (n :: rest)) as [[i l]|] eqn:E.
      * split; [discriminate|]. intros [_ H]. specialize (H n rest eq_refl).
        apply (find_mismatch_none n (n :: rest) 0) in H. congruence.
      * split; [|reflexivity]. intros _. split; [exact Hge|].
        intros n' rest' [= <- <-]. now apply (find_mismatch_none n (n :: rest) 0).
Qed.
