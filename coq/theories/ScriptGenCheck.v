(* ScriptGenCheck.v — the tables of the model (theories/Script.v) are the ones regenerated from the
   Rust sources by gen_rhai_tables.py (gen/RhaiGen.v): shape signatures in `visit_shapes` order
   (builder name, field names, field types, defaults bit for bit), the operator / function names
   of tree.rs with their opcodes, the banned comparisons, the constants, the order of the
   `value_from_dynamic` chain and of the `Value` enum. *)
From Coq Require Import ZArith List String.
From FV Require Import F32 Ops Expr Shapes Shapes32 Script.
From FVGen Require Import RhaiGen.
Import ListNotations.
Local Open Scope string_scope.

Definition gty_of (t : ty) : gty :=
  match t with
  | TyFloat => GFloat | TyVec2 => GVec2 | TyVec3 => GVec3 | TyVec4 => GVec4
  | TyAxis => GAxis | TyPlane => GPlane | TyTree => GTree | TyVecTree => GVecTree
  end.
Definition gdef_of (v : option value) : option (list Z) :=
  match v with
  | None => None
  | Some (VFloat f) => Some [to_bits f]
  | Some (VVec2 x y) => Some [to_bits x; to_bits y]
  | Some (VVec3 v) => Some (v3_bits v)
  | Some (VVec4 x y z w) => Some [to_bits x; to_bits y; to_bits z; to_bits w]
  | Some (VAxis a) => Some (v3_bits a)
  | Some (VPlane a o) => Some (List.app (v3_bits a) [to_bits o])
  | Some (VTree _) | Some (VVecTree _) => Some []
  end.
Definition sig_plain (s : shape_sig) : string * list gfield :=
  (s_name s, map (fun f => (f_name f, gty_of (f_ty f), gdef_of (f_default f))) (s_fields s)).

Definition bop_str (b : bop) : string :=
  match b with
  | BAdd => "BAdd" | BSub => "BSub" | BMul => "BMul" | BDiv => "BDiv" | BAtan => "BAtan" | BMin => "BMin"
  | BMax => "BMax" | BCompare => "BCompare" | BMod => "BMod" | BAnd => "BAnd" | BOr => "BOr" | BMix => "BMix"
  end.
Definition uop_str (u : uop) : string :=
  match u with
  | UNeg => "UNeg" | UAbs => "UAbs" | URecip => "URecip" | USqrt => "USqrt" | USquare => "USquare"
  | UFloor => "UFloor" | UCeil => "UCeil" | URound => "URound" | USin => "USin" | UCos => "UCos"
  | UTan => "UTan" | UAsin => "UAsin" | UAcos => "UAcos" | UAtan => "UAtan" | UExp => "UExp" | ULn => "ULn"
  | UNot => "UNot" | URand => "URand" | UCopy => "UCopy"
  end.

Theorem shapes_table_matches rot : map sig_plain (all_shapes rot) = gen_shapes.
Proof. vm_compute. reflexivity. Qed.
Theorem tree_binary_matches : map (fun p => (fst p, bop_str (snd p))) tree_binary_fns = gen_tree_binary.
Proof. vm_compute. reflexivity. Qed.
Theorem tree_unary_matches : map (fun p => (fst p, uop_str (snd p))) tree_unary_fns = gen_tree_unary.
Proof. vm_compute. reflexivity. Qed.
Theorem tree_cmp_matches : tree_cmp_ops = gen_tree_cmp.
Proof. reflexivity. Qed.
Theorem constants_match : constants = gen_constants.
Proof. reflexivity. Qed.
Theorem value_chain_matches : map gty_of vfd_chain = gen_value_chain.
Proof. reflexivity. Qed.
Theorem value_enum_matches : map gty_of all_tys = gen_value_enum.
Proof. reflexivity. Qed.
