(* Script.v — an executable model of the Rhai binding layer of fidget
   (fidget-rhai/src/{lib,tree,shapes,types,constants}.rs over rhai 1.25.1, features = ["sync"],
   so INT = i64 and FLOAT = f64; fast operators on; optimisation level Simple).

   WHAT IS MODELLED
   * a script AST [sexpr] for single expressions: integer / float / string / char literals,
     identifiers (x, y, z and the constants of constants.rs come from the `on_var` resolver),
     unary minus, + - * / %, the six comparisons, function calls, method calls, property
     access, array literals and object-map literals;
   * the dynamic value type [dyn]; trees are [etree f32] (no simplification happens in
     `Tree`'s builder functions, so structural equality of [etree] is `Tree`'s `Eq` up to the
     NaN payload of constants);
   * every `FromDynamic` impl, `value_from_dynamic`, `build_tagged_value`;
   * `register_shape` as a FUNCTION of a shape signature (data), all builders
     (`build_from_map`, `build_transform`, `build_binary`, `build_reduceN`, `build_uniqueN` +
     `from_enum_map`, `build_orderedN` + `from_value_list`);
   * rhai's overload resolution for native functions (`Engine::resolve_fn`): functions are
     keyed by (name, parameter types); the call's argument types are looked up exactly, then
     with arguments progressively replaced by `Dynamic` in bitmask order (the LAST argument
     is replaced first, all-`Dynamic` is tried last); a later `register_fn` with an identical
     key replaces the earlier one; at each candidate the engine's own functions are searched
     before the standard packages; binary operators whose two operands are both built-in
     (non-custom) types use rhai's built-in implementation BEFORE any registered function;
   * rhai's evaluation order: call arguments left to right, except that (a) a method call
     `r.f(a..)` evaluates a.. first and the receiver last and (b) a function call whose first
     argument is a plain variable evaluates the other arguments first.

   WIRE FORMAT (one line, tokens separated by single spaces, prefix order)
     I <z>                          integer literal (decimal, may be negative; |z| < 2^63)
     F <bits>                       float literal: the f64 bit pattern as a decimal integer
     S <len> <hex>                  string literal: byte length, then 2*len hex digits ("-" if len = 0)
     H <code>                       char literal (ASCII code, decimal)
     V <name>                       identifier
     N e                            unary minus
     B <op> e e                     op in  add sub mul div mod
     C <op> e e                     op in  eq ne lt gt le ge
     K <fname> <n> e1 .. en         function call
     M <fname> <n> e0 e1 .. en      method call, e0 is the receiver, n counts e1..en
     P <name> e                     property access e.name
     A <n> e1 .. en                 array literal
     O <n> (<klen> <hexkey> e)*n    object map literal
   [parse_wire] reads this format, [to_wire] writes it, [print] emits rhai source for the same AST
   and [run_wire] (wire line -> (rhai source, eval::<Tree> result as a bit-pattern tree)) is the
   extraction entry point.  [parse_ok] says which ASTs rhai's parser accepts at all (integer
   range, finite floats, ASCII strings, identifiers that are not keywords, distinct map keys):
   anything else evaluates to [EParse].  The receiver of a method call / property access is
   printed in parentheses unless it is a variable, so that `(a.f(p)).g(q)` evaluates q, then p,
   then a — the order of [eval]; an unparenthesised chain `a.f(p).g(q)` would evaluate p, q, a,
   which only matters for which of several errors is reported.

   HISTORY: [build_transform_old] and [from_enum_map_old] / [build_unique_old] are the two builders as
   they were before the repairs 2eb99d2 (transform form applies defaults) and 0735cc3 (a lone Tree
   fills a Vec<Tree> field); the engine model uses the current code.

   NOT MODELLED (the model answers [EUnsupported], never a wrong value): f64 `%`, f64 libm
   functions (sin(FLOAT) ...), string formatting of numbers, string ordering, chars in
   operators, arithmetic on the raw `f32` returned by vec getters, array/map operators.
   Outside the model altogether: statements, `let`, loops, user functions, rhai's expression
   depth limit (64) and operation limit (50 000), rhai functions whose names fidget does not
   also register. *)
From Coq Require Import ZArith List Bool String Ascii Lia.
From Flocq Require Import Core.Zaux Core.FLX.
From Flocq Require IEEE754.Binary IEEE754.Bits.
From Flocq Require Import IEEE754.BinarySingleNaN.
From FV Require Import F32 Ops Expr Shapes Shapes32.
From FVGen Require Import ShapesGen.
Import ListNotations.
Local Open Scope string_scope.
Local Open Scope list_scope.
Local Open Scope Z_scope.

(* ====================================================================================== *)
(* results                                                                                 *)
Inductive err :=
| ETypeMismatch      (* ErrorMismatchDataType raised by a FromDynamic impl / value list *)
| EMissingField      (* ErrorRuntime "field .. must be provided for .." *)
| EUnknownField      (* ErrorRuntime "field .. is not present in .." *)
| EMissingArg        (* ErrorRuntime "missing argument of type .." *)
| EExtraArg          (* ErrorRuntime "shape does not have an argument of type .." *)
| ECompareTree       (* ErrorRuntime "cannot compare Tree types during function tracing" *)
| ENoSuchFunction    (* ErrorFunctionNotFound *)
| EVarNotFound       (* ErrorVariableNotFound *)
| EPropNotFound      (* ErrorPropertyNotFound / no getter *)
| EArith             (* ErrorArithmetic: checked i64 overflow, division by zero *)
| EOutputType        (* ErrorMismatchOutputType: eval::<Tree> on a non-Tree result *)
| EParse             (* parse error: duplicate map key, integer literal out of range *)
| EInternal          (* a Rust panic (assert!/unwrap) — unreachable for registered shapes *)
| EUnsupported.      (* outside the model *)

Inductive res (A : Type) := ROk (a : A) | RErr (e : err).
Arguments ROk {A}. Arguments RErr {A}.
Definition rbind {A B} (r : res A) (f : A -> res B) : res B :=
  match r with ROk a => f a | RErr e => RErr e end.
Definition rmap {A B} (f : A -> B) (r : res A) : res B :=
  match r with ROk a => ROk (f a) | RErr e => RErr e end.
Definition is_ok {A} (r : res A) : bool := match r with ROk _ => true | RErr _ => false end.
(* `a.or_else(|_| b)` *)
Definition ror {A} (a b : res A) : res A := match a with ROk _ => a | RErr _ => b end.
Notation "'do' x <- a ; b" := (rbind a (fun x => b)) (at level 200, x name, a at level 100, b at level 200).

Fixpoint mapM {A B} (f : A -> res B) (l : list A) : res (list B) :=
  match l with
  | [] => ROk []
  | a :: r => do b <- f a; do bs <- mapM f r; ROk (b :: bs)
  end.

(* ====================================================================================== *)
(* f64 (rhai FLOAT) and the `as` conversions                                                *)
Definition f64 : Type := binary_float 53 1024.
Lemma Hprec64 : FLX.Prec_gt_0 53. Proof. unfold FLX.Prec_gt_0; lia. Qed.
Lemma Hmax64 : Prec_lt_emax 53 1024. Proof. unfold Prec_lt_emax; lia. Qed.
Definition d_of_bits (z : Z) : f64 := Binary.B2BSN 53 1024 (Bits.b64_of_bits (z mod 18446744073709551616)).
Definition dadd (a b : f64) : f64 := Bplus (prec_gt_0_:=Hprec64) (prec_lt_emax_:=Hmax64) mode_NE a b.
Definition dsub (a b : f64) : f64 := Bminus (prec_gt_0_:=Hprec64) (prec_lt_emax_:=Hmax64) mode_NE a b.
Definition dmul (a b : f64) : f64 := Bmult (prec_gt_0_:=Hprec64) (prec_lt_emax_:=Hmax64) mode_NE a b.
Definition ddiv (a b : f64) : f64 := Bdiv (prec_gt_0_:=Hprec64) (prec_lt_emax_:=Hmax64) mode_NE a b.
Definition dsqrt (a : f64) : f64 := Bsqrt (prec_gt_0_:=Hprec64) (prec_lt_emax_:=Hmax64) mode_NE a.
Definition dneg (a : f64) : f64 := Bopp a.
Definition dabs (a : f64) : f64 := Babs a.
Definition dfloor (a : f64) : f64 := Bnearbyint (prec_lt_emax_:=Hmax64) mode_DN a.
Definition dround (a : f64) : f64 := Bnearbyint (prec_lt_emax_:=Hmax64) mode_NA a.   (* f64::round: half away from zero *)
Definition dltb (a b : f64) : bool := Bltb a b.
Definition dleb (a b : f64) : bool := Bleb a b.
Definition deqb (a b : f64) : bool := Beqb a b.
Definition dzero : f64 := B754_zero false.
Definition done : f64 := d_of_bits 4607182418800017408.      (* 1.0 *)
Definition deps : f64 := d_of_bits 4372995238176751616.      (* f64::EPSILON = 2^-52 *)
(* f64::max (NaN-ignoring) *)
Definition dmax_std (a b : f64) : f64 :=
  if is_nan a then b else if is_nan b then a else if dltb a b then b else a.

(* `x as f32` for x : f64 — round to nearest even, overflow to infinity, NaN to NaN *)
Definition f32_of_f64 (d : f64) : f32 :=
  match d with
  | B754_zero s => B754_zero s
  | B754_infinity s => B754_infinity s
  | B754_nan => B754_nan
  | B754_finite s m e _ => binary_normalize 24 128 Hprec Hmax mode_NE (cond_Zopp s (Zpos m)) e s
  end.
(* `x as f32`, `x as f64` for x : i64 *)
Definition f32_of_int (z : Z) : f32 := binary_normalize 24 128 Hprec Hmax mode_NE z 0 false.
Definition f64_of_int (z : Z) : f64 := binary_normalize 53 1024 Hprec64 Hmax64 mode_NE z 0 false.

Definition in_i64 (z : Z) : bool := (-9223372036854775808 <=? z) && (z <=? 9223372036854775807).
Definition chk (z : Z) : res Z := if in_i64 z then ROk z else RErr EArith.

(* ====================================================================================== *)
(* values                                                                                  *)
Notation v3 := (@vec3 f32).
Notation tree := (etree f32).

Inductive dyn :=
| DInt (z : Z)
| DFloat (d : f64)
| DBool (b : bool)
| DStr (s : string)
| DChar (c : ascii)
| DArr (l : list dyn)
| DMap (m : list (string * dyn))       (* keys distinct (enforced by the parser); source order *)
| DTree (t : tree)
| DVec2 (x y : f32)
| DVec3 (v : v3)
| DAxis (a : v3)                        (* a normalised vector *)
| DPlane (a : v3) (off : f32)
| DF32 (f : f32).                       (* a raw f32: what the vec getters `.x .y .z` return (FLOAT is f64) *)

Inductive tag := TInt | TFloat | TBool | TStr | TChar | TArr | TMap | TTree | TVec2 | TVec3 | TAxis | TPlane | TF32.
Definition tag_of (d : dyn) : tag :=
  match d with
  | DInt _ => TInt | DFloat _ => TFloat | DBool _ => TBool | DStr _ => TStr | DChar _ => TChar
  | DArr _ => TArr | DMap _ => TMap | DTree _ => TTree | DVec2 _ _ => TVec2 | DVec3 _ => TVec3
  | DAxis _ => TAxis | DPlane _ _ => TPlane | DF32 _ => TF32
  end.
Definition tag_eqb (a b : tag) : bool :=
  match a, b with
  | TInt, TInt | TFloat, TFloat | TBool, TBool | TStr, TStr | TChar, TChar | TArr, TArr | TMap, TMap
  | TTree, TTree | TVec2, TVec2 | TVec3, TVec3 | TAxis, TAxis | TPlane, TPlane | TF32, TF32 => true
  | _, _ => false
  end.
(* Dynamic::is_variant: a custom (non built-in) type *)
Definition is_variant (d : dyn) : bool :=
  match d with DTree _ | DVec2 _ _ | DVec3 _ | DAxis _ | DPlane _ _ | DF32 _ => true | _ => false end.
Definition tag_numeric (t : tag) : bool := match t with TInt | TFloat | TF32 => true | _ => false end.

Fixpoint map_get (m : list (string * dyn)) (k : string) : option dyn :=
  match m with
  | [] => None
  | (k', v) :: r => if String.eqb k' k then Some v else map_get r k
  end.

(* fidget_shapes::types::{Type, Value} *)
Inductive ty := TyFloat | TyVec2 | TyVec3 | TyVec4 | TyAxis | TyPlane | TyTree | TyVecTree.
Definition all_tys : list ty := [TyFloat; TyVec2; TyVec3; TyVec4; TyAxis; TyPlane; TyTree; TyVecTree].
Definition ty_eqb (a b : ty) : bool :=
  match a, b with
  | TyFloat, TyFloat | TyVec2, TyVec2 | TyVec3, TyVec3 | TyVec4, TyVec4 | TyAxis, TyAxis
  | TyPlane, TyPlane | TyTree, TyTree | TyVecTree, TyVecTree => true
  | _, _ => false
  end.
Inductive value :=
| VFloat (f : f32) | VVec2 (x y : f32) | VVec3 (v : v3) | VVec4 (x y z w : f32)
| VAxis (a : v3) | VPlane (a : v3) (off : f32) | VTree (t : tree) | VVecTree (l : list tree).
Definition ty_of (v : value) : ty :=
  match v with
  | VFloat _ => TyFloat | VVec2 _ _ => TyVec2 | VVec3 _ => TyVec3 | VVec4 _ _ _ _ => TyVec4
  | VAxis _ => TyAxis | VPlane _ _ => TyPlane | VTree _ => TyTree | VVecTree _ => TyVecTree
  end.

(* ====================================================================================== *)
(* FromDynamic                                                                             *)

(* impl FromDynamic for f32 (lib.rs): f64 first, then i64 *)
Definition f32_from_dyn (d : dyn) : res f32 :=
  match d with
  | DFloat f => ROk (f32_of_f64 f)
  | DInt z => ROk (f32_of_int z)
  | _ => RErr ETypeMismatch
  end.

Definition s_union_l (ts : list tree) : tree := s_union ts.

(* impl FromDynamic for Tree / Vec<Tree> (tree.rs), mutually recursive *)
Fixpoint tree_from_dyn (d : dyn) : res tree :=
  match d with
  | DTree t => ROk t
  | DInt _ | DFloat _ => rmap (@EConst f32) (f32_from_dyn d)
  | DArr l =>
      rmap s_union_l
        ((fix go (l : list dyn) : res (list tree) :=
            match l with
            | [] => ROk []
            | a :: r => do t <- tree_from_dyn a; do ts <- go r; ROk (t :: ts)
            end) l)
  | _ => RErr ETypeMismatch
  end.
Definition vectree_from_dyn (d : dyn) : res (list tree) :=
  match d with DArr l => mapM tree_from_dyn l | _ => RErr ETypeMismatch end.

(* types.rs *)
Definition vec2_from_dyn (d : dyn) : res (f32 * f32) :=
  match d with
  | DVec2 x y => ROk (x, y)
  | DArr [a; b] => do x <- f32_from_dyn a; do y <- f32_from_dyn b; ROk (x, y)
  | _ => RErr ETypeMismatch
  end.
Definition vec3_from_dyn (d : dyn) (default : option v3) : res v3 :=
  match vec2_from_dyn d with
  | ROk (x, y) => ROk (mk3 x y (match default with Some dv => vz dv | None => fzero end))
  | RErr _ =>
      match d with
      | DVec3 v => ROk v
      | DArr [a; b] =>
          do x <- f32_from_dyn a; do y <- f32_from_dyn b;
          ROk (mk3 x y (match default with Some dv => vz dv | None => fzero end))
      | DArr [a; b; c] => do x <- f32_from_dyn a; do y <- f32_from_dyn b; do z <- f32_from_dyn c; ROk (mk3 x y z)
      | _ => RErr ETypeMismatch
      end
  end.
Definition vec4_from_dyn (d : dyn) : res (f32 * f32 * f32 * f32) :=
  match d with
  | DArr [a; b; c; e] =>
      do x <- f32_from_dyn a; do y <- f32_from_dyn b; do z <- f32_from_dyn c; do w <- f32_from_dyn e;
      ROk (x, y, z, w)
  | _ => RErr ETypeMismatch
  end.

(* Axis::try_from(Vec3) (fidget-shapes types.rs): norm = sqrt(x^2 + y^2 + z^2); NaN, < 1e-8 and
   > 1e8 are errors; otherwise value / norm *)
Definition f_1em8 : f32 := of_bits 841731191.
Definition f_1e8 : f32 := of_bits 1287568416.
Definition axis_try_from (v : v3) : res v3 :=
  let n := fsqrt (fadd (fadd (fmul (vx v) (vx v)) (fmul (vy v) (vy v))) (fmul (vz v) (vz v))) in
  if is_nanb n then RErr ETypeMismatch
  else if fltb n f_1em8 then RErr ETypeMismatch
  else if fltb f_1e8 n then RErr ETypeMismatch
  else ROk (mk3 (fdiv (vx v) n) (fdiv (vy v) n) (fdiv (vz v) n)).

Definition ax_x : v3 := @axis_x f32 f32_sc.
Definition ax_y : v3 := @axis_y f32 f32_sc.
Definition ax_z : v3 := @axis_z f32 f32_sc.
Definition axis_of_name (s : string) : option v3 :=
  if String.eqb s "x" || String.eqb s "X" then Some ax_x
  else if String.eqb s "y" || String.eqb s "Y" then Some ax_y
  else if String.eqb s "z" || String.eqb s "Z" then Some ax_z
  else None.
Definition opt_res {A} (o : option A) : res A := match o with Some a => ROk a | None => RErr ETypeMismatch end.

Definition axis_from_dyn (d : dyn) : res v3 :=
  match d with
  | DAxis a => ROk a
  | _ =>
      match vec3_from_dyn d None with
      | ROk v => axis_try_from v                   (* `?`: a bad length is an error right here *)
      | RErr _ =>
          match d with
          | DStr s => opt_res (axis_of_name s)
          | DChar c => opt_res (axis_of_name (String c EmptyString))
          | DTree EX => ROk ax_x
          | DTree EY => ROk ax_y
          | DTree EZ => ROk ax_z
          | _ => RErr ETypeMismatch
          end
      end
  end.

(* Plane::XY / YZ / ZX: the axes regenerated from types.rs (gen/ShapesGen.v) *)
Definition plane_of_name (s : string) : option v3 :=
  if String.eqb s "xy" || String.eqb s "XY" then Some (@axis_of f32 f32_sc gen_plane_xy_axis)
  else if String.eqb s "yz" || String.eqb s "YZ" then Some (@axis_of f32 f32_sc gen_plane_yz_axis)
  else if String.eqb s "zx" || String.eqb s "ZX" then Some (@axis_of f32 f32_sc gen_plane_zx_axis)
  else None.
Definition plane_from_dyn (d : dyn) : res (v3 * f32) :=
  match d with
  | DPlane a off => ROk (a, off)
  | _ =>
      match axis_from_dyn d with
      | ROk a => ROk (a, fzero)
      | RErr _ =>
          match d with
          | DStr s => rmap (fun a => (a, fzero)) (opt_res (plane_of_name s))
          | _ => RErr ETypeMismatch
          end
      end
  end.

(* shapes.rs: build_tagged_value / from_dynamic_with_hint: the default is passed on only when
   its variant matches the requested type; only Vec3 looks at it *)
Definition build_tagged_value (t : ty) (d : dyn) (default : option value) : res value :=
  match t with
  | TyFloat => rmap VFloat (f32_from_dyn d)
  | TyVec2 => rmap (fun p => VVec2 (fst p) (snd p)) (vec2_from_dyn d)
  | TyVec3 => rmap VVec3 (vec3_from_dyn d (match default with Some (VVec3 v) => Some v | _ => None end))
  | TyVec4 => rmap (fun p => let '(x, y, z, w) := p in VVec4 x y z w) (vec4_from_dyn d)
  | TyTree => rmap VTree (tree_from_dyn d)
  | TyAxis => rmap VAxis (axis_from_dyn d)
  | TyPlane => rmap (fun p => VPlane (fst p) (snd p)) (plane_from_dyn d)
  | TyVecTree => rmap VVecTree (vectree_from_dyn d)
  end.

(* value_from_dynamic: the ordered chain Float, Vec2, Vec3, Vec4, VecTree, Tree, Axis, Plane;
   every failure becomes one MismatchDataType *)
Definition vfd_chain : list ty := [TyFloat; TyVec2; TyVec3; TyVec4; TyVecTree; TyTree; TyAxis; TyPlane].
Definition value_from_dynamic (d : dyn) (default : option value) : res value :=
  fold_right (fun t acc => ror (build_tagged_value t d default) acc) (RErr ETypeMismatch) vfd_chain.

(* ====================================================================================== *)
(* shape signatures as data                                                                *)
Record field := { f_name : string; f_ty : ty; f_default : option value }.
Record shape_sig := {
  s_name : string;                               (* snake_case builder name *)
  s_fields : list field;
  s_build : list value -> option tree            (* Tree::from(T { fields.. }); None = ill-typed *)
}.
Definition finish (s : shape_sig) (vals : list value) : res dyn :=
  match s_build s vals with Some t => ROk (DTree t) | None => RErr EInternal end.

Definition has_key (fs : list field) (k : string) : bool := existsb (fun f => String.eqb (f_name f) k) fs.
Definition unknown_key (fs : list field) (m : list (string * dyn)) : bool :=
  existsb (fun kv => negb (has_key fs (fst kv))) m.

(* build_from_map *)
Fixpoint bfm_fields (fs : list field) (m : list (string * dyn)) : res (list value) :=
  match fs with
  | [] => ROk []
  | f :: r =>
      do v <- match map_get m (f_name f) with
              | Some d => build_tagged_value (f_ty f) d (f_default f)
              | None => match f_default f with Some v => ROk v | None => RErr EMissingField end
              end;
      do vs <- bfm_fields r m;
      ROk (v :: vs)
  end.
Definition build_from_map (s : shape_sig) (m : list (string * dyn)) : res dyn :=
  do vals <- bfm_fields (s_fields s) m;
  if unknown_key (s_fields s) m then RErr EUnknownField else finish s vals.

(* build_transform: the Tree comes first, the other fields come from the map.
   [usedef = true] is the code as repaired in 2eb99d2: a field missing from the map takes its
   declared default, exactly like build_from_map.  [usedef = false] is the code before the repair,
   where the default was only a coercion hint and a missing key was always an error. *)
Fixpoint bt_fields (usedef : bool) (fs : list field) (t : option tree) (m : list (string * dyn)) : res (list value) :=
  match fs with
  | [] => ROk []
  | f :: r =>
      match f_ty f with
      | TyTree =>
          match t with
          | Some t' => do vs <- bt_fields usedef r None m; ROk (VTree t' :: vs)
          | None => RErr EInternal                      (* t.take().unwrap() *)
          end
      | _ =>
          do v <- match map_get m (f_name f) with
                  | Some d => build_tagged_value (f_ty f) d (f_default f)
                  | None => match (if usedef then f_default f else None) with
                            | Some v => ROk v
                            | None => RErr EMissingField
                            end
                  end;
          do vs <- bt_fields usedef r t m;
          ROk (v :: vs)
      end
  end.
Definition build_transform_gen (usedef : bool) (s : shape_sig) (t : dyn) (m : list (string * dyn)) : res dyn :=
  do t' <- tree_from_dyn t;
  do vals <- bt_fields usedef (s_fields s) (Some t') m;
  if unknown_key (s_fields s) m then RErr EUnknownField else finish s vals.
Definition build_transform := build_transform_gen true.        (* the current code *)
Definition build_transform_old := build_transform_gen false.   (* before 2eb99d2 *)

(* build_binary *)
Definition build_binary (s : shape_sig) (a b : dyn) : res dyn :=
  match s_fields s with
  | [fa; fb] =>
      match f_ty fa, f_ty fb with
      | TyTree, TyTree => do ta <- tree_from_dyn a; do tb <- tree_from_dyn b; finish s [VTree ta; VTree tb]
      | _, _ => RErr EInternal
      end
  | _ => RErr EInternal
  end.

(* build_reduceN *)
Definition build_reduce (s : shape_sig) (args : list dyn) : res dyn :=
  match s_fields s with
  | [f] => match f_ty f with
           | TyVecTree => do ts <- mapM tree_from_dyn args; finish s [VVecTree ts]
           | _ => RErr EInternal
           end
  | _ => RErr EInternal
  end.

(* EnumMap<Type, Option<Value>> *)
Definition slots := ty -> option value.
Definition no_slots : slots := fun _ => None.
Definition sset (vs : slots) (t : ty) (v : option value) : slots :=
  fun t' => if ty_eqb t' t then v else vs t'.

(* build_uniqueN, first half: classify every argument, later same-typed arguments overwrite *)
Fixpoint fill_slots (args : list dyn) (vs : slots) : res slots :=
  match args with
  | [] => ROk vs
  | a :: r => do v <- value_from_dynamic a None; fill_slots r (sset vs (ty_of v) (Some v))
  end.

Definition has_ty (fs : list field) (t : ty) : bool := existsb (fun f => ty_eqb (f_ty f) t) fs.

(* from_enum_map: one step of the loop over the fields, as a function of the four slots it can
   look at (the field's own, Vec2, Axis, Tree); it returns the field's value and the slot it
   emptied.  [hv2], [hax], [htr] are has_ty[Vec2], has_ty[Axis], has_ty[Tree].  The last upgrade
   (a lone Tree for a Vec<Tree> field) was added in 0735cc3; the code before that commit is this
   function with [htr] forced to [true]. *)
Definition dflt_or_missing (f : field) : res (value * option ty) :=
  match f_default f with Some v => ROk (v, None) | None => RErr EMissingArg end.
Definition fem_pick (hv2 hax htr : bool) (f : field) (own v2 ax tr : option value) : res (value * option ty) :=
  let tg := f_ty f in
  match own with
  | Some v => ROk (v, Some tg)
  | None =>
      match tg, v2, f_default f with
      | TyVec3, Some p, Some dv =>                                  (* Vec2 -> Vec3 upgrade *)
          if negb hv2 then
            match p, dv with
            | VVec2 x y, VVec3 dd => ROk (VVec3 (mk3 x y (vz dd)), Some TyVec2)
            | _, _ => RErr EInternal                     (* unreachable!() *)
            end
          else ROk (dv, None)
      | _, _, _ =>
          match tg, ax with
          | TyPlane, Some va =>                                     (* Axis -> Plane upgrade *)
              if negb hax then
                match va with
                | VAxis a => ROk (VPlane a fzero, Some TyAxis)
                | _ => RErr EInternal
                end
              else dflt_or_missing f
          | _, _ =>
              match tg, tr with
              | TyVecTree, Some vt =>                               (* Tree -> [Tree] upgrade *)
                  if negb htr then
                    match vt with
                    | VTree t => ROk (VVecTree [t], Some TyTree)
                    | _ => RErr EInternal
                    end
                  else dflt_or_missing f
              | _, _ => dflt_or_missing f
              end
          end
      end
  end.
Definition clear (vs : slots) (c : option ty) : slots := match c with Some t => sset vs t None | None => vs end.
Definition fem_step (hv2 hax htr : bool) (f : field) (vs : slots) : res (value * slots) :=
  do p <- fem_pick hv2 hax htr f (vs (f_ty f)) (vs TyVec2) (vs TyAxis) (vs TyTree);
  ROk (fst p, clear vs (snd p)).
Fixpoint fem_fields (hv2 hax htr : bool) (fs : list field) (vs : slots) : res (list value * slots) :=
  match fs with
  | [] => ROk ([], vs)
  | f :: r =>
      do p <- fem_step hv2 hax htr f vs;
      do q <- fem_fields hv2 hax htr r (snd p);
      ROk (fst p :: fst q, snd q)
  end.
Definition leftover (vs : slots) : bool := existsb (fun t => match vs t with Some _ => true | None => false end) all_tys.
Definition from_enum_map_gen (htr : bool) (s : shape_sig) (vs : slots) : res dyn :=
  let fs := s_fields s in
  do p <- fem_fields (has_ty fs TyVec2) (has_ty fs TyAxis) htr fs vs;
  if leftover (snd p) then RErr EExtraArg else finish s (fst p).
Definition from_enum_map (s : shape_sig) := from_enum_map_gen (has_ty (s_fields s) TyTree) s.   (* current *)
Definition from_enum_map_old (s : shape_sig) := from_enum_map_gen true s.                       (* before 0735cc3 *)
Definition build_unique (s : shape_sig) (args : list dyn) : res dyn :=
  do vs <- fill_slots args no_slots;
  from_enum_map s vs.
Definition build_unique_old (s : shape_sig) (args : list dyn) : res dyn :=
  do vs <- fill_slots args no_slots;
  from_enum_map_old s vs.

(* build_orderedN + from_value_list *)
Fixpoint fvl (fs : list field) (vs : list value) : res (list value) :=
  match fs, vs with
  | [], [] => ROk []
  | f :: fr, v :: vr => if ty_eqb (ty_of v) (f_ty f) then do r <- fvl fr vr; ROk (v :: r) else RErr ETypeMismatch
  | _, _ => RErr EInternal                                 (* assert_eq!(vs.len(), fields.len()) *)
  end.
Definition build_ordered (s : shape_sig) (args : list dyn) : res dyn :=
  do vs <- mapM (fun a => value_from_dynamic a None) args;
  if negb (Nat.eqb (List.length vs) (List.length (s_fields s))) then RErr EInternal
  else do vals <- fvl (s_fields s) vs; finish s vals.

(* ====================================================================================== *)
(* native functions and their registration                                                 *)
Inductive vbop := VAdd | VMul | VSub | VDiv | VMin | VMax.
Inductive native :=
(* tree.rs *)
| NToStringTree | NRemap4 | NRemap3 | NAxes
| NTreeDyn (b : bop) | NDynTree (b : bop) | NUnary (u : uop) | NBadCmp
(* types.rs *)
| NVecId | NVec2Of2 | NVec2Arr | NVec3Of3 | NVec3Arr
| NVecBin (o : vbop) | NVecSqrt | NVecAbs | NVecNeg
| NAxis | NPlane1 | NPlane2
(* shapes.rs *)
| NFromMap (s : shape_sig) | NTransform (s : shape_sig) | NBinary (s : shape_sig)
| NReduce (s : shape_sig) (n : nat) | NUnique (s : shape_sig) (n : nat) | NOrdered (s : shape_sig) (n : nat)
(* rhai standard packages that share a name with something above *)
| NStrAppend | NNegInt | NNegFloat | NAbsInt | NAbsFloat | NSqrtFloat | NFloorFloat | NRoundFloat
| NMinNum (is_max : bool)
| NPkgUnsupported.

Inductive pty := PDyn | PT (t : tag).
Definition pty_eqb (a b : pty) : bool :=
  match a, b with PDyn, PDyn => true | PT x, PT y => tag_eqb x y | _, _ => false end.
Fixpoint ptys_eqb (a b : list pty) : bool :=
  match a, b with
  | [], [] => true
  | x :: a', y :: b' => pty_eqb x y && ptys_eqb a' b'
  | _, _ => false
  end.
Record reg := { r_name : string; r_params : list pty; r_fn : native }.
Definition mkreg (n : string) (p : list pty) (f : native) : reg := {| r_name := n; r_params := p; r_fn := f |}.

(* -- tree.rs ------------------------------------------------------------------------------ *)
(* the operator / function names of `register`, with the opcode each Tree method builds *)
Definition tree_binary_fns : list (string * bop) :=
  [("+", BAdd); ("-", BSub); ("*", BMul); ("/", BDiv); ("%", BMod); ("min", BMin); ("max", BMax);
   ("compare", BCompare); ("mix", BMix); ("and", BAnd); ("or", BOr); ("atan2", BAtan)].
Definition tree_unary_fns : list (string * uop) :=
  [("abs", UAbs); ("sqrt", USqrt); ("square", USquare); ("sin", USin); ("cos", UCos); ("tan", UTan);
   ("asin", UAsin); ("acos", UAcos); ("atan", UAtan); ("exp", UExp); ("ln", ULn); ("not", UNot);
   ("rand", URand); ("ceil", UCeil); ("floor", UFloor); ("round", URound); ("-", UNeg)].
Definition tree_cmp_ops : list string := ["=="; "!="; "<"; ">"; "<="; ">="].

Definition tree_regs : list reg :=
  [mkreg "to_string" [PT TTree] NToStringTree;
   mkreg "remap" [PDyn; PT TTree; PT TTree; PT TTree] NRemap4;
   mkreg "remap" [PDyn; PT TTree; PT TTree] NRemap3;
   mkreg "axes" [] NAxes]
  ++ flat_map (fun nb => [mkreg (fst nb) [PT TTree; PDyn] (NTreeDyn (snd nb));
                          mkreg (fst nb) [PDyn; PT TTree] (NDynTree (snd nb))]) tree_binary_fns
  ++ map (fun nu => mkreg (fst nu) [PDyn] (NUnary (snd nu))) tree_unary_fns
  ++ flat_map (fun o => [mkreg o [PT TTree; PDyn] NBadCmp; mkreg o [PDyn; PT TTree] NBadCmp]) tree_cmp_ops.

(* -- types.rs ----------------------------------------------------------------------------- *)
Definition vec_all (V : tag) : list reg :=
  let bin (n : string) (o : vbop) :=
    [mkreg n [PT V; PT V] (NVecBin o); mkreg n [PT V; PT TFloat] (NVecBin o); mkreg n [PT V; PT TInt] (NVecBin o);
     mkreg n [PT TFloat; PT V] (NVecBin o); mkreg n [PT TInt; PT V] (NVecBin o)] in
  bin "+" VAdd ++ bin "*" VMul ++ bin "-" VSub ++ bin "/" VDiv ++ bin "min" VMin ++ bin "max" VMax
  ++ [mkreg "sqrt" [PT V] NVecSqrt; mkreg "abs" [PT V] NVecAbs; mkreg "-" [PT V] NVecNeg].
Definition types_regs : list reg :=
  [mkreg "to_string" [PT TVec2] NPkgUnsupported;
   mkreg "vec2" [PT TVec2] NVecId; mkreg "vec2" [PDyn; PDyn] NVec2Of2; mkreg "vec2" [PT TArr] NVec2Arr;
   mkreg "to_string" [PT TVec3] NPkgUnsupported;
   mkreg "vec3" [PT TVec3] NVecId; mkreg "vec3" [PDyn; PDyn; PDyn] NVec3Of3; mkreg "vec3" [PT TArr] NVec3Arr]
  ++ vec_all TVec2 ++ vec_all TVec3
  ++ [mkreg "to_string" [PT TAxis] NPkgUnsupported; mkreg "axis" [PDyn] NAxis;
      mkreg "to_string" [PT TPlane] NPkgUnsupported; mkreg "plane" [PDyn] NPlane1;
      mkreg "plane" [PDyn; PT TFloat] NPlane2].

(* -- shapes.rs: register_shape as a function of the signature ------------------------------ *)
Definition count_ty (fs : list field) (t : ty) : nat := List.length (filter (fun f => ty_eqb (f_ty f) t) fs).
Definition first_ty (fs : list field) : option ty := match fs with f :: _ => Some (f_ty f) | [] => None end.
Definition is_ty (o : option ty) (t : ty) : bool := match o with Some t' => ty_eqb t' t | None => false end.
Definition is_transform (fs : list field) : bool :=
  Nat.eqb (count_ty fs TyTree) 1 && is_ty (first_ty fs) TyTree && negb (has_ty fs TyVecTree).
Definition is_binary (fs : list field) : bool := Nat.eqb (count_ty fs TyTree) 2 && Nat.eqb (List.length fs) 2.
Definition is_reduce (fs : list field) : bool := Nat.eqb (List.length fs) 1 && is_ty (first_ty fs) TyVecTree.
Definition all_unique (fs : list field) : bool := forallb (fun t => Nat.leb (count_ty fs t) 1) all_tys.
Definition default_count (fs : list field) : nat :=
  List.length (filter (fun f => match f_default f with Some _ => true | None => false end) fs).
Definition dyns (n : nat) : list pty := repeat PDyn n.

Definition register_shape (s : shape_sig) : list reg :=
  let fs := s_fields s in
  let nm := s_name s in
  let n := List.length fs in
  let lo := (n - default_count fs)%nat in
  [mkreg nm [PT TMap] (NFromMap s)]
  ++ (if is_transform fs then [mkreg nm [PDyn; PT TMap] (NTransform s)] else [])
  ++ (if is_binary fs then [mkreg nm [PDyn; PDyn] (NBinary s)] else [])
  ++ (if is_reduce fs then map (fun k => mkreg nm (dyns k) (NReduce s k)) (seq 1 8) else [])
  ++ (if all_unique fs
      then map (fun k => mkreg nm (dyns k) (NUnique s k)) (filter (fun k => Nat.leb k 8) (seq lo (n - lo + 1)))
      else [])
  ++ (if is_binary fs || is_reduce fs || all_unique fs then []
      else if Nat.leb 1 n && Nat.leb n 8 then [mkreg nm (dyns n) (NOrdered s n)] else []).

(* -- the slice of rhai's standard packages that shares names with the above ----------------- *)
Definition pkg_regs : list reg :=
  let arith := ["+"; "-"; "*"; "/"; "%"] in
  let cmps := tree_cmp_ops in
  [mkreg "+" [PT TStr; PDyn] NStrAppend; mkreg "+" [PDyn; PT TStr] NPkgUnsupported;
   mkreg "+" [PT TArr; PT TArr] NPkgUnsupported; mkreg "==" [PT TArr; PT TArr] NPkgUnsupported;
   mkreg "!=" [PT TArr; PT TArr] NPkgUnsupported;
   mkreg "+" [PT TMap; PT TMap] NPkgUnsupported; mkreg "==" [PT TMap; PT TMap] NPkgUnsupported;
   mkreg "!=" [PT TMap; PT TMap] NPkgUnsupported;
   mkreg "-" [PT TInt] NNegInt; mkreg "-" [PT TFloat] NNegFloat; mkreg "-" [PT TF32] NPkgUnsupported;
   mkreg "abs" [PT TInt] NAbsInt; mkreg "abs" [PT TFloat] NAbsFloat; mkreg "abs" [PT TF32] NPkgUnsupported;
   mkreg "sqrt" [PT TFloat] NSqrtFloat; mkreg "floor" [PT TFloat] NFloorFloat; mkreg "round" [PT TFloat] NRoundFloat;
   mkreg "atan" [PT TFloat; PT TFloat] NPkgUnsupported; mkreg "to_string" [PDyn] NPkgUnsupported]
  ++ map (fun n => mkreg n [PT TFloat] NPkgUnsupported) ["sin"; "cos"; "tan"; "asin"; "acos"; "atan"; "exp"; "ln"]
  ++ flat_map (fun mm => [mkreg (fst mm) [PT TInt; PT TInt] (NMinNum (snd mm)); mkreg (fst mm) [PT TFloat; PT TFloat] (NMinNum (snd mm));
                          mkreg (fst mm) [PT TInt; PT TFloat] (NMinNum (snd mm)); mkreg (fst mm) [PT TFloat; PT TInt] (NMinNum (snd mm));
                          mkreg (fst mm) [PT TF32; PT TF32] NPkgUnsupported; mkreg (fst mm) [PT TInt; PT TF32] NPkgUnsupported;
                          mkreg (fst mm) [PT TF32; PT TInt] NPkgUnsupported; mkreg (fst mm) [PT TFloat; PT TF32] NPkgUnsupported;
                          mkreg (fst mm) [PT TF32; PT TFloat] NPkgUnsupported]) [("min", false); ("max", true)]
  ++ flat_map (fun o => [mkreg o [PT TF32; PT TF32] NPkgUnsupported; mkreg o [PT TInt; PT TF32] NPkgUnsupported;
                         mkreg o [PT TF32; PT TInt] NPkgUnsupported]) (arith ++ cmps).

(* -- Engine::resolve_fn ---------------------------------------------------------------------- *)
(* the candidate parameter lists in the order they are tried: bitmask 0 (exact), then 1, 2, ..,
   2^n - 1, where bit (n-1-i) set means "argument i replaced by Dynamic" — so the first
   argument is the most significant bit *)
Fixpoint cands (tys : list tag) : list (list pty) :=
  match tys with
  | [] => [[]]
  | t :: r => map (cons (PT t)) (cands r) ++ map (cons PDyn) (cands r)
  end.
(* the same list, written with the bitmask of the Rust code *)
Definition cand_mask (tys : list tag) (k : nat) : list pty :=
  let n := List.length tys in
  map (fun it => if Nat.testbit k (n - fst it - 1) then PDyn else PT (snd it)) (combine (seq 0 n) tys).

(* a later registration with the same key replaces the earlier one *)
Fixpoint find_last (rs : list reg) (nm : string) (ps : list pty) (acc : option native) : option native :=
  match rs with
  | [] => acc
  | r :: rest =>
      find_last rest nm ps (if String.eqb (r_name r) nm && ptys_eqb (r_params r) ps then Some (r_fn r) else acc)
  end.
Definition lookup (user pkg : list reg) (nm : string) (ps : list pty) : option native :=
  match find_last user nm ps None with
  | Some f => Some f
  | None => find_last pkg nm ps None
  end.
Fixpoint first_some {A B} (f : A -> option B) (l : list A) : option B :=
  match l with [] => None | a :: r => match f a with Some b => Some b | None => first_some f r end end.
Definition resolve (user pkg : list reg) (nm : string) (tys : list tag) : option native :=
  first_some (lookup user pkg nm) (cands tys).

(* ====================================================================================== *)
(* running a native                                                                        *)
Definition tree_to_string (t : tree) : string :=
  match t with EX => "x" | EY => "y" | EZ => "z" | _ => "Tree(..)" end.

Definition comps (d : dyn) (dim : nat) : list f32 :=
  match d with
  | DVec2 x y => [x; y]
  | DVec3 v => [vx v; vy v; vz v]
  | DFloat f => repeat (f32_of_f64 f) dim
  | DInt z => repeat (f32_of_int z) dim
  | _ => []
  end.
Definition mkvec (l : list f32) : res dyn :=
  match l with
  | [x; y] => ROk (DVec2 x y)
  | [x; y; z] => ROk (DVec3 (mk3 x y z))
  | _ => RErr EInternal
  end.
Definition vdim (d : dyn) : nat := match d with DVec3 _ => 3%nat | DVec2 _ _ => 2%nat | _ => 0%nat end.
Definition vbop_fn (o : vbop) : f32 -> f32 -> f32 :=
  match o with VAdd => fadd | VMul => fmul | VSub => fsub | VDiv => fdiv | VMin => fmin_std | VMax => fmax_std end.
Fixpoint zipw (f : f32 -> f32 -> f32) (a b : list f32) : list f32 :=
  match a, b with x :: a', y :: b' => f x y :: zipw f a' b' | _, _ => [] end.

Definition num_to_f64 (d : dyn) : option f64 :=
  match d with DInt z => Some (f64_of_int z) | DFloat f => Some f | _ => None end.

Section Run.
(* nalgebra's Rotation3::new(axis * -angle.to_radians()) as 9 row-major entries, supplied by
   the harness (it needs sinf/cosf): an oracle, never an axiom *)
Variable rot : v3 -> f32 -> list f32.

Definition run_native (f : native) (args : list dyn) : res dyn :=
  match f, args with
  | NToStringTree, [DTree t] => ROk (DStr (tree_to_string t))
  | NRemap4, [s; DTree x; DTree y; DTree z] => do t <- tree_from_dyn s; ROk (DTree (remap_xyz t x y z))
  | NRemap3, [s; DTree x; DTree y] => do t <- tree_from_dyn s; ROk (DTree (remap_xyz t x y EZ))
  | NAxes, [] => ROk (DMap [("x", DTree EX); ("y", DTree EY); ("z", DTree EZ)])
  | NTreeDyn b, [DTree a; d] => do t <- tree_from_dyn d; ROk (DTree (EBin b a t))
  | NDynTree b, [d; DTree t] => do a <- tree_from_dyn d; ROk (DTree (EBin b a t))
  | NUnary u, [d] => do a <- tree_from_dyn d; ROk (DTree (EUn u a))
  | NBadCmp, [_; _] => RErr ECompareTree
  | NVecId, [d] => ROk d
  | NVec2Of2, [a; b] => do x <- f32_from_dyn a; do y <- f32_from_dyn b; ROk (DVec2 x y)
  | NVec2Arr, [DArr [a; b]] => do x <- f32_from_dyn a; do y <- f32_from_dyn b; ROk (DVec2 x y)
  | NVec2Arr, [DArr _] => RErr ETypeMismatch
  | NVec3Of3, [a; b; c] => do x <- f32_from_dyn a; do y <- f32_from_dyn b; do z <- f32_from_dyn c; ROk (DVec3 (mk3 x y z))
  | NVec3Arr, [DArr [a; b]] => do x <- f32_from_dyn a; do y <- f32_from_dyn b; ROk (DVec3 (mk3 x y fzero))
  | NVec3Arr, [DArr [a; b; c]] => do x <- f32_from_dyn a; do y <- f32_from_dyn b; do z <- f32_from_dyn c; ROk (DVec3 (mk3 x y z))
  | NVec3Arr, [DArr _] => RErr ETypeMismatch
  | NVecBin o, [a; b] =>
      let dim := Nat.max (vdim a) (vdim b) in
      mkvec (zipw (vbop_fn o) (comps a dim) (comps b dim))
  | NVecSqrt, [a] => mkvec (map fsqrt (comps a 0))
  | NVecAbs, [a] => mkvec (map fabs (comps a 0))
  | NVecNeg, [a] => mkvec (map fneg (comps a 0))
  | NAxis, [d] => rmap DAxis (axis_from_dyn d)
  | NPlane1, [d] => rmap (fun p => DPlane (fst p) (snd p)) (plane_from_dyn d)
  | NPlane2, [d; DFloat off] => rmap (fun p => DPlane (fst p) (f32_of_f64 off)) (plane_from_dyn d)
  | NFromMap s, [DMap m] => build_from_map s m
  | NTransform s, [t; DMap m] => build_transform s t m
  | NBinary s, [a; b] => build_binary s a b
  | NReduce s _, _ => build_reduce s args
  | NUnique s _, _ => build_unique s args
  | NOrdered s _, _ => build_ordered s args
  | NStrAppend, [DStr s; DTree t] => ROk (DStr (String.append s (tree_to_string t)))
  | NStrAppend, [_; _] => RErr EUnsupported
  | NNegInt, [DInt z] => rmap DInt (chk (- z))
  | NNegFloat, [DFloat f] => ROk (DFloat (dneg f))
  | NAbsInt, [DInt z] => rmap DInt (chk (Z.abs z))
  | NAbsFloat, [DFloat f] => ROk (DFloat (dabs f))
  | NSqrtFloat, [DFloat f] => ROk (DFloat (dsqrt f))
  | NFloorFloat, [DFloat f] => ROk (DFloat (dfloor f))
  | NRoundFloat, [DFloat f] => ROk (DFloat (dround f))
  | NMinNum is_max, [DInt a; DInt b] =>
      ROk (DInt (if is_max then (if a >=? b then a else b) else (if a <=? b then a else b)))
  | NMinNum is_max, [a; b] =>
      match num_to_f64 a, num_to_f64 b with
      | Some x, Some y => ROk (DFloat (if is_max then (if dleb y x then x else y) else (if dleb x y then x else y)))
      | _, _ => RErr EInternal
      end
  | NPkgUnsupported, _ => RErr EUnsupported
  | _, _ => RErr EInternal          (* arguments that the parameter types rule out *)
  end.

(* ====================================================================================== *)
(* the shape table (fidget-shapes/src/lib.rs, in `visit_shapes` order)                      *)
Definition fld (n : string) (t : ty) (d : option value) : field := {| f_name := n; f_ty := t; f_default := d |}.
Definition zero3 : v3 := mk3 fzero fzero fzero.
Definition one3 : v3 := mk3 fone fone fone.
Definition mksig (n : string) (fs : list field) (b : list value -> option tree) : shape_sig :=
  {| s_name := n; s_fields := fs; s_build := b |}.

Definition rot3 (shape_name : string) (fs : list field) (ax : v3) : shape_sig :=
  mksig shape_name fs
    (fun vs => match vs with [VTree s; VFloat ang; VVec3 c] => Some (s_rotate s (rot ax ang) c) | _ => None end).
Definition refl1 (shape_name : string) (b : tree -> f32 -> tree) : shape_sig :=
  mksig shape_name [fld "shape" TyTree None; fld "offset" TyFloat (Some (VFloat fzero))]
    (fun vs => match vs with [VTree s; VFloat o] => Some (b s o) | _ => None end).
Definition rot_fields : list field :=
  [fld "shape" TyTree None; fld "angle" TyFloat (Some (VFloat fzero)); fld "center" TyVec3 (Some (VVec3 zero3))].

Definition sig_sphere := mksig "sphere"
  [fld "center" TyVec3 (Some (VVec3 zero3)); fld "radius" TyFloat (Some (VFloat fone))]
  (fun vs => match vs with [VVec3 c; VFloat r] => Some (s_sphere c r) | _ => None end).
Definition sig_box := mksig "box" [fld "lower" TyVec3 None; fld "upper" TyVec3 None]
  (fun vs => match vs with [VVec3 a; VVec3 b] => Some (s_box a b) | _ => None end).
Definition sig_plane := mksig "plane" [fld "axis" TyAxis None; fld "offset" TyFloat None]
  (fun vs => match vs with [VAxis a; VFloat o] => Some (s_plane a o) | _ => None end).
Definition sig_circle := mksig "circle"
  [fld "center" TyVec2 (Some (VVec2 fzero fzero)); fld "radius" TyFloat (Some (VFloat fone))]
  (fun vs => match vs with [VVec2 x y; VFloat r] => Some (s_circle x y r) | _ => None end).
Definition sig_rectangle := mksig "rectangle" [fld "lower" TyVec2 None; fld "upper" TyVec2 None]
  (fun vs => match vs with [VVec2 a b; VVec2 c d] => Some (s_rectangle a b c d) | _ => None end).
Definition sig_move := mksig "move" [fld "shape" TyTree None; fld "offset" TyVec3 (Some (VVec3 zero3))]
  (fun vs => match vs with [VTree s; VVec3 o] => Some (s_move s o) | _ => None end).
Definition sig_scale := mksig "scale" [fld "shape" TyTree None; fld "scale" TyVec3 (Some (VVec3 one3))]
  (fun vs => match vs with [VTree s; VVec3 k] => Some (s_scale s k) | _ => None end).
Definition sig_scale_uniform := mksig "scale_uniform" [fld "shape" TyTree None; fld "scale" TyFloat (Some (VFloat fone))]
  (fun vs => match vs with [VTree s; VFloat k] => Some (s_scale_uniform s k) | _ => None end).
Definition sig_reflect := mksig "reflect"
  [fld "shape" TyTree None; fld "plane" TyPlane (Some (VPlane (@axis_of f32 f32_sc gen_plane_yz_axis) fzero))]
  (fun vs => match vs with [VTree s; VPlane a o] => Some (s_reflect s a o) | _ => None end).
Definition sig_reflect_x := refl1 "reflect_x" s_reflect_x.
Definition sig_reflect_y := refl1 "reflect_y" s_reflect_y.
Definition sig_reflect_z := refl1 "reflect_z" s_reflect_z.
Definition sig_reflect_xy := refl1 "reflect_xy" s_reflect_xy.
Definition sig_repeat_x := mksig "repeat_x"
  [fld "shape" TyTree None; fld "radius" TyFloat (Some (VFloat fone)); fld "offset" TyFloat (Some (VFloat fzero))]
  (fun vs => match vs with [VTree s; VFloat r; VFloat o] => Some (s_repeat_x s r o) | _ => None end).
Definition sig_rotate := mksig "rotate"
  [fld "shape" TyTree None; fld "axis" TyAxis (Some (VAxis ax_z)); fld "angle" TyFloat (Some (VFloat fzero));
   fld "center" TyVec3 (Some (VVec3 zero3))]
  (fun vs => match vs with [VTree s; VAxis a; VFloat ang; VVec3 c] => Some (s_rotate s (rot a ang) c) | _ => None end).
Definition sig_rotate_x := rot3 "rotate_x" rot_fields ax_x.
Definition sig_rotate_y := rot3 "rotate_y" rot_fields ax_y.
Definition sig_rotate_z := rot3 "rotate_z" rot_fields ax_z.
Definition sig_revolve_y := refl1 "revolve_y" s_revolve_y.
Definition sig_extrude_z := mksig "extrude_z"
  [fld "shape" TyTree None; fld "lower" TyFloat (Some (VFloat fzero)); fld "upper" TyFloat (Some (VFloat fone))]
  (fun vs => match vs with [VTree s; VFloat a; VFloat b] => Some (s_extrude_z s a b) | _ => None end).
Definition sig_loft_z := mksig "loft_z"
  [fld "a" TyTree None; fld "b" TyTree None; fld "lower" TyFloat (Some (VFloat fzero)); fld "upper" TyFloat (Some (VFloat fone))]
  (fun vs => match vs with [VTree a; VTree b; VFloat lo; VFloat hi] => Some (s_loft_z a b lo hi) | _ => None end).
Definition sig_union := mksig "union" [fld "input" TyVecTree None]
  (fun vs => match vs with [VVecTree l] => Some (s_union l) | _ => None end).
Definition sig_blend := mksig "blend" [fld "a" TyTree None; fld "b" TyTree None; fld "radius" TyFloat None]
  (fun vs => match vs with [VTree a; VTree b; VFloat r] => Some (s_blend a b r) | _ => None end).
Definition sig_intersection := mksig "intersection" [fld "input" TyVecTree None]
  (fun vs => match vs with [VVecTree l] => Some (s_intersection l) | _ => None end).
Definition sig_difference := mksig "difference" [fld "shape" TyTree None; fld "cutout" TyTree None]
  (fun vs => match vs with [VTree a; VTree b] => Some (s_difference a b) | _ => None end).
Definition sig_inverse := mksig "inverse" [fld "shape" TyTree None]
  (fun vs => match vs with [VTree a] => Some (s_inverse a) | _ => None end).

Definition all_shapes : list shape_sig :=
  [sig_sphere; sig_box; sig_plane; sig_circle; sig_rectangle; sig_move; sig_scale; sig_scale_uniform;
   sig_reflect; sig_reflect_x; sig_reflect_y; sig_reflect_z; sig_reflect_xy; sig_repeat_x;
   sig_rotate; sig_rotate_x; sig_rotate_y; sig_rotate_z; sig_revolve_y; sig_extrude_z; sig_loft_z;
   sig_union; sig_blend; sig_intersection; sig_difference; sig_inverse].

(* engine(): tree::register, types::register, shapes::register — in this order *)
Definition user_regs : list reg := tree_regs ++ types_regs ++ flat_map register_shape all_shapes.

Definition call_fn (nm : string) (args : list dyn) : res dyn :=
  match resolve user_regs pkg_regs nm (map tag_of args) with
  | Some f => run_native f args
  | None => RErr ENoSuchFunction
  end.

(* ====================================================================================== *)
(* the script AST                                                                          *)
End Run.

Inductive arith := OAdd | OSub | OMul | ODiv | OMod.
Inductive cmpop := CEq | CNe | CLt | CGt | CLe | CGe.
Inductive binop := BA (o : arith) | BC (c : cmpop).
Inductive sexpr :=
| SInt (z : Z)                                   (* INT literal, |z| < 2^63 *)
| SFloat (bits : Z)                              (* FLOAT literal: f64 bit pattern, finite *)
| SStr (s : string)
| SChar (c : ascii)
| SVar (name : string)
| SNeg (e : sexpr)
| SBin (o : arith) (a b : sexpr)
| SCmp (c : cmpop) (a b : sexpr)
| SCall (f : string) (args : list sexpr)
| SMeth (recv : sexpr) (f : string) (args : list sexpr)
| SGet (e : sexpr) (name : string)
| SArr (es : list sexpr)
| SMap (kvs : list (string * sexpr)).

Definition arith_name (o : arith) : string :=
  match o with OAdd => "+" | OSub => "-" | OMul => "*" | ODiv => "/" | OMod => "%" end.
Definition cmp_name (c : cmpop) : string :=
  match c with CEq => "==" | CNe => "!=" | CLt => "<" | CGt => ">" | CLe => "<=" | CGe => ">=" end.
Definition binop_name (b : binop) : string := match b with BA o => arith_name o | BC c => cmp_name c end.
Definition arith_bop (o : arith) : bop :=
  match o with OAdd => BAdd | OSub => BSub | OMul => BMul | ODiv => BDiv | OMod => BMod end.

(* ---- constants.rs: `get_constant` (values: std::f64::consts, correctly rounded) ---------- *)
Definition constants : list (string * Z) :=
  [("PI", 4614256656552045848); ("E", 4613303445314885481); ("TAU", 4618760256179416344);
   ("SQRT_2", 4609047870845172685); ("LN_2", 4604418534313441775); ("LN_10", 4612367379483415830);
   ("LOG2_E", 4609176140021203710); ("LOG10_E", 4601495173785380110);
   ("FRAC_PI_2", 4609753056924675352); ("FRAC_PI_3", 4607394977673999206); ("FRAC_PI_4", 4605249457297304856);
   ("FRAC_PI_6", 4602891378046628710); ("FRAC_PI_8", 4600745857669934360);
   ("FRAC_1_PI", 4599405781057128579); ("FRAC_2_PI", 4603909380684499075); ("FRAC_2_SQRT_PI", 4607760587169110893);
   ("PHI", 4609965796441453736); ("GOLDEN_RATIO", 4609965796441453736);
   ("FRAC_1_SQRT_2", 4604544271217802189)].
Fixpoint assoc {A} (l : list (string * A)) (k : string) : option A :=
  match l with [] => None | (k', v) :: r => if String.eqb k' k then Some v else assoc r k end.
(* lib.rs `resolver` (the scope is empty: the fragment has no `let`) *)
Definition lookup_var (n : string) : res dyn :=
  if String.eqb n "x" then ROk (DTree EX)
  else if String.eqb n "y" then ROk (DTree EY)
  else if String.eqb n "z" then ROk (DTree EZ)
  else match assoc constants n with
       | Some b => ROk (DFloat (d_of_bits b))
       | None => RErr EVarNotFound
       end.

(* ---- rhai's built-in binary operators (func/builtin.rs, checked build) -------------------- *)
Definition int_arith (o : arith) (a b : Z) : res dyn :=
  match o with
  | OAdd => rmap DInt (chk (a + b))
  | OSub => rmap DInt (chk (a - b))
  | OMul => rmap DInt (chk (a * b))
  | ODiv => if b =? 0 then RErr EArith else rmap DInt (chk (Z.quot a b))
  | OMod => if b =? 0 then RErr EArith
            else if (a =? -9223372036854775808) && (b =? -1) then RErr EArith
            else ROk (DInt (Z.rem a b))
  end.
Definition int_cmp (c : cmpop) (a b : Z) : bool :=
  match c with CEq => a =? b | CNe => negb (a =? b) | CLt => a <? b | CGt => b <? a | CLe => a <=? b | CGe => b <=? a end.
Definition bool_cmp (c : cmpop) (a b : bool) : bool :=
  match c with
  | CEq => Bool.eqb a b | CNe => negb (Bool.eqb a b)
  | CLt => negb a && b | CGt => a && negb b | CLe => negb a || b | CGe => a || negb b
  end.
Definition float_arith (o : arith) (x y : f64) : res dyn :=
  match o with
  | OAdd => ROk (DFloat (dadd x y)) | OSub => ROk (DFloat (dsub x y))
  | OMul => ROk (DFloat (dmul x y)) | ODiv => ROk (DFloat (ddiv x y))
  | OMod => RErr EUnsupported                      (* fmod *)
  end.
(* the epsilon-relative comparisons of the checked build *)
Definition float_cmp (c : cmpop) (x y : f64) : bool :=
  let mx := if deqb (dmul x y) dzero then done else dmax_std (dabs x) (dabs y) in
  if deqb mx dzero then (match c with CEq | CGe | CLe => true | _ => false end)
  else match c with
       | CEq => dleb (ddiv (dabs (dsub x y)) mx) deps
       | CNe => dltb deps (ddiv (dabs (dsub x y)) mx)
       | CGt => dltb deps (ddiv (dsub x y) mx)
       | CGe => dltb (dneg deps) (ddiv (dsub x y) mx)
       | CLt => dltb deps (ddiv (dsub y x) mx)
       | CLe => dltb (dneg deps) (ddiv (dsub y x) mx)
       end.
Definition is_char (d : dyn) : bool := match d with DChar _ => true | _ => false end.
(* get_builtin_binary_op_fn; None = "no built-in" *)
Definition builtin (op : binop) (a b : dyn) : option (res dyn) :=
  match a, b with
  | DInt x, DInt y => Some (match op with BA o => int_arith o x y | BC c => ROk (DBool (int_cmp c x y)) end)
  | DBool x, DBool y => match op with BC c => Some (ROk (DBool (bool_cmp c x y))) | BA _ => None end
  | DStr x, DStr y =>
      match op with
      | BA OAdd => Some (ROk (DStr (String.append x y)))
      | BA OSub => Some (RErr EUnsupported)
      | BA _ => None
      | BC CEq => Some (ROk (DBool (String.eqb x y)))
      | BC CNe => Some (ROk (DBool (negb (String.eqb x y))))
      | BC _ => Some (RErr EUnsupported)
      end
  | _, _ =>
      match num_to_f64 a, num_to_f64 b with
      | Some x, Some y => Some (match op with BA o => float_arith o x y | BC c => ROk (DBool (float_cmp c x y)) end)
      | _, _ =>
          if is_char a || is_char b then Some (RErr EUnsupported)
          else if negb (tag_eqb (tag_of a) (tag_of b)) && negb (tag_numeric (tag_of a) && tag_numeric (tag_of b))
          then match op with
               | BC CNe => Some (ROk (DBool true))
               | BC _ => Some (ROk (DBool false))
               | BA _ => None
               end
          else None
      end
  end.

(* property access `e.name`: object-map lookup (fail_on_invalid_map_property) and the vec getters *)
Definition get_prop (v : dyn) (n : string) : res dyn :=
  match v with
  | DMap m => match map_get m n with Some d => ROk d | None => RErr EPropNotFound end
  | DVec2 x y => if String.eqb n "x" then ROk (DF32 x) else if String.eqb n "y" then ROk (DF32 y) else RErr EPropNotFound
  | DVec3 v => if String.eqb n "x" then ROk (DF32 (vx v)) else if String.eqb n "y" then ROk (DF32 (vy v))
               else if String.eqb n "z" then ROk (DF32 (vz v)) else RErr EPropNotFound
  | DTree _ | DAxis _ | DPlane _ _ | DF32 _ => RErr EPropNotFound
  | _ => RErr EUnsupported
  end.

Section Eval.
Variable rot : v3 -> f32 -> list f32.

Definition known_name (nm : string) : bool := existsb (fun r => String.eqb (r_name r) nm) (user_regs rot).
(* a call by name; names fidget does not register at all are outside the model *)
Definition call (nm : string) (args : list dyn) : res dyn :=
  if known_name nm then call_fn rot nm args else RErr EUnsupported.

(* Engine::eval_fn_call_expr for a binary operator under fast operators *)
Definition eval_op (op : binop) (a b : dyn) : res dyn :=
  let registered :=
    match resolve (user_regs rot) pkg_regs (binop_name op) [tag_of a; tag_of b] with
    | Some f => run_native f [a; b]
    | None => match builtin op a b with Some r => r | None => RErr ENoSuchFunction end
    end in
  if is_variant a || is_variant b then registered
  else match builtin op a b with Some r => r | None => registered end.

Fixpoint eval (e : sexpr) {struct e} : res dyn :=
  let evals := fix evals (l : list sexpr) : res (list dyn) :=
    match l with [] => ROk [] | a :: r => do v <- eval a; do vs <- evals r; ROk (v :: vs) end in
  match e with
  | SInt z => ROk (DInt z)
  | SFloat b => ROk (DFloat (d_of_bits b))
  | SStr s => ROk (DStr s)
  | SChar c => ROk (DChar c)
  | SVar n => lookup_var n
  | SNeg a => do v <- eval a; call "-" [v]
  | SBin o a b => do va <- eval a; do vb <- eval b; eval_op (BA o) va vb
  | SCmp c a b => do va <- eval a; do vb <- eval b; eval_op (BC c) va vb
  | SCall f args =>
      match args with
      | SVar n :: rest => do vs <- evals rest; do v <- lookup_var n; call f (v :: vs)
      | _ => do vs <- evals args; call f vs
      end
  | SMeth r f args => do vs <- evals args; do v <- eval r; call f (v :: vs)
  | SGet a n => do v <- eval a; get_prop v n
  | SArr es => rmap DArr (evals es)
  | SMap kvs =>
      rmap DMap ((fix evalkvs (l : list (string * sexpr)) : res (list (string * dyn)) :=
                    match l with
                    | [] => ROk []
                    | (k, a) :: r => do v <- eval a; do vs <- evalkvs r; ROk ((k, v) :: vs)
                    end) kvs)
  end.

End Eval.

(* ---- what the parser rejects ------------------------------------------------------------ *)
Definition is_alpha (c : ascii) : bool :=
  let n := nat_of_ascii c in ((65 <=? n) && (n <=? 90) || (97 <=? n) && (n <=? 122) || (n =? 95))%nat.
Definition is_digit (c : ascii) : bool := let n := nat_of_ascii c in ((48 <=? n) && (n <=? 57))%nat.
Fixpoint all_chars (p : ascii -> bool) (s : string) : bool :=
  match s with EmptyString => true | String c r => p c && all_chars p r end.
Definition reserved : list string :=
  ["let"; "const"; "if"; "else"; "switch"; "do"; "while"; "until"; "loop"; "for"; "in"; "continue"; "break";
   "return"; "throw"; "try"; "catch"; "import"; "export"; "as"; "fn"; "private"; "this"; "true"; "false";
   "global"; "Fn"; "call"; "curry"; "is_shared"; "is_def_fn"; "is_def_var"; "eval"; "print"; "debug"; "type_of";
   "var"; "static"; "begin"; "end"; "shared"; "with"; "is"; "goto"; "exit"; "match"; "case"; "default"; "void";
   "null"; "nil"; "new"; "use"; "module"; "package"; "super"; "thread"; "spawn"; "go"; "sync"; "async"; "await";
   "yield"; "public"; "protected"; "_"].
Definition ident_ok (s : string) : bool :=
  match s with
  | EmptyString => false
  | String c r => is_alpha c && all_chars (fun c => is_alpha c || is_digit c) r
                  && negb (existsb (String.eqb s) reserved)
  end.
Definition ascii7 (s : string) : bool := all_chars (fun c => (nat_of_ascii c <? 128)%nat) s.
Fixpoint keys_nodup (l : list string) : bool :=
  match l with [] => true | k :: r => negb (existsb (String.eqb k) r) && keys_nodup r end.
Definition f64_finite_bits (b : Z) : bool :=
  (0 <=? b) && (b <? 18446744073709551616) && negb ((Z.shiftr b 52) mod 2048 =? 2047).

Fixpoint parse_ok (e : sexpr) : bool :=
  match e with
  | SInt z => (-9223372036854775808 <? z) && (z <? 9223372036854775808)
  | SFloat b => f64_finite_bits b
  | SStr s => ascii7 s
  | SChar c => (nat_of_ascii c <? 128)%nat
  | SVar n => ident_ok n
  | SNeg a => parse_ok a
  | SBin _ a b | SCmp _ a b => parse_ok a && parse_ok b
  | SCall f args => ident_ok f && forallb parse_ok args
  | SMeth r f args => parse_ok r && ident_ok f && forallb parse_ok args
  | SGet a n => parse_ok a && ident_ok n
  | SArr es => forallb parse_ok es
  | SMap kvs =>
      keys_nodup (map fst kvs)
      && forallb (fun kv => ascii7 (fst kv) && negb (String.eqb (fst kv) "") && parse_ok (snd kv)) kvs
  end.

(* `engine.eval::<Tree>(script)`: a parse error, the evaluation error, or a cast error when the
   result is anything but a Tree (a number is NOT converted here) *)
Definition eval_script (rot : v3 -> f32 -> list f32) (e : sexpr) : res dyn :=
  if parse_ok e then eval rot e else RErr EParse.
Definition eval_tree (rot : v3 -> f32 -> list f32) (e : sexpr) : res tree :=
  do v <- eval_script rot e;
  match v with DTree t => ROk t | _ => RErr EOutputType end.

(* ====================================================================================== *)
(* observable normal forms (bit patterns instead of Flocq records), used by the examples and  *)
(* by the extracted runner                                                                  *)
Fixpoint tree_bits (t : tree) : etree Z :=
  match t with
  | EX => EX | EY => EY | EZ => EZ
  | EVar v => EVar v
  | EConst c => EConst (to_bits c)
  | EUn u a => EUn u (tree_bits a)
  | EBin b l r => EBin b (tree_bits l) (tree_bits r)
  | ERemapAxes t' a b c => ERemapAxes (tree_bits t') (tree_bits a) (tree_bits b) (tree_bits c)
  | ERemapAffine t' m => ERemapAffine (tree_bits t') (map to_bits m)
  end.
Definition d_to_bits (f : f64) : Z :=
  match f with
  | B754_zero s => if s then 9223372036854775808 else 0
  | B754_infinity s => if s then 18442240474082181120 else 9218868437227405312
  | B754_nan => 9221120237041090560
  | B754_finite s m e _ =>
      let m := Zpos m in
      let mag := if m <? 4503599627370496 then m else (e + 1075) * 4503599627370496 + (m - 4503599627370496) in
      if s then 9223372036854775808 + mag else mag
  end.
(* a dynamic value with every float replaced by its bit pattern *)
Inductive dshow :=
| ShInt (z : Z) | ShFloat (bits : Z) | ShBool (b : bool) | ShStr (s : string) | ShChar (c : ascii)
| ShArr (l : list dshow) | ShMap (m : list (string * dshow)) | ShTree (t : etree Z)
| ShVec (l : list Z) | ShAxis (l : list Z) | ShPlane (l : list Z) (off : Z) | ShF32 (bits : Z).
Definition v3_bits (v : v3) : list Z := [to_bits (vx v); to_bits (vy v); to_bits (vz v)].
Fixpoint dyn_show (d : dyn) : dshow :=
  match d with
  | DInt z => ShInt z | DFloat f => ShFloat (d_to_bits f) | DBool b => ShBool b | DStr s => ShStr s | DChar c => ShChar c
  | DArr l => ShArr (map dyn_show l)
  | DMap m => ShMap ((fix go (m : list (string * dyn)) := match m with [] => [] | (k, v) :: r => (k, dyn_show v) :: go r end) m)
  | DTree t => ShTree (tree_bits t)
  | DVec2 x y => ShVec [to_bits x; to_bits y]
  | DVec3 v => ShVec (v3_bits v)
  | DAxis a => ShAxis (v3_bits a)
  | DPlane a off => ShPlane (v3_bits a) (to_bits off)
  | DF32 f => ShF32 (to_bits f)
  end.
Definition eval_show (rot : v3 -> f32 -> list f32) (e : sexpr) : res dshow := rmap dyn_show (eval_script rot e).
Definition eval_tree_bits (rot : v3 -> f32 -> list f32) (e : sexpr) : res (etree Z) :=
  rmap tree_bits (eval_tree rot e).

(* ====================================================================================== *)
(* printing rhai source                                                                    *)
(* [print e] is rhai source text whose parse is [e] up to the two foldings rhai's parser does
   itself: `-(literal)` is a negative literal, and parentheses vanish.  Every binary operation,
   negative literal and non-variable receiver is parenthesised; floats are printed as their
   EXACT decimal expansion (every finite f64 has one), which rhai's `f64::from_str` reads back
   to the same bits; strings are ASCII with `\xNN` escapes. *)
From Coq Require Import DecimalString.
Definition dec_N (n : N) : string := NilZero.string_of_uint (N.to_uint n).
Definition dec_Z (z : Z) : string :=
  if z <? 0 then String.append "(-" (String.append (dec_N (Z.to_N (- z))) ")") else dec_N (Z.to_N z).
Fixpoint str_repeat (c : ascii) (n : nat) : string := match n with O => "" | S k => String c (str_repeat c k) end.
Definition pad_left (k : nat) (s : string) : string := String.append (str_repeat "0"%char (k - String.length s)) s.
(* drop trailing zeros of a fractional part, keeping one digit *)
Fixpoint trim0 (s : string) : string :=
  match s with
  | EmptyString => EmptyString
  | String c r => match trim0 r with
                  | EmptyString => if Ascii.eqb c "0"%char then EmptyString else String c EmptyString
                  | r' => String c r'
                  end
  end.
Definition frac_digits (s : string) : string := match trim0 s with EmptyString => "0" | t => t end.
Definition f64_mag_dec (b : Z) : string :=
  let e := (b / 4503599627370496) mod 2048 in
  let m := b mod 4503599627370496 in
  let M := if e =? 0 then m else m + 4503599627370496 in
  let E := (if e =? 0 then 1 else e) - 1075 in
  if 0 <=? E then String.append (dec_N (Z.to_N (M * 2 ^ E))) ".0"
  else
    let k := - E in
    let n := M * 5 ^ k in
    let p := 10 ^ k in
    String.append (dec_N (Z.to_N (n / p))) (String.append "." (frac_digits (pad_left (Z.to_nat k) (dec_N (Z.to_N (n mod p)))))).
Definition print_f64 (b : Z) : string :=
  if 9223372036854775808 <=? b then String.append "(-" (String.append (f64_mag_dec (b - 9223372036854775808)) ")")
  else f64_mag_dec b.
Definition hex_digit (n : nat) : ascii :=
  ascii_of_nat (if Nat.ltb n 10 then 48 + n else 87 + n).
Definition hex_byte (c : ascii) : string :=
  let n := nat_of_ascii c in String (hex_digit (Nat.div n 16)) (String (hex_digit (Nat.modulo n 16)) "").
Definition esc_char (q : ascii) (c : ascii) : string :=
  let n := nat_of_ascii c in
  if Ascii.eqb c q || Ascii.eqb c "\"%char then String "\"%char (String c "")
  else if Nat.ltb n 32 || Nat.eqb n 127 then String.append "\x" (hex_byte c)
  else String c "".
Fixpoint esc_str (q : ascii) (s : string) : string :=
  match s with EmptyString => "" | String c r => String.append (esc_char q c) (esc_str q r) end.
Definition dq : ascii := ascii_of_nat 34.
Definition quote (s : string) : string := String dq (String.append (esc_str dq s) (String dq "")).
Fixpoint join (sep : string) (l : list string) : string :=
  match l with [] => "" | [a] => a | a :: r => String.append a (String.append sep (join sep r)) end.
Definition paren (s : string) : string := String.append "(" (String.append s ")").

Fixpoint print (e : sexpr) : string :=
  let recv (r : sexpr) := match r with SVar n => n | _ => paren (print r) end in
  match e with
  | SInt z => dec_Z z
  | SFloat b => print_f64 b
  | SStr s => quote s
  | SChar c => String "'"%char (String.append (esc_char "'"%char c) "'")
  | SVar n => n
  | SNeg a => paren (String.append "-" (paren (print a)))
  | SBin o a b => paren (String.append (print a) (String.append " " (String.append (arith_name o) (String.append " " (print b)))))
  | SCmp c a b => paren (String.append (print a) (String.append " " (String.append (cmp_name c) (String.append " " (print b)))))
  | SCall f args => String.append f (paren (join ", " (map print args)))
  | SMeth r f args => String.append (recv r) (String.append "." (String.append f (paren (join ", " (map print args)))))
  | SGet a n => String.append (recv a) (String.append "." n)
  | SArr es => String.append "[" (String.append (join ", " (map print es)) "]")
  | SMap kvs =>
      String.append "#{"
        (String.append (join ", " (map (fun kv => String.append (quote (fst kv)) (String.append ": " (print (snd kv)))) kvs)) "}")
  end.

(* ====================================================================================== *)
(* the wire format (see the header)                                                         *)
Fixpoint hex_str (s : string) : string :=
  match s with EmptyString => "" | String c r => String.append (hex_byte c) (hex_str r) end.
Definition wire_str (s : string) : string :=
  String.append (dec_N (N.of_nat (String.length s))) (String.append " " (if String.eqb s "" then "-" else hex_str s)).
Definition nat_dec (n : nat) : string := dec_N (N.of_nat n).
Definition wire_Z (z : Z) : string := if z <? 0 then String.append "-" (dec_N (Z.to_N (- z))) else dec_N (Z.to_N z).
Definition arith_tok (o : arith) : string :=
  match o with OAdd => "add" | OSub => "sub" | OMul => "mul" | ODiv => "div" | OMod => "mod" end.
Definition cmp_tok (c : cmpop) : string :=
  match c with CEq => "eq" | CNe => "ne" | CLt => "lt" | CGt => "gt" | CLe => "le" | CGe => "ge" end.
Definition sp (a b : string) : string := String.append a (String.append " " b).
Fixpoint to_wire (e : sexpr) : string :=
  let many (l : list sexpr) := join " " (nat_dec (List.length l) :: map to_wire l) in
  match e with
  | SInt z => sp "I" (wire_Z z)
  | SFloat b => sp "F" (wire_Z b)
  | SStr s => sp "S" (wire_str s)
  | SChar c => sp "H" (nat_dec (nat_of_ascii c))
  | SVar n => sp "V" n
  | SNeg a => sp "N" (to_wire a)
  | SBin o a b => sp "B" (sp (arith_tok o) (sp (to_wire a) (to_wire b)))
  | SCmp c a b => sp "C" (sp (cmp_tok c) (sp (to_wire a) (to_wire b)))
  | SCall f args => sp "K" (sp f (many args))
  | SMeth r f args => sp "M" (sp f (sp (nat_dec (List.length args)) (join " " (to_wire r :: map to_wire args))))
  | SGet a n => sp "P" (sp n (to_wire a))
  | SArr es => sp "A" (many es)
  | SMap kvs => sp "O" (join " " (nat_dec (List.length kvs) :: map (fun kv => sp (wire_str (fst kv)) (to_wire (snd kv))) kvs))
  end.

Fixpoint tokens_aux (s : string) (cur : string) : list string :=
  match s with
  | EmptyString => [cur]
  | String c r => if Ascii.eqb c " "%char then cur :: tokens_aux r "" else tokens_aux r (String.append cur (String c ""))
  end.
Definition tokens (s : string) : list string := filter (fun t => negb (String.eqb t "")) (tokens_aux s "").
Fixpoint parse_N_aux (s : string) (acc : N) : option N :=
  match s with
  | EmptyString => Some acc
  | String c r => if is_digit c then parse_N_aux r (acc * 10 + N.of_nat (nat_of_ascii c - 48))%N else None
  end.
Definition parse_N (s : string) : option N := match s with EmptyString => None | _ => parse_N_aux s 0%N end.
Definition parse_Z (s : string) : option Z :=
  match s with
  | String "-"%char r => option_map (fun n => - Z.of_N n) (parse_N r)
  | _ => option_map Z.of_N (parse_N s)
  end.
Definition unhex_digit (c : ascii) : option nat :=
  let n := nat_of_ascii c in
  if is_digit c then Some (n - 48)%nat
  else if (Nat.leb 97 n && Nat.leb n 102) then Some (n - 87)%nat
  else if (Nat.leb 65 n && Nat.leb n 70) then Some (n - 55)%nat else None.
Fixpoint unhex (s : string) : option string :=
  match s with
  | EmptyString => Some ""
  | String a (String b r) =>
      match unhex_digit a, unhex_digit b, unhex r with
      | Some x, Some y, Some t => Some (String (ascii_of_nat (16 * x + y)) t)
      | _, _, _ => None
      end
  | _ => None
  end.
Definition parse_wstr (n h : string) : option string :=
  match parse_N n with
  | Some len =>
      match (if String.eqb h "-" then Some "" else unhex h) with
      | Some s => if N.eqb (N.of_nat (String.length s)) len then Some s else None
      | None => None
      end
  | None => None
  end.
Definition arith_of_tok (s : string) : option arith :=
  if String.eqb s "add" then Some OAdd else if String.eqb s "sub" then Some OSub else if String.eqb s "mul" then Some OMul
  else if String.eqb s "div" then Some ODiv else if String.eqb s "mod" then Some OMod else None.
Definition cmp_of_tok (s : string) : option cmpop :=
  if String.eqb s "eq" then Some CEq else if String.eqb s "ne" then Some CNe else if String.eqb s "lt" then Some CLt
  else if String.eqb s "gt" then Some CGt else if String.eqb s "le" then Some CLe else if String.eqb s "ge" then Some CGe else None.

Fixpoint pw (fuel : nat) (ts : list string) : option (sexpr * list string) :=
  match fuel with
  | O => None
  | S k =>
      let many := fix many (n : nat) (ts : list string) : option (list sexpr * list string) :=
        match n with
        | O => Some ([], ts)
        | S n' => match pw k ts with
                  | Some (e, r1) => match many n' r1 with Some (es, r2) => Some (e :: es, r2) | None => None end
                  | None => None
                  end
        end in
      let kvs := fix kvs (n : nat) (ts : list string) : option (list (string * sexpr) * list string) :=
        match n with
        | O => Some ([], ts)
        | S n' => match ts with
                  | kl :: kh :: r0 =>
                      match parse_wstr kl kh, pw k r0 with
                      | Some key, Some (e, r1) =>
                          match kvs n' r1 with Some (es, r2) => Some ((key, e) :: es, r2) | None => None end
                      | _, _ => None
                      end
                  | _ => None
                  end
        end in
      match ts with
      | [] => None
      | t :: r =>
          if String.eqb t "I" then match r with z :: r' => option_map (fun v => (SInt v, r')) (parse_Z z) | _ => None end
          else if String.eqb t "F" then match r with z :: r' => option_map (fun v => (SFloat v, r')) (parse_Z z) | _ => None end
          else if String.eqb t "S" then match r with n :: h :: r' => option_map (fun v => (SStr v, r')) (parse_wstr n h) | _ => None end
          else if String.eqb t "H" then match r with n :: r' => option_map (fun v => (SChar (ascii_of_N v), r')) (parse_N n) | _ => None end
          else if String.eqb t "V" then match r with n :: r' => Some (SVar n, r') | _ => None end
          else if String.eqb t "N" then match pw k r with Some (e, r') => Some (SNeg e, r') | None => None end
          else if String.eqb t "B" then
            match r with
            | o :: r0 => match arith_of_tok o, pw k r0 with
                         | Some o', Some (a, r1) => match pw k r1 with Some (b, r2) => Some (SBin o' a b, r2) | None => None end
                         | _, _ => None
                         end
            | _ => None
            end
          else if String.eqb t "C" then
            match r with
            | o :: r0 => match cmp_of_tok o, pw k r0 with
                         | Some o', Some (a, r1) => match pw k r1 with Some (b, r2) => Some (SCmp o' a b, r2) | None => None end
                         | _, _ => None
                         end
            | _ => None
            end
          else if String.eqb t "K" then
            match r with
            | f :: n :: r0 => match parse_N n with
                              | Some n' => match many (N.to_nat n') r0 with Some (es, r1) => Some (SCall f es, r1) | None => None end
                              | None => None
                              end
            | _ => None
            end
          else if String.eqb t "M" then
            match r with
            | f :: n :: r0 => match parse_N n, pw k r0 with
                              | Some n', Some (rc, r1) =>
                                  match many (N.to_nat n') r1 with Some (es, r2) => Some (SMeth rc f es, r2) | None => None end
                              | _, _ => None
                              end
            | _ => None
            end
          else if String.eqb t "P" then
            match r with n :: r0 => match pw k r0 with Some (e, r1) => Some (SGet e n, r1) | None => None end | _ => None end
          else if String.eqb t "A" then
            match r with
            | n :: r0 => match parse_N n with
                         | Some n' => match many (N.to_nat n') r0 with Some (es, r1) => Some (SArr es, r1) | None => None end
                         | None => None
                         end
            | _ => None
            end
          else if String.eqb t "O" then
            match r with
            | n :: r0 => match parse_N n with
                         | Some n' => match kvs (N.to_nat n') r0 with Some (es, r1) => Some (SMap es, r1) | None => None end
                         | None => None
                         end
            | _ => None
            end
          else None
      end
  end.
Definition parse_wire (s : string) : option sexpr :=
  let ts := tokens s in
  match pw (S (List.length ts)) ts with
  | Some (e, []) => Some e
  | _ => None
  end.

(* the extraction entry point: a wire line in, (rhai source, result) out *)
Definition run_wire (rot : v3 -> f32 -> list f32) (line : string) : option (string * res (etree Z)) :=
  match parse_wire line with
  | Some e => Some (print e, eval_tree_bits rot e)
  | None => None
  end.
