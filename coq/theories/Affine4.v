(* Affine4.v — the model's [aff_mul] (Expr.v) is the first three rows of the full 4x4 matrix product
   that nalgebra computes for `Affine3 * Affine3` (fidget: `next * mat` in Tree::remap_affine), in
   nalgebra's accumulation order, when the last row of both factors is exactly (0 0 0 1).  Generic in
   the scalar type, so it holds for the f32 instance bit for bit (including the a_i3 * 0 terms, which
   turn a -0 sum into +0 and an infinite translation into NaN) and for the real instance. *)
From Coq Require Import List Bool Arith ZArith.
From FV Require Import F32 Ops Expr.
Import ListNotations.
Local Open Scope nat_scope.

Section Aff4.
Context {T : Type}.
Variable S : @SC T.

(* a general 4x4 product in gemm order (column by column: the sum starts with the first product, there
   is no initial zero), on row-major lists of 16 entries *)
Definition m4_at (m : list T) (i j : nat) : T := nth (4 * i + j) m (sc_zero S).
Definition mat4_mul (a b : list T) : list T :=
  let e i j := sc_add S (sc_add S (sc_add S (sc_mul S (m4_at a i 0) (m4_at b 0 j)) (sc_mul S (m4_at a i 1) (m4_at b 1 j)))
                                   (sc_mul S (m4_at a i 2) (m4_at b 2 j)))
                        (sc_mul S (m4_at a i 3) (m4_at b 3 j)) in
  [e 0 0; e 0 1; e 0 2; e 0 3; e 1 0; e 1 1; e 1 2; e 1 3; e 2 0; e 2 1; e 2 2; e 2 3; e 3 0; e 3 1; e 3 2; e 3 3].

(* an affine map (3 rows of 4) as a 4x4 matrix: the last row is exactly (0 0 0 1) *)
Definition embed4 (m : list T) : list T := firstn 12 m ++ [sc_zero S; sc_zero S; sc_zero S; sc_one S].

Theorem aff_mul_is_mat4_mul (a b : list T) :
  length a = 12 -> length b = 12 ->
  firstn 12 (mat4_mul (embed4 a) (embed4 b)) = aff_mul S a b.
Proof.
  intros Ha Hb.
  do 13 (destruct a as [|? a]; try discriminate Ha).
  do 13 (destruct b as [|? b]; try discriminate Hb).
  reflexivity.
Qed.

Lemma aff_mul_length (a b : list T) : length (aff_mul S a b) = 12.
Proof. reflexivity. Qed.
End Aff4.
