(* Bulk.v — JitBulkEval::eval (fidget-jit/src/lib.rs): how a slice of n samples is fed
   to a kernel that only accepts multiples of the SIMD width S.
   - n < S : inputs are copied into S-wide scratch rows (padding = NaN), one call of S lanes;
   - n >= S: one call over the first m = (n / S) * S lanes, and, when m <> n, one more call
             over the LAST S lanes (offset n - S), which overlaps the first.
   A call (off, len) reads lanes [off, off+len) of every input row and writes the same
   lanes of every output row.  Output rows have max(n, S) lanes. *)
From Coq Require Import List Bool Arith Lia.
Import ListNotations.

Section Bulk.
Variable V : Type.
Variable nanv : V.

Record call := { c_off : nat; c_len : nat; c_scratch : bool }.

Definition driver_calls (n S : nat) : list call :=
  if Nat.ltb n S then [{| c_off := 0; c_len := S; c_scratch := true |}]
  else
    let m := (n / S) * S in
    {| c_off := 0; c_len := m; c_scratch := false |} ::
    (if Nat.eqb n m then [] else [{| c_off := n - S; c_len := S; c_scratch := false |}]).

(* One output row.  [f i] is what the kernel computes for lane i from the caller's inputs;
   lanes of the scratch rows beyond n hold padding, for which the kernel computes [pad i]. *)
Variable f : nat -> V.
Variable pad : nat -> V.

Definition lane_value (n : nat) (c : call) (i : nat) : V :=
  if c_scratch c then (if Nat.ltb i n then f i else pad i) else f i.

Fixpoint Tape_list_upd (l : list V) (k : nat) (v : V) : list V :=
  match l, k with
  | [], _ => []
  | _ :: xs, O => v :: xs
  | x :: xs, S k' => x :: Tape_list_upd xs k' v
  end.

Fixpoint write_lanes (row : list V) (off len : nat) (g : nat -> V) : list V :=
  match len with
  | O => row
  | S k => write_lanes (Tape_list_upd row (off + k) (g (off + k))) off k g
  end.

Definition run_call (n : nat) (row : list V) (c : call) : list V :=
  write_lanes row (c_off c) (c_len c) (lane_value n c).

Definition driver_row (n S : nat) : list V :=
  fold_left (run_call n) (driver_calls n S) (repeat nanv (Nat.max n S)).

(* what BulkOutput exposes: the first n lanes *)
Definition driver_result (n S : nat) : list V := firstn n (driver_row n S).

(* every lane a non-scratch call touches lies inside the caller's slices *)
Definition call_in_bounds (n : nat) (c : call) : Prop :=
  c_scratch c = false -> c_off c + c_len c <= n.
(* every lane any call writes lies inside the output rows; scratch rows are S wide *)
Definition call_out_in_bounds (n S : nat) (c : call) : Prop :=
  c_off c + c_len c <= Nat.max n S /\ (c_scratch c = true -> c_off c + c_len c <= S).

End Bulk.
