(* CtxExport.v — P5: exporting a node of a canonical context and importing the result
   back into the same context returns the same node and leaves the context unchanged;
   P2 for import: importing the same tree again finds the same node. *)
From Coq Require Import List Bool Arith ZArith Lia.
From Flocq Require Import IEEE754.BinarySingleNaN.
From FV Require Import F32 Ops Tape Alloc Flatten F32Sem CtxEval FlattenLib FlattenPass2 F32Facts Ctx CtxBase CtxCtors CtxSem CtxImport.
Import ListNotations.
Local Open Scope nat_scope.

(* the arena read as a tree table (sharing kept); the tree of node n is (export c, n) *)
Definition enode (x : cnode f32) : tnode :=
  match x with
  | NInput v => TInput v
  | NConst k => TConst k
  | NUnary u a => TUn u a
  | NBinary p l r => TBin p l r
  end.
Definition export (c : ctx) : list tnode := map enode c.

Lemma insert_existing c n x : dedup c -> nth_error c n = Some x -> insert c x = (c, n).
Proof.
  intros DD Hn. unfold insert. destruct (find_node c x 0) as [k|] eqn:E.
  - apply find_node_some in E. rewrite Nat.sub_0_r in E.
    destruct E as (_ & _ & (x' & Hk & Ek) & _).
    rewrite (DD _ _ _ _ Hk Hn Ek). reflexivity.
  - pose proof (find_node_none _ _ _ E _ _ Hn) as F. rewrite cnode_eqb_refl in F. discriminate.
Qed.

Section Export.
Variable o : oracle.

Ltac unfold_plans :=
  unfold p_build, p_add, p_mul, p_min, p_max, p_and, p_or, p_sub, p_div,
         p_check2, p_unary, p_comm, p_binary, gis, gconst.

Lemma ltb_facts l r : (l <? r) = true -> (l =? r) = false /\ (l <=? r) = true.
Proof. intros H. apply Nat.ltb_lt in H. split; [apply Nat.eqb_neq | apply Nat.leb_le]; lia. Qed.

(* a stored canonical binary node is rebuilt as itself *)
Lemma p_build_canon p l r xl xr :
  isc xl && isc xr = false ->
  (match p with BAnd | BOr => isc xl = false | _ => True end) ->
  canon_node (Some xl) (Some xr) p l r = true ->
  p_build o p (Some xl) (Some xr) l r = PIns (NBinary p l r).
Proof.
  intros H1 H3 H2.
  destruct p; simpl in H2; rewrite ?andb_true_iff, ?negb_true_iff in H2;
    repeat match goal with H : _ /\ _ |- _ => destruct H end;
    repeat match goal with H : (_ <? _) = true |- _ => apply ltb_facts in H; destruct H end;
    unfold p_build, p_add, p_mul, p_min, p_max, p_and, p_or, p_sub, p_div, p_check2, p_comm;
    repeat match goal with H : _ = _ |- _ => rewrite H end;
    unfold p_binary, gis, gconst in *; destruct xl, xr; simpl in *; try discriminate; try reflexivity.
  all: change (is_zerob c) with (feqb c fzero); rewrite H2; reflexivity.
Qed.

Definition axis_ok (c : ctx) (x k : nat) : Prop :=
  forall j, nth_error c j = Some (NInput k) -> j = x.

Lemma axis_ok_present c x k : dedup c -> nth_error c x = Some (NInput k) -> axis_ok c x k.
Proof.
  intros DD Hx j Hj. apply (DD _ _ _ _ Hj Hx). apply cnode_eqb_refl.
Qed.

Theorem import_export c x y z :
  ctx_canon c -> axis_ok c x 0 -> axis_ok c y 1 -> axis_ok c z 2 ->
  forall fuel n, n < length c -> n < fuel ->
  import_rec o fuel (export c) c (x, y, z) n = Ok (c, n).
Proof.
  intros ((WF & DD & OKn) & CN) Ax Ay Az.
  induction fuel as [|f IH]; intros n Ln Lf; [lia|].
  rewrite import_rec_S. unfold export.
  destruct (nth_error c n) as [node|] eqn:Hn; [|apply nth_error_None in Hn; lia].
  rewrite (map_nth_error enode _ _ Hn).
  destruct node as [v|k|u a|p l r]; cbn [enode].
  - destruct v as [|[|[|v]]].
    + rewrite (Ax _ Hn). reflexivity.
    + rewrite (Ay _ Hn). reflexivity.
    + rewrite (Az _ Hn). reflexivity.
    + unfold var. rewrite (insert_existing c n _ DD Hn). reflexivity.
  - unfold constant. rewrite (insert_existing c n _ DD Hn). reflexivity.
  - assert (La : a < n) by (eapply WF; [exact Hn | left; reflexivity]).
    rewrite IH by lia. cbn [bindR].
    pose proof (OKn _ _ Hn) as OKu. apply node_okb_unary in OKu. destruct OKu as [_ NCa].
    destruct (get_op_some c a ltac:(lia)) as (xa & Ha).
    rewrite op_unary_plan, Ha. unfold p_unary.
    destruct xa; try (elim (NCa c0); exact Ha);
      cbn [run]; rewrite (insert_existing c n _ DD Hn); reflexivity.
  - assert (Ll : l < n) by (eapply WF; [exact Hn | left; reflexivity]).
    assert (Lr : r < n) by (eapply WF; [exact Hn | right; left; reflexivity]).
    rewrite IH by lia. cbn [bindR]. rewrite IH by lia. cbn [bindR].
    destruct (get_op_some c l ltac:(lia)) as (xl & Hl).
    destruct (get_op_some c r ltac:(lia)) as (xr & Hr).
    rewrite build_bin_plan, Hl, Hr.
    pose proof (OKn _ _ Hn) as OKb. pose proof (CN _ _ Hn) as CNb.
    simpl in OKb, CNb. rewrite Hl, Hr in CNb.
    rewrite (is_constn_isc _ _ _ Hl), (is_constn_isc _ _ _ Hr) in OKb.
    apply andb_true_iff in OKb. destruct OKb as [O1 O2]. apply negb_true_iff in O1, O2.
    rewrite p_build_canon; auto.
    + cbn [run]. rewrite (insert_existing c n _ DD Hn). reflexivity.
    + destruct p; auto; simpl in O2; rewrite andb_true_r in O2; auto.
Qed.

(* the same for Context::import, when the context already holds X, Y and Z *)
Theorem import_export_top c x y z n :
  ctx_canon c ->
  nth_error c x = Some (NInput 0) -> nth_error c y = Some (NInput 1) ->
  nth_error c z = Some (NInput 2) -> n < length c ->
  import o (export c) n c = Ok (c, n).
Proof.
  intros CC Hx Hy Hz Ln. pose proof CC as ((WF & DD & OKn) & CN).
  unfold import, var.
  rewrite (insert_existing c x _ DD Hx). cbn [bindR].
  rewrite (insert_existing c y _ DD Hy). cbn [bindR].
  rewrite (insert_existing c z _ DD Hz). cbn [bindR].
  apply import_export; auto; try (apply axis_ok_present; auto).
  unfold export. rewrite map_length. lia.
Qed.

(* ---- P2 for import: stability of every step ----------------------------------- *)

Definition stable (F : ctx -> R) : Prop :=
  forall c c1 n, F c = Ok (c1, n) -> forall ext, F (c1 ++ ext) = Ok (c1 ++ ext, n).
Definition extends (F : ctx -> R) : Prop :=
  forall c c1 n, F c = Ok (c1, n) -> exists e, c1 = c ++ e.

Lemma se_bind (F : ctx -> R) (K : ctx -> nat -> R) :
  stable F -> extends F ->
  (forall m, stable (fun c => K c m)) -> (forall m, extends (fun c => K c m)) ->
  stable (fun c => bindR (F c) K) /\ extends (fun c => bindR (F c) K).
Proof.
  intros SF EF SK EK. split.
  - intros c c' n E ext. apply bindR_ok in E. destruct E as (c1 & n1 & E1 & E2).
    destruct (EK n1 _ _ _ E2) as (e & ->).
    rewrite <- app_assoc. rewrite (SF _ _ _ E1). cbn [bindR]. rewrite app_assoc.
    apply (SK n1 _ _ _ E2).
  - intros c c' n E. apply bindR_ok in E. destruct E as (c1 & n1 & E1 & E2).
    destruct (EF _ _ _ E1) as (e1 & ->). destruct (EK n1 _ _ _ E2) as (e2 & ->).
    exists (e1 ++ e2). rewrite app_assoc. reflexivity.
Qed.

Lemma se_ret m : stable (fun c => Ok (c, m)) /\ extends (fun c => Ok (c, m)).
Proof.
  split.
  - intros c c1 n E ext. inversion E; subst. reflexivity.
  - intros c c1 n E. inversion E; subst. exists []. rewrite app_nil_r. reflexivity.
Qed.

Lemma se_run_gen (F : ctx -> R) (P : ctx -> plan) :
  (forall c, F c = run c (P c)) ->
  (forall c c1 n ext, F c = Ok (c1, n) -> P (c1 ++ ext) = P c) ->
  stable F /\ extends F.
Proof.
  intros HF HP. split.
  - intros c c1 n E ext. rewrite HF, (HP _ _ _ ext E). rewrite HF in E.
    apply run_stable with (c := c). exact E.
  - intros c c1 n E. rewrite HF in E. eapply run_ext; eauto.
Qed.

Lemma se_constant v : stable (fun c => constant c v) /\ extends (fun c => constant c v).
Proof. apply (se_run_gen (fun c => constant c v) (fun _ => PIns (NConst v))); reflexivity. Qed.
Lemma se_var v : stable (fun c => var c v) /\ extends (fun c => var c v).
Proof. apply (se_run_gen (fun c => var c v) (fun _ => PIns (NInput v))); reflexivity. Qed.

Lemma se_unary a u : stable (fun c => op_unary o c a u) /\ extends (fun c => op_unary o c a u).
Proof.
  apply (se_run_gen (fun c => op_unary o c a u) (fun c => p_unary o (get_op c a) a u)).
  - intros; apply op_unary_plan.
  - intros c c1 n ext E. rewrite op_unary_plan in E.
    destruct (get_op c a) as [x|] eqn:Ha; [|discriminate].
    pose proof (run_ext _ _ _ _ E) as (e & ->).
    rewrite <- app_assoc, get_op_ext, Ha; auto. eapply nth_error_lt; eauto.
Qed.

Lemma se_build p a b :
  stable (fun c => build_bin o c p a b) /\ extends (fun c => build_bin o c p a b).
Proof.
  split.
  - intros c c1 n E ext. exact (cs_stable _ _ (build_bin_spec o p) _ _ _ _ _ ext E).
  - intros c c1 n E. destruct (cs_ok _ _ (build_bin_spec o p) _ _ _ _ _ E) as (_ & _ & Rch & _).
    eapply reach_ext; eauto.
Qed.

Lemma se_arow mat ax ay az i :
  stable (fun c => arow o mat ax ay az c i) /\ extends (fun c => arow o mat ax ay az c i).
Proof.
  unfold arow.
  repeat first
    [ apply se_bind; [apply se_constant | apply se_constant | intros ?m | intros ?m]
    | apply se_bind; [apply (se_build BMul) | apply (se_build BMul) | intros ?m | intros ?m]
    | apply se_bind; [apply (se_build BAdd) | apply (se_build BAdd) | intros ?m | intros ?m]
    | apply (se_build BAdd) | apply (se_build BMul) ].
Qed.

Lemma se_eq (F G : ctx -> R) :
  (forall c, F c = G c) -> stable G /\ extends G -> stable F /\ extends F.
Proof.
  intros EQ [SG EG]. split.
  - intros c c1 n E ext. rewrite EQ. rewrite EQ in E. eapply SG; eauto.
  - intros c c1 n E. rewrite EQ in E. eauto.
Qed.

Lemma se_err e : stable (fun _ => Err e) /\ extends (fun _ => Err e).
Proof. split; intros c c1 n E; discriminate. Qed.

Theorem import_rec_se : forall fuel t axes i,
  stable (fun c => import_rec o fuel t c axes i) /\
  extends (fun c => import_rec o fuel t c axes i).
Proof.
  induction fuel as [|f IH]; intros t [[ax ay] az] i; [apply se_err|].
  destruct (nth_error t i) as [[v|v|u a|p l r|tg x y z|tg mat]|] eqn:Hi.
  - apply se_eq with (G := fun c =>
      match v with 0 => Ok (c, ax) | 1 => Ok (c, ay) | 2 => Ok (c, az) | _ => var c v end).
    { intros c. rewrite import_rec_S, Hi. reflexivity. }
    destruct v as [|[|[|v]]]; try apply se_ret. apply se_var.
  - apply se_eq with (G := fun c => constant c v).
    { intros c. rewrite import_rec_S, Hi. reflexivity. }
    apply se_constant.
  - apply se_eq with (G := fun c =>
      bindR (import_rec o f t c (ax, ay, az) a) (fun c1 na => op_unary o c1 na u)).
    { intros c. rewrite import_rec_S, Hi. reflexivity. }
    apply se_bind; try apply IH; intros m; apply se_unary.
  - apply se_eq with (G := fun c =>
      bindR (import_rec o f t c (ax, ay, az) r) (fun c1 nr =>
      bindR (import_rec o f t c1 (ax, ay, az) l) (fun c2 nl => build_bin o c2 p nl nr))).
    { intros c. rewrite import_rec_S, Hi. reflexivity. }
    apply se_bind; try apply IH; intros m;
      apply se_bind; try apply IH; intros m'; apply se_build.
  - apply se_eq with (G := fun c =>
      bindR (import_rec o f t c (ax, ay, az) z) (fun c1 nz =>
      bindR (import_rec o f t c1 (ax, ay, az) y) (fun c2 ny =>
      bindR (import_rec o f t c2 (ax, ay, az) x) (fun c3 nx =>
      import_rec o f t c3 (nx, ny, nz) tg)))).
    { intros c. rewrite import_rec_S, Hi. reflexivity. }
    apply se_bind; try apply IH; intros m;
      apply se_bind; try apply IH; intros m';
      apply se_bind; try apply IH; intros m''; apply IH.
  - apply se_eq with (G := fun c =>
      bindR (arow o mat ax ay az c 0) (fun c1 nx => bindR (arow o mat ax ay az c1 1) (fun c2 ny =>
      bindR (arow o mat ax ay az c2 2) (fun c3 nz => import_rec o f t c3 (nx, ny, nz) tg)))).
    { intros c. rewrite import_rec_S, Hi. reflexivity. }
    apply se_bind; try apply se_arow; intros m;
      apply se_bind; try apply se_arow; intros m';
      apply se_bind; try apply se_arow; intros m''; apply IH.
  - apply se_eq with (G := fun _ => Err 121).
    { intros c. rewrite import_rec_S, Hi. reflexivity. }
    apply se_err.
Qed.

(* P2 for import: importing the same tree again (in the resulting context, or any
   later one) returns the same node and changes nothing *)
Theorem import_rec_dedup fuel t c axes i c' n :
  import_rec o fuel t c axes i = Ok (c', n) ->
  forall ext, import_rec o fuel t (c' ++ ext) axes i = Ok (c' ++ ext, n).
Proof. intros E ext. apply (proj1 (import_rec_se fuel t axes i) _ _ _ E). Qed.

Theorem import_dedup t root c c' n :
  import o t root c = Ok (c', n) -> import o t root c' = Ok (c', n).
Proof.
  intros E.
  assert (S : stable (fun c => import o t root c)).
  { unfold import.
    apply se_bind; try apply se_var; intros m;
      apply se_bind; try apply se_var; intros m';
      apply se_bind; try apply se_var; intros m''; apply import_rec_se. }
  pose proof (S _ _ _ E []) as H. rewrite app_nil_r in H. exact H.
Qed.

End Export.
