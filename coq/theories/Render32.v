(* Render32.v — the f32 instance of the renderer models (Render2.v / Render3.v): the abstract
   evaluators are the interval / point / gradient evaluation of an SSA tape through the shape
   wrapper (transform, variable slots), and `RenderHandle::simplify`.

   A "tape" here is the SSA tape of the function with its choice count and its variable map
   (VmData); the register tapes the interpreter actually runs are observationally equal to it
   (C01), so the model evaluates the SSA tape directly.  An interval evaluation that would
   panic (Interval::new assertion) yields [None]; the runner reports it. *)
From Coq Require Import List ZArith Bool Arith.
From Flocq Require Import IEEE754.BinarySingleNaN.
From FV Require Import F32 Ops Tape Alloc Flatten F32Sem Run01 Simplify Interval Grad F32Interval
     ShapeEval32 View32 Render2 Render3.
Import ListNotations.
Local Open Scope nat_scope.

Record rtape := { rt_ops : list fop; rt_cc : nat; rt_vars : varmap }.

(* value of variable [v] at a position: X, Y, Z only (render shapes have no free variables) *)
Definition pick3 {A} (x y z dflt : A) (v : nat) : A :=
  match v with 0 => x | 1 => y | 2 => z | _ => dflt end.

Section R32.
Variable o : oracle.
Variable mat : list f32.           (* the worker's 4x4 screen-to-model matrix, row-major *)

Definition fz (z : Z) : f32 := f32_of_Z z.

(* Interval::new(base, base + size as f32) *)
Definition span (c s : Z) : option (interval f32) := mk_interval o (fz c) (fadd (fz c) (fz s)).

Definition ires32 := option (interval f32).

Definition ieval_box (t : rtape) (bx by_ bz : option (interval f32)) : ires32 * option (list tchoice) :=
  match bx, by_, bz with
  | Some x, Some y, Some z =>
      match itransform (f32_fl o) x y z mat with
      | None => (None, None)
      | Some (x', y', z') =>
          let ins := map (pick3 (Some x') (Some y') (Some z') None) (rt_vars t) in
          let '(outs, tr) := run_interval o (rt_ops t) 1 ins in
          match outs with
          | [Some i] => (Some i, if trace_useful tr then Some tr else None)
          | _ => (None, None)
          end
      end
  | _, _, _ => (None, None)
  end.

Definition i_upper_neg32 (i : ires32) : bool := match i with Some i => fltb (hi i) fzero | None => false end.
Definition i_lower_pos32 (i : ires32) : bool := match i with Some i => fltb fzero (lo i) | None => false end.
Definition i_panic32 (i : ires32) : bool := match i with None => true | _ => false end.

(* RenderHandle::simplify: keep the parent unless the simplified tape is strictly shorter.
   A simplification error (impossible for the evaluator's own trace, C04) keeps the parent. *)
Definition simplify32 (t : rtape) (tr : list tchoice) : rtape :=
  match fsimplify 255 (rt_ops t) (rt_cc t) tr with
  | Ok z => if Nat.leb (length (rt_ops t)) (length (z_ssa z)) then t
            else {| rt_ops := z_ssa z; rt_cc := z_choices z; rt_vars := rt_vars t |}
  | Err _ => t
  end.

Definition feval_pt (t : rtape) (x y z : f32) : f32 :=
  let '(x', y', z') := ftransform mat x y z in
  match fst (run_point o (rt_ops t) 1 (map (pick3 x' y' z' fzero) (rt_vars t))) with
  | [v] => v
  | _ => fnan
  end.

(* ---- 2D: the slice height [zs] is part of the evaluators ---- *)
Variable zs : f32.
Definition ieval2 (t : rtape) (c : Z * Z) (s : Z) : ires32 * option (list tchoice) :=
  ieval_box t (span (fst c) s) (span (snd c) s) (mk_interval o zs zs).
Definition feval2 (t : rtape) (p : Z * Z) : f32 := feval_pt t (fz (fst p)) (fz (snd p)) zs.

Definition render2_32 (pp : bool) (tiles : list Z) (w h : Z) (root : rtape) : list (pixel f32) :=
  render2 ieval2 i_upper_neg32 i_lower_pos32 simplify32 feval2 fzero pp tiles w h root.

(* ---- 3D ---- *)
Definition ieval3 (t : rtape) (c : Z * Z * Z) (s : Z) : ires32 * option (list tchoice) :=
  let '(cx, cy, cz) := c in ieval_box t (span cx s) (span cy s) (span cz s).
Definition feval3 (t : rtape) (p : Z * Z * Z) : f32 :=
  let '(x, y, z) := p in feval_pt t (fz x) (fz y) (fz z).
Definition g32 := (f32 * f32 * f32)%type.
(* gradient evaluation through the shape wrapper: unit seeds on (x, y, z), Transformable for Grad *)
Definition geval_pt (t : rtape) (x y z : f32) : grad f32 :=
  let F := f32_fl o in
  let gx_ := {| gv := x; gx := fone; gy := fzero; gz := fzero |} in
  let gy_ := {| gv := y; gx := fzero; gy := fone; gz := fzero |} in
  let gz_ := {| gv := z; gx := fzero; gy := fzero; gz := fone |} in
  let '(x', y', z') := gtransform F gx_ gy_ gz_ mat in
  let sem := f32_grad_sem o in
  let st := eval_tape sem (rt_ops t) (map (pick3 x' y' z' (gfrom F fzero)) (rt_vars t)) (fresh_env sem) (fresh_out sem 1) in
  match m_out st with
  | [g] => g
  | _ => {| gv := fnan; gx := fnan; gy := fnan; gz := fnan |}
  end.
Definition geval3 (t : rtape) (p : Z * Z * Z) : g32 :=
  let '(x, y, z) := p in
  let g := geval_pt t (fz x) (fz y) (fz z) in (gx g, gy g, gz g).

Definition render3_32 (tiles : list Z) (w h d : Z) (root : rtape) : list (gpix g32) * bool :=
  render3_full ieval3 i_upper_neg32 i_lower_pos32 simplify32 feval3 (fun v => fltb v fzero) geval3
               (fzero, fzero, fzero) (fzero, fzero, fone) tiles w h d root.

(* did some interval evaluation of the run hit the Interval::new assertion?  (the renderers
   treat [None] as "ambiguous" in the model; the implementation would have panicked) *)
End R32.

Definition rtape_of (arena : list (cnode f32)) (root : nat) : result rtape :=
  match flatten arena [root] with
  | Ok (t, vars) => Ok {| rt_ops := t_ops t; rt_cc := t_choices t; rt_vars := vars |}
  | Err c => Err c
  end.
