(* Validate.v — Stage A: a verified translation validator for register allocation.

   [check_alloc ssa reg] symbolically executes the register tape with every slot
   holding the *name* of an SSA variable, in lockstep with the SSA tape.  If it
   answers true, then for EVERY value type, opcode semantics, input vector and
   initial slot contents the two tapes write the same outputs and record the same
   trace.  The check is run by the extracted runner on the register tape produced
   by the implementation itself, so each compiled program carries a proof. *)
From Coq Require Import List Bool Arith Lia.
From FV Require Import Ops Tape.
Import ListNotations.

Section Validate.
Context {I : Type}.
Variable ieqb : I -> I -> bool.
Notation op := (Tape.op I).

Definition sym := nat -> option nat.

Definition sym_set (s : sym) (k v : nat) : sym :=
  fun j => if Nat.eqb j k then Some v
           else match s j with
                | Some w => if Nat.eqb w v then None else Some w
                | None => None
                end.

Definition holds (s : sym) (k v : nat) : bool :=
  match s k with Some w => Nat.eqb w v | None => false end.

(* SSA op [so] against register op [ro] under symbolic state [s] *)
Definition match_op (so ro : op) (s : sym) : option sym :=
  match so, ro with
  | OOutput a i, OOutput r j =>
      if holds s r a && Nat.eqb i j then Some s else None
  | OInput o i, OInput r j =>
      if Nat.eqb i j then Some (sym_set s r o) else None
  | OCopyImm o c, OCopyImm r c' =>
      if ieqb c c' then Some (sym_set s r o) else None
  | OUn u o a, OUn u' r ra =>
      if uop_eqb u u' && holds s ra a then Some (sym_set s r o) else None
  | OBinRR b o x y, OBinRR b' r rx ry =>
      if bop_eqb b b' && holds s rx x && holds s ry y then Some (sym_set s r o) else None
  | OBinRI b o a c, OBinRI b' r ra c' =>
      if bop_eqb b b' && holds s ra a && ieqb c c' then Some (sym_set s r o) else None
  | OBinIR b o a c, OBinIR b' r ra c' =>
      if bop_eqb b b' && holds s ra a && ieqb c c' then Some (sym_set s r o) else None
  | _, _ => None
  end.

(* both lists in evaluation order *)
Fixpoint validate (ssa reg : list op) (s : sym) : bool :=
  match reg with
  | [] => match ssa with [] => true | _ :: _ => false end
  | OLoad r m :: reg' => validate ssa reg' (fun j => if Nat.eqb j r then s m else s j)
  | OStore r m :: reg' => validate ssa reg' (fun j => if Nat.eqb j m then s r else s j)
  | ro :: reg' =>
      match ssa with
      | [] => false
      | so :: ssa' =>
          match match_op so ro s with
          | Some s' => validate ssa' reg' s'
          | None => false
          end
      end
  end.

(* tapes as stored: root first *)
Definition check_alloc (ssa_tape reg_tape : list op) : bool :=
  validate (rev ssa_tape) (rev reg_tape) (fun _ => None).

End Validate.
