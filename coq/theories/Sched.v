(* Sched.v — the scheduling / cancellation bookkeeping of fidget-raster/src/lib.rs
   (`render_tiles`, `TileSizesRef::new`) and of the multithreaded octree build
   (task count of `build_inner_mt`), as far as it is logic:

   - which root tiles exist for an image and a tile-size list (after trimming);
   - tasks run in SOME time order (any interleaving rayon produces is a permutation of the
     task list); each task first polls the cancel token; the token becomes set at some
     moment of that time order (or never); the results are collected in TASK order
     (`collect::<Result<Vec<_>, ()>>().ok()` on an indexed parallel iterator);
   - the final image is assembled by copying each tile's pixels, clipped to the image.

   What the model cannot exhibit: data races inside a task, rayon's own correctness, memory
   ordering of the relaxed atomic flag (a set flag may be observed late: that only moves the
   moment [cancel_at] later in the time order, which the theorems quantify over). *)
From Coq Require Import List Arith Bool Lia Permutation ZArith.
Import ListNotations.

(* ---- TileSizesRef::new: drop leading sizes while the NEXT one still covers the image ---- *)
(* let i = tiles.iter().position(|t| *t < max_size).unwrap_or(tiles.len()).saturating_sub(1) *)
Fixpoint position_lt (tiles : list nat) (max_size : nat) (k : nat) : option nat :=
  match tiles with
  | [] => None
  | t :: rest => if Nat.ltb t max_size then Some k else position_lt rest max_size (S k)
  end.
Definition trim_index (tiles : list nat) (max_size : nat) : nat :=
  match position_lt tiles max_size 0 with Some p => p - 1 | None => length tiles - 1 end.
Definition tile_sizes_ref (tiles : list nat) (max_size : nat) : list nat :=
  skipn (trim_index tiles max_size) tiles.

Definition div_ceil (a b : nat) : nat := (a + b - 1) / b.

(* root tiles, in the order render_tiles pushes them: for i in 0..ceil(w/t) { for j in 0..ceil(h/t) } *)
Definition root_tiles (w h t : nat) : list (nat * nat) :=
  flat_map (fun i => map (fun j => (i * t, j * t)) (seq 0 (div_ceil h t))) (seq 0 (div_ceil w t)).

Definition raster_task_count (w h : nat) (tiles : list nat) : nat :=
  match tile_sizes_ref tiles (Nat.max w h) with
  | [] => 0
  | t :: _ => length (root_tiles w h t)
  end.

(* ---- octree: number of tasks after the breadth-first expansion ---- *)
(* while todo.len() < target { pop one, push 8 }   starting from one cell *)
Fixpoint expand (fuel todo target : nat) : nat :=
  match fuel with
  | O => todo
  | S f => if Nat.ltb todo target then expand f (todo + 7) target else todo
  end.
(* build_inner: a depth-0 build never takes the multithreaded path (no task at all) *)
Definition octree_task_count (depth threads : nat) : nat :=
  match depth with
  | O => 0
  | _ => let target := Nat.min (8 ^ depth) (threads * 10) in expand target 1 target
  end.

(* ---- running tasks under a cancel token ---- *)
Section Tasks.
Context {A B : Type}.
Variable f : A -> B.

(* [order]: the time order of the polls, a list of task indices; [cancel_at]: the token is
   set just before the poll at that position of the time order (None: never set).
   A task returns Err(()) iff its poll comes at or after that moment. *)
Definition sees_cancel (order : list nat) (cancel_at : option nat) (task : nat) : bool :=
  match cancel_at with
  | None => false
  | Some k => existsb (fun p => Nat.eqb (nth p order (length order)) task) (seq k (length order - k))
  end.

Definition run_tasks (tasks : list A) (order : list nat) (cancel_at : option nat) : option (list B) :=
  if existsb (sees_cancel order cancel_at) (seq 0 (length tasks)) then None
  else Some (map f tasks).
End Tasks.

(* ---- assembling the image from tile buffers ---- *)
Section Assemble.
Context {P : Type}.
Variable dflt : P.
(* an image as a function of (x, y); a tile buffer as a function of the offset inside the tile *)
Definition image := nat -> nat -> P.
Definition blit (w h t : nat) (img : image) (tile : (nat * nat) * (nat -> nat -> P)) : image :=
  let '((cx, cy), data) := tile in
  fun x y =>
    if (cx <=? x) && (x <? cx + t) && (cy <=? y) && (y <? cy + t) && (x <? w) && (y <? h)
    then data (x - cx) (y - cy) else img x y.
Definition assemble (w h t : nat) (tiles : list ((nat * nat) * (nat -> nat -> P))) : image :=
  fold_left (blit w h t) tiles (fun _ _ => dflt).
End Assemble.

(* ====================================================================================== *)
(* Proofs                                                                                 *)
(* ====================================================================================== *)

Section TaskProofs.
Context {A B : Type}.
Variable f : A -> B.

Lemma existsb_false_forall {X} (p : X -> bool) l : existsb p l = false <-> forall x, In x l -> p x = false.
Proof.
  induction l as [|a l IH]; simpl; [split; [intros _ x []|reflexivity]|].
  rewrite orb_false_iff, IH. split.
  - intros [Ha Hl] x [<-|Hx]; auto.
  - intros H. split; [apply H; left; reflexivity|intros x Hx; apply H; right; exact Hx].
Qed.

(* never cancelled: always the complete result, in task order, whatever the schedule *)
Theorem never_cancelled_completes (tasks : list A) (order : list nat) :
  run_tasks f tasks order None = Some (map f tasks).
Proof.
  unfold run_tasks. replace (existsb _ _) with false; [reflexivity|].
  symmetry. apply existsb_false_forall. intros; reflexivity.
Qed.

(* all or nothing: the result is the complete result or none, never a partial one *)
Theorem all_or_nothing (tasks : list A) (order : list nat) (cancel_at : option nat) :
  run_tasks f tasks order cancel_at = None \/ run_tasks f tasks order cancel_at = Some (map f tasks).
Proof. unfold run_tasks. destruct (existsb _ _); auto. Qed.

(* a schedule: every task polls exactly once *)
Definition schedule (n : nat) (order : list nat) : Prop := Permutation order (seq 0 n).

(* cancelled before the last poll of ANY schedule: no result.  (k counts polls that happened
   before the token was set; k < n means at least one poll comes afterwards.) *)
Theorem cancelled_in_time_gives_none (tasks : list A) (order : list nat) (k : nat) :
  schedule (length tasks) order -> k < length tasks ->
  run_tasks f tasks order (Some k) = None.
Proof.
  intros S Hk. unfold run_tasks.
  assert (Hlen : length order = length tasks).
  { rewrite (Permutation_length S). apply seq_length. }
  set (t := nth k order (length order)).
  assert (Ht : In t (seq 0 (length tasks))).
  { apply (Permutation_in _ S). apply nth_In. lia. }
  replace (existsb _ _) with true; [reflexivity|].
  symmetry. apply existsb_exists. exists t. split; [exact Ht|].
  unfold sees_cancel. apply existsb_exists. exists k. split.
  - apply in_seq. lia.
  - apply Nat.eqb_eq. reflexivity.
Qed.

(* cancelled only after every poll: the complete result *)
Theorem cancelled_too_late_completes (tasks : list A) (order : list nat) (k : nat) :
  length order = length tasks -> length tasks <= k ->
  run_tasks f tasks order (Some k) = Some (map f tasks).
Proof.
  intros Hlen Hk. unfold run_tasks.
  replace (existsb _ _) with false; [reflexivity|].
  symmetry. apply existsb_false_forall. intros t _. unfold sees_cancel.
  replace (length order - k) with 0 by lia. reflexivity.
Qed.

(* hence the outcome depends on the schedule only through "was the token set before the last
   poll": two schedules with the same k agree *)
Corollary schedule_unobservable (tasks : list A) (o1 o2 : list nat) (c : option nat) :
  schedule (length tasks) o1 -> schedule (length tasks) o2 ->
  run_tasks f tasks o1 c = run_tasks f tasks o2 c.
Proof.
  intros S1 S2. destruct c as [k|]; [|rewrite !never_cancelled_completes; reflexivity].
  destruct (lt_dec k (length tasks)) as [H|H].
  - rewrite !cancelled_in_time_gives_none; auto.
  - assert (L1 : length o1 = length tasks) by (rewrite (Permutation_length S1); apply seq_length).
    assert (L2 : length o2 = length tasks) by (rewrite (Permutation_length S2); apply seq_length).
    rewrite !cancelled_too_late_completes; auto; lia.
Qed.
End TaskProofs.

Section AssembleProofs.
Context {P : Type}.
Variable dflt : P.

Definition covers (t : nat) (c : nat * nat) (x y : nat) : bool :=
  (fst c <=? x) && (x <? fst c + t) && (snd c <=? y) && (y <? snd c + t).

Lemma blit_spec w h t (img : @image P) c (data : nat -> nat -> P) x y :
  blit w h t img (c, data) x y =
  if covers t c x y && (x <? w) && (y <? h) then data (x - fst c) (y - snd c) else img x y.
Proof. destruct c as [cx cy]. unfold blit, covers. simpl. reflexivity. Qed.

(* tiles whose regions are pairwise disjoint *)
Definition disjoint_tiles (t : nat) (tiles : list ((nat * nat) * (nat -> nat -> P))) : Prop :=
  forall i j a b x y, i <> j -> nth_error tiles i = Some a -> nth_error tiles j = Some b ->
    covers t (fst a) x y = true -> covers t (fst b) x y = true -> False.

(* a pixel of the assembled image is the pixel of THE tile covering it (or the default) *)
Lemma assemble_spec_gen w h t (tiles : list ((nat * nat) * (nat -> nat -> P))) : forall (img : @image P) x y,
  x < w -> y < h ->
  (forall a, In a tiles -> covers t (fst a) x y = false) ->
  fold_left (blit w h t) tiles img x y = img x y.
Proof.
  induction tiles as [|[c d] rest IH]; intros img x y Hx Hy Hn; [reflexivity|].
  assert (Hrest : forall a, In a rest -> covers t (fst a) x y = false) by (intros a Ha; apply Hn; right; exact Ha).
  cbn [fold_left].
  rewrite (IH (blit w h t img (c, d)) x y Hx Hy Hrest).
  rewrite blit_spec. pose proof (Hn (c, d) (or_introl eq_refl)) as Hc. cbn [fst] in Hc. rewrite Hc. reflexivity.
Qed.

Theorem assemble_pixel w h t (tiles : list ((nat * nat) * (nat -> nat -> P))) a x y :
  disjoint_tiles t tiles -> In a tiles -> covers t (fst a) x y = true -> x < w -> y < h ->
  assemble dflt w h t tiles x y = snd a (x - fst (fst a)) (y - snd (fst a)).
Proof.
  unfold assemble. generalize (fun (_ _ : nat) => dflt) as img.
  induction tiles as [|[c d] rest IH]; intros img D Hin Hc Hx Hy; [destruct Hin|].
  cbn [fold_left]. destruct Hin as [<-|Hin].
  - assert (Hrest : forall b, In b rest -> covers t (fst b) x y = false).
    { intros b Hb. destruct (covers t (fst b) x y) eqn:E; [|reflexivity]. exfalso.
      apply In_nth_error in Hb. destruct Hb as (j & Hj).
      apply (D 0 (S j) (c, d) b x y); auto. }
    rewrite (assemble_spec_gen w h t rest (blit w h t img (c, d)) x y Hx Hy Hrest).
    rewrite blit_spec. cbn [fst snd] in *. rewrite Hc.
    apply Nat.ltb_lt in Hx. apply Nat.ltb_lt in Hy. rewrite Hx, Hy. reflexivity.
  - apply IH; auto.
    intros i j p q x' y' Hij Hi Hj. apply (D (S i) (S j) p q x' y'); auto.
Qed.

(* therefore the order in which tiles arrive does not matter *)
Theorem assemble_order_unobservable w h t (tiles tiles' : list ((nat * nat) * (nat -> nat -> P))) :
  Permutation tiles tiles' -> disjoint_tiles t tiles -> disjoint_tiles t tiles' ->
  forall x y, x < w -> y < h -> assemble dflt w h t tiles x y = assemble dflt w h t tiles' x y.
Proof.
  intros Pm D D' x y Hx Hy.
  destruct (existsb (fun a => covers t (fst a) x y) tiles) eqn:E.
  - apply existsb_exists in E. destruct E as (a & Ha & Hc).
    rewrite (assemble_pixel w h t tiles a x y D Ha Hc Hx Hy).
    rewrite (assemble_pixel w h t tiles' a x y D' (Permutation_in _ Pm Ha) Hc Hx Hy). reflexivity.
  - assert (Hn : forall a, In a tiles -> covers t (fst a) x y = false).
    { intros a Ha. destruct (covers t (fst a) x y) eqn:C; [|reflexivity].
      assert (existsb (fun a => covers t (fst a) x y) tiles = true) by (apply existsb_exists; exists a; auto). congruence. }
    unfold assemble. rewrite !assemble_spec_gen; auto.
    intros a Ha. apply Hn. apply (Permutation_in _ (Permutation_sym Pm) Ha).
Qed.
End AssembleProofs.
