(* FlattenPass2.v — [arena_ok], the second loop of SsaTape::new (Flatten.pass2):
   Kahn invariant, preservation, termination within the fuel, completeness. *)
From Coq Require Import List Bool Arith Lia.
From FV Require Import Ops Tape Alloc Flatten CtxEval FlattenLib FlattenPass1.
Import ListNotations.

Section ArenaOk.
Context {I : Type}.

Definition is_constn (arena : list (cnode I)) (k : nat) : bool :=
  match nth_error arena k with Some (NConst _) => true | _ => false end.

(* what Context's constructors guarantee of each node (constant folding):
   no f(const); no f(const, const); no And/Or(const, _); no Copy opcode *)
Definition node_okb (arena : list (cnode I)) (o : cnode I) : bool :=
  match o with
  | NUnary u a => negb (uop_eqb u UCopy) && negb (is_constn arena a)
  | NBinary b l r =>
      negb (is_constn arena l && is_constn arena r) &&
      negb (is_constn arena l && match flatten_imm_lhs b with None => true | Some _ => false end)
  | _ => true
  end.

Definition arena_ok (arena : list (cnode I)) (roots : list nat) : Prop :=
  arena_wf arena /\
  (forall r, In r roots -> r < length arena) /\
  (forall k o, nth_error arena k = Some o -> node_okb arena o = true).

(* the same as a boolean *)
Fixpoint wfb_from (i : nat) (a : list (cnode I)) : bool :=
  match a with
  | [] => true
  | o :: r => forallb (fun c => Nat.ltb c i) (children o) && wfb_from (S i) r
  end.
Definition arena_okb (arena : list (cnode I)) (roots : list nat) : bool :=
  wfb_from 0 arena && forallb (fun r => Nat.ltb r (length arena)) roots &&
  forallb (node_okb arena) arena.

Lemma wfb_from_spec : forall a i,
  wfb_from i a = true <->
  (forall k n, nth_error a k = Some n -> forall c, In c (children n) -> c < i + k).
Proof.
  induction a; simpl; intros i.
  - split; auto. intros _ [|k] n H; discriminate.
  - rewrite andb_true_iff, forallb_forall, IHa. split.
    + intros [A B] [|k] n H c Hc; simpl in H.
      * inversion H; subst. apply A in Hc. apply Nat.ltb_lt in Hc. lia.
      * specialize (B k n H c Hc). lia.
    + intros H. split.
      * intros c Hc. apply Nat.ltb_lt. specialize (H 0 a eq_refl c Hc). lia.
      * intros k n Hk c Hc. specialize (H (S k) n Hk c Hc). lia.
Qed.

Lemma arena_okb_spec arena roots : arena_okb arena roots = true <-> arena_ok arena roots.
Proof.
  unfold arena_okb, arena_ok, arena_wf.
  rewrite !andb_true_iff, wfb_from_spec, !forallb_forall.
  split.
  - intros [[A B] C]. repeat split.
    + intros i n H c Hc. apply (A i n H c Hc).
    + intros r Hr. apply Nat.ltb_lt. auto.
    + intros k o H. apply C. eapply nth_error_In; eauto.
  - intros (A & B & C). repeat split.
    + intros k n H c Hc. simpl. eapply A; eauto.
    + intros r Hr. apply Nat.ltb_lt. auto.
    + intros o Ho. apply In_nth_error in Ho. destruct Ho as (k & Hk). eauto.
Qed.

End ArenaOk.

Section P2.
Context {I : Type}.
Variable arena : list (cnode I).
Variable roots : list nat.
Notation n := (length arena).
Notation op := (Tape.op I).
Hypothesis OK : arena_ok arena roots.

(* the result of pass 1 *)
Variable s1 : @p1 I.
Variable vis : list nat.
Hypothesis F1 : Inv1 arena roots s1 [] vis.

Notation mp := (p1_map s1).
Notation vars := (p1_vars s1).

Lemma WF : arena_wf arena. Proof. apply OK. Qed.

Lemma vis_lt k : In k vis -> k < n.
Proof.
  intros H. apply (i1_seen _ _ _ _ _ F1) in H. apply nth_true_lt in H.
  rewrite (i1_ls _ _ _ _ _ F1) in H. auto.
Qed.

Lemma vis_node k : In k vis -> exists o, nth_error arena k = Some o.
Proof.
  intros H. apply vis_lt in H. destruct (nth_error arena k) eqn:E; eauto.
  apply nth_error_None in E. lia.
Qed.

Lemma vis_closed p c : In p vis -> In c (childs arena p) -> In c vis.
Proof. intros A B. destruct (i1_closed _ _ _ _ _ F1 p c A B) as [H|[]]; auto. Qed.

Lemma vis_roots r : In r roots -> In r vis.
Proof. intros A. destruct (i1_roots _ _ _ _ _ F1 r A) as [H|[]]; auto. Qed.

Lemma vis_slot k o : In k vis -> nth_error arena k = Some o ->
  slot_ok o (nth k mp None) (p1_slots s1).
Proof. apply (i1_map _ _ _ _ _ F1). Qed.

Lemma vis_const k : In k vis -> is_constn arena k = true -> exists c, nth k mp None = Some (SImm c).
Proof.
  intros Hk Hc. unfold is_constn in Hc.
  destruct (nth_error arena k) as [o|] eqn:E; try discriminate.
  destruct o; try discriminate. exists c. apply (vis_slot k _ Hk E).
Qed.

Lemma vis_nonconst k : In k vis -> is_constn arena k = false ->
  exists r, nth k mp None = Some (SReg r) /\ r < p1_slots s1.
Proof.
  intros Hk Hc. unfold is_constn in Hc.
  destruct (vis_node k Hk) as (o & E). rewrite E in Hc.
  pose proof (vis_slot k o Hk E) as S.
  destruct o; try discriminate; exact S.
Qed.

(* ---- emit never fails on a visited node --------------------------------------------- *)
Lemma emit_total node o i :
  In node vis -> nth_error arena node = Some o ->
  nth node mp None = Some (SReg i) ->
  exists e, emit mp vars i o = Ok e.
Proof.
  intros Hv Eo Em.
  pose proof (proj2 (proj2 OK) node o Eo) as Hok.
  assert (Hch : forall c, In c (children o) -> In c vis).
  { intros c Hc. apply (vis_closed node); auto. unfold childs; rewrite Eo; auto. }
  destruct o as [v|c|u a|b l r]; simpl in *.
  - assert (Hin : In v vars) by (apply (i1_vars _ _ _ _ _ F1); eauto).
    apply var_index_in in Hin. destruct Hin as (k & ->). eauto.
  - pose proof (vis_slot node _ Hv Eo) as S. simpl in S. congruence.
  - apply andb_true_iff in Hok. destruct Hok as [_ Hc]. apply negb_true_iff in Hc.
    destruct (vis_nonconst a (Hch a (or_introl eq_refl)) Hc) as (ra & -> & _). eauto.
  - apply andb_true_iff in Hok. destruct Hok as [H1 H2].
    apply negb_true_iff in H1, H2.
    assert (Hl : In l vis) by auto. assert (Hr : In r vis) by auto.
    destruct (is_constn arena l) eqn:Cl, (is_constn arena r) eqn:Cr; simpl in *; try discriminate.
    + destruct (vis_const l Hl Cl) as (c & ->).
      destruct (vis_nonconst r Hr Cr) as (rr & -> & _).
      destruct (flatten_imm_lhs b) as [[]|] eqn:Ef; try discriminate; eauto.
      destruct b; discriminate.
    + destruct (vis_nonconst l Hl Cl) as (rl & -> & _).
      destruct (vis_const r Hr Cr) as (c & ->). eauto.
    + destruct (vis_nonconst l Hl Cl) as (rl & -> & _).
      destruct (vis_nonconst r Hr Cr) as (rr & -> & _). eauto.
Qed.

(* ---- the ops of a list of emitted nodes ------------------------------------------------ *)
Definition node_op (k : nat) : list op :=
  match nth_error arena k, nth k mp None with
  | Some o, Some (SReg i) => match emit mp vars i o with Ok e => [e] | Err _ => [] end
  | _, _ => []
  end.
Definition ops_of (order : list nat) : list op := flat_map node_op order.

Definition node_cc (o : cnode I) : nat :=
  match o with NBinary b _ _ => if bop_has_choice b then 1 else 0 | _ => 0 end.

Lemma emit_choice i o e : emit mp vars i o = Ok e ->
  (if op_has_choice e then 1 else 0) = node_cc o.
Proof.
  unfold emit. destruct o as [v|c|u a|b l r]; simpl.
  - destruct (var_index vars v); intros H; inversion H; auto.
  - discriminate.
  - destruct (nth a mp None) as [[|]|]; intros H; inversion H; auto.
  - destruct (nth l mp None) as [[|]|], (nth r mp None) as [[|]|]; try discriminate;
      try (intros H; inversion H; simpl; auto; fail).
    destruct b; simpl; intros H; inversion H; auto.
Qed.

Fixpoint ord_ok (l : list nat) : Prop :=
  match l with
  | [] => True
  | k :: l2 =>
      (In k roots \/ exists p, In p l2 /\ In k (childs arena p)) /\
      (forall c, In c (childs arena k) -> ~ In c l2) /\
      ord_ok l2
  end.

Variable pro : list op.
Hypothesis pro_choices : count_choices pro = 0.

Record Inv2 (st : @p2 I) (todo order : list nat) : Prop := {
  i2_ls : length (p2_seen st) = n;
  i2_lp : length (p2_parents st) = n;
  i2_seen : forall k, nth k (p2_seen st) false = true <-> In k order;
  i2_nd : NoDup order;
  i2_ord_vis : incl order vis;
  i2_todo_vis : incl todo vis;
  i2_cnt : forall j, j < n ->
           nth j (p2_parents st) 0 + cnt (kids arena order) j = cnt (kids arena vis) j;
  i2_zero : forall k, In k order -> nth k (p2_parents st) 0 = 0;
  i2_ready : forall k, In k vis -> ~ In k order -> nth k (p2_parents st) 0 = 0 -> In k todo;
  i2_just : forall k, In k todo -> In k roots \/ exists p, In p order /\ In k (childs arena p);
  i2_ord : ord_ok order;
  i2_tape : p2_tape st = ops_of order ++ pro;
  i2_ch : p2_choices st = count_choices (p2_tape st);
}.

Lemma pass2_step_inv st node rest order :
  Inv2 st (node :: rest) order ->
  exists st' todo' order',
    pass2_step arena mp vars st node rest = Ok (st', todo') /\
    Inv2 st' todo' order' /\
    length todo' + 2 * cf (p2_seen st') + 1 <= length (node :: rest) + 2 * cf (p2_seen st).
Proof.
  intros Inv. destruct Inv.
  unfold pass2_step.
  destruct (Nat.ltb_spec 0 (nth node (p2_parents st) 0)) as [Hp|Hp].
  { exists st, rest, order. split; auto. split; [|simpl; lia].
    constructor; auto.
    - intros k Hk; apply i2_todo_vis0; simpl; auto.
    - intros k A B C. destruct (i2_ready0 k A B C) as [<-|]; auto. lia.
    - intros k Hk. apply i2_just0; simpl; auto. }
  destruct (nth node (p2_seen st) false) eqn:Es.
  { exists st, rest, order. split; auto. split; [|simpl; lia].
    constructor; auto.
    - intros k Hk; apply i2_todo_vis0; simpl; auto.
    - intros k A B C. destruct (i2_ready0 k A B C) as [<-|]; auto.
      apply i2_seen0 in Es. contradiction.
    - intros k Hk. apply i2_just0; simpl; auto. }
  assert (Hv : In node vis) by (apply i2_todo_vis0; simpl; auto).
  assert (Hno : ~ In node order) by (intros A; apply i2_seen0 in A; congruence).
  assert (Hn : node < n) by (apply vis_lt; auto).
  destruct (vis_node node Hv) as (o & Eo). rewrite Eo.
  assert (Hch : childs arena node = children o) by (unfold childs; rewrite Eo; auto).
  assert (Hnd : NoDup (node :: order)) by (constructor; auto).
  assert (Hincl : incl (node :: order) vis) by (intros x [<-|A]; auto).
  (* the state-independent part of the new invariant *)
  assert (Common : forall tape' ch',
     tape' = ops_of (node :: order) ++ pro ->
     ch' = count_choices tape' ->
     Inv2 {| p2_seen := list_upd (p2_seen st) node true;
             p2_parents := fold_left dec (children o) (p2_parents st);
             p2_tape := tape'; p2_choices := ch' |}
          (rev (children o) ++ rest) (node :: order)).
  { intros tape' ch' Et Ec.
    assert (Hge : forall j, j < n -> cnt (children o) j <= nth j (p2_parents st) 0).
    { intros j Hj. pose proof (cnt_kids_mono arena j _ _ Hnd Hincl) as M.
      simpl in M. rewrite cnt_app, Hch in M. specialize (i2_cnt0 j Hj). lia. }
    constructor; simpl; auto.
    - rewrite lu_length; auto.
    - rewrite fold_dec_length; auto.
    - intros k. rewrite lu_nth. destruct (Nat.eqb_spec k node).
      + subst. destruct (Nat.ltb_spec node (length (p2_seen st))); try lia; try (split; auto).
      + rewrite i2_seen0. split; auto. intros [A|A]; auto. congruence.
    - intros k Hk. apply in_app_or in Hk. destruct Hk as [Hk|Hk].
      + apply in_rev in Hk. apply (vis_closed node); auto. rewrite Hch; auto.
      + apply i2_todo_vis0; simpl; auto.
    - intros j Hj. rewrite fold_dec_nth, Hch, cnt_app.
      specialize (Hge j Hj). specialize (i2_cnt0 j Hj). lia.
    - intros k [<-|Hk]; rewrite fold_dec_nth.
      + lia.
      + rewrite i2_zero0; auto.
    - intros k A B C. rewrite fold_dec_nth in C.
      apply in_or_app.
      destruct (in_dec Nat.eq_dec k (children o)) as [Hin|Hnin].
      + left. apply -> in_rev; auto.
      + right. rewrite (proj1 (count_occ_not_In Nat.eq_dec _ _) Hnin) in C.
        destruct (i2_ready0 k A) as [<-|]; auto; try lia; try (exfalso; apply B; simpl; auto; fail).
    - intros k Hk. apply in_app_or in Hk. destruct Hk as [Hk|Hk].
      + right. exists node. split; auto. rewrite Hch. apply in_rev; auto.
      + destruct (i2_just0 k (or_intror Hk)) as [A|(p & A & B)]; auto.
        right; exists p; auto.
    - split; [|split]; auto.
      + apply i2_just0; simpl; auto.
      + intros c Hc Hco. rewrite Hch in Hc.
        assert (c < n) by (apply vis_lt; apply i2_ord_vis0; auto).
        pose proof (Hge c H). apply i2_zero0 in Hco.
        apply (count_occ_In Nat.eq_dec) in Hc. lia. }
  pose proof (vis_slot node o Hv Eo) as Hslot.
  destruct (nth node mp None) as [[i|c]|] eqn:Em.
  - (* a register node: emit *)
    destruct (emit_total node o i Hv Eo Em) as (e & Ee). rewrite Ee.
    eexists _, _, (node :: order). split; [reflexivity|]. split.
    + apply Common.
      * simpl. unfold node_op. rewrite Eo, Em, Ee. simpl. rewrite i2_tape0. reflexivity.
      * pose proof (emit_choice _ _ _ Ee) as Hcc. unfold node_cc in Hcc.
        unfold count_choices in *. simpl. rewrite <- Hcc.
        destruct (op_has_choice e); simpl; rewrite i2_ch0; lia.
    + simpl. rewrite app_length, rev_length.
      pose proof (children_le2 o).
      assert (S (cf (list_upd (p2_seen st) node true)) = cf (p2_seen st)).
      { apply cf_upd. apply nth_false_dflt; auto; lia. }
      lia.
  - (* a constant: skipped *)
    eexists _, _, (node :: order). split; [reflexivity|]. split.
    + apply Common.
      * simpl. unfold node_op. rewrite Eo, Em. simpl. auto.
      * auto.
    + simpl. rewrite app_length, rev_length.
      pose proof (children_le2 o).
      assert (S (cf (list_upd (p2_seen st) node true)) = cf (p2_seen st)).
      { apply cf_upd. apply nth_false_dflt; auto; lia. }
      lia.
  - destruct o; simpl in Hslot; try discriminate; destruct Hslot as (? & ? & _); discriminate.
Qed.

Lemma pass2_total : forall fuel st todo order,
  Inv2 st todo order -> length todo + 2 * cf (p2_seen st) <= fuel ->
  exists s2 order2, pass2 fuel arena mp vars st todo = Ok s2 /\ Inv2 s2 [] order2.
Proof.
  induction fuel; intros st todo order Inv Hf.
  - destruct todo; simpl in *; try lia. eauto.
  - destruct todo as [|node rest]; simpl; eauto.
    destruct (pass2_step_inv _ _ _ _ Inv) as (st' & todo' & order' & E & Inv' & M).
    rewrite E. eapply IHfuel; eauto. simpl in *; lia.
Qed.

Definition st2_0 : @p2 I :=
  {| p2_seen := repeat false n; p2_parents := p1_parents s1; p2_tape := pro; p2_choices := 0 |}.

Lemma inv2_init : Inv2 st2_0 (rev roots) [].
Proof.
  constructor; simpl; auto.
  - apply repeat_length.
  - apply (i1_lp _ _ _ _ _ F1).
  - intros k. rewrite nth_repeat'. destruct (k <? n); split; intros; try discriminate; tauto.
  - constructor.
  - intros x [].
  - intros x Hx. apply vis_roots. apply in_rev; auto.
  - intros j Hj. rewrite (i1_par _ _ _ _ _ F1) by auto. lia.
  - tauto.
  - intros k Hk _ Hp.
    (* a visited node with no visited parent is a root *)
    rewrite (i1_par _ _ _ _ _ F1) in Hp by (apply vis_lt; auto).
    destruct (i1_prov _ _ _ _ _ F1 k (or_introl Hk)) as [Hr|(p & A & B)].
    + apply -> in_rev; auto.
    + exfalso. assert (cnt (kids arena vis) k > 0); [|lia].
      apply (count_occ_In Nat.eq_dec). unfold kids. apply in_flat_map. eauto.
  - intros k Hk. left. apply in_rev; auto.
Qed.

(* at the end every visited node has been emitted *)
Lemma pass2_complete s2 order : Inv2 s2 [] order -> forall k, In k vis -> In k order.
Proof.
  intros Inv.
  assert (H : forall m k, n - k <= m -> In k vis -> In k order).
  { induction m; intros k Hm Hk.
    - apply vis_lt in Hk. lia.
    - destruct (in_dec Nat.eq_dec k order) as [|Hno]; auto. exfalso.
      assert (Hkn : k < n) by (apply vis_lt; auto).
      assert (Hp : nth k (p2_parents s2) 0 <> 0).
      { intros Hz. apply (i2_ready _ _ _ Inv k Hk Hno Hz). }
      pose proof (i2_cnt _ _ _ Inv k Hkn) as Hc.
      destruct (cnt_kids_lt_ex arena k order vis (i1_nd _ _ _ _ _ F1)) as (p & A & B & C); try lia.
      apply B. apply IHm; auto.
      apply (childs_lt arena WF) in C. lia. }
  intros k Hk. apply (H n); auto. lia.
Qed.

Lemma ord_ok_split : forall l1 k l2, ord_ok (l1 ++ k :: l2) ->
  (In k roots \/ exists p, In p l2 /\ In k (childs arena p)) /\
  (forall c, In c (childs arena k) -> ~ In c l2).
Proof.
  induction l1; simpl; intros k l2 H.
  - destruct H as (A & B & _); auto.
  - destruct H as (_ & _ & H); auto.
Qed.

End P2.
