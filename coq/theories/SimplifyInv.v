(* SimplifyInv.v — the invariant of the simplifier's walk and its one-step
   preservation, together with the one-step semantic simulation.

   Walking the parent root-first, [(live, defd)] is the state of the parent's
   SsaWf walk, [(clive, cdefd)] the state of the SsaWf walk of the child emitted so
   far.  The bind map, restricted to parent variables not yet defined, is an
   injective renaming onto the child's live variables. *)
From Coq Require Import List Bool Arith Lia Permutation.
From FV Require Import Ops Tape Lru Alloc SsaWf Simplify LruProof
     SimplifyValidateProof TraceFacts AllocProof SimplifyFacts.
Import ListNotations.

(* ---------- inversion / introduction for wf_step ---------- *)
Section WfStep.
Context {I : Type}.
Notation op := (Tape.op I).

Fixpoint wf_run (bound : nat) (t : list op) (st : list nat * list nat) : option (list nat * list nat) :=
  match t with
  | [] => Some st
  | o :: r => match wf_step bound o st with Some st' => wf_run bound r st' | None => None end
  end.

Lemma wf_run_app bound (a b : list op) : forall st,
  wf_run bound (a ++ b) st =
  match wf_run bound a st with Some st' => wf_run bound b st' | None => None end.
Proof.
  induction a as [|o a IH]; intros st; simpl; [reflexivity|].
  destruct (wf_step bound o st); [apply IH|reflexivity].
Qed.

Lemma wf_walk_run bound (t : list op) : forall st,
  wf_walk bound t st = match wf_run bound t st with Some ([], _) => true | _ => false end.
Proof.
  induction t as [|o t IH]; intros st; simpl.
  - destruct st as [[|x l] d]; reflexivity.
  - destruct (wf_step bound o st); [apply IH|reflexivity].
Qed.

Lemma wf_step_def_inv bound (o : op) live defd live1 defd1 index :
  wf_step bound o (live, defd) = Some (live1, defd1) -> op_out o = Some index ->
  is_ssa_op o = true /\ In index live /\ ~ In index defd /\ index < bound /\
  (forall a, In a (op_args o) -> a <> index /\ ~ In a defd /\ a < bound) /\
  live1 = fold_right add_nat (remove_nat index live) (op_args o) /\ defd1 = index :: defd.
Proof.
  unfold wf_step. intros H Ho. destruct (is_ssa_op o); [|discriminate]. cbn [negb] in H. rewrite Ho in H.
  match type of H with (if ?c then _ else _) = _ => destruct c eqn:Ec; [|discriminate] end.
  injection H as <- <-.
  apply andb_prop in Ec. destruct Ec as [Ec Hargs].
  apply andb_prop in Ec. destruct Ec as [Ec Hb].
  apply andb_prop in Ec. destruct Ec as [Hl Hd].
  apply mem_In in Hl. apply negb_true_iff, mem_false in Hd. apply Nat.ltb_lt in Hb.
  repeat split; auto.
  - intros ->. rewrite forallb_forall in Hargs. specialize (Hargs _ H).
    apply andb_prop in Hargs. destruct Hargs as [H1 _]. apply negb_true_iff, mem_false in H1.
    apply H1. left. reflexivity.
  - rewrite forallb_forall in Hargs. specialize (Hargs _ H).
    apply andb_prop in Hargs. destruct Hargs as [H1 _]. apply negb_true_iff, mem_false in H1.
    intros Hin. apply H1. right. exact Hin.
  - rewrite forallb_forall in Hargs. specialize (Hargs _ H).
    apply andb_prop in Hargs. destruct Hargs as [_ H2]. apply Nat.ltb_lt in H2. exact H2.
Qed.

Lemma wf_step_out_inv bound (o : op) live defd live1 defd1 :
  wf_step bound o (live, defd) = Some (live1, defd1) -> op_out o = None ->
  (forall a, In a (op_args o) -> ~ In a defd /\ a < bound) /\
  live1 = fold_right add_nat live (op_args o) /\ defd1 = defd.
Proof.
  unfold wf_step. intros H Ho. destruct (is_ssa_op o); [|discriminate]. cbn [negb] in H. rewrite Ho in H.
  match type of H with (if ?c then _ else _) = _ => destruct c eqn:Ec; [|discriminate] end.
  injection H as <- <-. split; [|split; reflexivity].
  intros a Ha. rewrite forallb_forall in Ec. specialize (Ec _ Ha).
  apply andb_prop in Ec. destruct Ec as [H1 H2]. apply negb_true_iff, mem_false in H1.
  apply Nat.ltb_lt in H2. split; assumption.
Qed.

Lemma wf_step_def_intro bound (o : op) live defd index :
  is_ssa_op o = true -> op_out o = Some index ->
  In index live -> ~ In index defd -> index < bound ->
  (forall a, In a (op_args o) -> a <> index /\ ~ In a defd /\ a < bound) ->
  wf_step bound o (live, defd) =
  Some (fold_right add_nat (remove_nat index live) (op_args o), index :: defd).
Proof.
  intros Hs Ho Hl Hd Hb Ha. unfold wf_step. rewrite Hs, Ho. cbn [negb].
  apply mem_In in Hl. rewrite Hl. apply mem_false in Hd. rewrite Hd.
  apply Nat.ltb_lt in Hb. rewrite Hb. cbn [negb andb].
  replace (forallb _ (op_args o)) with true; [reflexivity|].
  symmetry. apply forallb_forall. intros a Hin. destruct (Ha a Hin) as (H1 & H2 & H3).
  apply andb_true_intro. split; [|apply Nat.ltb_lt, H3].
  apply negb_true_iff. apply mem_false. intros [E|E]; [congruence|].
  apply mem_false in Hd. tauto.
Qed.

Lemma wf_step_out_intro bound (o : op) live defd :
  is_ssa_op o = true -> op_out o = None ->
  (forall a, In a (op_args o) -> ~ In a defd /\ a < bound) ->
  wf_step bound o (live, defd) = Some (fold_right add_nat live (op_args o), defd).
Proof.
  intros Hs Ho Ha. unfold wf_step. rewrite Hs, Ho. cbn [negb].
  replace (forallb _ (op_args o)) with true; [reflexivity|].
  symmetry. apply forallb_forall. intros a Hin. destruct (Ha a Hin) as (H2 & H3).
  apply andb_true_intro. split; [|apply Nat.ltb_lt, H3].
  apply negb_true_iff. apply mem_false. exact H2.
Qed.
End WfStep.

(* ---------- the invariant on the workspace ---------- *)
Section Inv.
Variable N : nat.   (* length of the parent tape = length of the bind map *)

Record WINV (w : ws) (D : list nat) : Prop := {
  wi_len : length (w_bind w) = N;
  wi_lt : forall i b, bindf w i = Some b -> b < w_count w;
  wi_inj : forall i j b, bindf w i = Some b -> bindf w j = Some b ->
                         ~ In i D -> ~ In j D -> i = j;
  wi_some : w_count w <= count_some (w_bind w);
}.

Record KINV (w : ws) (D L : list nat) (c : nat) : Prop := {
  k_w : WINV w D;
  k_live : forall b, In b L <-> exists i, bindf w i = Some b /\ ~ In i D;
  k_nodup : NoDup L;
  k_cnt : length L + c = w_count w;
}.

Lemma KINV_equiv w D L L' c :
  KINV w D L c -> NoDup L' -> (forall b, In b L <-> In b L') -> KINV w D L' c.
Proof.
  intros [Kw Kl Kn Kc] Hn He. constructor; auto.
  - intros b. rewrite <- He. apply Kl.
  - rewrite <- (NoDup_same_length L L' Kn Hn He). exact Kc.
Qed.

Lemma goi_K w D L c a na w' :
  KINV w D L c -> get_or_insert_active w a = Ok (na, w') -> ~ In a D ->
  KINV w' D (add_nat na L) c /\ (In na L \/ w_count w <= na) /\ na < w_count w'.
Proof.
  intros [[Wl Wlt Wi Ws] Kl Kn Kc] Hg Ha.
  destruct (goi_spec _ _ _ _ Hg) as (Hal & Hlen & Hb & Ho & Hc).
  destruct Hc as [[Hbound ->]|(Hnone & -> & Hcnt & Hsome)].
  - assert (Hin : In na L) by (apply Kl; exists a; split; assumption).
    rewrite (add_nat_in _ _ Hin). split; [|split; [left; exact Hin|eapply Wlt; eassumption]].
    constructor; auto. constructor; auto.
  - assert (Hnin : ~ In (w_count w) L).
    { intros Hin. apply Kl in Hin. destruct Hin as (i & Hi & _). apply Wlt in Hi. lia. }
    rewrite (add_nat_notin _ _ Hnin). split; [|split; [right; lia|lia]].
    assert (Hold : forall i b, i <> a -> bindf w' i = Some b -> bindf w i = Some b).
    { intros i b Hne Hi. rewrite <- (Ho i Hne). exact Hi. }
    constructor.
    + constructor.
      * congruence.
      * intros i b Hi. destruct (Nat.eq_dec i a) as [->|Hne].
        -- rewrite Hb in Hi. injection Hi as <-. lia.
        -- apply Hold in Hi; [|exact Hne]. apply Wlt in Hi. lia.
      * intros i j b Hi Hj Di Dj.
        destruct (Nat.eq_dec i a) as [->|Hni]; destruct (Nat.eq_dec j a) as [->|Hnj]; auto.
        -- rewrite Hb in Hi. injection Hi as <-. apply Hold in Hj; [|exact Hnj]. apply Wlt in Hj. lia.
        -- rewrite Hb in Hj. injection Hj as <-. apply Hold in Hi; [|exact Hni]. apply Wlt in Hi. lia.
        -- apply (Wi i j b); auto.
      * lia.
    + intros b. simpl. rewrite Kl. split.
      * intros [<-|(i & Hi & Di)]; [exists a; split; assumption|].
        exists i. split; [|exact Di]. rewrite Ho; [exact Hi|]. intros ->. congruence.
      * intros (i & Hi & Di). destruct (Nat.eq_dec i a) as [->|Hne].
        -- left. rewrite Hb in Hi. injection Hi as <-. reflexivity.
        -- right. exists i. split; [apply Hold; assumption|exact Di].
    + constructor; assumption.
    + simpl. lia.
Qed.

Lemma In_fold_left_add cargs : forall L b,
  In b (fold_left (fun L x => add_nat x L) cargs L) <-> In b cargs \/ In b L.
Proof.
  induction cargs as [|x r IH]; intros L b; simpl; [tauto|].
  rewrite IH, In_add_nat. intuition congruence.
Qed.

Lemma goi_list_K_seq pargs : forall w D L c cargs w',
  KINV w D L c -> goi_list pargs w = Ok (cargs, w') ->
  (forall a, In a pargs -> ~ In a D) ->
  KINV w' D (fold_left (fun L x => add_nat x L) cargs L) c /\
  (forall b, In b cargs -> (In b L \/ w_count w <= b) /\ b < w_count w').
Proof.
  induction pargs as [|a r IH]; intros w D L c cargs w' K Hg Hd; simpl in Hg.
  - injection Hg as <- <-. simpl. split; [exact K|intros b []].
  - destruct (get_or_insert_active w a) as [[na w1]|] eqn:E1; [|discriminate].
    destruct (goi_list r w1) as [[nr w2]|] eqn:E2; [|discriminate].
    injection Hg as <- <-.
    destruct (goi_K _ _ _ _ _ _ _ K E1 (Hd a (or_introl eq_refl))) as (K1 & Hna & Hlt).
    destruct (IH _ _ _ _ _ _ K1 E2 (fun x Hx => Hd x (or_intror Hx))) as (K2 & Hr).
    pose proof (goi_mono _ _ _ _ E1) as (_ & M1 & _).
    destruct (goi_list_spec _ _ _ _ E2) as ((_ & M2 & _) & _).
    split; [exact K2|].
    intros b [<-|Hb].
    + split; [exact Hna|lia].
    + destruct (Hr b Hb) as [[Hin|Hge] Hlt']; split; auto.
      * apply In_add_nat in Hin. destruct Hin as [->|Hin]; [exact Hna|left; exact Hin].
      * right. lia.
Qed.

Lemma goi_list_K pargs w D L c cargs w' :
  KINV w D L c -> goi_list pargs w = Ok (cargs, w') ->
  (forall a, In a pargs -> ~ In a D) ->
  KINV w' D (fold_right add_nat L cargs) c /\
  (forall b, In b cargs -> (In b L \/ w_count w <= b) /\ b < w_count w').
Proof.
  intros K Hg Hd. destruct (goi_list_K_seq _ _ _ _ _ _ _ K Hg Hd) as [K' Hb].
  split; [|exact Hb].
  eapply KINV_equiv; [exact K'|apply NoDup_fold_add; apply (k_nodup _ _ _ _ K)|].
  intros b. rewrite In_fold_left_add, In_fold_add. reflexivity.
Qed.

(* the current op's output leaves the not-yet-defined set *)
Lemma KINV_define w D L c index ni :
  KINV w D L c -> bindf w index = Some ni -> ~ In index D ->
  KINV w (index :: D) (remove_nat ni L) (S c) /\ In ni L.
Proof.
  intros [[Wl Wlt Wi Ws] Kl Kn Kc] Hb Hd.
  assert (Hin : In ni L) by (apply Kl; exists index; split; assumption).
  split; [|exact Hin]. constructor.
  - constructor; auto. intros i j b Hi Hj Di Dj. apply (Wi i j b); auto; intros H; [apply Di|apply Dj]; right; exact H.
  - intros b. rewrite In_remove_nat, Kl. split.
    + intros (Hne & i & Hi & Di). exists i. split; [exact Hi|].
      intros [<-|H]; [congruence|tauto].
    + intros (i & Hi & Di). split.
      * intros ->. apply Di. left. apply (Wi index i ni); auto. intros H. apply Di. right. exact H.
      * exists i. split; [exact Hi|]. intros H. apply Di. right. exact H.
  - apply NoDup_remove_nat, Kn.
  - pose proof (remove_nat_length ni L Kn Hin). lia.
Qed.

(* a dropped op: its output was never bound *)
Lemma KINV_drop w D L c index :
  KINV w D L c -> bindf w index = None -> KINV w (index :: D) L c.
Proof.
  intros [[Wl Wlt Wi Ws] Kl Kn Kc] Hb. constructor; auto.
  - constructor; auto. intros i j b Hi Hj Di Dj. apply (Wi i j b); auto; intros H; [apply Di|apply Dj]; right; exact H.
  - intros b. rewrite Kl. split; intros (i & Hi & Di); exists i; (split; [exact Hi|]).
    + intros [<-|H]; [congruence|tauto].
    + intros H. apply Di. right. exact H.
Qed.

(* aliasing: operand x takes over the child variable of the op being defined *)
Lemma KINV_alias w D L c index ni x w1 :
  KINV w D L c -> bindf w index = Some ni -> ~ In index D ->
  nth_error (w_bind w) x = Some None -> set_active w x ni = Ok w1 ->
  x <> index -> ~ In x D ->
  KINV w1 (index :: D) L c.
Proof.
  intros [[Wl Wlt Wi Ws] Kl Kn Kc] Hb Hd Hx Hs Hxi Hxd.
  destruct (set_active_spec _ _ _ _ Hs) as (Hxl & Hlen & Hcnt & Hbx & Ho & Hsome).
  specialize (Hsome Hx).
  assert (Hxn : bindf w x = None) by (unfold bindf; rewrite Hx; reflexivity).
  assert (Hold : forall i b, i <> x -> bindf w1 i = Some b -> bindf w i = Some b).
  { intros i b Hne Hi. rewrite <- (Ho i Hne). exact Hi. }
  constructor; auto.
  - constructor.
    + congruence.
    + intros i b Hi. rewrite Hcnt. destruct (Nat.eq_dec i x) as [->|Hne].
      * rewrite Hbx in Hi. injection Hi as <-. eapply Wlt; eassumption.
      * eapply Wlt. apply Hold; eassumption.
    + intros i j b Hi Hj Di Dj.
      assert (Hkey : forall k, k <> x -> bindf w1 k = Some ni -> ~ In k (index :: D) -> False).
      { intros k Hk Hbk Dk. apply Hold in Hbk; [|exact Hk]. apply Dk. left.
        apply (Wi index k ni); auto. intros H. apply Dk. right. exact H. }
      destruct (Nat.eq_dec i x) as [->|Hni]; destruct (Nat.eq_dec j x) as [->|Hnj]; auto.
      * rewrite Hbx in Hi. injection Hi as <-. exfalso. eapply Hkey; eassumption.
      * rewrite Hbx in Hj. injection Hj as <-. exfalso. eapply Hkey; eassumption.
      * apply (Wi i j b); auto; intros H; [apply Di|apply Dj]; right; exact H.
    + lia.
  - intros b. rewrite Kl. split.
    + intros (i & Hi & Di). destruct (Nat.eq_dec i index) as [->|Hne].
      * exists x. rewrite Hb in Hi. injection Hi as <-. split; [exact Hbx|].
        intros [E|H]; [congruence|tauto].
      * exists i. split.
        -- rewrite Ho; [exact Hi|]. intros ->. congruence.
        -- intros [E|H]; [congruence|tauto].
    + intros (i & Hi & Di). destruct (Nat.eq_dec i x) as [->|Hne].
      * rewrite Hbx in Hi. injection Hi as <-. exists index. split; assumption.
      * exists i. split; [apply Hold; assumption|]. intros H. apply Di. right. exact H.
  - lia.
Qed.

End Inv.

(* ---------- the full invariant and one step ---------- *)
Section Step.
Context {V I : Type}.
Variable sem : Sem V I.
Variable inputs : list V.
Hypothesis copy_id : forall v, s_un sem UCopy v = v.
Variables N B : nat.
Notation op := (Tape.op I).
Notation mst := (mstate (V:=V)).

Record INV (st : @sst I) (live defd clive cdefd : list nat) : Prop := {
  i_k : KINV N (s_ws st) defd clive (length cdefd);
  i_used : forall i b, bindf (s_ws st) i = Some b -> In i live \/ In i defd;
  i_cdefd : forall b, In b cdefd -> b < w_count (s_ws st) /\ ~ In b clive;
  i_out : length (s_out st) = s_oc st + length cdefd;
}.

(* parent and child slots agree through the bind map on not-yet-defined variables *)
Definition AG (w : ws) (D : list nat) (sp sc : mst) : Prop :=
  forall i b, bindf w i = Some b -> ~ In i D -> m_slots sc b = m_slots sp i.

Definition sem_step (st st1 : @sst I) (o : op) (defd defd1 : list nat) (new : list op)
           (cs : list tchoice) : Prop :=
  forall sp sc : mst,
    AG (s_ws st1) defd1 sp sc -> m_out sp = m_out sc -> ch_pre sem sp o cs ->
    AG (s_ws st) defd (step sem inputs sp o) (run_fwd sem inputs new sc) /\
    m_out (step sem inputs sp o) = m_out (run_fwd sem inputs new sc).

Definition step_concl (st : @sst I) (o : op) (st1 : @sst I)
           (live1 defd defd1 clive cdefd : list nat) : Prop :=
  exists new cs clive1 cdefd1,
    rev new = new /\
    s_out st1 = new ++ s_out st /\
    s_choices st = cs ++ s_choices st1 /\ length cs = ch_len o /\
    wf_run B new (clive, cdefd) = Some (clive1, cdefd1) /\
    INV st1 live1 defd1 clive1 cdefd1 /\
    s_cc st1 = s_cc st + count_choices new /\
    s_oc st1 = s_oc st + count_outputs [o] /\
    count_outputs new = count_outputs [o] /\
    ws_mono (s_ws st) (s_ws st1) /\
    sem_step st st1 o defd defd1 new cs.

Lemma args_common w D L c cdefd pargs cargs w1 :
  KINV N w D L c -> goi_list pargs w = Ok (cargs, w1) ->
  (forall a, In a pargs -> ~ In a D) ->
  (forall b, In b cdefd -> b < w_count w /\ ~ In b L) ->
  KINV N w1 D (fold_right add_nat L cargs) c /\
  (forall b, In b cargs -> ~ In b cdefd /\ b < w_count w1 /\ (In b L \/ w_count w <= b)) /\
  (forall b, In b cdefd -> b < w_count w1 /\ ~ In b (fold_right add_nat L cargs)).
Proof.
  intros K Hg Hd Hcd.
  destruct (goi_list_K N _ _ _ _ _ _ _ K Hg Hd) as [K1 Hb].
  destruct (goi_list_spec _ _ _ _ Hg) as ((_ & Hm & _) & _).
  assert (Hc : forall b, In b cargs -> ~ In b cdefd /\ b < w_count w1 /\ (In b L \/ w_count w <= b)).
  { intros b Hin. destruct (Hb b Hin) as [Ho Hlt]. split; [|split; assumption].
    intros Hc. destruct (Hcd b Hc) as [H1 H2]. destruct Ho; [tauto|lia]. }
  split; [exact K1|]. split; [exact Hc|].
  intros b Hin. destruct (Hcd b Hin) as [H1 H2]. split; [lia|].
  rewrite In_fold_add. intros [H|H]; [|tauto]. apply Hc in H. tauto.
Qed.

Lemma used_def (w : ws) live defd index args i b :
  (forall i b, bindf w i = Some b -> In i live \/ In i defd) ->
  bindf w i = Some b ->
  In i (fold_right add_nat (remove_nat index live) args) \/ In i (index :: defd).
Proof.
  intros Hu Hi. destruct (Nat.eq_dec i index) as [->|Hne]; [right; left; reflexivity|].
  destruct (Hu _ _ Hi) as [H|H]; [left|right; right; exact H].
  apply In_fold_add. right. apply In_remove_nat. split; assumption.
Qed.

Lemma count_outputs_defining (o : op) : defining o = true -> count_outputs [o] = 0.
Proof. destruct o; simpl; try discriminate; reflexivity. Qed.

Lemma inv_step st (o : op) st1 live defd live1 defd1 clive cdefd :
  INV st live defd clive cdefd ->
  wf_step N o (live, defd) = Some (live1, defd1) ->
  simplify_op st o = Ok st1 ->
  w_count (s_ws st1) <= B ->
  step_concl st o st1 live1 defd defd1 clive cdefd.
Proof.
  intros [Ik Iu Icd Io] Hwf Hs HB.
  assert (Hssa : is_ssa_op o = true).
  { unfold wf_step in Hwf. destruct (is_ssa_op o); [reflexivity|discriminate]. }
  pose proof (simplify_op_class sem inputs copy_id st o st1 Hssa Hs) as C.
  destruct C as [reg i nr -> Hg Hout Hch Hcc Hoc
                |index cs Hout Hdef Hch Hcl Hoc Hnone Hw Hso Hcc
                |index cs ni act Hout Hdef Hch Hcl Hoc Hb Hact Hres].
  - (* Output *)
    destruct (wf_step_out_inv _ _ _ _ _ _ Hwf eq_refl) as (Ha & -> & ->).
    destruct (Ha reg (or_introl eq_refl)) as [Hrd HrN]. simpl.
    pose proof (goi_list_1 _ _ _ _ Hg) as Hgl.
    destruct (args_common _ _ _ _ cdefd _ _ _ Ik Hgl) as (K1 & Hc & Hcd1).
    { intros a [<-|[]]. exact Hrd. }
    { exact Icd. }
    destruct (Hc nr (or_introl eq_refl)) as (Hncd & Hlt & _).
    destruct (goi_spec _ _ _ _ Hg) as (_ & _ & Hbr & Hother & _).
    exists [OOutput nr i], [], (add_nat nr clive), cdefd.
    split; [reflexivity|].
    split; [exact Hout|]. split; [symmetry; exact Hch|]. split; [reflexivity|].
    split.
    { cbn [wf_run]. rewrite (wf_step_out_intro B (OOutput nr i : op) clive cdefd eq_refl eq_refl); [reflexivity|].
      intros a [<-|[]]. split; [exact Hncd|lia]. }
    split.
    { constructor.
      - exact K1.
      - intros j b Hj. destruct (Nat.eq_dec j reg) as [->|Hne].
        + left. apply In_add_nat. left. reflexivity.
        + rewrite (Hother j Hne) in Hj. destruct (Iu _ _ Hj) as [H|H]; [left|right; exact H].
          apply In_add_nat. right. exact H.
      - exact Hcd1.
      - rewrite Hout, Hoc. simpl. lia. }
    split; [rewrite Hcc; unfold count_choices; simpl; lia|].
    split; [rewrite Hoc; unfold count_outputs; simpl; lia|].
    split; [reflexivity|].
    split; [eapply goi_mono; exact Hg|].
    intros sp sc Hag Hmo _. simpl. split.
    + intros j b Hj Dj. apply Hag; [|exact Dj].
      destruct (goi_mono _ _ _ _ Hg) as (_ & _ & M). apply M. exact Hj.
    + rewrite Hmo. f_equal. symmetry. apply Hag; assumption.
  - (* Drop *)
    destruct (wf_step_def_inv _ _ _ _ _ _ _ Hwf Hout) as (_ & Hil & Hid & HiN & Hargs & -> & ->).
    assert (Hbn : bindf (s_ws st) index = None) by (unfold bindf; rewrite Hnone; reflexivity).
    exists [], cs, clive, cdefd.
    split; [reflexivity|].
    split; [exact Hso|]. split; [exact Hch|]. split; [exact Hcl|]. split; [reflexivity|].
    split.
    { constructor.
      - rewrite Hw. apply KINV_drop; assumption.
      - rewrite Hw. intros j b Hj. eapply used_def; eassumption.
      - rewrite Hw. exact Icd.
      - rewrite Hso, Hoc. exact Io. }
    split; [rewrite Hcc; unfold count_choices; simpl; lia|].
    split; [rewrite Hoc, (count_outputs_defining _ Hdef); lia|].
    split; [rewrite (count_outputs_defining _ Hdef); reflexivity|].
    split; [rewrite Hw; apply ws_mono_refl|].
    intros sp sc Hag Hmo _. rewrite Hw in Hag.
    destruct (step_defining sem inputs sp o index Hdef Hout) as [Es Eo].
    simpl. split; [|congruence].
    intros j b Hj Dj. rewrite Es. unfold upd.
    destruct (Nat.eqb j index) eqn:E; [apply Nat.eqb_eq in E; subst; congruence|].
    apply Hag; [exact Hj|]. apply Nat.eqb_neq in E. intros [H|H]; [congruence|tauto].
  - (* active *)
    destruct (wf_step_def_inv _ _ _ _ _ _ _ Hwf Hout) as (_ & Hil & Hid & HiN & Hargs & -> & ->).
    destruct act as [o' w1 cc|w1]; simpl in Hact.
    + (* Emit *)
      destruct Hres as (Hw & Hso & Hcc).
      destruct Hact as (pargs & cargs & Hincl & Hg & Hdef' & Hout' & Hargs' & Hcceq & Hval).
      subst w1.
      destruct (KINV_define N _ _ _ _ _ _ Ik Hb Hid) as [K0 Hni].
      destruct (args_common _ _ _ _ cdefd _ _ _ K0 Hg) as (K1 & Hc & Hcd1).
      { intros a Ha. destruct (Hargs a (Hincl a Ha)) as (H1 & H2 & _). intros [E|E]; [congruence|tauto]. }
      { intros b Hin. destruct (Icd b Hin) as [H1 H2]. split; [exact H1|].
        rewrite In_remove_nat. tauto. }
      destruct (goi_list_spec _ _ _ _ Hg) as (Hmono & Hmap & Hbound & Hother).
      pose proof (wi_lt _ _ _ (k_w _ _ _ _ _ Ik) _ _ Hb) as Hnilt.
      destruct Hmono as (Hm1 & Hm2 & Hm3).
      assert (Hcne : forall b, In b cargs -> b <> ni).
      { intros b Hin. destruct (Hc b Hin) as (_ & _ & [H|H]); [|lia].
        apply In_remove_nat in H. tauto. }
      exists [o'], cs, (fold_right add_nat (remove_nat ni clive) cargs), (ni :: cdefd).
      split; [reflexivity|].
      split; [exact Hso|]. split; [exact Hch|]. split; [exact Hcl|].
      split.
      { cbn [wf_run]. rewrite (wf_step_def_intro B o' clive cdefd ni (defining_ssa _ Hdef') Hout' Hni).
        - rewrite Hargs'. reflexivity.
        - intros Hin. apply Icd in Hin. tauto.
        - lia.
        - rewrite Hargs'. intros a Ha. destruct (Hc a Ha) as (H1 & H2 & _).
          split; [apply Hcne, Ha|]. split; [exact H1|lia]. }
      split.
      { constructor.
        - exact K1.
        - intros j b Hj. destruct (in_dec Nat.eq_dec j pargs) as [Hin|Hnin].
          + left. apply In_fold_add. left. apply Hincl, Hin.
          + rewrite (Hother j Hnin) in Hj. eapply used_def; eassumption.
        - intros b [<-|Hin].
          + split; [lia|]. rewrite In_fold_add, In_remove_nat.
            intros [H|[H _]]; [apply (Hcne _ H); reflexivity|congruence].
          + apply Hcd1, Hin.
        - rewrite Hso, Hoc. simpl. lia. }
      split; [rewrite Hcc, Hcceq; unfold count_choices, ch_len; simpl; destruct (op_has_choice o'); reflexivity|].
      split; [rewrite Hoc, (count_outputs_defining _ Hdef); lia|].
      split; [rewrite (count_outputs_defining _ Hdef), (count_outputs_defining _ Hdef'); reflexivity|].
      split; [repeat split; assumption|].
      intros sp sc Hag Hmo Hpre.
      destruct (step_defining sem inputs sp o index Hdef Hout) as [Es Eo].
      destruct (step_defining sem inputs sc o' ni Hdef' Hout') as [Es' Eo'].
      unfold run_fwd. cbn [fold_left]. split; [|congruence].
      assert (Hv : opval sem inputs (m_slots sc) o' = opval sem inputs (m_slots sp) o).
      { apply Hval; [|exact Hpre]. intros a Ha.
        destruct (Hbound a Ha) as [Hsome _]. destruct (bindf (s_ws st1) a) as [na|] eqn:Ea; [|congruence].
        rewrite (bindf_bf _ _ _ Ea). apply Hag; [exact Ea|].
        destruct (Hargs a (Hincl a Ha)) as (H1 & H2 & _). intros [E|E]; [congruence|tauto]. }
      intros j b Hj Dj. rewrite Es, Es', Hv. unfold upd.
      destruct (Nat.eqb j index) eqn:E.
      * apply Nat.eqb_eq in E. subst j. rewrite Hb in Hj. injection Hj as <-.
        rewrite Nat.eqb_refl. reflexivity.
      * apply Nat.eqb_neq in E.
        assert (Hbne : b <> ni).
        { intros ->. apply E. apply (wi_inj _ _ _ (k_w _ _ _ _ _ Ik) j index ni); auto. }
        apply Nat.eqb_neq in Hbne. rewrite Hbne.
        apply Hag; [apply Hm3, Hj|]. intros [H|H]; [congruence|tauto].
    + (* Skip *)
      destruct Hres as (Hw & Hso & Hcc). subst w1.
      destruct Hact as (x & Hx & Hxn & Hset & Hval).
      destruct (Hargs x Hx) as (Hxi & Hxd & HxN).
      pose proof (KINV_alias N _ _ _ _ _ _ _ _ Ik Hb Hid Hxn Hset Hxi Hxd) as K1.
      destruct (set_active_spec _ _ _ _ Hset) as (Hxl & Hlen & Hcnt & Hbx & Hother & _).
      assert (Hxnone : bindf (s_ws st) x = None) by (unfold bindf; rewrite Hxn; reflexivity).
      exists [], cs, clive, cdefd.
      split; [reflexivity|].
      split; [exact Hso|]. split; [exact Hch|]. split; [exact Hcl|]. split; [reflexivity|].
      split.
      { constructor.
        - exact K1.
        - intros j b Hj. destruct (Nat.eq_dec j x) as [->|Hne].
          + left. apply In_fold_add. left. exact Hx.
          + rewrite (Hother j Hne) in Hj. eapply used_def; eassumption.
        - rewrite Hcnt. exact Icd.
        - rewrite Hso, Hoc. exact Io. }
      split; [rewrite Hcc; unfold count_choices; simpl; lia|].
      split; [rewrite Hoc, (count_outputs_defining _ Hdef); lia|].
      split; [rewrite (count_outputs_defining _ Hdef); reflexivity|].
      split.
      { split; [exact Hlen|]. split; [lia|]. intros j b Hj. rewrite Hother; [exact Hj|].
        intros ->. congruence. }
      intros sp sc Hag Hmo Hpre.
      destruct (step_defining sem inputs sp o index Hdef Hout) as [Es Eo].
      simpl. split; [|congruence].
      intros j b Hj Dj. rewrite Es, (Hval sp Hpre). unfold upd.
      destruct (Nat.eqb j index) eqn:E.
      * apply Nat.eqb_eq in E. subst j. rewrite Hb in Hj. injection Hj as <-.
        apply Hag; [exact Hbx|]. intros [H|H]; [congruence|tauto].
      * apply Nat.eqb_neq in E. apply Hag.
        -- rewrite Hother; [exact Hj|]. intros ->. congruence.
        -- intros [H|H]; [congruence|tauto].
Qed.

End Step.
