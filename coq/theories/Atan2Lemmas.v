(* Atan2Lemmas.v — monotonicity and range of atan2 on the reals ([Ratan2] of ER.v:
   the single zero is +0, so atan2(0, x<0) = +PI). *)
From Coq Require Import Reals Lra Lia Psatz.
From FV Require Import ER.
Local Open Scope R_scope.

Lemma atan_mono a b : a <= b -> atan a <= atan b.
Proof. intros [H| ->]; [left; now apply atan_increasing | lra]. Qed.

Lemma atan_pos a : 0 < a -> 0 < atan a.
Proof. intros H. rewrite <- atan_0. now apply atan_increasing. Qed.
Lemma atan_neg a : a < 0 -> atan a < 0.
Proof. intros H. rewrite <- atan_0. now apply atan_increasing. Qed.

Lemma Rdiv_pos_neg y x : 0 < y -> x < 0 -> y / x < 0.
Proof.
  intros. replace (y / x) with (- (y / - x)) by (field; lra).
  assert (0 < y / - x) by (apply Rdiv_lt_0_compat; lra). lra.
Qed.
Lemma Rdiv_neg_neg y x : y < 0 -> x < 0 -> 0 < y / x.
Proof. intros. replace (y / x) with ((- y) / (- x)) by (field; lra). apply Rdiv_lt_0_compat; lra. Qed.
Lemma Rdiv_neg_pos y x : y < 0 -> 0 < x -> y / x < 0.
Proof.
  intros. replace (y / x) with (- ((- y) / x)) by (field; lra).
  assert (0 < (- y) / x) by (apply Rdiv_lt_0_compat; lra). lra.
Qed.

(* atan (1/t) for negative t *)
Lemma atan_inv_neg t : t < 0 -> atan (/ t) = - (PI / 2) - atan t.
Proof.
  intros H. replace (/ t) with (- / (- t)) by (field; lra).
  rewrite atan_opp, atan_inv by lra. rewrite atan_opp. lra.
Qed.

(* ---- the two representations -------------------------------------------------------------- *)
Lemma Ratan2_xpos y x : 0 < x -> Ratan2 y x = atan (y / x).
Proof. intros H. unfold Ratan2. destruct (Rlt_dec 0 x); [reflexivity|lra]. Qed.
Lemma Ratan2_xneg_ynn y x : x < 0 -> 0 <= y -> Ratan2 y x = atan (y / x) + PI.
Proof.
  intros H Hy. unfold Ratan2. destruct (Rlt_dec 0 x); [lra|]. destruct (Rlt_dec x 0); [|lra].
  destruct (Rle_dec 0 y); [reflexivity|lra].
Qed.
Lemma Ratan2_xneg_yneg y x : x < 0 -> y < 0 -> Ratan2 y x = atan (y / x) - PI.
Proof.
  intros H Hy. unfold Ratan2. destruct (Rlt_dec 0 x); [lra|]. destruct (Rlt_dec x 0); [|lra].
  destruct (Rle_dec 0 y); [lra|reflexivity].
Qed.
Lemma Ratan2_x0 y : Ratan2 y 0 = if Rlt_dec 0 y then PI / 2 else if Rlt_dec y 0 then - (PI / 2) else 0.
Proof. unfold Ratan2. destruct (Rlt_dec 0 0); [lra|reflexivity]. Qed.

Lemma Ratan2_ypos y x : 0 < y -> Ratan2 y x = PI / 2 - atan (x / y).
Proof.
  intros Hy. destruct (Rtotal_order x 0) as [Hx|[->|Hx]].
  - rewrite Ratan2_xneg_ynn by lra.
    replace (x / y) with (/ (y / x)) by (field; lra).
    rewrite atan_inv_neg; [lra|]. apply Rdiv_pos_neg; lra.
  - rewrite Ratan2_x0. destruct (Rlt_dec 0 y); [|lra]. unfold Rdiv. rewrite Rmult_0_l, atan_0. lra.
  - rewrite Ratan2_xpos by lra.
    replace (x / y) with (/ (y / x)) by (field; lra).
    rewrite atan_inv; [lra|]. apply Rdiv_lt_0_compat; lra.
Qed.

Lemma Ratan2_yneg y x : y < 0 -> Ratan2 y x = - (PI / 2) - atan (x / y).
Proof.
  intros Hy. destruct (Rtotal_order x 0) as [Hx|[->|Hx]].
  - rewrite Ratan2_xneg_yneg by lra.
    replace (x / y) with (/ (y / x)) by (field; lra).
    rewrite atan_inv; [lra|]. apply Rdiv_neg_neg; lra.
  - rewrite Ratan2_x0. destruct (Rlt_dec 0 y); [lra|]. destruct (Rlt_dec y 0); [|lra].
    unfold Rdiv. rewrite Rmult_0_l, atan_0. lra.
  - rewrite Ratan2_xpos by lra.
    replace (x / y) with (/ (y / x)) by (field; lra).
    rewrite atan_inv_neg; [lra|]. apply Rdiv_neg_pos; lra.
Qed.

Lemma Ratan2_y0 x : Ratan2 0 x = if Rlt_dec x 0 then PI else 0.
Proof.
  destruct (Rtotal_order x 0) as [Hx|[->|Hx]].
  - rewrite Ratan2_xneg_ynn by lra. destruct (Rlt_dec x 0); [|lra].
    unfold Rdiv. rewrite Rmult_0_l, atan_0. lra.
  - rewrite Ratan2_x0. destruct (Rlt_dec 0 0); [lra|]. reflexivity.
  - rewrite Ratan2_xpos by lra. destruct (Rlt_dec x 0); [lra|].
    unfold Rdiv. rewrite Rmult_0_l, atan_0. reflexivity.
Qed.

(* ---- ranges ----------------------------------------------------------------------------------- *)
Lemma Ratan2_range_ynn y x : 0 <= y -> 0 <= Ratan2 y x <= PI.
Proof.
  intros [Hy| <-].
  - rewrite Ratan2_ypos by lra. pose proof (atan_bound (x / y)). lra.
  - rewrite Ratan2_y0. pose proof PI_RGT_0. destruct (Rlt_dec x 0); lra.
Qed.
Lemma Ratan2_range_yneg y x : y < 0 -> - PI < Ratan2 y x < 0.
Proof. intros Hy. rewrite Ratan2_yneg by lra. pose proof (atan_bound (x / y)). lra. Qed.
Lemma Ratan2_range_xnn y x : 0 <= x -> - (PI / 2) <= Ratan2 y x <= PI / 2.
Proof.
  intros [Hx| <-].
  - rewrite Ratan2_xpos by lra. pose proof (atan_bound (y / x)). lra.
  - rewrite Ratan2_x0. pose proof PI_RGT_0. destruct (Rlt_dec 0 y); [lra|]. destruct (Rlt_dec y 0); lra.
Qed.
Lemma Ratan2_range_q2 y x : x < 0 -> 0 <= y -> PI / 2 < Ratan2 y x <= PI.
Proof.
  intros Hx Hy. rewrite Ratan2_xneg_ynn by lra. pose proof (atan_bound (y / x)).
  assert (y / x <= 0).
  { unfold Rdiv. replace 0 with (y * 0) by ring. apply Rmult_le_compat_l; [lra|].
    left. now apply Rinv_lt_0_compat. }
  assert (atan (y / x) <= 0) by (rewrite <- atan_0; now apply atan_mono). lra.
Qed.
Lemma Ratan2_range_q3 y x : x < 0 -> y < 0 -> - PI < Ratan2 y x < - (PI / 2).
Proof.
  intros Hx Hy. rewrite Ratan2_xneg_yneg by lra. pose proof (atan_bound (y / x)).
  assert (0 < y / x) by (apply Rdiv_neg_neg; lra).
  pose proof (atan_pos _ H0). lra.
Qed.

(* boundary-inclusive quadrant ranges *)
Lemma Ratan2_range_q4c y x : y <= 0 -> 0 <= x -> - (PI / 2) <= Ratan2 y x <= 0.
Proof.
  intros [Hy| ->] Hx.
  - pose proof (Ratan2_range_yneg y x Hy). pose proof (Ratan2_range_xnn y x Hx). lra.
  - rewrite Ratan2_y0. pose proof PI_RGT_0. destruct (Rlt_dec x 0); lra.
Qed.
Lemma Ratan2_range_q2c y x : x <= 0 -> 0 < y -> PI / 2 <= Ratan2 y x <= PI.
Proof.
  intros [Hx| ->] Hy.
  - pose proof (Ratan2_range_q2 y x Hx ltac:(lra)). lra.
  - rewrite Ratan2_x0. pose proof PI_RGT_0. destruct (Rlt_dec 0 y); lra.
Qed.
Lemma Ratan2_range_q3c y x : x <= 0 -> y < 0 -> - PI < Ratan2 y x <= - (PI / 2).
Proof.
  intros [Hx| ->] Hy.
  - pose proof (Ratan2_range_q3 y x Hx Hy). lra.
  - rewrite Ratan2_x0. pose proof PI_RGT_0. destruct (Rlt_dec 0 y); [lra|]. destruct (Rlt_dec y 0); lra.
Qed.

(* ---- monotonicity ------------------------------------------------------------------------------- *)
Lemma Rdiv_le_l a b c : 0 < c -> a <= b -> a / c <= b / c.
Proof. intros. unfold Rdiv. apply Rmult_le_compat_r; [left; now apply Rinv_0_lt_compat|assumption]. Qed.
Lemma Rdiv_le_l_neg a b c : c < 0 -> a <= b -> b / c <= a / c.
Proof.
  intros. replace (b / c) with ((- b) / (- c)) by (field; lra).
  replace (a / c) with ((- a) / (- c)) by (field; lra). apply Rdiv_le_l; lra.
Qed.

(* y >= 0: decreasing in x *)
Lemma Ratan2_x_dec y x x' : 0 <= y -> x <= x' -> Ratan2 y x' <= Ratan2 y x.
Proof.
  intros [Hy| <-] Hx.
  - rewrite !Ratan2_ypos by lra. pose proof (atan_mono _ _ (Rdiv_le_l x x' y Hy Hx)). lra.
  - rewrite !Ratan2_y0. pose proof PI_RGT_0. destruct (Rlt_dec x' 0), (Rlt_dec x 0); lra.
Qed.
(* y < 0: increasing in x *)
Lemma Ratan2_x_inc y x x' : y < 0 -> x <= x' -> Ratan2 y x <= Ratan2 y x'.
Proof.
  intros Hy Hx. rewrite !Ratan2_yneg by lra.
  pose proof (atan_mono _ _ (Rdiv_le_l_neg x x' y Hy Hx)). lra.
Qed.
(* x >= 0: increasing in y *)
Lemma Ratan2_y_inc x y y' : 0 <= x -> y <= y' -> Ratan2 y x <= Ratan2 y' x.
Proof.
  intros [Hx| <-] Hy.
  - rewrite !Ratan2_xpos by lra. apply atan_mono. now apply Rdiv_le_l.
  - rewrite !Ratan2_x0. pose proof PI_RGT_0.
    destruct (Rlt_dec 0 y), (Rlt_dec 0 y'), (Rlt_dec y 0), (Rlt_dec y' 0); lra.
Qed.
(* x < 0: decreasing in y on y >= 0, and on y < 0 *)
Lemma Ratan2_y_dec_nn x y y' : x < 0 -> 0 <= y -> y <= y' -> Ratan2 y' x <= Ratan2 y x.
Proof.
  intros Hx Hy Hyy. rewrite !Ratan2_xneg_ynn by lra.
  pose proof (atan_mono _ _ (Rdiv_le_l_neg y y' x Hx Hyy)). lra.
Qed.
Lemma Ratan2_y_dec_neg x y y' : x < 0 -> y' < 0 -> y <= y' -> Ratan2 y' x <= Ratan2 y x.
Proof.
  intros Hx Hy Hyy. rewrite !Ratan2_xneg_yneg by lra.
  pose proof (atan_mono _ _ (Rdiv_le_l_neg y y' x Hx Hyy)). lra.
Qed.
