(* ShapeEval.v — fidget-core/src/shape/mod.rs: how ShapeTracingEval::eval_raw and
   ShapeBulkEval::eval_raw populate the evaluator's input slots from (x, y, z), an optional
   transform and a table of supplied variables, by variable IDENTITY.

   Variables are the ids of Flatten / Ctx (0, 1, 2 are the axes X, Y, Z; anything else is a
   Var::V).  A tape's VarMap is a [varmap] (list of ids; position = slot index); the HashMap
   behind it iterates in an arbitrary order, so the loop `for (var, index) in vs.iter()` is
   modelled over ANY permutation of the (var, index) pairs. *)
From Coq Require Import List Arith Bool Lia Permutation.
From FV Require Import Alloc Flatten.
Import ListNotations.

Section ShapeEval.
Context {V : Type}.
Variable zero : V.

(* ShapeVars<V>: HashMap<VarIndex, V> *)
Definition supplied := nat -> option V.

Definition bind (x y z : V) (vars : supplied) (v : nat) : option V :=
  match v with 0 => Some x | 1 => Some y | 2 => Some z | _ => vars v end.

Fixpoint upd (s : list V) (i : nat) (v : V) : list V :=
  match s, i with
  | [], _ => []
  | _ :: t, 0 => v :: t
  | h :: t, S k => h :: upd t k v
  end.

(* the body of the loop, in iteration order [it]; Err v = MissingVar { var: v } *)
Fixpoint fill (x y z : V) (vars : supplied) (it : list (nat * nat)) (scratch : list V) : result (list V) :=
  match it with
  | [] => Ok scratch
  | (v, idx) :: rest =>
      match bind x y z vars v with
      | None => Err v
      | Some val => fill x y z vars rest (upd scratch idx val)
      end
  end.

(* the (var, index) pairs of a VarMap *)
Definition pairs (vm : varmap) : list (nat * nat) := combine vm (seq 0 (length vm)).

(* eval_raw up to the call of the evaluator: scratch.resize(vs.len(), 0), then the loop *)
Definition scratch_of (x y z : V) (vars : supplied) (vm : varmap) (it : list (nat * nat)) : result (list V) :=
  fill x y z vars it (repeat zero (length vm)).

(* the environment the property speaks about *)
Definition env_of (x y z : V) (vars : supplied) (v : nat) : V :=
  match bind x y z vars v with Some a => a | None => zero end.

(* ---- bulk: one slice per slot (ShapeBulkEval::eval_raw); [pts] are the already transformed
   positions, [vars] gives each supplied variable as a function of the sample index ---- *)
Definition fill_bulk (pts : list (V * V * V)) (vars : nat -> supplied) (vm : varmap) (it : list (nat * nat))
  : list (result (list V)) :=
  map (fun kp => let '(k, (x, y, z)) := kp in scratch_of x y z (vars k) vm it) (combine (seq 0 (length pts)) pts).

End ShapeEval.

(* ====================================================================================== *)
Section Proofs.
Context {V : Type}.
Variable zero : V.

Lemma upd_length (s : list V) i v : length (upd s i v) = length s.
Proof. revert i; induction s as [|h t IH]; intros [|i]; simpl; auto. Qed.

Lemma upd_nth_same (s : list V) i v d : i < length s -> nth i (upd s i v) d = v.
Proof. revert i; induction s as [|h t IH]; intros [|i] H; simpl in *; try lia; auto; try (apply IH; lia). Qed.

Lemma upd_nth_other (s : list V) i j v d : i <> j -> nth j (upd s i v) d = nth j s d.
Proof.
  revert i j; induction s as [|h t IH]; intros [|i] [|j] H; simpl; auto; try congruence; try (apply IH; congruence).
Qed.

(* the loop succeeds exactly when every listed variable is bound, and then slot [idx] holds
   the value of the LAST pair carrying that index, other slots are untouched *)
Lemma fill_ok (x y z : V) (vars : @supplied V) it : forall s,
  (forall v idx, In (v, idx) it -> bind x y z vars v <> None) ->
  exists s', fill x y z vars it s = Ok s' /\ length s' = length s /\
    (forall j, ~ In j (map snd it) -> forall d, nth j s' d = nth j s d) /\
    (NoDup (map snd it) -> forall v idx, In (v, idx) it -> idx < length s ->
       forall d, Some (nth idx s' d) = bind x y z vars v).
Proof.
  induction it as [|[v idx] rest IH]; intros s Hb.
  - exists s. repeat split; auto. intros _ v idx [].
  - simpl. destruct (bind x y z vars v) as [val|] eqn:E.
    2:{ exfalso. apply (Hb v idx); [left; reflexivity|exact E]. }
    destruct (IH (upd s idx val)) as (s' & Hf & Hl & Hother & Hset).
    { intros v' i' Hin. apply (Hb v' i'). right; exact Hin. }
    exists s'. split; [exact Hf|]. split; [rewrite Hl; apply upd_length|]. split.
    + intros j Hj d. simpl in Hj. rewrite Hother by tauto. apply upd_nth_other. tauto.
    + intros ND v' i' Hin Hlt d. simpl in ND. inversion ND as [|? ? Hnot ND']; subst.
      destruct Hin as [Heq|Hin].
      * inversion Heq; subst. rewrite Hother by exact Hnot. rewrite upd_nth_same by exact Hlt. symmetry; exact E.
      * apply Hset; auto. rewrite upd_length. exact Hlt.
Qed.

Lemma fill_err (x y z : V) (vars : @supplied V) it : forall s,
  (exists v idx, In (v, idx) it /\ bind x y z vars v = None) ->
  exists w, (exists idx, In (w, idx) it) /\ bind x y z vars w = None /\ fill x y z vars it s = Err w.
Proof.
  induction it as [|[v idx] rest IH]; intros s (w & i & Hin & Hn).
  - destruct Hin.
  - simpl. destruct (bind x y z vars v) as [val|] eqn:E.
    + destruct Hin as [Heq|Hin]; [inversion Heq; subst; congruence|].
      destruct (IH (upd s idx val)) as (w' & (i' & Hi') & Hw & Hf); [exists w, i; auto|].
      exists w'. split; [exists i'; right; exact Hi'|]. auto.
    + exists v. split; [exists idx; left; reflexivity|]. auto.
Qed.

Lemma combine_snd {A B} (l : list A) (l' : list B) : length l = length l' -> map snd (combine l l') = l'.
Proof. revert l'; induction l as [|a l IH]; intros [|b l'] H; simpl in *; try discriminate; auto. f_equal. apply IH. lia. Qed.
Lemma combine_fst {A B} (l : list A) (l' : list B) : length l = length l' -> map fst (combine l l') = l.
Proof. revert l'; induction l as [|a l IH]; intros [|b l'] H; simpl in *; try discriminate; auto. f_equal. apply IH. lia. Qed.
Lemma pairs_snd (vm : varmap) : map snd (pairs vm) = seq 0 (length vm).
Proof. unfold pairs. apply combine_snd. rewrite seq_length; auto. Qed.
Lemma pairs_fst (vm : varmap) : map fst (pairs vm) = vm.
Proof. unfold pairs. apply combine_fst. rewrite seq_length; auto. Qed.

Lemma in_combine_seq (l : list nat) : forall base v idx,
  In (v, idx) (combine l (seq base (length l))) <-> (base <= idx /\ nth_error l (idx - base) = Some v).
Proof.
  induction l as [|h t IH]; intros base v' i'; simpl.
  - split; [tauto|]. intros [_ H]. destruct (i' - base); discriminate.
  - rewrite IH. split.
    + intros [Heq|[Hle Hn]].
      * inversion Heq; subst. split; [lia|]. replace (i' - i') with 0 by lia. reflexivity.
      * split; [lia|]. replace (i' - base) with (S (i' - S base)) by lia. exact Hn.
    + intros [Hle Hn]. destruct (i' - base) as [|k] eqn:Ek.
      * left. inversion Hn; subst. f_equal. lia.
      * right. split; [lia|]. replace (i' - S base) with k by lia. exact Hn.
Qed.

Lemma in_pairs (vm : varmap) v idx : In (v, idx) (pairs vm) <-> nth_error vm idx = Some v.
Proof.
  unfold pairs. rewrite in_combine_seq. rewrite Nat.sub_0_r. split; [tauto|]. intros H; split; [lia|exact H].
Qed.

(* ---- the theorems ---- *)

(* every variable of the tape is bound: the scratch holds, in each slot, the value of the
   variable that OWNS the slot — whatever the iteration order of the map *)
Theorem scratch_by_identity (x y z : V) (vars : @supplied V) (vm : varmap) (it : list (nat * nat)) :
  Permutation it (pairs vm) ->
  (forall v, In v vm -> bind x y z vars v <> None) ->
  scratch_of zero x y z vars vm it = Ok (map (env_of zero x y z vars) vm).
Proof.
  intros P Hb. unfold scratch_of.
  destruct (fill_ok x y z vars it (repeat zero (length vm))) as (s' & Hf & Hl & _ & Hset).
  { intros v idx Hin. apply Hb. apply (Permutation_in _ P) in Hin. apply in_pairs in Hin.
    eapply nth_error_In; eauto. }
  rewrite Hf. f_equal. rewrite repeat_length in Hl.
  apply (nth_ext _ _ zero zero); [rewrite map_length; exact Hl|].
  intros n Hn. rewrite Hl in Hn.
  destruct (nth_error vm n) as [v|] eqn:E; [|apply nth_error_None in E; lia].
  assert (Hin : In (v, n) it). { apply (Permutation_in _ (Permutation_sym P)). apply in_pairs; exact E. }
  assert (ND : NoDup (map snd it)).
  { eapply Permutation_NoDup; [apply Permutation_map, Permutation_sym, P|]. rewrite pairs_snd. apply seq_NoDup. }
  specialize (Hset ND v n Hin). rewrite repeat_length in Hset. specialize (Hset Hn zero).
  replace (nth n (map (env_of zero x y z vars) vm) zero) with (env_of zero x y z vars v).
  2:{ change zero with (env_of zero x y z vars (nth n vm 0)) at 2 || idtac.
      rewrite (nth_indep _ zero (env_of zero x y z vars 0)) by (rewrite map_length; exact Hn).
      rewrite map_nth. f_equal. symmetry. apply nth_error_nth; exact E. }
  unfold env_of. rewrite <- Hset. reflexivity.
Qed.

(* a missing variable is an error naming SOME missing variable of the tape, in any order *)
Theorem scratch_missing_is_error (x y z : V) (vars : @supplied V) (vm : varmap) (it : list (nat * nat)) :
  Permutation it (pairs vm) ->
  (exists v, In v vm /\ bind x y z vars v = None) ->
  exists w, In w vm /\ bind x y z vars w = None /\ scratch_of zero x y z vars vm it = Err w.
Proof.
  intros P (v & Hin & Hn). unfold scratch_of.
  apply In_nth_error in Hin. destruct Hin as (idx & Hidx).
  destruct (fill_err x y z vars it (repeat zero (length vm))) as (w & (i & Hi) & Hw & Hf).
  { exists v, idx. split; [|exact Hn]. apply (Permutation_in _ (Permutation_sym P)). apply in_pairs; exact Hidx. }
  exists w. split; [|auto]. apply (Permutation_in _ P) in Hi. apply in_pairs in Hi. eapply nth_error_In; eauto.
Qed.

(* ... and the axes are never missing *)
Lemma axes_always_bound (x y z : V) (vars : @supplied V) v : v < 3 -> bind x y z vars v <> None.
Proof. intros H. destruct v as [|[|[|v]]]; simpl; try discriminate. lia. Qed.

(* supplied variables the tape does not mention are ignored *)
Theorem extra_variables_ignored (x y z : V) (vars : @supplied V) (vars' : @supplied V) (vm : varmap) (it : list (nat * nat)) :
  Permutation it (pairs vm) ->
  (forall v, In v vm -> vars v = vars' v) ->
  scratch_of zero x y z vars vm it = scratch_of zero x y z vars' vm it.
Proof.
  intros P Hag. unfold scratch_of. generalize (repeat zero (length vm)) as s.
  assert (Hin : forall v idx, In (v, idx) it -> In v vm).
  { intros v idx H. apply (Permutation_in _ P) in H. apply in_pairs in H. eapply nth_error_In; eauto. }
  clear P. induction it as [|[v idx] rest IH]; intros s; simpl; auto.
  assert (E : bind x y z vars v = bind x y z vars' v).
  { destruct v as [|[|[|v]]]; simpl; auto. apply Hag. apply (Hin _ idx). left; reflexivity. }
  rewrite E. destruct (bind x y z vars' v); auto. apply IH. intros v' i' H. apply (Hin v' i'). right; exact H.
Qed.

(* the iteration order of the map is unobservable *)
Corollary iteration_order_unobservable (x y z : V) (vars : @supplied V) (vm : varmap) (it it' : list (nat * nat)) :
  Permutation it (pairs vm) -> Permutation it' (pairs vm) ->
  (forall v, In v vm -> bind x y z vars v <> None) ->
  scratch_of zero x y z vars vm it = scratch_of zero x y z vars vm it'.
Proof. intros P P' Hb. rewrite !scratch_by_identity; auto. Qed.

(* bulk evaluation fills, for every sample, exactly the point scratch *)
Theorem bulk_is_pointwise (pts : list (V * V * V)) (vars : nat -> @supplied V) (vm : varmap) it k x y z :
  nth_error pts k = Some (x, y, z) ->
  nth_error (fill_bulk zero pts vars vm it) k = Some (scratch_of zero x y z (vars k) vm it).
Proof.
  intros H. unfold fill_bulk.
  assert (Hk : k < length pts) by (apply nth_error_Some; congruence).
  rewrite nth_error_map.
  assert (G : forall base, nth_error (combine (seq base (length pts)) pts) k = Some (base + k, (x, y, z))).
  { clear Hk. revert k H. induction pts as [|p ps IH]; intros k H base; simpl in *; [destruct k; discriminate|].
    destruct k; simpl in *.
    - inversion H; subst. f_equal. f_equal. lia.
    - rewrite (IH k H (S base)). f_equal. f_equal. lia. }
  assert (E := G 0). simpl in E.
  rewrite E. reflexivity.
Qed.

End Proofs.
