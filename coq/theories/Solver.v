(* Solver.v — fidget-solver/src/lib.rs: the logic around the numerical core.
   * grad_index: free parameters numbered 0..k-1 (in some order: HashMap iteration);
   * seed packing (get_jacobian): free variable with gradient index gi gets, in sample j of
     its gradient slice, the seed (j*3 == gi, j*3+1 == gi, j*3+2 == gi); fixed variables get
     zero seeds; Jacobian entry (equation, gi) is lane gi mod 3 of sample gi / 3;
   * solve: returns a value for exactly the free parameters; with every residual exactly
     zero at the start it returns the starting values.
   The SVD / Levenberg-Marquardt step is an abstract function. *)
From Coq Require Import List Bool Arith Lia.
Import ListNotations.

(* the seed of free variable [gi] in sample [j] *)
Definition seed (gi j : nat) : bool * bool * bool :=
  (Nat.eqb (j * 3) gi, Nat.eqb (j * 3 + 1) gi, Nat.eqb (j * 3 + 2) gi).
Definition lane (s : bool * bool * bool) (k : nat) : bool :=
  match k with 0 => fst (fst s) | 1 => snd (fst s) | _ => snd s end.
(* number of samples: grad_index.len().div_ceil(3) *)
Definition samples (nfree : nat) : nat := (nfree + 2) / 3.

(* the lane/sample that get_jacobian reads for column gi carries the unit seed of variable
   gi and of no other variable: any number of free variables, not only multiples of 3 *)
Lemma seed_packing gi gi' :
  lane (seed gi' (gi / 3)) (gi mod 3) = Nat.eqb gi' gi.
Proof.
  pose proof (Nat.div_mod gi 3 ltac:(lia)) as E.
  pose proof (Nat.mod_upper_bound gi 3 ltac:(lia)) as U.
  remember (gi / 3) as q. remember (gi mod 3) as m.
  unfold seed, lane.
  assert (Hm : m = 0 \/ m = 1 \/ m = 2) by lia.
  destruct Hm as [-> | [-> | ->]]; cbn [fst snd];
    (destruct (Nat.eqb_spec gi' gi) as [->|N];
     [ apply Nat.eqb_eq; lia | apply Nat.eqb_neq; lia ]).
Qed.

Lemma sample_in_range gi nfree : gi < nfree -> gi / 3 < samples nfree.
Proof.
  intros H. unfold samples. apply Nat.div_lt_upper_bound; [lia|].
  pose proof (Nat.div_mod (nfree + 2) 3 ltac:(lia)). pose proof (Nat.mod_upper_bound (nfree + 2) 3 ltac:(lia)). lia.
Qed.

(* ---- solve: parameters, free/fixed, result keys ---- *)
Inductive parameter (T : Type) := Free (v : T) | Fixed (v : T).
Arguments Free {T}. Arguments Fixed {T}.

Section Solve.
Context {T : Type}.
Variable is_zero : T -> bool.
(* the arithmetic of the exit test (f32 in Rust) *)
Variables (t_abs : T -> T) (t_mul t_add : T -> T -> T) (t_leb : T -> T -> bool) (t_eps t_zero : T).
(* one iteration of the numerical core: (current free values, residuals) -> next values or stop *)
Variable lm_step : list T -> list T -> option (list T).
(* residuals of all equations, and the rows of the Jacobian, at (free values in grad_index order, fixed values) *)
Variable residuals : list T -> list T.
Variable jacobian : list T -> list (list T).

Definition free_vars (vars : list (nat * parameter T)) : list (nat * T) :=
  flat_map (fun p => match snd p with Free v => [(fst p, v)] | Fixed _ => [] end) vars.

(* the exit test at the top of the loop (after the repair): every residual is exactly zero, or at most
   EPSILON times the sum of the magnitudes of its first-order terms  sum_j |J_ij * x_j|  *)
Definition term_sum (row cur : list T) : T :=
  fold_left t_add (map (fun p => t_abs (t_mul (fst p) (snd p))) (combine row cur)) t_zero.
Definition done_row (r : T) (row cur : list T) : bool :=
  is_zero r || t_leb (t_abs r) (t_mul t_eps (term_sum row cur)).
Definition done_all (res : list T) (rows : list (list T)) (cur : list T) : bool :=
  forallb (fun p => done_row (fst p) (snd p) cur) (combine res rows).

Fixpoint iterate (fuel : nat) (cur : list T) : list T :=
  match fuel with
  | O => cur
  | S f =>
      if done_all (residuals cur) (jacobian cur) cur then cur          (* early exit *)
      else match lm_step cur (residuals cur) with
           | Some next => iterate f next
           | None => cur
           end
  end.

(* [vars] in grad_index order *)
Definition solve (fuel : nat) (vars : list (nat * parameter T)) : list (nat * T) :=
  let fv := free_vars vars in
  match fv with
  | [] => []                                   (* nothing to solve for *)
  | _ => combine (map fst fv) (iterate fuel (map snd fv))
  end.

Hypothesis step_len : forall cur r next, lm_step cur r = Some next -> length next = length cur.

Lemma iterate_length fuel : forall cur, length (iterate fuel cur) = length cur.
Proof.
  induction fuel as [|f IH]; intros cur; simpl; [reflexivity|].
  destruct (done_all (residuals cur) (jacobian cur) cur); [reflexivity|].
  destruct (lm_step cur (residuals cur)) as [next|] eqn:E; [|reflexivity].
  rewrite IH. now apply step_len in E.
Qed.

(* a value for exactly the free parameters, never for fixed ones *)
Theorem solve_keys fuel vars :
  map fst (solve fuel vars) = map fst (free_vars vars).
Proof.
  unfold solve. destruct (free_vars vars) as [|p l] eqn:E; [reflexivity|].
  rewrite <- E. clear E p l.
  assert (L : length (map fst (free_vars vars)) = length (iterate fuel (map snd (free_vars vars)))).
  { rewrite iterate_length, !map_length. reflexivity. }
  revert L. generalize (iterate fuel (map snd (free_vars vars))). generalize (map fst (free_vars vars)).
  induction l as [|a l IH]; intros [|b l'] H; simpl in *; try reflexivity; try discriminate.
  f_equal. apply IH. lia.
Qed.

Lemma free_vars_spec vars k v :
  In (k, v) (free_vars vars) <-> In (k, Free v) vars.
Proof.
  unfold free_vars. rewrite in_flat_map. split.
  - intros ((k', p) & Hin & Hp). destruct p; simpl in Hp; [|contradiction].
    destruct Hp as [E|[]]. injection E as <- <-. exact Hin.
  - intros H. exists (k, Free v). split; [exact H | now left].
Qed.

(* exactly satisfied equations pass the exit test *)
Lemma zero_residuals_done res rows cur : forallb is_zero res = true -> done_all res rows cur = true.
Proof.
  unfold done_all. revert rows. induction res as [|r res IH]; intros rows H; [reflexivity|].
  destruct rows as [|row rows]; [reflexivity|]. simpl in *. apply andb_prop in H. destruct H as [Hr Hres].
  unfold done_row. rewrite Hr. simpl. apply IH. exact Hres.
Qed.

(* whenever the exit test holds at the start, the starting point comes back unchanged *)
Theorem solve_done_is_fixpoint fuel vars :
  0 < fuel ->
  (let cur := map snd (free_vars vars) in done_all (residuals cur) (jacobian cur) cur = true) ->
  solve fuel vars = free_vars vars.
Proof.
  intros Hf Hz. unfold solve. destruct (free_vars vars) as [|p l] eqn:E; [reflexivity|].
  rewrite <- E in *. destruct fuel as [|f]; [lia|]. simpl in *. rewrite Hz.
  clear. induction (free_vars vars) as [|[k v] r IH]; simpl; [reflexivity|]. now rewrite IH.
Qed.

(* every equation already exactly satisfied: the starting point comes back unchanged *)
Theorem solve_satisfied_is_fixpoint fuel vars :
  0 < fuel ->
  forallb is_zero (residuals (map snd (free_vars vars))) = true ->
  solve fuel vars = free_vars vars.
Proof. intros Hf Hz. apply solve_done_is_fixpoint; [exact Hf|]. cbv zeta. apply zero_residuals_done. exact Hz. Qed.

End Solve.
