(* AllocInv.v — physical invariant of the allocator state and Hoare-style
   specifications of every primitive of the state monad. *)
From Coq Require Import List Bool Arith Lia.
From FV Require Import Ops Tape Lru Alloc LruProof.
Import ListNotations.

Ltac eqb_case x y :=
  let E := fresh "E" in
  destruct (Nat.eqb_spec x y) as [E|E]; [try subst|].

Ltac eqb_all :=
  repeat match goal with
  | |- context [Nat.eqb ?x ?y] => destruct (Nat.eqb_spec x y); try subst; try congruence; try lia
  | H : context [Nat.eqb ?x ?y] |- _ => destruct (Nat.eqb_spec x y); try subst; try congruence; try lia
  end.

Section Inv.
Context {I : Type}.
Variables n size : nat.
Hypothesis Hn : 1 <= n.
Notation ast := (ast I).
Notation op := (Tape.op I).

Definition fmap := nat -> option nat.

Definition allocf (s : ast) : fmap :=
  fun v => match nth_error (a_alloc s) v with Some x => x | None => None end.
Definition regf (s : ast) : fmap :=
  fun r => match nth_error (a_regs s) r with Some x => x | None => None end.

(* ---------- groups of the invariant, over the views ---------- *)
Definition RA (af rf : fmap) : Prop :=
  (forall r v, rf r = Some v -> af v = Some r /\ r < n) /\
  (forall v r, af v = Some r -> r < n -> rf r = Some v) /\
  (forall v l, af v = Some l -> v < size).

Definition SP (rf : fmap) (spare H : list nat) : Prop :=
  NoDup spare /\
  (forall r, In r spare -> r < n /\ rf r = None /\ ~ In r H) /\
  (forall r, In r H -> r < n /\ rf r = None) /\
  (forall r, r < n -> rf r = None -> In r spare \/ In r H).

Definition MM (af : fmap) (smem St : list nat) (sc : nat) : Prop :=
  NoDup smem /\
  (forall m, In m smem -> n <= m < sc) /\
  (forall v m, af v = Some m -> n <= m -> m < sc) /\
  (forall v m, af v = Some m -> n <= m -> ~ In v St -> ~ In m smem) /\
  (forall v w m, af v = Some m -> af w = Some m -> n <= m -> ~ In v St -> ~ In w St -> v = w) /\
  (forall v, In v St -> exists m, af v = Some m /\ n <= m).

Definition SL (spare : list nat) (sc : nat) : Prop :=
  forall r, r < n -> ~ In r spare -> r < sc.

Definition reg_ok (sc r : nat) : Prop := r < n /\ r < sc.
Definition mem_ok (sc m : nat) : Prop := n <= m /\ m < sc.

Definition op_ok (sc : nat) (o : op) : Prop :=
  match o with
  | OLoad r m | OStore r m => reg_ok sc r /\ mem_ok sc m
  | OOutput a _ => reg_ok sc a
  | OInput r _ | OCopyImm r _ => reg_ok sc r
  | OUn _ r a | OBinRI _ r a _ | OBinIR _ r a _ => reg_ok sc r /\ reg_ok sc a
  | OBinRR _ r a b => reg_ok sc r /\ reg_ok sc a /\ reg_ok sc b
  end.

Definition OU (out : list op) (sc : nat) : Prop := Forall (op_ok sc) out.

Record PInv (s : ast) (H St ord : list nat) : Prop := {
  pi_n : a_n s = n;
  pi_lregs : length (a_regs s) = n;
  pi_lalloc : length (a_alloc s) = size;
  pi_ra : RA (allocf s) (regf s);
  pi_sp : SP (regf s) (a_spare_regs s) H;
  pi_mm : MM (allocf s) (a_spare_mem s) St (a_slot_count s);
  pi_sl : SL (a_spare_regs s) (a_slot_count s);
  pi_ou : OU (a_out s) (a_slot_count s);
  pi_lru : lru_rep n (a_lru s) ord
}.

(* ---------- RA ---------- *)
Lemma RA_evict af rf af' rf' r prev mem :
  RA af rf -> rf r = Some prev -> n <= mem ->
  (forall j, af' j = if Nat.eqb j prev then Some mem else af j) ->
  (forall j, rf' j = if Nat.eqb j r then None else rf j) ->
  RA af' rf'.
Proof.
  intros (R1 & R2 & R3) Hr Hm Ea Er. destruct (R1 _ _ Hr) as [Hp Hrn].
  split; [|split].
  - intros r0 v. rewrite Er, Ea. eqb_case r0 r; [discriminate|]. intros H0.
    destruct (R1 _ _ H0) as [H1 H2]. eqb_case v prev; [congruence|]. auto.
  - intros v r0. rewrite Ea, Er. eqb_case v prev.
    + intros [= <-] ?. lia.
    + intros H0 H1. pose proof (R2 _ _ H0 H1) as H2. eqb_case r0 r; [congruence|]. auto.
  - intros v l. rewrite Ea. eqb_case v prev; eauto.
Qed.

Lemma RA_bind af rf af' rf' r v :
  RA af rf -> rf r = None -> r < n -> v < size ->
  (forall l, af v = Some l -> n <= l) ->
  (forall j, af' j = if Nat.eqb j v then Some r else af j) ->
  (forall j, rf' j = if Nat.eqb j r then Some v else rf j) ->
  RA af' rf'.
Proof.
  intros (R1 & R2 & R3) Hr Hrn Hv Hav Ea Er. split; [|split].
  - intros r0 w. rewrite Er, Ea. eqb_case r0 r.
    + intros [= <-]. rewrite Nat.eqb_refl. auto.
    + intros H0. destruct (R1 _ _ H0) as [H1 H2]. eqb_case w v; [|auto].
      apply Hav in H1. lia.
  - intros w r0. rewrite Ea, Er. eqb_case w v.
    + intros [= <-] _. now rewrite Nat.eqb_refl.
    + intros H0 H1. pose proof (R2 _ _ H0 H1). eqb_case r0 r; [congruence|auto].
  - intros w l. rewrite Ea. eqb_case w v; eauto.
Qed.

Lemma RA_rebind af rf af' rf' r v prev :
  RA af rf -> rf r = Some prev -> v < size ->
  (forall l, af v = Some l -> n <= l) ->
  (forall j, af' j = if Nat.eqb j v then Some r else if Nat.eqb j prev then None else af j) ->
  (forall j, rf' j = if Nat.eqb j r then Some v else rf j) ->
  RA af' rf'.
Proof.
  intros (R1 & R2 & R3) Hr Hv Hav Ea Er. destruct (R1 _ _ Hr) as [Hp Hrn].
  split; [|split].
  - intros r0 w. rewrite Er, Ea. eqb_case r0 r.
    + intros [= <-]. rewrite Nat.eqb_refl. auto.
    + intros H0. destruct (R1 _ _ H0) as [H1 H2]. eqb_case w v.
      * apply Hav in H1. lia.
      * eqb_case w prev; [congruence|auto].
  - intros w r0. rewrite Ea, Er. eqb_case w v.
    + intros [= <-] _. now rewrite Nat.eqb_refl.
    + eqb_case w prev; [discriminate|]. intros H0 H1. pose proof (R2 _ _ H0 H1) as H2.
      eqb_case r0 r; [congruence|auto].
  - intros w l. rewrite Ea. eqb_case w v; [auto|]. eqb_case w prev; [discriminate|eauto].
Qed.

Lemma RA_release af rf af' rf' r v :
  RA af rf -> rf r = Some v ->
  (forall j, af' j = if Nat.eqb j v then None else af j) ->
  (forall j, rf' j = if Nat.eqb j r then None else rf j) ->
  RA af' rf'.
Proof.
  intros (R1 & R2 & R3) Hr Ea Er. destruct (R1 _ _ Hr) as [Hp Hrn].
  split; [|split].
  - intros r0 w. rewrite Er, Ea. eqb_case r0 r; [discriminate|].
    intros H0. destruct (R1 _ _ H0) as [H1 H2]. eqb_case w v; [congruence|auto].
  - intros w r0. rewrite Ea, Er. eqb_case w v; [discriminate|].
    intros H0 H1. pose proof (R2 _ _ H0 H1). eqb_case r0 r; [congruence|auto].
  - intros w l. rewrite Ea. eqb_case w v; [discriminate|eauto].
Qed.

(* ---------- SP ---------- *)
Lemma SP_take rf r rest H : SP rf (r :: rest) H -> SP rf rest (r :: H).
Proof.
  intros (S1 & S2 & S3 & S4). inversion S1; subst.
  split; [assumption|]. split; [|split].
  - intros r0 Hin. destruct (S2 r0 (or_intror Hin)) as (?&?&?).
    repeat split; auto. intros [<-|?]; auto.
  - intros r0 [<-|Hin]; [destruct (S2 r (or_introl eq_refl)) as (?&?&?); auto|auto].
  - intros r0 H0 H1. destruct (S4 r0 H0 H1) as [[<-|?]|?]; simpl; auto.
Qed.

Lemma SP_evict rf rf' r prev H :
  SP rf [] H -> rf r = Some prev -> r < n ->
  (forall j, rf' j = if Nat.eqb j r then None else rf j) ->
  SP rf' [] (r :: H).
Proof.
  intros (S1 & S2 & S3 & S4) Hr Hrn Er. split; [constructor|]. split; [|split].
  - intros r0 [].
  - intros r0 [<-|Hin]; rewrite Er.
    + now rewrite Nat.eqb_refl.
    + destruct (S3 _ Hin). eqb_case r0 r; auto.
  - intros r0 H0. rewrite Er. eqb_case r0 r; [simpl; auto|].
    intros H1. destruct (S4 r0 H0 H1) as [[]|?]; simpl; auto.
Qed.

Lemma SP_bind rf rf' spare H r v :
  SP rf spare H -> In r H ->
  (forall j, rf' j = if Nat.eqb j r then Some v else rf j) ->
  SP rf' spare (remove Nat.eq_dec r H).
Proof.
  intros (S1 & S2 & S3 & S4) Hin Er. split; [assumption|]. split; [|split].
  - intros r0 H0. destruct (S2 _ H0) as (?&?&?). rewrite Er.
    eqb_case r0 r; [tauto|]. repeat split; auto. intros H4. apply in_remove in H4. tauto.
  - intros r0 H0. apply in_remove in H0. destruct H0 as [H0 Hne].
    destruct (S3 _ H0). rewrite Er. eqb_case r0 r; [congruence|auto].
  - intros r0 H0. rewrite Er. eqb_case r0 r; [discriminate|]. intros H1.
    destruct (S4 _ H0 H1); auto. right. apply in_in_remove; auto.
Qed.

Lemma SP_rebind rf rf' spare H r v prev :
  SP rf spare H -> rf r = Some prev ->
  (forall j, rf' j = if Nat.eqb j r then Some v else rf j) ->
  SP rf' spare H.
Proof.
  intros (S1 & S2 & S3 & S4) Hr Er. split; [assumption|]. split; [|split].
  - intros r0 H0. destruct (S2 _ H0) as (?&?&?). rewrite Er.
    eqb_case r0 r; [congruence|auto].
  - intros r0 H0. destruct (S3 _ H0). rewrite Er. eqb_case r0 r; [congruence|auto].
  - intros r0 H0. rewrite Er. eqb_case r0 r; [discriminate|]. auto.
Qed.

Lemma SP_release rf rf' spare H r v :
  SP rf spare H -> rf r = Some v -> r < n ->
  (forall j, rf' j = if Nat.eqb j r then None else rf j) ->
  SP rf' (r :: spare) H.
Proof.
  intros (S1 & S2 & S3 & S4) Hr Hrn Er. split; [|split; [|split]].
  - constructor; [|assumption]. intros H0. destruct (S2 _ H0) as (?&?&?). congruence.
  - intros r0 [<-|H0]; rewrite Er.
    + rewrite Nat.eqb_refl. repeat split; auto. intros H0. destruct (S3 _ H0). congruence.
    + destruct (S2 _ H0) as (?&?&?). eqb_case r0 r; auto.
  - intros r0 H0. destruct (S3 _ H0). rewrite Er. eqb_case r0 r; auto.
  - intros r0 H0. rewrite Er. eqb_case r0 r; [simpl; auto|].
    intros H1. destruct (S4 _ H0 H1); simpl; auto.
Qed.

(* ---------- MM ---------- *)
Ltac split6 := split; [|split; [|split; [|split; [|split]]]].

Lemma MM_mono af smem St sc sc' : MM af smem St sc -> sc <= sc' -> MM af smem St sc'.
Proof.
  intros (M1 & M2 & M3 & M4 & M5 & M6) Hle. split6; auto.
  - intros m Hin. apply M2 in Hin. lia.
  - intros v m H0 H1. specialize (M3 _ _ H0 H1). lia.
Qed.

(* [af'] only loses / relocates-to-register entries; stale set shrinks accordingly *)
Lemma MM_sub af af' smem St St' sc :
  MM af smem St sc ->
  (forall w m, af' w = Some m -> n <= m -> af w = Some m) ->
  (forall w, In w St' -> In w St /\ af' w = af w) ->
  (forall w m, af' w = Some m -> n <= m -> ~ In w St' -> ~ In w St) ->
  MM af' smem St' sc.
Proof.
  intros (M1 & M2 & M3 & M4 & M5 & M6) Hsub HSt Hns. split6; auto.
  - intros v m H0 H1. eauto.
  - intros v m H0 H1 H2. eauto.
  - intros v w m H0 H1 H2 H3 H4. eapply M5; eauto.
  - intros v H0. destruct (HSt _ H0) as [H1 H2]. rewrite H2. auto.
Qed.

Lemma MM_evict_spare af af' mem rest sc prev r :
  MM af (mem :: rest) [] sc -> af prev = Some r -> r < n ->
  (forall j, af' j = if Nat.eqb j prev then Some mem else af j) ->
  MM af' rest [] sc.
Proof.
  intros (M1 & M2 & M3 & M4 & M5 & M6) Hp Hr Ea. inversion M1 as [|? ? Hnin Hnd]; subst.
  assert (Hmem : n <= mem < sc) by (apply M2; left; reflexivity).
  split6; auto.
  - intros m Hin. apply M2; right; auto.
  - intros v m. rewrite Ea. eqb_case v prev; [intros [= <-]; lia|eauto].
  - intros v m. rewrite Ea. eqb_case v prev.
    + intros [= <-] _ _. assumption.
    + intros H0 H1 _ H2. eapply M4; eauto. right; auto.
  - intros v w m. rewrite !Ea. intros H0 H1 H2 _ _.
    eqb_case v prev; eqb_case w prev; auto.
    + injection H0 as <-. exfalso. eapply (M4 w mem); eauto. left; reflexivity.
    + injection H1 as <-. exfalso. eapply (M4 v mem); eauto. left; reflexivity.
    + eapply M5; eauto.
  - intros v [].
Qed.

Lemma MM_evict_fresh af af' sc prev r :
  MM af [] [] sc -> n <= sc -> af prev = Some r -> r < n ->
  (forall j, af' j = if Nat.eqb j prev then Some sc else af j) ->
  MM af' [] [] (sc + 1).
Proof.
  intros (M1 & M2 & M3 & M4 & M5 & M6) Hsc Hp Hr Ea.
  split6; auto.
  - intros m [].
  - intros v m. rewrite Ea. eqb_case v prev; [intros [= <-]; lia|].
    intros H0 H1. specialize (M3 _ _ H0 H1). lia.
  - intros v w m. rewrite !Ea. intros H0 H1 H2 _ _.
    eqb_case v prev; eqb_case w prev; auto.
    + injection H0 as <-. specialize (M3 _ _ H1 H2). lia.
    + injection H1 as <-. specialize (M3 _ _ H0 H2). lia.
    + eapply M5; eauto.
  - intros v [].
Qed.

Lemma MM_store af smem St sc v m :
  MM af smem St sc -> af v = Some m -> n <= m -> ~ In v St ->
  MM af (m :: smem) (v :: St) sc.
Proof.
  intros (M1 & M2 & M3 & M4 & M5 & M6) Hv Hm Hns.
  split6; auto.
  - constructor; eauto.
  - intros m' [<-|Hin]; [eauto|apply M2; auto].
  - intros w m' H0 H1 H2 [<-|H3].
    + apply H2. left. eapply M5; eauto. intros H4; apply H2; right; exact H4.
    + eapply M4; eauto. intros H4; apply H2; right; exact H4.
  - intros w w' m' H0 H1 H2 H3 H4. eapply M5; eauto;
      intros H5; [apply H3|apply H4]; right; exact H5.
  - intros w [<-|H0]; eauto.
Qed.

(* ---------- OU ---------- *)
Lemma op_ok_mono sc sc' o : sc <= sc' -> op_ok sc o -> op_ok sc' o.
Proof.
  intros Hle. unfold op_ok, reg_ok, mem_ok. destruct o; intuition lia.
Qed.

Lemma OU_mono out sc sc' : OU out sc -> sc <= sc' -> OU out sc'.
Proof. intros H Hle. eapply Forall_impl; [|exact H]. intros o. apply op_ok_mono, Hle. Qed.

(* ---------- views under writes ---------- *)
Ltac proj_simpl :=
  cbn [a_n a_alloc a_regs a_lru a_spare_regs a_spare_mem a_out a_slot_count
       set_alloc set_regs set_lru set_spare_regs set_spare_mem set_out set_slot_count].
Ltac proj_simpl_in H :=
  cbn [a_n a_alloc a_regs a_lru a_spare_regs a_spare_mem a_out a_slot_count
       set_alloc set_regs set_lru set_spare_regs set_spare_mem set_out set_slot_count] in H.

Lemma allocf_write (l : list (option nat)) v (x : option nat) j : v < length l ->
  match nth_error (list_upd l v x) j with Some y => y | None => None end =
  if Nat.eqb j v then x else match nth_error l j with Some y => y | None => None end.
Proof.
  intros H. rewrite nth_error_list_upd. apply Nat.ltb_lt in H. rewrite H.
  destruct (Nat.eqb j v); reflexivity.
Qed.

Lemma allocf_lt s v l : allocf s v = Some l -> v < length (a_alloc s).
Proof.
  unfold allocf. destruct (nth_error (a_alloc s) v) eqn:E; [|discriminate].
  intros _. apply nth_error_Some. congruence.
Qed.

Lemma alloc_at_eq (s : ast) v : v < length (a_alloc s) -> alloc_at v s = Ok (allocf s v, s).
Proof.
  intros H. unfold alloc_at, allocf. apply nth_error_Some in H.
  destruct (nth_error (a_alloc s) v); [reflexivity|congruence].
Qed.

Lemma reg_at_eq (s : ast) r : r < length (a_regs s) -> reg_at r s = Ok (regf s r, s).
Proof.
  intros H. unfold reg_at, regf. apply nth_error_Some in H.
  destruct (nth_error (a_regs s) r); [reflexivity|congruence].
Qed.

Lemma write_alloc_eq (s : ast) v x : v < length (a_alloc s) ->
  write_alloc v x s = Ok (tt, set_alloc s (list_upd (a_alloc s) v x)).
Proof. intros H. unfold write_alloc. apply Nat.ltb_lt in H. now rewrite H. Qed.

Lemma write_reg_eq (s : ast) r x : r < length (a_regs s) ->
  write_reg r x s = Ok (tt, set_regs s (list_upd (a_regs s) r x)).
Proof. intros H. unfold write_reg. apply Nat.ltb_lt in H. now rewrite H. Qed.

Lemma bind_ok {A B} (m : M A) (f : A -> M B) (s s1 : ast) a :
  m s = Ok (a, s1) -> bind m f s = f a s1.
Proof. intros H. unfold bind. now rewrite H. Qed.

(* ---------- derived facts ---------- *)
Lemma held_reg_ok s H St ord r : PInv s H St ord -> In r H -> reg_ok (a_slot_count s) r.
Proof.
  intros P Hin. destruct (pi_sp _ _ _ _ P) as (S1 & S2 & S3 & S4).
  destruct (S3 _ Hin) as [Hlt Hnone]. split; [assumption|].
  apply (pi_sl _ _ _ _ P); auto. intros Hs. destruct (S2 _ Hs) as (_ & _ & Hc). auto.
Qed.

Lemma bound_reg_ok s H St ord r v : PInv s H St ord -> regf s r = Some v ->
  reg_ok (a_slot_count s) r.
Proof.
  intros P Hr. destruct (pi_sp _ _ _ _ P) as (S1 & S2 & S3 & S4).
  destruct (pi_ra _ _ _ _ P) as (R1 & R2 & R3). destruct (R1 _ _ Hr) as [_ Hlt].
  split; [assumption|]. apply (pi_sl _ _ _ _ P); auto.
  intros Hs. destruct (S2 _ Hs) as (_ & Hc & _). congruence.
Qed.

(* ---------- get_allocation ---------- *)
Definition alloc_class (a : option nat) : allocation :=
  match a with
  | Some i => if Nat.ltb i n then ARegister i else AMemory i
  | None => AUnassigned
  end.

Lemma get_allocation_spec s H St ord v : PInv s H St ord -> v < size ->
  exists s' ord',
    get_allocation v s = Ok (alloc_class (allocf s v), s') /\
    PInv s' H St ord' /\ allocf s' = allocf s /\ regf s' = regf s /\ a_out s' = a_out s /\
    ord' = match allocf s v with
           | Some i => if Nat.ltb i n then a_poke i ord else ord
           | None => ord
           end.
Proof.
  intros P Hv. unfold get_allocation.
  rewrite (bind_ok _ _ _ _ _ (alloc_at_eq s v ltac:(rewrite (pi_lalloc _ _ _ _ P); exact Hv))).
  unfold bind at 1, get. unfold alloc_class. rewrite (pi_n _ _ _ _ P).
  destruct (allocf s v) as [i|] eqn:Ea.
  - destruct (Nat.ltb i n) eqn:Ei.
    + apply Nat.ltb_lt in Ei. unfold bind, poke, ret.
      eexists _, _. split; [reflexivity|].
      split; [|repeat split; reflexivity].
      destruct P. constructor; proj_simpl; auto.
      apply lru_poke_rep; auto.
    + unfold ret. exists s, ord. split; [reflexivity|]. split; [exact P|]. repeat split; reflexivity.
  - unfold ret. exists s, ord. split; [reflexivity|]. split; [exact P|]. repeat split; reflexivity.
Qed.

(* ---------- get_register ---------- *)
Lemma get_register_spec s H ord : PInv s H [] ord ->
  match get_register s with
  | Ok (r, s') => exists ord',
      PInv s' (r :: H) [] ord' /\ In r (firstn 1 ord') /\
      (forall k x, In x (firstn k ord) -> In x (firstn (S k) ord')) /\
      ( (regf s r = None /\ ~ In r H /\ allocf s' = allocf s /\ regf s' = regf s /\
         a_out s' = a_out s)
        \/
        (r = last ord 0 /\ exists prev mem, regf s r = Some prev /\ n <= mem /\
           (forall v, allocf s v <> Some mem) /\
           (forall j, allocf s' j = if Nat.eqb j prev then Some mem else allocf s j) /\
           (forall j, regf s' j = if Nat.eqb j r then None else regf s j) /\
           a_out s' = OLoad r mem :: a_out s) )
  | Err _ => In (last ord 0) H
  end.
Proof.
  intros P. pose proof P as [Pn Plr Pla Pra Psp Pmm Psl Pou Plru].
  unfold get_register, get_spare_register. unfold bind at 1. unfold bind at 1. unfold get at 1.
  destruct (a_spare_regs s) as [|r rest] eqn:Espare.
  - (* evict *)
    unfold ret at 1. unfold bind at 1. unfold oldest_reg, bind at 1, get at 1.
    destruct (lru_pop_rep _ _ _ Hn Plru) as [Epop Rpop].
    destruct (lru_pop (a_lru s)) as [r l'] eqn:Elp. simpl fst in Epop. simpl snd in Rpop.
    unfold a_pop in Epop, Rpop. simpl fst in Epop. simpl snd in Rpop.
    unfold bind at 1, put at 1. unfold ret at 1.
    assert (Hrin : In r ord).
    { rewrite Epop. pose proof (rep_nonempty _ _ _ Hn Plru) as Hne.
      rewrite (app_removelast_last 0 Hne) at 2. apply in_or_app. right. left. reflexivity. }
    assert (Hrn : r < n) by (apply (lr_lt _ _ _ Plru); exact Hrin).
    assert (Hsc : n <= a_slot_count s).
    { assert (n - 1 < a_slot_count s); [|lia]. apply Psl; [lia|]. auto. }
    destruct Psp as (S1 & S2 & S3 & S4).
    (* get_memory *)
    unfold bind at 1. unfold get_memory at 1. unfold bind at 1, get at 1. proj_simpl.
    destruct (regf s r) as [prev|] eqn:Eregr.
    2:{ (* register is held: error 12 *)
        assert (Hh : In r H).
        { destruct (S4 r Hrn Eregr) as [Hc|Hc]; [destruct Hc|exact Hc]. }
        rewrite <- Epop.
        destruct (a_spare_mem s) as [|mem restm];
          unfold bind at 1, put at 1; [unfold bind at 1, assert; rewrite Pn;
             apply Nat.leb_le in Hsc; rewrite Hsc; unfold ret at 1|];
          unfold ret at 1;
          unfold bind at 1; rewrite reg_at_eq by (proj_simpl; lia);
          change (regf _ r) with (regf s r); rewrite Eregr; exact Hh. }
    destruct Pra as (R1 & R2 & R3). destruct (R1 _ _ Eregr) as [Eprev _].
    pose proof (R3 _ _ Eprev) as Hprev.
    destruct (a_spare_mem s) as [|mem restm] eqn:Esm.
    + (* fresh memory slot *)
      unfold bind at 1, put at 1. unfold bind at 1, assert. rewrite Pn.
      pose proof Hsc as Hsc'. apply Nat.leb_le in Hsc'. rewrite Hsc'. unfold ret at 1. unfold ret at 1.
      unfold bind at 1. rewrite reg_at_eq by (proj_simpl; lia).
      change (regf _ r) with (regf s r). rewrite Eregr.
      unfold bind at 1. rewrite write_alloc_eq by (proj_simpl; lia). proj_simpl.
      unfold bind at 1. rewrite write_reg_eq by (proj_simpl; lia). proj_simpl.
      unfold bind at 1, push, ret. proj_simpl.
      set (mem := a_slot_count s).
      match goal with |- exists o, PInv ?S _ _ _ /\ _ => set (s' := S) end.
      assert (Ea : forall j, allocf s' j = if Nat.eqb j prev then Some mem else allocf s j)
        by (intros j; unfold allocf, s'; proj_simpl; apply allocf_write; lia).
      assert (Er : forall j, regf s' j = if Nat.eqb j r then None else regf s j)
        by (intros j; unfold regf, s'; proj_simpl; apply allocf_write; lia).
      eexists. split; [|split; [|split]]; [| |intros k x; apply (recent_pop k ord x)|].
      * constructor; try (unfold s'; proj_simpl; auto; fail).
        -- unfold s'; proj_simpl. now rewrite list_upd_length.
        -- unfold s'; proj_simpl. now rewrite list_upd_length.
        -- eapply (RA_evict (allocf s) (regf s) _ _ r prev mem);
             [split; [|split]; eauto|exact Eregr|unfold mem; lia|exact Ea|exact Er].
        -- unfold s' at 2; proj_simpl. rewrite Espare.
           eapply (SP_evict (regf s) _ r prev H);
             [split; [|split; [|split]]; eauto|exact Eregr|exact Hrn|exact Er].
        -- unfold s' at 2 3; proj_simpl. rewrite Esm.
           eapply (MM_evict_fresh (allocf s) _ _ prev r); [exact Pmm|exact Hsc|exact Eprev|exact Hrn|exact Ea].
        -- unfold s'; proj_simpl. rewrite Espare.
           intros r0 H0 H1. specialize (Psl r0 H0 H1). fold mem in Psl. lia.
        -- unfold s'; proj_simpl. constructor.
           ++ simpl. unfold reg_ok, mem_ok.
              assert (r < a_slot_count s) by (apply Psl; [lia|auto]).
              unfold mem. lia.
           ++ eapply OU_mono; [exact Pou|unfold mem; lia].
      * simpl. left. symmetry. exact Epop.
      * right. split; [exact Epop|]. exists prev, mem.
        split; [exact Eregr|]. split; [unfold mem; lia|]. split; [|split; [|split]].
        -- intros v Hc. destruct Pmm as (M1 & M2 & M3 & M4 & M5 & M6).
           specialize (M3 _ _ Hc Hsc). unfold mem in M3. lia.
        -- exact Ea.
        -- exact Er.
        -- reflexivity.
    + (* reuse a spare memory slot *)
      unfold bind at 1, put at 1. unfold ret at 1.
      unfold bind at 1. rewrite reg_at_eq by (proj_simpl; lia).
      change (regf _ r) with (regf s r). rewrite Eregr.
      unfold bind at 1. rewrite write_alloc_eq by (proj_simpl; lia). proj_simpl.
      unfold bind at 1. rewrite write_reg_eq by (proj_simpl; lia). proj_simpl.
      unfold bind at 1, push, ret. proj_simpl.
      assert (Hmem : n <= mem < a_slot_count s).
      { destruct Pmm as (M1 & M2 & _). apply M2. left. reflexivity. }
      match goal with |- exists o, PInv ?S _ _ _ /\ _ => set (s' := S) end.
      assert (Ea : forall j, allocf s' j = if Nat.eqb j prev then Some mem else allocf s j)
        by (intros j; unfold allocf, s'; proj_simpl; apply allocf_write; lia).
      assert (Er : forall j, regf s' j = if Nat.eqb j r then None else regf s j)
        by (intros j; unfold regf, s'; proj_simpl; apply allocf_write; lia).
      eexists. split; [|split; [|split]]; [| |intros k x; apply (recent_pop k ord x)|].
      * constructor; try (unfold s'; proj_simpl; auto; fail).
        -- unfold s'; proj_simpl. now rewrite list_upd_length.
        -- unfold s'; proj_simpl. now rewrite list_upd_length.
        -- eapply (RA_evict (allocf s) (regf s) _ _ r prev mem);
             [split; [|split]; eauto|exact Eregr|lia|exact Ea|exact Er].
        -- unfold s' at 2; proj_simpl. rewrite Espare.
           eapply (SP_evict (regf s) _ r prev H);
             [split; [|split; [|split]]; eauto|exact Eregr|exact Hrn|exact Er].
        -- unfold s' at 2 3; proj_simpl.
           eapply (MM_evict_spare (allocf s) _ mem restm _ prev r); [exact Pmm|exact Eprev|exact Hrn|exact Ea].
        -- unfold s'; proj_simpl. rewrite Espare. exact Psl.
        -- unfold s'; proj_simpl. constructor; [|exact Pou].
           simpl. unfold reg_ok, mem_ok.
           assert (r < a_slot_count s) by (apply Psl; [lia|auto]). lia.
      * simpl. left. symmetry. exact Epop.
      * right. split; [exact Epop|]. exists prev, mem.
        split; [exact Eregr|]. split; [lia|]. split; [|split; [|split]].
        -- intros v Hc. destruct Pmm as (M1 & M2 & M3 & M4 & M5 & M6).
           eapply (M4 v mem); eauto; [lia|left; reflexivity].
        -- exact Ea.
        -- exact Er.
        -- reflexivity.
  - (* spare register *)
    unfold bind at 1, put at 1. unfold ret at 1.
    destruct Psp as (S1 & S2 & S3 & S4).
    destruct (S2 r (or_introl eq_refl)) as (Hrn & Hrnone & HrH).
    unfold bind at 1. rewrite reg_at_eq by (proj_simpl; lia).
    change (regf _ r) with (regf s r). rewrite Hrnone.
    unfold bind at 1, assert, ret at 1. unfold bind at 1, poke. unfold ret. proj_simpl.
    eexists. split; [|split; [|split]]; [| |intros k x; apply (recent_poke r k ord x)|].
    + constructor; proj_simpl; auto.
      * apply SP_take. split; [|split; [|split]]; auto.
      * eapply MM_mono; [exact Pmm|lia].
      * intros r0 H0 H1. destruct (Nat.eq_dec r0 r) as [->|Hne]; [lia|].
        assert (r0 < a_slot_count s); [|lia]. apply Psl; auto.
        intros [Hc|Hc]; [congruence|auto].
      * eapply OU_mono; [exact Pou|lia].
      * apply lru_poke_rep; auto.
    + simpl. left. reflexivity.
    + left. repeat split; auto.
Qed.

(* ---------- push ---------- *)
Lemma push_spec s H St ord o : PInv s H St ord -> op_ok (a_slot_count s) o ->
  PInv (set_out s (o :: a_out s)) H St ord.
Proof.
  intros [Pn Plr Pla Pra Psp Pmm Psl Pou Plru] Ho. constructor; proj_simpl; auto.
  constructor; auto.
Qed.

(* ---------- push_store ---------- *)
Lemma push_store_spec s H St ord r m v :
  PInv s H St ord -> In r H -> allocf s v = Some m -> n <= m -> ~ In v St ->
  exists s', push_store r m s = Ok (tt, s') /\
    PInv s' H (v :: St) ord /\ allocf s' = allocf s /\ regf s' = regf s /\
    a_out s' = OStore r m :: a_out s /\ a_slot_count s' = a_slot_count s.
Proof.
  intros P Hr Hv Hm Hns. pose proof P as [Pn Plr Pla Pra Psp Pmm Psl Pou Plru].
  unfold push_store, release_mem, bind, push, get, assert, put. proj_simpl.
  rewrite Pn. pose proof Hm as Hm'. apply Nat.leb_le in Hm'. rewrite Hm'. unfold ret.
  eexists. split; [reflexivity|]. split; [|repeat split; reflexivity].
  constructor; proj_simpl; auto.
  - eapply MM_store; eauto.
  - constructor; [|exact Pou]. simpl. split.
    + eapply held_reg_ok; eauto.
    + split; [assumption|]. destruct Pmm as (M1 & M2 & M3 & _). eauto.
Qed.

(* ---------- release_reg ---------- *)
Lemma release_reg_spec s H St ord r v :
  PInv s H St ord -> regf s r = Some v ->
  exists s', release_reg r s = Ok (tt, s') /\
    PInv s' H St ord /\
    (forall j, allocf s' j = if Nat.eqb j v then None else allocf s j) /\
    (forall j, regf s' j = if Nat.eqb j r then None else regf s j) /\
    a_out s' = a_out s.
Proof.
  intros P Hr. pose proof P as [Pn Plr Pla Pra Psp Pmm Psl Pou Plru].
  pose proof Pra as (R1 & R2 & R3). destruct (R1 _ _ Hr) as [Hv Hrn].
  pose proof (R3 _ _ Hv) as Hvs.
  unfold release_reg. unfold bind at 1, get at 1. unfold bind at 1, assert. rewrite Pn.
  pose proof Hrn as Hrn'. apply Nat.ltb_lt in Hrn'. rewrite Hrn'. unfold ret at 1.
  unfold bind at 1. rewrite reg_at_eq by lia. rewrite Hr.
  unfold bind at 1. rewrite write_reg_eq by lia.
  unfold bind at 1. rewrite write_alloc_eq by (proj_simpl; lia). proj_simpl.
  match goal with |- exists s', Ok (tt, ?S) = _ /\ _ => set (s' := S) end.
  assert (Ea : forall j, allocf s' j = if Nat.eqb j v then None else allocf s j)
    by (intros j; unfold allocf, s'; proj_simpl; apply allocf_write; lia).
  assert (Er : forall j, regf s' j = if Nat.eqb j r then None else regf s j)
    by (intros j; unfold regf, s'; proj_simpl; apply allocf_write; lia).
  exists s'. split; [reflexivity|]. split; [|split; [exact Ea|split; [exact Er|reflexivity]]].
  constructor; try (unfold s'; proj_simpl; auto; fail).
  - unfold s'; proj_simpl. now rewrite list_upd_length.
  - unfold s'; proj_simpl. now rewrite list_upd_length.
  - eapply (RA_release (allocf s) (regf s) _ _ r v); eauto.
  - unfold s' at 2; proj_simpl.
    eapply (SP_release (regf s) _ _ _ r v); eauto.
  - unfold s' at 2 3; proj_simpl.
    eapply (MM_sub (allocf s)); [exact Pmm| | |].
    + intros w m. rewrite Ea. eqb_case w v; [discriminate|auto].
    + intros w Hw. split; [assumption|]. rewrite Ea. eqb_case w v; [|reflexivity].
      destruct Pmm as (_ & _ & _ & _ & _ & M6). destruct (M6 _ Hw) as (m & Hm1 & Hm2).
      rewrite Hv in Hm1. injection Hm1 as <-. lia.
    + auto.
  - unfold s'; proj_simpl. intros r0 H0 H1. apply Psl; auto. intros Hc; apply H1; right; exact Hc.
Qed.

(* ---------- bind_register ---------- *)
Lemma bind_register_spec s H St ord v r :
  PInv s H St ord -> In r H -> v < size -> (allocf s v = None \/ In v St) ->
  exists s', bind_register v r s = Ok (tt, s') /\
    PInv s' (remove Nat.eq_dec r H) (remove Nat.eq_dec v St) ord /\
    (forall j, allocf s' j = if Nat.eqb j v then Some r else allocf s j) /\
    (forall j, regf s' j = if Nat.eqb j r then Some v else regf s j) /\
    a_out s' = a_out s.
Proof.
  intros P Hr Hv Hav. pose proof P as [Pn Plr Pla Pra Psp Pmm Psl Pou Plru].
  pose proof Psp as (S1 & S2 & S3 & S4). destruct (S3 _ Hr) as [Hrn Hrnone].
  pose proof Pmm as (M1 & M2 & M3 & M4 & M5 & M6).
  assert (Hge : forall l, allocf s v = Some l -> n <= l).
  { intros l Hl. destruct Hav as [Hc|Hc]; [congruence|].
    destruct (M6 _ Hc) as (m & Hm1 & Hm2). congruence. }
  unfold bind_register. unfold bind at 1, get at 1.
  unfold bind at 1. rewrite alloc_at_eq by lia.
  unfold bind at 1, assert. rewrite Pn.
  assert (Echk : alloc_ge_n (allocf s v) n = true).
  { unfold alloc_ge_n. destruct (allocf s v) as [l|] eqn:El; [|reflexivity].
    apply Nat.leb_le. auto. }
  rewrite Echk. unfold ret at 1.
  unfold bind at 1. rewrite reg_at_eq by lia. rewrite Hrnone.
  unfold bind at 1. rewrite write_reg_eq by lia.
  rewrite write_alloc_eq by (proj_simpl; lia). proj_simpl.
  match goal with |- exists s', Ok (tt, ?S) = _ /\ _ => set (s' := S) end.
  assert (Ea : forall j, allocf s' j = if Nat.eqb j v then Some r else allocf s j)
    by (intros j; unfold allocf, s'; proj_simpl; apply allocf_write; lia).
  assert (Er : forall j, regf s' j = if Nat.eqb j r then Some v else regf s j)
    by (intros j; unfold regf, s'; proj_simpl; apply allocf_write; lia).
  exists s'. split; [reflexivity|]. split; [|split; [exact Ea|split; [exact Er|reflexivity]]].
  constructor; try (unfold s'; proj_simpl; auto; fail).
  - unfold s'; proj_simpl. now rewrite list_upd_length.
  - unfold s'; proj_simpl. now rewrite list_upd_length.
  - eapply (RA_bind (allocf s) (regf s) _ _ r v); eauto.
  - unfold s' at 2; proj_simpl. eapply (SP_bind (regf s)); eauto.
  - unfold s' at 2 3; proj_simpl.
    eapply (MM_sub (allocf s)); [exact Pmm| | |].
    + intros w m. rewrite Ea. eqb_case w v; [intros [= <-]; lia|auto].
    + intros w Hw. apply in_remove in Hw. destruct Hw as [Hw Hne]. split; [assumption|].
      rewrite Ea. eqb_case w v; [congruence|reflexivity].
    + intros w m. rewrite Ea. eqb_case w v; [intros [= <-]; lia|].
      intros _ _ H0 H1. apply H0. apply in_in_remove; auto.
Qed.

(* ---------- rebind_register ---------- *)
Lemma rebind_register_spec s H St ord v r prev :
  PInv s H St ord -> regf s r = Some prev -> v < size -> (allocf s v = None \/ In v St) ->
  exists s', rebind_register v r s = Ok (tt, s') /\
    PInv s' H (remove Nat.eq_dec v St) ord /\
    (forall j, allocf s' j = if Nat.eqb j v then Some r
                             else if Nat.eqb j prev then None else allocf s j) /\
    (forall j, regf s' j = if Nat.eqb j r then Some v else regf s j) /\
    a_out s' = a_out s.
Proof.
  intros P Hr Hv Hav. pose proof P as [Pn Plr Pla Pra Psp Pmm Psl Pou Plru].
  pose proof Pra as (R1 & R2 & R3). destruct (R1 _ _ Hr) as [Hp Hrn].
  pose proof (R3 _ _ Hp) as Hps.
  pose proof Pmm as (M1 & M2 & M3 & M4 & M5 & M6).
  assert (Hge : forall l, allocf s v = Some l -> n <= l).
  { intros l Hl. destruct Hav as [Hc|Hc]; [congruence|].
    destruct (M6 _ Hc) as (m & Hm1 & Hm2). congruence. }
  unfold rebind_register. unfold bind at 1, get at 1.
  unfold bind at 1. rewrite alloc_at_eq by lia.
  unfold bind at 1, assert. rewrite Pn.
  assert (Echk : alloc_ge_n (allocf s v) n = true).
  { unfold alloc_ge_n. destruct (allocf s v) as [l|] eqn:El; [|reflexivity].
    apply Nat.leb_le. auto. }
  rewrite Echk. unfold ret at 1.
  unfold bind at 1. rewrite reg_at_eq by lia. rewrite Hr.
  unfold bind at 1. rewrite write_alloc_eq by lia.
  unfold bind at 1. rewrite write_reg_eq by (proj_simpl; lia).
  rewrite write_alloc_eq by (proj_simpl; rewrite list_upd_length; lia). proj_simpl.
  match goal with |- exists s', Ok (tt, ?S) = _ /\ _ => set (s' := S) end.
  assert (Ea : forall j, allocf s' j = if Nat.eqb j v then Some r
                                      else if Nat.eqb j prev then None else allocf s j).
  { intros j. unfold allocf, s'. proj_simpl.
    rewrite allocf_write by (rewrite list_upd_length; lia).
    rewrite allocf_write by lia. reflexivity. }
  assert (Er : forall j, regf s' j = if Nat.eqb j r then Some v else regf s j)
    by (intros j; unfold regf, s'; proj_simpl; apply allocf_write; lia).
  exists s'. split; [reflexivity|]. split; [|split; [exact Ea|split; [exact Er|reflexivity]]].
  constructor; try (unfold s'; proj_simpl; auto; fail).
  - unfold s'; proj_simpl. now rewrite list_upd_length.
  - unfold s'; proj_simpl. now rewrite !list_upd_length.
  - eapply (RA_rebind (allocf s) (regf s) _ _ r v prev); eauto.
  - unfold s' at 2; proj_simpl. eapply (SP_rebind (regf s)); eauto.
  - unfold s' at 2 3; proj_simpl.
    eapply (MM_sub (allocf s)); [exact Pmm| | |].
    + intros w m. rewrite Ea. eqb_case w v; [intros [= <-]; lia|].
      eqb_case w prev; [discriminate|auto].
    + intros w Hw. apply in_remove in Hw. destruct Hw as [Hw Hne]. split; [assumption|].
      rewrite Ea. eqb_case w v; [congruence|]. eqb_case w prev; [|reflexivity].
      destruct (M6 _ Hw) as (m & Hm1 & Hm2). rewrite Hp in Hm1. injection Hm1 as <-. lia.
    + intros w m. rewrite Ea. eqb_case w v; [intros [= <-]; lia|].
      intros _ _ H0 H1. apply H0. apply in_in_remove; auto.
Qed.

End Inv.
