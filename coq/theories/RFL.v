(* RFL.v — the real-number instance of the float-like structure [FL] (Interval.v):
   what the derivative theorems (GradSound.v, C05) are about.

   There is no NaN ([fl_is_nan] is constantly false; [fl_nan], [fl_inf], [fl_neg_inf]
   are the real 0: they are never produced under the differentiability side
   conditions).  Comparisons are the decidable real comparisons, arithmetic is real
   arithmetic, the elementary functions are those of the Coq standard library.

   Also: the point semantics over R ([r_un], [r_bin], [r_sem]) mirroring
   [f32_un]/[f32_bin] of F32Sem.v. *)
From Coq Require Import Reals ZArith Bool List Lra.
From Flocq Require Import Raux.
From FV Require Import Ops Tape Interval.
Local Open Scope R_scope.

(* ---- comparisons ---- *)
Definition r_ltb (a b : R) : bool := if Rlt_dec a b then true else false.
Definition r_leb (a b : R) : bool := if Rle_dec a b then true else false.
Definition r_eqb (a b : R) : bool := if Req_EM_T a b then true else false.

Lemma r_ltb_true a b : a < b -> r_ltb a b = true.
Proof. unfold r_ltb; destruct (Rlt_dec a b); [reflexivity | contradiction]. Qed.
Lemma r_ltb_false a b : ~ a < b -> r_ltb a b = false.
Proof. unfold r_ltb; destruct (Rlt_dec a b); [contradiction | reflexivity]. Qed.
Lemma r_eqb_true a b : a = b -> r_eqb a b = true.
Proof. unfold r_eqb; destruct (Req_EM_T a b); [reflexivity | contradiction]. Qed.
Lemma r_eqb_false a b : a <> b -> r_eqb a b = false.
Proof. unfold r_eqb; destruct (Req_EM_T a b); [contradiction | reflexivity]. Qed.

(* ---- rounding to integers ---- *)
Definition r_floor (x : R) : R := IZR (Zfloor x).
Definition r_ceil (x : R) : R := IZR (Zceil x).
(* f32::round: nearest integer, halfway cases away from zero *)
Definition r_round (x : R) : R :=
  if Rle_dec 0 x then IZR (Zfloor (x + / 2)) else IZR (Zceil (x - / 2)).

(* f32::div_euclid: the q with a = b*q + r, 0 <= r < |b| *)
Definition r_div_euclid (a b : R) : R :=
  if Rlt_dec 0 b then r_floor (a / b) else r_ceil (a / b).
(* f32::rem_euclid: the r above *)
Definition r_rem_euclid (a b : R) : R := a - b * r_div_euclid a b.

(* atan2 y x: the angle of the point (x, y), in (-PI, PI]; by the usual case analysis
   on the sign of x:
     x > 0           atan (y/x)
     x < 0, y >= 0   atan (y/x) + PI
     x < 0, y < 0    atan (y/x) - PI
     x = 0, y > 0    PI/2
     x = 0, y < 0    -PI/2
     x = 0, y = 0    0                                                          *)
Definition r_atan2 (y x : R) : R :=
  if Rlt_dec 0 x then atan (y / x)
  else if Rlt_dec x 0 then
    (if Rle_dec 0 y then atan (y / x) + PI else atan (y / x) - PI)
  else if Rlt_dec 0 y then PI / 2
  else if Rlt_dec y 0 then - (PI / 2)
  else 0.

Definition r_fl : FL R :=
  {| fl_zero := 0; fl_one := 1; fl_neg_one := -1; fl_two := 2; fl_three := 3; fl_four := 4;
     fl_nan := 0; fl_inf := 0; fl_neg_inf := 0; fl_pi := PI; fl_tau := 2 * PI; fl_neg_pi := - PI;
     fl_is_nan := fun _ => false;
     fl_lt := r_ltb; fl_le := r_leb; fl_eq := r_eqb;
     fl_add := Rplus; fl_sub := Rminus; fl_mul := Rmult; fl_div := Rdiv;
     fl_neg := Ropp; fl_abs := Rabs; fl_sqrt := sqrt;
     fl_floor := r_floor; fl_ceil := r_ceil; fl_round := r_round;
     fl_min := Rmin; fl_max := Rmax;
     fl_sin := sin; fl_cos := cos; fl_tan := tan; fl_asin := asin; fl_acos := acos;
     fl_atan := atan; fl_exp := exp; fl_ln := ln;
     fl_atan2 := r_atan2; fl_rem_euclid := r_rem_euclid;
     fl_bits_eq := r_eqb;
     fl_rand := fun _ => 0; fl_mix := fun _ _ => 0; fl_quadrant := fun _ => Q0 |}.

(* ---- point semantics over R (mirrors f32_un / f32_bin of F32Sem.v) ---- *)
Definition r_un (u : uop) (a : R) : R :=
  match u with
  | UNeg => - a
  | UAbs => Rabs a
  | URecip => 1 / a
  | USqrt => sqrt a
  | USquare => a * a
  | UFloor => r_floor a
  | UCeil => r_ceil a
  | URound => r_round a
  | USin => sin a
  | UCos => cos a
  | UTan => tan a
  | UAsin => asin a
  | UAcos => acos a
  | UAtan => atan a
  | UExp => exp a
  | ULn => ln a
  | UNot => if Req_EM_T a 0 then 1 else 0
  | URand => 0
  | UCopy => a
  end.

Definition r_compare (x y : R) : R :=
  if Rlt_dec x y then -1 else if Rlt_dec y x then 1 else 0.

Definition r_bin (b : bop) (x y : R) : R :=
  match b with
  | BAdd => x + y
  | BSub => x - y
  | BMul => x * y
  | BDiv => x / y
  | BAtan => r_atan2 x y            (* lhs is the "y" of atan2 *)
  | BMin => Rmin x y
  | BMax => Rmax x y
  | BCompare => r_compare x y
  | BMod => r_rem_euclid x y
  | BAnd => if Req_EM_T x 0 then x else y
  | BOr => if Req_EM_T x 0 then y else x
  | BMix => 0
  end.

Definition r_sem : Sem R R :=
  {| s_dflt := fl_nan _ r_fl;
     s_imm := fun c => c;
     s_un := r_un;
     s_rr := r_bin;
     s_ri := fun b x c => r_bin b x c;
     s_ir := fun b c x => r_bin b c x;
     s_ch_rr := fun _ _ _ => TUnknown;
     s_ch_ri := fun _ _ _ => TUnknown |}.

(* ---- facts about floor / ceil / round / div_euclid used by GradSound.v ---- *)
Definition is_int (x : R) : Prop := exists n : Z, x = IZR n.

Lemma floor_const x y : IZR (Zfloor x) < y < IZR (Zfloor x) + 1 -> r_floor y = r_floor x.
Proof.
  intros H. unfold r_floor. f_equal. apply Zfloor_imp. rewrite plus_IZR. simpl. lra.
Qed.

Lemma not_int_floor_lt x : ~ is_int x -> IZR (Zfloor x) < x < IZR (Zfloor x) + 1.
Proof.
  intros H. pose proof (Zfloor_lb x). pose proof (Zfloor_ub x).
  split; [|lra]. destruct (Req_dec (IZR (Zfloor x)) x) as [E|E]; [|lra].
  exfalso. apply H. exists (Zfloor x). now symmetry.
Qed.

Lemma ceil_floor_open x y : IZR (Zfloor x) < y < IZR (Zfloor x) + 1 -> r_ceil y = IZR (Zfloor x) + 1.
Proof.
  intros H. unfold r_ceil. rewrite <- (plus_IZR _ 1). f_equal.
  apply Zceil_imp. replace (Zfloor x + 1 - 1)%Z with (Zfloor x) by ring. rewrite plus_IZR. simpl. lra.
Qed.

Lemma round_open x y : IZR (Zfloor (x + /2)) < y + /2 < IZR (Zfloor (x + /2)) + 1 ->
  r_round y = IZR (Zfloor (x + /2)).
Proof.
  intros H. unfold r_round. destruct (Rle_dec 0 y); f_equal.
  - apply Zfloor_imp. rewrite plus_IZR. simpl. lra.
  - apply Zceil_imp. rewrite minus_IZR. simpl. lra.
Qed.
