(* SimplifyValidate.v — Stage A for simplification: a verified validator.
   [check_simplify parent trace child] walks the parent SSA tape in evaluation
   order, keeping for every parent variable a child variable claimed to hold the
   same value ([phi]) and, for child variables, which of them are copies of one
   another ([rep]).  Decided choices must have been replaced by their operand
   (aliasing, CopyReg in the child, or CopyImm).  Soundness
   (SimplifyValidateProof.v): if it answers true then on every input on which the
   trace is valid the child writes the parent's outputs — for every value type and
   semantics in which CopyReg is the identity. *)
From Coq Require Import List Bool Arith.
From FV Require Import Ops Tape Validate.
Import ListNotations.

Section SV.
Context {I : Type}.
Variable ieqb : I -> I -> bool.
Notation op := (Tape.op I).

Definition pmap := nat -> option nat.     (* parent variable -> child variable *)
Definition rmap := nat -> option nat.     (* child variable -> representative child variable *)

Definition pm_kill (phi : pmap) (c : nat) : pmap :=
  fun q => match phi q with Some w => if Nat.eqb w c then None else Some w | None => None end.
Definition pm_bind (phi : pmap) (p c : nat) : pmap :=
  fun q => if Nat.eqb q p then Some c else pm_kill phi c q.
Definition pm_alias (phi : pmap) (p : nat) (target : option nat) : pmap :=
  fun q => if Nat.eqb q p then target else phi q.

(* child variable c is (re)defined by a non-copy op *)
Definition rep_def (rep : rmap) (c : nat) : rmap :=
  fun q => if Nat.eqb q c then Some c
           else match rep q with Some r => if Nat.eqb r c then None else Some r | None => None end.
(* child variable c := copy of src *)
Definition rep_copy (rep : rmap) (c src : nat) : rmap :=
  let r := match rep src with Some r => r | None => src end in
  if Nat.eqb r c then rep_def rep c
  else fun q => if Nat.eqb q c then Some r
                else match rep q with Some r' => if Nat.eqb r' c then None else Some r' | None => None end.

(* do child variables a and b provably hold the same value? *)
Definition same_child (rep : rmap) (a b : nat) : bool :=
  Nat.eqb a b ||
  match rep a, rep b with Some x, Some y => Nat.eqb x y | _, _ => false end.

Definition pm_is (phi : pmap) (rep : rmap) (p c : nat) : bool :=
  match phi p with Some w => same_child rep w c | None => false end.

(* child ops already executed whose output still holds the value of the op applied to
   the current values of its arguments ("available expressions") *)
Definition mentions (c : nat) (o : op) : bool :=
  existsb (Nat.eqb c) (op_args o) || match op_out o with Some x => Nat.eqb c x | None => false end.
Definition av_kill (av : list op) (c : nat) : list op := filter (fun o => negb (mentions c o)) av.
Definition av_add (av : list op) (co : op) (c : nat) : list op :=
  let av' := av_kill av c in
  if existsb (Nat.eqb c) (op_args co) then av' else co :: av'.

(* consume leading CopyReg ops of the child *)
Fixpoint eat_copies (child : list op) (phi : pmap) (rep : rmap) (av : list op)
  : list op * pmap * rmap * list op :=
  match child with
  | OUn UCopy c src :: rest => eat_copies rest (pm_kill phi c) (rep_copy rep c src) (av_kill av c)
  | _ => (child, phi, rep, av)
  end.

(* does child op [co] compute parent op [po]?  returns the child's output *)
Definition same_op (phi : pmap) (rep : rmap) (po co : op) : option nat :=
  match po, co with
  | OInput _ i, OInput c j => if Nat.eqb i j then Some c else None
  | OCopyImm _ x, OCopyImm c y => if ieqb x y then Some c else None
  | OUn u _ a, OUn u' c a' => if uop_eqb u u' && pm_is phi rep a a' then Some c else None
  | OBinRR b _ l r, OBinRR b' c l' r' =>
      if bop_eqb b b' && pm_is phi rep l l' && pm_is phi rep r r' then Some c else None
  | OBinRI b _ a x, OBinRI b' c a' y =>
      if bop_eqb b b' && pm_is phi rep a a' && ieqb x y then Some c else None
  | OBinIR b _ a x, OBinIR b' c a' y =>
      if bop_eqb b b' && pm_is phi rep a a' && ieqb x y then Some c else None
  | _, _ => None
  end.

Inductive verdict := Reject | Next (child : list op) (tr : list tchoice) (phi : pmap) (rep : rmap) (av : list op).

Fixpoint av_find (phi : pmap) (rep : rmap) (po : op) (av : list op) : option nat :=
  match av with
  | [] => None
  | co :: rest => match same_op phi rep po co with Some c => Some c | None => av_find phi rep po rest end
  end.

(* an ordinary defining op: matched by the child's next op, or dead in the child *)
Definition sv_plain (po : op) (p : nat) (child : list op) (tr : list tchoice) (phi : pmap) (rep : rmap)
           (av : list op) : verdict :=
  let reuse := Next child tr (pm_alias phi p (av_find phi rep po av)) rep av in
  match child with
  | co :: child' =>
      match same_op phi rep po co with
      | Some c => Next child' tr (pm_bind phi p c) (rep_def rep c) (av_add av co c)
      | None => reuse
      end
  | [] => reuse
  end.

(* the parent variable takes the value of parent variable x *)
Definition sv_side (x p : nat) (child : list op) (tr : list tchoice) (phi : pmap) (rep : rmap)
           (av : list op) : verdict :=
  Next child tr (pm_alias phi p (phi x)) rep av.

Definition sv_core (po : op) (child : list op) (tr : list tchoice) (phi : pmap) (rep : rmap)
           (av : list op) : verdict :=
  match po with
  | OLoad _ _ | OStore _ _ => Reject
  | OOutput p i =>
      match child with
      | OOutput c j :: child' => if pm_is phi rep p c && Nat.eqb i j then Next child' tr phi rep av else Reject
      | _ => Reject
      end
  | OUn UCopy p a => sv_side a p child tr phi rep av
  | OBinRR b p l r =>
      if bop_has_choice b then
        match tr with
        | [] => Reject
        | TUnknown :: _ => Reject
        | TLeft :: tr' => sv_side l p child tr' phi rep av
        | TRight :: tr' => sv_side r p child tr' phi rep av
        | TBoth :: tr' => sv_plain po p child tr' phi rep av
        end
      else sv_plain po p child tr phi rep av
  | OBinRI b p a imm =>
      if bop_has_choice b then
        match tr with
        | [] => Reject
        | TUnknown :: _ => Reject
        | TLeft :: tr' => sv_side a p child tr' phi rep av
        | TRight :: tr' => sv_plain (OCopyImm p imm) p child tr' phi rep av
        | TBoth :: tr' => sv_plain po p child tr' phi rep av
        end
      else sv_plain po p child tr phi rep av
  | OInput p _ | OCopyImm p _ | OUn _ p _ | OBinIR _ p _ _ => sv_plain po p child tr phi rep av
  end.

Definition sv_step (po : op) (child : list op) (tr : list tchoice) (phi : pmap) (rep : rmap)
           (av : list op) : verdict :=
  let '(child1, phi1, rep1, av1) := eat_copies child phi rep av in
  sv_core po child1 tr phi1 rep1 av1.

(* parent and child in evaluation order *)
Fixpoint sv (parent child : list op) (tr : list tchoice) (phi : pmap) (rep : rmap) (av : list op) : bool :=
  match parent with
  | [] => match eat_copies child phi rep av, tr with ([], _, _, _), [] => true | _, _ => false end
  | po :: parent' =>
      match sv_step po child tr phi rep av with
      | Reject => false
      | Next child' tr' phi' rep' av' => sv parent' child' tr' phi' rep' av'
      end
  end.

(* tapes root-first as stored, trace in evaluation order *)
Definition check_simplify (parent : list op) (trace : list tchoice) (child : list op) : bool :=
  sv (rev parent) (rev child) trace (fun _ => None) (fun _ => None) [].

End SV.
