(* FlattenPass1.v — the first loop of SsaTape::new (Flatten.pass1): invariant,
   preservation, termination within the fuel, and what holds at the end. *)
From Coq Require Import List Bool Arith Lia.
From FV Require Import Ops Tape Alloc Flatten CtxEval FlattenLib.
Import ListNotations.

(* ---- VarMap ---------------------------------------------------------------------- *)
Lemma var_index_some m : forall v k, var_index m v = Some k -> nth_error m k = Some v.
Proof.
  induction m; simpl; intros v k H; try discriminate.
  destruct (Nat.eqb_spec a v).
  - inversion H; subst; reflexivity.
  - destruct (var_index m v) eqn:E; simpl in H; try discriminate.
    inversion H; subst. simpl. apply IHm; auto.
Qed.

Lemma var_index_none m : forall v, var_index m v = None -> ~ In v m.
Proof.
  induction m; simpl; intros v H; auto.
  destruct (Nat.eqb_spec a v); try discriminate.
  destruct (var_index m v) eqn:E; simpl in H; try discriminate.
  intros [A|A]; auto. eapply IHm; eauto.
Qed.

Lemma var_index_in m : forall v, In v m -> exists k, var_index m v = Some k.
Proof.
  intros v H. destruct (var_index m v) eqn:E; eauto.
  apply var_index_none in E; contradiction.
Qed.

Lemma var_insert_in m v x : In x (var_insert m v) <-> In x m \/ x = v.
Proof.
  unfold var_insert. destruct (var_index m v) eqn:E.
  - apply var_index_some in E. apply nth_error_In in E.
    split; auto. intros [A|A]; subst; auto.
  - rewrite in_app_iff; simpl. intuition.
Qed.

Lemma var_insert_nodup m v : NoDup m -> NoDup (var_insert m v).
Proof.
  unfold var_insert. destruct (var_index m v) eqn:E; auto.
  intros ND. apply var_index_none in E.
  apply NoDup_rev in ND. rewrite <- (rev_involutive (m ++ [v])).
  apply NoDup_rev. rewrite rev_app_distr; simpl. constructor; auto.
  rewrite <- in_rev; auto.
Qed.

Section P1.
Context {I : Type}.
Variable arena : list (cnode I).
Variable roots : list nat.
Notation n := (length arena).
Hypothesis WF : arena_wf arena.

Definition slot_ok (o : cnode I) (s : option (@slot I)) (slots : nat) : Prop :=
  match o with
  | NConst c => s = Some (SImm c)
  | _ => exists r, s = Some (SReg r) /\ r < slots
  end.

Lemma slot_ok_mono o s a b : a <= b -> slot_ok o s a -> slot_ok o s b.
Proof.
  destruct o; simpl; auto; intros L (x & E & R); exists x; split; auto; lia.
Qed.

Record Inv1 (st : @p1 I) (todo vis : list nat) : Prop := {
  i1_ls : length (p1_seen st) = n;
  i1_lm : length (p1_map st) = n;
  i1_lp : length (p1_parents st) = n;
  i1_todo : forall k, In k todo -> k < n;
  i1_seen : forall k, nth k (p1_seen st) false = true <-> In k vis;
  i1_map : forall k o, In k vis -> nth_error arena k = Some o ->
           slot_ok o (nth k (p1_map st) None) (p1_slots st);
  i1_inj : forall k1 k2 r, In k1 vis -> In k2 vis ->
           nth k1 (p1_map st) None = Some (SReg r) ->
           nth k2 (p1_map st) None = Some (SReg r) -> k1 = k2;
  i1_surj : forall r, r < p1_slots st ->
            exists k, In k vis /\ nth k (p1_map st) None = Some (SReg r);
  i1_par : forall k, k < n -> nth k (p1_parents st) 0 = cnt (kids arena vis) k;
  i1_closed : forall p c, In p vis -> In c (childs arena p) -> In c vis \/ In c todo;
  i1_roots : forall r, In r roots -> In r vis \/ In r todo;
  i1_vnd : NoDup (p1_vars st);
  i1_vars : forall v, In v (p1_vars st) <->
            exists k, In k vis /\ nth_error arena k = Some (NInput v);
  i1_nd : NoDup vis;
  i1_prov : forall k, In k vis \/ In k todo ->
            In k roots \/ exists p, In p vis /\ In k (childs arena p);
}.

Definition slot_for (o : cnode I) (s : nat) : @slot I :=
  match o with NConst c => SImm c | _ => SReg s end.
Definition slots_for (o : cnode I) (s : nat) : nat :=
  match o with NConst _ => s | _ => S s end.
Definition vars_for (o : cnode I) (m : varmap) : varmap :=
  match o with NInput v => var_insert m v | _ => m end.

Lemma pass1_step_new st node todo o :
  nth_error arena node = Some o -> nth node (p1_seen st) false = false ->
  pass1_step arena st node todo =
  Ok ({| p1_seen := list_upd (p1_seen st) node true;
         p1_map := list_upd (p1_map st) node (Some (slot_for o (p1_slots st)));
         p1_parents := fold_left bump (children o) (p1_parents st);
         p1_vars := vars_for o (p1_vars st);
         p1_slots := slots_for o (p1_slots st) |}, rev (children o) ++ todo).
Proof.
  intros E S. unfold pass1_step. rewrite E, S. destruct o; reflexivity.
Qed.

Lemma pass1_step_old st node todo o :
  nth_error arena node = Some o -> nth node (p1_seen st) false = true ->
  pass1_step arena st node todo = Ok (st, todo).
Proof. intros E S. unfold pass1_step. rewrite E, S. reflexivity. Qed.

Lemma children_le2 (o : cnode I) : length (children o) <= 2.
Proof. destruct o; simpl; lia. Qed.

Lemma childs_lt p c : In c (childs arena p) -> c < p.
Proof.
  unfold childs. destruct (nth_error arena p) eqn:E; simpl; try tauto.
  intros; eapply WF; eauto.
Qed.

Lemma slots_for_ge o s : s <= slots_for o s.
Proof. destruct o; simpl; lia. Qed.

Lemma slot_ok_new o s : slot_ok o (Some (slot_for o s)) (slots_for o s).
Proof. destruct o; simpl; eauto. Qed.

Lemma pass1_step_inv st node rest vis :
  Inv1 st (node :: rest) vis ->
  exists st' todo' vis',
    pass1_step arena st node rest = Ok (st', todo') /\
    Inv1 st' todo' vis' /\
    length todo' + 2 * cf (p1_seen st') + 1 <= length (node :: rest) + 2 * cf (p1_seen st).
Proof.
  intros Inv. destruct Inv.
  assert (Hn : node < n) by (apply i1_todo0; simpl; auto).
  destruct (nth_error arena node) as [o|] eqn:Eo;
    [|apply nth_error_None in Eo; lia].
  destruct (nth node (p1_seen st) false) eqn:Es.
  - (* already seen *)
    exists st, rest, vis. split; [eapply pass1_step_old; eauto|].
    assert (Hv : In node vis) by (apply i1_seen0; auto).
    split; [|simpl; lia].
    constructor; auto.
    + intros; apply i1_todo0; simpl; auto.
    + intros p c Hp Hc. destruct (i1_closed0 p c Hp Hc) as [A|[A|A]]; subst; auto.
    + intros r Hr. destruct (i1_roots0 r Hr) as [A|[A|A]]; subst; auto.
    + intros k Hk. apply i1_prov0. simpl; tauto.
  - (* first visit *)
    assert (Hnv : ~ In node vis).
    { intros A. apply i1_seen0 in A. congruence. }
    eexists _, _, (node :: vis). split; [eapply pass1_step_new; eauto|].
    assert (Hch : childs arena node = children o) by (unfold childs; rewrite Eo; auto).
    split.
    + constructor; simpl.
      * rewrite lu_length; auto.
      * rewrite lu_length; auto.
      * rewrite fold_bump_length; auto.
      * intros k Hk. apply in_app_or in Hk. destruct Hk as [Hk|Hk].
        -- apply in_rev in Hk. rewrite <- Hch in Hk. apply childs_lt in Hk. lia.
        -- apply i1_todo0; simpl; auto.
      * intros k. rewrite lu_nth. destruct (Nat.eqb_spec k node).
        -- subst. destruct (Nat.ltb_spec node (length (p1_seen st))); try lia;
           try (split; auto).
        -- rewrite i1_seen0. split; auto. intros [A|A]; auto. congruence.
      * intros k o' [Hk|Hk] Ek.
        -- subst. rewrite lu_nth_same by lia.
           assert (o' = o) by congruence. subst. apply slot_ok_new.
        -- assert (k <> node) by (intros ->; contradiction).
           rewrite lu_nth_other by auto.
           eapply slot_ok_mono; [apply slots_for_ge|]. eauto.
      * intros k1 k2 r H1 H2.
        assert (Hold : forall k, In k vis -> nth k (p1_map st) None = Some (SReg r) -> r < p1_slots st).
        { intros k Hk Ek. assert (k < n).
          { apply i1_seen0 in Hk. apply nth_true_lt in Hk. lia. }
          destruct (nth_error arena k) as [ok|] eqn:Eok; [|apply nth_error_None in Eok; lia].
          pose proof (i1_map0 k ok Hk Eok) as So. rewrite Ek in So.
          destruct ok; simpl in So; try discriminate;
            destruct So as (r' & Er & Lr); inversion Er; subst; auto. }
        assert (Hnew : nth node (list_upd (p1_map st) node (Some (slot_for o (p1_slots st)))) None
                       = Some (SReg r) -> r = p1_slots st).
        { rewrite lu_nth_same by lia. destruct o; simpl; intros A; inversion A; auto. }
        destruct H1 as [<-|H1], H2 as [<-|H2]; auto.
        -- assert (k2 <> node) by (intros ->; contradiction).
           rewrite (lu_nth_other _ _ k2) by auto.
           intros A B. apply Hnew in A. apply Hold in B; auto. lia.
        -- assert (k1 <> node) by (intros ->; contradiction).
           rewrite (lu_nth_other _ _ k1) by auto.
           intros A B. apply Hnew in B. apply Hold in A; auto. lia.
        -- assert (k1 <> node) by (intros ->; contradiction).
           assert (k2 <> node) by (intros ->; contradiction).
           rewrite !lu_nth_other by auto. eauto.
      * intros r Hr.
        assert (Hcase : r < p1_slots st \/ (r = p1_slots st /\ slot_for o (p1_slots st) = SReg r)).
        { destruct o; simpl in *; try lia; destruct (Nat.eq_dec r (p1_slots st)); subst; auto; left; lia. }
        destruct Hcase as [A|[A B]].
        -- destruct (i1_surj0 r A) as (k & Hk & Ek). exists k; split; auto.
           assert (k <> node) by (intros ->; contradiction).
           rewrite lu_nth_other; auto.
        -- exists node; split; auto. rewrite lu_nth_same by lia. rewrite B; auto.
      * intros k Hk. rewrite fold_bump_nth by lia.
        rewrite Hch, cnt_app, i1_par0 by auto. lia.
      * intros p c [Hp|Hp] Hc.
        -- subst. right. apply in_or_app; left. apply -> in_rev. rewrite <- Hch; auto.
        -- destruct (i1_closed0 p c Hp Hc) as [A|[A|A]]; subst; auto.
           right; apply in_or_app; auto.
      * intros r Hr. destruct (i1_roots0 r Hr) as [A|[A|A]]; subst; auto.
        right; apply in_or_app; auto.
      * destruct o; simpl; auto. apply var_insert_nodup; auto.
      * intros v. split.
        -- intros Hv.
           assert (Hc : In v (p1_vars st) \/ o = NInput v).
           { destruct o; simpl in Hv; auto. apply var_insert_in in Hv. destruct Hv; subst; auto. }
           destruct Hc as [A|A].
           ++ apply i1_vars0 in A. destruct A as (k & Hk & Ek). exists k; auto.
           ++ subst. exists node; auto.
        -- intros (k & [Hk|Hk] & Ek).
           ++ subst. rewrite Eo in Ek. inversion Ek; subst. simpl.
              apply var_insert_in; auto.
           ++ assert (In v (p1_vars st)) by (apply i1_vars0; eauto).
              destruct o; simpl; auto. apply var_insert_in; auto.
      * constructor; auto.
      * intros k Hk.
        assert (Hc : In k (children o) \/ In k vis \/ In k (node :: rest)).
        { destruct Hk as [[<-|Hk]|Hk]; simpl; auto.
          apply in_app_or in Hk. destruct Hk as [Hk|Hk]; auto. apply in_rev in Hk; auto. }
        destruct Hc as [Hc|Hc].
        -- right. exists node. split; auto. rewrite Hch; auto.
        -- destruct (i1_prov0 k Hc) as [A|(p & A & B)]; auto.
           right; exists p; auto.
    + simpl. rewrite app_length, rev_length.
      pose proof (children_le2 o).
      assert (S (cf (list_upd (p1_seen st) node true)) = cf (p1_seen st)).
      { apply cf_upd. apply nth_false_dflt; auto; lia. }
      lia.
Qed.

Lemma pass1_total : forall fuel st todo vis,
  Inv1 st todo vis -> length todo + 2 * cf (p1_seen st) <= fuel ->
  exists s1 vis1, pass1 fuel arena st todo = Ok s1 /\ Inv1 s1 [] vis1.
Proof.
  induction fuel; intros st todo vis Inv Hf.
  - destruct todo; simpl in *; try lia. eauto.
  - destruct todo as [|node rest]; simpl; eauto.
    destruct (pass1_step_inv _ _ _ _ Inv) as (st' & todo' & vis' & E & Inv' & M).
    rewrite E. eapply IHfuel; eauto. simpl in *; lia.
Qed.

Definition st0 : @p1 I :=
  {| p1_seen := repeat false n; p1_map := repeat None n; p1_parents := repeat 0 n;
     p1_vars := []; p1_slots := 0 |}.

Lemma inv1_init : (forall r, In r roots -> r < n) -> Inv1 st0 (rev roots) [].
Proof.
  intros Hr. constructor; simpl; try (rewrite repeat_length; auto); try tauto.
  - intros k Hk. apply Hr. apply in_rev; auto.
  - intros k. rewrite nth_repeat'. destruct (k <? n); split; intros; try discriminate; tauto.
  - intros; lia.
  - intros k Hk. rewrite nth_repeat'. destruct (k <? n); auto.
  - intros r H; right. apply -> in_rev; auto.
  - constructor.
  - intros v; split; try tauto. intros (k & [] & _).
  - constructor.
  - intros k [[]|Hk]. left. apply in_rev; auto.
Qed.

End P1.
