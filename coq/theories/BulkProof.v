From Coq Require Import List Bool Arith Lia.
From FV Require Import Bulk.
Import ListNotations.

Section BulkProof.
Variable V : Type.
Variable nanv : V.
Variable f pad : nat -> V.

Lemma upd_length (l : list V) k v : length (Tape_list_upd V l k v) = length l.
Proof. revert k; induction l as [|x l IH]; intros [|k]; simpl; auto. Qed.

Lemma upd_nth (l : list V) k v i d :
  nth i (Tape_list_upd V l k v) d = if Nat.eqb i k then (if Nat.ltb k (length l) then v else nth i l d) else nth i l d.
Proof.
  revert k i. induction l as [|x l IH]; intros [|k] [|i]; simpl; try reflexivity.
  - destruct (Nat.eqb i k); reflexivity.
  - rewrite IH. destruct (Nat.eqb i k); [|reflexivity].
    replace (Nat.ltb (S k) (S (length l))) with (Nat.ltb k (length l)); [reflexivity|].
    destruct (Nat.ltb_spec k (length l)), (Nat.ltb_spec (S k) (S (length l))); try reflexivity; lia.
Qed.

Lemma write_lanes_length len : forall (row : list V) off g, length (write_lanes V row off len g) = length row.
Proof. induction len as [|k IH]; intros; simpl; [reflexivity|]. rewrite IH. apply upd_length. Qed.

Lemma write_lanes_nth len : forall (row : list V) off g i d,
  off + len <= length row ->
  nth i (write_lanes V row off len g) d = if Nat.leb off i && Nat.ltb i (off + len) then g i else nth i row d.
Proof.
  induction len as [|k IH]; intros row off g i d Hb; simpl.
  - replace (Nat.leb off i && Nat.ltb i (off + 0)) with false; [reflexivity|].
    destruct (Nat.leb_spec off i), (Nat.ltb_spec i (off + 0)); simpl; try reflexivity; lia.
  - rewrite IH by (rewrite upd_length; lia). rewrite upd_nth.
    assert (Hlt : Nat.ltb (off + k) (length row) = true) by (apply Nat.ltb_lt; lia). rewrite Hlt.
    destruct (Nat.eqb_spec i (off + k)) as [->|Hne].
    + replace (Nat.leb off (off + k) && Nat.ltb (off + k) (off + k)) with false
        by (destruct (Nat.leb_spec off (off + k)), (Nat.ltb_spec (off + k) (off + k)); simpl; try reflexivity; lia).
      replace (Nat.leb off (off + k) && Nat.ltb (off + k) (off + S k)) with true
        by (destruct (Nat.leb_spec off (off + k)), (Nat.ltb_spec (off + k) (off + S k)); simpl; try reflexivity; lia).
      reflexivity.
    + destruct (Nat.leb_spec off i), (Nat.ltb_spec i (off + k)), (Nat.ltb_spec i (off + S k)); simpl; try reflexivity; lia.
Qed.

Lemma nth_firstn_lt (l : list V) n i d : i < n -> nth i (firstn n l) d = nth i l d.
Proof.
  revert n i. induction l as [|x l IH]; intros [|n] [|i] H; simpl; try reflexivity; try lia.
  apply IH. lia.
Qed.

(* S > 0: round-down facts *)
Lemma round_down n S : 0 < S -> (n / S) * S <= n /\ n - (n / S) * S < S.
Proof.
  intros HS. pose proof (Nat.div_mod n S ltac:(lia)) as E. pose proof (Nat.mod_upper_bound n S ltac:(lia)) as U.
  rewrite Nat.mul_comm in E. lia.
Qed.

(* exactly n results, result i = f i, for every n and every positive width *)
Theorem driver_correct n S :
  0 < S ->
  length (driver_result V nanv f pad n S) = n /\
  forall i d, i < n -> nth i (driver_result V nanv f pad n S) d = f i.
Proof.
  intros HS. unfold driver_result, driver_row, driver_calls.
  destruct (Nat.ltb_spec n S) as [Hlt|Hge].
  - (* n < S *)
    simpl. unfold run_call; simpl.
    assert (Hlen : length (write_lanes V (repeat nanv (Nat.max n S)) 0 S (lane_value V f pad n {| c_off := 0; c_len := S; c_scratch := true |})) = Nat.max n S)
      by (rewrite write_lanes_length, repeat_length; reflexivity).
    split.
    + rewrite firstn_length, Hlen. lia.
    + intros i d Hi. rewrite nth_firstn_lt by exact Hi.
      rewrite write_lanes_nth by (rewrite repeat_length; lia).
      replace (Nat.leb 0 i && Nat.ltb i (0 + S)) with true
        by (destruct (Nat.ltb_spec i (0 + S)); simpl; try reflexivity; lia).
      unfold lane_value; simpl. destruct (Nat.ltb_spec i n); [reflexivity | lia].
  - (* n >= S *)
    destruct (round_down n S HS) as [Hm Hr]. set (m := (n / S) * S) in *.
    assert (Hmax : Nat.max n S = n) by lia. rewrite Hmax.
    destruct (Nat.eqb_spec n m) as [E|NE].
    + simpl. unfold run_call; simpl.
      split; [rewrite firstn_length, write_lanes_length, repeat_length; lia|].
      intros i d Hi. rewrite nth_firstn_lt by exact Hi.
      rewrite write_lanes_nth by (rewrite repeat_length; lia).
      replace (Nat.leb 0 i && Nat.ltb i (0 + m)) with true
        by (destruct (Nat.ltb_spec i (0 + m)); simpl; try reflexivity; lia).
      reflexivity.
    + simpl. unfold run_call; simpl.
      split; [rewrite firstn_length, !write_lanes_length, repeat_length; lia|].
      intros i d Hi. rewrite nth_firstn_lt by exact Hi.
      rewrite write_lanes_nth by (rewrite write_lanes_length, repeat_length; lia).
      destruct (Nat.leb (n - S) i && Nat.ltb i (n - S + S)) eqn:E2; [reflexivity|].
      rewrite write_lanes_nth by (rewrite repeat_length; lia).
      assert (Hi2 : i < m).
      { destruct (Nat.leb_spec (n - S) i), (Nat.ltb_spec i (n - S + S)); simpl in E2; try discriminate; lia. }
      replace (Nat.leb 0 i && Nat.ltb i (0 + m)) with true
        by (destruct (Nat.ltb_spec i (0 + m)); simpl; try reflexivity; lia).
      reflexivity.
Qed.

(* never reads outside the caller's slices, never writes outside the output rows,
   scratch rows are only used for n < S and are S wide *)
Theorem driver_in_bounds n S :
  0 < S ->
  Forall (fun c => call_in_bounds n c /\ call_out_in_bounds n S c) (driver_calls n S).
Proof.
  intros HS. unfold driver_calls, call_in_bounds, call_out_in_bounds.
  destruct (Nat.ltb_spec n S) as [Hlt|Hge].
  - constructor; [|constructor]. simpl. split; [discriminate|]. split; [lia | intros _; lia].
  - destruct (round_down n S HS) as [Hm Hr]. set (m := (n / S) * S) in *.
    constructor.
    + simpl. split; [intros _; lia|]. split; [lia | discriminate].
    + destruct (Nat.eqb_spec n m); constructor; [|constructor]. simpl.
      split; [intros _; lia|]. split; [lia | discriminate].
Qed.

End BulkProof.
