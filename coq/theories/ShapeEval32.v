(* ShapeEval32.v — the f32 instance of shape evaluation: Transformable for f32
   (nalgebra Matrix4::transform_point) and the glue run by the extracted runner. *)
From Coq Require Import List Arith ZArith Bool.
From FV Require Import F32 Ops Tape Alloc Flatten F32Sem CtxEval Run01 ShapeEval.
Import ListNotations.
Local Open Scope nat_scope.

(* Matrix4::transform_point: (M3 * p + t) / n with n = row3 . p + m33, not divided when n == 0.
   [m] is the 4x4 matrix, row-major. *)
Definition ftransform (m : list f32) (x y z : f32) : f32 * f32 * f32 :=
  let g k := nth k m fzero in
  let row i := fadd (fadd (fadd (fmul (g (4 * i)) x) (fmul (g (4 * i + 1)) y)) (fmul (g (4 * i + 2)) z)) (g (4 * i + 3)) in
  let n := row 3 in
  if is_zerob n then (row 0, row 1, row 2)
  else (fdiv (row 0) n, fdiv (row 1) n, fdiv (row 2) n).

(* ShapeTracingEval::<PointEval>::eval_raw on a compiled shape *)
Definition shape_point (o : oracle) (rt : list fop) (vm : varmap) (it : list (nat * nat))
    (mat : option (list f32)) (x y z : f32) (vars : nat -> option f32) : result (list f32) :=
  let '(x', y', z') := match mat with Some m => ftransform m x y z | None => (x, y, z) end in
  match scratch_of fzero x' y' z' vars vm it with
  | Err v => Err v
  | Ok scratch => Ok (fst (run_point o rt 1 scratch))
  end.
