(* Shapes32.v — the f32 instance of the shape builders (what runs), with the named-plane
   axes and RevolveY's second coordinate as regenerated from the Rust source. *)
From Coq Require Import List ZArith.
From FV Require Import F32 Ops Expr Shapes.
From FVGen Require Import ShapesGen.
Import ListNotations.

Definition E32 := etree f32.
Definition f32_pos (r : f32) : bool := fltb fzero r.
Definition f_two : f32 := of_bits 1073741824%Z.
Definition f_four : f32 := of_bits 1082130432%Z.
Definition mk3 (x y z : f32) : vec3 := {| vx := x; vy := y; vz := z |}.

Definition s_circle := @circle f32.
Definition s_rectangle := @rectangle f32.
Definition s_sphere := @sphere f32.
Definition s_box := @box f32.
Definition s_plane := @plane f32.
Definition s_union := @union f32 finf.
Definition s_intersection := @intersection f32 fninf.
Definition s_inverse := @inverse f32.
Definition s_difference := @difference f32.
Definition s_blend := @blend f32 f32_sc f_four f32_pos.
Definition s_move := @move f32 f32_sc.
Definition s_scale := @scale f32 f32_sc.
Definition s_scale_uniform := @scale_uniform f32 f32_sc.
Definition s_rotate := @rotate f32 f32_sc.
Definition s_reflect := @reflect f32 f_two.
Definition s_reflect_x := @reflect_x f32 f32_sc f_two.
Definition s_reflect_y := @reflect_y f32 f32_sc f_two.
Definition s_reflect_z := @reflect_z f32 f32_sc f_two.
Definition s_reflect_xy := @reflect_xy f32 f32_sc fsqrt f_two.
Definition s_revolve_y := @revolve_y f32 f32_sc gen_revolve_other.
Definition s_extrude_z := @extrude_z f32 f32_sc.
Definition s_loft_z := @loft_z f32 f32_sc.
Definition s_repeat_x := @repeat_x f32 f32_sc f_two.
(* Plane::XY / YZ / ZX as trees *)
Definition s_named_plane (k : nat) : E32 :=
  let a := match k with O => gen_plane_xy_axis | S O => gen_plane_yz_axis | _ => gen_plane_zx_axis end in
  s_plane (@axis_of f32 f32_sc a) fzero.
