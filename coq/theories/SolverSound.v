(* SolverSound.v — the exit test of fidget-solver's loop (Solver.done_row), at the real instance:
   it does not depend on the scale of an equation nor on the scale of an unknown.  (The norm-based
   step test it replaced did: one parameter of order 1 made steps in unknowns of order 1e-7 look
   converged; see KNOWN_FINDINGS, C19.) *)
From Coq Require Import List Reals Lra Bool.
From FV Require Import Solver.
Import ListNotations.
Local Open Scope R_scope.

Definition r_term_sum (row cur : list R) : R := term_sum Rabs Rmult Rplus 0 row cur.

(* the test as a proposition: the residual is exactly zero, or at most eps times the sum of the
   magnitudes of its first-order terms *)
Definition r_done (eps r : R) (row cur : list R) : Prop := r = 0 \/ Rabs r <= eps * r_term_sum row cur.

Lemma fold_plus_scale k l : forall acc, fold_left Rplus (map (Rmult k) l) (k * acc) = k * fold_left Rplus l acc.
Proof. induction l as [|a l IH]; intros acc; simpl; [reflexivity|]. rewrite <- IH. f_equal. ring. Qed.

Lemma term_sum_row_scale a row cur :
  r_term_sum (map (Rmult a) row) cur = Rabs a * r_term_sum row cur.
Proof.
  unfold r_term_sum, term_sum.
  replace 0 with (Rabs a * 0) at 1 by ring. rewrite <- fold_plus_scale. f_equal.
  revert cur. induction row as [|j row IH]; intros cur; [reflexivity|].
  destruct cur as [|x cur]; [reflexivity|]. simpl. rewrite IH. f_equal.
  rewrite Rmult_assoc, Rabs_mult. reflexivity.
Qed.

(* multiplying an equation by a nonzero constant (its residual and its row of the Jacobian) *)
Theorem exit_test_row_scale_invariant eps a r row cur :
  a <> 0 -> (r_done eps (a * r) (map (Rmult a) row) cur <-> r_done eps r row cur).
Proof.
  intros Ha. unfold r_done. rewrite term_sum_row_scale, Rabs_mult.
  assert (Hpos : 0 < Rabs a) by (apply Rabs_pos_lt; exact Ha).
  split; intros [H|H].
  - left. apply Rmult_integral in H. destruct H; [contradiction|assumption].
  - right. apply Rmult_le_reg_l with (Rabs a); [exact Hpos|]. lra.
  - left. subst. ring.
  - right. replace (eps * (Rabs a * r_term_sum row cur)) with (Rabs a * (eps * r_term_sum row cur)) by ring.
    apply Rmult_le_compat_l; [lra|exact H].
Qed.

(* changing the unit of each unknown: x_j becomes c_j * x_j, column j of the Jacobian is divided by c_j *)
Fixpoint rescale_row (row cs : list R) : list R :=
  match row, cs with j :: row', c :: cs' => j / c :: rescale_row row' cs' | _, _ => [] end.
Fixpoint rescale_cur (cur cs : list R) : list R :=
  match cur, cs with x :: cur', c :: cs' => c * x :: rescale_cur cur' cs' | _, _ => [] end.

Lemma term_sum_col_scale row : forall cur cs acc,
  Forall (fun c => c <> 0) cs -> length cs = length row -> length cur = length row ->
  fold_left Rplus (map (fun p => Rabs (fst p * snd p)) (combine (rescale_row row cs) (rescale_cur cur cs))) acc
  = fold_left Rplus (map (fun p => Rabs (fst p * snd p)) (combine row cur)) acc.
Proof.
  induction row as [|j row IH]; intros cur cs acc Hc Hl1 Hl2.
  - destruct cs; reflexivity.
  - destruct cs as [|c cs]; [discriminate|]. destruct cur as [|x cur]; [discriminate|].
    inversion Hc as [|? ? Hc0 Hcs]; subst. simpl.
    replace (j / c * (c * x)) with (j * x) by (field; exact Hc0).
    apply IH; auto.
Qed.

Theorem exit_test_column_scale_invariant eps r row cur cs :
  Forall (fun c => c <> 0) cs -> length cs = length row -> length cur = length row ->
  (r_done eps r (rescale_row row cs) (rescale_cur cur cs) <-> r_done eps r row cur).
Proof.
  intros Hc H1 H2. unfold r_done, r_term_sum, term_sum.
  rewrite (term_sum_col_scale row cur cs 0 Hc H1 H2). reflexivity.
Qed.

(* an exactly satisfied equation passes, whatever the rest *)
Lemma exit_test_zero_residual eps row cur : r_done eps 0 row cur.
Proof. left; reflexivity. Qed.
