(* CtxBase.v — the deduplicating arena of Ctx.v: facts about [cnode_eqb], [find_node],
   [insert]; the invariant [ctx_inv]; the "reached by good inserts" relation [reach]
   through which every constructor is analysed; values are stable under extension. *)
From Coq Require Import List Bool Arith ZArith Lia.
From Flocq Require Import IEEE754.BinarySingleNaN.
From FV Require Import F32 Ops Tape Alloc Flatten F32Sem CtxEval FlattenLib FlattenPass2 F32Facts Ctx.
Import ListNotations.
Local Open Scope nat_scope.

(* ------------------------------------------------------------------------- *)
(* equality of constants and nodes                                            *)
(* ------------------------------------------------------------------------- *)

Lemma feqb_compare a b : feqb a b = match Bcompare a b with Some Eq => true | _ => false end.
Proof. reflexivity. Qed.

Lemma feqb_true_iff (a b : f32) :
  feqb a b = true <->
  (is_nanb a = false /\ a = b) \/ (is_zerob a = true /\ is_zerob b = true).
Proof.
  split.
  - rewrite feqb_compare. destruct (Bcompare a b) as [[| |]|] eqn:E; try discriminate. intros _.
    destruct (Bcompare_Eq_inv a b E) as [->|(sa & sb & -> & ->)].
    + left. split; auto. destruct b; auto. discriminate.
    + right. split; reflexivity.
  - intros [[N ->]|[Za Zb]].
    + unfold feqb. rewrite Beqb_refl. unfold is_nanb in N. rewrite N. reflexivity.
    + apply is_zerob_spec in Za, Zb. destruct Za as [s ->], Zb as [t ->]. reflexivity.
Qed.

Lemma is_zerob_not_nan a : is_zerob a = true -> is_nanb a = false.
Proof. intros H. apply is_zerob_spec in H. destruct H as [s ->]. reflexivity. Qed.

Lemma feqb_fzero a : feqb a fzero = is_zerob a.
Proof. reflexivity. Qed.

(* OrderedFloat equality: Leibniz equality, except that the two zeros are equal
   (BinarySingleNaN has a single NaN, so NaN = NaN is Leibniz too) *)
Lemma const_eqb_true_iff (a b : f32) :
  const_eqb a b = true <-> a = b \/ (is_zerob a = true /\ is_zerob b = true).
Proof.
  unfold const_eqb. rewrite orb_true_iff, andb_true_iff, feqb_true_iff. split.
  - intros [[Na Nb]|[[N E]|Z]]; auto.
    left. destruct a, b; try discriminate. reflexivity.
  - intros [->|Z]; auto.
    destruct (is_nanb b) eqn:N; auto.
Qed.

Lemma const_eqb_refl a : const_eqb a a = true.
Proof. apply const_eqb_true_iff. auto. Qed.

Lemma const_eqb_sym a b : const_eqb a b = const_eqb b a.
Proof.
  apply eq_true_iff_eq. rewrite !const_eqb_true_iff. intuition.
Qed.

Lemma const_eqb_eqz a b : const_eqb a b = true <-> eqz a b.
Proof. apply const_eqb_true_iff. Qed.

Lemma const_eqb_nonzero a b : const_eqb a b = true -> is_zerob b = false -> a = b.
Proof. intros H Z. apply const_eqb_true_iff in H. destruct H as [|[_ H]]; congruence. Qed.

Lemma eqz_nonzero a b : eqz a b -> is_zerob b = false -> a = b.
Proof. intros [|[_ H]] Z; congruence. Qed.

Lemma eqz_zero_iff a b : eqz a b -> is_zerob a = is_zerob b.
Proof. intros [->|[A B]]; congruence. Qed.

Lemma uop_eqb_eq u v : uop_eqb u v = true <-> u = v.
Proof. split; [destruct u, v; (reflexivity || discriminate) | intros ->; destruct v; reflexivity]. Qed.
Lemma bop_eqb_eq u v : bop_eqb u v = true <-> u = v.
Proof. split; [destruct u, v; (reflexivity || discriminate) | intros ->; destruct v; reflexivity]. Qed.

Lemma cnode_eqb_true_iff (x y : cnode f32) :
  cnode_eqb x y = true <->
  x = y \/ (exists a b, x = NConst a /\ y = NConst b /\ is_zerob a = true /\ is_zerob b = true).
Proof.
  destruct x as [v|a|u a|p a b], y as [w|a'|u' a'|p' a' b']; simpl;
    try (split; [discriminate | intros [H|(? & ? & H & H' & _)]; discriminate]).
  - rewrite Nat.eqb_eq. split; [intros ->; auto | intros [H|(? & ? & H & _)]; congruence].
  - rewrite const_eqb_true_iff. split.
    + intros [->|[A B]]; auto. right; eauto 6.
    + intros [H|(? & ? & H & H' & A & B)]; [left; congruence | right; inversion H; inversion H'; subst; auto].
  - rewrite andb_true_iff, uop_eqb_eq, Nat.eqb_eq. split.
    + intros [-> ->]; auto.
    + intros [H|(? & ? & H & _)]; [inversion H; auto | discriminate].
  - rewrite !andb_true_iff, bop_eqb_eq, !Nat.eqb_eq. split.
    + intros [[-> ->] ->]; auto.
    + intros [H|(? & ? & H & _)]; [inversion H; auto | discriminate].
Qed.

Lemma cnode_eqb_refl x : cnode_eqb x x = true.
Proof. apply cnode_eqb_true_iff. auto. Qed.

Lemma cnode_eqb_sym x y : cnode_eqb x y = cnode_eqb y x.
Proof.
  apply eq_true_iff_eq. rewrite !cnode_eqb_true_iff. split.
  - intros [->|(a & b & -> & -> & A & B)]; auto. right; eauto 6.
  - intros [->|(a & b & -> & -> & A & B)]; auto. right; eauto 6.
Qed.

(* equal nodes that are not constants are Leibniz-equal *)
Lemma cnode_eqb_nonconst x y :
  cnode_eqb x y = true -> (forall v, y <> NConst v) -> x = y.
Proof.
  intros H N. apply cnode_eqb_true_iff in H. destruct H as [|(a & b & _ & -> & _)]; auto.
  elim (N b); auto.
Qed.

(* ------------------------------------------------------------------------- *)
(* find_node / insert                                                         *)
(* ------------------------------------------------------------------------- *)

Lemma find_node_some : forall c n i k,
  find_node c n i = Some k ->
  i <= k /\ k - i < length c /\
  (exists x, nth_error c (k - i) = Some x /\ cnode_eqb x n = true) /\
  (forall j x, j < k - i -> nth_error c j = Some x -> cnode_eqb x n = false).
Proof.
  induction c as [|y c IH]; simpl; intros n i k H; [discriminate|].
  destruct (cnode_eqb y n) eqn:E.
  - inversion H; subst. rewrite Nat.sub_diag. split; [lia|]. split; [lia|]. split.
    + exists y; auto.
    + intros j x Hj; lia.
  - apply IH in H. destruct H as (A & B & (x & C & D) & F).
    replace (k - i) with (S (k - S i)) by lia. split; [lia|]. split; [lia|]. split.
    + exists x; auto.
    + intros [|j] z Hj Hz; simpl in Hz.
      * inversion Hz; subst; auto.
      * apply (F j); auto. lia.
Qed.

Lemma find_node_none : forall c n i,
  find_node c n i = None -> forall j x, nth_error c j = Some x -> cnode_eqb x n = false.
Proof.
  induction c as [|y c IH]; simpl; intros n i H j x Hj.
  - destruct j; discriminate.
  - destruct (cnode_eqb y n) eqn:E; [discriminate|].
    destruct j; simpl in Hj; [inversion Hj; subst; auto | eapply IH; eauto].
Qed.

Lemma find_node_app_some : forall c n i k ext,
  find_node c n i = Some k -> find_node (c ++ ext) n i = Some k.
Proof.
  induction c as [|y c IH]; simpl; intros; [discriminate|].
  destruct (cnode_eqb y n); auto.
Qed.

Lemma find_node_app_none : forall c n i ext,
  find_node c n i = None -> find_node (c ++ ext) n i = find_node ext n (i + length c).
Proof.
  induction c as [|y c IH]; simpl; intros.
  - rewrite Nat.add_0_r; auto.
  - destruct (cnode_eqb y n); [discriminate|]. rewrite IH by auto. f_equal. lia.
Qed.

(* the complete description of [insert] *)
Lemma insert_spec c node c' n :
  insert c node = (c', n) ->
  (c' = c /\ find_node c node 0 = Some n /\
   exists x, nth_error c n = Some x /\ cnode_eqb x node = true) \/
  (c' = c ++ [node] /\ n = length c /\ find_node c node 0 = None).
Proof.
  unfold insert. destruct (find_node c node 0) as [k|] eqn:E; intros H; inversion H; subst.
  - left. apply find_node_some in E. rewrite Nat.sub_0_r in E.
    destruct E as (_ & _ & X & _). auto.
  - right. auto.
Qed.

Lemma insert_ext c node : exists ext, fst (insert c node) = c ++ ext.
Proof.
  unfold insert. destruct (find_node c node 0); simpl.
  - exists []. rewrite app_nil_r; auto.
  - eauto.
Qed.

Lemma insert_lt c node : snd (insert c node) < length (fst (insert c node)).
Proof.
  unfold insert. destruct (find_node c node 0) eqn:E; simpl.
  - apply find_node_some in E. lia.
  - rewrite app_length; simpl; lia.
Qed.

(* the node returned by insert holds an equal entry *)
Lemma insert_get c node :
  exists x, nth_error (fst (insert c node)) (snd (insert c node)) = Some x /\ cnode_eqb x node = true.
Proof.
  unfold insert. destruct (find_node c node 0) eqn:E; simpl.
  - apply find_node_some in E. rewrite Nat.sub_0_r in E. apply E.
  - exists node. rewrite nth_error_app2, Nat.sub_diag by lia. split; auto. apply cnode_eqb_refl.
Qed.

(* inserting again, in any later context, finds the same node and changes nothing *)
Lemma insert_stable c node ext :
  insert (fst (insert c node) ++ ext) node = (fst (insert c node) ++ ext, snd (insert c node)).
Proof.
  unfold insert at 2 3 4. destruct (find_node c node 0) eqn:E; simpl.
  - unfold insert. rewrite (find_node_app_some _ _ _ _ ext E). reflexivity.
  - unfold insert. rewrite <- app_assoc. rewrite find_node_app_none by auto. simpl.
    rewrite cnode_eqb_refl. reflexivity.
Qed.

(* ------------------------------------------------------------------------- *)
(* the invariant                                                               *)
(* ------------------------------------------------------------------------- *)

Definition dedup (c : ctx) : Prop :=
  forall i j x y, nth_error c i = Some x -> nth_error c j = Some y ->
                  cnode_eqb x y = true -> i = j.

Definition nodes_ok (c : ctx) : Prop :=
  forall k o, nth_error c k = Some o -> node_okb c o = true.

Definition ctx_inv (c : ctx) : Prop := arena_wf c /\ dedup c /\ nodes_ok c.

(* the shape conditions, spelled out *)
Lemma node_okb_unary (c : ctx) u a :
  node_okb c (NUnary u a) = true <-> u <> UCopy /\ (forall v, nth_error c a <> Some (NConst v)).
Proof.
  simpl. rewrite andb_true_iff, !negb_true_iff. unfold is_constn. split.
  - intros [A B]. split.
    + intros ->. discriminate.
    + intros v E. rewrite E in B. discriminate.
  - intros [A B]. split.
    + destruct u; try reflexivity. elim A; auto.
    + destruct (nth_error c a) as [[]|]; auto. elim (B c0); auto.
Qed.

Lemma node_okb_binary (c : ctx) p l r :
  node_okb c (NBinary p l r) = true <->
  ~ (is_constn c l = true /\ is_constn c r = true) /\
  ((p = BAnd \/ p = BOr) -> is_constn c l = false).
Proof.
  simpl. rewrite andb_true_iff, !negb_true_iff. split.
  - intros [A B]. split.
    + intros [X Y]. rewrite X, Y in A. discriminate.
    + intros [->| ->]; simpl in B; rewrite andb_true_r in B; auto.
  - intros [A B]. split.
    + destruct (is_constn c l), (is_constn c r); auto. elim A; auto.
    + destruct p; simpl; try apply andb_false_r; rewrite andb_true_r; auto.
Qed.

Theorem ctx_inv_arena_ok c roots :
  ctx_inv c -> (forall r, In r roots -> r < length c) -> arena_ok c roots.
Proof. intros (A & _ & B) H. repeat split; auto. Qed.

Theorem ctx_inv_of_arena_ok c : dedup c -> arena_ok c [] -> ctx_inv c.
Proof. intros D (A & _ & B). repeat split; auto. Qed.

Lemma ctx_inv_nil : ctx_inv [].
Proof.
  repeat split.
  - intros [|i] n H; discriminate.
  - intros [|i] j x y H; discriminate.
  - intros [|k] o H; discriminate.
Qed.

(* ------------------------------------------------------------------------- *)
(* extension                                                                   *)
(* ------------------------------------------------------------------------- *)

Lemma nth_error_ext {A} (c ext : list A) k : k < length c -> nth_error (c ++ ext) k = nth_error c k.
Proof. intros. apply nth_error_app1; auto. Qed.

Lemma nth_error_lt {A} (c : list A) k x : nth_error c k = Some x -> k < length c.
Proof. intros H. apply nth_error_Some. congruence. Qed.

Lemma get_op_ext c ext k : k < length c -> get_op (c ++ ext) k = get_op c k.
Proof. apply nth_error_ext. Qed.

Lemma get_const_ext c ext k : k < length c -> get_const (c ++ ext) k = get_const c k.
Proof. intros. unfold get_const. rewrite get_op_ext; auto. Qed.

Lemma is_const_eq_ext c ext k v : k < length c -> is_const_eq (c ++ ext) k v = is_const_eq c k v.
Proof. intros. unfold is_const_eq. rewrite get_const_ext; auto. Qed.

Lemma is_constn_ext (c ext : ctx) k : k < length c -> is_constn (c ++ ext) k = is_constn c k.
Proof. intros. unfold is_constn. rewrite nth_error_ext; auto. Qed.

Lemma node_okb_ext (c ext : ctx) o :
  (forall k, In k (children o) -> k < length c) -> node_okb (c ++ ext) o = node_okb c o.
Proof.
  destruct o; simpl; intros H; auto.
  - rewrite is_constn_ext; auto.
  - rewrite !is_constn_ext; auto.
Qed.

(* values of existing nodes do not change when the arena grows *)
Section Values.
Context {V I : Type}.
Variable sem : Sem V I.

Theorem extension_preserves_values_gen (c ext : list (cnode I)) env n :
  n < length c -> ctx_eval sem (c ++ ext) env n = ctx_eval sem c env n.
Proof.
  intros H. unfold ctx_eval. destruct (arena_eval_app sem env c ext) as (e & ->).
  apply app_nth1. rewrite arena_eval_length. auto.
Qed.

Theorem extension_preserves_values (c ext : list (cnode I)) env n :
  arena_wf c -> n < length c -> ctx_eval sem (c ++ ext) env n = ctx_eval sem c env n.
Proof. intros _. apply extension_preserves_values_gen. Qed.

Lemma arena_wf_children_lt (c : list (cnode I)) k o a :
  arena_wf c -> nth_error c k = Some o -> In a (children o) -> a < length c.
Proof.
  intros WF H Ha. specialize (WF k o H a Ha). apply nth_error_lt in H. lia.
Qed.
End Values.

(* ------------------------------------------------------------------------- *)
(* good inserts and [reach]                                                    *)
(* ------------------------------------------------------------------------- *)

(* a node that may be inserted: children exist, and it has the folded shape *)
Definition good (c : ctx) (o : cnode f32) : Prop :=
  (forall k, In k (children o) -> k < length c) /\ node_okb c o = true.

Lemma insert_inv c o : ctx_inv c -> good c o -> ctx_inv (fst (insert c o)).
Proof.
  intros (WF & DD & OK) (GC & GO).
  unfold insert. destruct (find_node c o 0) eqn:E; simpl; [repeat split; auto|].
  pose proof (find_node_none _ _ _ E) as NF.
  repeat split.
  - intros i n Hi a Ha.
    destruct (Nat.lt_ge_cases i (length c)) as [L|L].
    + rewrite nth_error_app1 in Hi by auto. eapply WF; eauto.
    + rewrite nth_error_app2 in Hi by auto.
      destruct (i - length c) as [|[|]] eqn:Ei; simpl in Hi; try discriminate.
      inversion Hi; subst. specialize (GC a Ha). lia.
  - intros i j x y Hi Hj Exy.
    assert (Li : i < length c \/ (i = length c /\ x = o)).
    { destruct (Nat.lt_ge_cases i (length c)) as [L|L]; auto.
      rewrite nth_error_app2 in Hi by auto.
      destruct (i - length c) as [|[|]] eqn:Ei; simpl in Hi; try discriminate.
      inversion Hi; subst. right; split; auto; lia. }
    assert (Lj : j < length c \/ (j = length c /\ y = o)).
    { destruct (Nat.lt_ge_cases j (length c)) as [L|L]; auto.
      rewrite nth_error_app2 in Hj by auto.
      destruct (j - length c) as [|[|]] eqn:Ej; simpl in Hj; try discriminate.
      inversion Hj; subst. right; split; auto; lia. }
    destruct Li as [Li|[-> ->]], Lj as [Lj|[-> ->]]; auto.
    + rewrite nth_error_app1 in Hi, Hj by auto. eapply DD; eauto.
    + rewrite nth_error_app1 in Hi by auto. rewrite (NF _ _ Hi) in Exy. discriminate.
    + rewrite nth_error_app1 in Hj by auto. rewrite cnode_eqb_sym, (NF _ _ Hj) in Exy. discriminate.
  - intros k n Hk.
    destruct (Nat.lt_ge_cases k (length c)) as [L|L].
    + rewrite nth_error_app1 in Hk by auto. rewrite node_okb_ext; eauto.
      intros a Ha. eapply arena_wf_children_lt; eauto.
    + rewrite nth_error_app2 in Hk by auto.
      destruct (k - length c) as [|[|]] eqn:Ek; simpl in Hk; try discriminate.
      inversion Hk; subst. rewrite node_okb_ext; auto.
Qed.

Inductive reach (G : ctx -> cnode f32 -> Prop) : ctx -> ctx -> Prop :=
| reach_refl c : reach G c c
| reach_ins c c' o : reach G c c' -> G c' o -> reach G c (fst (insert c' o)).

Lemma reach_trans (G : ctx -> cnode f32 -> Prop) c1 c2 c3 : reach G c1 c2 -> reach G c2 c3 -> reach G c1 c3.
Proof. intros A B. induction B; auto. apply reach_ins; auto. Qed.

Lemma reach_one (G : ctx -> cnode f32 -> Prop) c o : G c o -> reach G c (fst (insert c o)).
Proof. intros. apply reach_ins; auto. apply reach_refl. Qed.

Lemma reach_mono (G G' : ctx -> cnode f32 -> Prop) c c' :
  (forall c o, G c o -> G' c o) -> reach G c c' -> reach G' c c'.
Proof. intros M R. induction R; [apply reach_refl | apply reach_ins; auto]. Qed.

Lemma reach_ext (G : ctx -> cnode f32 -> Prop) c c' : reach G c c' -> exists ext, c' = c ++ ext.
Proof.
  induction 1.
  - exists []. rewrite app_nil_r; auto.
  - destruct IHreach as (e1 & ->). destruct (insert_ext (c ++ e1) o) as (e2 & ->).
    exists (e1 ++ e2). rewrite app_assoc; auto.
Qed.

Lemma reach_length (G : ctx -> cnode f32 -> Prop) c c' : reach G c c' -> length c <= length c'.
Proof. intros R. apply reach_ext in R. destruct R as (e & ->). rewrite app_length. lia. Qed.

Lemma reach_inv c c' : ctx_inv c -> reach good c c' -> ctx_inv c'.
Proof. intros I R. induction R; auto. apply insert_inv; auto. Qed.

(* the value of an old node is the same in every later context *)
Lemma reach_val {G : ctx -> cnode f32 -> Prop} (sem : Sem f32 f32) c c' env n :
  reach G c c' -> n < length c -> ctx_eval sem c' env n = ctx_eval sem c env n.
Proof.
  intros R L. apply reach_ext in R. destruct R as (e & ->).
  apply extension_preserves_values_gen; auto.
Qed.
