(* F32Sem.v — the meaning of every opcode on f32, as in UnaryOpcode::eval /
   BinaryOpcode::eval (context/op.rs) and the point / float-slice loops of
   vm/mod.rs (they are the same functions; the correspondence check compares all
   three against this file). *)
From Coq Require Import ZArith List Bool.
From FV Require Import F32 Ops Tape.
Import ListNotations.

Definition f32_un (o : oracle) (u : uop) (a : f32) : f32 :=
  match u with
  | UNeg => fneg a
  | UAbs => fabs a
  | URecip => fdiv fone a
  | USqrt => fsqrt a
  | USquare => fmul a a
  | UFloor => ffloor a
  | UCeil => fceil a
  | URound => fround a
  | USin => libm1 o LSin a
  | UCos => libm1 o LCos a
  | UTan => libm1 o LTan a
  | UAsin => libm1 o LAsin a
  | UAcos => libm1 o LAcos a
  | UAtan => libm1 o LAtan a
  | UExp => libm1 o LExp a
  | ULn => libm1 o LLn a
  | UNot => fnot a
  | URand => frand a
  | UCopy => a
  end.

Definition f32_bin (o : oracle) (b : bop) (x y : f32) : f32 :=
  match b with
  | BAdd => fadd x y
  | BSub => fsub x y
  | BMul => fmul x y
  | BDiv => fdiv x y
  | BAtan => libm2 o LAtan2 x y
  | BMin => fst (fmin_choice x y)
  | BMax => fst (fmax_choice x y)
  | BCompare => fcompare x y
  | BMod => libm2 o LRemEuclid x y
  | BAnd => fst (fand_choice x y)
  | BOr => fst (for_choice x y)
  | BMix => fmix x y
  end.

Definition tchoice_of (c : choice) : tchoice :=
  match c with CUnknown => TUnknown | CLeft => TLeft | CRight => TRight | CBoth => TBoth end.

Definition f32_choice (b : bop) (x y : f32) : tchoice :=
  match b with
  | BMin => tchoice_of (snd (fmin_choice x y))
  | BMax => tchoice_of (snd (fmax_choice x y))
  | BAnd => tchoice_of (snd (fand_choice x y))
  | BOr => tchoice_of (snd (for_choice x y))
  | _ => TUnknown
  end.

Definition f32_sem (o : oracle) : Sem f32 f32 :=
  {| s_dflt := fnan;
     s_imm := fun i => i;
     s_un := f32_un o;
     s_rr := f32_bin o;
     s_ri := fun b v i => f32_bin o b v i;
     s_ir := fun b i v => f32_bin o b i v;
     s_ch_rr := f32_choice;
     s_ch_ri := fun b v i => f32_choice b v i |}.
