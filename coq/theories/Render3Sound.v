(* Render3Sound.v — the tiled 3D renderer of Render3.v computes the
   brute-force heightmap (per-voxel evaluation) followed by the code's final
   clamp, and the normals of the root tape at the surface voxels.

   Part 1  the column maximum [colmax]
   Part 2  list lemmas: in-place writes with distinct keys, chunks
   Part 3  Worker::render_tile_pixels as a per-pixel function
   Part 4  render_tile_recurse / render_tile / render                     *)

From Coq Require Import List ZArith Bool Lia FinFun.
From FV Require Import Render2 Render2Sound Render3.
Import ListNotations.
Open Scope Z_scope.

Set Implicit Arguments.

(** * Part 1: colmax *)

Section Colmax.
  Variable f : Z -> bool.

  Lemma colmax_n_range lo n :
    colmax_n f lo n = 0 \/ lo + 1 <= colmax_n f lo n <= lo + Z.of_nat n.
  Proof.
    induction n as [|m IH]; simpl colmax_n; [now left|].
    destruct (f (lo + Z.of_nat m)); [right; lia|]. destruct IH; [now left|right; lia].
  Qed.

  Lemma colmax_n_zero lo n :
    0 <= lo -> colmax_n f lo n = 0 ->
    forall z, lo <= z < lo + Z.of_nat n -> f z = false.
  Proof.
    intros Hlo. induction n as [|m IH]; simpl colmax_n; intros H z Hz; [lia|].
    destruct (f (lo + Z.of_nat m)) eqn:E; [lia|].
    destruct (Z.eq_dec z (lo + Z.of_nat m)); [now subst|]. apply IH; [exact H|lia].
  Qed.

  Lemma colmax_n_pos lo n :
    0 <= lo -> 0 < colmax_n f lo n ->
    let h := colmax_n f lo n in
    f (h - 1) = true /\ lo <= h - 1 < lo + Z.of_nat n /\
    forall z, h <= z < lo + Z.of_nat n -> f z = false.
  Proof.
    intros Hlo. cbv zeta. induction n as [|m IH]; simpl colmax_n; intros H; [lia|].
    destruct (f (lo + Z.of_nat m)) eqn:E.
    - replace (lo + Z.of_nat m + 1 - 1) with (lo + Z.of_nat m) by lia.
      split; [exact E|]. split; [lia|]. intros; lia.
    - destruct (IH H) as (H1 & H2 & H3). split; [exact H1|]. split; [lia|].
      intros z Hz. destruct (Z.eq_dec z (lo + Z.of_nat m)); [now subst|]. apply H3. lia.
  Qed.

  Lemma colmax_n_zero_intro lo n :
    (forall z, lo <= z < lo + Z.of_nat n -> f z = false) -> colmax_n f lo n = 0.
  Proof.
    induction n as [|m IH]; intros H; simpl colmax_n; [reflexivity|].
    rewrite H by lia. apply IH. intros; apply H; lia.
  Qed.

  Lemma colmax_n_split lo a b :
    0 <= lo ->
    colmax_n f lo (a + b) =
    if colmax_n f (lo + Z.of_nat a) b =? 0 then colmax_n f lo a
    else colmax_n f (lo + Z.of_nat a) b.
  Proof.
    intros Hlo. induction b as [|b IH].
    - rewrite Nat.add_0_r. reflexivity.
    - rewrite Nat.add_succ_r. simpl colmax_n.
      replace (lo + Z.of_nat (a + b)) with (lo + Z.of_nat a + Z.of_nat b) by lia.
      destruct (f (lo + Z.of_nat a + Z.of_nat b)) eqn:E; [|exact IH].
      replace (lo + Z.of_nat a + Z.of_nat b + 1 =? 0) with false
        by (symmetry; apply Z.eqb_neq; lia).
      reflexivity.
  Qed.

  Lemma colmax_range lo hi :
    lo <= hi -> colmax f lo hi = 0 \/ lo + 1 <= colmax f lo hi <= hi.
  Proof.
    intros H. unfold colmax. destruct (colmax_n_range lo (Z.to_nat (hi - lo))); [now left|right; lia].
  Qed.

  Lemma colmax_nonneg lo hi : 0 <= lo -> 0 <= colmax f lo hi.
  Proof.
    intros H. unfold colmax. destruct (colmax_n_range lo (Z.to_nat (hi - lo))); lia.
  Qed.

  Lemma colmax_empty lo : colmax f lo lo = 0.
  Proof. unfold colmax. rewrite Z.sub_diag. reflexivity. Qed.

  Lemma colmax_split lo mid hi :
    0 <= lo <= mid -> mid <= hi ->
    colmax f lo hi = if colmax f mid hi =? 0 then colmax f lo mid else colmax f mid hi.
  Proof.
    intros H1 H2. unfold colmax.
    replace (Z.to_nat (hi - lo)) with (Z.to_nat (mid - lo) + Z.to_nat (hi - mid))%nat by lia.
    rewrite colmax_n_split by lia.
    replace (lo + Z.of_nat (Z.to_nat (mid - lo))) with mid by lia. reflexivity.
  Qed.

  (* [colmax f lo hi] is 1 + max { z in [lo,hi) | f z }, or 0 *)
  Lemma colmax_zero_iff lo hi :
    0 <= lo <= hi ->
    (colmax f lo hi = 0 <-> forall z, lo <= z < hi -> f z = false).
  Proof.
    intros H. unfold colmax. split.
    - intros E z Hz. eapply colmax_n_zero; [apply H|exact E|lia].
    - intros E. apply colmax_n_zero_intro. intros z Hz. apply E. lia.
  Qed.

  Lemma colmax_pos_spec lo hi :
    0 <= lo <= hi -> 0 < colmax f lo hi ->
    let h := colmax f lo hi in
    f (h - 1) = true /\ lo <= h - 1 < hi /\ forall z, h <= z < hi -> f z = false.
  Proof.
    intros H Hp. unfold colmax in *.
    destruct (@colmax_n_pos lo (Z.to_nat (hi - lo)) (proj1 H) Hp) as (H1 & H2 & H3).
    split; [exact H1|]. split; [lia|]. intros z Hz. apply H3. lia.
  Qed.

  Lemma colmax_unique lo hi z :
    0 <= lo <= hi -> lo <= z < hi -> f z = true ->
    (forall z', z < z' < hi -> f z' = false) -> colmax f lo hi = z + 1.
  Proof.
    intros H Hz Hf Hab.
    destruct (Z.eq_dec (colmax f lo hi) 0) as [E|E].
    - rewrite colmax_zero_iff in E by assumption. rewrite E in Hf by assumption. discriminate.
    - pose proof (colmax_nonneg hi (proj1 H)).
      destruct (@colmax_pos_spec lo hi H ltac:(lia)) as (H1 & H2 & H3).
      destruct (Z.lt_trichotomy (colmax f lo hi - 1) z) as [Hlt|[Heq|Hgt]]; [|lia|].
      + rewrite H3 in Hf by lia. discriminate.
      + rewrite Hab in H1 by lia. discriminate.
  Qed.

  Lemma colmax_ge lo hi z :
    0 <= lo <= hi -> lo <= z < hi -> f z = true -> z + 1 <= colmax f lo hi.
  Proof.
    intros H Hz Hf.
    destruct (Z.eq_dec (colmax f lo hi) 0) as [E|E].
    - rewrite colmax_zero_iff in E by assumption. rewrite E in Hf by assumption. discriminate.
    - pose proof (colmax_nonneg hi (proj1 H)).
      destruct (@colmax_pos_spec lo hi H ltac:(lia)) as (H1 & H2 & H3).
      destruct (Z_lt_le_dec (colmax f lo hi) (z + 1)) as [Hlt|]; [|assumption].
      rewrite H3 in Hf by lia. discriminate.
  Qed.
End Colmax.

Lemma colmax_ext f g lo hi :
  (forall z, lo <= z < hi -> f z = g z) -> colmax f lo hi = colmax g lo hi.
Proof.
  unfold colmax. intros H.
  assert (forall n, lo + Z.of_nat n <= Z.max lo hi -> colmax_n f lo n = colmax_n g lo n) as Hn.
  { induction n as [|m IH]; intros Hb; simpl; [reflexivity|].
    rewrite H by lia. rewrite IH by lia. reflexivity. }
  apply Hn. lia.
Qed.

(** * Part 2: list lemmas *)

Lemma zrange_succ n : 0 <= n -> zrange (n + 1) = zrange n ++ [n].
Proof.
  intros H. unfold zrange. replace (Z.to_nat (n + 1)) with (S (Z.to_nat n)) by lia.
  rewrite seq_S, map_app. simpl. f_equal. f_equal. lia.
Qed.

Lemma znth_app1 A (l l' : list A) i d : 0 <= i < zlength l -> znth (l ++ l') i d = znth l i d.
Proof. intros H. unfold zlength in H. rewrite !znth_nth by lia. apply app_nth1. lia. Qed.

Lemma znth_app2 A (l l' : list A) i d :
  zlength l <= i -> znth (l ++ l') i d = znth l' (i - zlength l) d.
Proof.
  intros H. unfold zlength in *. rewrite !znth_nth by lia. rewrite app_nth2 by lia.
  f_equal. lia.
Qed.

Lemma zlength_app A (l l' : list A) : zlength (l ++ l') = zlength l + zlength l'.
Proof. unfold zlength. rewrite app_length. lia. Qed.

Lemma zlength_map A B (f : A -> B) l : zlength (map f l) = zlength l.
Proof. unfold zlength. now rewrite map_length. Qed.

Lemma zlength_upd A (l : list A) i v : zlength (upd l i v) = zlength l.
Proof. unfold zlength. now rewrite upd_length. Qed.

Lemma map_znth_zrange A (l : list A) d :
  map (fun i => znth l i d) (zrange (zlength l)) = l.
Proof.
  apply list_ext_znth with (d := d).
  - rewrite map_length, zrange_length. unfold zlength. lia.
  - intros i Hi. rewrite zlength_map in Hi. unfold zlength at 1 in Hi. rewrite zrange_length in Hi.
    erewrite znth_map with (d' := 0) by (unfold zlength at 1; rewrite zrange_length; lia).
    rewrite znth_zrange by lia. reflexivity.
Qed.

(* a loop over indices of a list is a loop over the list *)
Lemma fold_zrange_list A B (l : list A) (phi : B -> Z -> B) (psi : B -> A -> B) d :
  (forall b i, 0 <= i < zlength l -> phi b i = psi b (znth l i d)) ->
  forall b, fold_left phi (zrange (zlength l)) b = fold_left psi l b.
Proof.
  induction l as [|x l IH] using rev_ind; intros H b; [reflexivity|].
  rewrite zlength_app. change (zlength [x]) with 1.
  rewrite zrange_succ by apply zlength_nonneg. rewrite !fold_left_app. simpl.
  rewrite IH.
  - rewrite H by (rewrite zlength_app; change (zlength [x]) with 1; pose proof (zlength_nonneg l); lia).
    rewrite znth_app2 by lia. rewrite Z.sub_diag. reflexivity.
  - intros b' i Hi. rewrite H by (rewrite zlength_app; change (zlength [x]) with 1; lia).
    now rewrite znth_app1.
Qed.

(* invariant over a `for c in 0..n` loop *)
Lemma zrange_fold_inv S (Inv : Z -> S -> Prop) (f : S -> Z -> S) n s0 :
  0 <= n -> Inv 0 s0 ->
  (forall c s, 0 <= c < n -> Inv c s -> Inv (c + 1) (f s c)) ->
  Inv n (fold_left f (zrange n) s0).
Proof.
  intros Hn H0 Hstep.
  assert (forall m : nat, Z.of_nat m <= n -> Inv (Z.of_nat m) (fold_left f (zrange (Z.of_nat m)) s0)) as Hm.
  { induction m as [|m IH]; intros Hle; [exact H0|].
    rewrite Nat2Z.inj_succ. unfold Z.succ. rewrite zrange_succ by lia.
    rewrite fold_left_app. simpl. apply Hstep; [lia|]. apply IH. lia. }
  specialize (Hm (Z.to_nat n)). rewrite Z2Nat.id in Hm by lia. apply Hm. lia.
Qed.

(* in-place writes at pairwise distinct positions *)
Lemma fold_upd_distinct A H (key : H -> Z) (F : H -> A -> A) d (l : list H) :
  NoDup (map key l) ->
  forall buf, (forall h, In h l -> 0 <= key h < zlength buf) ->
  let res := fold_left (fun b h => upd b (key h) (F h (znth b (key h) d))) l buf in
  zlength res = zlength buf /\
  (forall h, In h l -> znth res (key h) d = F h (znth buf (key h) d)) /\
  (forall o, ~ In o (map key l) -> znth res o d = znth buf o d).
Proof.
  induction l as [|x l IH]; intros Hnd buf Hb; simpl.
  - split; [reflexivity|]. split; [contradiction|reflexivity].
  - simpl in Hnd. inversion Hnd as [|? ? Hnin Hnd']; subst.
    set (buf1 := upd buf (key x) (F x (znth buf (key x) d))).
    destruct (IH Hnd' buf1) as (Hlen & Hin & Hout).
    { intros h Hh. unfold buf1. rewrite zlength_upd. apply Hb. now right. }
    split; [unfold buf1 in Hlen; now rewrite zlength_upd in Hlen|]. split.
    + intros h [<-|Hh].
      * rewrite Hout by assumption. unfold buf1. apply znth_upd_eq. apply Hb. now left.
      * rewrite Hin by assumption. unfold buf1. rewrite znth_upd_neq; [reflexivity|].
        intros E. apply Hnin. rewrite E. now apply in_map.
    + intros o Ho. rewrite Hout by tauto. unfold buf1. apply znth_upd_neq. tauto.
Qed.

(* blocks of constant length: the j-th chunk of a flat_map *)
Lemma chunk_flat_map A B (f : A -> list B) (n : nat) l a0 j :
  (forall a, length (f a) = n) -> (j < length l)%nat ->
  firstn n (skipn (j * n) (flat_map f l)) = f (nth j l a0).
Proof.
  intros Hf. revert j. induction l as [|a l IH]; intros j Hj; simpl in Hj; [lia|].
  simpl flat_map. destruct j.
  - simpl. rewrite firstn_app, Hf, Nat.sub_diag. simpl. rewrite app_nil_r.
    rewrite <- (Hf a). apply firstn_all.
  - replace (S j * n)%nat with (length (f a) + j * n)%nat by (rewrite Hf; simpl; lia).
    rewrite skipn_app. rewrite skipn_all2 by lia.
    replace (length (f a) + j * n - length (f a))%nat with (j * n)%nat by lia.
    simpl. apply IH. lia.
Qed.

Lemma flat_map_map A B C (f : B -> list C) (g : A -> B) l :
  flat_map f (map g l) = flat_map (fun a => f (g a)) l.
Proof. induction l; simpl; [reflexivity|now rewrite IHl]. Qed.

Lemma NoDup_flat_map_key A H K (hit : A -> list H) (key : H -> K) (kx : A -> K) l :
  NoDup l ->
  (forall a h, In h (hit a) -> hit a = [h] /\ key h = kx a) ->
  (forall a a', In a l -> In a' l -> kx a = kx a' -> a = a') ->
  NoDup (map key (flat_map hit l)).
Proof.
  induction 1 as [|a l Hnin Hnd IH]; intros Hhit Hinj; simpl; [constructor|].
  rewrite map_app. apply NoDup_app'.
  - destruct (hit a) as [|h r] eqn:E; [constructor|].
    destruct (Hhit a h) as [E' _]; [rewrite E; now left|]. rewrite E in E'.
    inversion E'; subst. simpl. constructor; [tauto|constructor].
  - apply IH; [exact Hhit|]. intros; apply Hinj; simpl; auto.
  - intros k Hk Hk'. apply in_map_iff in Hk. destruct Hk as (h & <- & Hh).
    apply in_map_iff in Hk'. destruct Hk' as (h' & E & Hh').
    apply in_flat_map in Hh'. destruct Hh' as (a' & Ha' & Hh').
    destruct (Hhit a h Hh) as [_ K1]. destruct (Hhit a' h' Hh') as [_ K2].
    assert (a = a') by (apply Hinj; simpl; auto; congruence). subst. contradiction.
Qed.

(** * Part 3: Worker::render_tile_pixels, pixel by pixel *)

Lemma find_idx_bound A (f : A -> bool) l i k : find_idx f l i = Some k -> i <= k < i + zlength l.
Proof.
  revert i. induction l as [|a l IH]; intros i H; simpl in H; [discriminate|].
  rewrite zlength_cons. pose proof (zlength_nonneg l).
  destruct (f a); [inversion H; lia|]. apply IH in H. lia.
Qed.

Section Sound3.
  Variables (tape trace ires V G : Type).
  Variable ieval : tape -> Z * Z * Z -> Z -> ires * option trace.
  Variable i_upper_neg : ires -> bool.
  Variable i_lower_pos : ires -> bool.
  Variable simplify : tape -> trace -> tape.
  Variable feval : tape -> Z * Z * Z -> V.
  Variable neg : V -> bool.
  Variable posv : V -> bool.
  Variable geval : tape -> Z * Z * Z -> G.
  Variable g_zero : G.
  Variable g_up : G.

  Notation gp := (gpix G).
  Notation gdef := (gdefault g_zero).
  Notation wst := (wstate G).
  Notation dat := (depth_at g_zero).

  Section Pixels.
    Variable t0 : Z.
    Variables rx ry : Z.
    Hypothesis Ht0 : 0 < t0.
    Hypothesis Hrx : rx mod t0 = 0.
    Hypothesis Hry : ry mod t0 = 0.

    Variable shape : tape.
    Variable s : Z.
    Variables cx cy cz : Z.
    Hypothesis Hs : 0 < s.
    Hypothesis Hin : tile_in_root t0 rx ry (cx, cy) s.
    Hypothesis Hcz : 0 <= cz.
    Variable st : wst.
    Hypothesis Hlen : zlength (w_out st) = t0 * t0.

    Notation bdom := (bdom t0 rx ry).

    Definition gat (st : wst) (p : Z * Z) : gp := znth (w_out st) (pixel_offset t0 p) gdef.

    Definition pxy (xy : Z) : Z * Z := (cx + xy mod s, cy + xy / s).
    Definition oxy (xy : Z) : Z := pixel_offset t0 (pxy xy).
    Definition notskip (xy : Z) : bool := negb (cz + s <=? dat (w_out st) (oxy xy)).
    Definition cols : list Z := filter notskip (zrange (s * s)).
    Definition blk (xy : Z) : list (Z * Z * Z) :=
      map (fun k => (cx + xy mod s, cy + xy / s, cz + k)) (rev (zrange s)).

    Definition hit : Type := (Z * (Z * Z * Z) * Z)%type.
    Definition hkey (h : hit) : Z := fst (fst h).
    Definition hpt (h : hit) : Z * Z * Z := snd (fst h).
    Definition hz (h : hit) : Z := snd h.
    Definition dH : hit := (0, (0, 0, 0), 0).

    Definition hitrec (xy : Z) : list hit :=
      match find_idx neg (map (feval shape) (blk xy)) 0 with
      | None => []
      | Some kidx =>
          let k := s - 1 - kidx in
          [(oxy xy, (cx + xy mod s, cy + xy / s, cz + k), cz + k + 1)]
      end.

    Definition hit_step (acc : list gp * bool) (h : hit) : list gp * bool :=
      let '(b, ok) := acc in
      (upd b (hkey h) (mkG (hz h) (g_normal (znth b (hkey h) gdef))),
       ok && (dat b (hkey h) <? hz h)).

    Definition loop2_step (out : list V)
               (acc : list gp * list Z * list (Z * Z * Z) * bool) (col : Z) :=
      let '(buf, columns, gpts, ok) := acc in
      let chunk := firstn (Z.to_nat s) (skipn (Z.to_nat (col * s)) out) in
      match find_idx neg chunk 0 with
      | None => acc
      | Some kidx =>
          let xy := znth columns col 0 in
          let i := xy mod s in
          let j := xy / s in
          let k := s - 1 - kidx in
          let o := pixel_offset t0 (cx + i, cy + j) in
          let z := cz + k + 1 in
          let ok' := ok && (dat buf o <? z) in
          let buf' := upd buf o (mkG z (g_normal (znth buf o gdef))) in
          let grad := zlength gpts in
          (buf', upd columns grad o, gpts ++ [(cx + i, cy + j, cz + k)], ok')
      end.

    Definition loop3_step (columns : list Z) (gout : list G) (buf : list gp) (index : Z) :=
      let o := znth columns index 0 in
      upd buf o (mkG (g_depth (znth buf o gdef)) (znth gout index g_zero)).

    Definition pts : list (Z * Z * Z) := flat_map blk cols.
    Definition outv : list V := map (feval shape) pts.
    Definition ok1 : bool := w_ok st && (0 <? zlength pts).

    Lemma rtp_unfold :
      render_tile_pixels feval neg geval g_zero t0 shape s (cx, cy, cz) st =
      let '(buf, columns, gpts, ok2) :=
        fold_left (loop2_step outv) (zrange (zlength cols)) (w_out st, cols, [], ok1) in
      let grad := zlength gpts in
      if 0 <? grad then
        mkW (fold_left (loop3_step columns (map (geval shape) gpts)) (zrange grad) buf) ok2
      else mkW buf ok2.
    Proof. reflexivity. Qed.

    Lemma blk_length xy : length (blk xy) = Z.to_nat s.
    Proof. unfold blk. now rewrite map_length, rev_length, zrange_length. Qed.

    (* the col-th chunk of the bulk evaluation is column cols[col] *)
    Lemma chunk_col col :
      0 <= col < zlength cols ->
      firstn (Z.to_nat s) (skipn (Z.to_nat (col * s)) outv)
      = map (feval shape) (blk (znth cols col 0)).
    Proof.
      intros Hc. unfold outv, pts. rewrite skipn_map, firstn_map. f_equal.
      replace (Z.to_nat (col * s)) with (Z.to_nat col * Z.to_nat s)%nat by nia.
      rewrite chunk_flat_map with (a0 := 0).
      - rewrite znth_nth by lia. reflexivity.
      - apply blk_length.
      - unfold zlength in Hc. lia.
    Qed.

    Definition hits_upto (c : Z) : list hit :=
      flat_map (fun i => hitrec (znth cols i 0)) (zrange c).

    Definition inv2 (c : Z) (acc : list gp * list Z * list (Z * Z * Z) * bool) : Prop :=
      let '(buf, columns, gpts, ok) := acc in
      let hc := hits_upto c in
      (buf, ok) = fold_left hit_step hc (w_out st, ok1) /\
      gpts = map hpt hc /\
      zlength columns = zlength cols /\
      zlength hc <= c /\
      (forall g, 0 <= g < zlength hc -> znth columns g 0 = hkey (znth hc g dH)) /\
      (forall idx, c <= idx < zlength cols -> znth columns idx 0 = znth cols idx 0).

    Lemma hits_upto_succ c : 0 <= c ->
      hits_upto (c + 1) = hits_upto c ++ hitrec (znth cols c 0).
    Proof.
      intros Hc. unfold hits_upto. rewrite zrange_succ by assumption.
      rewrite flat_map_app. simpl. now rewrite app_nil_r.
    Qed.

    Lemma loop2_inv :
      inv2 (zlength cols) (fold_left (loop2_step outv) (zrange (zlength cols)) (w_out st, cols, [], ok1)).
    Proof.
      apply zrange_fold_inv.
      - apply zlength_nonneg.
      - unfold inv2, hits_upto. rewrite zrange_nonpos by lia. simpl.
        repeat split; try reflexivity; try lia. intros g Hg. unfold zlength in Hg. simpl in Hg. lia.
      - intros c [[[buf columns] gpts] ok] Hc (Hbuf & Hg & Hlc & Hle & Hfront & Hback).
        unfold loop2_step. rewrite chunk_col by assumption.
        unfold inv2. rewrite hits_upto_succ by lia.
        assert (Hhr : hitrec (znth cols c 0) =
                      match find_idx neg (map (feval shape) (blk (znth cols c 0))) 0 with
                      | None => []
                      | Some kidx =>
                          [(oxy (znth cols c 0),
                            (cx + znth cols c 0 mod s, cy + znth cols c 0 / s, cz + (s - 1 - kidx)),
                            cz + (s - 1 - kidx) + 1)]
                      end) by reflexivity.
        destruct (find_idx neg (map (feval shape) (blk (znth cols c 0))) 0) as [kidx|] eqn:E;
          rewrite Hhr; clear Hhr.
        + rewrite (Hback c) by lia.
          set (xy := znth cols c 0).
          set (h := (oxy xy, (cx + xy mod s, cy + xy / s, cz + (s - 1 - kidx)),
                     cz + (s - 1 - kidx) + 1) : hit).
          cbv zeta.
          assert (Hgl : zlength gpts = zlength (hits_upto c)) by (rewrite Hg; apply zlength_map).
          split.
          { rewrite fold_left_app. rewrite <- Hbuf. reflexivity. }
          split.
          { rewrite map_app, Hg. reflexivity. }
          split.
          { rewrite zlength_upd. exact Hlc. }
          split.
          { rewrite zlength_app. change (zlength [h]) with 1. lia. }
          split.
          { intros g Hgr. rewrite zlength_app in Hgr. change (zlength [h]) with 1 in Hgr.
            rewrite Hgl.
            destruct (Z.eq_dec g (zlength (hits_upto c))) as [->|Hne].
            - rewrite znth_upd_eq by lia. rewrite znth_app2 by lia. rewrite Z.sub_diag.
              reflexivity.
            - rewrite znth_upd_neq by lia. rewrite znth_app1 by lia. apply Hfront. lia. }
          { intros idx Hidx. rewrite Hgl. rewrite znth_upd_neq by lia. apply Hback. lia. }
        + rewrite app_nil_r. repeat split; try assumption; try lia.
          intros idx Hidx. apply Hback. lia.
    Qed.

    (* all hits, as a function of the filtered column list only *)
    Definition hits : list hit := flat_map hitrec cols.

    Lemma hits_upto_all : hits_upto (zlength cols) = hits.
    Proof.
      unfold hits_upto, hits.
      transitivity (flat_map hitrec (map (fun i => znth cols i 0) (zrange (zlength cols)))).
      - symmetry. apply flat_map_map.
      - now rewrite map_znth_zrange.
    Qed.

    Definition norm_step (buf : list gp) (h : hit) : list gp :=
      upd buf (hkey h) (mkG (g_depth (znth buf (hkey h) gdef)) (geval shape (hpt h))).

    (* render_tile_pixels = depth writes for all hits, then normal writes *)
    Lemma rtp_hits :
      let r := fold_left hit_step hits (w_out st, ok1) in
      render_tile_pixels feval neg geval g_zero t0 shape s (cx, cy, cz) st
      = mkW (fold_left norm_step hits (fst r)) (snd r).
    Proof.
      rewrite rtp_unfold. pose proof loop2_inv as Hinv.
      destruct (fold_left (loop2_step outv) (zrange (zlength cols)) (w_out st, cols, [], ok1))
        as [[[buf columns] gpts] ok2].
      unfold inv2 in Hinv. rewrite hits_upto_all in Hinv.
      destruct Hinv as (Hbuf & Hg & Hlc & Hle & Hfront & _).
      cbv zeta. rewrite <- Hbuf. simpl fst. simpl snd.
      assert (Hgl : zlength gpts = zlength hits) by (rewrite Hg; apply zlength_map).
      destruct (0 <? zlength gpts) eqn:Egrad.
      - f_equal. rewrite Hgl.
        apply fold_zrange_list with (d := dH). intros b i Hi.
        unfold loop3_step, norm_step. rewrite Hfront by assumption.
        rewrite Hg, map_map. erewrite znth_map with (d' := dH) by assumption. reflexivity.
      - apply Z.ltb_ge in Egrad. rewrite Hgl in Egrad. clear Hbuf Hg Hfront Hle Hgl.
        remember hits as hl eqn:Ehl. clear Ehl.
        destruct hl as [|h hl]; [reflexivity|].
        rewrite zlength_cons in Egrad. pose proof (zlength_nonneg hl). lia.
    Qed.
    (** *** geometry of the xy index *)

    Lemma xy_decomp i j : 0 <= i < s -> (j * s + i) mod s = i /\ (j * s + i) / s = j.
    Proof.
      intros Hi. split.
      - rewrite Z.add_comm, Z_mod_plus_full. apply Z.mod_small. lia.
      - rewrite Z.add_comm, Z.div_add by lia. rewrite Z.div_small by lia. lia.
    Qed.

    Lemma xy_range xy : In xy (zrange (s * s)) -> 0 <= xy mod s < s /\ 0 <= xy / s < s.
    Proof.
      intros H. apply zrange_In in H. split; [apply Z.mod_pos_bound; lia|].
      split; [apply Z.div_pos; lia|apply Z.div_lt_upper_bound; lia].
    Qed.

    Lemma pxy_in_tile xy : In xy (zrange (s * s)) -> in_tile (cx, cy) s (pxy xy) = true /\ bdom (pxy xy).
    Proof.
      intros H. apply xy_range in H. unfold pxy. split.
      - apply in_tile_true. simpl. lia.
      - unfold bdom, tile_in_root in *. simpl in *. lia.
    Qed.

    Definition xy_of (p : Z * Z) : Z := (snd p - cy) * s + (fst p - cx).

    Lemma xy_of_spec p :
      in_tile (cx, cy) s p = true -> In (xy_of p) (zrange (s * s)) /\ pxy (xy_of p) = p.
    Proof.
      intros H. apply in_tile_true in H. simpl in H. unfold xy_of. split.
      - apply zrange_In. nia.
      - unfold pxy. destruct (@xy_decomp (fst p - cx) (snd p - cy)) as [-> ->]; [lia|].
        destruct p; simpl; f_equal; lia.
    Qed.

    Lemma pxy_inj xy xy' :
      In xy (zrange (s * s)) -> In xy' (zrange (s * s)) -> pxy xy = pxy xy' -> xy = xy'.
    Proof.
      intros H H' E. unfold pxy in E. inversion E.
      apply zrange_In in H, H'.
      rewrite (Z.div_mod xy s), (Z.div_mod xy' s) by lia. nia.
    Qed.

    Lemma oxy_inj xy xy' :
      In xy (zrange (s * s)) -> In xy' (zrange (s * s)) -> oxy xy = oxy xy' -> xy = xy'.
    Proof.
      intros H H' E. apply pxy_inj; try assumption.
      apply (pixel_offset_inj Ht0 Hrx Hry); try (apply pxy_in_tile; assumption). exact E.
    Qed.

    Lemma cols_In xy : In xy cols <-> In xy (zrange (s * s)) /\ notskip xy = true.
    Proof. unfold cols. apply filter_In. Qed.

    (** *** the first-hit search is the column maximum *)

    Definition fz (p : Z * Z) (z : Z) : bool := neg (feval shape (fst p, snd p, z)).
    Definition hitc (p : Z * Z) : Z := colmax (fz p) cz (cz + s).

    Lemma find_idx_colmax x y (n : nat) i0 :
      find_idx neg (map (feval shape) (map (fun k => (x, y, cz + k)) (rev (zrange (Z.of_nat n))))) i0
      = if colmax_n (fz (x, y)) cz n =? 0 then None
        else Some (i0 + (cz + Z.of_nat n - colmax_n (fz (x, y)) cz n)).
    Proof.
      revert i0. induction n as [|n IH]; intros i0; [reflexivity|].
      rewrite Nat2Z.inj_succ. unfold Z.succ. rewrite zrange_succ by lia.
      rewrite rev_app_distr. simpl rev. simpl app. simpl map. simpl find_idx. simpl colmax_n.
      change (fz (x, y) (cz + Z.of_nat n)) with (neg (feval shape (x, y, cz + Z.of_nat n))).
      destruct (neg (feval shape (x, y, cz + Z.of_nat n))).
      - replace (cz + Z.of_nat n + 1 =? 0) with false by (symmetry; apply Z.eqb_neq; lia).
        f_equal. lia.
      - rewrite IH. destruct (colmax_n (fz (x, y)) cz n =? 0); [reflexivity|]. f_equal. lia.
    Qed.

    Lemma find_idx_colmax' x y i0 :
      find_idx neg (map (feval shape) (map (fun k => (x, y, cz + k)) (rev (zrange s)))) i0
      = if colmax_n (fz (x, y)) cz (Z.to_nat s) =? 0 then None
        else Some (i0 + (cz + s - colmax_n (fz (x, y)) cz (Z.to_nat s))).
    Proof.
      pose proof (find_idx_colmax x y (Z.to_nat s) i0) as H.
      rewrite Z2Nat.id in H by lia. exact H.
    Qed.

    Lemma hitrec_spec xy :
      hitrec xy = if hitc (pxy xy) =? 0 then []
                  else [(oxy xy, (fst (pxy xy), snd (pxy xy), hitc (pxy xy) - 1), hitc (pxy xy))].
    Proof.
      unfold hitrec, blk.
      rewrite find_idx_colmax'. unfold hitc, colmax.
      replace (cz + s - cz) with s by lia. unfold pxy at 1 2. simpl fst. simpl snd.
      fold (pxy xy).
      destruct (colmax_n (fz (pxy xy)) cz (Z.to_nat s) =? 0); [reflexivity|].
      unfold pxy. simpl fst. simpl snd.
      f_equal. f_equal; [|lia]. f_equal. f_equal. lia.
    Qed.

    Lemma hitrec_key xy h : In h (hitrec xy) -> hitrec xy = [h] /\ hkey h = oxy xy.
    Proof.
      rewrite hitrec_spec. destruct (hitc (pxy xy) =? 0); [contradiction|].
      intros [<-|[]]. split; reflexivity.
    Qed.

    Lemma hits_NoDup : NoDup (map hkey hits).
    Proof.
      unfold hits. apply NoDup_flat_map_key with (kx := oxy).
      - unfold cols. apply NoDup_filter, zrange_NoDup.
      - apply hitrec_key.
      - intros a a' Ha Ha'. apply cols_In in Ha, Ha'. apply oxy_inj; tauto.
    Qed.

    Lemma hits_In h :
      In h hits <->
      exists xy, In xy (zrange (s * s)) /\ notskip xy = true /\ hitc (pxy xy) <> 0 /\
                 h = (oxy xy, (fst (pxy xy), snd (pxy xy), hitc (pxy xy) - 1), hitc (pxy xy)).
    Proof.
      unfold hits. rewrite in_flat_map. split.
      - intros (xy & Hxy & Hh). apply cols_In in Hxy. exists xy.
        rewrite hitrec_spec in Hh. destruct (hitc (pxy xy) =? 0) eqn:E; [contradiction|].
        apply Z.eqb_neq in E. destruct Hh as [<-|[]]. tauto.
      - intros (xy & Hxy & Hns & Hc & ->). exists xy. split; [apply cols_In; tauto|].
        rewrite hitrec_spec. apply Z.eqb_neq in Hc. rewrite Hc. now left.
    Qed.

    Lemma hits_key_range h : In h hits -> 0 <= hkey h < zlength (w_out st).
    Proof.
      intros H. apply hits_In in H. destruct H as (xy & Hxy & _ & _ & ->).
      unfold hkey. simpl. rewrite Hlen. apply (pixel_offset_in_bounds Ht0 Hrx Hry).
      now apply pxy_in_tile.
    Qed.

    (** *** the two write passes *)

    Lemma forallb_ext_in A (f g : A -> bool) l :
      (forall a, In a l -> f a = g a) -> forallb f l = forallb g l.
    Proof.
      induction l as [|a l IH]; intros H; simpl; [reflexivity|].
      rewrite H by now left. rewrite IH; [reflexivity|]. intros; apply H; now right.
    Qed.

    Definition depth_write (h : hit) (old : gp) : gp := mkG (hz h) (g_normal old).
    Definition normal_write (h : hit) (old : gp) : gp := mkG (g_depth old) (geval shape (hpt h)).

    Lemma hit_fold l :
      NoDup (map hkey l) ->
      forall b ok,
        fst (fold_left hit_step l (b, ok))
        = fold_left (fun b h => upd b (hkey h) (depth_write h (znth b (hkey h) gdef))) l b /\
        snd (fold_left hit_step l (b, ok))
        = ok && forallb (fun h => dat b (hkey h) <? hz h) l.
    Proof.
      induction l as [|x l IH]; intros Hnd b ok; simpl.
      - now rewrite andb_true_r.
      - simpl in Hnd. inversion Hnd as [|? ? Hnin Hnd']; subst.
        destruct (IH Hnd' (upd b (hkey x) (mkG (hz x) (g_normal (znth b (hkey x) gdef))))
                     (ok && (dat b (hkey x) <? hz x))) as [H1 H2].
        split; [exact H1|]. rewrite H2. rewrite <- andb_assoc. f_equal. f_equal.
        apply forallb_ext_in. intros h Hh. unfold depth_at. rewrite znth_upd_neq; [reflexivity|].
        intros E. apply Hnin. rewrite E. now apply in_map.
    Qed.

    Notation st' := (render_tile_pixels feval neg geval g_zero t0 shape s (cx, cy, cz) st).

    Definition skipb (p : Z * Z) : bool := cz + s <=? g_depth (gat st p).

    (* the result of render_tile_pixels at pixel p of the tile *)
    Definition pix_result (p : Z * Z) : gp :=
      if skipb p then gat st p
      else if hitc p =? 0 then gat st p
      else mkG (hitc p) (geval shape (fst p, snd p, hitc p - 1)).

    Lemma notskip_skipb xy : notskip xy = negb (skipb (pxy xy)).
    Proof. reflexivity. Qed.

    Lemma rtp_spec :
      zlength (w_out st') = zlength (w_out st) /\
      (forall p, bdom p -> in_tile (cx, cy) s p = true -> gat st' p = pix_result p) /\
      (forall p, bdom p -> in_tile (cx, cy) s p = false -> gat st' p = gat st p) /\
      w_ok st' = w_ok st && (0 <? zlength pts)
                 && forallb (fun h => dat (w_out st) (hkey h) <? hz h) hits.
    Proof.
      rewrite rtp_hits. cbv zeta.
      destruct (@hit_fold hits hits_NoDup (w_out st) ok1) as [Hfst Hsnd].
      rewrite Hfst, Hsnd. simpl w_out. simpl w_ok.
      destruct (@fold_upd_distinct gp hit hkey depth_write gdef hits hits_NoDup (w_out st)
                  hits_key_range) as (L1 & I1 & O1).
      set (b1 := fold_left (fun b h => upd b (hkey h) (depth_write h (znth b (hkey h) gdef)))
                           hits (w_out st)) in *.
      destruct (@fold_upd_distinct gp hit hkey normal_write gdef hits hits_NoDup b1) as (L2 & I2 & O2).
      { intros h Hh. rewrite L1. now apply hits_key_range. }
      change (fold_left norm_step hits b1)
        with (fold_left (fun b h => upd b (hkey h) (normal_write h (znth b (hkey h) gdef))) hits b1).
      set (b2 := fold_left (fun b h => upd b (hkey h) (normal_write h (znth b (hkey h) gdef))) hits b1) in *.
      split; [lia|]. split; [|split; [|reflexivity]].
      - intros p Hp Ht. destruct (xy_of_spec p Ht) as [Hxy Hpxy].
        unfold gat. simpl w_out. unfold pix_result.
        destruct (skipb p) eqn:Esk; [|destruct (hitc p =? 0) eqn:Eh].
        + (* skipped: not a key *)
          rewrite O2, O1; [reflexivity| |]; intros Hk; apply in_map_iff in Hk;
            destruct Hk as (h & Hk & Hh); apply hits_In in Hh;
            destruct Hh as (xy & Hxy' & Hns & _ & ->); unfold hkey in Hk; simpl in Hk;
            rewrite <- Hpxy in Hk; apply oxy_inj in Hk; try assumption; subst xy;
            rewrite notskip_skipb, Hpxy, Esk in Hns; discriminate.
        + rewrite O2, O1; [reflexivity| |]; intros Hk; apply in_map_iff in Hk;
            destruct Hk as (h & Hk & Hh); apply hits_In in Hh;
            destruct Hh as (xy & Hxy' & _ & Hc & ->); unfold hkey in Hk; simpl in Hk;
            rewrite <- Hpxy in Hk; apply oxy_inj in Hk; try assumption; subst xy;
            rewrite Hpxy in Hc; apply Z.eqb_eq in Eh; contradiction.
        + set (h := (oxy (xy_of p), (fst p, snd p, hitc p - 1), hitc p) : hit).
          assert (Hh : In h hits).
          { apply hits_In. exists (xy_of p). rewrite notskip_skipb, Hpxy, Esk.
            apply Z.eqb_neq in Eh. repeat split; auto. }
          replace (pixel_offset t0 p) with (hkey h) by (unfold h, hkey, oxy; simpl; now rewrite Hpxy).
          rewrite (I2 h Hh), (I1 h Hh). reflexivity.
      - intros p Hp Ht. unfold gat. simpl w_out.
        rewrite O2, O1; [reflexivity| |]; intros Hk; apply in_map_iff in Hk;
          destruct Hk as (h & Hk & Hh); apply hits_In in Hh;
          destruct Hh as (xy & Hxy' & _ & _ & ->); unfold hkey in Hk; simpl in Hk;
          apply (pixel_offset_inj Ht0 Hrx Hry) in Hk; try assumption;
          try (apply pxy_in_tile; assumption);
          subst p; destruct (pxy_in_tile xy Hxy') as [Ht' _]; congruence.
    Qed.

    (* neither assertion of render_tile_pixels fails *)
    Lemma rtp_ok :
      w_ok st = true ->
      (exists p, in_tile (cx, cy) s p = true /\ skipb p = false) ->
      (forall p, in_tile (cx, cy) s p = true -> skipb p = false -> hitc p <> 0 ->
                 g_depth (gat st p) < hitc p) ->
      w_ok st' = true.
    Proof.
      intros Hok (p & Hp & Hsk) Hlt.
      destruct rtp_spec as (_ & _ & _ & ->). rewrite Hok. simpl.
      apply andb_true_iff. split.
      - apply Z.ltb_lt. destruct (xy_of_spec p Hp) as [Hxy Hpxy].
        assert (Hc : In (xy_of p) cols).
        { apply cols_In. split; [exact Hxy|]. now rewrite notskip_skipb, Hpxy, Hsk. }
        unfold pts, zlength.
        rewrite flat_map_const_length with (n := Z.to_nat s) by apply blk_length.
        destruct cols; [contradiction|]. simpl length. nia.
      - apply forallb_forall. intros h Hh. apply hits_In in Hh.
        destruct Hh as (xy & Hxy & Hns & Hc & ->). unfold hkey, hz. simpl.
        apply Z.ltb_lt. destruct (pxy_in_tile xy Hxy) as [Ht _].
        apply (Hlt (pxy xy) Ht); [|exact Hc].
        rewrite notskip_skipb in Hns. now apply negb_true_iff in Hns.
    Qed.
  End Pixels.

  (** * Part 4: the recursion *)

  Definition px3 (q : Z * Z * Z) : Z := fst (fst q).
  Definition py3 (q : Z * Z * Z) : Z := snd (fst q).
  Definition pz3 (q : Z * Z * Z) : Z := snd q.

  (* the closed box handed to the interval evaluator *)
  Definition in_cbox3 (c : Z * Z * Z) (s : Z) (q : Z * Z * Z) : Prop :=
    px3 c <= px3 q <= px3 c + s /\ py3 c <= py3 q <= py3 c + s /\ pz3 c <= pz3 q <= pz3 c + s.

  Hypothesis H_posv : forall v, posv v = true -> neg v = false.
  Hypothesis H_encl_neg : forall t c s q,
      in_cbox3 c s q -> i_upper_neg (fst (ieval t c s)) = true -> neg (feval t q) = true.
  Hypothesis H_encl_pos : forall t c s q,
      in_cbox3 c s q -> i_lower_pos (fst (ieval t c s)) = true -> posv (feval t q) = true.
  Hypothesis H_simp : forall t c s tr q,
      snd (ieval t c s) = Some tr -> in_cbox3 c s q ->
      feval (simplify t tr) q = feval t q.
  Hypothesis H_gsimp : forall t c s tr q,
      snd (ieval t c s) = Some tr -> in_cbox3 c s q ->
      geval (simplify t tr) q = geval t q.

  Variable root : tape.

  Section RootTile3.
    Variable t0 : Z.
    Variables rx ry : Z.
    Hypothesis Ht0 : 0 < t0.
    Hypothesis Hrx : rx mod t0 = 0.
    Hypothesis Hry : ry mod t0 = 0.
    (* top of the stack of root tiles: ceil(depth / t0) * t0 *)
    Variable ztop : Z.
    Hypothesis Hztop : 0 < ztop.

    Notation bdom := (bdom t0 rx ry).
    Notation gatp := (gat t0).

    (* voxel (p, z) is inside the shape *)
    Definition Fv (p : Z * Z) (z : Z) : bool := neg (feval root (fst p, snd p, z)).
    (* heightmap of column p restricted to z in [lvl, ztop) *)
    Definition CM (p : Z * Z) (lvl : Z) : Z := colmax (Fv p) lvl ztop.

    (* equal, or both saturated *)
    Definition deq (a b : Z) : Prop := a = b \/ (ztop <= a /\ ztop <= b).

    Definition normal_ok (p : Z * Z) (px : gp) : Prop :=
      g_depth px <= ztop ->
      g_normal px = if g_depth px =? 0 then g_zero
                    else geval root (fst p, snd p, g_depth px - 1).

    (* the invariant of pixel p once everything at z >= lvl has been processed *)
    Definition Inv (p : Z * Z) (lvl : Z) (px : gp) : Prop :=
      deq (g_depth px) (CM p lvl) /\ normal_ok p px.

    Lemma CM_range p lvl : 0 <= lvl <= ztop -> CM p lvl = 0 \/ lvl + 1 <= CM p lvl <= ztop.
    Proof. intros H. apply colmax_range. lia. Qed.

    Lemma CM_split p lo mid :
      0 <= lo <= mid -> mid <= ztop ->
      CM p lo = if CM p mid =? 0 then colmax (Fv p) lo mid else CM p mid.
    Proof. intros. now apply colmax_split. Qed.

    Lemma Inv_lower_pos p lvl lvl' px :
      0 <= lvl' <= lvl -> lvl <= ztop -> Inv p lvl px -> 0 < g_depth px -> Inv p lvl' px.
    Proof.
      intros H1 H2 [Hd Hn] Hpos. split; [|exact Hn].
      rewrite (@CM_split p lvl' lvl H1 H2).
      destruct Hd as [E|[S1 S2]].
      - replace (CM p lvl =? 0) with false by (symmetry; apply Z.eqb_neq; lia). now left.
      - replace (CM p lvl =? 0) with false by (symmetry; apply Z.eqb_neq; lia). now right.
    Qed.

    Lemma Inv_lower_empty p lvl lvl' px :
      0 <= lvl' <= lvl -> lvl <= ztop -> Inv p lvl px ->
      colmax (Fv p) lvl' lvl = 0 -> Inv p lvl' px.
    Proof.
      intros H1 H2 [Hd Hn] He. split; [|exact Hn].
      rewrite (@CM_split p lvl' lvl H1 H2), He.
      destruct (CM p lvl =? 0) eqn:E; [|exact Hd]. apply Z.eqb_eq in E. now rewrite <- E.
    Qed.

    Lemma Inv_depth_cases p top px :
      0 <= top <= ztop -> Inv p top px -> g_depth px = 0 \/ top + 1 <= g_depth px.
    Proof.
      intros H [[E|[S1 S2]] _].
      - rewrite E. destruct (CM_range p H); [now left|right; lia].
      - destruct (CM_range p H) as [E|E]; [lia|]. right. lia.
    Qed.

    Lemma Inv_depth_nonneg p lvl px : 0 <= lvl -> Inv p lvl px -> 0 <= g_depth px.
    Proof.
      intros H [[E|[S1 S2]] _]; [|lia]. rewrite E. unfold CM. now apply colmax_nonneg.
    Qed.

    Definition agree3 (t : tape) (c : Z * Z * Z) (s : Z) : Prop :=
      forall q, in_cbox3 c s q -> feval t q = feval root q /\ geval t q = geval root q.

    Lemma agree3_sub t c s :
      agree3 t c s ->
      agree3 (match snd (ieval t c s) with Some tr => simplify t tr | None => t end) c s.
    Proof.
      intros Hag q Hq. destruct (snd (ieval t c s)) eqn:E; [|now apply Hag].
      rewrite (@H_simp t c s _ q E Hq), (@H_gsimp t c s _ q E Hq). now apply Hag.
    Qed.

    Lemma agree3_mono t c s c' s' :
      agree3 t c s ->
      px3 c <= px3 c' -> px3 c' + s' <= px3 c + s ->
      py3 c <= py3 c' -> py3 c' + s' <= py3 c + s ->
      pz3 c <= pz3 c' -> pz3 c' + s' <= pz3 c + s -> agree3 t c' s'.
    Proof. intros Hag ? ? ? ? ? ? q (Hx & Hy & Hz). apply Hag. unfold in_cbox3. lia. Qed.

    Definition ggood (st : wst) : Prop := w_ok st = true /\ zlength (w_out st) = t0 * t0.

    Lemma off_row cx cy s x y :
      tile_in_root t0 rx ry (cx, cy) s -> 0 <= x < s -> 0 <= y < s ->
      pixel_offset t0 (cx + 0, cy + y) + x = pixel_offset t0 (cx + x, cy + y).
    Proof.
      intros Hin Hx Hy. unfold tile_in_root in Hin. simpl in Hin.
      rewrite !(pixel_offset_root Ht0 Hrx Hry) by (unfold Render2Sound.bdom; simpl; lia).
      simpl. lia.
    Qed.

    (* the early-exit test of render_tile_recurse *)
    Lemma early_exit_iff cx cy s fill_z (st : wst) :
      tile_in_root t0 rx ry (cx, cy) s ->
      forallb (fun y =>
           let i := pixel_offset t0 (cx + 0, cy + y) in
           forallb (fun x => fill_z <=? dat (w_out st) (i + x)) (zrange s))
           (zrange s) = true
      <-> forall p, in_tile (cx, cy) s p = true -> fill_z <= g_depth (gatp st p).
    Proof.
      intros Hin. rewrite forallb_forall. split.
      - intros H p Hp. apply in_tile_true in Hp. simpl in Hp.
        specialize (H (snd p - cy)). rewrite forallb_forall in H.
        specialize (H ltac:(apply zrange_In; lia) (fst p - cx) ltac:(apply zrange_In; lia)).
        rewrite off_row with (s := s) in H by (assumption || lia).
        apply Z.leb_le in H. unfold gat.
        replace p with (cx + (fst p - cx), cy + (snd p - cy)) at 1
          by (destruct p; simpl; f_equal; lia).
        exact H.
      - intros H y Hy. apply zrange_In in Hy. apply forallb_forall. intros x Hx.
        apply zrange_In in Hx. rewrite off_row with (s := s) by assumption.
        apply Z.leb_le. apply (H (cx + x, cy + y)). apply in_tile_true. simpl. lia.
    Qed.

    (** ** buffers without the flag *)
    Definition oat (out : list gp) (p : Z * Z) : gp := znth out (pixel_offset t0 p) gdef.
    Definition ogood (out : list gp) : Prop := zlength out = t0 * t0.

    Lemma upd_ostep (Post : Z * Z -> gp -> Prop) out q v :
      ogood out -> bdom q -> Post q v ->
      step_ok oat ogood bdom Post (fun p => peqb p q) out (upd out (pixel_offset t0 q) v).
    Proof.
      intros Hg Hq Hv. split.
      - unfold ogood in *. now rewrite zlength_upd.
      - intros p Hp. split.
        + intros E. apply peqb_true in E. subst p. unfold oat.
          rewrite znth_upd_eq; [exact Hv|]. rewrite Hg.
          now apply (pixel_offset_in_bounds Ht0 Hrx Hry).
        + intros E. unfold oat. apply znth_upd_neq. intros Heq.
          apply (pixel_offset_inj Ht0 Hrx Hry) in Heq; try assumption. subst q.
          assert (peqb p p = true) by now apply peqb_true. congruence.
    Qed.

    (* the whole-tile fill *)
    Lemma fill_ok cx cy s fill_z (st : wst) :
      tile_in_root t0 rx ry (cx, cy) s -> zlength (w_out st) = t0 * t0 ->
      step_ok oat ogood bdom
        (fun p px => px = mkG (Z.max (g_depth (gatp st p)) fill_z) (g_normal (gatp st p)))
        (in_tile (cx, cy) s) (w_out st)
        (fold_left (fun out y =>
           let i := pixel_offset t0 (cx + 0, cy + y) in
           fold_left (fun out x =>
             let old := znth out (i + x) gdef in
             upd out (i + x) (mkG (Z.max (g_depth old) fill_z) (g_normal old)))
             (zrange s) out)
           (zrange s) (w_out st)).
    Proof.
      intros Hin Hlen. cbv zeta.
      apply grid_loop with (Pre := fun p px => px = gatp st p) (c := (cx, cy))
        (stepf := fun out y x =>
           upd out (pixel_offset t0 (cx + 0, cy + y) + x)
             (mkG (Z.max (g_depth (znth out (pixel_offset t0 (cx + 0, cy + y) + x) gdef)) fill_z)
                  (g_normal (znth out (pixel_offset t0 (cx + 0, cy + y) + x) gdef)))).
      - intros out x y Hx Hy Hg Hpre. simpl fst in *. simpl snd in *.
        rewrite off_row with (s := s) by assumption.
        assert (Hd : bdom (cx + x, cy + y))
          by (unfold Render2Sound.bdom, tile_in_root in *; simpl in *; lia).
        specialize (Hpre Hd). unfold oat in Hpre. rewrite Hpre.
        apply upd_ostep; auto.
      - exact Hlen.
      - intros; reflexivity.
    Qed.

    Notation rtp := (render_tile_pixels feval neg geval g_zero).
    Notation rtr := (render_tile_recurse ieval i_upper_neg i_lower_pos simplify feval neg geval g_zero).

    Notation gstep := (step_ok gatp ggood bdom).

    (* on the tile, the sub-tape's first-hit column maximum is the root's *)
    Lemma hitc_root shape cx cy cz s p :
      agree3 shape (cx, cy, cz) s -> in_tile (cx, cy) s p = true ->
      hitc shape s cz p = colmax (Fv p) cz (cz + s).
    Proof.
      intros Hag Hp. apply in_tile_true in Hp. simpl in Hp. unfold hitc.
      apply colmax_ext. intros z Hz. unfold fz, Fv.
      destruct (Hag (fst p, snd p, z)) as [-> _]; [|reflexivity].
      unfold in_cbox3, px3, py3, pz3. simpl. lia.
    Qed.

    (* Worker::render_tile_pixels *)
    Lemma pixels_ok shape cx cy cz s (st : wst) :
      0 < s -> tile_in_root t0 rx ry (cx, cy) s -> 0 <= cz -> cz + s <= ztop ->
      agree3 shape (cx, cy, cz) s -> ggood st ->
      (forall p, bdom p -> in_tile (cx, cy) s p = true -> Inv p (cz + s) (gatp st p)) ->
      (exists p, in_tile (cx, cy) s p = true /\ bdom p /\ g_depth (gatp st p) < cz + s + 1) ->
      gstep (fun p => Inv p cz) (in_tile (cx, cy) s) st (rtp t0 shape s (cx, cy, cz) st).
    Proof.
      intros Hs Hin Hcz Htop Hag [Hok Hlen] Hpre (p0 & Hp0 & Hd0 & Hlt0).
      destruct (@rtp_spec t0 rx ry Ht0 Hrx Hry shape s cx cy cz Hs Hin Hcz st Hlen)
        as (HL & HI & HO & _).
      assert (Hbd : forall p, in_tile (cx, cy) s p = true -> bdom p).
      { intros p Hp. apply in_tile_true in Hp. unfold Render2Sound.bdom, tile_in_root in *.
        simpl in *. lia. }
      (* an unskipped pixel has depth 0 and nothing above the tile *)
      assert (Hunsk : forall p, in_tile (cx, cy) s p = true -> skipb t0 s cz st p = false ->
                                g_depth (gatp st p) = 0 /\ CM p (cz + s) = 0).
      { intros p Hp Hsk. unfold skipb in Hsk. apply Z.leb_gt in Hsk.
        pose proof (Hpre p (Hbd p Hp) Hp) as HI0.
        destruct (@Inv_depth_cases p (cz + s) _ ltac:(lia) HI0) as [E|E]; [|lia].
        split; [exact E|]. destruct HI0 as [[E'|[S1 S2]] _]; lia. }
      split.
      - split; [|lia].
        apply (@rtp_ok t0 rx ry Ht0 Hrx Hry shape s cx cy cz Hs Hin Hcz st Hlen Hok).
        + exists p0. split; [exact Hp0|]. unfold skipb. apply Z.leb_gt.
          destruct (@Inv_depth_cases p0 (cz + s) _ ltac:(lia) (Hpre p0 Hd0 Hp0)); lia.
        + intros p Hp Hsk Hc. destruct (Hunsk p Hp Hsk) as [-> _].
          rewrite (@hitc_root shape cx cy cz s p Hag Hp) in *.
          destruct (colmax_range (Fv p) (lo := cz) (hi := cz + s) ltac:(lia)); lia.
      - intros p Hp. split; [|intros Hf; now apply HO].
        intros Ht. rewrite (HI p Hp Ht). unfold pix_result.
        pose proof (Hpre p Hp Ht) as HI0.
        destruct (skipb t0 s cz st p) eqn:Esk.
        + apply Inv_lower_pos with (lvl := cz + s); try lia; [exact HI0|].
          unfold skipb in Esk. apply Z.leb_le in Esk. lia.
        + destruct (Hunsk p Ht Esk) as [Ed Ecm].
          rewrite (@hitc_root shape cx cy cz s p Hag Ht).
          destruct (colmax (Fv p) cz (cz + s) =? 0) eqn:Eh.
          * apply Z.eqb_eq in Eh. apply Inv_lower_empty with (lvl := cz + s); try lia; assumption.
          * apply Z.eqb_neq in Eh.
            destruct (colmax_range (Fv p) (lo := cz) (hi := cz + s) ltac:(lia)) as [|Hr]; [lia|].
            split.
            -- left. simpl g_depth. rewrite (@CM_split p cz (cz + s)) by lia.
               rewrite Ecm. reflexivity.
            -- intros _. simpl g_depth. simpl g_normal.
               replace (colmax (Fv p) cz (cz + s) =? 0) with false
                 by (symmetry; now apply Z.eqb_neq).
               apply in_tile_true in Ht. simpl in Ht.
               apply (Hag (fst p, snd p, colmax (Fv p) cz (cz + s) - 1)).
               unfold in_cbox3, px3, py3, pz3. simpl. lia.
    Qed.

    Lemma forallb_false_exists A (f : A -> bool) l :
      forallb f l = false -> exists a, In a l /\ f a = false.
    Proof.
      induction l as [|a l IH]; simpl; [discriminate|].
      destruct (f a) eqn:E; [|intros _; exists a; auto].
      intros H. destruct (IH H) as (b & Hb & Hf). exists b. auto.
    Qed.

    Lemma early_exit_false cx cy s fill_z (st : wst) :
      tile_in_root t0 rx ry (cx, cy) s ->
      forallb (fun y =>
           let i := pixel_offset t0 (cx + 0, cy + y) in
           forallb (fun x => fill_z <=? dat (w_out st) (i + x)) (zrange s))
           (zrange s) = false ->
      exists p, in_tile (cx, cy) s p = true /\ bdom p /\ g_depth (gatp st p) < fill_z.
    Proof.
      intros Hin H. apply forallb_false_exists in H. destruct H as (y & Hy & H).
      apply forallb_false_exists in H. destruct H as (x & Hx & H).
      apply zrange_In in Hx, Hy. rewrite off_row with (s := s) in H by assumption.
      apply Z.leb_gt in H. exists (cx + x, cy + y). split; [apply in_tile_true; simpl; lia|].
      split; [unfold Render2Sound.bdom, tile_in_root in *; simpl in *; lia|exact H].
    Qed.

    Lemma rtr_cons s rest shape cx cy cz (st : wst) :
      rtr t0 (s :: rest) shape (cx, cy, cz) st =
      let fill_z := cz + s + 1 in
      if forallb (fun y =>
           let i := pixel_offset t0 (cx + 0, cy + y) in
           forallb (fun x => fill_z <=? dat (w_out st) (i + x)) (zrange s))
           (zrange s)
      then (st, false)
      else
        let '(i, tr) := ieval shape (cx, cy, cz) s in
        if i_upper_neg i then
          (mkW (fold_left (fun out y =>
                  let i := pixel_offset t0 (cx + 0, cy + y) in
                  fold_left (fun out x =>
                    let old := znth out (i + x) gdef in
                    upd out (i + x) (mkG (Z.max (g_depth old) fill_z) (g_normal old)))
                    (zrange s) out)
                  (zrange s) (w_out st)) (w_ok st), false)
        else if i_lower_pos i then (st, true)
        else
          let sub_tape := match tr with Some tr => simplify shape tr | None => shape end in
          match rest with
          | next :: _ =>
              let n := s / next in
              (fold_left (fun st j =>
                 fold_left (fun st i =>
                   fold_left (fun st k =>
                     fst (rtr t0 rest sub_tape (cx + i * next, cy + j * next, cz + k * next) st))
                     (rev (zrange n)) st)
                   (zrange n) st)
                 (zrange n) st, true)
          | [] => (rtp t0 sub_tape s (cx, cy, cz) st, true)
          end.
    Proof. reflexivity. Qed.

    (* the z-descending loop over the sub-tiles of one (i,j) column *)
    Lemma kloop (stepk : wst -> Z -> wst) (foot : Z * Z -> bool) cz next (m : nat) :
      (forall k st, 0 <= k < Z.of_nat m -> ggood st ->
         (forall p, bdom p -> foot p = true -> Inv p (cz + (k + 1) * next) (gatp st p)) ->
         gstep (fun p => Inv p (cz + k * next)) foot st (stepk st k)) ->
      forall st, ggood st ->
        (forall p, bdom p -> foot p = true -> Inv p (cz + Z.of_nat m * next) (gatp st p)) ->
        gstep (fun p => Inv p cz) foot st (fold_left stepk (rev (zrange (Z.of_nat m))) st).
    Proof.
      induction m as [|m IH]; intros Hstep st Hg Hpre.
      - simpl. split; [exact Hg|]. intros p Hp. split; [|reflexivity].
        intros Hf. specialize (Hpre p Hp Hf). now rewrite Z.mul_0_l, Z.add_0_r in Hpre.
      - rewrite Nat2Z.inj_succ. unfold Z.succ. rewrite zrange_succ by lia.
        rewrite rev_app_distr. simpl rev. simpl app. simpl fold_left.
        destruct (Hstep (Z.of_nat m) st ltac:(lia) Hg) as [Hg1 H1].
        { intros p Hp Hf. specialize (Hpre p Hp Hf).
          now rewrite Nat2Z.inj_succ in Hpre. }
        destruct (IH ltac:(intros k st' Hk; apply Hstep; lia) (stepk st (Z.of_nat m)) Hg1)
          as [Hg2 H2].
        { intros p Hp Hf. now apply H1. }
        split; [exact Hg2|]. intros p Hp. split.
        + intros Hf. now apply H2.
        + intros Hf. rewrite (proj2 (H2 p Hp) Hf). now apply H1.
    Qed.

    (* Worker::render_tile_recurse *)
    Lemma recurse_ok sizes :
      chain sizes -> sizes <> [] ->
      forall shape cx cy cz (st : wst),
        let s := hd 0 sizes in
        tile_in_root t0 rx ry (cx, cy) s -> 0 <= cz -> cz + s <= ztop ->
        agree3 shape (cx, cy, cz) s -> ggood st ->
        (forall p, bdom p -> in_tile (cx, cy) s p = true -> Inv p (cz + s) (gatp st p)) ->
        let r := rtr t0 sizes shape (cx, cy, cz) st in
        gstep (fun p => Inv p cz) (in_tile (cx, cy) s) st (fst r) /\
        (snd r = false ->
         forall p, bdom p -> in_tile (cx, cy) s p = true -> cz + s + 1 <= g_depth (gatp (fst r) p)).
    Proof.
      induction sizes as [|s rest IH]; intros Hch Hne shape cx cy cz st; [congruence|].
      cbv zeta. simpl hd. intros Hin Hcz Htop Hag Hg Hpre.
      destruct Hch as (Hs & Hnext & Hch').
      rewrite rtr_cons. cbv zeta.
      destruct (forallb _ (zrange s)) eqn:EE.
      { (* early exit *)
        rewrite early_exit_iff in EE by exact Hin. simpl fst. simpl snd.
        split; [|intros _ p _ Hp; now apply EE].
        split; [exact Hg|]. intros p Hp. split; [|reflexivity]. intros Ht.
        apply Inv_lower_pos with (lvl := cz + s); try lia; [now apply Hpre|].
        specialize (EE p Ht). lia. }
      pose proof (agree3_sub Hag) as Hsub.
      destruct (ieval shape (cx, cy, cz) s) as [i tr] eqn:E. simpl snd in Hsub.
      assert (Hcol : forall p z, in_tile (cx, cy) s p = true -> cz <= z <= cz + s ->
                                 in_cbox3 (cx, cy, cz) s (fst p, snd p, z)).
      { intros p z Hp Hz. apply in_tile_true in Hp. simpl in Hp.
        unfold in_cbox3, px3, py3, pz3. simpl. lia. }
      destruct (i_upper_neg i) eqn:Un.
      { (* whole tile is inside the shape *)
        assert (Hneg : forall p z, in_tile (cx, cy) s p = true -> cz <= z <= cz + s -> Fv p z = true).
        { intros p z Hp Hz. unfold Fv. rewrite <- (proj1 (Hag _ (Hcol p z Hp Hz))).
          apply (@H_encl_neg shape (cx, cy, cz) s _ (Hcol p z Hp Hz)). now rewrite E. }
        destruct Hg as [Hok Hlen].
        destruct (@fill_ok cx cy s (cz + s + 1) st Hin Hlen) as [Hg' Hf].
        simpl fst. simpl snd.
        assert (Hval : forall p, bdom p -> in_tile (cx, cy) s p = true ->
                  gatp (mkW (fold_left (fun out y =>
                     fold_left (fun out x =>
                       upd out (pixel_offset t0 (cx + 0, cy + y) + x)
                         (mkG (Z.max (g_depth (znth out (pixel_offset t0 (cx + 0, cy + y) + x) gdef))
                                     (cz + s + 1))
                              (g_normal (znth out (pixel_offset t0 (cx + 0, cy + y) + x) gdef))))
                       (zrange s) out) (zrange s) (w_out st)) (w_ok st)) p
                  = mkG (Z.max (g_depth (gatp st p)) (cz + s + 1)) (g_normal (gatp st p))).
        { intros p Hp Ht. exact (proj1 (Hf p Hp) Ht). }
        split.
        - split; [split; [exact Hok|exact Hg']|]. intros p Hp. split.
          + intros Ht. rewrite (Hval p Hp Ht).
            pose proof (Hpre p Hp Ht) as HI0.
            destruct (Z_lt_le_dec (cz + s) ztop) as [Hlt|Hge].
            * (* below the top: the fill changes nothing *)
              assert (Hcm : cz + s + 1 <= CM p (cz + s)).
              { apply colmax_ge; try lia. apply Hneg; [exact Ht|lia]. }
              assert (Hd : cz + s + 1 <= g_depth (gatp st p)).
              { destruct HI0 as [[Ed|[S1 S2]] _]; lia. }
              rewrite Z.max_l by lia.
              replace (mkG (g_depth (gatp st p)) (g_normal (gatp st p))) with (gatp st p)
                by (destruct (gatp st p); reflexivity).
              apply Inv_lower_pos with (lvl := cz + s); try lia. exact HI0.
            * (* the top of the stack of root tiles: saturated *)
              assert (Hcm : ztop <= CM p cz).
              { replace ztop with (ztop - 1 + 1) at 1 by lia.
                apply colmax_ge; try lia. apply Hneg; [exact Ht|lia]. }
              split.
              -- right. simpl g_depth. lia.
              -- intros Hle. simpl g_depth in Hle. lia.
          + intros Ht. exact (proj2 (Hf p Hp) Ht).
        - intros _ p Hp Ht. rewrite (Hval p Hp Ht). simpl g_depth. lia. }
      destruct (i_lower_pos i) eqn:Lp.
      { (* whole tile is outside the shape *)
        simpl fst. simpl snd. split; [|discriminate].
        split; [exact Hg|]. intros p Hp. split; [|reflexivity]. intros Ht.
        apply Inv_lower_empty with (lvl := cz + s); try lia; [now apply Hpre|].
        apply colmax_zero_iff; [lia|]. intros z Hz. unfold Fv.
        rewrite <- (proj1 (Hag _ (Hcol p z Ht ltac:(lia)))).
        apply H_posv.
        apply (@H_encl_pos shape (cx, cy, cz) s _ (Hcol p z Ht ltac:(lia))). now rewrite E. }
      (* ambiguous: recurse or evaluate voxels *)
      destruct rest as [|next rest'].
      { simpl fst. simpl snd. split; [|discriminate].
        apply pixels_ok; try assumption.
        apply early_exit_false; assumption. }
      destruct Hnext as [Hlt Hmod].
      assert (Hnpos : 0 < next) by (simpl in Hch'; tauto).
      set (n := s / next).
      assert (Hsn : s = n * next).
      { subst n. pose proof (Z.div_mod s next ltac:(lia)). lia. }
      assert (Hn0 : 0 < n) by nia.
      cbv zeta. fold n. simpl fst. simpl snd. split; [|discriminate].
      eapply step_ok_ext; [intros p _; apply (@existsb_subtiles (cx, cy) s next n p Hnpos Hsn)|].
      apply fold_regions with (Pre := fun p => Inv p (cz + s))
        (R := fun j p => existsb (fun i => in_tile (fst (cx, cy) + i * next, snd (cx, cy) + j * next) next p)
                                 (zrange n)).
      - apply disj_of_NoDup; [apply zrange_NoDup|].
        intros j j' p _ _ _ H1 H2.
        apply existsb_exists in H1, H2. destruct H1 as (i1 & _ & H1), H2 as (i2 & _ & H2).
        apply in_tile_true in H1, H2. simpl in H1, H2. nia.
      - intros j st1 Hj Hg1 Hpre1. apply zrange_In in Hj.
        apply fold_regions with (Pre := fun p => Inv p (cz + s))
          (R := fun i p => in_tile (fst (cx, cy) + i * next, snd (cx, cy) + j * next) next p).
        + apply disj_of_NoDup; [apply zrange_NoDup|].
          intros i1 i2 p _ _ _ H1 H2. apply in_tile_true in H1, H2. simpl in H1, H2. nia.
        + intros i' st2 Hi Hg2 Hpre2. apply zrange_In in Hi. simpl fst. simpl snd.
          replace n with (Z.of_nat (Z.to_nat n)) at 1 by lia.
          apply kloop with (next := next)
            (stepk := fun st k =>
               fst (rtr t0 (next :: rest') (match tr with Some tr => simplify shape tr | None => shape end)
                        (cx + i' * next, cy + j * next, cz + k * next) st)).
          * intros k st3 Hk Hg3 Hpre3.
            apply (IH Hch' ltac:(discriminate)); simpl hd.
            -- unfold tile_in_root in *. simpl in *. nia.
            -- nia.
            -- nia.
            -- eapply agree3_mono; [exact Hsub|unfold px3, py3, pz3; simpl..]; nia.
            -- exact Hg3.
            -- intros p Hp Ht. replace (cz + k * next + next) with (cz + (k + 1) * next) by lia.
               now apply Hpre3.
          * exact Hg2.
          * intros p Hp Ht. rewrite Z2Nat.id by lia. rewrite <- Hsn. now apply Hpre2.
        + exact Hg1.
        + intros p Hp Hex. apply Hpre1; assumption.
      - exact Hg.
      - intros p Hp Hex. apply Hpre; [exact Hp|].
        now rewrite <- (@existsb_subtiles (cx, cy) s next n p Hnpos Hsn).
    Qed.

    (* the `for k in (0..).rev()` loop of Worker::render_tile, with its `break` *)
    Lemma root_loop_ok sizes :
      chain sizes -> sizes <> [] -> hd 0 sizes = t0 ->
      forall (m : nat) (st : wst),
        Z.of_nat m * t0 <= ztop -> ggood st ->
        (forall p, bdom p -> Inv p (Z.of_nat m * t0) (gatp st p)) ->
        let st' := root_loop ieval i_upper_neg i_lower_pos simplify feval neg geval g_zero
                     t0 sizes root (rx, ry) (rev (zrange (Z.of_nat m))) st in
        ggood st' /\ forall p, bdom p -> Inv p 0 (gatp st' p).
    Proof.
      intros Hch Hne Hhd. induction m as [|m IH]; intros st Hle Hg Hpre; cbv zeta.
      - simpl. split; [exact Hg|]. intros p Hp. now apply Hpre.
      - rewrite Nat2Z.inj_succ in *. unfold Z.succ in *. rewrite zrange_succ by lia.
        rewrite rev_app_distr. simpl rev. simpl app. simpl root_loop.
        assert (Hall : forall p, bdom p -> in_tile (rx, ry) t0 p = true).
        { intros p Hp. apply in_tile_true. unfold Render2Sound.bdom in Hp. simpl. lia. }
        destruct (@recurse_ok sizes Hch Hne root rx ry (Z.of_nat m * t0) st) as [[Hg1 H1] Hcont];
          rewrite ?Hhd.
        + unfold tile_in_root. simpl. lia.
        + nia.
        + lia.
        + intros q _. split; reflexivity.
        + exact Hg.
        + intros p Hp _. replace (Z.of_nat m * t0 + t0) with ((Z.of_nat m + 1) * t0) by lia.
          now apply Hpre.
        + rewrite Hhd in *.
          destruct (rtr t0 sizes root (rx, ry, Z.of_nat m * t0) st) as [st1 cont].
          simpl fst in *. simpl snd in *. destruct cont.
          * apply IH; [lia|exact Hg1|]. intros p Hp. apply H1; auto.
          * split; [exact Hg1|]. intros p Hp.
            apply Inv_lower_pos with (lvl := Z.of_nat m * t0); try nia.
            -- apply H1; auto.
            -- specialize (Hcont eq_refl p Hp (Hall p Hp)). nia.
    Qed.
  End RootTile3.

  (** ** Worker::render_tile *)

  Lemma div_ceil_ge a b : 0 < b -> 0 <= a -> a <= div_ceil a b * b.
  Proof.
    intros Hb Ha. unfold div_ceil.
    pose proof (Z.div_mod a b ltac:(lia)). pose proof (Z.mod_pos_bound a b Hb).
    destruct (0 <? a mod b) eqn:E; [nia|]. apply Z.ltb_ge in E. nia.
  Qed.

  Lemma render_tile3_ok sizes d rx ry :
    chain sizes -> sizes <> [] -> 0 < d ->
    let t0 := hd 0 sizes in
    let ztop := div_ceil d t0 * t0 in
    rx mod t0 = 0 -> ry mod t0 = 0 ->
    let st := render_tile ieval i_upper_neg i_lower_pos simplify feval neg geval g_zero
                sizes d root (rx, ry) in
    ggood t0 st /\ forall p, bdom t0 rx ry p -> Inv ztop p 0 (gat t0 st p).
  Proof.
    intros Hch Hne Hd t0 ztop Hrx Hry st.
    assert (Ht0 : 0 < t0) by (subst t0; destruct sizes; [congruence|simpl in *; tauto]).
    assert (Hk : 0 < div_ceil d t0).
    { destruct (@div_ceil_cover d t0 0 Ht0 ltac:(lia)). lia. }
    assert (Hztop : 0 < ztop) by (subst ztop; nia).
    unfold st, render_tile. fold t0.
    replace (div_ceil d t0) with (Z.of_nat (Z.to_nat (div_ceil d t0))) by lia.
    apply (@root_loop_ok t0 rx ry Ht0 Hrx Hry ztop Hztop sizes Hch Hne eq_refl).
    - subst ztop. lia.
    - split; [reflexivity|]. simpl w_out. apply zlength_repeat. nia.
    - intros p Hp. unfold gat. simpl w_out.
      rewrite znth_repeat by (destruct (pixel_offset_in_bounds Ht0 Hrx Hry Hp); lia).
      rewrite Z2Nat.id by lia. fold ztop. split.
      + left. simpl. unfold CM. now rewrite colmax_empty.
      + intros _. reflexivity.
  Qed.

  (** ** The merge loop of voxel::render ([old = true]: before repair d2ae9d5) *)
  Section Assemble3.
    Variable old : bool.
    Variables t0 w h d ztop : Z.
    Hypothesis Ht0 : 0 < t0.
    Hypothesis Hw : 0 < w.
    Hypothesis Hh : 0 < h.
    Hypothesis Hd : 0 < d.
    Hypothesis Hdz : d <= ztop.

    Notation idom := (idom w h).
    Definition iat3 (img : list gp) (p : Z * Z) : gp := znth img (snd p * w + fst p) gdef.
    Definition igood3 (img : list gp) : Prop := zlength img = w * h.

    Notation bpix := (brute3_pixel_gen feval neg geval g_zero g_up old root d ztop).
    Definition Post3 (p : Z * Z) (px : gp) : Prop := px = bpix (fst p) (snd p).
    Definition Pre3 (p : Z * Z) (px : gp) : Prop := px = gdef.

    Notation istep3 := (step_ok iat3 igood3 idom Post3).

    Lemma upd_istep3 img q v :
      igood3 img -> idom q -> Post3 q v ->
      istep3 (fun p => peqb p q) img (upd img (snd q * w + fst q) v).
    Proof.
      intros Hg Hq Hv. unfold Render2Sound.idom in Hq. split.
      - unfold igood3 in *. now rewrite zlength_upd.
      - intros p Hp. unfold Render2Sound.idom in Hp. split.
        + intros E. apply peqb_true in E. subst p. unfold iat3.
          rewrite znth_upd_eq; [exact Hv|]. rewrite Hg. nia.
        + intros E. unfold iat3. apply znth_upd_neq. intros Heq.
          destruct p as [px py], q as [qx qy]. simpl in *.
          assert (py = qy) by nia. assert (px = qx) by nia. subst.
          unfold peqb in E. simpl in E. rewrite !Z.eqb_refl in E. discriminate.
    Qed.

    (* the clamp (either version) applied to a finished tile pixel gives the
       brute-force pixel (same version) *)
    Definition clamp_pixel (px : gp) : gp :=
      if old then (if d - 1 <=? g_depth px then mkG (d - 1 + 1) g_up else px)
      else (if d <=? g_depth px then mkG d g_up else px).

    Lemma final_pixel p px : Inv ztop p 0 px -> clamp_pixel px = bpix (fst p) (snd p).
    Proof.
      intros [Hdq Hn]. unfold clamp_pixel, brute3_pixel_gen, heightmap.
      change (colmax (fun z => neg (feval root (fst p, snd p, z))) 0 ztop) with (CM ztop p 0).
      set (thr := if old then d - 1 else d).
      assert (Hthr : thr <= d) by (subst thr; destruct old; lia).
      assert (Hcl : (if old then (if d - 1 <=? g_depth px then mkG (d - 1 + 1) g_up else px)
                     else (if d <=? g_depth px then mkG d g_up else px))
                    = if thr <=? g_depth px then mkG d g_up else px).
      { subst thr. destruct old; [|reflexivity].
        destruct (d - 1 <=? g_depth px); [f_equal; lia|reflexivity]. }
      rewrite Hcl. clear Hcl.
      destruct Hdq as [E|[S1 S2]].
      - rewrite <- E. destruct (thr <=? g_depth px) eqn:C; [reflexivity|].
        apply Z.leb_gt in C. specialize (Hn ltac:(lia)).
        destruct px as [dp nm]. simpl in *. rewrite Hn.
        destruct (dp =? 0) eqn:Z0; [|reflexivity]. apply Z.eqb_eq in Z0. rewrite Z0. reflexivity.
      - replace (thr <=? g_depth px) with true by (symmetry; apply Z.leb_le; lia).
        replace (thr <=? CM ztop p 0) with true by (symmetry; apply Z.leb_le; lia).
        reflexivity.
    Qed.

    Definition tile_data_ok3 (td : (Z * Z) * wst) : Prop :=
      (exists i j, 0 <= i /\ 0 <= j /\ fst td = (i * t0, j * t0)) /\
      w_ok (snd td) = true /\
      forall i j, 0 <= i < t0 -> 0 <= j < t0 ->
        Inv ztop (fst (fst td) + i, snd (fst td) + j) 0
            (znth (w_out (snd td)) (j * t0 + i) gdef).

    Lemma assemble_tile3_ok tile wstt img :
      tile_data_ok3 (tile, wstt) -> igood3 img ->
      (forall p, idom p -> in_tile tile t0 p = true -> Pre3 p (iat3 img p)) ->
      istep3 (in_tile tile t0) img
        (fold_left (fun image j =>
           let y := j + snd tile in
           fold_left (fun image i =>
             let x := i + fst tile in
             let index := j * t0 + i in
             if (x <? w) && (y <? h) then
               let o := y * w + x in
               let px := znth (w_out wstt) index gdef in
               if g_depth (znth image o gdef) <=? g_depth px then
                 if old then
                   let d' := d - 1 in
                   if d' <=? g_depth px
                   then upd image o (mkG (d' + 1) g_up)
                   else upd image o px
                 else
                   let d' := d in
                   if d' <=? g_depth px
                   then upd image o (mkG d' g_up)
                   else upd image o px
               else image
             else image)
             (zrange t0) image)
           (zrange t0) img).
    Proof.
      intros [(ti & tj & Hti & Htj & Htile) [_ Hdata]] Hg Hpre. simpl in Htile, Hdata.
      cbv zeta.
      apply grid_loop with (Pre := Pre3)
        (stepf := fun image j i =>
           if (i + fst tile <? w) && (j + snd tile <? h) then
             if g_depth (znth image ((j + snd tile) * w + (i + fst tile)) gdef)
                <=? g_depth (znth (w_out wstt) (j * t0 + i) gdef) then
               if old then
                 if d - 1 <=? g_depth (znth (w_out wstt) (j * t0 + i) gdef)
                 then upd image ((j + snd tile) * w + (i + fst tile)) (mkG (d - 1 + 1) g_up)
                 else upd image ((j + snd tile) * w + (i + fst tile))
                          (znth (w_out wstt) (j * t0 + i) gdef)
               else
                 if d <=? g_depth (znth (w_out wstt) (j * t0 + i) gdef)
                 then upd image ((j + snd tile) * w + (i + fst tile)) (mkG d g_up)
                 else upd image ((j + snd tile) * w + (i + fst tile))
                          (znth (w_out wstt) (j * t0 + i) gdef)
             else image
           else image).
      - intros st i j Hi Hj Hg' Hpre'.
        destruct ((i + fst tile <? w) && (j + snd tile <? h)) eqn:C.
        + apply andb_true_iff in C. destruct C as [Cx Cy]. apply Z.ltb_lt in Cx, Cy.
          assert (Hdm : idom (fst tile + i, snd tile + j)).
          { subst tile. unfold Render2Sound.idom. simpl in *. nia. }
          specialize (Hpre' Hdm). unfold Pre3, iat3 in Hpre'. simpl fst in Hpre'. simpl snd in Hpre'.
          replace ((j + snd tile) * w + (i + fst tile)) with ((snd tile + j) * w + (fst tile + i)) by lia.
          rewrite Hpre'. simpl g_depth.
          pose proof (Hdata i j Hi Hj) as HI.
          assert (Hzt : 0 < ztop) by lia.
          pose proof (Inv_depth_nonneg Hzt (Z.le_refl 0) HI) as Hnn.
          replace (0 <=? g_depth (znth (w_out wstt) (j * t0 + i) gdef)) with true
            by (symmetry; apply Z.leb_le; exact Hnn).
          pose proof (final_pixel HI) as Hfin. unfold clamp_pixel in Hfin.
          simpl fst in Hfin. simpl snd in Hfin.
          change ((snd tile + j) * w + (fst tile + i))
            with (snd (fst tile + i, snd tile + j) * w + fst (fst tile + i, snd tile + j)).
          set (pxv := znth (w_out wstt) (j * t0 + i) gdef) in *.
          set (o := snd (fst tile + i, snd tile + j) * w + fst (fst tile + i, snd tile + j)).
          assert (Hup : (if old
                         then if d - 1 <=? g_depth pxv then upd st o (mkG (d - 1 + 1) g_up)
                              else upd st o pxv
                         else if d <=? g_depth pxv then upd st o (mkG d g_up)
                              else upd st o pxv)
                        = upd st o (if old
                                    then (if d - 1 <=? g_depth pxv then mkG (d - 1 + 1) g_up else pxv)
                                    else (if d <=? g_depth pxv then mkG d g_up else pxv))).
          { clear. destruct old; [destruct (d - 1 <=? g_depth pxv)|destruct (d <=? g_depth pxv)];
              reflexivity. }
          rewrite Hup. subst o.
          apply upd_istep3; [exact Hg'|exact Hdm|unfold Post3; simpl; exact Hfin].
        + split; [exact Hg'|]. intros p Hp. split; [|reflexivity].
          intros E. apply peqb_true in E. subst p. unfold Render2Sound.idom in Hp. simpl in Hp.
          apply andb_false_iff in C. rewrite !Z.ltb_ge in C. lia.
      - exact Hg.
      - exact Hpre.
    Qed.

    Lemma assemble3_ok tiles :
      NoDup (map fst tiles) ->
      (forall td, In td tiles -> tile_data_ok3 td) ->
      istep3 (fun p => existsb (fun td => in_tile (fst td) t0 p) tiles)
        (repeat gdef (Z.to_nat (w * h)))
        (assemble3_gen g_zero g_up old t0 w h d tiles).
    Proof.
      intros Hnd Hok. unfold assemble3_gen.
      apply fold_regions with (Pre := Pre3) (R := fun td p => in_tile (fst td) t0 p).
      - apply disj_of_NoDup_key with (key := @fst (Z * Z) wst); [exact Hnd|].
        intros td td' p H1 H2 _ Hp1 Hp2.
        destruct (Hok td H1) as [(i1 & j1 & ? & ? & E1) _].
        destruct (Hok td' H2) as [(i2 & j2 & ? & ? & E2) _].
        apply in_tile_true in Hp1, Hp2. rewrite E1 in Hp1. rewrite E2 in Hp2. simpl in *.
        assert (i1 = i2) by nia. assert (j1 = j2) by nia. subst. congruence.
      - intros [tile data] st Hin Hg Hpre. apply assemble_tile3_ok; [now apply Hok|exact Hg|exact Hpre].
      - unfold igood3. apply zlength_repeat. nia.
      - intros p Hp _. unfold Pre3, iat3. apply znth_repeat.
        unfold Render2Sound.idom in Hp. nia.
    Qed.
  End Assemble3.

  (** ** voxel::render *)

  Notation render3_gen' :=
    (render3_full_gen ieval i_upper_neg i_lower_pos simplify feval neg geval g_zero g_up).
  Notation render3_full' :=
    (render3_full ieval i_upper_neg i_lower_pos simplify feval neg geval g_zero g_up).
  Notation render3_full_old' :=
    (render3_full_old ieval i_upper_neg i_lower_pos simplify feval neg geval g_zero g_up).
  Notation brute3_gen' := (brute3_gen feval neg geval g_zero g_up).
  Notation brute3' := (brute3 feval neg geval g_zero g_up).
  Notation brute3_old' := (brute3_old feval neg geval g_zero g_up).
  Notation hmap := (heightmap feval neg root).

  (* top of the padded grid: the root tiles are stacked up to ceil(d/t0)*t0 *)
  Definition ztop_of (tiles : list Z) (w h d : Z) : Z :=
    let t0 := hd 0 (tile_sizes_ref tiles (Z.max w h)) in div_ceil d t0 * t0.

  Lemma znth_brute3_gen old tiles w h d x y :
    0 < w -> 0 <= x < w -> 0 <= y < h ->
    znth (brute3_gen' old tiles w h d root) (y * w + x) gdef
    = brute3_pixel_gen feval neg geval g_zero g_up old root d (ztop_of tiles w h d) x y.
  Proof.
    intros Hw Hx Hy. unfold brute3_gen.
    erewrite znth_map with (d' := 0).
    - rewrite znth_zrange by nia.
      rewrite Z.add_comm, Z_mod_plus_full, Z.mod_small by lia.
      rewrite Z.div_add by lia. rewrite Z.div_small by lia. reflexivity.
    - unfold zlength. rewrite zrange_length. nia.
  Qed.

  (* both versions of the merge loop at once *)
  Theorem render3_gen_correct old tiles w h d :
    ts_valid tiles -> 0 < w -> 0 < h -> 0 < d ->
    render3_gen' old tiles w h d root = (brute3_gen' old tiles w h d root, true).
  Proof.
    intros Hv Hw Hh Hd.
    destruct (tile_sizes_ref_chain (Z.max w h) Hv) as (Hne & Hch & Ht0).
    unfold render3_full_gen.
    set (sizes := tile_sizes_ref tiles (Z.max w h)) in *.
    set (t0 := hd 0 sizes) in *.
    set (ztop := div_ceil d t0 * t0).
    assert (Hdz : d <= ztop) by (apply div_ceil_ge; lia).
    set (rendered := render_tiles ieval i_upper_neg i_lower_pos simplify feval neg geval g_zero
                       sizes w h d root).
    assert (Hdata : forall td, In td rendered -> tile_data_ok3 t0 ztop td).
    { intros td Hin. apply in_map_iff in Hin. destruct Hin as (tile & <- & Hin).
      apply root_tiles_In in Hin. destruct Hin as (i & j & Hi & Hj & ->).
      assert (Hrx : (i * t0) mod t0 = 0) by apply Z_mod_mult.
      assert (Hry : (j * t0) mod t0 = 0) by apply Z_mod_mult.
      destruct (@render_tile3_ok sizes d (i * t0) (j * t0) Hch Hne Hd Hrx Hry) as [[Hok Hlen] Hp].
      fold t0 in Hp, Hok, Hlen. fold ztop in Hp.
      split; [exists i, j; simpl; repeat split; lia|]. simpl fst. simpl snd.
      split; [exact Hok|]. intros a b Ha Hb.
      assert (Hdm : Render2Sound.bdom t0 (i * t0) (j * t0) (i * t0 + a, j * t0 + b))
        by (unfold Render2Sound.bdom; simpl; lia).
      specialize (Hp _ Hdm). unfold gat in Hp.
      rewrite (pixel_offset_root Ht0 Hrx Hry Hdm) in Hp. simpl in Hp.
      replace (i * t0 + a - i * t0 + (j * t0 + b - j * t0) * t0) with (b * t0 + a) in Hp by lia.
      exact Hp. }
    f_equal.
    - destruct (@assemble3_ok old t0 w h d ztop Ht0 Hw Hh Hd Hdz rendered) as [Hg H].
      + unfold rendered, render_tiles. rewrite map_map. simpl. rewrite map_id.
        now apply root_tiles_NoDup.
      + exact Hdata.
      + apply list_ext_znth with (d := gdef).
        * unfold igood3 in Hg. unfold brute3_gen, zlength in *.
          rewrite map_length, zrange_length. lia.
        * intros i Hi. unfold igood3 in Hg. rewrite Hg in Hi.
          pose proof (Z.div_mod i w ltac:(lia)) as Hdm. pose proof (Z.mod_pos_bound i w Hw) as Hm.
          assert (Hy : 0 <= i / w < h).
          { split; [apply Z.div_pos; lia|apply Z.div_lt_upper_bound; lia]. }
          replace i with (i / w * w + i mod w) by lia.
          rewrite znth_brute3_gen by assumption.
          assert (Hd' : idom w h (i mod w, i / w)) by (unfold idom; simpl; lia).
          destruct (H _ Hd') as [Hok _]. unfold Post3, iat3 in Hok. simpl fst in Hok. simpl snd in Hok.
          apply Hok. apply existsb_exists.
          set (x := i mod w) in *. set (y := i / w) in *.
          exists ((x / t0 * t0, y / t0 * t0),
                  render_tile ieval i_upper_neg i_lower_pos simplify feval neg geval g_zero
                    sizes d root (x / t0 * t0, y / t0 * t0)).
          split.
          -- apply in_map_iff. exists (x / t0 * t0, y / t0 * t0). split; [reflexivity|].
             apply root_tiles_In. exists (x / t0), (y / t0).
             split; [apply div_ceil_cover; lia|]. split; [apply div_ceil_cover; lia|reflexivity].
          -- apply in_tile_true. simpl.
             pose proof (Z.div_mod x t0 ltac:(lia)). pose proof (Z.mod_pos_bound x t0 Ht0).
             pose proof (Z.div_mod y t0 ltac:(lia)). pose proof (Z.mod_pos_bound y t0 Ht0). nia.
    - apply forallb_forall. intros td Hin. apply (Hdata td Hin).
  Qed.

  (* MAIN THEOREM (3D, current code): the rendered image IS the brute-force
     image (per-voxel evaluation of the root tape over the padded grid, then
     the code's clamp), and no assertion of the worker fails. *)
  Theorem render3_correct tiles w h d :
    ts_valid tiles -> 0 < w -> 0 < h -> 0 < d ->
    render3_full' tiles w h d root = (brute3' tiles w h d root, true).
  Proof. apply render3_gen_correct. Qed.

  (* the same for the merge loop before the repair d2ae9d5 *)
  Theorem render3_old_correct tiles w h d :
    ts_valid tiles -> 0 < w -> 0 < h -> 0 < d ->
    render3_full_old' tiles w h d root = (brute3_old' tiles w h d root, true).
  Proof. apply render3_gen_correct. Qed.

  (** ** Consequences, pixel by pixel *)

  Section Pixelwise.
    Variables (tiles : list Z) (w h d : Z).
    Hypothesis Hv : ts_valid tiles.
    Hypothesis Hw : 0 < w.
    Hypothesis Hh : 0 < h.
    Hypothesis Hd : 0 < d.
    Variables x y : Z.
    Hypothesis Hx : 0 <= x < w.
    Hypothesis Hy : 0 <= y < h.

    Notation ztop := (ztop_of tiles w h d).
    Notation px := (znth (fst (render3_full' tiles w h d root)) (y * w + x) gdef).
    Notation px_old := (znth (fst (render3_full_old' tiles w h d root)) (y * w + x) gdef).

    Lemma render3_pixel :
      px = brute3_pixel feval neg geval g_zero g_up root d ztop x y.
    Proof. rewrite render3_correct by assumption. simpl fst. now apply znth_brute3_gen. Qed.

    Lemma render3_old_pixel :
      px_old = brute3_pixel_gen feval neg geval g_zero g_up true root d ztop x y.
    Proof. rewrite render3_old_correct by assumption. simpl fst. now apply znth_brute3_gen. Qed.

    Lemma ztop_ge : d <= ztop.
    Proof.
      destruct (tile_sizes_ref_chain (Z.max w h) Hv) as (_ & _ & Ht0).
      unfold ztop_of. apply div_ceil_ge; lia.
    Qed.

    (* UNCONDITIONAL: depth = clamp_up (heightmap over the padded grid [0, ztop)) *)
    Theorem render3_depth_general : g_depth px = clamp_up d (hmap ztop x y).
    Proof.
      rewrite render3_pixel. unfold brute3_pixel, brute3_pixel_gen, clamp_up.
      destruct (d <=? hmap ztop x y); [reflexivity|].
      destruct (hmap ztop x y =? 0) eqn:E; [|reflexivity]. apply Z.eqb_eq in E. now rewrite E.
    Qed.

    Theorem render3_normal_general :
      g_normal px =
      if d <=? hmap ztop x y then g_up
      else if hmap ztop x y =? 0 then g_zero
      else geval root (x, y, hmap ztop x y - 1).
    Proof.
      rewrite render3_pixel. unfold brute3_pixel, brute3_pixel_gen.
      destruct (d <=? hmap ztop x y); [reflexivity|].
      destruct (hmap ztop x y =? 0); reflexivity.
    Qed.

    (* the shape is non-negative at the voxels of this column that stick out
       above the grid, z in [d, ztop) *)
    Definition nonneg_above : Prop :=
      forall z, d <= z < ztop -> neg (feval root (x, y, z)) = false.

    Lemma heightmap_padded : nonneg_above -> hmap ztop x y = hmap d x y.
    Proof.
      intros Hna. unfold heightmap. pose proof ztop_ge.
      rewrite (@colmax_split _ 0 d ztop) by lia.
      replace (colmax (fun z => neg (feval root (x, y, z))) d ztop) with 0; [reflexivity|].
      symmetry. apply colmax_zero_iff; [lia|]. exact Hna.
    Qed.

    Lemma heightmap_le : hmap d x y <= d.
    Proof.
      unfold heightmap.
      destruct (colmax_range (fun z => neg (feval root (x, y, z))) (lo := 0) (hi := d) ltac:(lia)); lia.
    Qed.

    Lemma heightmap_nonneg : 0 <= hmap d x y.
    Proof. unfold heightmap. apply colmax_nonneg. lia. Qed.

    (* THE HEIGHTMAP THEOREM: under [nonneg_above] the depth image is EXACTLY
       the brute-force heightmap of the grid, for every column *)
    Theorem render3_heightmap : nonneg_above -> g_depth px = hmap d x y.
    Proof.
      intros Hna. rewrite render3_depth_general, (heightmap_padded Hna). unfold clamp_up.
      pose proof heightmap_le.
      destruct (d <=? hmap d x y) eqn:E; [|reflexivity]. apply Z.leb_le in E. lia.
    Qed.

    (* normals: at a surface pixel (0 < depth < d) the stored normal is the
       gradient of the ROOT tape at the hit voxel (x, y, depth-1) *)
    Theorem render3_normal :
      nonneg_above -> 0 < g_depth px < d -> g_normal px = geval root (x, y, g_depth px - 1).
    Proof.
      intros Hna Hr. rewrite (render3_heightmap Hna) in *.
      rewrite render3_normal_general, (heightmap_padded Hna).
      replace (d <=? hmap d x y) with false by (symmetry; apply Z.leb_gt; lia).
      replace (hmap d x y =? 0) with false by (symmetry; apply Z.eqb_neq; lia).
      reflexivity.
    Qed.

    (* empty columns keep the default normal *)
    Theorem render3_normal_empty :
      nonneg_above -> g_depth px = 0 -> g_normal px = g_zero.
    Proof.
      intros Hna He. rewrite (render3_heightmap Hna) in He.
      rewrite render3_normal_general, (heightmap_padded Hna), He.
      replace (d <=? 0) with false by (symmetry; apply Z.leb_gt; lia). reflexivity.
    Qed.

    (* saturated columns (filled up to the top voxel of the grid) *)
    Theorem render3_normal_saturated :
      nonneg_above -> g_depth px = d -> g_normal px = g_up.
    Proof.
      intros Hna He. rewrite (render3_heightmap Hna) in He.
      rewrite render3_normal_general, (heightmap_padded Hna), He.
      now rewrite Z.leb_refl.
    Qed.

    (* what happens when [nonneg_above] fails: the column is reported as
       saturated, whatever it looks like inside the grid *)
    Theorem render3_above_grid :
      (exists z, d <= z < ztop /\ neg (feval root (x, y, z)) = true) ->
      g_depth px = d /\ g_normal px = g_up.
    Proof.
      intros (z & Hz & Hneg).
      assert (Hge : z + 1 <= hmap ztop x y).
      { unfold heightmap. apply colmax_ge; try lia. exact Hneg. }
      split.
      - rewrite render3_depth_general. unfold clamp_up.
        replace (d <=? hmap ztop x y) with true by (symmetry; apply Z.leb_le; lia). reflexivity.
      - rewrite render3_normal_general.
        replace (d <=? hmap ztop x y) with true by (symmetry; apply Z.leb_le; lia). reflexivity.
    Qed.

    (* [heightmap] really is 1 + max { z in [0,d) | neg (feval root (x,y,z)) } *)
    Lemma heightmap_zero_iff :
      hmap d x y = 0 <-> forall z, 0 <= z < d -> neg (feval root (x, y, z)) = false.
    Proof. unfold heightmap. apply colmax_zero_iff. lia. Qed.

    Lemma heightmap_pos_spec :
      0 < hmap d x y ->
      neg (feval root (x, y, hmap d x y - 1)) = true /\ 0 <= hmap d x y - 1 < d /\
      forall z, hmap d x y <= z < d -> neg (feval root (x, y, z)) = false.
    Proof.
      unfold heightmap. intros Hp.
      apply (@colmax_pos_spec (fun z => neg (feval root (x, y, z))) 0 d ltac:(lia) Hp).
    Qed.

    (** *** the merge loop before the repair d2ae9d5 *)

    Theorem render3_old_depth_general : g_depth px_old = clamp_up_old d (hmap ztop x y).
    Proof.
      rewrite render3_old_pixel. unfold brute3_pixel_gen, clamp_up_old.
      destruct (d - 1 <=? hmap ztop x y); [reflexivity|].
      destruct (hmap ztop x y =? 0) eqn:E; [|reflexivity]. apply Z.eqb_eq in E. now rewrite E.
    Qed.

    Theorem render3_old_normal_general :
      g_normal px_old =
      if d - 1 <=? hmap ztop x y then g_up
      else if hmap ztop x y =? 0 then g_zero
      else geval root (x, y, hmap ztop x y - 1).
    Proof.
      rewrite render3_old_pixel. unfold brute3_pixel_gen.
      destruct (d - 1 <=? hmap ztop x y); [reflexivity|].
      destruct (hmap ztop x y =? 0); reflexivity.
    Qed.

    Theorem render3_old_heightmap :
      nonneg_above -> g_depth px_old = clamp_up_old d (hmap d x y).
    Proof. intros Hna. rewrite render3_old_depth_general. now rewrite heightmap_padded. Qed.

    (* the off-by-one of the old clamp: true height d-1 was reported as d *)
    Theorem render3_old_heightmap_clamp_quirk :
      nonneg_above -> hmap d x y = d - 1 -> g_depth px_old = d /\ g_normal px_old = g_up.
    Proof.
      intros Hna He. split.
      - rewrite (render3_old_heightmap Hna). unfold clamp_up_old. rewrite He.
        now rewrite Z.leb_refl.
      - rewrite render3_old_normal_general, (heightmap_padded Hna), He. now rewrite Z.leb_refl.
    Qed.

    (* the repair changes exactly the columns of padded height d-1 *)
    Theorem render3_old_vs_new :
      hmap ztop x y <> d - 1 -> px_old = px.
    Proof.
      intros Hne. rewrite render3_old_pixel, render3_pixel.
      unfold brute3_pixel, brute3_pixel_gen.
      destruct (d - 1 <=? hmap ztop x y) eqn:E1; destruct (d <=? hmap ztop x y) eqn:E2;
        try reflexivity.
      - apply Z.leb_le in E1. apply Z.leb_gt in E2. lia.
      - apply Z.leb_gt in E1. apply Z.leb_le in E2. lia.
    Qed.
  End Pixelwise.

  (* Early termination (tiles skipped because every pixel already has a depth
     above them), whole-tile fills, tape simplification and the front-to-back
     order are unobservable: [brute3] knows about none of them. *)
  Corollary render3_skipping_unobservable tiles w h d :
    ts_valid tiles -> 0 < w -> 0 < h -> 0 < d ->
    fst (render3_full' tiles w h d root) = brute3' tiles w h d root.
  Proof. intros. now rewrite render3_correct. Qed.

  (* neither `assert!` of render_tile_pixels can fail *)
  Corollary render3_no_panic tiles w h d :
    ts_valid tiles -> 0 < w -> 0 < h -> 0 < d ->
    snd (render3_full' tiles w h d root) = true.
  Proof. intros. now rewrite render3_correct. Qed.
End Sound3.

(** * The hypotheses are satisfiable; refuted statements *)

Module Render3DemoSound.
  Import Render2Demo Render3Demo Render2DemoSound.

  Lemma demo3_encl t c s q :
    in_cbox3 c s q ->
    fst (fst (ieval t c s)) <= feval t q <= snd (fst (ieval t c s)).
  Proof.
    intros (Hx & Hy & Hz). destruct t as [[[a b] c0] r]. destruct c as [[x0 y0] z0].
    destruct q as [[x y] z]. unfold px3, py3, pz3 in *. simpl in Hx, Hy, Hz.
    unfold ieval, feval. simpl fst. simpl snd.
    pose proof (sq_itv_sound a Hx). pose proof (sq_itv_sound b Hy).
    pose proof (sq_itv_sound c0 Hz). lia.
  Qed.

  (* the instance of the main theorem, every hypothesis discharged *)
  Theorem demo_render3_correct ts w h d t :
    ts_valid ts -> 0 < w -> 0 < h -> 0 < d ->
    render ts w h d t = (brute ts w h d t, true).
  Proof.
    apply render3_correct with (posv := posv).
    - intros v. unfold posv, neg. rewrite Z.ltb_lt, Z.ltb_ge. lia.
    - intros t' c s q Hq. pose proof (demo3_encl t' Hq). unfold i_upper_neg, neg.
      rewrite !Z.ltb_lt. lia.
    - intros t' c s q Hq. pose proof (demo3_encl t' Hq). unfold i_lower_pos, posv.
      rewrite !Z.ltb_lt. lia.
    - reflexivity.
    - reflexivity.
  Qed.

  (* CURRENT CODE, the former counterexample: 8x8x8 grid, sphere of radius 3
     around (4,4,4): column (4,4) has its top voxel at z = 6, heightmap 7 = d-1,
     and is now rendered at depth 7 with the gradient at (4,4,6). *)
  Lemma render3_exact_heightmap_witness_fixed :
    let t := (4, 4, 4, 3) in
    let img := fst (render [8; 4; 2] 8 8 8 t) in
    ztop_of [8; 4; 2] 8 8 8 = 8 /\
    heightmap feval neg t 8 4 4 = 7 /\
    g_depth (znth img (4 * 8 + 4) (mkG 0 (0, 0, 0))) = 7 /\
    g_normal (znth img (4 * 8 + 4) (mkG 0 (0, 0, 0))) = geval t (4, 4, 6).
  Proof. vm_compute. repeat split. Qed.

  (* BEFORE THE REPAIR, REFUTED: "the depth image is exactly the brute-force
     heightmap of the grid".  Same scene ([nonneg_above] holds vacuously since
     ztop = d): heightmap 7, rendered depth 8 with the "saturated" normal. *)
  Lemma render3_old_exact_heightmap_refuted :
    let t := (4, 4, 4, 3) in
    let img := fst (render_old [8; 4; 2] 8 8 8 t) in
    ztop_of [8; 4; 2] 8 8 8 = 8 /\
    heightmap feval neg t 8 4 4 = 7 /\
    g_depth (znth img (4 * 8 + 4) (mkG 0 (0, 0, 0))) = 8 /\
    g_normal (znth img (4 * 8 + 4) (mkG 0 (0, 0, 0))) = (0, 0, 1) /\
    geval t (4, 4, 6) = (0, 0, 4).
  Proof. vm_compute. repeat split. Qed.

  (* STILL REFUTED (current code): "the depth image is the heightmap of the
     grid" without the [nonneg_above] hypothesis.  8x8x4 grid, root tile 8: the
     root tile extends to z = 8.  A sphere of radius 2 around (4,4,6) lies
     entirely above the grid (z in 5..7), the heightmap of the grid is 0
     everywhere, but column (4,4) is rendered as saturated (depth 4, normal
     (0,0,1)). *)
  Lemma render3_without_nonneg_above_refuted :
    let t := (4, 4, 6, 2) in
    let img := fst (render [8; 4; 2] 8 8 4 t) in
    ztop_of [8; 4; 2] 8 8 4 = 8 /\
    heightmap feval neg t 4 4 4 = 0 /\
    g_depth (znth img (4 * 8 + 4) (mkG 0 (0, 0, 0))) = 4 /\
    g_normal (znth img (4 * 8 + 4) (mkG 0 (0, 0, 0))) = (0, 0, 1).
  Proof. vm_compute. repeat split. Qed.

  (* BEFORE THE REPAIR: a grid of depth 1 was rendered as completely saturated,
     whatever the shape (d - 1 = 0 <= every depth); here the shape is empty *)
  Lemma render3_old_depth_one_all_saturated :
    let img := fst (render_old [8; 4; 2] 4 4 1 (100, 100, 100, 1)) in
    forallb (fun p => (g_depth p =? 1)) img = true /\
    forallb (fun o => heightmap feval neg (100, 100, 100, 1) 1 (o mod 4) (o / 4) =? 0)
            (zrange 16) = true.
  Proof. vm_compute. split; reflexivity. Qed.

  (* CURRENT CODE: depth 1 is no longer special *)
  Lemma render3_depth_one_fixed :
    let img := fst (render [8; 4; 2] 4 4 1 (100, 100, 100, 1)) in
    forallb (fun p => (g_depth p =? 0)) img = true.
  Proof. vm_compute. reflexivity. Qed.
End Render3DemoSound.

Print Assumptions render3_gen_correct.
Print Assumptions render3_correct.
Print Assumptions render3_depth_general.
Print Assumptions render3_normal_general.
Print Assumptions render3_heightmap.
Print Assumptions render3_normal.
Print Assumptions render3_normal_empty.
Print Assumptions render3_normal_saturated.
Print Assumptions render3_above_grid.
Print Assumptions render3_skipping_unobservable.
Print Assumptions render3_no_panic.
Print Assumptions render3_old_correct.
Print Assumptions render3_old_depth_general.
Print Assumptions render3_old_heightmap.
Print Assumptions render3_old_heightmap_clamp_quirk.
Print Assumptions render3_old_vs_new.
Print Assumptions Render3DemoSound.demo_render3_correct.
Print Assumptions Render3DemoSound.render3_exact_heightmap_witness_fixed.
Print Assumptions Render3DemoSound.render3_old_exact_heightmap_refuted.
Print Assumptions Render3DemoSound.render3_without_nonneg_above_refuted.
Print Assumptions Render3DemoSound.render3_old_depth_one_all_saturated.
Print Assumptions Render3DemoSound.render3_depth_one_fixed.
