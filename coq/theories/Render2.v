(* Render2.v — executable model of the tiled 2D renderer

     fidget-raster/src/pixel.rs   Worker::render_tile, render_tile_recurse,
                                  render_tile_pixels, render,
                                  RawDistancePixel / DistancePixel, inside()
     fidget-raster/src/lib.rs     Tile, TileSizesRef::{new, pixel_offset},
                                  render_tiles (sequential semantics),
                                  Image (row-major, image[(row, col)])
     fidget-core/src/render/mod.rs   TileSizes::new

   The model is generic in the evaluators.  Everything that involves f32
   arithmetic (the `as f32` casts of the tile corner and of the pixel
   positions, the construction of the interval [base, base + tile_size], the
   screen-to-model transform, variable binding, the constant z of the slice)
   lives INSIDE the abstract evaluators:

     tape    : Type         a RenderHandle (shape + lazily built tapes)
     trace   : Type         an interval-evaluation trace
     ires    : Type         an interval result
     V       : Type         a point-evaluation result (an f32)
     ieval   : tape -> Z*Z -> Z -> ires * option trace
                            [ieval t (cx,cy) s] is
                            eval_interval.eval_with_transform_and_vars(
                               t.i_tape, [cx, cx+s], [cy, cy+s], [z,z], ..)
     i_upper_neg, i_lower_pos : ires -> bool      `i.upper() < 0.0`, `i.lower() > 0.0`
     simplify : tape -> trace -> tape
                            RenderHandle::simplify (which returns either the
                            simplified handle or, if the simplified shape is
                            not shorter, the handle itself; its one-entry
                            cache is keyed on trace equality and therefore
                            unobservable for a deterministic simplifier)
     feval   : tape -> Z*Z -> V
                            one lane of eval_float_slice at pixel (x,y)
                            (bulk evaluation is lane-wise; the model builds
                            the scratch point list in the code's order,
                            maps [feval] over it and then reads `out[index]`)
     vdefault : V           the f32 0.0 of `RawDistancePixel::default()`

   Conventions
   * usize / u32 quantities are [Z] (non-negative by hypothesis in the
     theorems); [nat] is used only for the recursion depth stored in a Fill
     pixel (`depth as u8`; the u8 truncation is not modelled: a valid tile
     list over usize has fewer than 64 entries).
   * Buffers are [list pixel]; [znth]/[upd] index them with a [Z].  A write
     outside the buffer (a Rust panic) leaves the list unchanged;
     [Render2Sound.pixel_offset_in_bounds] shows it never happens.
   * `self.image[start..][..tile_size].fill(fill)` is [fill_range]: one [upd]
     per element, in increasing order.
   * Loops `for a in 0..n` are [fold_left .. (zrange n)].
   * The recursion is structural in the list of remaining tile sizes
     (`self.tile_sizes[depth..]`), so there is no fuel.
   * `render_tiles` is modelled with its sequential semantics (threads = None;
     the parallel version maps the same pure function over the same list).
     Cancellation is not modelled.

   ENTRY POINT (after the section is closed; argument order):

     render2 (* implicit: tape trace ires V *)
             ieval i_upper_neg i_lower_pos simplify feval vdefault
             pixel_perfect tile_sizes width height root
       : list (pixel V)          (row-major: index  y*width + x)

   (the four type arguments are implicit; write @render2 to give them)

   where [tile_sizes] is the content of the user's `TileSizes` (the
   `TileSizesRef::new` trimming is done inside [render2]).
   [render2_rows] chops the same list into rows.                           *)

From Coq Require Import List ZArith Bool Lia.
Import ListNotations.
Open Scope Z_scope.

Set Implicit Arguments.

(** * Lists indexed by [Z] *)

Definition zrange (n : Z) : list Z := map Z.of_nat (seq 0 (Z.to_nat n)).

Fixpoint znth (A : Type) (l : list A) (i : Z) (d : A) : A :=
  match l with
  | [] => d
  | a :: r => if i =? 0 then a else znth r (i - 1) d
  end.

Fixpoint upd (A : Type) (l : list A) (i : Z) (v : A) : list A :=
  match l with
  | [] => []
  | a :: r => if i =? 0 then v :: r else a :: upd r (i - 1) v
  end.

Definition zlength (A : Type) (l : list A) : Z := Z.of_nat (length l).

(* slice[start..][..len].fill(v) *)
Definition fill_range (A : Type) (l : list A) (start len : Z) (v : A) : list A :=
  fold_left (fun l i => upd l (start + i) v) (zrange len) l.

(** * TileSizes::new  (fidget-core/src/render/mod.rs) *)

(* usize::is_multiple_of *)
Definition is_multiple_of (a b : Z) : bool :=
  if b =? 0 then a =? 0 else a mod b =? 0.

(* the body of the `for i in 1..sizes.len()` loop, [prev] = sizes[i-1] *)
Fixpoint tile_sizes_check (prev : Z) (l : list Z) : bool :=
  match l with
  | [] => true
  | s :: r =>
      if prev <=? s then false                       (* BadTileOrder *)
      else if negb (is_multiple_of prev s) then false (* BadTileSize *)
      else tile_sizes_check s r
  end.

(* TileSizes::new (since commit 382060e: a zero tile size is rejected) *)
Definition tile_sizes_new (sizes : list Z) : option (list Z) :=
  match sizes with
  | [] => None                                        (* EmptyTileSizes *)
  | s :: r =>
      if existsb (fun t => t =? 0) sizes then None    (* sizes.contains(&0): ZeroTileSize *)
      else if tile_sizes_check s r then Some sizes else None
  end.

(* TileSizes::new before commit 382060e (it accepted the list [0]) *)
Definition tile_sizes_new_old (sizes : list Z) : option (list Z) :=
  match sizes with
  | [] => None                                        (* EmptyTileSizes *)
  | s :: r => if tile_sizes_check s r then Some sizes else None
  end.

(** * TileSizesRef::new  (fidget-raster/src/lib.rs) *)

(* Iterator::position *)
Fixpoint position (A : Type) (f : A -> bool) (l : list A) : option nat :=
  match l with
  | [] => None
  | a :: r => if f a then Some O
              else match position f r with Some i => Some (S i) | None => None end
  end.

Definition tile_sizes_ref (tiles : list Z) (max_size : Z) : list Z :=
  let i := match position (fun t => t <? max_size) tiles with
           | Some i => i
           | None => length tiles
           end in
  skipn (i - 1)%nat tiles.             (* nat subtraction = saturating_sub *)

(* usize::div_ceil *)
Definition div_ceil (a b : Z) : Z :=
  let d := a / b in
  let r := a mod b in
  if 0 <? r then d + 1 else d.

(* TileSizesRef::pixel_offset, [t0] = self.0[0] *)
Definition pixel_offset (t0 : Z) (pos : Z * Z) : Z :=
  let x := fst pos mod t0 in
  let y := snd pos mod t0 in
  x + y * t0.

(* the root tile list of render_tiles *)
Definition root_tiles (t0 width height : Z) : list (Z * Z) :=
  flat_map (fun i => map (fun j => (i * t0, j * t0)) (zrange (div_ceil height t0)))
           (zrange (div_ceil width t0)).

(** * Pixels *)

Section Pixel.
  Variable V : Type.

  (* DistancePixel; RawDistancePixel is its NaN-boxed encoding *)
  Inductive pixel : Type :=
  | Fill (inside : bool) (depth : nat)
  | Dist (v : V).

  Variable neg : V -> bool.             (* `v < 0.0` *)

  (* RawDistancePixel::inside *)
  Definition is_inside (p : pixel) : bool :=
    match p with
    | Fill inside _ => inside
    | Dist v => neg v
    end.
End Pixel.

Arguments Fill {V} _ _.
Arguments Dist {V} _.

(** * The renderer *)

Section Render2.
  Variables (tape trace ires V : Type).
  Variable ieval : tape -> Z * Z -> Z -> ires * option trace.
  Variable i_upper_neg : ires -> bool.
  Variable i_lower_pos : ires -> bool.
  Variable simplify : tape -> trace -> tape.
  Variable feval : tape -> Z * Z -> V.
  Variable vdefault : V.

  Variable pixel_perfect : bool.

  Notation pix := (pixel V).
  Definition pdefault : pix := Dist vdefault.

  (* Worker::render_tile_pixels *)
  Definition render_tile_pixels (t0 : Z) (shape : tape) (tile_size : Z)
             (corner : Z * Z) (image : list pix) : list pix :=
    (* first loop: fill the scratch arrays *)
    let pts :=
      flat_map (fun j => map (fun i => (fst corner + i, snd corner + j))
                             (zrange tile_size))
               (zrange tile_size) in
    (* bulk evaluation *)
    let out := map (feval shape) pts in
    (* second loop; `index` is j*tile_size + i *)
    fold_left (fun image j =>
      let o := pixel_offset t0 (fst corner + 0, snd corner + j) in
      fold_left (fun image i =>
        upd image (o + i) (Dist (znth out (j * tile_size + i) vdefault)))
        (zrange tile_size) image)
      (zrange tile_size) image.

  (* Worker::render_tile_recurse; [sizes] is self.tile_sizes[depth..] *)
  Fixpoint render_tile_recurse (t0 : Z) (sizes : list Z) (depth : nat)
           (shape : tape) (corner : Z * Z) (image : list pix) : list pix :=
    match sizes with
    | [] => image                              (* self.tile_sizes[depth] panics *)
    | tile_size :: rest =>
        let '(i, simp) := ieval shape corner tile_size in
        let pixel : option pix :=
          if negb pixel_perfect then
            if i_upper_neg i then Some (Fill true depth)
            else if i_lower_pos i then Some (Fill false depth)
            else None
          else None in
        match pixel with
        | Some fill =>
            fold_left (fun image y =>
              let start := pixel_offset t0 (fst corner + 0, snd corner + y) in
              fill_range image start tile_size fill)
              (zrange tile_size) image
        | None =>
            let sub_tape := match simp with
                            | Some tr => simplify shape tr
                            | None => shape
                            end in
            match rest with
            | next_tile_size :: _ =>
                let n := tile_size / next_tile_size in
                fold_left (fun image j =>
                  fold_left (fun image i =>
                    render_tile_recurse t0 rest (S depth) sub_tape
                      (fst corner + i * next_tile_size,
                       snd corner + j * next_tile_size) image)
                    (zrange n) image)
                  (zrange n) image
            | [] => render_tile_pixels t0 sub_tape tile_size corner image
            end
        end
    end.

  (* Worker::render_tile; [sizes] is the TileSizesRef *)
  Definition render_tile (sizes : list Z) (shape : tape) (tile : Z * Z) : list pix :=
    let t0 := hd 0 sizes in
    let image := repeat pdefault (Z.to_nat (t0 * t0)) in
    render_tile_recurse t0 sizes 0%nat shape tile image.

  (* render_tiles, threads = None *)
  Definition render_tiles (sizes : list Z) (width height : Z) (shape : tape)
    : list ((Z * Z) * list pix) :=
    map (fun tile => (tile, render_tile sizes shape tile))
        (root_tiles (hd 0 sizes) width height).

  (* the assembly loop of pixel::render *)
  Definition assemble (t0 width height : Z)
             (tiles : list ((Z * Z) * list pix)) : list pix :=
    let image := repeat pdefault (Z.to_nat (width * height)) in
    fold_left (fun image td =>
      let '(tile, data) := td in
      fold_left (fun image j =>
        let y := j + snd tile in
        fold_left (fun image i =>
          let x := i + fst tile in
          if (y <? height) && (x <? width)
          then upd image (y * width + x) (znth data (j * t0 + i) pdefault)
          else image)
          (zrange t0) image)
        (zrange t0) image)
      tiles image.

  (* pixel::render; [tiles] is the user's TileSizes *)
  Definition render2 (tiles : list Z) (width height : Z) (root : tape) : list pix :=
    let max_size := Z.max width height in
    let sizes := tile_sizes_ref tiles max_size in
    assemble (hd 0 sizes) width height (render_tiles sizes width height root).

  (* the same image, as a list of rows *)
  Fixpoint chop (A : Type) (rows : nat) (w : nat) (l : list A) : list (list A) :=
    match rows with
    | O => []
    | S r => firstn w l :: chop r w (skipn w l)
    end.

  Definition render2_rows (tiles : list Z) (width height : Z) (root : tape)
    : list (list pix) :=
    chop (Z.to_nat height) (Z.to_nat width) (render2 tiles width height root).

  (* the trivial renderer: [feval root] at every pixel, row-major *)
  Definition brute2 (width height : Z) (root : tape) : list pix :=
    map (fun o => Dist (feval root (o mod width, o / width)))
        (zrange (width * height)).

End Render2.

(** * A tiny executable instance

    tape = circle (cx, cy, r);  V = Z;  feval = (x-cx)^2 + (y-cy)^2 - r^2;
    ieval = exact integer interval arithmetic over the closed box
    [x, x+s] x [y, y+s];  the trace is [tt], simplification is the identity. *)

Module Render2Demo.

  Definition tape := (Z * Z * Z)%type.

  Definition feval (t : tape) (p : Z * Z) : Z :=
    let '(cx, cy, r) := t in
    (fst p - cx) * (fst p - cx) + (snd p - cy) * (snd p - cy) - r * r.

  (* interval of (x - a)^2 for x in [l, u] *)
  Definition sq_itv (a l u : Z) : Z * Z :=
    let l' := l - a in
    let u' := u - a in
    if 0 <=? l' then (l' * l', u' * u')
    else if u' <=? 0 then (u' * u', l' * l')
    else (0, Z.max (l' * l') (u' * u')).

  Definition ieval (t : tape) (c : Z * Z) (s : Z) : (Z * Z) * option unit :=
    let '(cx, cy, r) := t in
    let ix := sq_itv cx (fst c) (fst c + s) in
    let iy := sq_itv cy (snd c) (snd c + s) in
    ((fst ix + fst iy - r * r, snd ix + snd iy - r * r), Some tt).

  Definition i_upper_neg (i : Z * Z) : bool := snd i <? 0.
  Definition i_lower_pos (i : Z * Z) : bool := 0 <? fst i.
  Definition simplify (t : tape) (_ : unit) : tape := t.
  Definition neg (v : Z) : bool := v <? 0.

  Definition render (pp : bool) (ts : list Z) (w h : Z) (t : tape) : list (pixel Z) :=
    render2 ieval i_upper_neg i_lower_pos simplify feval 0 pp ts w h t.

  Definition brute (w h : Z) (t : tape) : list (pixel Z) := brute2 feval w h t.

  (* boolean version of Render2Sound.pix_equiv *)
  Definition pix_equivb (a b : pixel Z) : bool :=
    match a, b with
    | Dist v, Dist v' => v =? v'
    | Fill ins _, Dist v' => Bool.eqb ins (neg v')
    | _, _ => false
    end.

  Fixpoint forallb2 (A B : Type) (f : A -> B -> bool) (l : list A) (l' : list B) : bool :=
    match l, l' with
    | [], [] => true
    | a :: r, b :: r' => f a b && forallb2 f r r'
    | _, _ => false
    end.

  (* a 12 x 10 image, tile sizes [8;4;2], circle of radius 4 around (5,5):
     one character per pixel would be nicer, but this is what it is *)
  Definition show (p : pixel Z) : Z :=
    match p with
    | Fill true d => 1000 + Z.of_nat d
    | Fill false d => 2000 + Z.of_nat d
    | Dist v => v
    end.

  Eval vm_compute in
      chop 10 12 (map show (render false [8; 4; 2] 12 10 (5, 5, 4))).

  Example demo_equiv_brute :
    forallb2 pix_equivb (render false [8; 4; 2] 12 10 (5, 5, 4))
                        (brute 12 10 (5, 5, 4)) = true.
  Proof. vm_compute. reflexivity. Qed.

  Example demo_pixel_perfect :
    render true [8; 4; 2] 12 10 (5, 5, 4) = brute 12 10 (5, 5, 4).
  Proof. vm_compute. reflexivity. Qed.

  (* a 64 x 64 render with tile sizes [16;4] (the size quoted in the task) *)
  Example demo_64 :
    forallb2 pix_equivb (render false [16; 4] 64 64 (30, 33, 25))
                        (brute 64 64 (30, 33, 25)) = true.
  Proof. vm_compute. reflexivity. Qed.

  (* the TileSizesRef trimming is exercised: 128 and 32 are dropped for a
     12 x 10 image ([16] is the last size >= 12) *)
  Example demo_trim : tile_sizes_ref [128; 32; 16; 4; 2] 12 = [16; 4; 2].
  Proof. reflexivity. Qed.

  Example demo_trim_render :
    forallb2 pix_equivb (render false [128; 32; 16; 4; 2] 12 10 (5, 5, 4))
                        (brute 12 10 (5, 5, 4)) = true.
  Proof. vm_compute. reflexivity. Qed.

  (* some pixel really is a Fill, i.e. interval skipping happens *)
  Example demo_has_fill :
    existsb (fun p => match p with Fill _ _ => true | _ => false end)
            (render false [8; 4; 2] 12 10 (5, 5, 4)) = true.
  Proof. vm_compute. reflexivity. Qed.

End Render2Demo.
