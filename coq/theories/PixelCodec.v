(* PixelCodec.v — fidget-raster/src/pixel.rs: RawDistancePixel packs "a distance value" and "a fill of a tile
   (recursion depth, inside / outside)" into ONE f32: a fill is a NaN whose payload carries KEY in bits 9..16, the
   depth in bits 1..8 and the inside flag in bit 0; a value that is itself NaN is canonicalised first, so that no
   value can be read back as a fill.  Bit patterns are numbers below 2^32. *)
From Coq Require Import NArith Bool List Lia.
Import ListNotations.
Local Open Scope N_scope.

Definition key : N := 0xF6 * 2 ^ 9.          (* 0b1111_0110 << 9 *)
Definition key_mask : N := 0xFF * 2 ^ 9.     (* 0b1111_1111 << 9 *)
Definition qnan : N := 0x7FC00000.           (* f32::NAN *)

Definition is_nan_bits (b : N) : bool :=
  (N.land b 0x7F800000 =? 0x7F800000) && negb (N.land b 0x7FFFFF =? 0).

Inductive pixel := Value (bits : N) | Fill (depth : N) (inside : bool).

(* From<f32>; [canon] says whether NaN is canonicalised (it is: the flag comes from the source, RasterGen.v) *)
Definition of_value (canon : bool) (b : N) : N := if canon && is_nan_bits b then qnan else b.
(* From<DistancePixel> for a fill *)
Definition of_fill (depth : N) (inside : bool) : N :=
  N.lor (N.lor (N.lor qnan (N.shiftl depth 1)) (if inside then 1 else 0)) key.
Definition is_distance (b : N) : bool := if is_nan_bits b then negb (N.land b key_mask =? key) else true.
Definition unpack (b : N) : pixel :=
  if is_distance b then Value b else Fill (N.land (N.shiftr b 1) 255) (N.land b 1 =? 1).
(* RawDistancePixel::inside on a value: v < 0.0, false for NaN *)
Definition is_fill (b : N) : bool := match unpack b with Fill _ _ => true | Value _ => false end.

(* a value is never read back as a fill, whatever its bits *)
Theorem value_is_never_a_fill (b : N) : unpack (of_value true b) = Value (of_value true b).
Proof.
  unfold of_value, unpack, is_distance. cbn [andb].
  destruct (is_nan_bits b) eqn:E.
  - reflexivity.
  - rewrite E. reflexivity.
Qed.

(* without the canonicalisation this fails: the witness is a NaN carrying KEY *)
Lemma uncanonicalised_value_read_as_fill : unpack (of_value false 0x7FC1EC01) = Fill 0 true.
Proof. vm_compute. reflexivity. Qed.

(* fills round-trip, for every depth a u8 holds and both flags *)
Definition fills_ok : bool :=
  forallb (fun d => forallb (fun i => match unpack (of_fill (N.of_nat d) i) with
                                       | Fill d' i' => (d' =? N.of_nat d) && Bool.eqb i' i
                                       | Value _ => false end) [false; true]) (seq 0 256).
Lemma fills_ok_true : fills_ok = true. Proof. vm_compute. reflexivity. Qed.

Theorem fill_round_trip (depth : N) (inside : bool) :
  depth < 256 -> unpack (of_fill depth inside) = Fill depth inside.
Proof.
  intros H. pose proof fills_ok_true as F. unfold fills_ok in F. rewrite forallb_forall in F.
  specialize (F (N.to_nat depth)). rewrite N2Nat.id in F.
  assert (Hin : In (N.to_nat depth) (seq 0 256)) by (apply in_seq; lia).
  specialize (F Hin). rewrite forallb_forall in F. specialize (F inside).
  assert (Hi : In inside [false; true]) by (destruct inside; simpl; auto).
  specialize (F Hi). destruct (unpack (of_fill depth inside)) as [v|d' i']; [discriminate|].
  apply andb_prop in F. destruct F as [Fd Fi]. apply N.eqb_eq in Fd. apply Bool.eqb_prop in Fi. subst. reflexivity.
Qed.

(* the two encodings never collide *)
Corollary value_and_fill_disjoint (b depth : N) (inside : bool) :
  depth < 256 -> of_value true b <> of_fill depth inside.
Proof.
  intros H E. pose proof (value_is_never_a_fill b) as V. rewrite E, (fill_round_trip depth inside H) in V. discriminate.
Qed.
