(* Interval.v — types/interval.rs, written ONCE over an abstract float-like
   structure [FL].  Two instances exist: f32 (F32Interval.v; what the runner
   executes and the correspondence check compares bit-for-bit with the Rust code) and
   extended reals with NaN (ER.v; what the enclosure theorems are proved about).
   [Interval::new]'s assertion is explicit: every operation returns [option];
   [None] is the Rust panic. *)
From Coq Require Import List Bool Arith.
From FV Require Import Ops Tape.
Import ListNotations.

Inductive quad := Q0 | Q1 | Q2 | Q3.

Record FL (T : Type) := {
  fl_zero : T; fl_one : T; fl_neg_one : T; fl_two : T; fl_three : T; fl_four : T;
  fl_nan : T; fl_inf : T; fl_neg_inf : T; fl_pi : T; fl_tau : T; fl_neg_pi : T;
  fl_is_nan : T -> bool;
  fl_lt : T -> T -> bool; fl_le : T -> T -> bool; fl_eq : T -> T -> bool;   (* IEEE: false on NaN *)
  fl_add : T -> T -> T; fl_sub : T -> T -> T; fl_mul : T -> T -> T; fl_div : T -> T -> T;
  fl_neg : T -> T; fl_abs : T -> T; fl_sqrt : T -> T;
  fl_floor : T -> T; fl_ceil : T -> T; fl_round : T -> T;
  fl_min : T -> T -> T; fl_max : T -> T -> T;          (* f32::min / f32::max (NaN-ignoring) *)
  fl_sin : T -> T; fl_cos : T -> T; fl_tan : T -> T; fl_asin : T -> T; fl_acos : T -> T;
  fl_atan : T -> T; fl_exp : T -> T; fl_ln : T -> T;
  fl_atan2 : T -> T -> T; fl_rem_euclid : T -> T -> T;
  fl_bits_eq : T -> T -> bool;                          (* to_bits() == to_bits() *)
  fl_rand : T -> T;                                     (* rng::rand(to_bits) *)
  fl_mix : T -> T -> T;                                 (* from_bits(rng::mix(bits, bits)) *)
  fl_quadrant : T -> quad;                              (* Interval::quadrant *)
}.

Section Interval.
Context {T : Type}.
Variable F : FL T.

Notation lt := (fl_lt _ F). Notation le := (fl_le _ F). Notation feq := (fl_eq _ F).
Notation isnan := (fl_is_nan _ F).
Definition gt a b := lt b a.
Definition ge a b := le b a.

Record interval := { lo : T; hi : T }.

(* Interval::new *)
Definition inew (l u : T) : option interval :=
  if ge u l || (isnan l && isnan u) then Some {| lo := l; hi := u |} else None.
Definition ifrom (f : T) : option interval := inew f f.
Definition inan : option interval := ifrom (fl_nan _ F).

Definition has_nan (i : interval) : bool := isnan (lo i) || isnan (hi i).
Definition contains (i : interval) (v : T) : bool := ge v (lo i) && le v (hi i).
Definition width (i : interval) : T := fl_sub _ F (hi i) (lo i).
Definition powi2 (x : T) : T := fl_mul _ F x x.

Definition iabs (i : interval) : option interval :=
  if lt (lo i) (fl_zero _ F) then
    if gt (hi i) (fl_zero _ F) then inew (fl_zero _ F) (fl_max _ F (hi i) (fl_neg _ F (lo i)))
    else inew (fl_neg _ F (hi i)) (fl_neg _ F (lo i))
  else Some i.

Definition isquare (i : interval) : option interval :=
  if lt (hi i) (fl_zero _ F) then inew (powi2 (hi i)) (powi2 (lo i))
  else if gt (lo i) (fl_zero _ F) then inew (powi2 (lo i)) (powi2 (hi i))
  else if has_nan i then inan
  else inew (fl_zero _ F) (powi2 (fl_max _ F (fl_abs _ F (lo i)) (fl_abs _ F (hi i)))).

(* Interval::quadrant: (f64::from(angle) * 2.0 / PI_f64).floor().rem_euclid(4.0) as u8 — a field of
   the float structure because the f32 instance computes it in binary64 (since the repair of
   the quadrant computation; in f32 the quotient was off by whole quadrants for large angles). *)
Definition quadrant (angle : T) : quad := fl_quadrant _ F angle.
(* the computation before the repair, in the structure's own arithmetic *)
Definition quadrant_old (angle : T) : quad :=
  let q := fl_rem_euclid _ F (fl_floor _ F (fl_div _ F (fl_mul _ F angle (fl_two _ F)) (fl_pi _ F))) (fl_four _ F) in
  if feq q (fl_one _ F) then Q1 else if feq q (fl_two _ F) then Q2 else if feq q (fl_three _ F) then Q3 else Q0.

Definition icompare (l r : interval) : option interval :=
  if has_nan l || has_nan r then inan
  else if lt (hi l) (lo r) then ifrom (fl_neg_one _ F)
  else if gt (lo l) (hi r) then ifrom (fl_one _ F)
  else if feq (lo l) (hi l) && feq (lo r) (hi r) && feq (lo l) (lo r) then inew (fl_zero _ F) (fl_zero _ F)
  else inew (fl_neg_one _ F) (fl_one _ F).

Definition full_trig : option interval := inew (fl_neg_one _ F) (fl_one _ F).

Definition isin (i : interval) : option interval :=
  let s := fl_sin _ F in
  if has_nan i then inan
  else if ge (width i) (fl_tau _ F) then full_trig
  else if feq (lo i) (hi i) then ifrom (s (lo i))
  else
    let d := width i in
    let big := ge d (fl_pi _ F) in
    match quadrant (lo i), quadrant (hi i) with
    | Q0, Q0 | Q3, Q3 => if big then full_trig else inew (s (lo i)) (s (hi i))
    | Q1, Q1 | Q2, Q2 => if big then full_trig else inew (s (hi i)) (s (lo i))
    | Q3, Q0 => if big then full_trig else inew (s (lo i)) (s (hi i))
    | Q1, Q2 => if big then full_trig else inew (s (hi i)) (s (lo i))
    | Q0, Q1 | Q0, Q2 | Q3, Q1 | Q3, Q2 => inew (fl_min _ F (s (lo i)) (s (hi i))) (fl_one _ F)
    | Q1, Q3 | Q1, Q0 | Q2, Q3 | Q2, Q0 => inew (fl_neg_one _ F) (fl_max _ F (s (lo i)) (s (hi i)))
    | Q0, Q3 | Q2, Q1 => full_trig
    end.

Definition icos (i : interval) : option interval :=
  let c := fl_cos _ F in
  if has_nan i then inan
  else if ge (width i) (fl_tau _ F) then full_trig
  else if feq (lo i) (hi i) then ifrom (c (lo i))
  else
    let d := width i in
    let big := ge d (fl_pi _ F) in
    match quadrant (lo i), quadrant (hi i) with
    | Q2, Q2 | Q3, Q3 => if big then full_trig else inew (c (lo i)) (c (hi i))
    | Q0, Q0 | Q1, Q1 => if big then full_trig else inew (c (hi i)) (c (lo i))
    | Q2, Q3 => if big then full_trig else inew (c (lo i)) (c (hi i))
    | Q0, Q1 => if big then full_trig else inew (c (hi i)) (c (lo i))
    | Q2, Q0 | Q2, Q1 | Q3, Q0 | Q3, Q1 => inew (fl_min _ F (c (lo i)) (c (hi i))) (fl_one _ F)
    | Q0, Q2 | Q0, Q3 | Q1, Q2 | Q1, Q3 => inew (fl_neg_one _ F) (fl_max _ F (c (lo i)) (c (hi i)))
    | Q3, Q2 | Q1, Q0 => full_trig
    end.

Definition itan (i : interval) : option interval :=
  let size := fl_sub _ F (hi i) (lo i) in
  if ge size (fl_pi _ F) then inan
  else if feq (lo i) (hi i) then ifrom (fl_tan _ F (lo i))
  else
    let l := fl_tan _ F (lo i) in
    let u := fl_tan _ F (hi i) in
    if ge u l then inew l u else inan.

Definition iasin (i : interval) : option interval :=
  if has_nan i then inan else
  if lt (lo i) (fl_neg_one _ F) || gt (hi i) (fl_one _ F) then inan
  else if feq (lo i) (hi i) then ifrom (fl_asin _ F (lo i))
  else inew (fl_asin _ F (lo i)) (fl_asin _ F (hi i)).

Definition iacos (i : interval) : option interval :=
  if has_nan i then inan else
  if lt (lo i) (fl_neg_one _ F) || gt (hi i) (fl_one _ F) then inan
  else if feq (lo i) (hi i) then ifrom (fl_acos _ F (lo i))
  else inew (fl_acos _ F (hi i)) (fl_acos _ F (lo i)).

Definition iatan (i : interval) : option interval :=
  if has_nan i then inan else inew (fl_atan _ F (lo i)) (fl_atan _ F (hi i)).
Definition iexp (i : interval) : option interval :=
  if has_nan i then inan else inew (fl_exp _ F (lo i)) (fl_exp _ F (hi i)).
Definition iln (i : interval) : option interval :=
  if has_nan i then inan else
  if le (lo i) (fl_zero _ F) then inan else inew (fl_ln _ F (lo i)) (fl_ln _ F (hi i)).
Definition isqrt (i : interval) : option interval :=
  if lt (lo i) (fl_zero _ F) then inan else inew (fl_sqrt _ F (lo i)) (fl_sqrt _ F (hi i)).
Definition irecip (i : interval) : option interval :=
  if gt (lo i) (fl_zero _ F) || lt (hi i) (fl_zero _ F)
  then inew (fl_div _ F (fl_one _ F) (hi i)) (fl_div _ F (fl_one _ F) (lo i))
  else inan.

Definition imin_choice (a b : interval) : option interval * tchoice :=
  if has_nan a || has_nan b then (inan, TBoth) else
  let c := if lt (hi a) (lo b) then TLeft else if lt (hi b) (lo a) then TRight else TBoth in
  (inew (fl_min _ F (lo a) (lo b)) (fl_min _ F (hi a) (hi b)), c).

Definition imax_choice (a b : interval) : option interval * tchoice :=
  if has_nan a || has_nan b then (inan, TBoth) else
  let c := if gt (lo a) (hi b) then TLeft else if gt (lo b) (hi a) then TRight else TBoth in
  (inew (fl_max _ F (lo a) (lo b)) (fl_max _ F (hi a) (hi b)), c).

Definition iand_choice (a b : interval) : option interval * tchoice :=
  if has_nan a || has_nan b then (inan, TBoth)
  else if feq (lo a) (fl_zero _ F) && feq (hi a) (fl_zero _ F) then (ifrom (fl_zero _ F), TLeft)
  else if negb (contains a (fl_zero _ F)) then (Some b, TRight)
  else (inew (fl_min _ F (lo b) (fl_zero _ F)) (fl_max _ F (hi b) (fl_zero _ F)), TBoth).

Definition ior_choice (a b : interval) : option interval * tchoice :=
  if has_nan a || has_nan b then (inan, TBoth)
  else if negb (contains a (fl_zero _ F)) then (Some a, TLeft)
  else if feq (lo a) (fl_zero _ F) && feq (hi a) (fl_zero _ F) then (Some b, TRight)
  else (inew (fl_min _ F (lo a) (lo b)) (fl_max _ F (hi a) (hi b)), TBoth).

Definition irem_euclid (a b : interval) : option interval :=
  if has_nan a || has_nan b || contains b (fl_zero _ F) then inan
  else
    let fallback :=
      match iabs b with Some ab => inew (fl_zero _ F) (hi ab) | None => None end in
    if feq (lo b) (hi b) && gt (lo b) (fl_zero _ F) then
      let x := fl_div _ F (lo a) (lo b) in
      let y := fl_div _ F (hi a) (lo b) in
      if negb (feq x (fl_floor _ F x)) && feq (fl_floor _ F x) (fl_floor _ F y)
      then inew (fl_rem_euclid _ F (lo a) (lo b)) (fl_rem_euclid _ F (hi a) (lo b))
      else fallback
    else fallback.

Definition ifloor (i : interval) := inew (fl_floor _ F (lo i)) (fl_floor _ F (hi i)).
Definition iceil (i : interval) := inew (fl_ceil _ F (lo i)) (fl_ceil _ F (hi i)).
Definition iround (i : interval) := inew (fl_round _ F (lo i)) (fl_round _ F (hi i)).

Definition inot (i : interval) : option interval :=
  if negb (contains i (fl_zero _ F)) && negb (has_nan i) then inew (fl_zero _ F) (fl_zero _ F)
  else if feq (lo i) (fl_zero _ F) && feq (hi i) (fl_zero _ F) then inew (fl_one _ F) (fl_one _ F)
  else inew (fl_zero _ F) (fl_one _ F).

Definition iatan2 (y x : interval) : option interval :=
  if has_nan y || has_nan x then inan
  else if le (lo y) (fl_zero _ F) && ge (hi y) (fl_zero _ F) && lt (lo x) (fl_zero _ F)
  then inew (fl_neg_pi _ F) (fl_pi _ F)
  else
    let two_pts (y1 x1 y2 x2 : T) :=
      let v1 := fl_atan2 _ F y1 x1 in
      let v2 := fl_atan2 _ F y2 x2 in
      let l := fl_min _ F (fl_min _ F (fl_inf _ F) v1) v2 in
      let u := fl_max _ F (fl_max _ F (fl_neg_inf _ F) v1) v2 in
      inew l u in
    if ge (lo y) (fl_zero _ F) then
      if ge (lo x) (fl_zero _ F) then two_pts (hi y) (lo x) (lo y) (hi x)
      else if le (hi x) (fl_zero _ F) then two_pts (lo y) (lo x) (hi y) (hi x)
      else two_pts (lo y) (lo x) (lo y) (hi x)
    else if le (hi y) (fl_zero _ F) then
      if ge (lo x) (fl_zero _ F) then two_pts (lo y) (lo x) (hi y) (hi x)
      else if le (hi x) (fl_zero _ F) then two_pts (hi y) (lo x) (lo y) (hi x)
      else two_pts (hi y) (lo x) (hi y) (hi x)
    else two_pts (lo y) (lo x) (hi y) (lo x).

Definition imix (a b : interval) : option interval :=
  if has_nan a || has_nan b || negb (fl_bits_eq _ F (lo a) (hi a)) || negb (fl_bits_eq _ F (lo b) (hi b))
  then inan
  else ifrom (fl_mix _ F (lo a) (lo b)).

Definition irand (a : interval) : option interval :=
  if has_nan a || negb (fl_bits_eq _ F (lo a) (hi a)) then inew (fl_zero _ F) (fl_one _ F)
  else ifrom (fl_rand _ F (lo a)).

(* a NaN in either bound of the result (inf - inf on one side only) gives the NaN interval *)
Definition inew_nan (l u : T) : option interval :=
  if isnan l || isnan u then inan else inew l u.
Definition iadd (a b : interval) := inew_nan (fl_add _ F (lo a) (lo b)) (fl_add _ F (hi a) (hi b)).
Definition isub (a b : interval) := inew_nan (fl_sub _ F (lo a) (hi b)) (fl_sub _ F (hi a) (lo b)).
Definition ineg (a : interval) := inew (fl_neg _ F (hi a)) (fl_neg _ F (lo a)).

Definition four_minmax (o0 o1 o2 o3 : T) : option interval :=
  let l := fl_min _ F (fl_min _ F (fl_min _ F o0 o1) o2) o3 in
  let u := fl_max _ F (fl_max _ F (fl_max _ F o0 o1) o2) o3 in
  inew l u.

Definition imul (a b : interval) : option interval :=
  if has_nan a || has_nan b then inan else
  four_minmax (fl_mul _ F (lo a) (lo b)) (fl_mul _ F (lo a) (hi b))
              (fl_mul _ F (hi a) (lo b)) (fl_mul _ F (hi a) (hi b)).

(* Mul<f32> for Interval *)
Definition imul_f (a : interval) (r : T) : option interval :=
  if has_nan a || isnan r then inan
  else if lt r (fl_zero _ F) then inew_nan (fl_mul _ F (hi a) r) (fl_mul _ F (lo a) r)
  else inew_nan (fl_mul _ F (lo a) r) (fl_mul _ F (hi a) r).

Definition idiv (a b : interval) : option interval :=
  if has_nan a then inan else
  if gt (lo b) (fl_zero _ F) || lt (hi b) (fl_zero _ F) then
    four_minmax (fl_div _ F (lo a) (lo b)) (fl_div _ F (lo a) (hi b))
                (fl_div _ F (hi a) (lo b)) (fl_div _ F (hi a) (hi b))
  else inan.

(* ---- the interval loop of vm/mod.rs as a [Sem] over option interval -------- *)
Definition ov := option interval.
Definition lift1 (f : interval -> ov) (a : ov) : ov := match a with Some x => f x | None => None end.
Definition lift2 (f : interval -> interval -> ov) (a b : ov) : ov :=
  match a, b with Some x, Some y => f x y | _, _ => None end.

Definition i_un (u : uop) (a : interval) : ov :=
  match u with
  | UNeg => ineg a | UAbs => iabs a | URecip => irecip a | USqrt => isqrt a | USquare => isquare a
  | UFloor => ifloor a | UCeil => iceil a | URound => iround a
  | USin => isin a | UCos => icos a | UTan => itan a | UAsin => iasin a | UAcos => iacos a
  | UAtan => iatan a | UExp => iexp a | ULn => iln a | UNot => inot a | URand => irand a
  | UCopy => Some a
  end.

Definition i_bin (b : bop) (x y : interval) : ov :=
  match b with
  | BAdd => iadd x y | BSub => isub x y | BMul => imul x y | BDiv => idiv x y
  | BAtan => iatan2 x y
  | BMin => fst (imin_choice x y) | BMax => fst (imax_choice x y)
  | BCompare => icompare x y | BMod => irem_euclid x y
  | BAnd => fst (iand_choice x y) | BOr => fst (ior_choice x y)
  | BMix => imix x y
  end.

Definition i_choice (b : bop) (x y : interval) : tchoice :=
  match b with
  | BMin => snd (imin_choice x y) | BMax => snd (imax_choice x y)
  | BAnd => snd (iand_choice x y) | BOr => snd (ior_choice x y)
  | _ => TUnknown
  end.

(* reg (op) imm: `v[arg] op imm.into()`, except MulRegImm which is Mul<f32> *)
Definition i_ri (b : bop) (x : ov) (imm : T) : ov :=
  match b with
  | BMul => lift1 (fun a => imul_f a imm) x
  | _ => lift2 (i_bin b) x (ifrom imm)
  end.
Definition i_ir (b : bop) (imm : T) (x : ov) : ov := lift2 (i_bin b) (ifrom imm) x.

Definition i_ch (b : bop) (x y : ov) : tchoice :=
  match x, y with Some a, Some c => i_choice b a c | _, _ => TBoth end.

Definition interval_sem : Sem ov T :=
  {| s_dflt := inan;
     s_imm := ifrom;
     s_un := fun u => lift1 (i_un u);
     s_rr := fun b => lift2 (i_bin b);
     s_ri := i_ri;
     s_ir := i_ir;
     s_ch_rr := i_ch;
     s_ch_ri := fun b x imm => i_ch b x (ifrom imm) |}.

(* Transformable for Interval (shape/mod.rs): rows of a 4x4 matrix, then divide by w *)
Definition itransform (x y z : interval) (m : list T) : option (interval * interval * interval) :=
  let row (i : nat) : ov :=
    let g k := nth (4 * i + k) m (fl_zero _ F) in
    lift2 iadd (lift2 iadd (lift2 iadd (imul_f x (g 0)) (imul_f y (g 1))) (imul_f z (g 2))) (ifrom (g 3)) in
  match lift2 idiv (row 0) (row 3), lift2 idiv (row 1) (row 3), lift2 idiv (row 2) (row 3) with
  | Some a, Some b, Some c => Some (a, b, c)
  | _, _, _ => None
  end.

End Interval.
Arguments interval : clear implicits.
