(* Lru.v — compiler/lru.rs: doubly-linked list in a static array.
   data[i].prev / data[i].next are the two lists; indices are u8 in Rust and
   the model requires N <= 255 where that matters (RegisterAllocator::new asserts it). *)
From Coq Require Import List Arith.
From FV Require Import Tape.
Import ListNotations.

Record lru := { l_prev : list nat; l_next : list nat; l_head : nat }.

Definition lget (l : list nat) (i : nat) : nat := nth i l 0.

Definition lru_new (n : nat) : lru :=
  {| l_prev := map (fun i => match i with O => n - 1 | S j => j end) (seq 0 n);
     l_next := map (fun i => (i + 1) mod n) (seq 0 n);
     l_head := 0 |}.

Definition lru_remove (l : lru) (i : nat) : lru :=
  let p := lget (l_prev l) i in
  let n := lget (l_next l) i in
  {| l_prev := list_upd (l_prev l) n p;
     l_next := list_upd (l_next l) p n;
     l_head := l_head l |}.

Definition lru_insert_before (l : lru) (i next : nat) : lru :=
  let prev := lget (l_prev l) next in
  let nx := list_upd (l_next l) prev i in
  let pv := list_upd (l_prev l) next i in
  {| l_prev := list_upd pv i prev;
     l_next := list_upd nx i next;
     l_head := l_head l |}.

Definition lru_poke (l : lru) (i : nat) : lru :=
  let h := l_head l in
  if Nat.eqb h i then l
  else if negb (Nat.eqb (lget (l_prev l) h) i) then
    let l1 := lru_remove l i in
    let l2 := lru_insert_before l1 i (l_head l1) in
    {| l_prev := l_prev l2; l_next := l_next l2; l_head := i |}
  else {| l_prev := l_prev l; l_next := l_next l; l_head := i |}.

Definition lru_pop (l : lru) : nat * lru :=
  let out := lget (l_prev l) (l_head l) in
  (out, {| l_prev := l_prev l; l_next := l_next l; l_head := out |}).
