(* GradValue.v — the value lane of the gradient evaluator is a point evaluation:
   for every float structure, the gradient semantics projected on `gv` is the point
   semantics [pv_sem] below, opcode by opcode and hence (Related.tape_related) for every
   tape.  [pv_sem] at f32 is f32_sem except that min/max of equal operands return the
   right operand (Grad::min / Grad::max) — equal as numbers, possibly the other zero. *)
From Coq Require Import List Bool Arith.
From FV Require Import Ops Tape Interval Grad Related.
Import ListNotations.

Section GradValue.
Context {T : Type}.
Variable F : FL T.
Variable div_euclid : T -> T -> T.
Notation G := (grad T).

Definition p_un (u : uop) (x : T) : T := gv (g_un F u (gfrom F x)).
Definition p_bin (b : bop) (x y : T) : T := gv (g_bin F div_euclid b (gfrom F x) (gfrom F y)).

Definition pv_sem : Sem T T :=
  {| s_dflt := fl_nan _ F; s_imm := fun c => c; s_un := p_un; s_rr := p_bin;
     s_ri := fun b x c => match b with BMul => fl_mul _ F x c | _ => p_bin b x c end;
     s_ir := fun b c x => p_bin b c x;
     s_ch_rr := fun _ _ _ => TUnknown; s_ch_ri := fun _ _ _ => TUnknown |}.

Definition vrel (v : T) (g : G) : Prop := gv g = v.

Lemma un_value u g : gv (g_un F u g) = p_un u (gv g).
Proof. destruct u; unfold p_un; simpl; try reflexivity; unfold gabs, gfrom; simpl;
  repeat match goal with |- context [if ?c then _ else _] => destruct c end; reflexivity. Qed.

Lemma bin_value b x y : gv (g_bin F div_euclid b x y) = p_bin b (gv x) (gv y).
Proof. destruct b; unfold p_bin; simpl; try reflexivity;
  unfold gmin, gmax, gand, gor, gcompare, gfrom; simpl;
  repeat match goal with |- context [if ?c then _ else _] => destruct c end; reflexivity. Qed.

Lemma value_preserved : preserved pv_sem (grad_sem F div_euclid) vrel (fun _ => True).
Proof.
  constructor; unfold vrel; simpl.
  - reflexivity.
  - intros u x y _ <- _. apply un_value.
  - intros b x1 y1 x2 y2 _ _ <- <- _. apply bin_value.
  - intros b x y c _ <- _. destruct b; try (rewrite bin_value; reflexivity). reflexivity.
  - intros b c x y _ <- _. rewrite bin_value. reflexivity.
Qed.

Theorem grad_value_lane (tape : list (op T)) (pins : list T) (gins : list G) e0a e0b :
  Forall2 vrel pins gins ->
  reads_written (rev tape) [] ->
  forall n,
  Forall2 vrel (m_out (eval_tape pv_sem tape pins e0a (repeat (fl_nan _ F) n)))
               (m_out (eval_tape (grad_sem F div_euclid) tape gins e0b (repeat (gfrom F (fl_nan _ F)) n))).
Proof.
  intros Hin Hr n.
  assert (Hd : vrel (s_dflt pv_sem) (s_dflt (grad_sem F div_euclid))) by reflexivity.
  assert (Ho : Forall2 vrel (repeat (fl_nan _ F) n) (repeat (gfrom F (fl_nan _ F)) n)).
  { induction n; simpl; constructor; [reflexivity | assumption]. }
  assert (Hg : forall l s, all_good pv_sem (fun _ => True) pins l s).
  { induction l as [|o l IH]; intros s; simpl; [exact I|].
    split; [destruct (op_out o); exact I | apply IH]. }
  exact (tape_related pv_sem (grad_sem F div_euclid) vrel (fun _ => True) value_preserved pins gins Hin Hd
           tape e0a e0b _ _ Ho Hr (Hg _ _)).
Qed.

End GradValue.
