(* SsaWf.v — well-formedness of a root-first SSA tape, as a boolean check.
   Walking root-first: [live] = variables used so far whose definition has not been
   met yet; [defd] = variables whose definition has been met.
   - a definition must be of a live variable (it is used by something nearer the
     root), not defined twice, and none of its arguments may already be defined
     (uses come before definitions in root-first order = after them in evaluation);
   - at the end nothing is live (every used variable is defined);
   - every variable index is below the tape length (RegisterAllocator::new sizes
     `allocations` by ssa.len()). *)
From Coq Require Import List Bool Arith.
From FV Require Import Ops Tape.
Import ListNotations.

Section SsaWf.
Context {I : Type}.
Notation op := (Tape.op I).

Definition mem (x : nat) (l : list nat) : bool := existsb (Nat.eqb x) l.
Definition remove_nat (x : nat) (l : list nat) : list nat := filter (fun y => negb (Nat.eqb x y)) l.
Definition add_nat (x : nat) (l : list nat) : list nat := if mem x l then l else x :: l.

Definition wf_step (bound : nat) (o : op) (st : list nat * list nat) : option (list nat * list nat) :=
  let '(live, defd) := st in
  if negb (is_ssa_op o) then None else
  let args := op_args o in
  match op_out o with
  | Some out =>
      if mem out live && negb (mem out defd) && Nat.ltb out bound
         && forallb (fun a => negb (mem a (out :: defd)) && Nat.ltb a bound) args
      then Some (fold_right add_nat (remove_nat out live) args, out :: defd)
      else None
  | None =>
      if forallb (fun a => negb (mem a defd) && Nat.ltb a bound) args
      then Some (fold_right add_nat live args, defd)
      else None
  end.

Fixpoint wf_walk (bound : nat) (t : list op) (st : list nat * list nat) : bool :=
  match t with
  | [] => match fst st with [] => true | _ => false end
  | o :: rest =>
      match wf_step bound o st with
      | Some st' => wf_walk bound rest st'
      | None => false
      end
  end.

Definition ssa_wf (t : list op) : bool := wf_walk (length t) t ([], []).

End SsaWf.
