(* QefBound.v — where a leaf vertex may end up (fidget-mesh/src/octree.rs, leaf construction, after the repair
   29e1b5b).  The QEF minimiser is unbounded; the leaf keeps its solution when it lies within one cell size of the
   cell on every axis and otherwise falls back to the mass point of the edge crossings.  Per axis, over the reals:
   the mass point of points of the cell lies in the cell, hence every stored vertex lies within one cell size of
   its cell, whatever the minimiser returned.  (The harness measures exactly this distance on every mesh through
   the leaves hook.) *)
From Coq Require Import List Reals Lra.
Import ListNotations.
Local Open Scope R_scope.

Definition sumR (l : list R) : R := fold_right Rplus 0 l.
Definition mean (l : list R) : R := sumR l / INR (length l).

Lemma sumR_bounds lo hi l :
  Forall (fun x => lo <= x <= hi) l -> INR (length l) * lo <= sumR l <= INR (length l) * hi.
Proof.
  induction 1 as [|x l Hx _ IH].
  - simpl. lra.
  - change (length (x :: l)) with (S (length l)). rewrite S_INR. simpl sumR. destruct Hx, IH. split; lra.
Qed.

(* the mass point of crossings that lie on the cell's edges (so: in the cell) lies in the cell *)
Theorem mass_point_in_cell lo hi l :
  l <> [] -> Forall (fun x => lo <= x <= hi) l -> lo <= mean l <= hi.
Proof.
  intros Hne H. unfold mean.
  assert (Hn : 0 < INR (length l)) by (destruct l; [contradiction|]; apply lt_0_INR; simpl; apply Nat.lt_0_succ).
  destruct (sumR_bounds lo hi l H) as [H1 H2].
  split.
  - apply Rmult_le_reg_r with (INR (length l)); [exact Hn|]. unfold Rdiv. rewrite Rmult_assoc, Rinv_l by lra. lra.
  - apply Rmult_le_reg_r with (INR (length l)); [exact Hn|]. unfold Rdiv. rewrite Rmult_assoc, Rinv_l by lra. lra.
Qed.

(* one axis of the test: is the solution more than a cell size outside the cell? *)
Definition far1 (lo hi pos : R) : Prop := pos < lo - (hi - lo) \/ pos > hi + (hi - lo).

(* the stored coordinate: the solution, or the mass point when the solution is far on SOME axis *)
Definition within1 (lo hi v : R) : Prop := lo - (hi - lo) <= v <= hi + (hi - lo).

Theorem kept_solution_is_near lo hi pos : ~ far1 lo hi pos -> within1 lo hi pos.
Proof. unfold far1, within1. intros H. split; apply Rnot_lt_le; intro; apply H; [left|right]; lra. Qed.

Theorem fallback_is_inside lo hi l :
  lo <= hi -> l <> [] -> Forall (fun x => lo <= x <= hi) l -> within1 lo hi (mean l).
Proof. intros Hle Hne H. destruct (mass_point_in_cell lo hi l Hne H). unfold within1. lra. Qed.

(* three axes: the vertex of a leaf, given the minimiser's answer [pos] (ANY three reals) and the crossings *)
Definition far3 (lo hi pos : R * R * R) : Prop :=
  let '(lx, ly, lz) := lo in let '(hx, hy, hz) := hi in let '(px, py, pz) := pos in
  far1 lx hx px \/ far1 ly hy py \/ far1 lz hz pz.
Definition within3 (lo hi v : R * R * R) : Prop :=
  let '(lx, ly, lz) := lo in let '(hx, hy, hz) := hi in let '(vx, vy, vz) := v in
  within1 lx hx vx /\ within1 ly hy vy /\ within1 lz hz vz.

Theorem leaf_vertex_within_one_cell_size (lo hi pos : R * R * R) (xs ys zs : list R) (v : R * R * R) :
  let '(lx, ly, lz) := lo in let '(hx, hy, hz) := hi in
  lx <= hx -> ly <= hy -> lz <= hz ->
  xs <> [] -> ys <> [] -> zs <> [] ->
  Forall (fun x => lx <= x <= hx) xs -> Forall (fun y => ly <= y <= hy) ys -> Forall (fun z => lz <= z <= hz) zs ->
  (* the stored vertex is the solution unless that is far, else the mass point *)
  ((~ far3 lo hi pos /\ v = pos) \/ (far3 lo hi pos /\ v = (mean xs, mean ys, mean zs))) ->
  within3 lo hi v.
Proof.
  destruct lo as [[lx ly] lz], hi as [[hx hy] hz], pos as [[px py] pz], v as [[vx vy] vz].
  intros Hx Hy Hz Nx Ny Nz Fx Fy Fz [[Hn E]|[_ E]]; inversion E; subst; unfold within3.
  - unfold far3 in Hn. repeat split; apply kept_solution_is_near; intro F; apply Hn; auto.
  - repeat split; apply fallback_is_inside; assumption.
Qed.
