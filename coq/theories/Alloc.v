(* Alloc.v — compiler/alloc.rs, RegisterAllocator<N>, field for field.
   UNASSIGNED (u32::MAX) is [None]; every assert!/unwrap/slice index/panic! on the
   path is an [Err] with a code naming it. *)
From Coq Require Import List Bool Arith.
From FV Require Import Ops Tape Lru.
Import ListNotations.

Inductive result (A : Type) := Ok (a : A) | Err (code : nat).
Arguments Ok {A}. Arguments Err {A}.

Section Alloc.
Context {I : Type}.
Notation op := (Tape.op I).

Record ast := {
  a_n : nat;                       (* the const generic N *)
  a_alloc : list (option nat);     (* allocations *)
  a_regs : list (option nat);      (* registers *)
  a_lru : lru;                     (* register_lru *)
  a_spare_regs : list nat;         (* spare_registers; head = back of the Vec *)
  a_spare_mem : list nat;          (* spare_memory; head = back of the Vec *)
  a_out : list op;                 (* out.tape; head = most recently pushed,
                                      so this list is in evaluation order *)
  a_slot_count : nat               (* out.slot_count *)
}.

Definition M (A : Type) := ast -> result (A * ast).
Definition ret {A} (a : A) : M A := fun s => Ok (a, s).
Definition bind {A B} (m : M A) (f : A -> M B) : M B :=
  fun s => match m s with Ok (a, s') => f a s' | Err c => Err c end.
Definition fail {A} (c : nat) : M A := fun _ => Err c.
Definition get : M ast := fun s => Ok (s, s).
Definition put (s : ast) : M unit := fun _ => Ok (tt, s).
Definition assert (b : bool) (c : nat) : M unit := if b then ret tt else fail c.

Notation "x <- m ;; f" := (bind m (fun x => f)) (at level 61, m at next level, right associativity).
Notation "m ;;; f" := (bind m (fun _ => f)) (at level 61, right associativity).

Definition set_alloc (s : ast) v := {| a_n := a_n s; a_alloc := v; a_regs := a_regs s; a_lru := a_lru s;
  a_spare_regs := a_spare_regs s; a_spare_mem := a_spare_mem s; a_out := a_out s; a_slot_count := a_slot_count s |}.
Definition set_regs (s : ast) v := {| a_n := a_n s; a_alloc := a_alloc s; a_regs := v; a_lru := a_lru s;
  a_spare_regs := a_spare_regs s; a_spare_mem := a_spare_mem s; a_out := a_out s; a_slot_count := a_slot_count s |}.
Definition set_lru (s : ast) v := {| a_n := a_n s; a_alloc := a_alloc s; a_regs := a_regs s; a_lru := v;
  a_spare_regs := a_spare_regs s; a_spare_mem := a_spare_mem s; a_out := a_out s; a_slot_count := a_slot_count s |}.
Definition set_spare_regs (s : ast) v := {| a_n := a_n s; a_alloc := a_alloc s; a_regs := a_regs s; a_lru := a_lru s;
  a_spare_regs := v; a_spare_mem := a_spare_mem s; a_out := a_out s; a_slot_count := a_slot_count s |}.
Definition set_spare_mem (s : ast) v := {| a_n := a_n s; a_alloc := a_alloc s; a_regs := a_regs s; a_lru := a_lru s;
  a_spare_regs := a_spare_regs s; a_spare_mem := v; a_out := a_out s; a_slot_count := a_slot_count s |}.
Definition set_out (s : ast) v := {| a_n := a_n s; a_alloc := a_alloc s; a_regs := a_regs s; a_lru := a_lru s;
  a_spare_regs := a_spare_regs s; a_spare_mem := a_spare_mem s; a_out := v; a_slot_count := a_slot_count s |}.
Definition set_slot_count (s : ast) v := {| a_n := a_n s; a_alloc := a_alloc s; a_regs := a_regs s; a_lru := a_lru s;
  a_spare_regs := a_spare_regs s; a_spare_mem := a_spare_mem s; a_out := a_out s; a_slot_count := v |}.

(* RegisterAllocator::new(size) / reset(size, tape): same field values *)
Definition alloc_new (n size : nat) : ast :=
  {| a_n := n;
     a_alloc := repeat None size;
     a_regs := repeat None n;
     a_lru := lru_new n;
     a_spare_regs := seq 0 n;   (* (0..N).rev() collected: back of Vec is 0 *)
     a_spare_mem := [];
     a_out := [];
     a_slot_count := 0 |}.

(* indexing helpers: a Rust slice index out of range panics *)
Definition alloc_at (n : nat) : M (option nat) :=
  fun s => match nth_error (a_alloc s) n with Some v => Ok (v, s) | None => Err 1 end.
Definition reg_at (r : nat) : M (option nat) :=
  fun s => match nth_error (a_regs s) r with Some v => Ok (v, s) | None => Err 2 end.
Definition write_alloc (n : nat) (v : option nat) : M unit :=
  fun s => if Nat.ltb n (length (a_alloc s)) then Ok (tt, set_alloc s (list_upd (a_alloc s) n v)) else Err 3.
Definition write_reg (r : nat) (v : option nat) : M unit :=
  fun s => if Nat.ltb r (length (a_regs s)) then Ok (tt, set_regs s (list_upd (a_regs s) r v)) else Err 4.
Definition push (o : op) : M unit := fun s => Ok (tt, set_out s (o :: a_out s)).
Definition poke (r : nat) : M unit := fun s => Ok (tt, set_lru s (lru_poke (a_lru s) r)).

Inductive allocation := ARegister (r : nat) | AMemory (m : nat) | AUnassigned.

Definition get_memory : M nat :=
  s <- get ;;
  match a_spare_mem s with
  | p :: rest => put (set_spare_mem s rest) ;;; ret p
  | [] =>
      let out := a_slot_count s in
      put (set_slot_count s (out + 1)) ;;;
      assert (Nat.leb (a_n s) out) 10 ;;;
      ret out
  end.

Definition oldest_reg : M nat :=
  s <- get ;;
  let '(r, l) := lru_pop (a_lru s) in
  put (set_lru s l) ;;; ret r.

Definition get_allocation (n : nat) : M allocation :=
  v <- alloc_at n ;;
  s <- get ;;
  match v with
  | Some i => if Nat.ltb i (a_n s) then poke i ;;; ret (ARegister i) else ret (AMemory i)
  | None => ret AUnassigned
  end.

Definition get_spare_register : M (option nat) :=
  s <- get ;;
  match a_spare_regs s with
  | r :: rest =>
      put (set_slot_count (set_spare_regs s rest) (Nat.max (a_slot_count s) (r + 1))) ;;;
      ret (Some r)
  | [] => ret None
  end.

Definition get_register : M nat :=
  sp <- get_spare_register ;;
  match sp with
  | Some reg =>
      v <- reg_at reg ;;
      assert (match v with None => true | Some _ => false end) 11 ;;;
      poke reg ;;; ret reg
  | None =>
      reg <- oldest_reg ;;
      mem <- get_memory ;;
      prev <- reg_at reg ;;
      match prev with
      | None => fail 12    (* allocations[u32::MAX]: index out of bounds *)
      | Some prev_node =>
          write_alloc prev_node (Some mem) ;;;
          write_reg reg None ;;;
          push (OLoad reg mem) ;;;
          ret reg
      end
  end.

Definition alloc_ge_n (v : option nat) (n : nat) : bool :=
  match v with None => true | Some i => Nat.leb n i end.

Definition rebind_register (n reg : nat) : M unit :=
  s <- get ;;
  v <- alloc_at n ;;
  assert (alloc_ge_n v (a_n s)) 13 ;;;
  p <- reg_at reg ;;
  match p with
  | None => fail 14
  | Some prev_node =>
      write_alloc prev_node None ;;;
      write_reg reg (Some n) ;;;
      write_alloc n (Some reg)
  end.

Definition bind_register (n reg : nat) : M unit :=
  s <- get ;;
  v <- alloc_at n ;;
  assert (alloc_ge_n v (a_n s)) 15 ;;;
  p <- reg_at reg ;;
  match p with
  | Some _ => fail 16
  | None => write_reg reg (Some n) ;;; write_alloc n (Some reg)
  end.

Definition release_reg (reg : nat) : M unit :=
  s <- get ;;
  assert (Nat.ltb reg (a_n s)) 17 ;;;
  p <- reg_at reg ;;
  match p with
  | None => fail 18
  | Some node =>
      write_reg reg None ;;;
      (fun s => Ok (tt, set_spare_regs s (reg :: a_spare_regs s))) ;;;
      write_alloc node None
  end.

Definition release_mem (mem : nat) : M unit :=
  s <- get ;;
  assert (Nat.leb (a_n s) mem) 19 ;;;
  put (set_spare_mem s (mem :: a_spare_mem s)).

Definition push_store (reg mem : nat) : M unit :=
  push (OStore reg mem) ;;; release_mem mem.

Definition get_out_reg (out : nat) : M nat :=
  a <- get_allocation out ;;
  match a with
  | ARegister r => ret r
  | AMemory m =>
      r_a <- get_register ;;
      push_store r_a m ;;;
      bind_register out r_a ;;;
      ret r_a
  | AUnassigned => fail 20   (* "Cannot have unassigned output" *)
  end.

Definition op_reg_fn (out arg : nat) (mk : nat -> nat -> op) : M unit :=
  r_x <- get_out_reg out ;;
  a <- get_allocation arg ;;
  match a with
  | ARegister r_y =>
      assert (negb (Nat.eqb r_x r_y)) 21 ;;;
      push (mk r_x r_y) ;;;
      release_reg r_x
  | AMemory m_y =>
      r_a <- get_register ;;
      push_store r_a m_y ;;;
      push (mk r_x r_a) ;;;
      release_reg r_x ;;;
      bind_register arg r_a
  | AUnassigned =>
      push (mk r_x r_x) ;;;
      rebind_register arg r_x
  end.

Definition op_reg_reg (out lhs rhs : nat) (mk : nat -> nat -> nat -> op) : M unit :=
  r_x <- get_out_reg out ;;
  al <- get_allocation lhs ;;
  ar <- get_allocation rhs ;;
  match al, ar with
  | ARegister r_y, ARegister r_z =>
      push (mk r_x r_y r_z) ;;; release_reg r_x
  | AMemory m_y, ARegister r_z =>
      r_a <- get_register ;;
      push_store r_a m_y ;;;
      push (mk r_x r_a r_z) ;;;
      release_reg r_x ;;;
      bind_register lhs r_a
  | ARegister r_y, AMemory m_z =>
      r_a <- get_register ;;
      push_store r_a m_z ;;;
      push (mk r_x r_y r_a) ;;;
      release_reg r_x ;;;
      bind_register rhs r_a
  | AMemory m_y, AMemory m_z =>
      if Nat.eqb lhs rhs then
        r_a <- get_register ;;
        push_store r_a m_y ;;;
        push (mk r_x r_a r_a) ;;;
        release_reg r_x ;;;
        bind_register lhs r_a
      else
        r_a <- get_register ;;
        r_b <- get_register ;;
        push_store r_a m_y ;;;
        push_store r_b m_z ;;;
        push (mk r_x r_a r_b) ;;;
        release_reg r_x ;;;
        bind_register lhs r_a ;;;
        bind_register rhs r_b
  | AUnassigned, ARegister r_z =>
      push (mk r_x r_x r_z) ;;; rebind_register lhs r_x
  | ARegister r_y, AUnassigned =>
      push (mk r_x r_y r_x) ;;; rebind_register rhs r_x
  | AUnassigned, AUnassigned =>
      if Nat.eqb lhs rhs then
        push (mk r_x r_x r_x) ;;; rebind_register lhs r_x
      else
        r_a <- get_register ;;
        push (mk r_x r_x r_a) ;;;
        rebind_register lhs r_x ;;;
        bind_register rhs r_a
  | AUnassigned, AMemory m_z =>
      r_a <- get_register ;;
      assert (negb (Nat.eqb r_a r_x)) 22 ;;;
      assert (negb (Nat.eqb lhs rhs)) 23 ;;;
      push_store r_a m_z ;;;
      push (mk r_x r_x r_a) ;;;
      rebind_register lhs r_x ;;;
      bind_register rhs r_a
  | AMemory m_y, AUnassigned =>
      r_a <- get_register ;;
      assert (negb (Nat.eqb r_a r_x)) 24 ;;;
      assert (negb (Nat.eqb lhs rhs)) 25 ;;;
      push_store r_a m_y ;;;
      push (mk r_x r_a r_x) ;;;
      bind_register lhs r_a ;;;
      rebind_register rhs r_x
  end.

Definition op_out_only (out : nat) (mk : nat -> op) : M unit :=
  r_x <- get_out_reg out ;;
  push (mk r_x) ;;;
  release_reg r_x.

Definition op_output (arg i : nat) : M unit :=
  a <- get_allocation arg ;;
  match a with
  | ARegister r_y => push (OOutput r_y i)
  | AMemory m_y =>
      r_a <- get_register ;;
      push_store r_a m_y ;;;
      push (OOutput r_a i) ;;;
      bind_register arg r_a
  | AUnassigned =>
      r_a <- get_register ;;
      push (OOutput r_a i) ;;;
      bind_register arg r_a
  end.

(* RegisterAllocator::op *)
Definition alloc_op (o : op) : M unit :=
  match o with
  | OOutput arg i => op_output arg i
  | OInput out i => op_out_only out (fun r => OInput r i)
  | OCopyImm out imm => op_out_only out (fun r => OCopyImm r imm)
  | OUn u out arg => op_reg_fn out arg (fun o a => OUn u o a)
  | OBinRI b out arg imm => op_reg_fn out arg (fun o a => OBinRI b o a imm)
  | OBinIR b out arg imm => op_reg_fn out arg (fun o a => OBinIR b o a imm)
  | OBinRR b out lhs rhs => op_reg_reg out lhs rhs (fun o l r => OBinRR b o l r)
  | OLoad _ _ | OStore _ _ => fail 30   (* not an SsaOp *)
  end.

Fixpoint alloc_ops (ops : list op) : M unit :=
  match ops with
  | [] => ret tt
  | o :: rest => alloc_op o ;;; alloc_ops rest
  end.

(* Allocation of a whole root-first tape with an `allocations` vector of [size]
   entries.  RegisterAllocator::new asserts N <= 255. *)
Definition reg_tape_alloc (n size : nat) (ssa : list op) : result (list op * nat) :=
  if Nat.ltb 255 n then Err 31 else
  if Nat.eqb n 0 then Err 32 else   (* Lru::new: (i + 1) % 0 *)
  match alloc_ops ssa (alloc_new n size) with
  | Ok (_, s) => Ok (rev (a_out s), a_slot_count s)
  | Err c => Err c
  end.

(* RegTape::new::<N>(ssa): returns (tape root-first as RegTape::tape, slot_count). *)
Definition reg_tape_new (n : nat) (ssa : list op) : result (list op * nat) :=
  reg_tape_alloc n (length ssa) ssa.

End Alloc.
Arguments ast : clear implicits.
