(* IntervalTrig.v — enclosure (C03) of isin, icos (quadrant logic) and itan over the
   extended reals with NaN. *)
From Coq Require Import Reals Lra Lia ZArith Psatz List Bool.
From FV Require Import Ops Tape Interval ER TrigLemmas ERLemmas IntervalTotal.
Local Open Scope R_scope.

Arguments quadrant : simpl never.

Definition quad_of_Z (m : Z) : quad :=
  match m with 1%Z => Q1 | 2%Z => Q2 | 3%Z => Q3 | _ => Q0 end.

(* ---- order of quarter-turn indices --------------------------------------------------------- *)
Lemma qz_order a1 a2 : a1 < a2 -> a2 - a1 < 2 * PI -> (qz a1 <= qz a2 <= qz a1 + 4)%Z.
Proof.
  intros H1 H2. apply U_lt in H1, H2. rewrite U_sub, U_2PI in H2.
  pose proof (qz_spec a1). pose proof (qz_spec a2). split.
  - assert (qz a1 < qz a2 + 1)%Z; [|lia]. apply lt_IZR. rewrite plus_IZR. lra.
  - assert (qz a2 < qz a1 + 5)%Z; [|lia]. apply lt_IZR. rewrite plus_IZR. lra.
Qed.
Lemma qz_order_small a1 a2 : a1 < a2 -> a2 - a1 < PI -> (qz a2 <= qz a1 + 2)%Z.
Proof.
  intros H1 H2. apply U_lt in H1, H2. rewrite U_sub, U_PI in H2.
  pose proof (qz_spec a1). pose proof (qz_spec a2).
  assert (qz a2 < qz a1 + 3)%Z; [|lia]. apply lt_IZR. rewrite plus_IZR. lra.
Qed.

(* ---- peaks and troughs --------------------------------------------------------------------- *)
Lemma sin_min_lb k a1 a2 x :
  4 * IZR k - 1 <= U a1 -> U a1 <= 4 * IZR k + 1 -> 4 * IZR k + 1 <= U a2 -> U a2 <= 4 * IZR k + 3 ->
  U a1 <= U x -> U x <= U a2 ->
  er_le (er_min (EFin (sin a1)) (EFin (sin a2))) (EFin (sin x)).
Proof.
  intros. destruct (Rle_dec (U x) (4 * IZR k + 1)).
  - apply er_min_lb_l. cbn. apply (sin_incr_U k); lra.
  - apply er_min_lb_r. cbn. apply (sin_decr_U k); lra.
Qed.
Lemma sin_max_ub k a1 a2 x :
  4 * IZR k + 1 <= U a1 -> U a1 <= 4 * IZR k + 3 -> 4 * IZR k + 3 <= U a2 -> U a2 <= 4 * IZR k + 5 ->
  U a1 <= U x -> U x <= U a2 ->
  er_le (EFin (sin x)) (er_max (EFin (sin a1)) (EFin (sin a2))).
Proof.
  intros. destruct (Rle_dec (U x) (4 * IZR k + 3)).
  - apply er_max_ub_l. cbn. apply (sin_decr_U k); lra.
  - apply er_max_ub_r. cbn. apply (sin_incr_U (k + 1)); rewrite ?plus_IZR; lra.
Qed.
Lemma cos_min_lb k a1 a2 x :
  4 * IZR k - 2 <= U a1 -> U a1 <= 4 * IZR k -> 4 * IZR k <= U a2 -> U a2 <= 4 * IZR k + 2 ->
  U a1 <= U x -> U x <= U a2 ->
  er_le (er_min (EFin (cos a1)) (EFin (cos a2))) (EFin (cos x)).
Proof.
  intros. destruct (Rle_dec (U x) (4 * IZR k)).
  - apply er_min_lb_l. cbn. apply (cos_incr_U (k - 1)); rewrite ?minus_IZR; lra.
  - apply er_min_lb_r. cbn. apply (cos_decr_U k); lra.
Qed.
Lemma cos_max_ub k a1 a2 x :
  4 * IZR k <= U a1 -> U a1 <= 4 * IZR k + 2 -> 4 * IZR k + 2 <= U a2 -> U a2 <= 4 * IZR k + 4 ->
  U a1 <= U x -> U x <= U a2 ->
  er_le (EFin (cos x)) (er_max (EFin (cos a1)) (EFin (cos a2))).
Proof.
  intros. destruct (Rle_dec (U x) (4 * IZR k + 2)).
  - apply er_max_ub_l. cbn. apply (cos_decr_U k); lra.
  - apply er_max_ub_r. cbn. apply (cos_incr_U k); lra.
Qed.

(* integer/real glue for the sixteen quadrant pairs *)
Ltac zsetup a1 a2 x A1 A2 Hlt Hw :=
  pose proof (qz_spec a1) as S1; pose proof (qz_spec a2) as S2;
  pose proof (qz_order a1 a2 Hlt Hw) as Ho;
  pose proof (U_le _ _ A1) as X1; pose proof (U_le _ _ A2) as X2;
  pose proof (Z.mod_pos_bound (qz a1) 4 ltac:(lia)) as M1;
  pose proof (Z.mod_pos_bound (qz a2) 4 ltac:(lia)) as M2;
  pose proof (Z.div_mod (qz a1) 4 ltac:(lia)) as D1;
  pose proof (Z.div_mod (qz a2) 4 ltac:(lia)) as D2;
  set (k1 := (qz a1 / 4)%Z) in *; set (k2 := (qz a2 / 4)%Z) in *;
  set (m1 := (qz a1 mod 4)%Z) in *; set (m2 := (qz a2 mod 4)%Z) in *;
  clearbody k1 k2 m1 m2;
  set (z1 := qz a1) in *; set (z2 := qz a2) in *; clearbody z1 z2.

(* try the monotone-window / peak lemmas with the candidate periods *)
Ltac izr := rewrite ?plus_IZR, ?minus_IZR, ?mult_IZR in *.
Ltac win k :=
  first
  [ solve [apply (sin_incr_U k); izr; lra] | solve [apply (sin_decr_U k); izr; lra]
  | solve [apply (cos_incr_U k); izr; lra] | solve [apply (cos_decr_U k); izr; lra]
  | solve [apply (sin_min_lb k); izr; lra] | solve [apply (sin_max_ub k); izr; lra]
  | solve [apply (cos_min_lb k); izr; lra] | solve [apply (cos_max_ub k); izr; lra] ].
Ltac wins k1 := first [ win k1 | win (k1 + 1)%Z | win (k1 - 1)%Z ].

Section Trig.
Variable rnd : er -> er.
Variable mix : er -> er -> er.
Notation F := (er_fl_gen rnd mix).

(* (angle * 2 / PI).floor().rem_euclid(4): the quarter-turn index modulo 4 *)
Lemma quadrant_fin t : quadrant F (EFin t) = quad_of_Z (qz t mod 4).
Proof.
  unfold quadrant. cbn [fl_quadrant er_fl_gen]. unfold er_quadrant. cbn [er_mul er_div er_floor er_lift].
  pose proof PI_RGT_0.
  destruct (Req_EM_T PI 0) as [E|_]; [lra|]. cbn [er_floor er_lift er_rem_euclid].
  destruct (Req_EM_T 4 0) as [E|_]; [lra|].
  replace (Rabs 4) with 4 by (symmetry; apply Rabs_pos_eq; lra).
  change (Rfloor (t * 2 / PI)) with (IZR (qz t)).
  set (z := qz t). rewrite Rfloor_div4.
  pose proof (Z.mod_pos_bound z 4 ltac:(lia)) as Hm. pose proof (Z.div_mod z 4 ltac:(lia)) as Hd.
  assert (Hv : IZR z - 4 * IZR (z / 4) = IZR (z mod 4)).
  { rewrite Hd at 1. rewrite plus_IZR, mult_IZR. ring. }
  rewrite Hv. cbn [er_eqb]. unfold Reqb.
  assert (C : (z mod 4 = 0 \/ z mod 4 = 1 \/ z mod 4 = 2 \/ z mod 4 = 3)%Z) by lia.
  destruct C as [C|[C|[C|C]]]; rewrite C; cbn [quad_of_Z];
    repeat (destruct (Req_EM_T _ _); try lra); reflexivity.
Qed.

Lemma isin_sound : sound1s (isin F) er_sin.
Proof.
  start1 a x. intros Hn r H. unfold isin, full_trig, width, has_nan in H. fl_red_in H. clear Va Ea.
  destruct Ca as [[-> ->]|[A1 A2]]; [cbn in H; nan_res H|].
  unfold er_sin, er_trig in *.
  destruct x as [| | |x]; try (exfalso; now apply Hn).
  pose proof (SIN_bound x) as SB.
  destruct a1 as [| | |a1], a2 as [| | |a2]; try contradiction;
    try (cbn in H; signs; res_inew H Hn; atom; fail).
  cbn [er_is_nan orb er_sub er_eqb] in H. unfold ge in H. fl_red_in H. cbn [er_leb] in H.
  unfold Rleb, Reqb in H. cbn in A1, A2.
  destruct (Rle_dec (2 * PI) (a2 - a1)) as [W|W]; [res_inew H Hn; atom|].
  destruct (Req_EM_T a1 a2) as [E|E].
  { subst a2. assert (x = a1) by lra. subst x. res_inew H Hn; atom. }
  assert (Hlt : a1 < a2) by lra. assert (Hw : a2 - a1 < 2 * PI) by lra.
  rewrite !quadrant_fin in H.
  destruct (Rle_dec PI (a2 - a1)) as [B|B].
  - (* big *)
    zsetup a1 a2 x A1 A2 Hlt Hw.
    assert (C1 : (m1 = 0 \/ m1 = 1 \/ m1 = 2 \/ m1 = 3)%Z) by lia.
    assert (C2 : (m2 = 0 \/ m2 = 1 \/ m2 = 2 \/ m2 = 3)%Z) by lia.
    destruct C1 as [C1|[C1|[C1|C1]]], C2 as [C2|[C2|[C2|C2]]]; subst m1 m2; cbn [quad_of_Z] in H;
      (res_inew H Hn; intros _; cbn [er_le]; split; try lra);
      (assert (K : (k2 = k1 \/ k2 = k1 + 1)%Z) by lia; destruct K; subst k2; try lia; subst z1 z2; izr;
       wins k1).
  - assert (Hs : a2 - a1 < PI) by lra. pose proof (qz_order_small a1 a2 Hlt Hs) as Hos.
    zsetup a1 a2 x A1 A2 Hlt Hw.
    assert (C1 : (m1 = 0 \/ m1 = 1 \/ m1 = 2 \/ m1 = 3)%Z) by lia.
    assert (C2 : (m2 = 0 \/ m2 = 1 \/ m2 = 2 \/ m2 = 3)%Z) by lia.
    destruct C1 as [C1|[C1|[C1|C1]]], C2 as [C2|[C2|[C2|C2]]]; subst m1 m2; cbn [quad_of_Z] in H;
      (res_inew H Hn; intros _; cbn [er_le]; split; try lra);
      (assert (K : (k2 = k1 \/ k2 = k1 + 1)%Z) by lia; destruct K; subst k2; try lia; subst z1 z2; izr;
       wins k1).
Qed.

Lemma icos_sound : sound1s (icos F) er_cos.
Proof.
  start1 a x. intros Hn r H. unfold icos, full_trig, width, has_nan in H. fl_red_in H. clear Va Ea.
  destruct Ca as [[-> ->]|[A1 A2]]; [cbn in H; nan_res H|].
  unfold er_cos, er_trig in *.
  destruct x as [| | |x]; try (exfalso; now apply Hn).
  pose proof (COS_bound x) as SB.
  destruct a1 as [| | |a1], a2 as [| | |a2]; try contradiction;
    try (cbn in H; signs; res_inew H Hn; atom; fail).
  cbn [er_is_nan orb er_sub er_eqb] in H. unfold ge in H. fl_red_in H. cbn [er_leb] in H.
  unfold Rleb, Reqb in H. cbn in A1, A2.
  destruct (Rle_dec (2 * PI) (a2 - a1)) as [W|W]; [res_inew H Hn; atom|].
  destruct (Req_EM_T a1 a2) as [E|E].
  { subst a2. assert (x = a1) by lra. subst x. res_inew H Hn; atom. }
  assert (Hlt : a1 < a2) by lra. assert (Hw : a2 - a1 < 2 * PI) by lra.
  rewrite !quadrant_fin in H.
  destruct (Rle_dec PI (a2 - a1)) as [B|B].
  - (* big *)
    zsetup a1 a2 x A1 A2 Hlt Hw.
    assert (C1 : (m1 = 0 \/ m1 = 1 \/ m1 = 2 \/ m1 = 3)%Z) by lia.
    assert (C2 : (m2 = 0 \/ m2 = 1 \/ m2 = 2 \/ m2 = 3)%Z) by lia.
    destruct C1 as [C1|[C1|[C1|C1]]], C2 as [C2|[C2|[C2|C2]]]; subst m1 m2; cbn [quad_of_Z] in H;
      (res_inew H Hn; intros _; cbn [er_le]; split; try lra);
      (assert (K : (k2 = k1 \/ k2 = k1 + 1)%Z) by lia; destruct K; subst k2; try lia; subst z1 z2; izr;
       wins k1).
  - assert (Hs : a2 - a1 < PI) by lra. pose proof (qz_order_small a1 a2 Hlt Hs) as Hos.
    zsetup a1 a2 x A1 A2 Hlt Hw.
    assert (C1 : (m1 = 0 \/ m1 = 1 \/ m1 = 2 \/ m1 = 3)%Z) by lia.
    assert (C2 : (m2 = 0 \/ m2 = 1 \/ m2 = 2 \/ m2 = 3)%Z) by lia.
    destruct C1 as [C1|[C1|[C1|C1]]], C2 as [C2|[C2|[C2|C2]]]; subst m1 m2; cbn [quad_of_Z] in H;
      (res_inew H Hn; intros _; cbn [er_le]; split; try lra);
      (assert (K : (k2 = k1 \/ k2 = k1 + 1)%Z) by lia; destruct K; subst k2; try lia; subst z1 z2; izr;
       wins k1).
Qed.

Lemma itan_sound : sound1s (itan F) er_tan.
Proof.
  start1 a x. intros Hn r H. unfold itan in H. fl_red_in H. clear Va Ea.
  destruct Ca as [[-> ->]|[A1 A2]]; [cbn in H; nan_res H|].
  destruct x as [| | |x]; try (exfalso; now apply Hn).
  destruct a1 as [| | |a1], a2 as [| | |a2]; try contradiction;
    try (cbn in H; signs; res_inew H Hn; atom; fail).
  cbn [er_sub er_eqb] in H. unfold ge in H. fl_red_in H. cbn [er_leb] in H.
  unfold Rleb, Reqb in H. cbn in A1, A2.
  destruct (Rle_dec PI (a2 - a1)) as [W|W]; [nan_res H|].
  destruct (Req_EM_T a1 a2) as [E|E].
  { subst a2. assert (x = a1) by lra. subst x. unfold ifrom in H.
    apply (inew_encl _ _ _ _ H Hn). intros _. split; now apply er_le_refl. }
  unfold er_tan in *.
  destruct (Req_EM_T (cos x) 0) as [Cx|Cx]; [exfalso; now apply Hn|].
  destruct (Req_EM_T (cos a1) 0) as [C1|C1]; [cbn in H; nan_res H|].
  destruct (Req_EM_T (cos a2) 0) as [C2|C2]; [cbn in H; nan_res H|].
  cbn [er_leb] in H. unfold Rleb in H.
  destruct (Rle_dec (tan a1) (tan a2)) as [T|T]; [|nan_res H].
  apply (inew_encl _ _ _ _ H Hn). intros _. cbn.
  apply tan_window; auto; lra.
Qed.

End Trig.

Print Assumptions isin_sound.
Print Assumptions itan_sound.
