(* IntervalTotal.v — totality (C11): which interval operations of Interval.v never
   hit the [Interval::new] assertion (return [Some]) on valid operands, over the
   extended reals with NaN.

   Total on all valid operands: ineg, iabs, iadd, isub, imul, imul_f, idiv, irecip,
   isquare, isqrt, min, max, and, or, icompare, inot, ifrom.

   HISTORY (a repaired defect).  Before the repair, iadd / isub / imul_f built their
   result with plain [Interval::new]; they are kept here as [iadd_old], [isub_old],
   [imul_f_old].  Those were NOT total: when an infinity meets the opposite infinity
   (or 0 * inf in imul_f) in exactly ONE of the two bounds, that bound is NaN, the
   other is not, and [Interval::new] panics ([iadd_old_none_iff],
   [iadd_old_total_refuted], ...).  The repaired code returns the NaN interval in
   that case ([inew_nan]). *)
From Coq Require Import Reals Lra Lia Psatz List Bool.
From FV Require Import Ops Tape Interval ER ERLemmas.
Local Open Scope R_scope.

Definition total1 (iop : interval er -> option (interval er)) : Prop :=
  forall a, valid a -> exists r, iop a = Some r.
Definition total2 (iop : interval er -> interval er -> option (interval er)) : Prop :=
  forall a b, valid a -> valid b -> exists r, iop a b = Some r.

(* a pair of bounds [Interval::new] accepts *)
Definition vpair (l u : er) : Prop := er_le l u \/ (l = ENaN /\ u = ENaN).

Lemma vpair_minmax l u o : vpair l u -> vpair (er_min l o) (er_max u o).
Proof.
  unfold vpair, er_min, er_max. intros [H|[-> ->]].
  - er_destr; signs; first [solve [left; atom] | solve [right; atom]].
  - destruct o; cbn; signs; first [solve [left; atom] | solve [right; atom]].
Qed.

Lemma vpair_refl o : vpair o o.
Proof. destruct o; [right; auto | left; exact I | left; exact I | left; cbn; lra]. Qed.

(* the pre-repair definitions (types/interval.rs before the fix) *)
Definition iadd_old {T} (F : FL T) (a b : interval T) : option (interval T) :=
  inew F (fl_add _ F (lo a) (lo b)) (fl_add _ F (hi a) (hi b)).
Definition isub_old {T} (F : FL T) (a b : interval T) : option (interval T) :=
  inew F (fl_sub _ F (lo a) (hi b)) (fl_sub _ F (hi a) (lo b)).
Definition imul_f_old {T} (F : FL T) (a : interval T) (r : T) : option (interval T) :=
  if has_nan F a || fl_is_nan _ F r then inan F
  else if fl_lt _ F r (fl_zero _ F) then inew F (fl_mul _ F (hi a) r) (fl_mul _ F (lo a) r)
  else inew F (fl_mul _ F (lo a) r) (fl_mul _ F (hi a) r).

Section Total.
Variable rnd : er -> er.
Variable mix : er -> er -> er.
Notation F := (er_fl_gen rnd mix).

Ltac tot :=
  first [ eexists; reflexivity
        | apply inew_total; first [ solve [left; atom] | solve [right; split; reflexivity] ] ].
Ltac tot1 := 
  intros [a1 a2] [V|[V1 V2]]; cbn [lo hi] in *;
  [ er_destr; signs; tot | subst; cbn; signs; tot ].
Ltac tot2 := 
  intros [a1 a2] [b1 b2] [Va|[Va1 Va2]] [Vb|[Vb1 Vb2]]; cbn [lo hi] in *; subst;
  cbn; er_destr; signs; tot.

Lemma four_minmax_total o0 o1 o2 o3 : exists r, four_minmax F o0 o1 o2 o3 = Some r.
Proof.
  unfold four_minmax. apply inew_total. fl_red.
  apply vpair_minmax, vpair_minmax, vpair_minmax, vpair_refl.
Qed.

Lemma ineg_total : total1 (ineg F).
Proof. unfold total1, ineg. tot1. Qed.

Lemma iabs_total : total1 (iabs F).
Proof. unfold total1, iabs, gt, er_max. tot1. Qed.

Lemma imul_total : total2 (imul F).
Proof.
  unfold total2, imul. intros a b _ _.
  destruct (has_nan F a || has_nan F b); [|apply four_minmax_total].
  unfold inan, ifrom. apply inew_total. right. split; reflexivity.
Qed.

Lemma inan_total : exists r, inan F = Some r.
Proof. unfold inan, ifrom. apply inew_total. right. split; reflexivity. Qed.

Lemma idiv_total : total2 (idiv F).
Proof.
  unfold total2, idiv. intros a b _ _.
  destruct (has_nan F a); [apply inan_total|].
  destruct (_ || _); [apply four_minmax_total | apply inan_total].
Qed.

Lemma irecip_total : total1 (irecip F).
Proof.
  unfold total1, irecip, gt. intros [a1 a2] V. cbn [lo hi].
  destruct (_ || _) eqn:E; [|apply inan_total]. fl_red_in E.
  apply orb_true_iff in E. rewrite !er_ltb_spec in E.
  unfold valid in V. cbn [lo hi] in V.
  destruct V as [V|[-> ->]]; [|destruct E; contradiction].
  apply inew_total. left. fl_red.
  destruct (er_le_total a1 a1 (er_le_nn_l _ _ V) (er_le_nn_l _ _ V)) as [R|R];
  destruct (recip_bounds a1 a2 a1 E R V) as [R1 R2]; exact R1.
Qed.

Lemma isquare_total : total1 (isquare F).
Proof. unfold total1, isquare, gt, powi2, has_nan, er_max, inan, ifrom. tot1. Qed.

Lemma isqrt_total : total1 (isqrt F).
Proof.
  unfold total1, isqrt, inan, ifrom.
  intros [a1 a2] [V|[V1 V2]]; cbn [lo hi] in *;
  [ er_destr; signs; try tot; apply inew_total; left; cbn; apply sqrt_le_1_alt; lra
  | subst; cbn; signs; tot ].
Qed.

Lemma imin_total : total2 (fun a b => fst (imin_choice F a b)).
Proof. unfold total2, imin_choice, has_nan, er_min, inan, ifrom. tot2. Qed.
Lemma imax_total : total2 (fun a b => fst (imax_choice F a b)).
Proof. unfold total2, imax_choice, has_nan, er_max, gt, inan, ifrom. tot2. Qed.
Lemma iand_total : total2 (fun a b => fst (iand_choice F a b)).
Proof. unfold total2, iand_choice, has_nan, contains, ge, er_max, er_min, inan, ifrom. tot2. Qed.
Lemma ior_total : total2 (fun a b => fst (ior_choice F a b)).
Proof. unfold total2, ior_choice, has_nan, contains, ge, er_max, er_min, inan, ifrom. tot2. Qed.
Lemma icompare_total : total2 (icompare F).
Proof. unfold total2, icompare, has_nan, gt, inan, ifrom. tot2. Qed.
Lemma inot_total : total1 (inot F).
Proof. unfold total1, inot, has_nan, contains, ge. tot1. Qed.
Lemma ifrom_total' c : exists r, ifrom F c = Some r.
Proof. unfold ifrom. apply inew_total. apply vpair_refl. Qed.

(* ---- iadd, isub, imul_f (repaired: [inew_nan]) are total ------------------------------- *)
Lemma iadd_total : total2 (iadd F).
Proof.
  unfold total2, iadd. intros [a1 a2] [b1 b2] Va Vb. apply inew_nan_total. fl_red.
  unfold valid in *. cbn [lo hi] in *.
  destruct Va as [Va|[-> ->]], Vb as [Vb|[-> ->]]; er_destr; fin.
Qed.

Lemma isub_total : total2 (isub F).
Proof.
  unfold total2, isub. intros [a1 a2] [b1 b2] Va Vb. apply inew_nan_total. fl_red.
  unfold valid in *. cbn [lo hi] in *.
  destruct Va as [Va|[-> ->]], Vb as [Vb|[-> ->]]; er_destr; fin.
Qed.

(* for every scalar, NaN included *)
Lemma imul_f_total c : total1 (fun a => imul_f F a c).
Proof.
  unfold total1, imul_f, has_nan. intros [a1 a2] Va. fl_red.
  unfold valid in Va. cbn [lo hi] in Va.
  destruct Va as [Va|[-> ->]]; [|cbn; apply inan_total].
  destruct (er_is_nan a1 || er_is_nan a2 || er_is_nan c); [apply inan_total|].
  destruct (er_ltb c (EFin 0)) eqn:E; apply inew_nan_total; intros N1 N2;
    er_destr; signs; atom.
Qed.

(* ---- the OLD iadd, isub, imul_f were NOT total ---------------------------------------- *)
(* exactly when one of the two bound computations is NaN and the other is not *)
Definition one_nan (l u : er) : Prop := (l = ENaN /\ u <> ENaN) \/ (l <> ENaN /\ u = ENaN).

Lemma inew_one_nan l u : one_nan l u -> inew F l u = None.
Proof.
  intros H. apply inew_none. intros [C|[C1 C2]]; destruct H as [[H1 H2]|[H1 H2]]; subst;
    try contradiction; try (now apply H1); try (now apply H2).
  destruct l; contradiction.
Qed.

Lemma iadd_old_none_iff a b : valid a -> valid b ->
  (iadd_old F a b = None <-> one_nan (er_add (lo a) (lo b)) (er_add (hi a) (hi b))).
Proof.
  intros Va Vb. split; [|apply inew_one_nan].
  unfold iadd_old. rewrite inew_none. fl_red. unfold one_nan.
  destruct a as [a1 a2], b as [b1 b2]. unfold valid in Va, Vb. cbn [lo hi] in *. intros H.
  destruct Va as [Va|[-> ->]], Vb as [Vb|[-> ->]]; cbn [lo hi] in *.
  all: er_destr; signs;
    first [ exfalso; apply H; solve [left; atom]
          | exfalso; apply H; right; split; reflexivity
          | left; split; [reflexivity|discriminate]
          | right; split; [discriminate|reflexivity] ].
Qed.

Lemma isub_old_none_iff a b : valid a -> valid b ->
  (isub_old F a b = None <-> one_nan (er_sub (lo a) (hi b)) (er_sub (hi a) (lo b))).
Proof.
  intros Va Vb. split; [|apply inew_one_nan].
  unfold isub_old. rewrite inew_none. fl_red. unfold one_nan.
  destruct a as [a1 a2], b as [b1 b2]. unfold valid in Va, Vb. cbn [lo hi] in *. intros H.
  destruct Va as [Va|[-> ->]], Vb as [Vb|[-> ->]]; cbn [lo hi] in *.
  all: er_destr; signs;
    first [ exfalso; apply H; solve [left; atom]
          | exfalso; apply H; right; split; reflexivity
          | left; split; [reflexivity|discriminate]
          | right; split; [discriminate|reflexivity] ].
Qed.

Lemma iadd_old_total_finite a b : valid a -> valid b -> ifinite a -> ifinite b ->
  exists r, iadd_old F a b = Some r.
Proof.
  destruct a as [a1 a2], b as [b1 b2]. unfold valid, ifinite, iadd_old. cbn [lo hi].
  intros Va Vb [Fa1 Fa2] [Fb1 Fb2]. apply inew_total. fl_red.
  destruct a1, a2, b1, b2; try contradiction. left. cbn in *.
  destruct Va as [Va|[Va _]], Vb as [Vb|[Vb _]]; try discriminate. lra.
Qed.

Lemma isub_old_total_finite a b : valid a -> valid b -> ifinite a -> ifinite b ->
  exists r, isub_old F a b = Some r.
Proof.
  destruct a as [a1 a2], b as [b1 b2]. unfold valid, ifinite, isub_old. cbn [lo hi].
  intros Va Vb [Fa1 Fa2] [Fb1 Fb2]. apply inew_total. fl_red.
  destruct a1, a2, b1, b2; try contradiction. left. cbn in *.
  destruct Va as [Va|[Va _]], Vb as [Vb|[Vb _]]; try discriminate. lra.
Qed.

Lemma imul_f_old_total_finite a c : valid a -> ifinite a -> finite c ->
  exists r, imul_f_old F a c = Some r.
Proof.
  destruct a as [a1 a2]. unfold valid, ifinite, imul_f_old, has_nan. cbn [lo hi].
  intros Va [Fa1 Fa2] Fc. destruct a1, a2, c; try contradiction. cbn in *.
  destruct Va as [Va|[Va _]]; try discriminate.
  signs; apply inew_total; left; cbn; nra.
Qed.

End Total.

(* concrete witnesses *)
Theorem iadd_old_total_refuted : exists a b, valid a /\ valid b /\ iadd_old er_fl a b = None.
Proof.
  exists {| lo := ENInf; hi := EFin 0 |}, {| lo := EPInf; hi := EPInf |}.
  split; [left; exact I|]. split; [left; exact I|]. reflexivity.
Qed.

Theorem isub_old_total_refuted : exists a b, valid a /\ valid b /\ isub_old er_fl a b = None.
Proof.
  exists {| lo := EPInf; hi := EPInf |}, {| lo := EFin 0; hi := EPInf |}.
  split; [left; exact I|]. split; [left; exact I|]. reflexivity.
Qed.

(* [0, inf] * (-inf): hi * r = -inf but lo * r = 0 * -inf = NaN *)
Theorem imul_f_old_total_refuted : exists a c, valid a /\ c <> ENaN /\ imul_f_old er_fl a c = None.
Proof.
  exists {| lo := EFin 0; hi := EPInf |}, ENInf.
  split; [left; exact I|]. split; [discriminate|].
  unfold imul_f_old, inew, has_nan, ge. cbn. signs; atom.
Qed.

(* also with a FINITE scalar: [1, inf] * 0 = [0, NaN] *)
Theorem imul_f_old_total_refuted_finite_scalar :
  exists a c, valid a /\ finite c /\ imul_f_old er_fl a c = None.
Proof.
  exists {| lo := EFin 1; hi := EPInf |}, (EFin 0).
  split; [left; exact I|]. split; [exact I|].
  unfold imul_f_old, inew, has_nan, ge. cbn. signs; atom.
Qed.

Print Assumptions imul_total.
Print Assumptions iadd_total.
Print Assumptions imul_f_total.
Print Assumptions iadd_old_none_iff.
Print Assumptions iadd_old_total_refuted.
