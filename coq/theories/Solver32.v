(* Solver32.v — the f32 instance of the solver's exit test (executed by the extracted runner and compared
   with fidget_solver::solve on the Jacobian / residuals the verif hook reports at the starting point). *)
From Coq Require Import List ZArith.
From FV Require Import F32 Solver.
Import ListNotations.

Definition feps32 : f32 := of_bits 872415232.   (* f32::EPSILON = 2^-23 = 0x34000000 *)
Definition done32 (res : list f32) (rows : list (list f32)) (cur : list f32) : bool :=
  done_all is_zerob fabs fmul fadd fleb feps32 fzero res rows cur.
