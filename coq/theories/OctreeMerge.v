(* OctreeMerge.v -- executable model of fidget-mesh/src/octree.rs:
   the array-level octree, the single-threaded builder
   (OctreeBuilder::recurse / Octree::check_done / try_collapse) and the
   multi-threaded builder (Octree::build_inner_mt).

   Everything that does not depend on the array layout is abstract
   (section variables): interval classification of a cell, leaf
   evaluation, the topological `collapsible` test, hermite merge / solve.
   Everything that touches indices is modelled literally.               *)

From Coq Require Import List Arith Lia Bool.
Import ListNotations.

Set Implicit Arguments.

(* ------------------------------------------------------------------ *)
(* Result monad: Ok / cancelled (recurse returned false, i.e. None)   *)
(*               / Rust panic.                                        *)
(* ------------------------------------------------------------------ *)
Inductive res (A : Type) : Type :=
| Ok (a : A)
| Cancel
| Panic.
Arguments Ok {A} a.
Arguments Cancel {A}.
Arguments Panic {A}.

Definition bind {A B} (m : res A) (f : A -> res B) : res B :=
  match m with
  | Ok a => f a
  | Cancel => Cancel
  | Panic => Panic
  end.

Notation "'let*' x ':=' m 'in' f" := (bind m (fun x => f))
  (at level 200, x pattern, m at level 100, f at level 200).

(* an out-of-bounds index / unwrap on None is a panic *)
Definition of_opt {A} (o : option A) : res A :=
  match o with Some a => Ok a | None => Panic end.

(* ------------------------------------------------------------------ *)
(* Cells (cell.rs: enum Cell)                                         *)
(* ------------------------------------------------------------------ *)
Inductive cell : Type :=
| Invalid
| Empty
| Full
| Branch (index : nat)
| Leaf (mask : nat) (vindex : nat).

(* A cell with its array indices erased: all that `collapsible`,
   `Cell::corner` and the scan in `check_done` ever look at.          *)
Inductive ckind : Type :=
| KInvalid | KEmpty | KFull | KBranch | KLeaf (mask : nat).

Definition erase (c : cell) : ckind :=
  match c with
  | Invalid => KInvalid
  | Empty => KEmpty
  | Full => KFull
  | Branch _ => KBranch
  | Leaf m _ => KLeaf m
  end.

Definition is_branch (c : cell) : bool :=
  match c with Branch _ => true | _ => false end.

Definition invalid_block : list cell := repeat Invalid 8.

(* position of a cell = the corner path from the root; depth = length;
   CellBounds is a function of the path (CellBounds::child).          *)
Definition path := list nat.

(* CellIndex.index : Option<(usize,u8)> *)
Definition slot := option (nat * nat).

(* list update; no-op when out of range (callers check the range)     *)
Fixpoint upd {A} (l : list A) (i : nat) (a : A) : list A :=
  match l, i with
  | [], _ => []
  | _ :: r, 0 => a :: r
  | x :: r, S i' => x :: upd r i' a
  end.

Fixpoint map_opt {A B} (f : A -> option B) (l : list A) : option (list B) :=
  match l with
  | [] => Some []
  | x :: r =>
      match f x, map_opt f r with
      | Some y, Some ys => Some (y :: ys)
      | _, _ => None
      end
  end.

(* the scan at the top of check_done (lines 260-276): left to right,
   Invalid panics, the first Branch returns immediately               *)
Inductive scanres := SPanic | SBranch | SCounts (full empty : nat).

Fixpoint scan (blk : list ckind) (f e : nat) : scanres :=
  match blk with
  | [] => SCounts f e
  | KInvalid :: _ => SPanic
  | KBranch :: _ => SBranch
  | KFull :: r => scan r (S f) e
  | KEmpty :: r => scan r f (S e)
  | KLeaf _ :: r => scan r f e
  end.

(* abstract trees: what an octree denotes *)
Inductive atree (vertex : Type) : Type :=
| AEmpty
| AFull
| ALeaf (mask : nat) (vs : list vertex)
| ABranch (ch : list (atree vertex)).
Arguments AEmpty {vertex}.
Arguments AFull {vertex}.

Section Model.

Variable vertex : Type.      (* CellVertex<3> *)
Variable herm : Type.        (* LeafHermiteData *)
Variable tape : Type.        (* RenderHandle: the (possibly simplified) tape *)
Variable hdef : herm.        (* LeafHermiteData::default() *)
Variable root_tape : tape.   (* RenderHandle::new(shape) *)
Variable max_depth : nat.    (* settings.depth *)

(* result of the interval evaluation at a cell (recurse, lines 530-559):
   Full / Empty / ambiguous, in which case `sub` is the tape handed to
   leaf() or to the children (the simplified tape, or the same tape).  *)
Inductive ires := IFull | IEmpty | IAmbig (sub : tape).

(* result of OctreeBuilder::leaf: early Empty / Full (mask 0 / 255),
   or a leaf with its mask, the vertices it pushes, and the hermite
   data it leaves in `hermite_cell`                                   *)
Inductive lres := LEmpty | LFull | LLeaf (mask : nat) (vs : list vertex) (h : herm).

Variable interval : tape -> path -> ires.
Variable leaf_eval : tape -> path -> herm -> lres.
(* Octree::collapsible: reads only variants and masks of cells[root]  *)
Variable collapsible : list ckind -> option nat.
(* LeafHermiteData::merge *)
Variable hmerge : list herm -> option herm.
(* the rest of try_collapse after merge: solve, error / bounds test,
   qef_err update, and the vertices pushed (pos :: edge intersections) *)
Variable hsolve : path -> nat -> herm -> option (herm * list vertex).
(* number of vertices owned by a leaf with the given mask             *)
Variable nverts : nat -> nat.

Record octree := mkOct {
  root : cell;
  cells : list (list cell);
  verts : list vertex
}.

Definition oct_new : octree := mkOct Invalid [] [].

(* Index / IndexMut<CellIndex<3>> for Octree *)
Definition get_cell (o : octree) (sl : slot) : option cell :=
  match sl with
  | None => Some (root o)
  | Some (i, j) =>
      match nth_error (cells o) i with
      | Some blk => nth_error blk j
      | None => None
      end
  end.

Definition set_cells (cs : list (list cell)) (i j : nat) (c : cell)
  : option (list (list cell)) :=
  match nth_error cs i with
  | Some blk => if j <? length blk then Some (upd cs i (upd blk j c)) else None
  | None => None
  end.

Definition set_cell (o : octree) (sl : slot) (c : cell) : option octree :=
  match sl with
  | None => Some (mkOct c (cells o) (verts o))
  | Some (i, j) =>
      match set_cells (cells o) i j c with
      | Some cs => Some (mkOct (root o) cs (verts o))
      | None => None
      end
  end.

(* ---------------- check_done / try_collapse ----------------------- *)

(* lines 301-307: truncate if the block is last, otherwise invalidate *)
Definition drop_block (cs : list (list cell)) (index : nat) : list (list cell) :=
  if index =? length cs - 1 then firstn index cs else upd cs index invalid_block.

Definition try_collapse (o : octree) (p : path) (blk : list cell)
           (hd : list herm) (h : herm) : octree * option cell * herm :=
  match collapsible (map erase blk) with
  | None => (o, None, h)
  | Some mask =>
      match hmerge hd with
      | None => (o, None, h)
      | Some hm =>                          (* *hermite = merge(..)? *)
          match hsolve p mask hm with
          | None => (o, None, hm)           (* hermite already overwritten *)
          | Some (h2, vs) =>
              (mkOct (root o) (cells o) (verts o ++ vs),
               Some (Leaf mask (length (verts o))), h2)
          end
      end
  end.

Definition check_done (o : octree) (p : path) (index : nat)
           (hd : list herm) (h : herm) : res (octree * cell * herm) :=
  match nth_error (cells o) index with
  | None => Panic
  | Some blk =>
      match scan (map erase blk) 0 0 with
      | SPanic => Panic
      | SBranch => Ok (o, Branch index, h)
      | SCounts f e =>
          let '(o1, out, h1) :=
            if f =? 8 then (o, Full, h)
            else if e =? 8 then (o, Empty, h)
            else match try_collapse o p blk hd h with
                 | (o1, Some lf, h1) => (o1, lf, h1)
                 | (o1, None, h1) => (o1, Branch index, h1)
                 end in
          let o2 := if is_branch out then o1
                    else mkOct (root o1) (drop_block (cells o1) index) (verts o1) in
          Ok (o2, out, h1)
      end
  end.

(* ---------------- OctreeBuilder::recurse -------------------------- *)

Section Rec.
(* the cancel token as an oracle over the sequence of polls *)
Variable canc : nat -> bool.

(* `for i in Corner::iter()` with early exit; hermite_child[i] is
   collected in order (Corner::iter is 0..8 ascending)                *)
Fixpoint loop8 (f : nat -> octree -> nat -> res (octree * nat * herm))
         (is : list nat) (o : octree) (k : nat) (hs : list herm)
  : res (octree * nat * list herm) :=
  match is with
  | [] => Ok (o, k, hs)
  | i :: r =>
      let* (o', k', h) := f i o k in
      loop8 f r o' k' (hs ++ [h])
  end.

(* rem = max_depth - cell.depth (the code tests cell.depth == max_depth;
   every entry point has depth <= max_depth, see tasks_depth in the
   Sound file).  sl = cell.index, p = path (bounds), h = *hermite on
   entry, o = self.octree, k = number of polls so far.                *)
Fixpoint rec (rem : nat) (t : tape) (sl : slot) (p : path) (h : herm)
         (o : octree) (k : nat) : res (octree * nat * herm) :=
  if canc k then Cancel else
  let k := S k in
  match interval t p with
  | IFull => let* o' := of_opt (set_cell o sl Full) in Ok (o', k, h)
  | IEmpty => let* o' := of_opt (set_cell o sl Empty) in Ok (o', k, h)
  | IAmbig sub =>
      match rem with
      | 0 =>
          match leaf_eval sub p h with
          | LEmpty => let* o' := of_opt (set_cell o sl Empty) in Ok (o', k, h)
          | LFull => let* o' := of_opt (set_cell o sl Full) in Ok (o', k, h)
          | LLeaf m vs h' =>
              let o1 := mkOct (root o) (cells o) (verts o ++ vs) in
              let* o' := of_opt (set_cell o1 sl (Leaf m (length (verts o)))) in
              Ok (o', k, h')
          end
      | S rem' =>
          let index := length (cells o) in
          let o1 := mkOct (root o) (cells o ++ [invalid_block]) (verts o) in
          let* (o2, k2, hs) :=
             loop8 (fun i o k => rec rem' sub (Some (index, i)) (p ++ [i]) hdef o k)
                   (seq 0 8) o1 k [] in
          let* (o3, c, h3) := check_done o2 p index hs h in
          let* o4 := of_opt (set_cell o3 sl c) in
          Ok (o4, k2, h3)
      end
  end.

End Rec.

(* build_inner, threads = None *)
Definition build_st (canc : nat -> bool) : res octree :=
  let* (o, _, _) := rec canc max_depth root_tape None [] hdef oct_new 0 in
  Ok o.

(* ---------------- build_inner_mt ---------------------------------- *)

Record cidx := mkCI { ci_slot : slot; ci_path : path }.

Definition ci_root : cidx := mkCI None [].

(* CellIndex::child *)
Definition ci_child (c : cidx) (index i : nat) : cidx :=
  mkCI (Some (index, i)) (ci_path c ++ [i]).

Record exp_state := mkExp {
  todo : list cidx;                   (* VecDeque *)
  xcells : list (list cell);          (* root.cells *)
  xherm : list (list herm);           (* hermites *)
  fixup : list (cidx * nat)
}.

Definition exp_init : exp_state := mkExp [ci_root] [] [] [].

(* the `while todo.len() < target_count` loop.  fuel bounds the number
   of iterations (None = out of fuel or pop_front().unwrap() on an
   empty deque; expand_total shows neither happens for fuel >= target) *)
Fixpoint expand (fuel target : nat) (st : exp_state) : option exp_state :=
  if length (todo st) <? target then
    match fuel with
    | 0 => None
    | S f =>
        match todo st with
        | [] => None
        | next :: rest =>
            let index := length (xcells st) in
            expand f target
              (mkExp (rest ++ map (ci_child next index) (seq 0 8))
                     (xcells st ++ [invalid_block])
                     (xherm st ++ [repeat hdef 8])
                     (fixup st ++ [(next, index)]))
        end
    end
  else Some st.

Record output := mkOut { o_cell : cidx; o_oct : octree; o_herm : herm }.

(* one rayon task: a fresh local octree, index: None, the worker's clone
   of the root RenderHandle, a fresh hermite; task i polls oracle cmt i *)
Definition run_task (canc : nat -> bool) (c : cidx) : res output :=
  let* (o, _, h) :=
     rec canc (max_depth - length (ci_path c)) root_tape None (ci_path c)
         hdef oct_new 0 in
  Ok (mkOut c o h).

(* par_iter().map_init(..).collect::<Option<Vec<_>>>(): order preserved *)
Fixpoint run_tasks (cmt : nat -> nat -> bool) (i : nat) (cs : list cidx)
  : res (list output) :=
  match cs with
  | [] => Ok []
  | c :: r =>
      let* o := run_task (cmt i) c in
      let* os := run_tasks cmt (S i) r in
      Ok (o :: os)
  end.

Definition upd2 {A} (ll : list (list A)) (i j : nat) (a : A) : option (list (list A)) :=
  match nth_error ll i with
  | Some l => if j <? length l then Some (upd ll i (upd l j a)) else None
  | None => None
  end.

(* lines 163-172 *)
Fixpoint offsets (outs : list output) (hm : list (list herm)) (co vo : list nat)
  : res (list (list herm) * list nat * list nat) :=
  match outs with
  | [] => Ok (hm, co, vo)
  | o :: r =>
      let* (i, j) := of_opt (ci_slot (o_cell o)) in      (* index.unwrap() *)
      let* hm' := of_opt (upd2 hm i j (o_herm o)) in
      let c := last co 0 + length (cells (o_oct o)) in
      let v := last vo 0 + length (verts (o_oct o)) in
      offsets r hm' (co ++ [c]) (vo ++ [v])
  end.

Definition remap_cell (coff voff : nat) (c : cell) : option cell :=
  match c with
  | Leaf m v => Some (Leaf m (v + voff))
  | Branch i => Some (Branch (i + coff))
  | Full => Some Full
  | Empty => Some Empty
  | Invalid => None                                        (* panic!() *)
  end.

(* lines 176-195 *)
Fixpoint merge (outs : list output) (i : nat) (co vo : list nat) (r : octree)
  : res octree :=
  match outs with
  | [] => Ok r
  | o :: rest =>
      let* coff := of_opt (nth_error co i) in
      let* voff := of_opt (nth_error vo i) in
      if negb (coff =? length (cells r)) then Panic        (* assert_eq! *)
      else if negb (voff =? length (verts r)) then Panic   (* assert_eq! *)
      else
        let* blks := of_opt (map_opt (map_opt (remap_cell coff voff))
                                     (cells (o_oct o))) in
        let r1 := mkOct (root r) (cells r ++ blks) (verts r ++ verts (o_oct o)) in
        let* c := of_opt (remap_cell coff voff (root (o_oct o))) in
        let* r2 := of_opt (set_cell r1 (ci_slot (o_cell o)) c) in
        merge rest (S i) co vo r2
  end.

(* lines 198-208; fx is already reversed *)
Fixpoint fixup_walk (fx : list (cidx * nat)) (r : octree) (hm : list (list herm))
  : res octree :=
  match fx with
  | [] => Ok r
  | (c, index) :: rest =>
      let* hd := of_opt (nth_error hm index) in
      let* hin :=
         match ci_slot c with
         | Some (i, j) =>
             of_opt (match nth_error hm i with
                     | Some l => nth_error l j
                     | None => None end)
         | None => Ok hdef
         end in
      let* (r1, out, hout) := check_done r (ci_path c) index hd hin in
      let* hm' :=
         match ci_slot c with
         | Some (i, j) => of_opt (upd2 hm i j hout)
         | None => Ok hm
         end in
      let* r2 := of_opt (set_cell r1 (ci_slot c) out) in
      fixup_walk rest r2 hm'
  end.

Definition build_mt (cmt : nat -> nat -> bool) (target : nat) : res octree :=
  let* st := of_opt (expand target target exp_init) in
  let* outs := run_tasks cmt 0 (todo st) in
  let* (hm, co, vo) :=
     offsets outs (xherm st) [length (xcells st)] [0] in
  let* r := merge outs 0 co vo (mkOct Invalid (xcells st) []) in
  fixup_walk (rev (fixup st)) r hm.

(* target_count, line 109 *)
Definition mt_target (threads : nat) : nat := Nat.min (8 ^ max_depth) (threads * 10).

(* ---------------- abstraction ------------------------------------- *)

Fixpoint abs_cell (fuel : nat) (cs : list (list cell)) (vs : list vertex)
         (c : cell) : option (atree vertex) :=
  match c with
  | Invalid => None
  | Empty => Some AEmpty
  | Full => Some AFull
  | Leaf m v =>
      if v + nverts m <=? length vs
      then Some (ALeaf m (firstn (nverts m) (skipn v vs)))
      else None
  | Branch i =>
      match fuel with
      | 0 => None
      | S f =>
          match nth_error cs i with
          | None => None
          | Some blk =>
              if length blk =? 8
              then option_map (@ABranch vertex) (map_opt (abs_cell f cs vs) blk)
              else None
          end
      end
  end.

(* fuel = number of blocks + 1 (one unit per Branch followed) *)
Definition abs (o : octree) : option (atree vertex) :=
  abs_cell (S (length (cells o))) (cells o) (verts o) (root o).

Definition abs_res (r : res octree) : option (atree vertex) :=
  match r with Ok o => abs o | _ => None end.

End Model.

Arguments IFull {tape}.
Arguments IEmpty {tape}.
Arguments LEmpty {vertex herm}.
Arguments LFull {vertex herm}.

(* ------------------------------------------------------------------ *)
(* A tiny executable instance: depth 2, vertices / hermite data are    *)
(* naturals, one tape.                                                 *)
(* ------------------------------------------------------------------ *)
Module Demo.

Definition ex_interval (t : unit) (p : path) : ires unit :=
  match p with
  | [] => IAmbig tt
  | [0] => IEmpty
  | [7] => IFull
  | [_] => IAmbig tt
  | [1; _] => IAmbig tt
  | [2; 0] => IFull
  | [2; _] => IAmbig tt
  | [3; _] => IEmpty
  | [4; _] => IAmbig tt
  | [5; _] => IAmbig tt
  | [6; _] => IAmbig tt
  | [7; _] => IFull
  | _ => IEmpty
  end.

(* an INCOHERENT classifier: the interval result at [7] says Full, but
   the interval results at its children say Empty.  The single-threaded
   build never looks below [7]; the multi-threaded build with 64 tasks
   never evaluates [7] itself.                                          *)
Definition ex_interval_bad (t : unit) (p : path) : ires unit :=
  match p with
  | [7; _] => IEmpty
  | _ => ex_interval t p
  end.

(* cell [1;*]: every corner cell is a one-vertex leaf -> collapsible;
   cell [2;*]: all full at the leaf; [4;*]: leaves, not collapsible;
   [5;*] all empty at leaf level; [6;*] mixed                           *)
Definition ex_leaf (t : unit) (p : path) (h : nat) : lres nat nat :=
  match p with
  | [1; i] => LLeaf (1 + i) [10 + i; 20 + i] (100 + i)
  | [2; _] => LFull
  | [4; i] => LLeaf (40 + i) [40 + i; 50 + i] (200 + i)
  | [5; _] => LEmpty
  | [6; i] => if i <? 4 then LEmpty else LLeaf (60 + i) [60 + i; 70 + i] (300 + i)
  | _ => LEmpty
  end.

(* collapsible iff all eight are leaves with mask < 10 *)
Definition ex_collapsible (ks : list ckind) : option nat :=
  if forallb (fun k => match k with KLeaf m => m <? 10 | _ => false end) ks
  then Some 3 else None.

Definition ex_hmerge (hs : list nat) : option nat := Some (fold_right plus 0 hs).
Definition ex_hsolve (p : path) (m : nat) (h : nat) : option (nat * list nat) :=
  Some (S h, [h; length p]).
Definition ex_nverts (m : nat) : nat := 2.

Definition st :=
  build_st 0 tt 2 ex_interval ex_leaf ex_collapsible ex_hmerge ex_hsolve (fun _ => false).
Definition mt (target : nat) :=
  build_mt 0 tt 2 ex_interval ex_leaf ex_collapsible ex_hmerge ex_hsolve
           (fun _ _ => false) target.

Eval vm_compute in st.
Eval vm_compute in mt 8.
Eval vm_compute in mt 10.
Eval vm_compute in mt 64.
Eval vm_compute in mt 1.     (* depth-0-style call: index.unwrap() panics *)

Example abs_st_some : abs_res ex_nverts st <> None.
Proof. vm_compute. discriminate. Qed.
Example abs_mt8 : abs_res ex_nverts (mt 8) = abs_res ex_nverts st.
Proof. vm_compute. reflexivity. Qed.
Example abs_mt10 : abs_res ex_nverts (mt 10) = abs_res ex_nverts st.
Proof. vm_compute. reflexivity. Qed.
Example abs_mt64 : abs_res ex_nverts (mt 64) = abs_res ex_nverts st.
Proof. vm_compute. reflexivity. Qed.
Example arrays_differ : mt 64 <> st.
Proof. vm_compute. discriminate. Qed.
Example mt1_panics : mt 1 = Panic.
Proof. vm_compute. reflexivity. Qed.

Definition st_bad :=
  build_st 0 tt 2 ex_interval_bad ex_leaf ex_collapsible ex_hmerge ex_hsolve (fun _ => false).
Definition mt_bad (target : nat) :=
  build_mt 0 tt 2 ex_interval_bad ex_leaf ex_collapsible ex_hmerge ex_hsolve
           (fun _ _ => false) target.
Example bad_mt8_agrees : abs_res ex_nverts (mt_bad 8) = abs_res ex_nverts st_bad.
Proof. vm_compute. reflexivity. Qed.
Example bad_mt64_differs : abs_res ex_nverts (mt_bad 64) <> abs_res ex_nverts st_bad.
Proof. vm_compute. discriminate. Qed.

End Demo.

(* ------------------------------------------------------------------ *)
(* A second instance: the classification DEPENDS ON THE TAPE.  The     *)
(* single-threaded build evaluates depth-1 cells with the tape         *)
(* simplified at the root (`true`); the multi-threaded tasks evaluate   *)
(* the same cells with the unsimplified root tape (`false`).            *)
(* ------------------------------------------------------------------ *)
Module Demo2.

Definition ex_interval (t : bool) (p : path) : ires bool :=
  match p with
  | [] => IAmbig true
  | _ => IAmbig t
  end.
Definition ex_leaf (t : bool) (p : path) (h : nat) : lres nat nat :=
  if t then LEmpty else LFull.
Definition ex_collapsible (ks : list ckind) : option nat := None.
Definition ex_hmerge (hs : list nat) : option nat := None.
Definition ex_hsolve (p : path) (m : nat) (h : nat) : option (nat * list nat) := None.
Definition ex_nverts (m : nat) : nat := 0.

Definition st :=
  build_st 0 false 1 ex_interval ex_leaf ex_collapsible ex_hmerge ex_hsolve (fun _ => false).
Definition mt (target : nat) :=
  build_mt 0 false 1 ex_interval ex_leaf ex_collapsible ex_hmerge ex_hsolve
           (fun _ _ => false) target.

Example st_empty : abs_res ex_nverts st = Some AEmpty.
Proof. vm_compute. reflexivity. Qed.
Example mt_full : abs_res ex_nverts (mt 8) = Some AFull.
Proof. vm_compute. reflexivity. Qed.

End Demo2.
