(* CtxProof.v — the theorems about the Context model (Ctx.v), collected.

   P1  structural invariants         ctx_inv / ctx_canon preserved by every constructor,
                                     contexts only grow, BadNode exactly on a bad index;
                                     [ctx_arena_ok]: real contexts satisfy [arena_ok]
   P2  deduplication                 the same call again returns the same node
   P3  meaning                       CtxSem.v  (c_*_sound, build_bin_sound, ...)
   P4  import = substitution         CtxImport.v (import_rec_sound, import_sound)
   P4' the same up to the sign of zero, zeros allowed   CtxImportZ.v (import_rec_sound_z)
   P5  import (export n) = n         CtxExport.v (import_export)                      *)
From Coq Require Import List Bool Arith ZArith Lia.
From Flocq Require Import IEEE754.BinarySingleNaN.
From FV Require Import F32 Ops Tape Alloc Flatten F32Sem CtxEval FlattenLib FlattenPass2 F32Facts Ctx.
From FV Require Import CtxBase CtxCtors CtxSem CtxImport CtxExport.
Import ListNotations.
Local Open Scope nat_scope.

Section Main.
Variable o : oracle.
Notation val := (ctx_eval (f32_sem o)).

(* ---- the binary constructors ------------------------------------------------- *)
Inductive bin_ctor : (ctx -> nat -> nat -> R) -> Prop :=
| bc_add : bin_ctor (c_add o) | bc_sub : bin_ctor (c_sub o)
| bc_mul : bin_ctor (c_mul o) | bc_div : bin_ctor (c_div o)
| bc_min : bin_ctor (c_min o) | bc_max : bin_ctor (c_max o)
| bc_and : bin_ctor (c_and o) | bc_or : bin_ctor (c_or o)
| bc_build p : bin_ctor (fun c a b => build_bin o c p a b)
(* the private helpers, for the opcodes they are called with *)
| bc_binary p : not_andor p -> bin_ctor (fun c a b => op_binary o c a b p)
| bc_comm p : not_andor p -> bin_ctor (fun c a b => op_binary_commutative o c a b p).

(* the public ones keep the canonical form too *)
Inductive pub_ctor : (ctx -> nat -> nat -> R) -> Prop :=
| pc_add : pub_ctor (c_add o) | pc_sub : pub_ctor (c_sub o)
| pc_mul : pub_ctor (c_mul o) | pc_div : pub_ctor (c_div o)
| pc_min : pub_ctor (c_min o) | pc_max : pub_ctor (c_max o)
| pc_and : pub_ctor (c_and o) | pc_or : pub_ctor (c_or o)
| pc_build p : pub_ctor (fun c a b => build_bin o c p a b)
| pc_binary p : plain_bop p -> pub_ctor (fun c a b => op_binary o c a b p).

Lemma pub_ctor_spec K : pub_ctor K -> ctor_spec goodc K.
Proof.
  destruct 1.
  - apply c_add_spec.
  - apply c_sub_spec.
  - apply c_mul_spec.
  - apply c_div_spec.
  - apply c_min_spec.
  - apply c_max_spec.
  - apply c_and_spec.
  - apply c_or_spec.
  - apply build_bin_spec.
  - apply op_binary_plain_spec; assumption.
Qed.

Lemma bin_ctor_spec_good K : bin_ctor K -> ctor_spec good K.
Proof.
  assert (M : forall K, ctor_spec goodc K -> ctor_spec good K).
  { intros K0. apply ctor_spec_mono. apply goodc_good. }
  destruct 1.
  - apply M, c_add_spec.
  - apply M, c_sub_spec.
  - apply M, c_mul_spec.
  - apply M, c_div_spec.
  - apply M, c_min_spec.
  - apply M, c_max_spec.
  - apply M, c_and_spec.
  - apply M, c_or_spec.
  - apply M, build_bin_spec.
  - apply op_binary_spec; assumption.
  - apply op_binary_commutative_spec; assumption.
Qed.

(* P1 *)
Theorem P1_binary K : bin_ctor K ->
  forall c a b c' n, ctx_inv c -> K c a b = Ok (c', n) ->
  ctx_inv c' /\ (exists ext, c' = c ++ ext) /\ n < length c'.
Proof. intros HK. apply ctor_spec_inv, bin_ctor_spec_good, HK. Qed.

Theorem P1_binary_canon K : pub_ctor K ->
  forall c a b c' n, ctx_canon c -> K c a b = Ok (c', n) ->
  ctx_canon c' /\ (exists ext, c' = c ++ ext) /\ n < length c'.
Proof. intros HK. apply ctor_spec_canon, pub_ctor_spec, HK. Qed.

(* BadNode (Err 100, an error value) exactly when an argument is out of range;
   in range the call succeeds; no other error exists *)
Theorem P1_binary_err K : bin_ctor K ->
  forall c a b e, K c a b = Err e <-> e = 100 /\ ~ (a < length c /\ b < length c).
Proof. intros HK. apply (cs_err _ _ (bin_ctor_spec_good K HK)). Qed.

Theorem P1_binary_total K : bin_ctor K ->
  forall c a b, a < length c -> b < length c -> exists c' n, K c a b = Ok (c', n).
Proof.
  intros HK c a b La Lb. destruct (K c a b) as [[c' n]|e] eqn:E; eauto.
  apply (P1_binary_err K HK) in E. destruct E as [_ N]. elim N; auto.
Qed.

(* P2 *)
Theorem P2_binary K : bin_ctor K ->
  forall c a b c' n, K c a b = Ok (c', n) -> K c' a b = Ok (c', n).
Proof. intros HK. eapply ctor_spec_dedup, bin_ctor_spec_good, HK. Qed.

Theorem P2_binary_later K : bin_ctor K ->
  forall c a b c' n ext, K c a b = Ok (c', n) -> K (c' ++ ext) a b = Ok (c' ++ ext, n).
Proof. intros HK. apply (cs_stable _ _ (bin_ctor_spec_good K HK)). Qed.

(* ---- constant, var, op_unary --------------------------------------------------- *)
Theorem P1_constant c v c' n :
  ctx_inv c -> constant c v = Ok (c', n) ->
  ctx_inv c' /\ (exists ext, c' = c ++ ext) /\ n < length c'.
Proof.
  intros I E. destruct (constant_spec c v) as (c1 & k & E' & Rch & L & _).
  rewrite E in E'. inversion E'; subst c1 k.
  apply (reach_mono _ _ _ _ goodc_good) in Rch.
  split; [eapply reach_inv; eauto|]. split; auto. eapply reach_ext; eauto.
Qed.
Theorem constant_total c v : exists c' n, constant c v = Ok (c', n).
Proof. destruct (constant_spec c v) as (c1 & k & E' & _). eauto. Qed.
Theorem P2_constant c v c' n : constant c v = Ok (c', n) -> constant c' v = Ok (c', n).
Proof.
  intros E. destruct (constant_spec c v) as (c1 & k & E' & _ & _ & S).
  rewrite E in E'. inversion E'; subst c1 k. specialize (S []). rewrite app_nil_r in S. exact S.
Qed.

Theorem P1_var c v c' n :
  ctx_inv c -> var c v = Ok (c', n) ->
  ctx_inv c' /\ (exists ext, c' = c ++ ext) /\ n < length c'.
Proof.
  intros I E. destruct (var_spec c v) as (c1 & k & E' & Rch & L & _).
  rewrite E in E'. inversion E'; subst c1 k.
  apply (reach_mono _ _ _ _ goodc_good) in Rch.
  split; [eapply reach_inv; eauto|]. split; auto. eapply reach_ext; eauto.
Qed.
Theorem var_total c v : exists c' n, var c v = Ok (c', n).
Proof. destruct (var_spec c v) as (c1 & k & E' & _). eauto. Qed.
Theorem P2_var c v c' n : var c v = Ok (c', n) -> var c' v = Ok (c', n).
Proof.
  intros E. destruct (var_spec c v) as (c1 & k & E' & _ & _ & S).
  rewrite E in E'. inversion E'; subst c1 k. specialize (S []). rewrite app_nil_r in S. exact S.
Qed.

Theorem P1_unary u c a c' n :
  u <> UCopy -> ctx_inv c -> op_unary o c a u = Ok (c', n) ->
  ctx_inv c' /\ (exists ext, c' = c ++ ext) /\ n < length c'.
Proof.
  intros Hu I E. destruct (op_unary_spec o u Hu) as (S1 & _ & _).
  destruct (S1 _ _ _ _ E) as (_ & Rch & L).
  apply (reach_mono _ _ _ _ goodc_good) in Rch.
  split; [eapply reach_inv; eauto|]. split; auto. eapply reach_ext; eauto.
Qed.
Theorem P1_unary_err u c a e :
  u <> UCopy -> (op_unary o c a u = Err e <-> e = 100 /\ ~ a < length c).
Proof. intros Hu. destruct (op_unary_spec o u Hu) as (_ & S2 & _). apply S2. Qed.
Theorem P2_unary u c a c' n :
  op_unary o c a u = Ok (c', n) -> op_unary o c' a u = Ok (c', n).
Proof.
  intros E. pose proof (proj1 (se_unary o a u) _ _ _ E []) as H.
  rewrite app_nil_r in H. exact H.
Qed.

(* ---- contexts reached from the empty one by constructor calls ------------------ *)
Inductive call :=
| KConstant (v : f32) | KVar (v : nat) | KUnary (a : nat) (u : uop)
| KBinary (a b : nat) (p : bop) | KBinaryComm (a b : nat) (p : bop)
| KAdd (a b : nat) | KSub (a b : nat) | KMul (a b : nat) | KDiv (a b : nat)
| KMin (a b : nat) | KMax (a b : nat) | KAnd (a b : nat) | KOr (a b : nat)
| KBuild (p : bop) (a b : nat) | KImport (t : list tnode) (root : nat).

Definition run_call (c : ctx) (k : call) : R :=
  match k with
  | KConstant v => constant c v | KVar v => var c v | KUnary a u => op_unary o c a u
  | KBinary a b p => op_binary o c a b p | KBinaryComm a b p => op_binary_commutative o c a b p
  | KAdd a b => c_add o c a b | KSub a b => c_sub o c a b | KMul a b => c_mul o c a b
  | KDiv a b => c_div o c a b | KMin a b => c_min o c a b | KMax a b => c_max o c a b
  | KAnd a b => c_and o c a b | KOr a b => c_or o c a b | KBuild p a b => build_bin o c p a b
  | KImport t root => import o t root c
  end.

(* what the Rust API guarantees of a call: no Copy opcode (it is not a UnaryOpcode),
   the private op_binary helpers are not called for And / Or *)
Definition call_ok (k : call) : Prop :=
  match k with
  | KUnary _ u => u <> UCopy
  | KBinary _ _ p | KBinaryComm _ _ p => not_andor p
  | KImport t _ => no_copy t
  | _ => True
  end.
(* the calls available outside the module *)
Definition call_public (k : call) : Prop :=
  match k with
  | KUnary _ u => u <> UCopy
  | KBinary _ _ p => plain_bop p
  | KBinaryComm _ _ _ => False
  | KImport t _ => no_copy t
  | _ => True
  end.

Theorem run_call_inv c k c' n :
  ctx_inv c -> call_ok k -> run_call c k = Ok (c', n) ->
  ctx_inv c' /\ (exists ext, c' = c ++ ext) /\ n < length c'.
Proof.
  intros I OKk E. destruct k; simpl in E, OKk.
  - eapply P1_constant; eauto.
  - eapply P1_var; eauto.
  - eapply P1_unary; eauto.
  - eapply (P1_binary _ (bc_binary p OKk)); eauto.
  - eapply (P1_binary _ (bc_comm p OKk)); eauto.
  - eapply (P1_binary _ bc_add); eauto.
  - eapply (P1_binary _ bc_sub); eauto.
  - eapply (P1_binary _ bc_mul); eauto.
  - eapply (P1_binary _ bc_div); eauto.
  - eapply (P1_binary _ bc_min); eauto.
  - eapply (P1_binary _ bc_max); eauto.
  - eapply (P1_binary _ bc_and); eauto.
  - eapply (P1_binary _ bc_or); eauto.
  - eapply (P1_binary _ (bc_build p)); eauto.
  - destruct (import_sound o t root c c' n (proj1 I) OKk E) as (Rch & L & _).
    apply (reach_mono _ _ _ _ goodc_good) in Rch.
    split; [eapply reach_inv; eauto|]. split; auto. eapply reach_ext; eauto.
Qed.

Theorem run_call_canon c k c' n :
  ctx_canon c -> call_public k -> run_call c k = Ok (c', n) ->
  ctx_canon c' /\ (exists ext, c' = c ++ ext) /\ n < length c'.
Proof.
  intros I OKk E.
  assert (G : forall c c', reach goodc c c' -> ctx_canon c ->
              ctx_canon c' /\ (exists ext, c' = c ++ ext)).
  { intros c0 c1 Rch I0. split; [eapply reach_canon; eauto | eapply reach_ext; eauto]. }
  destruct k; simpl in E, OKk; try contradiction.
  - destruct (constant_spec c v) as (c1 & k & E' & Rch & L & _).
    rewrite E in E'. inversion E'; subst c1 k. destruct (G _ _ Rch I); auto.
  - destruct (var_spec c v) as (c1 & k & E' & Rch & L & _).
    rewrite E in E'. inversion E'; subst c1 k. destruct (G _ _ Rch I); auto.
  - destruct (op_unary_spec o u OKk) as (S1 & _ & _).
    destruct (S1 _ _ _ _ E) as (_ & Rch & L). destruct (G _ _ Rch I); auto.
  - eapply (P1_binary_canon _ (pc_binary p OKk)); eauto.
  - eapply (P1_binary_canon _ pc_add); eauto.
  - eapply (P1_binary_canon _ pc_sub); eauto.
  - eapply (P1_binary_canon _ pc_mul); eauto.
  - eapply (P1_binary_canon _ pc_div); eauto.
  - eapply (P1_binary_canon _ pc_min); eauto.
  - eapply (P1_binary_canon _ pc_max); eauto.
  - eapply (P1_binary_canon _ pc_and); eauto.
  - eapply (P1_binary_canon _ pc_or); eauto.
  - eapply (P1_binary_canon _ (pc_build p)); eauto.
  - destruct (import_sound o t root c c' n (proj1 (proj1 I)) OKk E) as (Rch & L & _).
    destruct (G _ _ Rch I); auto.
Qed.

(* P2 for every call *)
Theorem run_call_dedup c k c' n :
  call_ok k -> run_call c k = Ok (c', n) -> run_call c' k = Ok (c', n).
Proof.
  intros OKk E. destruct k; simpl in E, OKk |- *.
  - eapply P2_constant; eauto.
  - eapply P2_var; eauto.
  - eapply P2_unary; eauto.
  - eapply (P2_binary _ (bc_binary p OKk)); eauto.
  - eapply (P2_binary _ (bc_comm p OKk)); eauto.
  - eapply (P2_binary _ bc_add); eauto.
  - eapply (P2_binary _ bc_sub); eauto.
  - eapply (P2_binary _ bc_mul); eauto.
  - eapply (P2_binary _ bc_div); eauto.
  - eapply (P2_binary _ bc_min); eauto.
  - eapply (P2_binary _ bc_max); eauto.
  - eapply (P2_binary _ bc_and); eauto.
  - eapply (P2_binary _ bc_or); eauto.
  - eapply (P2_binary _ (bc_build p)); eauto.
  - eapply import_dedup; eauto.
Qed.

Inductive built_ctx : ctx -> Prop :=
| built_nil : built_ctx []
| built_call c k c' n : built_ctx c -> call_ok k -> run_call c k = Ok (c', n) -> built_ctx c'.

Inductive built_pub : ctx -> Prop :=
| bpub_nil : built_pub []
| bpub_call c k c' n : built_pub c -> call_public k -> run_call c k = Ok (c', n) -> built_pub c'.

Theorem built_ctx_inv c : built_ctx c -> ctx_inv c.
Proof.
  induction 1; [apply ctx_inv_nil|]. eapply run_call_inv; eauto.
Qed.

Theorem built_pub_canon c : built_pub c -> ctx_canon c.
Proof.
  induction 1; [apply ctx_canon_nil|]. eapply run_call_canon; eauto.
Qed.

(* the hypothesis of the flatten theorems holds of every real context *)
Corollary ctx_arena_ok c roots :
  built_ctx c -> (forall r, In r roots -> r < length c) -> arena_ok c roots.
Proof. intros B. apply ctx_inv_arena_ok, built_ctx_inv, B. Qed.

(* ---- the sign of zero is observable through import ------------------------------ *)
(* mix(0 - x, 1): import builds mix(neg x, 1); at x = +0 the direct evaluation
   hashes the bits of +0, the imported node hashes the bits of -0.  All
   intermediate values are finite; only [tgood] (no zero) fails. *)
Example import_zero_sign_refuted :
  let t := [TConst fzero; TInput 0; TBin BSub 0 1; TConst fone; TBin BMix 2 3] in
  let env := fun _ : nat => fzero in
  exists c' n, import o t 4 [] = Ok (c', n) /\
    to_bits (val c' env n) <> to_bits (tree_den o t env 4) /\
    finite (val c' env n) /\ finite (tree_den o t env 4).
Proof.
  eexists _, _. split; [reflexivity|]. split; [vm_compute; discriminate|].
  split; reflexivity.
Qed.

(* the same through atan2: the imported node asks libm for atan2(-0, -1) (= -pi),
   the direct evaluation for atan2(+0, -1) (= +pi) *)
Example import_atan2_zero_sign :
  let t := [TConst fzero; TInput 0; TBin BSub 0 1; TConst fnone; TBin BAtan 2 3] in
  let env := fun _ : nat => fzero in
  exists c' n, import o t 4 [] = Ok (c', n) /\
    val c' env n = libm2 o LAtan2 fnzero fnone /\
    tree_den o t env 4 = libm2 o LAtan2 fzero fnone.
Proof. eexists _, _. split; [reflexivity|]. split; reflexivity. Qed.

(* x + x is stored as x * 2.0, x * x as square(x) *)
Example c_add_self_builds_mul :
  c_add o [NInput 0] 0 0 = Ok ([NInput 0; NConst ftwo; NBinary BMul 0 1], 2).
Proof. reflexivity. Qed.
Example c_mul_self_builds_square :
  c_mul o [NInput 0] 0 0 = Ok ([NInput 0; NUnary USquare 0], 1).
Proof. reflexivity. Qed.

End Main.

Print Assumptions extension_preserves_values.
Print Assumptions P1_binary.
Print Assumptions P1_binary_canon.
Print Assumptions P1_binary_err.
Print Assumptions P2_binary.
Print Assumptions P1_unary.
Print Assumptions run_call_inv.
Print Assumptions run_call_dedup.
Print Assumptions ctx_arena_ok.
Print Assumptions build_bin_sound.
Print Assumptions build_bin_sound_strong.
Print Assumptions build_bin_exact_nonconst.
Print Assumptions c_add_sound.
Print Assumptions c_mul_sound.
Print Assumptions c_div_sound.
Print Assumptions op_unary_sound.
Print Assumptions ctx_zero_sign_observable.
Print Assumptions import_rec_sound.
Print Assumptions import_sound.
Print Assumptions import_sound_wf.
Print Assumptions import_zero_sign_refuted.
Print Assumptions import_export.
Print Assumptions import_export_top.
Print Assumptions import_rec_dedup.
