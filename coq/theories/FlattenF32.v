(* FlattenF32.v — flatten_correct on the f32 semantics, and the counterexample that
   shows why Min / Max need a commutation hypothesis there. *)
From Coq Require Import ZArith List Bool Arith.
From FV Require Import F32 Ops Tape Alloc Flatten CtxEval F32Sem
  FlattenPass2 FlattenSem FlattenProof.
Import ListNotations.
Local Close Scope Z_scope.

Section F32.
Variable o : oracle.

(* on f32 the immediate forms are the register forms by definition *)
Theorem flatten_correct_f32 env arena roots t vars :
  comm_at_nodes (f32_sem o) env arena ->
  arena_ok arena roots -> flatten arena roots = Ok (t, vars) ->
  eval_outputs (f32_sem o) (t_ops t) (length roots) (map env vars)
  = map (ctx_eval (f32_sem o) arena env) roots.
Proof. apply flatten_correct_gen; reflexivity. Qed.

Theorem flatten_correct_f32_nocomm env arena roots t vars :
  no_commuted_node arena ->
  arena_ok arena roots -> flatten arena roots = Ok (t, vars) ->
  eval_outputs (f32_sem o) (t_ops t) (length roots) (map env vars)
  = map (ctx_eval (f32_sem o) arena env) roots.
Proof. apply flatten_correct_nocomm; reflexivity. Qed.

(* ---- the defect repaired by fidget commit 5adfca8 ---------------------------------
   Before the repair min_choice / max_choice returned their SECOND operand for equal
   values.  SsaTape::new emits MinRegImm(x, c) for a node min(c, x), so for zeros of
   opposite sign the tape and Context::eval disagreed.  [f32_sem_old] is the semantics
   with the old choice functions; the counterexamples are about it. *)
Definition fmax_choice_old (a b : f32) : f32 * choice :=
  if fgtb a b then (a, CLeft) else if fgtb b a then (b, CRight)
  else (if is_nanb a || is_nanb b then fnan else b, CBoth).
Definition fmin_choice_old (a b : f32) : f32 * choice :=
  if fltb a b then (a, CLeft) else if fltb b a then (b, CRight)
  else (if is_nanb a || is_nanb b then fnan else b, CBoth).
Definition f32_bin_old (b : bop) (x y : f32) : f32 :=
  match b with
  | BMin => fst (fmin_choice_old x y)
  | BMax => fst (fmax_choice_old x y)
  | _ => f32_bin o b x y
  end.
Definition f32_sem_old : Sem f32 f32 :=
  {| s_dflt := fnan; s_imm := fun i => i; s_un := f32_un o; s_rr := f32_bin_old;
     s_ri := fun b v i => f32_bin_old b v i; s_ir := fun b i v => f32_bin_old b i v;
     s_ch_rr := f32_choice; s_ch_ri := fun b v i => f32_choice b v i |}.

Definition min_arena : list (cnode f32) := [NConst fnzero; NInput 0; NBinary BMin 0 1].

Theorem flatten_f32_old_min_counterexample :
  arena_ok min_arena [2] /\
  exists t vars,
    flatten min_arena [2] = Ok (t, vars) /\
    t_ops t = [OOutput 0 0; OBinRI BMin 0 1 fnzero; OInput 1 0] /\
    eval_outputs f32_sem_old (t_ops t) 1 (map (fun _ => fzero) vars) = [fnzero] /\
    map (ctx_eval f32_sem_old min_arena (fun _ => fzero)) [2] = [fzero].
Proof.
  split; [apply arena_okb_spec; reflexivity|].
  eexists _, _. split; [reflexivity|]. simpl t_ops.
  split; [reflexivity|]. split; vm_compute; reflexivity.
Qed.

Definition max_arena : list (cnode f32) := [NConst fzero; NInput 0; NBinary BMax 0 1].

Theorem flatten_f32_old_max_counterexample :
  arena_ok max_arena [2] /\
  exists t vars,
    flatten max_arena [2] = Ok (t, vars) /\
    eval_outputs f32_sem_old (t_ops t) 1 (map (fun _ => fnzero) vars) = [fzero] /\
    map (ctx_eval f32_sem_old max_arena (fun _ => fnzero)) [2] = [fnzero].
Proof.
  split; [apply arena_okb_spec; reflexivity|].
  eexists _, _. split; [reflexivity|]. simpl t_ops.
  split; vm_compute; reflexivity.
Qed.

(* with the repaired choice functions the same inputs agree *)
Theorem flatten_f32_min_repaired :
  exists t vars,
    flatten min_arena [2] = Ok (t, vars) /\
    eval_outputs (f32_sem o) (t_ops t) 1 (map (fun _ => fzero) vars)
    = map (ctx_eval (f32_sem o) min_arena (fun _ => fzero)) [2].
Proof. eexists _, _. split; [reflexivity|]. vm_compute. reflexivity. Qed.

End F32.

Print Assumptions flatten_correct_f32.
Print Assumptions flatten_f32_old_min_counterexample.
