(* ER.v — the extended reals with NaN, with IEEE-754 *exact* (unrounded)
   arithmetic conventions, as an instance of the float-like structure [FL] of
   Interval.v.  This is the instance the enclosure theorems (IntervalSound.v) are
   proved about.

   Conventions (all of them IEEE-754 conventions for exact results):
     inf - inf = NaN, 0 * inf = NaN, inf / inf = NaN, 0 / 0 = NaN,
     x / 0 = +-inf for finite x <> 0.
   THERE IS NO SIGNED ZERO in this model: the single zero behaves like +0, so
     1 / 0 = +inf,  -1 / 0 = -inf,  +inf / 0 = +inf,  atan2(0, x<0) = +PI.
   sqrt(neg) = NaN, sqrt(+inf) = +inf, comparisons are false on NaN,
   [er_min]/[er_max] are Rust's NaN-ignoring f32::min / f32::max,
   floor/ceil/round (half away from zero) use the stdlib's [up],
   exp(+inf) = +inf, exp(-inf) = 0, ln(0) = -inf, ln(neg) = NaN, ln(+inf) = +inf,
   atan(+-inf) = +-PI/2, sin/cos/tan(+-inf) = NaN, tan(exact pole) = NaN,
   asin/acos NaN outside [-1,1].

   No axioms are declared; the only assumptions are those of the stdlib Reals. *)
From Coq Require Import Reals Lra List Bool.
From FV Require Import Ops Tape Interval.
Local Open Scope R_scope.

Inductive er := ENaN | ENInf | EPInf | EFin (r : R).

(* ---- decidable comparisons on R as booleans -------------------------------- *)
Definition Rltb (a b : R) : bool := if Rlt_dec a b then true else false.
Definition Rleb (a b : R) : bool := if Rle_dec a b then true else false.
Definition Reqb (a b : R) : bool := if Req_EM_T a b then true else false.

Lemma Rltb_true a b : Rltb a b = true <-> a < b.
Proof. unfold Rltb; destruct (Rlt_dec a b); split; intros; try discriminate; tauto. Qed.
Lemma Rltb_false a b : Rltb a b = false <-> ~ a < b.
Proof. unfold Rltb; destruct (Rlt_dec a b); split; intros; try discriminate; tauto. Qed.
Lemma Rleb_true a b : Rleb a b = true <-> a <= b.
Proof. unfold Rleb; destruct (Rle_dec a b); split; intros; try discriminate; tauto. Qed.
Lemma Rleb_false a b : Rleb a b = false <-> ~ a <= b.
Proof. unfold Rleb; destruct (Rle_dec a b); split; intros; try discriminate; tauto. Qed.
Lemma Reqb_true a b : Reqb a b = true <-> a = b.
Proof. unfold Reqb; destruct (Req_EM_T a b); split; intros; try discriminate; tauto. Qed.
Lemma Reqb_false a b : Reqb a b = false <-> a <> b.
Proof. unfold Reqb; destruct (Req_EM_T a b); split; intros; try discriminate; tauto. Qed.

(* ---- the order, as propositions and as IEEE booleans ----------------------- *)
(* Both are FALSE as soon as one side is NaN. *)
Definition er_le (x y : er) : Prop :=
  match x, y with
  | ENaN, _ | _, ENaN => False
  | ENInf, _ => True
  | _, EPInf => True
  | EFin a, EFin b => a <= b
  | _, _ => False
  end.

Definition er_lt (x y : er) : Prop :=
  match x, y with
  | ENaN, _ | _, ENaN => False
  | ENInf, ENInf => False
  | ENInf, _ => True
  | EPInf, _ => False
  | EFin a, EPInf => True
  | EFin a, EFin b => a < b
  | EFin _, ENInf => False
  end.

Definition er_leb (x y : er) : bool :=
  match x, y with
  | ENaN, _ | _, ENaN => false
  | ENInf, _ => true
  | _, EPInf => true
  | EFin a, EFin b => Rleb a b
  | _, _ => false
  end.

Definition er_ltb (x y : er) : bool :=
  match x, y with
  | ENaN, _ | _, ENaN => false
  | ENInf, ENInf => false
  | ENInf, _ => true
  | EPInf, _ => false
  | EFin a, EPInf => true
  | EFin a, EFin b => Rltb a b
  | EFin _, ENInf => false
  end.

(* IEEE ==: false on NaN *)
Definition er_eqb (x y : er) : bool :=
  match x, y with
  | ENInf, ENInf | EPInf, EPInf => true
  | EFin a, EFin b => Reqb a b
  | _, _ => false
  end.

(* to_bits() == to_bits(): equality of er values (all NaNs are one value) *)
Definition er_same (x y : er) : bool :=
  match x, y with
  | ENaN, ENaN | ENInf, ENInf | EPInf, EPInf => true
  | EFin a, EFin b => Reqb a b
  | _, _ => false
  end.

Definition er_is_nan (x : er) : bool := match x with ENaN => true | _ => false end.

Lemma er_leb_spec x y : er_leb x y = true <-> er_le x y.
Proof. destruct x, y; simpl; try tauto; try (split; [discriminate|tauto]). apply Rleb_true. Qed.
Lemma er_ltb_spec x y : er_ltb x y = true <-> er_lt x y.
Proof. destruct x, y; simpl; try tauto; try (split; [discriminate|tauto]). apply Rltb_true. Qed.
Lemma er_same_spec x y : er_same x y = true <-> x = y.
Proof.
  destruct x, y; simpl; try tauto; try (split; [discriminate|discriminate]).
  rewrite Reqb_true. split; [now intros -> | now intros [= ->]].
Qed.

(* ---- arithmetic -------------------------------------------------------------- *)
(* the infinity with the sign of [a]; NaN for a = 0 *)
Definition sgn_inf (a : R) : er :=
  if Rlt_dec 0 a then EPInf else if Rlt_dec a 0 then ENInf else ENaN.

Definition er_neg (x : er) : er :=
  match x with ENaN => ENaN | ENInf => EPInf | EPInf => ENInf | EFin a => EFin (- a) end.

Definition er_abs (x : er) : er :=
  match x with ENaN => ENaN | ENInf | EPInf => EPInf | EFin a => EFin (Rabs a) end.

Definition er_add (x y : er) : er :=
  match x, y with
  | ENaN, _ | _, ENaN => ENaN
  | EPInf, ENInf | ENInf, EPInf => ENaN
  | EPInf, _ | _, EPInf => EPInf
  | ENInf, _ | _, ENInf => ENInf
  | EFin a, EFin b => EFin (a + b)
  end.

Definition er_sub (x y : er) : er :=
  match x, y with
  | ENaN, _ | _, ENaN => ENaN
  | EPInf, EPInf | ENInf, ENInf => ENaN
  | EPInf, _ | _, ENInf => EPInf
  | ENInf, _ | _, EPInf => ENInf
  | EFin a, EFin b => EFin (a - b)
  end.

Definition er_mul (x y : er) : er :=
  match x, y with
  | ENaN, _ | _, ENaN => ENaN
  | EPInf, EPInf | ENInf, ENInf => EPInf
  | EPInf, ENInf | ENInf, EPInf => ENInf
  | EPInf, EFin a | EFin a, EPInf => sgn_inf a
  | ENInf, EFin a | EFin a, ENInf => sgn_inf (- a)
  | EFin a, EFin b => EFin (a * b)
  end.

(* no signed zero: the zero divisor is +0 *)
Definition er_div (x y : er) : er :=
  match x, y with
  | ENaN, _ | _, ENaN => ENaN
  | EFin a, EFin b => if Req_EM_T b 0 then sgn_inf a else EFin (a / b)
  | EFin _, _ => EFin 0
  | EPInf, EFin b => if Rlt_dec b 0 then ENInf else EPInf
  | ENInf, EFin b => if Rlt_dec b 0 then EPInf else ENInf
  | _, _ => ENaN       (* inf / inf *)
  end.

Definition er_sqrt (x : er) : er :=
  match x with
  | ENaN | ENInf => ENaN
  | EPInf => EPInf
  | EFin a => if Rlt_dec a 0 then ENaN else EFin (sqrt a)
  end.

(* floor / ceil / round-half-away-from-zero on R, from the stdlib's [up]
   ([Rfloor x] is IZR of Flocq's [Zfloor x], which is defined as [up x - 1]) *)
Definition Rfloor (x : R) : R := IZR (up x - 1).
Definition Rceil (x : R) : R := - Rfloor (- x).
Definition Rround (x : R) : R := if Rle_dec 0 x then Rfloor (x + / 2) else Rceil (x - / 2).

Definition er_lift (f : R -> R) (x : er) : er :=
  match x with EFin a => EFin (f a) | _ => x end.
Definition er_floor := er_lift Rfloor.
Definition er_ceil := er_lift Rceil.
Definition er_round := er_lift Rround.

(* Rust f32::min / f32::max: NaN-ignoring *)
Definition er_min (a b : er) : er :=
  if er_is_nan a then b else if er_is_nan b then a else if er_ltb b a then b else a.
Definition er_max (a b : er) : er :=
  if er_is_nan a then b else if er_is_nan b then a else if er_ltb a b then b else a.

Definition er_trig (f : R -> R) (x : er) : er :=
  match x with EFin a => EFin (f a) | _ => ENaN end.
Definition er_sin := er_trig sin.
Definition er_cos := er_trig cos.
(* tan has no real value at an exact pole (cos a = 0): NaN.  (Coq's [tan a] is
   sin a / cos a = sin a * / 0 = 0 there, by Rinv_0; using it would make the exact
   real PI/2, which no float equals, an artificial counterexample to [itan].) *)
Definition er_tan (x : er) : er :=
  match x with
  | EFin a => if Req_EM_T (cos a) 0 then ENaN else EFin (tan a)
  | _ => ENaN
  end.

Definition er_arc (f : R -> R) (x : er) : er :=
  match x with
  | EFin a => if Rle_dec (-1) a then if Rle_dec a 1 then EFin (f a) else ENaN else ENaN
  | _ => ENaN
  end.
Definition er_asin := er_arc asin.
Definition er_acos := er_arc acos.

Definition er_atan (x : er) : er :=
  match x with
  | ENaN => ENaN
  | ENInf => EFin (- (PI / 2))
  | EPInf => EFin (PI / 2)
  | EFin a => EFin (atan a)
  end.

Definition er_exp (x : er) : er :=
  match x with
  | ENaN => ENaN
  | ENInf => EFin 0
  | EPInf => EPInf
  | EFin a => EFin (exp a)
  end.

Definition er_ln (x : er) : er :=
  match x with
  | ENaN | ENInf => ENaN
  | EPInf => EPInf
  | EFin a => if Rlt_dec a 0 then ENaN else if Req_EM_T a 0 then ENInf else EFin (ln a)
  end.

(* atan2 on finite arguments (the single zero is +0) *)
Definition Ratan2 (y x : R) : R :=
  if Rlt_dec 0 x then atan (y / x)
  else if Rlt_dec x 0 then (if Rle_dec 0 y then atan (y / x) + PI else atan (y / x) - PI)
  else if Rlt_dec 0 y then PI / 2 else if Rlt_dec y 0 then - (PI / 2) else 0.

Definition er_atan2 (y x : er) : er :=
  match y, x with
  | ENaN, _ | _, ENaN => ENaN
  | EFin b, EFin a => EFin (Ratan2 b a)
  | EFin b, EPInf => EFin 0
  | EFin b, ENInf => if Rle_dec 0 b then EFin PI else EFin (- PI)
  | EPInf, EFin _ => EFin (PI / 2)
  | ENInf, EFin _ => EFin (- (PI / 2))
  | EPInf, EPInf => EFin (PI / 4)
  | ENInf, EPInf => EFin (- (PI / 4))
  | EPInf, ENInf => EFin (3 * PI / 4)
  | ENInf, ENInf => EFin (- (3 * PI / 4))
  end.

(* f32::rem_euclid:  let r = a % b; if r < 0 { r + |b| } else { r }
   (a % +-inf = a for finite a;  x % 0 = NaN;  +-inf % b = NaN) *)
Definition er_rem_euclid (x y : er) : er :=
  match x, y with
  | EFin a, EFin b =>
      if Req_EM_T b 0 then ENaN else EFin (a - Rabs b * Rfloor (a / Rabs b))
  | EFin a, EPInf | EFin a, ENInf => if Rlt_dec a 0 then EPInf else EFin a
  | _, _ => ENaN
  end.

(* Interval::quadrant at exact arithmetic: floor(2 x / pi) mod 4 *)
Definition er_quadrant (x : er) : quad :=
  let q := er_rem_euclid (er_floor (er_div (er_mul x (EFin 2)) (EFin PI))) (EFin 4) in
  if er_eqb q (EFin 1) then Q1 else if er_eqb q (EFin 2) then Q2 else if er_eqb q (EFin 3) then Q3 else Q0.

(* ---- the instance ------------------------------------------------------------ *)
(* [rnd] / [mix] model rng::rand / rng::mix on bit patterns; every theorem is
   proved for arbitrary total functions (irand needs rnd to land in [0,1]). *)
Definition er_fl_gen (rnd : er -> er) (mix : er -> er -> er) : FL er :=
  {| fl_zero := EFin 0; fl_one := EFin 1; fl_neg_one := EFin (-1);
     fl_two := EFin 2; fl_three := EFin 3; fl_four := EFin 4;
     fl_nan := ENaN; fl_inf := EPInf; fl_neg_inf := ENInf;
     fl_pi := EFin PI; fl_tau := EFin (2 * PI); fl_neg_pi := EFin (- PI);
     fl_is_nan := er_is_nan;
     fl_lt := er_ltb; fl_le := er_leb; fl_eq := er_eqb;
     fl_add := er_add; fl_sub := er_sub; fl_mul := er_mul; fl_div := er_div;
     fl_neg := er_neg; fl_abs := er_abs; fl_sqrt := er_sqrt;
     fl_floor := er_floor; fl_ceil := er_ceil; fl_round := er_round;
     fl_min := er_min; fl_max := er_max;
     fl_sin := er_sin; fl_cos := er_cos; fl_tan := er_tan;
     fl_asin := er_asin; fl_acos := er_acos; fl_atan := er_atan;
     fl_exp := er_exp; fl_ln := er_ln;
     fl_atan2 := er_atan2; fl_rem_euclid := er_rem_euclid;
     fl_bits_eq := er_same;
     fl_rand := rnd; fl_mix := mix; fl_quadrant := er_quadrant |}.

Definition er_fl : FL er := er_fl_gen (fun _ => EFin 0) (fun _ _ => EFin 0).

(* ---- point semantics of the opcodes over er (mirrors F32Sem.v / F32.v) ------- *)
Definition er_of_bool (b : bool) : er := if b then EFin 1 else EFin 0.
Definition er_is_zero (x : er) : bool := er_eqb x (EFin 0).

(* fmin_choice / fmax_choice: NaN-propagating *)
Definition er_pmin (a b : er) : er :=
  if er_ltb a b then a else if er_ltb b a then b
  else if er_is_nan a || er_is_nan b then ENaN else a.
Definition er_pmax (a b : er) : er :=
  if er_ltb b a then a else if er_ltb a b then b
  else if er_is_nan a || er_is_nan b then ENaN else a.
Definition er_compare (a b : er) : er :=
  if er_is_nan a || er_is_nan b then ENaN
  else if er_ltb a b then EFin (-1) else if er_ltb b a then EFin 1 else EFin 0.
Definition er_and (a b : er) : er := if er_is_zero a then a else b.
Definition er_or (a b : er) : er := if negb (er_is_zero a) then a else b.
Definition er_not (a : er) : er := er_of_bool (er_is_zero a).

Section PointSem.
Variable rnd : er -> er.
Variable mix : er -> er -> er.

Definition er_un (u : uop) (a : er) : er :=
  match u with
  | UNeg => er_neg a
  | UAbs => er_abs a
  | URecip => er_div (EFin 1) a
  | USqrt => er_sqrt a
  | USquare => er_mul a a
  | UFloor => er_floor a
  | UCeil => er_ceil a
  | URound => er_round a
  | USin => er_sin a
  | UCos => er_cos a
  | UTan => er_tan a
  | UAsin => er_asin a
  | UAcos => er_acos a
  | UAtan => er_atan a
  | UExp => er_exp a
  | ULn => er_ln a
  | UNot => er_not a
  | URand => rnd a
  | UCopy => a
  end.

Definition er_bin (b : bop) (x y : er) : er :=
  match b with
  | BAdd => er_add x y
  | BSub => er_sub x y
  | BMul => er_mul x y
  | BDiv => er_div x y
  | BAtan => er_atan2 x y
  | BMin => er_pmin x y
  | BMax => er_pmax x y
  | BCompare => er_compare x y
  | BMod => er_rem_euclid x y
  | BAnd => er_and x y
  | BOr => er_or x y
  | BMix => mix x y
  end.

(* the choice the point evaluator records (f32_choice) *)
Definition er_choice (b : bop) (x y : er) : tchoice :=
  match b with
  | BMin => if er_ltb x y then TLeft else if er_ltb y x then TRight else TBoth
  | BMax => if er_ltb y x then TLeft else if er_ltb x y then TRight else TBoth
  | BAnd => if er_is_zero x then TLeft else TRight
  | BOr => if negb (er_is_zero x) then TLeft else TRight
  | _ => TUnknown
  end.

Definition er_sem : Sem er er :=
  {| s_dflt := ENaN;
     s_imm := fun i => i;
     s_un := er_un;
     s_rr := er_bin;
     s_ri := fun b v i => er_bin b v i;
     s_ir := fun b i v => er_bin b i v;
     s_ch_rr := er_choice;
     s_ch_ri := fun b v i => er_choice b v i |}.
End PointSem.
