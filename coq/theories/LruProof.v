(* LruProof.v — the array-backed doubly-linked LRU refines an abstract recency list. *)
From Coq Require Import List Bool Arith Lia.
From FV Require Import Tape Lru.
Import ListNotations.

(* ---------- list_upd / lget ---------- *)
Lemma list_upd_length {A} (l : list A) k v : length (list_upd l k v) = length l.
Proof. revert k; induction l; destruct k; simpl; auto. Qed.

Lemma nth_error_list_upd {A} (l : list A) k v j :
  nth_error (list_upd l k v) j =
  if Nat.eqb j k then (if Nat.ltb k (length l) then Some v else None) else nth_error l j.
Proof.
  revert k j; induction l as [|a l IH]; intros k j.
  - simpl. destruct (Nat.eqb j k); destruct j; reflexivity.
  - destruct k, j; simpl; try reflexivity.
    rewrite IH. destruct (Nat.eqb j k); [|reflexivity].
    change (S k <? S (length l)) with (k <? length l). reflexivity.
Qed.

Lemma lget_list_upd l k v j : k < length l ->
  lget (list_upd l k v) j = if Nat.eqb j k then v else lget l j.
Proof.
  unfold lget. revert k j; induction l as [|a l IH]; intros k j Hk; simpl in Hk; [lia|].
  destruct k, j; simpl; try reflexivity. apply IH. lia.
Qed.

(* ---------- adjacent pairs ---------- *)
Fixpoint pairs (l : list nat) : list (nat * nat) :=
  match l with
  | a :: t => match t with b :: _ => (a, b) :: pairs t | [] => [] end
  | [] => []
  end.

Definition cpairs (ord : list nat) := pairs (ord ++ [hd 0 ord]).

Lemma pairs_cons2 a b t : pairs (a :: b :: t) = (a, b) :: pairs (b :: t).
Proof. reflexivity. Qed.

Lemma pairs_app l1 : forall l2, l1 <> [] -> l2 <> [] ->
  pairs (l1 ++ l2) = pairs l1 ++ (last l1 0, hd 0 l2) :: pairs l2.
Proof.
  induction l1 as [|a l1 IH]; intros l2 H1 H2; [congruence|].
  destruct l1 as [|b l1].
  - destruct l2; [congruence|]. reflexivity.
  - change ((a :: b :: l1) ++ l2) with (a :: b :: (l1 ++ l2)).
    rewrite pairs_cons2. change (b :: l1 ++ l2) with ((b :: l1) ++ l2).
    rewrite IH by (auto; discriminate). reflexivity.
Qed.

Lemma in_pairs l : forall a b, In (a, b) (pairs l) -> In a (removelast l) /\ In b (tl l).
Proof.
  induction l as [|x l IH]; intros a b H; [contradiction|].
  destruct l as [|y l]; [contradiction|].
  rewrite pairs_cons2 in H. destruct H as [H|H].
  - inversion H; subst. split; simpl; auto.
  - apply IH in H. destruct H as [Ha Hb]. split.
    + change (removelast (x :: y :: l)) with (x :: removelast (y :: l)). now right.
    + simpl. destruct l; simpl in *; auto.
Qed.

Lemma in_removelast {A} (l : list A) x : In x (removelast l) -> In x l.
Proof.
  induction l as [|a l IH]; simpl; auto. destruct l; [contradiction|].
  intros [H|H]; auto.
Qed.

Lemma in_tl {A} (l : list A) x : In x (tl l) -> In x l.
Proof. destruct l; simpl; auto. Qed.

Lemma nodup_removelast_last l : l <> [] -> NoDup l -> ~ In (last l 0) (removelast l).
Proof.
  intros Hne Hnd. rewrite (app_removelast_last 0 Hne) in Hnd.
  apply NoDup_remove_2 in Hnd. rewrite app_nil_r in Hnd. exact Hnd.
Qed.

Lemma nodup_tl_hd l : NoDup l -> ~ In (hd 0 l) (tl l).
Proof. destruct l; simpl; [auto|]. inversion 1; auto. Qed.

(* ---------- the representation predicate ---------- *)
Record lru_rep (n : nat) (l : lru) (ord : list nat) : Prop := {
  lr_nd : NoDup ord;
  lr_len : length ord = n;
  lr_lt : forall x, In x ord -> x < n;
  lr_lp : length (l_prev l) = n;
  lr_ln : length (l_next l) = n;
  lr_head : l_head l = hd 0 ord;
  lr_link : forall a b, In (a, b) (cpairs ord) ->
              lget (l_next l) a = b /\ lget (l_prev l) b = a
}.

(* abstract model: most recent first *)
Definition a_poke (i : nat) (ord : list nat) : list nat := i :: remove Nat.eq_dec i ord.
Definition a_pop (ord : list nat) : nat * list nat := (last ord 0, last ord 0 :: removelast ord).

Lemma rep_all n l ord : lru_rep n l ord -> forall x, x < n -> In x ord.
Proof.
  intros R x Hx.
  assert (incl (seq 0 n) ord).
  { apply NoDup_length_incl.
    - apply (lr_nd _ _ _ R).
    - rewrite seq_length, (lr_len _ _ _ R). lia.
    - intros y Hy. apply in_seq. pose proof (lr_lt _ _ _ R y Hy). lia. }
  apply H, in_seq. lia.
Qed.

(* ---------- new ---------- *)
Lemma pairs_seq_app m : forall a c x y,
  In (x, y) (pairs (seq a m ++ [c])) ->
  (y = S x /\ a <= x /\ S x < a + m) \/ (S x = a + m /\ y = c).
Proof.
  induction m as [|m IH]; intros a c x y H; [contradiction|].
  destruct m as [|m].
  - simpl in H. destruct H as [H|[]]. inversion H; subst. right. lia.
  - change (seq a (S (S m)) ++ [c]) with (a :: S a :: (seq (S (S a)) m ++ [c])) in H.
    rewrite pairs_cons2 in H. destruct H as [H|H].
    + inversion H; subst. left. lia.
    + change (S a :: seq (S (S a)) m ++ [c]) with (seq (S a) (S m) ++ [c]) in H.
      apply IH in H. lia.
Qed.

Lemma lget_map_seq f n i : i < n -> lget (map f (seq 0 n)) i = f i.
Proof.
  intros Hi. unfold lget.
  rewrite (nth_indep _ 0 (f 0)) by (rewrite map_length, seq_length; lia).
  rewrite map_nth, seq_nth by lia. reflexivity.
Qed.

Lemma lru_new_rep n : 1 <= n -> lru_rep n (lru_new n) (seq 0 n).
Proof.
  intros Hn. constructor.
  - apply seq_NoDup.
  - apply seq_length.
  - intros x Hx. apply in_seq in Hx. lia.
  - simpl. now rewrite map_length, seq_length.
  - simpl. now rewrite map_length, seq_length.
  - simpl. destruct n; [lia|reflexivity].
  - intros a b H. unfold cpairs in H.
    assert (hd 0 (seq 0 n) = 0) as E by (destruct n; [lia|reflexivity]).
    rewrite E in H. apply pairs_seq_app in H. simpl.
    destruct H as [(->&_&H)|(H&->)].
    + rewrite !lget_map_seq by lia. split; [|reflexivity].
      rewrite Nat.mod_small; lia.
    + rewrite !lget_map_seq by lia. split.
      * replace (a + 1) with n by lia. apply Nat.mod_same. lia.
      * lia.
Qed.

(* ---------- pop ---------- *)
Lemma cpairs_rot l z : l <> [] ->
  forall p, In p (cpairs (z :: l)) <-> In p (cpairs (l ++ [z])).
Proof.
  intros Hl p. unfold cpairs.
  destruct l as [|h t]; [congruence|].
  change (hd 0 (z :: h :: t)) with z.
  change (hd 0 ((h :: t) ++ [z])) with h.
  change ((z :: h :: t) ++ [z]) with ([z] ++ ((h :: t) ++ [z])).
  rewrite (pairs_app [z]) by (try discriminate; destruct t; discriminate).
  rewrite (pairs_app ((h :: t) ++ [z]) [h]) by (try discriminate; destruct t; discriminate).
  rewrite last_last. simpl hd. simpl last. simpl (pairs [z]). simpl (pairs [h]).
  simpl app at 1. rewrite in_app_iff. simpl. tauto.
Qed.

Lemma rep_nonempty n l ord : 1 <= n -> lru_rep n l ord -> ord <> [].
Proof. intros Hn R E. pose proof (lr_len _ _ _ R). subst ord. simpl in *. lia. Qed.

Lemma rep_prev_head n l ord : 1 <= n -> lru_rep n l ord ->
  lget (l_prev l) (l_head l) = last ord 0.
Proof.
  intros Hn R. pose proof (rep_nonempty _ _ _ Hn R) as Hne.
  rewrite (lr_head _ _ _ R).
  apply (lr_link _ _ _ R). unfold cpairs.
  rewrite pairs_app by (auto; discriminate). apply in_or_app. right. left. reflexivity.
Qed.

Lemma lru_pop_rep n l ord : 1 <= n -> lru_rep n l ord ->
  fst (lru_pop l) = fst (a_pop ord) /\ lru_rep n (snd (lru_pop l)) (snd (a_pop ord)).
Proof.
  intros Hn R. pose proof (rep_nonempty _ _ _ Hn R) as Hne.
  unfold lru_pop, a_pop. simpl. rewrite (rep_prev_head _ _ _ Hn R). split; [reflexivity|].
  pose proof (app_removelast_last 0 Hne) as E.
  set (z := last ord 0) in *. set (t := removelast ord) in *.
  assert (NoDup (z :: t)) as Hnd.
  { pose proof (lr_nd _ _ _ R) as H. rewrite E in H.
    apply NoDup_remove in H. rewrite app_nil_r in H. constructor; tauto. }
  constructor; simpl.
  - exact Hnd.
  - rewrite <- (lr_len _ _ _ R), E at 1. rewrite app_length. simpl. lia.
  - intros x [<-|Hx]; apply (lr_lt _ _ _ R); rewrite E; apply in_or_app; simpl; auto.
  - apply (lr_lp _ _ _ R).
  - apply (lr_ln _ _ _ R).
  - reflexivity.
  - intros a b H. apply (lr_link _ _ _ R). rewrite E.
    destruct t as [|h t'].
    + simpl in E. rewrite E in *. exact H.
    + apply (proj1 (cpairs_rot (h :: t') z ltac:(discriminate) (a, b))). exact H.
Qed.

(* ---------- poke ---------- *)
Lemma NoDup_app_l {A} (l1 l2 : list A) : NoDup (l1 ++ l2) -> NoDup l1.
Proof.
  induction l1 as [|a l1 IH]; simpl; intros H; [constructor|].
  inversion H; subst. constructor; [|auto]. rewrite in_app_iff in *. tauto.
Qed.
Lemma NoDup_app_r {A} (l1 l2 : list A) : NoDup (l1 ++ l2) -> NoDup l2.
Proof. induction l1 as [|a l1 IH]; simpl; intros H; [auto|]. inversion H; auto. Qed.

Lemma remove_notin l x : ~ In x l -> remove Nat.eq_dec x l = l.
Proof. apply notin_remove. Qed.

Lemma remove_app_mid l1 l2 i : ~ In i l1 -> ~ In i l2 ->
  remove Nat.eq_dec i (l1 ++ i :: l2) = l1 ++ l2.
Proof.
  intros H1 H2. rewrite remove_app, remove_cons, !remove_notin; auto.
Qed.

Lemma last_app_ne (l1 l2 : list nat) d : l2 <> [] -> last (l1 ++ l2) d = last l2 d.
Proof.
  intros H. induction l1 as [|a l1 IH]; [reflexivity|].
  simpl. destruct (l1 ++ l2) eqn:E; [|exact IH].
  apply app_eq_nil in E. tauto.
Qed.

Lemma hd_app_ne (l1 l2 : list nat) d : l1 <> [] -> hd d (l1 ++ l2) = hd d l1.
Proof. destruct l1; [congruence|reflexivity]. Qed.

Lemma lru_poke_rep n l ord i : 1 <= n -> lru_rep n l ord -> i < n ->
  lru_rep n (lru_poke l i) (a_poke i ord).
Proof.
  intros Hn R Hi.
  pose proof (rep_nonempty _ _ _ Hn R) as Hne.
  pose proof (rep_all _ _ _ R i Hi) as Hin.
  pose proof (lr_nd _ _ _ R) as Hnd.
  unfold lru_poke, a_poke.
  destruct ord as [|h t]; [congruence|].
  pose proof (lr_head _ _ _ R) as Hh. simpl in Hh. rewrite Hh.
  destruct (Nat.eqb h i) eqn:Ehi.
  { (* already newest *)
    apply Nat.eqb_eq in Ehi; subst i. simpl.
    destruct (Nat.eq_dec h h); [|congruence].
    rewrite remove_notin by (inversion Hnd; auto). exact R. }
  apply Nat.eqb_neq in Ehi.
  destruct Hin as [Hin|Hin]; [congruence|].
  assert (Hph : lget (l_prev l) h = last (h :: t) 0).
  { pose proof (rep_prev_head _ _ _ Hn R) as Hph. rewrite Hh in Hph. exact Hph. }
  rewrite Hph.
  simpl remove. destruct (Nat.eq_dec i h) as [|_]; [congruence|].
  apply in_split in Hin. destruct Hin as (l1 & l2 & ->).
  assert (Hi1 : ~ In i l1 /\ ~ In i l2 /\ ~ In i (h :: l1)).
  { inversion Hnd as [|? ? Hh' Hnd']; subst.
    apply NoDup_remove_2 in Hnd'. rewrite in_app_iff in Hnd'.
    simpl. intuition. }
  destruct Hi1 as (Hi1 & Hi2 & Hi3).
  rewrite remove_app_mid by assumption.
  destruct (Nat.eqb (last (h :: l1 ++ i :: l2) 0) i) eqn:Elast; simpl negb; cbv iota.
  { (* oldest: rotate *)
    apply Nat.eqb_eq in Elast.
    assert (l2 = []) as ->.
    { destruct l2 as [|x l2]; [reflexivity|]. exfalso.
      assert (E0 : h :: l1 ++ i :: x :: l2 = (h :: l1 ++ [i]) ++ (x :: l2))
        by (simpl; rewrite <- app_assoc; reflexivity).
      rewrite E0, last_app_ne in Elast by discriminate.
      apply Hi2. rewrite <- Elast.
      clear. generalize x. induction l2 as [|y l2 IH]; intros x0; [simpl; auto|].
      change (last (x0 :: y :: l2) 0) with (last (y :: l2) 0). right. apply IH. }
    rewrite app_nil_r.
    assert (Ei : lget (l_prev l) (l_head l) = i) by (rewrite Hh, Hph; exact Elast).
    destruct (lru_pop_rep _ _ _ Hn R) as [_ R'].
    unfold lru_pop, a_pop in R'. cbn [fst snd] in R'. rewrite Ei in R'.
    replace (h :: l1 ++ [i]) with ((h :: l1) ++ [i]) in R' by reflexivity.
    rewrite last_last, removelast_last in R'. exact R'. }
  apply Nat.eqb_neq in Elast.
  (* general case: i in the middle *)
  assert (Hl2 : l2 <> []).
  { intros ->. apply Elast.
    change (h :: l1 ++ [i]) with ((h :: l1) ++ [i]). apply last_last. }
  set (L1 := h :: l1) in *.
  set (p := last L1 0).
  set (nx := hd 0 l2).
  set (z := last l2 0).
  assert (HL1 : L1 <> []) by discriminate.
  (* old adjacency facts *)
  assert (Hold : forall a b,
     In (a, b) (pairs L1) \/ (a, b) = (p, i) \/ (a, b) = (i, nx) \/ In (a, b) (pairs l2)
     \/ (a, b) = (z, h) ->
     lget (l_next l) a = b /\ lget (l_prev l) b = a).
  { intros a b H. apply (lr_link _ _ _ R). unfold cpairs.
    change (hd 0 (h :: l1 ++ i :: l2)) with h.
    change ((h :: l1 ++ i :: l2) ++ [h]) with ((L1 ++ i :: l2) ++ [h]).
    rewrite <- app_assoc.
    rewrite pairs_app by (auto; discriminate).
    change ((i :: l2) ++ [h]) with ([i] ++ (l2 ++ [h])).
    rewrite (pairs_app [i]) by (try discriminate; destruct l2; discriminate).
    rewrite (pairs_app l2 [h]) by (auto; discriminate).
    rewrite (hd_app_ne l2) by assumption.
    simpl (pairs [i]). simpl (pairs [h]). simpl (last [i] 0). simpl (hd 0 [h]).
    simpl (hd 0 ([i] ++ _)).
    fold p nx z.
    rewrite !in_app_iff. simpl. rewrite !in_app_iff. simpl.
    destruct H as [H|[H|[H|[H|H]]]]; try rewrite H; intuition auto. }
  pose proof (Hold p i ltac:(tauto)) as [Hnp Hpi].
  pose proof (Hold i nx ltac:(tauto)) as [Hni Hpnx].
  pose proof (Hold z h ltac:(tauto)) as [Hnz Hpz].
  (* membership / distinctness *)
  assert (HpL : In p L1) by (apply (@exists_last _ L1) in HL1 as (l' & x & E);
                             unfold p; rewrite E, last_last; apply in_or_app; simpl; auto).
  assert (HnxL : In nx l2) by (unfold nx; destruct l2; [congruence|simpl; auto]).
  assert (HzL : In z l2) by (apply (@exists_last _ l2) in Hl2 as (l' & x & E);
                             unfold z; rewrite E, last_last; apply in_or_app; simpl; auto).
  assert (Hdisj : forall x y, In x L1 -> In y l2 -> x <> y).
  { intros x y Hx Hy ->. change (h :: l1 ++ i :: l2) with (L1 ++ i :: l2) in Hnd.
    apply NoDup_remove_1 in Hnd.
    revert Hx Hy. clear -Hnd. intros Hx Hy.
    induction L1 as [|a L1 IH]; [contradiction|].
    simpl in Hnd. inversion Hnd; subst. destruct Hx as [->|Hx].
    - apply H1. apply in_or_app. auto.
    - auto. }
  assert (HndL1 : NoDup L1).
  { change (h :: l1 ++ i :: l2) with (L1 ++ i :: l2) in Hnd.
    apply NoDup_app_l in Hnd. exact Hnd. }
  assert (Hndl2 : NoDup l2).
  { change (h :: l1 ++ i :: l2) with (L1 ++ i :: l2) in Hnd.
    apply NoDup_app_r in Hnd. inversion Hnd; assumption. }
  assert (Hlt : forall x, In x L1 \/ In x l2 \/ x = i -> x < n).
  { intros x Hx. destruct Hx as [Hx|[Hx| ->]]; [| |exact Hi];
    apply (lr_lt _ _ _ R); change (h :: l1 ++ i :: l2) with (L1 ++ i :: l2);
    apply in_or_app; simpl; auto. }
  pose proof (lr_lp _ _ _ R) as Hlp. pose proof (lr_ln _ _ _ R) as Hln.
  assert (hL1 : In h L1) by (left; reflexivity).
  assert (Hp_i : p <> i) by (intros E; apply Hi3; rewrite <- E; exact HpL).
  assert (Hnx_i : nx <> i) by (intros E; apply Hi2; rewrite <- E; exact HnxL).
  assert (Hz_i : z <> i) by (intros E; apply Hi2; rewrite <- E; exact HzL).
  assert (Hh_nx : h <> nx) by (apply Hdisj; assumption).
  assert (Hp_z : p <> z) by (apply Hdisj; assumption).
  (* compute the new arrays *)
  unfold lru_remove, lru_insert_before. cbn [l_prev l_next l_head].
  rewrite Hni, Hpi.
  assert (Eph : lget (list_upd (l_prev l) nx p) h = z).
  { rewrite lget_list_upd by (rewrite Hlp; apply Hlt; auto).
    destruct (Nat.eqb_spec h nx); [congruence|]. rewrite Hph.
    change (h :: l1 ++ i :: l2) with (L1 ++ i :: l2).
    change (i :: l2) with ([i] ++ l2). rewrite app_assoc.
    apply last_app_ne; assumption. }
  rewrite Hh, Eph.
  set (NX := list_upd (list_upd (list_upd (l_next l) p nx) z i) i h).
  set (PV := list_upd (list_upd (list_upd (l_prev l) nx p) h i) i z).
  assert (ENX : forall a, lget NX a =
     if Nat.eqb a i then h else if Nat.eqb a z then i else if Nat.eqb a p then nx
     else lget (l_next l) a).
  { intros a. unfold NX.
    rewrite !lget_list_upd; rewrite ?list_upd_length, ?Hln; auto. }
  assert (EPV : forall a, lget PV a =
     if Nat.eqb a i then z else if Nat.eqb a h then i else if Nat.eqb a nx then p
     else lget (l_prev l) a).
  { intros a. unfold PV.
    rewrite !lget_list_upd; rewrite ?list_upd_length, ?Hlp; auto. }
  constructor; cbn [l_prev l_next l_head].
  - (* NoDup *)
    constructor.
    + change (h :: l1 ++ l2) with (L1 ++ l2). rewrite in_app_iff. tauto.
    + change (h :: l1 ++ i :: l2) with (L1 ++ i :: l2) in Hnd.
      apply NoDup_remove_1 in Hnd. exact Hnd.
  - rewrite <- (lr_len _ _ _ R). simpl. rewrite !app_length. simpl. lia.
  - intros x Hx. apply Hlt. change (h :: l1 ++ l2) with (L1 ++ l2) in Hx.
    destruct Hx as [<-|Hx]; auto. apply in_app_or in Hx. tauto.
  - unfold PV. rewrite !list_upd_length. exact Hlp.
  - unfold NX. rewrite !list_upd_length. exact Hln.
  - reflexivity.
  - intros a b Hab. unfold cpairs in Hab.
    change (hd 0 (i :: h :: l1 ++ l2)) with i in Hab.
    change ((i :: h :: l1 ++ l2) ++ [i]) with ([i] ++ ((L1 ++ l2) ++ [i])) in Hab.
    rewrite (pairs_app [i]) in Hab by (discriminate).
    rewrite (pairs_app (L1 ++ l2) [i]) in Hab
      by (try discriminate; intros E; apply app_eq_nil in E; tauto).
    rewrite (pairs_app L1 l2) in Hab by assumption.
    rewrite last_app_ne in Hab by assumption.
    simpl (pairs [i]) in Hab. simpl (last [i] 0) in Hab. simpl (hd 0 [i]) in Hab.
    change (hd 0 ((L1 ++ l2) ++ [i])) with h in Hab.
    fold p nx z in Hab.
    rewrite ENX, EPV.
    rewrite app_nil_l in Hab. destruct Hab as [Hab|Hab];
      [|rewrite !in_app_iff in Hab; cbn [In] in Hab;
        destruct Hab as [[Hab|[Hab|Hab]]|[Hab|[]]]].
    + (* (i,h) *) inversion Hab; subst a b.
      rewrite Nat.eqb_refl.
      destruct (Nat.eqb_spec h i); [congruence|]. rewrite Nat.eqb_refl. auto.
    + (* inside L1 *)
      pose proof (in_pairs _ _ _ Hab) as [Ha Hb].
      pose proof (nodup_removelast_last L1 HL1 HndL1) as Hnl. fold p in Hnl.
      pose proof (nodup_tl_hd L1 HndL1) as Hnh. simpl hd in Hnh.
      pose proof (in_removelast _ _ Ha) as Ha'. pose proof (in_tl _ _ Hb) as Hb'.
      assert (a <> i) by (intros ->; tauto).
      assert (a <> z) by (apply Hdisj; assumption).
      assert (a <> p) by (intros ->; tauto).
      assert (b <> i) by (intros ->; tauto).
      assert (b <> h) by (intros ->; apply Hnh; exact Hb).
      assert (b <> nx) by (apply Hdisj; assumption).
      repeat match goal with |- context [Nat.eqb ?x ?y] =>
        destruct (Nat.eqb_spec x y); [congruence|] end.
      apply Hold. tauto.
    + (* (p,nx) *) inversion Hab; subst a b.
      repeat match goal with |- context [Nat.eqb ?x ?y] =>
        destruct (Nat.eqb_spec x y); try congruence end.
      auto.
    + (* inside l2 *)
      pose proof (in_pairs _ _ _ Hab) as [Ha Hb].
      pose proof (nodup_removelast_last l2 Hl2 Hndl2) as Hnl. fold z in Hnl.
      pose proof (nodup_tl_hd l2 Hndl2) as Hnh. fold nx in Hnh.
      pose proof (in_removelast _ _ Ha) as Ha'. pose proof (in_tl _ _ Hb) as Hb'.
      assert (a <> i) by (intros ->; tauto).
      assert (a <> z) by (intros ->; tauto).
      assert (a <> p) by (intros E; apply (Hdisj p a); auto).
      assert (b <> i) by (intros ->; tauto).
      assert (b <> h) by (intros E; apply (Hdisj h b); auto).
      assert (b <> nx) by (intros ->; tauto).
      repeat match goal with |- context [Nat.eqb ?x ?y] =>
        destruct (Nat.eqb_spec x y); [congruence|] end.
      apply Hold. tauto.
    + (* (z,i) *) inversion Hab; subst a b.
      repeat match goal with |- context [Nat.eqb ?x ?y] =>
        destruct (Nat.eqb_spec x y); try congruence end.
      auto.
Qed.

(* ---------- recency facts on the abstract model ---------- *)
Lemma in_firstn_remove i : forall k ord r,
  In r (firstn k ord) -> r <> i -> In r (firstn k (remove Nat.eq_dec i ord)).
Proof.
  induction k as [|k IH]; intros ord r H Hne; [contradiction|].
  destruct ord as [|a ord]; [contradiction|].
  simpl in H. simpl. destruct (Nat.eq_dec i a) as [->|Hia].
  - destruct H as [->|H]; [congruence|].
    apply IH with (ord := ord) in H; auto.
    clear -H. revert H. generalize (remove Nat.eq_dec a ord). intros l.
    revert k; induction l; destruct k; simpl; auto. intros [H|H]; auto.
  - destruct H as [->|H]; simpl; auto.
Qed.

Lemma recent_poke i k ord r :
  In r (firstn k ord) -> In r (firstn (S k) (a_poke i ord)).
Proof.
  intros H. unfold a_poke. simpl. destruct (Nat.eq_dec i r) as [->|Hne]; auto.
  right. apply in_firstn_remove; auto.
Qed.

Lemma recent_poke_hd i k ord : In i (firstn (S k) (a_poke i ord)).
Proof. simpl. auto. Qed.

Lemma in_firstn_removelast : forall k (ord : list nat) r,
  In r (firstn k ord) -> r = last ord 0 \/ In r (firstn k (removelast ord)).
Proof.
  induction k as [|k IH]; intros ord r H; [contradiction|].
  destruct ord as [|a ord]; [contradiction|].
  destruct ord as [|b ord].
  - simpl in H. destruct H as [->|H]; [left; reflexivity| destruct k; contradiction].
  - change (removelast (a :: b :: ord)) with (a :: removelast (b :: ord)).
    change (last (a :: b :: ord) 0) with (last (b :: ord) 0).
    simpl in H. destruct H as [->|H]; [right; simpl; auto|].
    apply (IH (b :: ord)) in H. destruct H; [left|right; simpl]; auto.
Qed.

Lemma recent_pop k ord r :
  In r (firstn k ord) -> In r (firstn (S k) (snd (a_pop ord))).
Proof.
  intros H. unfold a_pop. simpl. apply in_firstn_removelast in H. intuition.
Qed.

Lemma recent_pop_hd k ord : In (fst (a_pop ord)) (firstn (S k) (snd (a_pop ord))).
Proof. simpl. auto. Qed.

Lemma last_not_recent ord k : NoDup ord -> k < length ord ->
  ~ In (last ord 0) (firstn k ord).
Proof.
  intros Hnd Hk Hin.
  assert (ord <> []) as Hne by (destruct ord; simpl in *; [lia|discriminate]).
  pose proof (nodup_removelast_last ord Hne Hnd) as Hn. apply Hn.
  rewrite (app_removelast_last 0 Hne) in Hin at 2.
  rewrite firstn_app in Hin.
  assert (length (removelast ord) = length ord - 1) as El.
  { rewrite (app_removelast_last 0 Hne) at 2. rewrite app_length. simpl. lia. }
  replace (k - length (removelast ord)) with 0 in Hin by lia.
  simpl in Hin. rewrite app_nil_r in Hin.
  clear -Hin. revert Hin. generalize (removelast ord) (last ord 0). intros l x.
  revert k; induction l; destruct k; simpl; auto; try contradiction. intros [H|H]; eauto.
Qed.

Lemma firstn_in {A} k (l : list A) x : In x (firstn k l) -> In x l.
Proof. revert k; induction l; destruct k; simpl; auto; try contradiction. intros [H|H]; eauto. Qed.

Lemma firstn_mono {A} k k' (l : list A) x : k <= k' -> In x (firstn k l) -> In x (firstn k' l).
Proof.
  revert k k'; induction l; intros k k' Hk; destruct k; simpl; try contradiction.
  destruct k'; [lia|]. simpl. intros [H|H]; auto. right. apply IHl with k; auto. lia.
Qed.

(* ---------- the refinement theorem over arbitrary command sequences ---------- *)
From Coq Require Import Permutation.

Inductive lru_cmd := CPoke (i : nat) | CPop.

(* concrete run: final structure and the list of popped indices *)
Fixpoint lru_run (l : lru) (cs : list lru_cmd) : lru * list nat :=
  match cs with
  | [] => (l, [])
  | CPoke i :: cs' => lru_run (lru_poke l i) cs'
  | CPop :: cs' =>
      let '(r, l') := lru_pop l in
      let '(lf, outs) := lru_run l' cs' in (lf, r :: outs)
  end.

(* abstract run on the recency list (most recent first): poke moves to the front,
   pop returns the LAST (least recently used) element and makes it most recent *)
Fixpoint abs_run (ord : list nat) (cs : list lru_cmd) : list nat * list nat :=
  match cs with
  | [] => (ord, [])
  | CPoke i :: cs' => abs_run (a_poke i ord) cs'
  | CPop :: cs' =>
      let '(r, ord') := a_pop ord in
      let '(of, outs) := abs_run ord' cs' in (of, r :: outs)
  end.

Lemma rep_perm n l ord : lru_rep n l ord -> Permutation ord (seq 0 n).
Proof.
  intros R. apply NoDup_Permutation.
  - apply (lr_nd _ _ _ R).
  - apply seq_NoDup.
  - intros x. rewrite in_seq. split.
    + intros H. pose proof (lr_lt _ _ _ R x H). lia.
    + intros H. apply (rep_all _ _ _ R). lia.
Qed.

Lemma lru_run_refines n cs : 1 <= n -> forall l ord,
  lru_rep n l ord -> (forall i, In (CPoke i) cs -> i < n) ->
  lru_rep n (fst (lru_run l cs)) (fst (abs_run ord cs)) /\
  snd (lru_run l cs) = snd (abs_run ord cs).
Proof.
  intros Hn. induction cs as [|c cs IH]; intros l ord R Hlt.
  - simpl. auto.
  - destruct c as [i|].
    + simpl. apply IH.
      * apply lru_poke_rep; auto. apply Hlt. left. reflexivity.
      * intros j Hj. apply Hlt. right. exact Hj.
    + cbn [lru_run abs_run]. destruct (lru_pop_rep _ _ _ Hn R) as [E R'].
      destruct (lru_pop l) as [r l'] eqn:El. destruct (a_pop ord) as [r' ord'] eqn:Ea.
      cbn [fst snd] in E, R'. subst r'.
      specialize (IH l' ord' R' (fun j Hj => Hlt j (or_intror Hj))).
      destruct (lru_run l' cs) as [lf outs]. destruct (abs_run ord' cs) as [of outs'].
      cbn [fst snd] in *. destruct IH as [IH1 IH2]. split; [exact IH1|]. congruence.
Qed.

Theorem lru_refines n cs : 1 <= n -> (forall i, In (CPoke i) cs -> i < n) ->
  lru_rep n (fst (lru_run (lru_new n) cs)) (fst (abs_run (seq 0 n) cs)) /\
  snd (lru_run (lru_new n) cs) = snd (abs_run (seq 0 n) cs) /\
  Permutation (fst (abs_run (seq 0 n) cs)) (seq 0 n).
Proof.
  intros Hn Hlt.
  destruct (lru_run_refines n cs Hn (lru_new n) (seq 0 n) (lru_new_rep n Hn) Hlt) as [R E].
  split; [exact R|]. split; [exact E|]. eapply rep_perm; eauto.
Qed.

(* consequence used by the allocator: with n >= 3 a pop never returns one of the
   two most recently used indices *)
Corollary pop_not_recent2 n l ord : 3 <= n -> lru_rep n l ord ->
  ~ In (fst (lru_pop l)) (firstn 2 ord).
Proof.
  intros Hn R. destruct (lru_pop_rep n l ord ltac:(lia) R) as [E _]. rewrite E.
  unfold a_pop. cbn [fst]. apply last_not_recent; [apply (lr_nd _ _ _ R)|rewrite (lr_len _ _ _ R); lia].
Qed.

Print Assumptions lru_refines.
