(* PixelGenCheck.v — the constants and the shape of the pixel encoding in the model (PixelCodec.v) are the ones
   tools/gen_tables.py reads from fidget-raster/src/pixel.rs on this run.  An edit of the encoding (another key,
   another shift, the NaN canonicalisation dropped) breaks one of these lemmas. *)
From Coq Require Import NArith Bool.
From FV Require Import PixelCodec.
From FVGen Require Import RasterGen.
Local Open Scope N_scope.

Lemma key_matches_source : gen_key = key. Proof. reflexivity. Qed.
Lemma key_mask_matches_source : gen_key_mask = key_mask. Proof. reflexivity. Qed.
Lemma fill_base_matches_source : gen_fill_base = qnan. Proof. reflexivity. Qed.
Lemma depth_shifts_match_source : gen_fill_depth_shift = 1 /\ gen_unpack_depth_shift = 1. Proof. split; reflexivity. Qed.
Lemma value_conversion_canonicalises_nan : gen_value_canonicalises_nan = true. Proof. reflexivity. Qed.

(* so: with the conversion the source has now, no value is read back as a fill *)
Theorem source_value_is_never_a_fill (b : N) :
  unpack (of_value gen_value_canonicalises_nan b) = Value (of_value gen_value_canonicalises_nan b).
Proof. rewrite value_conversion_canonicalises_nan. apply value_is_never_a_fill. Qed.
