(* ShapesSound.v — property C16: what the fidget-shapes tree builders (Shapes.v) mean
   geometrically, over the reals.

   The builders of Shapes.v are instantiated at T := R with real arithmetic; a tree is
   evaluated with [den] (the denotation by substitution [eden] of Expr.v with the real
   meaning of every opcode the shapes use); "p is strictly inside s" is [den s p < 0].

   Part 1  real instance, denotation, helper lemmas
   Part 2  P1 primitives     (circle, sphere, rectangle, box, plane)
   Part 3  P2 CSG            (union, intersection, inverse, difference, blend)
   Part 4  P3 affine         (remap_affine incl. flattening, move, scale, rotate, Rodrigues)
   Part 5  P3 remap_xyz      (reflect*, repeat_x, revolve_y, extrude_z, loft_z)
   Part 6  P4 named planes
   No axioms beyond those of the stdlib Reals. *)
From Coq Require Import Reals Lra Lia Psatz Nsatz List Bool Arith ZArith.
From FV Require Import Ops Expr Shapes Affine.
From FVGen Require Import ShapesGen.
Import ListNotations.
Local Open Scope R_scope.

(* ====================================================================================== *)
(* Part 1: the real instance                                                              *)
(* ====================================================================================== *)

Definition r_sc : SC R :=
  {| sc_zero := 0; sc_one := 1; sc_add := Rplus; sc_sub := Rminus; sc_mul := Rmult;
     sc_div := Rdiv; sc_neg := Ropp |}.

(* floor / ceiling as reals *)
Definition rfloor (x : R) : R := IZR (Int_part x).
Definition rceil (x : R) : R := - rfloor (- x).

(* Euclidean remainder (f32::rem_euclid): the result is in [0, |b|) *)
Definition rmod (a b : R) : R :=
  a - b * (if Rlt_dec 0 b then rfloor (a / b) else rceil (a / b)).

Definition r_un (u : uop) (x : R) : R :=
  match u with
  | UNeg => - x
  | UAbs => Rabs x
  | URecip => / x
  | USqrt => sqrt x
  | USquare => x * x
  | UFloor => rfloor x
  | UCeil => rceil x
  | USin => sin x
  | UCos => cos x
  | UExp => exp x
  | UCopy => x
  | _ => 0
  end.

Definition r_bin (b : bop) (x y : R) : R :=
  match b with
  | BAdd => x + y
  | BSub => x - y
  | BMul => x * y
  | BDiv => x / y
  | BMin => Rmin x y
  | BMax => Rmax x y
  | BMod => rmod x y
  | _ => 0
  end.

(* points *)
Definition pt : Type := (R * R * R)%type.
Definition px (p : pt) : R := fst (fst p).
Definition py (p : pt) : R := snd (fst p).
Definition pz (p : pt) : R := snd p.

Lemma pt_eta (p : pt) : p = (px p, py p, pz p).
Proof. destruct p as [[x y] z]; reflexivity. Qed.

Lemma pt_ext (x y z x' y' z' : R) : x = x' -> y = y' -> z = z' -> (x, y, z) = (x', y', z').
Proof. intros; subst; reflexivity. Qed.

Notation shape := (etree R).

Definition den (t : shape) (p : pt) : R :=
  eden r_sc r_un r_bin t (px p) (py p) (pz p) (fun _ => 0).

Definition inside (s : shape) (p : pt) : Prop := den s p < 0.

Lemma den_ext (s : shape) (x y z x' y' z' : R) :
  x = x' -> y = y' -> z = z' -> den s (x, y, z) = den s (x', y', z').
Proof. intros; subst; reflexivity. Qed.

(* vectors: Shapes.vec3 at R *)
Notation vec := (@vec3 R).
Definition mkv (x y z : R) : vec := {| vx := x; vy := y; vz := z |}.
Definition dot (a : vec) (p : pt) : R := vx a * px p + vy a * py p + vz a * pz p.
Definition vdot (a b : vec) : R := vx a * vx b + vy a * vy b + vz a * vz b.
Definition v2p (a : vec) : pt := (vx a, vy a, vz a).

(* the builders at R.  [inf]/[ninf] (the constants of the empty union / intersection, +-oo
   in f32) are arbitrary reals: they only show up in the two [..._nil] lemmas. *)
Definition r_pos (r : R) : bool := if Rlt_dec 0 r then true else false.

(* --- order helpers --- *)
Lemma Rmax_lt_iff a b c : Rmax a b < c <-> a < c /\ b < c.
Proof.
  split.
  - intros H; split; [eapply Rle_lt_trans; [apply Rmax_l|exact H] | eapply Rle_lt_trans; [apply Rmax_r|exact H]].
  - intros [H1 H2]; apply Rmax_lub_lt; assumption.
Qed.

Lemma Rmin_lt_iff a b c : Rmin a b < c <-> a < c \/ b < c.
Proof.
  unfold Rmin; destruct (Rle_dec a b); split; intros; try tauto; lra.
Qed.

Lemma sq_nn a : 0 <= a * a.
Proof. apply (Rle_0_sqr a). Qed.
Lemma pow2_nn a : 0 <= a ^ 2.
Proof. replace (a ^ 2) with (a * a) by ring. apply sq_nn. Qed.

Lemma sqrt_lt_iff a r : 0 <= a -> (sqrt a < r <-> 0 < r /\ a < r * r).
Proof.
  intros Ha; split.
  - intros H. assert (0 < r) by (pose proof (sqrt_pos a); lra). split; [assumption|].
    rewrite <- (sqrt_sqrt a Ha) at 1.
    pose proof (sqrt_pos a). nra.
  - intros [Hr H]. rewrite <- (sqrt_square r) by lra.
    apply sqrt_lt_1_alt; lra.
Qed.

(* ====================================================================================== *)
(* Part 2: P1 primitives                                                                  *)
(* ====================================================================================== *)

Lemma den_circle cx cy r p :
  den (circle cx cy r) p = sqrt ((px p - cx) * (px p - cx) + (py p - cy) * (py p - cy)) - r.
Proof. reflexivity. Qed.

(* general form: inside iff the radius is positive and the point is closer than r *)
Theorem circle_inside_gen cx cy r p :
  den (circle cx cy r) p < 0 <-> 0 < r /\ (px p - cx)^2 + (py p - cy)^2 < r^2.
Proof.
  rewrite den_circle.
  set (A := (px p - cx) * (px p - cx) + (py p - cy) * (py p - cy)).
  assert (HA : 0 <= A)
    by (unfold A; pose proof (sq_nn (px p - cx)); pose proof (sq_nn (py p - cy)); lra).
  replace ((px p - cx)^2 + (py p - cy)^2) with A by (unfold A; ring).
  replace (r^2) with (r * r) by ring.
  rewrite <- (sqrt_lt_iff A r HA). lra.
Qed.

Theorem circle_inside cx cy r p : 0 <= r ->
  (den (circle cx cy r) p < 0 <-> (px p - cx)^2 + (py p - cy)^2 < r^2).
Proof.
  intros Hr. rewrite circle_inside_gen. split; [tauto|].
  intros H; split; [|assumption].
  destruct (Req_dec r 0) as [->|]; [|lra].
  pose proof (pow2_nn (px p - cx)); pose proof (pow2_nn (py p - cy)). lra.
Qed.

(* a circle of radius <= 0 is empty (for r < 0 the right-hand side of [circle_inside] can
   hold, the left never does) *)
Theorem circle_nonpos_radius_empty cx cy r p : r <= 0 -> ~ den (circle cx cy r) p < 0.
Proof. intros Hr H. apply circle_inside_gen in H. lra. Qed.

(* the field is the signed Euclidean distance to the circle *)
Theorem circle_distance cx cy r p :
  den (circle cx cy r) p = sqrt ((px p - cx)^2 + (py p - cy)^2) - r.
Proof. rewrite den_circle. do 2 f_equal. ring. Qed.

Lemma den_sphere c r p :
  den (sphere c r) p =
  sqrt ((px p - vx c) * (px p - vx c) + (py p - vy c) * (py p - vy c) + (pz p - vz c) * (pz p - vz c)) - r.
Proof. reflexivity. Qed.

Theorem sphere_inside_gen c r p :
  den (sphere c r) p < 0 <->
  0 < r /\ (px p - vx c)^2 + (py p - vy c)^2 + (pz p - vz c)^2 < r^2.
Proof.
  rewrite den_sphere.
  set (A := (px p - vx c) * (px p - vx c) + (py p - vy c) * (py p - vy c) + (pz p - vz c) * (pz p - vz c)).
  assert (HA : 0 <= A)
    by (unfold A; pose proof (sq_nn (px p - vx c)); pose proof (sq_nn (py p - vy c));
        pose proof (sq_nn (pz p - vz c)); lra).
  replace ((px p - vx c)^2 + (py p - vy c)^2 + (pz p - vz c)^2) with A by (unfold A; ring).
  replace (r^2) with (r * r) by ring.
  rewrite <- (sqrt_lt_iff A r HA). lra.
Qed.

Theorem sphere_inside c r p : 0 <= r ->
  (den (sphere c r) p < 0 <-> (px p - vx c)^2 + (py p - vy c)^2 + (pz p - vz c)^2 < r^2).
Proof.
  intros Hr. rewrite sphere_inside_gen. split; [tauto|].
  intros H; split; [|assumption].
  destruct (Req_dec r 0) as [->|]; [|lra].
  pose proof (pow2_nn (px p - vx c)); pose proof (pow2_nn (py p - vy c));
  pose proof (pow2_nn (pz p - vz c)). lra.
Qed.

Theorem sphere_nonpos_radius_empty c r p : r <= 0 -> ~ den (sphere c r) p < 0.
Proof. intros Hr H. apply sphere_inside_gen in H. lra. Qed.

Lemma den_rectangle lx ly ux uy p :
  den (rectangle lx ly ux uy) p =
  Rmax (Rmax (lx - px p) (px p - ux)) (Rmax (ly - py p) (py p - uy)).
Proof. reflexivity. Qed.

Theorem rectangle_inside lx ly ux uy p :
  den (rectangle lx ly ux uy) p < 0 <-> lx < px p < ux /\ ly < py p < uy.
Proof. rewrite den_rectangle, !Rmax_lt_iff. lra. Qed.

Lemma den_box lo hi p :
  den (box lo hi) p =
  Rmax (Rmax (Rmax (vx lo - px p) (px p - vx hi)) (Rmax (vy lo - py p) (py p - vy hi)))
       (Rmax (vz lo - pz p) (pz p - vz hi)).
Proof. reflexivity. Qed.

Theorem box_inside lo hi p :
  den (box lo hi) p < 0 <->
  vx lo < px p < vx hi /\ vy lo < py p < vy hi /\ vz lo < pz p < vz hi.
Proof. rewrite den_box, !Rmax_lt_iff. lra. Qed.

Lemma den_plane a off p : den (plane a off) p = dot a p - off.
Proof. unfold dot. cbn. ring. Qed.

Theorem plane_inside a off p : den (plane a off) p < 0 <-> dot a p < off.
Proof. rewrite den_plane. lra. Qed.

(* ====================================================================================== *)
(* Part 3: P2 CSG                                                                         *)
(* ====================================================================================== *)

Lemma den_emin a b p : den (emin a b) p = Rmin (den a p) (den b p).
Proof. reflexivity. Qed.
Lemma den_emax a b p : den (emax a b) p = Rmax (den a p) (den b p).
Proof. reflexivity. Qed.

Lemma csg_tree_step {T} (f : etree T -> etree T -> etree T) k x y r d :
  csg_tree f (S k) (x :: y :: r) d =
  f (csg_tree f k (firstn (length (x :: y :: r) / 2) (x :: y :: r)) d)
    (csg_tree f k (skipn (length (x :: y :: r) / 2) (x :: y :: r)) d).
Proof. reflexivity. Qed.

Lemma csg_split_facts {A} (s : list A) k : (2 <= length s <= S k)%nat ->
  firstn (length s / 2) s <> [] /\ skipn (length s / 2) s <> [] /\
  (length (firstn (length s / 2) s) <= k)%nat /\ (length (skipn (length s / 2) s) <= k)%nat.
Proof.
  intros [H2 Hk].
  assert (H1 : (1 <= length s / 2)%nat) by (apply Nat.div_le_lower_bound; lia).
  assert (H3 : (length s / 2 < length s)%nat) by (apply Nat.div_lt; lia).
  pose proof (firstn_length (length s / 2) s) as Hf.
  pose proof (skipn_length (length s / 2) s) as Hs.
  repeat split.
  - intros E. rewrite E in Hf. cbn [length] in Hf. lia.
  - intros E. rewrite E in Hs. cbn [length] in Hs. lia.
  - lia.
  - lia.
Qed.

Lemma in_split_iff {A} (s : list A) n t : In t s <-> In t (firstn n s) \/ In t (skipn n s).
Proof. rewrite <- in_app_iff, firstn_skipn. tauto. Qed.

Lemma csg_min_lt d p c : forall fuel s, s <> [] -> (length s <= fuel)%nat ->
  (den (csg_tree emin fuel s d) p < c <-> exists t, In t s /\ den t p < c).
Proof.
  induction fuel as [|k IH]; intros s Hne Hlen.
  - destruct s; [congruence | simpl in Hlen; lia].
  - destruct s as [|x [|y r]]; [congruence | |].
    + simpl. split.
      * intros H; exists x; simpl; auto.
      * intros [t [[<-|[]] H]]; exact H.
    + rewrite csg_tree_step, den_emin, Rmin_lt_iff.
      destruct (csg_split_facts (x :: y :: r) k) as (Hf & Hs & Lf & Ls).
      { simpl in *; lia. }
      rewrite (IH _ Hf Lf), (IH _ Hs Ls).
      split.
      * intros [[t [Hi Ht]]|[t [Hi Ht]]]; exists t; split; try assumption;
          apply (in_split_iff _ (length (x :: y :: r) / 2)%nat); auto.
      * intros [t [Hi Ht]].
        apply (in_split_iff _ (length (x :: y :: r) / 2)%nat) in Hi.
        destruct Hi; [left|right]; exists t; auto.
Qed.

Lemma csg_max_lt d p c : forall fuel s, s <> [] -> (length s <= fuel)%nat ->
  (den (csg_tree emax fuel s d) p < c <-> forall t, In t s -> den t p < c).
Proof.
  induction fuel as [|k IH]; intros s Hne Hlen.
  - destruct s; [congruence | simpl in Hlen; lia].
  - destruct s as [|x [|y r]]; [congruence | |].
    + simpl. split.
      * intros H t [<-|[]]; exact H.
      * intros H; apply H; auto.
    + rewrite csg_tree_step, den_emax, Rmax_lt_iff.
      destruct (csg_split_facts (x :: y :: r) k) as (Hf & Hs & Lf & Ls).
      { simpl in *; lia. }
      rewrite (IH _ Hf Lf), (IH _ Hs Ls).
      split.
      * intros [H1 H2] t Hi.
        apply (in_split_iff _ (length (x :: y :: r) / 2)%nat) in Hi.
        destruct Hi; auto.
      * intros H; split; intros t Hi; apply H;
          apply (in_split_iff _ (length (x :: y :: r) / 2)%nat); auto.
Qed.

(* the same with the inequalities the other way round (outside) *)
Lemma Rmin_gt_iff a b c : c < Rmin a b <-> c < a /\ c < b.
Proof. unfold Rmin; destruct (Rle_dec a b); lra. Qed.
Lemma Rmax_gt_iff a b c : c < Rmax a b <-> c < a \/ c < b.
Proof. unfold Rmax; destruct (Rle_dec a b); lra. Qed.

Lemma csg_min_gt d p c : forall fuel s, s <> [] -> (length s <= fuel)%nat ->
  (c < den (csg_tree emin fuel s d) p <-> forall t, In t s -> c < den t p).
Proof.
  induction fuel as [|k IH]; intros s Hne Hlen.
  - destruct s; [congruence | simpl in Hlen; lia].
  - destruct s as [|x [|y r]]; [congruence | |].
    + simpl. split.
      * intros H t [<-|[]]; exact H.
      * intros H; apply H; auto.
    + rewrite csg_tree_step, den_emin, Rmin_gt_iff.
      destruct (csg_split_facts (x :: y :: r) k) as (Hf & Hs & Lf & Ls).
      { simpl in *; lia. }
      rewrite (IH _ Hf Lf), (IH _ Hs Ls).
      split.
      * intros [H1 H2] t Hi.
        apply (in_split_iff _ (length (x :: y :: r) / 2)%nat) in Hi.
        destruct Hi; auto.
      * intros H; split; intros t Hi; apply H;
          apply (in_split_iff _ (length (x :: y :: r) / 2)%nat); auto.
Qed.

Lemma csg_max_gt d p c : forall fuel s, s <> [] -> (length s <= fuel)%nat ->
  (c < den (csg_tree emax fuel s d) p <-> exists t, In t s /\ c < den t p).
Proof.
  induction fuel as [|k IH]; intros s Hne Hlen.
  - destruct s; [congruence | simpl in Hlen; lia].
  - destruct s as [|x [|y r]]; [congruence | |].
    + simpl. split.
      * intros H; exists x; simpl; auto.
      * intros [t [[<-|[]] H]]; exact H.
    + rewrite csg_tree_step, den_emax, Rmax_gt_iff.
      destruct (csg_split_facts (x :: y :: r) k) as (Hf & Hs & Lf & Ls).
      { simpl in *; lia. }
      rewrite (IH _ Hf Lf), (IH _ Hs Ls).
      split.
      * intros [[t [Hi Ht]]|[t [Hi Ht]]]; exists t; split; try assumption;
          apply (in_split_iff _ (length (x :: y :: r) / 2)%nat); auto.
      * intros [t [Hi Ht]].
        apply (in_split_iff _ (length (x :: y :: r) / 2)%nat) in Hi.
        destruct Hi; [left|right]; exists t; auto.
Qed.

Section CSG.
Variables inf ninf : R.   (* stand-ins for +oo / -oo: only the empty cases mention them *)

Lemma union_unfold s : s <> [] -> union inf s = csg_tree emin (length s) s (EConst inf).
Proof. destruct s; [congruence | reflexivity]. Qed.
Lemma intersection_unfold s : s <> [] -> intersection ninf s = csg_tree emax (length s) s (EConst ninf).
Proof. destruct s; [congruence | reflexivity]. Qed.

(* inside a union iff inside one member; more generally for every level c *)
Theorem union_lt s p c : s <> [] ->
  (den (union inf s) p < c <-> exists t, In t s /\ den t p < c).
Proof. intros H. rewrite (union_unfold s H). apply csg_min_lt; auto. Qed.

Theorem union_inside s p : s <> [] ->
  (den (union inf s) p < 0 <-> exists t, In t s /\ den t p < 0).
Proof. apply union_lt. Qed.

(* strictly outside a union iff strictly outside every member *)
Theorem union_outside s p : s <> [] ->
  (0 < den (union inf s) p <-> forall t, In t s -> 0 < den t p).
Proof. intros H. rewrite (union_unfold s H). apply csg_min_gt; auto. Qed.

(* the empty union is the constant [inf] (+oo in f32: nothing is inside) *)
Theorem union_nil p : den (union inf []) p = inf.
Proof. reflexivity. Qed.

Theorem intersection_lt s p c : s <> [] ->
  (den (intersection ninf s) p < c <-> forall t, In t s -> den t p < c).
Proof. intros H. rewrite (intersection_unfold s H). apply csg_max_lt; auto. Qed.

Theorem intersection_inside s p : s <> [] ->
  (den (intersection ninf s) p < 0 <-> forall t, In t s -> den t p < 0).
Proof. apply intersection_lt. Qed.

Theorem intersection_outside s p : s <> [] ->
  (0 < den (intersection ninf s) p <-> exists t, In t s /\ 0 < den t p).
Proof. intros H. rewrite (intersection_unfold s H). apply csg_max_gt; auto. Qed.

(* the empty intersection is the constant [ninf] (-oo in f32: everything is inside); with a
   negative stand-in the statement [intersection_inside] also holds for [] *)
Theorem intersection_nil p : den (intersection ninf []) p = ninf.
Proof. reflexivity. Qed.

Theorem union_inside_all s p : 0 <= inf ->
  (den (union inf s) p < 0 <-> exists t, In t s /\ den t p < 0).
Proof.
  intros Hi. destruct s as [|x s]; [|apply union_inside; congruence].
  rewrite union_nil. split; [lra | intros [t [[] _]]].
Qed.

Theorem intersection_inside_all s p : ninf < 0 ->
  (den (intersection ninf s) p < 0 <-> forall t, In t s -> den t p < 0).
Proof.
  intros Hi. destruct s as [|x s]; [|apply intersection_inside; congruence].
  rewrite intersection_nil. split; [intros _ t [] | intros _; exact Hi].
Qed.

End CSG.

Lemma den_inverse s p : den (inverse s) p = - den s p.
Proof. reflexivity. Qed.

Theorem inverse_inside s p : den (inverse s) p < 0 <-> 0 < den s p.
Proof. rewrite den_inverse. lra. Qed.

Theorem inverse_outside s p : 0 < den (inverse s) p <-> den s p < 0.
Proof. rewrite den_inverse. lra. Qed.

Lemma den_difference s c p : den (difference s c) p = Rmax (den s p) (- den c p).
Proof. reflexivity. Qed.

Theorem difference_inside s c p :
  den (difference s c) p < 0 <-> den s p < 0 /\ 0 < den c p.
Proof. rewrite den_difference, Rmax_lt_iff. lra. Qed.

(* --- blend --- *)
Notation rblend := (blend r_sc 4 r_pos).

Lemma den_blend_pos a b r p : 0 < r ->
  den (rblend a b r) p =
  Rmin (den a p) (den b p)
  - 1 / (4 * r) * (Rmax (r - Rabs (den a p - den b p)) 0 * Rmax (r - Rabs (den a p - den b p)) 0).
Proof.
  intros Hr. unfold blend, r_pos. destruct (Rlt_dec 0 r); [reflexivity | contradiction].
Qed.

Lemma den_blend_nonpos a b r p : r <= 0 ->
  den (rblend a b r) p = Rmin (den a p) (den b p).
Proof.
  intros Hr. unfold blend, r_pos. destruct (Rlt_dec 0 r); [lra | reflexivity].
Qed.

Theorem blend_zero inf a b p : den (rblend a b 0) p = den (union inf [a; b]) p.
Proof. rewrite den_blend_nonpos by lra. reflexivity. Qed.

Theorem blend_nonpos inf a b r p : r <= 0 -> den (rblend a b r) p = den (union inf [a; b]) p.
Proof. intros Hr. rewrite den_blend_nonpos by lra. reflexivity. Qed.

(* the blend only ever adds material: its field is below that of the union ... *)
Theorem blend_contains_union a b r p : 0 < r ->
  den (rblend a b r) p <= Rmin (den a p) (den b p).
Proof.
  intros Hr. rewrite den_blend_pos by assumption.
  set (m := Rmax _ 0).
  assert (0 <= m * m) by apply sq_nn.
  assert (0 < 1 / (4 * r)) by (apply Rdiv_lt_0_compat; lra).
  nra.
Qed.

Corollary blend_contains_union_inside inf a b r p : 0 < r ->
  den (union inf [a; b]) p < 0 -> den (rblend a b r) p < 0.
Proof.
  intros Hr H. change (den (union inf [a; b]) p) with (Rmin (den a p) (den b p)) in H.
  pose proof (blend_contains_union a b r p Hr). lra.
Qed.

(* ... by at most r/4, and not at all where the two fields differ by r or more *)
Theorem blend_lower_bound a b r p : 0 < r ->
  Rmin (den a p) (den b p) - r / 4 <= den (rblend a b r) p.
Proof.
  intros Hr. rewrite den_blend_pos by assumption.
  set (d := Rabs (den a p - den b p)).
  assert (Hd : 0 <= d) by apply Rabs_pos.
  assert (Hm : 0 <= Rmax (r - d) 0 <= r).
  { split; [apply Rmax_r|]. apply Rmax_lub; lra. }
  set (m := Rmax (r - d) 0) in *.
  assert (m * m <= r * r) by nra.
  replace (1 / (4 * r) * (m * m)) with ((m * m) / (4 * r)) by (field; lra).
  assert ((m * m) / (4 * r) <= r / 4).
  { apply (Rmult_le_reg_r (4 * r)); [lra|]. field_simplify; lra. }
  lra.
Qed.

Theorem blend_far a b r p : 0 < r -> r <= Rabs (den a p - den b p) ->
  den (rblend a b r) p = Rmin (den a p) (den b p).
Proof.
  intros Hr Hd. rewrite den_blend_pos by assumption.
  rewrite Rmax_right by lra. lra.
Qed.

(* ====================================================================================== *)
(* Part 4: P3 affine transforms                                                           *)
(* ====================================================================================== *)

Definition padd (p q : pt) : pt := (px p + px q, py p + py q, pz p + pz q).
Definition psub (p q : pt) : pt := (px p - px q, py p - py q, pz p - pz q).
Definition pscale (k : R) (p : pt) : pt := (k * px p, k * py p, k * pz p).
Definition pdot (p q : pt) : R := px p * px q + py p * py q + pz p * pz q.

(* applying a 3x4 row-major matrix (a 12-element list; missing entries read as 0) *)
Definition mat_apply (m : list R) (p : pt) : pt :=
  (m_at r_sc m 0 0 * px p + m_at r_sc m 0 1 * py p + m_at r_sc m 0 2 * pz p + m_at r_sc m 0 3,
   m_at r_sc m 1 0 * px p + m_at r_sc m 1 1 * py p + m_at r_sc m 1 2 * pz p + m_at r_sc m 1 3,
   m_at r_sc m 2 0 * px p + m_at r_sc m 2 1 * py p + m_at r_sc m 2 2 * pz p + m_at r_sc m 2 3).

Lemma den_ERemapAffine t m p : den (ERemapAffine t m) p = den t (mat_apply m p).
Proof. unfold mat_apply. unfold den at 1. cbn [eden]. apply den_ext; cbn [r_bin px py pz fst snd]; ring. Qed.

Lemma den_ERemapAxes t ex ey ez p :
  den (ERemapAxes t ex ey ez) p = den t (den ex p, den ey p, den ez p).
Proof. reflexivity. Qed.

Lemma den_remap_xyz t ex ey ez p :
  den (remap_xyz t ex ey ez) p = den t (den ex p, den ey p, den ez p).
Proof. reflexivity. Qed.

(* [aff_mul] is the product of affine maps: apply [b] first, then [a] *)
Lemma aff_mul_apply a b p :
  mat_apply (aff_mul r_sc a b) p = mat_apply a (mat_apply b p).
Proof.
  unfold aff_mul, mat_apply at 1 2.
  set (f := m_at r_sc a). set (g := m_at r_sc b).
  unfold mat_apply. fold f. fold g. clearbody f g.
  unfold m_at. cbn [nth Nat.mul Nat.add Nat.eqb sc_zero sc_one sc_add sc_mul r_sc px py pz fst snd].
  apply pt_ext; ring.
Qed.

(* KEY LEMMA: remap_affine composes the coordinate map, in BOTH branches (fresh node, and
   flattening into an existing ERemapAffine node) *)
Theorem den_remap_affine s m p : den (remap_affine r_sc s m) p = den s (mat_apply m p).
Proof.
  destruct s; cbn [remap_affine]; try apply den_ERemapAffine.
  rewrite !den_ERemapAffine, aff_mul_apply. reflexivity.
Qed.

(* the flattening branch on its own *)
Corollary den_remap_affine_flatten t n m p :
  den (remap_affine r_sc (ERemapAffine t n) m) p = den t (mat_apply n (mat_apply m p)).
Proof. rewrite den_remap_affine, den_ERemapAffine. reflexivity. Qed.

(* link with Affine.v: lists as [aff] records, [aff_mul] as [compose] *)
Definition to_aff (m : list R) : aff :=
  {| a00 := m_at r_sc m 0 0; a01 := m_at r_sc m 0 1; a02 := m_at r_sc m 0 2; a03 := m_at r_sc m 0 3;
     a10 := m_at r_sc m 1 0; a11 := m_at r_sc m 1 1; a12 := m_at r_sc m 1 2; a13 := m_at r_sc m 1 3;
     a20 := m_at r_sc m 2 0; a21 := m_at r_sc m 2 1; a22 := m_at r_sc m 2 2; a23 := m_at r_sc m 2 3 |}.

Lemma to_aff_apply m p : apply (to_aff m) p = mat_apply m p.
Proof. destruct p as [[x y] z]. reflexivity. Qed.

Lemma to_aff_mul a b p : apply (to_aff (aff_mul r_sc a b)) p = apply (compose (to_aff a) (to_aff b)) p.
Proof. rewrite affine_compose, !to_aff_apply. apply aff_mul_apply. Qed.

Ltac mat_eval :=
  unfold mat_apply, m_at;
  cbn [nth Nat.mul Nat.add translation scaling rotation3 vneg vx vy vz
       sc_zero sc_one sc_add sc_sub sc_mul sc_div sc_neg r_sc px py pz fst snd].

(* --- move --- *)
Theorem move_sound s off p :
  den (move r_sc s off) p = den s (psub p (v2p off)).
Proof.
  unfold move. rewrite den_remap_affine. unfold psub, v2p.
  mat_eval. apply den_ext; ring.
Qed.

Corollary move_inside s off q : den (move r_sc s off) (padd q (v2p off)) = den s q.
Proof.
  rewrite move_sound. destruct q as [[x y] z]. unfold psub, padd, v2p.
  cbn [px py pz fst snd]. apply den_ext; ring.
Qed.

(* --- scale ---
   In Coq's reals 1/k * x = x / k holds for every k (division is total), so no hypothesis is
   needed for the first form; the geometric reading (image of s under p |-> k.p) needs
   k <> 0 and is [scale_image]. *)
Theorem scale_sound s k p :
  den (scale r_sc s k) p = den s (px p / vx k, py p / vy k, pz p / vz k).
Proof.
  unfold scale. rewrite den_remap_affine. mat_eval. apply den_ext; unfold Rdiv; ring.
Qed.

Theorem scale_image s k q : vx k <> 0 -> vy k <> 0 -> vz k <> 0 ->
  den (scale r_sc s k) (vx k * px q, vy k * py q, vz k * pz q) = den s q.
Proof.
  intros Hx Hy Hz. rewrite scale_sound. destruct q as [[x y] z].
  cbn [px py pz fst snd]. apply den_ext; field; assumption.
Qed.

Theorem scale_uniform_sound s k p :
  den (scale_uniform r_sc s k) p = den s (px p / k, py p / k, pz p / k).
Proof.
  unfold scale_uniform. rewrite den_remap_affine. mat_eval. apply den_ext; unfold Rdiv; ring.
Qed.

Theorem scale_uniform_image s k q : k <> 0 ->
  den (scale_uniform r_sc s k) (pscale k q) = den s q.
Proof.
  intros Hk. rewrite scale_uniform_sound. destruct q as [[x y] z]. unfold pscale.
  cbn [px py pz fst snd]. apply den_ext; field; assumption.
Qed.

(* --- rotate --- *)
(* a 3x3 row-major matrix (9-element list) applied to a vector *)
Definition mat3_apply (r : list R) (v : pt) : pt :=
  (nth 0 r 0 * px v + nth 1 r 0 * py v + nth 2 r 0 * pz v,
   nth 3 r 0 * px v + nth 4 r 0 * py v + nth 5 r 0 * pz v,
   nth 6 r 0 * px v + nth 7 r 0 * py v + nth 8 r 0 * pz v).

Theorem rotate_sound s rot c p :
  den (rotate r_sc s rot c) p = den s (padd (v2p c) (mat3_apply rot (psub p (v2p c)))).
Proof.
  unfold rotate. rewrite move_sound, den_remap_affine, move_sound.
  unfold mat3_apply.
  set (g := fun k : nat => nth k rot 0).
  change (rotation3 r_sc rot) with
    [g 0%nat; g 1%nat; g 2%nat; 0; g 3%nat; g 4%nat; g 5%nat; 0; g 6%nat; g 7%nat; g 8%nat; 0].
  change (nth 0 rot 0) with (g 0%nat); change (nth 1 rot 0) with (g 1%nat);
  change (nth 2 rot 0) with (g 2%nat); change (nth 3 rot 0) with (g 3%nat);
  change (nth 4 rot 0) with (g 4%nat); change (nth 5 rot 0) with (g 5%nat);
  change (nth 6 rot 0) with (g 6%nat); change (nth 7 rot 0) with (g 7%nat);
  change (nth 8 rot 0) with (g 8%nat).
  clearbody g. unfold psub, padd, v2p. mat_eval. apply den_ext; ring.
Qed.

(* --- Rodrigues' rotation matrix: rotation by th about the unit axis a (right-handed) --- *)
Definition rodrigues (a : vec) (th : R) : list R :=
  let c := cos th in let s := sin th in let k := 1 - c in
  [c + vx a * vx a * k;      vx a * vy a * k - vz a * s;  vx a * vz a * k + vy a * s;
   vy a * vx a * k + vz a * s;  c + vy a * vy a * k;      vy a * vz a * k - vx a * s;
   vz a * vx a * k - vy a * s;  vz a * vy a * k + vx a * s;  c + vz a * vz a * k].

Definition pcross (a q : pt) : pt :=
  (py a * pz q - pz a * py q, pz a * px q - px a * pz q, px a * py q - py a * px q).

(* the matrix is the vector formula  q cos th + (a x q) sin th + a (a.q) (1 - cos th) *)
Lemma rodrigues_vector_form a th q :
  mat3_apply (rodrigues a th) q =
  padd (padd (pscale (cos th) q) (pscale (sin th) (pcross (v2p a) q)))
       (pscale ((1 - cos th) * pdot (v2p a) q) (v2p a)).
Proof.
  unfold mat3_apply, rodrigues, padd, pscale, pcross, pdot, v2p.
  cbn [nth px py pz fst snd]. apply pt_ext; ring.
Qed.

Lemma sin_cos_sq th : sin th * sin th + cos th * cos th = 1.
Proof. exact (sin2_cos2 th). Qed.

(* rotating by -th undoes rotating by th *)
Theorem rodrigues_inv a th q : vdot a a = 1 ->
  mat3_apply (rodrigues a (- th)) (mat3_apply (rodrigues a th) q) = q.
Proof.
  unfold vdot; intros Ha. unfold mat3_apply, rodrigues. rewrite cos_neg, sin_neg.
  pose proof (sin_cos_sq th) as Hsc.
  destruct a as [ax ay az]; destruct q as [[x y] z].
  cbn [nth px py pz fst snd vx vy vz] in *.
  set (s := sin th) in *; set (c := cos th) in *; clearbody s c.
  apply pt_ext; nsatz.
Qed.

Theorem rodrigues_inv' a th q : vdot a a = 1 ->
  mat3_apply (rodrigues a th) (mat3_apply (rodrigues a (- th)) q) = q.
Proof.
  intros Ha. rewrite <- (Ropp_involutive th) at 1. apply rodrigues_inv; assumption.
Qed.

(* the axis is fixed, lengths (indeed inner products) are preserved, th = 0 is the identity *)
Theorem rodrigues_axis_fixed a th : vdot a a = 1 ->
  mat3_apply (rodrigues a th) (v2p a) = v2p a.
Proof.
  unfold vdot; intros Ha. unfold mat3_apply, rodrigues, v2p.
  destruct a as [ax ay az]. cbn [nth px py pz fst snd vx vy vz] in *.
  set (s := sin th); set (c := cos th); clearbody s c.
  apply pt_ext; nsatz.
Qed.

Theorem rodrigues_isometry a th q r : vdot a a = 1 ->
  pdot (mat3_apply (rodrigues a th) q) (mat3_apply (rodrigues a th) r) = pdot q r.
Proof.
  unfold vdot; intros Ha. unfold pdot, mat3_apply, rodrigues.
  pose proof (sin_cos_sq th) as Hsc.
  destruct a as [ax ay az]; destruct q as [[x y] z]; destruct r as [[u v] w].
  cbn [nth px py pz fst snd vx vy vz] in *.
  set (s := sin th) in *; set (c := cos th) in *; clearbody s c.
  nsatz.
Qed.

Theorem rodrigues_zero a q : mat3_apply (rodrigues a 0) q = q.
Proof.
  unfold mat3_apply, rodrigues. rewrite cos_0, sin_0. destruct q as [[x y] z].
  cbn [nth px py pz fst snd]. apply pt_ext; ring.
Qed.

(* about the Z axis this is the familiar plane rotation, counter-clockwise seen from +Z *)
Theorem rodrigues_z th q :
  mat3_apply (rodrigues (axis_z r_sc) th) q =
  (cos th * px q - sin th * py q, sin th * px q + cos th * py q, pz q).
Proof.
  unfold mat3_apply, rodrigues, axis_z.
  cbn [nth px py pz fst snd vx vy vz sc_zero sc_one r_sc]. apply pt_ext; ring.
Qed.
Theorem rodrigues_x th q :
  mat3_apply (rodrigues (axis_x r_sc) th) q =
  (px q, cos th * py q - sin th * pz q, sin th * py q + cos th * pz q).
Proof.
  unfold mat3_apply, rodrigues, axis_x.
  cbn [nth px py pz fst snd vx vy vz sc_zero sc_one r_sc]. apply pt_ext; ring.
Qed.
Theorem rodrigues_y th q :
  mat3_apply (rodrigues (axis_y r_sc) th) q =
  (cos th * px q + sin th * pz q, py q, - sin th * px q + cos th * pz q).
Proof.
  unfold mat3_apply, rodrigues, axis_y.
  cbn [nth px py pz fst snd vx vy vz sc_zero sc_one r_sc]. apply pt_ext; ring.
Qed.

(* Rotate (Rust: matrix for angle -th about the axis, between move(-center) and
   move(center)) IS the shape rotated by +th about the axis through c: the rotated image
   c + R(th) q of a point c + q of s has the value s had at c + q. *)
Theorem rotate_rodrigues s a th c q : vdot a a = 1 ->
  den (rotate r_sc s (rodrigues a (- th)) c) (padd (v2p c) (mat3_apply (rodrigues a th) q))
  = den s (padd (v2p c) q).
Proof.
  intros Ha. rewrite rotate_sound.
  replace (psub (padd (v2p c) (mat3_apply (rodrigues a th) q)) (v2p c))
    with (mat3_apply (rodrigues a th) q).
  - rewrite rodrigues_inv by assumption. reflexivity.
  - destruct (mat3_apply (rodrigues a th) q) as [[x y] z].
    unfold psub, padd. cbn [px py pz fst snd]. apply pt_ext; ring.
Qed.

(* equivalently: the value at p is the value of s at p rotated back by th about c *)
Corollary rotate_rodrigues_pull s a th c p :
  den (rotate r_sc s (rodrigues a (- th)) c) p =
  den s (padd (v2p c) (mat3_apply (rodrigues a (- th)) (psub p (v2p c)))).
Proof. apply rotate_sound. Qed.

(* ====================================================================================== *)
(* Part 5: P3 transforms built with remap_xyz                                             *)
(* ====================================================================================== *)

(* --- reflect --- *)
(* mirror image of p in the plane { q | a.q = off } (for a unit normal a) *)
Definition reflect_pt (a : vec) (off : R) (p : pt) : pt :=
  (px p - 2 * (dot a p - off) * vx a,
   py p - 2 * (dot a p - off) * vy a,
   pz p - 2 * (dot a p - off) * vz a).

Notation rreflect := (reflect 2).

(* holds for every a; a.a = 1 is what makes [reflect_pt] a reflection (lemmas below) *)
Theorem reflect_sound s a off p :
  den (rreflect s a off) p = den s (reflect_pt a off p).
Proof.
  unfold reflect. rewrite den_remap_xyz. unfold reflect_pt, dot.
  apply den_ext; unfold den; cbn [eden r_un r_bin]; ring.
Qed.

Lemma reflect_pt_involutive a off p : vdot a a = 1 ->
  reflect_pt a off (reflect_pt a off p) = p.
Proof.
  unfold vdot, reflect_pt, dot. intros Ha. destruct a as [ax ay az]; destruct p as [[x y] z].
  cbn [px py pz fst snd vx vy vz] in *. apply pt_ext; nsatz.
Qed.

Lemma reflect_pt_fixes_plane a off p : dot a p = off -> reflect_pt a off p = p.
Proof.
  intros H. unfold reflect_pt. rewrite H. destruct p as [[x y] z].
  cbn [px py pz fst snd]. apply pt_ext; ring.
Qed.

(* the signed distance to the mirror plane changes sign *)
Lemma reflect_pt_mirror a off p : vdot a a = 1 ->
  dot a (reflect_pt a off p) - off = - (dot a p - off).
Proof.
  unfold vdot, reflect_pt, dot. intros Ha. destruct a as [ax ay az]; destruct p as [[x y] z].
  cbn [px py pz fst snd vx vy vz] in *. nsatz.
Qed.

(* the displacement is along the normal *)
Lemma reflect_pt_along_normal a off p :
  psub (reflect_pt a off p) p = pscale (- 2 * (dot a p - off)) (v2p a).
Proof.
  unfold reflect_pt, psub, pscale, v2p. cbn [px py pz fst snd]. apply pt_ext; ring.
Qed.

Lemma reflect_pt_isometry a off p q : vdot a a = 1 ->
  pdot (psub (reflect_pt a off p) (reflect_pt a off q)) (psub (reflect_pt a off p) (reflect_pt a off q))
  = pdot (psub p q) (psub p q).
Proof.
  unfold vdot, reflect_pt, dot, pdot, psub. intros Ha.
  destruct a as [ax ay az]; destruct p as [[x y] z]; destruct q as [[u v] w].
  cbn [px py pz fst snd vx vy vz] in *. nsatz.
Qed.

(* the reflected shape contains the mirror image of every point of s *)
Theorem reflect_image s a off q : vdot a a = 1 ->
  den (rreflect s a off) (reflect_pt a off q) = den s q.
Proof. intros Ha. rewrite reflect_sound, reflect_pt_involutive by assumption. reflexivity. Qed.

(* named versions: the axes are unit vectors, the maps are x |-> 2 off - x etc. *)
Lemma axis_x_unit : vdot (axis_x r_sc) (axis_x r_sc) = 1.
Proof. unfold vdot; cbn; ring. Qed.
Lemma axis_y_unit : vdot (axis_y r_sc) (axis_y r_sc) = 1.
Proof. unfold vdot; cbn; ring. Qed.
Lemma axis_z_unit : vdot (axis_z r_sc) (axis_z r_sc) = 1.
Proof. unfold vdot; cbn; ring. Qed.

Theorem reflect_x_sound s off p :
  den (reflect_x r_sc 2 s off) p = den s (2 * off - px p, py p, pz p).
Proof.
  unfold reflect_x. rewrite reflect_sound. unfold reflect_pt, dot, axis_x.
  cbn [vx vy vz sc_zero sc_one r_sc]. apply den_ext; ring.
Qed.
Theorem reflect_y_sound s off p :
  den (reflect_y r_sc 2 s off) p = den s (px p, 2 * off - py p, pz p).
Proof.
  unfold reflect_y. rewrite reflect_sound. unfold reflect_pt, dot, axis_y.
  cbn [vx vy vz sc_zero sc_one r_sc]. apply den_ext; ring.
Qed.
Theorem reflect_z_sound s off p :
  den (reflect_z r_sc 2 s off) p = den s (px p, py p, 2 * off - pz p).
Proof.
  unfold reflect_z. rewrite reflect_sound. unfold reflect_pt, dot, axis_z.
  cbn [vx vy vz sc_zero sc_one r_sc]. apply den_ext; ring.
Qed.

(* ReflectXY: the axis is normalize(-1,1,0) = (-1/sqrt 2, 1/sqrt 2, 0), a unit vector; the
   mirror plane is { (y - x)/sqrt 2 = off }, i.e. the plane x = y pushed by off along the
   normal; the map is (x,y,z) |-> (y - sqrt 2 off, x + sqrt 2 off, z): for off = 0 it swaps
   x and y. *)
Definition axis_xy : vec := normalize r_sc sqrt (mkv (-1) 1 0).

Lemma axis_xy_eq : axis_xy = mkv (-1 / sqrt 2) (1 / sqrt 2) (0 / sqrt 2).
Proof.
  unfold axis_xy, normalize, mkv. cbn [vx vy vz sc_add sc_mul sc_div r_sc].
  replace (-1 * -1 + 1 * 1 + 0 * 0) with 2 by ring. reflexivity.
Qed.

Lemma sqrt2_sq : sqrt 2 * sqrt 2 = 2.
Proof. apply sqrt_sqrt; lra. Qed.
Lemma sqrt2_pos : 0 < sqrt 2.
Proof. apply sqrt_lt_R0; lra. Qed.

Lemma axis_xy_unit : vdot axis_xy axis_xy = 1.
Proof.
  rewrite axis_xy_eq. unfold vdot, mkv. cbn [vx vy vz].
  pose proof sqrt2_sq. pose proof sqrt2_pos. field_simplify; [|lra].
  replace (sqrt 2 ^ 2) with 2 by (rewrite <- sqrt2_sq at 1; ring). lra.
Qed.

Lemma reflect_xy_is_reflect s off : reflect_xy r_sc sqrt 2 s off = rreflect s axis_xy off.
Proof. reflexivity. Qed.

Lemma reflect_pt_xy off p :
  reflect_pt axis_xy off p = (py p - sqrt 2 * off, px p + sqrt 2 * off, pz p).
Proof.
  rewrite axis_xy_eq. unfold reflect_pt, dot, mkv. cbn [vx vy vz].
  pose proof sqrt2_sq as H2. pose proof sqrt2_pos as Hp.
  set (n := sqrt 2) in *.
  assert (Hi : n * / n = 1) by (apply Rinv_r; lra).
  unfold Rdiv. set (i := / n) in *. clearbody i n.
  destruct p as [[x y] z]. cbn [px py pz fst snd].
  assert (H1 : 2 * (i * i) = 1) by (clear Hp; nsatz).
  assert (H3 : 2 * i = n) by (clear Hp; nsatz).
  apply pt_ext.
  - replace (x - 2 * (-1 * i * x + 1 * i * y + 0 * i * z - off) * (-1 * i))
      with (x - (2 * (i * i)) * x + (2 * (i * i)) * y - (2 * i) * off) by ring.
    rewrite H1, H3. ring.
  - replace (y - 2 * (-1 * i * x + 1 * i * y + 0 * i * z - off) * (1 * i))
      with (y + (2 * (i * i)) * x - (2 * (i * i)) * y + (2 * i) * off) by ring.
    rewrite H1, H3. ring.
  - ring.
Qed.

Theorem reflect_xy_sound s off p :
  den (reflect_xy r_sc sqrt 2 s off) p = den s (py p - sqrt 2 * off, px p + sqrt 2 * off, pz p).
Proof. rewrite reflect_xy_is_reflect, reflect_sound, reflect_pt_xy. reflexivity. Qed.

Corollary reflect_xy_swap s p :
  den (reflect_xy r_sc sqrt 2 s 0) p = den s (py p, px p, pz p).
Proof. rewrite reflect_xy_sound. apply den_ext; ring. Qed.

(* the mirror plane of ReflectXY: points with (y - x) / sqrt 2 = off *)
Lemma axis_xy_dot p : dot axis_xy p = (py p - px p) / sqrt 2.
Proof.
  rewrite axis_xy_eq. unfold dot, mkv. cbn [vx vy vz]. pose proof sqrt2_pos. field. lra.
Qed.

(* --- repeat_x --- *)
Lemma rfloor_unique x k : IZR k <= x < IZR k + 1 -> rfloor x = IZR k.
Proof.
  intros [H1 H2]. unfold rfloor. destruct (base_Int_part x) as [B1 B2]. f_equal.
  assert (Int_part x < k + 1)%Z by (apply lt_IZR; rewrite plus_IZR; lra).
  assert (k < Int_part x + 1)%Z by (apply lt_IZR; rewrite plus_IZR; lra).
  lia.
Qed.

Lemma rfloor_spec x : rfloor x <= x < rfloor x + 1.
Proof. unfold rfloor. destruct (base_Int_part x). lra. Qed.

Lemma rfloor_plus_Z x k : rfloor (x + IZR k) = rfloor x + IZR k.
Proof.
  pose proof (rfloor_spec x) as H. unfold rfloor in *.
  rewrite <- plus_IZR. apply (rfloor_unique (x + IZR k)). rewrite plus_IZR. lra.
Qed.

Lemma rmod_pos a b : 0 < b -> rmod a b = a - b * rfloor (a / b).
Proof. intros Hb. unfold rmod. destruct (Rlt_dec 0 b); [reflexivity | contradiction]. Qed.

Lemma rmod_range a b : 0 < b -> 0 <= rmod a b < b.
Proof.
  intros Hb. rewrite rmod_pos by assumption.
  pose proof (rfloor_spec (a / b)) as [H1 H2].
  assert (Ha : a = a / b * b) by (field; lra).
  split.
  - assert (b * rfloor (a / b) <= a / b * b) by nra. lra.
  - assert (a / b * b < b * (rfloor (a / b) + 1)) by nra. lra.
Qed.

Lemma rmod_period_Z a b k : 0 < b -> rmod (a + IZR k * b) b = rmod a b.
Proof.
  intros Hb. rewrite !rmod_pos by assumption.
  replace ((a + IZR k * b) / b) with (a / b + IZR k) by (field; lra).
  rewrite rfloor_plus_Z. ring.
Qed.

Lemma rmod_periodic a b : 0 < b -> rmod (a + b) b = rmod a b.
Proof. intros Hb. rewrite <- (rmod_period_Z a b 1 Hb). f_equal. ring. Qed.

Lemma rmod_small a b : 0 <= a < b -> rmod a b = a.
Proof.
  intros [H0 H1]. assert (Hb : 0 < b) by lra. rewrite rmod_pos by assumption.
  assert (Hi : 0 < / b) by (apply Rinv_0_lt_compat; assumption).
  rewrite (rfloor_unique (a / b) 0).
  - ring.
  - unfold Rdiv. split; [nra|].
    apply (Rmult_lt_reg_r b); [assumption|]. rewrite Rmult_assoc, Rinv_l by lra. lra.
Qed.

(* for a negative modulus the result is in [0, -b) as well (rem_euclid) *)
Lemma rmod_range_neg a b : b < 0 -> 0 <= rmod a b < - b.
Proof.
  intros Hb. unfold rmod. destruct (Rlt_dec 0 b); [lra|]. unfold rceil.
  pose proof (rfloor_spec (- (a / b))) as [H1 H2].
  assert (Ha : a = - (a / b) * (- b)) by (field; lra).
  set (f := rfloor (- (a / b))) in *. set (q := - (a / b)) in *.
  split.
  - assert (f * (- b) <= q * (- b)) by nra. lra.
  - assert (q * (- b) < (f + 1) * (- b)) by nra. lra.
Qed.

Notation rrepeat_x := (repeat_x r_sc 2).

Lemma den_repeat_x s radius off p :
  den (rrepeat_x s radius off) p =
  den s (rmod (px p + (radius - off)) (radius * 2) - (radius - off), py p, pz p).
Proof. reflexivity. Qed.

Theorem repeat_x_periodic s radius off p : 0 < radius ->
  den (rrepeat_x s radius off) (px p + 2 * radius, py p, pz p) = den (rrepeat_x s radius off) p.
Proof.
  intros Hr. rewrite !den_repeat_x. cbn [px py pz fst snd].
  replace (px p + 2 * radius + (radius - off)) with (px p + (radius - off) + radius * 2) by ring.
  rewrite rmod_periodic by lra. reflexivity.
Qed.

Theorem repeat_x_periodic_Z s radius off p k : 0 < radius ->
  den (rrepeat_x s radius off) (px p + IZR k * (2 * radius), py p, pz p) = den (rrepeat_x s radius off) p.
Proof.
  intros Hr. rewrite !den_repeat_x. cbn [px py pz fst snd].
  replace (px p + IZR k * (2 * radius) + (radius - off))
    with (px p + (radius - off) + IZR k * (radius * 2)) by ring.
  rewrite rmod_period_Z by lra. reflexivity.
Qed.

(* in the base cell [off - radius, off + radius) the shape is unchanged *)
Theorem repeat_x_cell s radius off p :
  - (radius - off) <= px p < 2 * radius - (radius - off) ->
  den (rrepeat_x s radius off) p = den s p.
Proof.
  intros H. rewrite den_repeat_x. rewrite rmod_small by lra.
  rewrite (pt_eta p) at 4. apply den_ext; ring.
Qed.

(* everywhere: the value is that of s at the unique translate of p in the base cell *)
Theorem repeat_x_fold s radius off p : 0 < radius ->
  exists k : Z,
    - (radius - off) <= px p - IZR k * (2 * radius) < 2 * radius - (radius - off) /\
    den (rrepeat_x s radius off) p = den s (px p - IZR k * (2 * radius), py p, pz p).
Proof.
  intros Hr. exists (Int_part ((px p + (radius - off)) / (radius * 2))).
  fold (rfloor ((px p + (radius - off)) / (radius * 2))).
  pose proof (rmod_range (px p + (radius - off)) (radius * 2)) as Hm.
  rewrite rmod_pos in Hm by lra. specialize (Hm ltac:(lra)).
  split; [lra|].
  rewrite den_repeat_x, rmod_pos by lra. apply den_ext; ring.
Qed.

(* --- revolve_y --- *)
Theorem revolve_y_sound s off p :
  den (revolve_y r_sc gen_revolve_other s off) p =
  den s (sqrt ((px p + off)^2 + (pz p)^2) - off, py p, pz p).
Proof.
  unfold revolve_y, gen_revolve_other.
  rewrite move_sound, den_remap_xyz, move_sound.
  unfold psub, v2p, vneg. cbn [vx vy vz sc_neg sc_zero r_sc].
  apply den_ext; unfold den; cbn [eden r_un r_bin esq px py pz fst snd]; try ring.
  replace ((px p - - off) * (px p - - off) + (pz p - 0) * (pz p - 0))
    with ((px p + off)^2 + (pz p)^2) by ring.
  ring.
Qed.

(* for a 2D profile (s ignores z) the result only depends on the distance to the axis
   { x = -off, z = 0 } and on y: it is a solid of revolution about that axis *)
Theorem revolve_y_invariant s off p q :
  (forall x y z z', den s (x, y, z) = den s (x, y, z')) ->
  (px p + off)^2 + (pz p)^2 = (px q + off)^2 + (pz q)^2 -> py p = py q ->
  den (revolve_y r_sc gen_revolve_other s off) p = den (revolve_y r_sc gen_revolve_other s off) q.
Proof.
  intros Hz Hd Hy. rewrite !revolve_y_sound, Hd, Hy. apply Hz.
Qed.

Corollary revolve_y_rotation_invariant s off th p :
  (forall x y z z', den s (x, y, z) = den s (x, y, z')) ->
  den (revolve_y r_sc gen_revolve_other s off)
      (- off + (cos th * (px p + off) - sin th * pz p), py p, sin th * (px p + off) + cos th * pz p)
  = den (revolve_y r_sc gen_revolve_other s off) p.
Proof.
  intros Hz. apply revolve_y_invariant; [assumption | | reflexivity].
  destruct p as [[x y] z]. cbn [px py pz fst snd]. pose proof (sin_cos_sq th) as Hsc.
  set (s' := sin th) in *; set (c := cos th) in *; clearbody s' c.
  replace ((- off + (c * (x + off) - s' * z) + off) ^ 2 + (s' * (x + off) + c * z) ^ 2)
    with ((s' * s' + c * c) * ((x + off) ^ 2 + z ^ 2)) by ring.
  rewrite Hsc. ring.
Qed.

(* without that hypothesis it is not: z is passed through to the profile unchanged
   (`remap_xyz(r, y, z)`), so a profile that looks at z is not revolved symmetrically *)
Theorem revolve_y_needs_2d_profile :
  den (revolve_y r_sc gen_revolve_other EZ 0) (0, 0, 1) <>
  den (revolve_y r_sc gen_revolve_other EZ 0) (1, 0, 0).
Proof. rewrite !revolve_y_sound. unfold den. cbn [eden px py pz fst snd]. lra. Qed.

(* --- extrude_z --- *)
Lemma den_extrude_z s lo hi p :
  den (extrude_z r_sc s lo hi) p = Rmax (den s (px p, py p, 0)) (Rmax (lo - pz p) (pz p - hi)).
Proof. reflexivity. Qed.

Theorem extrude_z_inside s lo hi p :
  den (extrude_z r_sc s lo hi) p < 0 <-> den s (px p, py p, 0) < 0 /\ lo < pz p < hi.
Proof. rewrite den_extrude_z, !Rmax_lt_iff. lra. Qed.

(* --- loft_z --- *)
(* the un-clipped interpolant *)
Definition loft_lerp (a b : shape) (lo hi : R) (p : pt) : R :=
  ((pz p - lo) * den b (px p, py p, 0) + (hi - pz p) * den a (px p, py p, 0)) / (hi - lo).

Lemma den_loft_z a b lo hi p :
  den (loft_z r_sc a b lo hi) p = Rmax (loft_lerp a b lo hi p) (Rmax (lo - pz p) (pz p - hi)).
Proof. reflexivity. Qed.

Theorem loft_z_at_lo a b lo hi p : lo < hi -> pz p = lo ->
  loft_lerp a b lo hi p = den a (px p, py p, 0).
Proof. intros Hl Hz. unfold loft_lerp. rewrite Hz. field. lra. Qed.

Theorem loft_z_at_hi a b lo hi p : lo < hi -> pz p = hi ->
  loft_lerp a b lo hi p = den b (px p, py p, 0).
Proof. intros Hl Hz. unfold loft_lerp. rewrite Hz. field. lra. Qed.

Theorem loft_z_inside a b lo hi p :
  den (loft_z r_sc a b lo hi) p < 0 <-> loft_lerp a b lo hi p < 0 /\ lo < pz p < hi.
Proof. rewrite den_loft_z, !Rmax_lt_iff. lra. Qed.

Corollary loft_z_inside_bounds a b lo hi p :
  den (loft_z r_sc a b lo hi) p < 0 -> lo < pz p < hi.
Proof. intros H. apply loft_z_inside in H. tauto. Qed.

(* between the planes the interpolant is the convex combination (1-t) a + t b, t = (z-lo)/(hi-lo) *)
Theorem loft_z_convex a b lo hi p : lo < hi ->
  loft_lerp a b lo hi p =
  (1 - (pz p - lo) / (hi - lo)) * den a (px p, py p, 0) + (pz p - lo) / (hi - lo) * den b (px p, py p, 0).
Proof. intros Hl. unfold loft_lerp. field. lra. Qed.

Corollary loft_z_contains_common a b lo hi p : lo < pz p < hi ->
  den a (px p, py p, 0) < 0 -> den b (px p, py p, 0) < 0 ->
  den (loft_z r_sc a b lo hi) p < 0.
Proof.
  intros Hz Ha Hb. apply loft_z_inside. split; [|assumption].
  unfold loft_lerp. apply (Rmult_lt_reg_r (hi - lo)); [lra|].
  unfold Rdiv. rewrite Rmult_assoc, Rinv_l, Rmult_1_r, Rmult_0_l by lra. nra.
Qed.

(* ====================================================================================== *)
(* Part 6: P4 named planes                                                                *)
(* ====================================================================================== *)

Theorem plane_xy_den p : den (plane (axis_of r_sc gen_plane_xy_axis) 0) p = pz p.
Proof. rewrite den_plane. unfold dot, gen_plane_xy_axis; cbn [axis_of axis_z vx vy vz sc_zero sc_one r_sc]. ring. Qed.
Theorem plane_yz_den p : den (plane (axis_of r_sc gen_plane_yz_axis) 0) p = px p.
Proof. rewrite den_plane. unfold dot, gen_plane_yz_axis; cbn [axis_of axis_x vx vy vz sc_zero sc_one r_sc]. ring. Qed.
Theorem plane_zx_den p : den (plane (axis_of r_sc gen_plane_zx_axis) 0) p = py p.
Proof. rewrite den_plane. unfold dot, gen_plane_zx_axis; cbn [axis_of axis_y vx vy vz sc_zero sc_one r_sc]. ring. Qed.

(* so e.g. the XY plane shape is the half-space z < 0 *)
Corollary plane_xy_inside p : den (plane (axis_of r_sc gen_plane_xy_axis) 0) p < 0 <-> pz p < 0.
Proof. rewrite plane_xy_den. tauto. Qed.

(* ====================================================================================== *)
(* Part 7: remarks, the flattening case made explicit, a cross-check with the Rust test   *)
(* ====================================================================================== *)

(* value of the whole loft on the two end planes: the profile, clipped at 0 *)
Corollary loft_z_den_at_lo a b lo hi p : lo < hi -> pz p = lo ->
  den (loft_z r_sc a b lo hi) p = Rmax (den a (px p, py p, 0)) 0.
Proof.
  intros Hl Hz. rewrite den_loft_z, loft_z_at_lo by assumption. rewrite Hz.
  f_equal. replace (lo - lo) with 0 by ring. apply Rmax_left. lra.
Qed.
Corollary loft_z_den_at_hi a b lo hi p : lo < hi -> pz p = hi ->
  den (loft_z r_sc a b lo hi) p = Rmax (den b (px p, py p, 0)) 0.
Proof.
  intros Hl Hz. rewrite den_loft_z, loft_z_at_hi by assumption. rewrite Hz.
  f_equal. replace (hi - hi) with 0 by ring. apply Rmax_right. lra.
Qed.

(* REMARK (reals only): with radius = 0 the modulus is 0 and the real remainder a - 0*_ is a,
   so RepeatX is the identity here; in f32 `x.rem_euclid(0.0)` is NaN. *)
Remark repeat_x_zero_radius s off p : den (rrepeat_x s 0 off) p = den s p.
Proof.
  rewrite den_repeat_x. unfold rmod. rewrite (pt_eta p) at 4.
  apply den_ext; try reflexivity. destruct (Rlt_dec 0 (0 * 2)); ring.
Qed.

(* a transform applied to a transformed shape flattens into ONE ERemapAffine node; the
   theorems above cover it because [den_remap_affine] does *)
Lemma move_flattens t n b :
  move r_sc (ERemapAffine t n) b = ERemapAffine t (aff_mul r_sc n (translation r_sc (vneg r_sc b))).
Proof. reflexivity. Qed.

Lemma rotate_is_one_node s rot c : exists t m, rotate r_sc s rot c = ERemapAffine t m.
Proof. unfold rotate, move. destruct s; cbn [remap_affine]; eauto. Qed.

Corollary move_move s a b p :
  den (move r_sc (move r_sc s a) b) p = den s (psub (psub p (v2p b)) (v2p a)).
Proof. rewrite !move_sound. reflexivity. Qed.

Corollary scale_move s k off p :
  den (scale r_sc (move r_sc s off) k) p
  = den s (px p / vx k - vx off, py p / vy k - vy off, pz p / vz k - vz off).
Proof. rewrite scale_sound, move_sound. reflexivity. Qed.

(* the Rust unit test `transform_order`: x moved by (-1,0,0), then RotateZ by 90 degrees
   about the origin, is y + 1 (asserted there at (0,0,0), (0,-1,0), (0,1,0)) *)
Example transform_order p :
  den (rotate r_sc (move r_sc EX (mkv (-1) 0 0)) (rodrigues (axis_z r_sc) (- (PI / 2))) (mkv 0 0 0)) p
  = py p + 1.
Proof.
  rewrite rotate_sound, rodrigues_z, move_sound. rewrite cos_neg, sin_neg, cos_PI2, sin_PI2.
  unfold den, padd, psub, v2p, mkv. cbn [eden px py pz fst snd vx vy vz]. ring.
Qed.

(* ====================================================================================== *)
Print Assumptions circle_inside.
Print Assumptions sphere_inside.
Print Assumptions rectangle_inside.
Print Assumptions box_inside.
Print Assumptions plane_inside.
Print Assumptions union_inside.
Print Assumptions intersection_inside.
Print Assumptions inverse_inside.
Print Assumptions difference_inside.
Print Assumptions blend_zero.
Print Assumptions blend_contains_union.
Print Assumptions den_remap_affine.
Print Assumptions move_sound.
Print Assumptions scale_sound.
Print Assumptions scale_image.
Print Assumptions scale_uniform_sound.
Print Assumptions rotate_sound.
Print Assumptions rodrigues_inv.
Print Assumptions rotate_rodrigues.
Print Assumptions reflect_sound.
Print Assumptions reflect_image.
Print Assumptions reflect_xy_sound.
Print Assumptions repeat_x_periodic.
Print Assumptions repeat_x_cell.
Print Assumptions repeat_x_fold.
Print Assumptions revolve_y_sound.
Print Assumptions revolve_y_rotation_invariant.
Print Assumptions extrude_z_inside.
Print Assumptions loft_z_inside.
Print Assumptions loft_z_at_lo.
Print Assumptions plane_xy_den.
Print Assumptions transform_order.
