(* FlattenProof.v — the theorems about Flatten.flatten (SsaTape::new).

   [arena_ok arena roots] (FlattenPass2.v; boolean version [arena_okb] with
   [arena_okb_spec]) says what a fidget Context guarantees of its arena:
     - children precede parents ([arena_wf]);
     - every root is a node of the arena;
     - no Unary whose child is a Const, and no Unary Copy opcode;
     - no Binary with two Const children;
     - no Binary And / Or whose LEFT child is a Const.

   Theorems:
     flatten_total        no error code fires (in particular the fuel suffices)
     flatten_wf           ssa_wf, counts, VarMap facts
     flatten_slots_dense  the slots defined by the tape are exactly 0 .. k-1, and
                          k + length roots = length tape
     flatten_correct_gen  the tape computes ctx_eval of every root, under the weakest
                          commutation hypothesis ([comm_at_nodes])
     flatten_correct      the same under "Add/Mul/Min/Max commute with an immediate"
     flatten_correct_nocomm  the same, with no commutation hypothesis, for arenas that
                          have no Add/Mul/Min/Max node with a constant LEFT child
     comm_needed          commutation at such a node is NECESSARY (so the Min/Max
                          hypothesis cannot be dropped)                                  *)
From Coq Require Import List Bool Arith Lia Permutation.
From FV Require Import Ops Tape Alloc Flatten CtxEval SsaWf
  FlattenLib FlattenPass1 FlattenPass2 FlattenRun FlattenWf FlattenSem.
Import ListNotations.

Section Main.
Context {I : Type}.
Variable arena : list (cnode I).
Variable roots : list nat.

(* what [flatten] returns, in terms of the final invariants of both loops *)
Lemma flatten_result t vars :
  arena_ok arena roots -> flatten arena roots = Ok (t, vars) ->
  exists s1 vis order,
    Inv1 arena roots s1 [] vis /\ NoDup order /\ (forall k, In k order <-> In k vis) /\
    ord_ok arena roots order /\
    vars = p1_vars s1 /\ t_ops t = final_tape arena roots s1 order /\
    t_choices t = count_choices (t_ops t) /\ t_outputs t = length roots.
Proof.
  intros OK H.
  destruct (flatten_run arena roots OK) as (s1 & vis & s2 & order & F1 & F2 & E).
  rewrite E in H. inversion H; subst; clear H. simpl.
  assert (Hpc : count_choices (rev (final_pro roots s1)) = 0).
  { rewrite count_choices_rev. apply pro_fwd_choices. }
  exists s1, vis, order.
  split; [exact F1|].
  split; [apply (i2_nd _ _ _ _ _ _ _ _ F2)|].
  split.
  { intros k; split.
    - apply (i2_ord_vis _ _ _ _ _ _ _ _ F2).
    - apply (pass2_complete arena roots OK s1 vis F1 _ Hpc s2 order F2). }
  split; [apply (i2_ord _ _ _ _ _ _ _ _ F2)|].
  split; [reflexivity|].
  split.
  { rewrite (i2_tape _ _ _ _ _ _ _ _ F2). unfold final_tape.
    rewrite rev_app_distr, rev_involutive. reflexivity. }
  split; [|reflexivity].
  rewrite count_choices_rev. apply (i2_ch _ _ _ _ _ _ _ _ F2).
Qed.

(* 1 *)
Theorem flatten_total :
  arena_ok arena roots -> exists t vars, flatten arena roots = Ok (t, vars).
Proof.
  intros OK. destruct (flatten_run arena roots OK) as (s1 & vis & s2 & order & _ & _ & E).
  eauto.
Qed.

(* 2 *)
Theorem flatten_wf t vars :
  arena_ok arena roots -> flatten arena roots = Ok (t, vars) ->
  ssa_wf (t_ops t) = true /\
  t_outputs t = length roots /\
  t_choices t = count_choices (t_ops t) /\
  count_outputs (t_ops t) = length roots /\
  NoDup vars /\
  (forall v, In v vars -> exists node, nth_error arena node = Some (NInput v)) /\
  (forall out k, In (OInput out k) (t_ops t) ->
     k < length vars /\
     exists node v, nth_error arena node = Some (NInput v) /\ var_index vars v = Some k) /\
  (forall out a, ~ In (OUn UCopy out a) (t_ops t)).
Proof.
  intros OK H.
  destruct (flatten_result t vars OK H) as (s1 & vis & order & F1 & ND & OV & OO & -> & Et & Ec & Eo).
  rewrite Et in *.
  split; [eapply final_ssa_wf; eauto|].
  split; [auto|]. split; [auto|].
  split; [eapply final_outputs; eauto|].
  split; [apply (i1_vnd _ _ _ _ _ F1)|].
  split.
  { intros v Hv. apply (i1_vars _ _ _ _ _ F1) in Hv. destruct Hv as (k & _ & E). eauto. }
  split.
  { intros out k Hin.
    destruct (final_inputs arena roots s1 vis order OV out k Hin) as [A (node & v & _ & B & _ & C)].
    split; eauto. }
  intros out a Hin. eapply final_no_copy; eauto.
Qed.

(* 4 *)
Theorem flatten_slots_dense t vars :
  arena_ok arena roots -> flatten arena roots = Ok (t, vars) ->
  exists nslots,
    Permutation (tape_outs (t_ops t)) (seq 0 nslots) /\
    nslots + length roots = length (t_ops t).
Proof.
  intros OK H.
  destruct (flatten_result t vars OK H) as (s1 & vis & order & F1 & ND & OV & OO & -> & Et & Ec & Eo).
  exists (p1_slots s1 + nconst s1 roots). rewrite Et. split.
  - eapply final_dense; eauto.
  - rewrite (final_tape_length arena roots OK s1 vis F1 order ND OV). lia.
Qed.

(* 3 *)
Section Correct.
Context {V : Type}.
Variable sem : Sem V I.
Variable env : nat -> V.
Hypothesis H_ri : forall b x c, s_ri sem b x c = s_rr sem b x (s_imm sem c).
Hypothesis H_ir : forall b c x, s_ir sem b c x = s_rr sem b (s_imm sem c) x.

(* the weakest hypothesis: commutation exactly at the nodes where SsaTape::new
   commutes, on the values that occur there *)
Theorem flatten_correct_gen t vars :
  comm_at_nodes sem env arena ->
  arena_ok arena roots -> flatten arena roots = Ok (t, vars) ->
  eval_outputs sem (t_ops t) (length roots) (map env vars) = map (ctx_eval sem arena env) roots.
Proof.
  intros HC OK H.
  destruct (flatten_result t vars OK H) as (s1 & vis & order & F1 & ND & OV & OO & -> & Et & Ec & Eo).
  rewrite Et. eapply final_correct; eauto.
Qed.

(* the statement asked for: Add / Mul / Min / Max commute when one side is an immediate *)
Theorem flatten_correct t vars :
  (forall b x c, In b [BAdd; BMul; BMin; BMax] ->
     s_rr sem b x (s_imm sem c) = s_rr sem b (s_imm sem c) x) ->
  arena_ok arena roots -> flatten arena roots = Ok (t, vars) ->
  eval_outputs sem (t_ops t) (length roots) (map env vars) = map (ctx_eval sem arena env) roots.
Proof.
  intros HC. apply flatten_correct_gen.
  intros node b l r c _ _ Hf. apply HC.
  destruct b; simpl in *; try discriminate; auto 6.
Qed.

(* no commutation needed when the arena has no such node *)
Definition no_commuted_node : Prop :=
  forall node b l r, nth_error arena node = Some (NBinary b l r) ->
    is_constn arena l = true -> flatten_imm_lhs b <> Some RegImm.

Theorem flatten_correct_nocomm t vars :
  no_commuted_node ->
  arena_ok arena roots -> flatten arena roots = Ok (t, vars) ->
  eval_outputs sem (t_ops t) (length roots) (map env vars) = map (ctx_eval sem arena env) roots.
Proof.
  intros HN. apply flatten_correct_gen.
  intros node b l r c En El Hf. exfalso. apply (HN node b l r En); auto.
  unfold is_constn. rewrite El. auto.
Qed.

End Correct.
End Main.

(* Commutation is necessary: on the three-node arena [Const c; Input 0; b(0, 1)] with
   b one of Add / Mul / Min / Max, the flattened tape computes  b(x, c)  while the
   Context computes  b(c, x).  Any semantics for which the theorem holds on this arena
   satisfies  s_ri b x c = s_rr b (imm c) x. *)
Section Needed.
Context {V I : Type}.
Variable sem : Sem V I.

Definition comm_arena (b : bop) (c : I) : list (cnode I) := [NConst c; NInput 0; NBinary b 0 1].

Lemma comm_arena_ok b c : flatten_imm_lhs b = Some RegImm -> arena_ok (comm_arena b c) [2].
Proof.
  intros Hf. apply arena_okb_spec. destruct b; try discriminate; reflexivity.
Qed.

Theorem comm_needed b c x :
  flatten_imm_lhs b = Some RegImm ->
  (forall t vars, flatten (comm_arena b c) [2] = Ok (t, vars) ->
     eval_outputs sem (t_ops t) 1 (map (fun _ => x) vars)
     = map (ctx_eval sem (comm_arena b c) (fun _ => x)) [2]) ->
  s_ri sem b x c = s_rr sem b (s_imm sem c) x.
Proof.
  intros Hf H.
  destruct b; try discriminate;
    (specialize (H _ _ eq_refl); vm_compute in H; inversion H; auto).
Qed.

End Needed.

Print Assumptions flatten_total.
Print Assumptions flatten_wf.
Print Assumptions flatten_slots_dense.
Print Assumptions flatten_correct_gen.
Print Assumptions flatten_correct.
Print Assumptions flatten_correct_nocomm.
Print Assumptions comm_needed.
Print Assumptions arena_okb_spec.
