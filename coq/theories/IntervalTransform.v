(* IntervalTransform.v — [itransform] (Transformable for Interval, shape/mod.rs):
   the interval image of a box under a 4x4 matrix transform (rows of the matrix,
   then divide by w) encloses the transformed point. *)
From Coq Require Import Reals Lra Lia List Bool.
From FV Require Import Ops Tape Interval ER ERLemmas IntervalSound.
Import ListNotations.
Local Open Scope R_scope.

(* the point transform, with the same association order as the interval code *)
Definition prow (x y z : er) (m : list er) (i : nat) : er :=
  let g k := nth (4 * i + k) m (EFin 0) in
  er_add (er_add (er_add (er_mul x (g 0%nat)) (er_mul y (g 1%nat))) (er_mul z (g 2%nat))) (g 3%nat).
Definition ptransform (x y z : er) (m : list er) : er * er * er :=
  (er_div (prow x y z m 0) (prow x y z m 3),
   er_div (prow x y z m 1) (prow x y z m 3),
   er_div (prow x y z m 2) (prow x y z m 3)).

Lemma er_add_nn p q : er_add p q <> ENaN -> p <> ENaN /\ q <> ENaN.
Proof. destruct p, q; cbn; intros H; split; try discriminate; contradiction. Qed.
Lemma er_div_nn p q : er_div p q <> ENaN -> p <> ENaN /\ q <> ENaN.
Proof. destruct p, q; cbn; intros H; split; try discriminate; contradiction. Qed.

Section Transform.
Variable rnd : er -> er.
Variable mix : er -> er -> er.
Notation F := (er_fl_gen rnd mix).

Definition irow (x y z : interval er) (m : list er) (i : nat) : option (interval er) :=
  let g k := nth (4 * i + k) m (fl_zero _ F) in
  lift2 (iadd F) (lift2 (iadd F) (lift2 (iadd F) (imul_f F x (g 0%nat)) (imul_f F y (g 1%nat)))
                                 (imul_f F z (g 2%nat))) (ifrom F (g 3%nat)).

Lemma itransform_rows x y z m :
  itransform F x y z m =
  match lift2 (idiv F) (irow x y z m 0) (irow x y z m 3),
        lift2 (idiv F) (irow x y z m 1) (irow x y z m 3),
        lift2 (idiv F) (irow x y z m 2) (irow x y z m 3) with
  | Some a, Some b, Some c => Some (a, b, c)
  | _, _, _ => None
  end.
Proof. reflexivity. Qed.

Lemma lift2_some (f : interval er -> interval er -> option (interval er)) a b r :
  lift2 f a b = Some r -> exists x y, a = Some x /\ b = Some y /\ f x y = Some r.
Proof. destruct a as [x|], b as [y|]; cbn; try discriminate. eauto. Qed.

Lemma irow_sound ix iy iz px py pz m i r :
  valid ix -> valid iy -> valid iz -> encl ix px -> encl iy py -> encl iz pz ->
  prow px py pz m i <> ENaN ->
  irow ix iy iz m i = Some r -> valid r /\ encl r (prow px py pz m i).
Proof.
  intros Vx Vy Vz Ex Ey Ez Hn H. unfold irow, prow in *. cbn [fl_zero er_fl_gen] in H.
  set (g k := nth (4 * i + k) m (EFin 0)) in *.
  destruct (er_add_nn _ _ Hn) as [Hn3 _].
  destruct (er_add_nn _ _ Hn3) as [Hn2 Hm2].
  destruct (er_add_nn _ _ Hn2) as [Hm0 Hm1].
  apply lift2_some in H. destruct H as (s2 & c & H2 & Ec & H).
  apply lift2_some in H2. destruct H2 as (s1 & r2 & H1 & E2 & A2).
  apply lift2_some in H1. destruct H1 as (r0 & r1 & E0 & E1 & A1).
  destruct (imul_f_sound rnd mix _ _ _ Vx Ex Hm0 _ E0) as [V0 C0].
  destruct (imul_f_sound rnd mix _ _ _ Vy Ey Hm1 _ E1) as [V1 C1].
  destruct (imul_f_sound rnd mix _ _ _ Vz Ez Hm2 _ E2) as [V2 C2].
  destruct (iadd_sound rnd mix _ _ _ _ V0 V1 C0 C1 Hn2 _ A1) as [W1 D1].
  destruct (iadd_sound rnd mix _ _ _ _ W1 V2 D1 C2 Hn3 _ A2) as [W2 D2].
  destruct (ifrom_sound rnd mix _ _ Ec) as [Vc Cc].
  exact (iadd_sound rnd mix _ _ _ _ W2 Vc D2 Cc Hn _ H).
Qed.

(* The transformed box encloses the transformed point, provided the three point
   results are not NaN (which implies that no intermediate value is NaN: NaN
   propagates through +, / ). *)
Theorem itransform_sound ix iy iz px py pz m a b c :
  valid ix -> valid iy -> valid iz -> encl ix px -> encl iy py -> encl iz pz ->
  let '(qx, qy, qz) := ptransform px py pz m in
  qx <> ENaN -> qy <> ENaN -> qz <> ENaN ->
  itransform F ix iy iz m = Some (a, b, c) ->
  (valid a /\ encl a qx) /\ (valid b /\ encl b qy) /\ (valid c /\ encl c qz).
Proof.
  intros Vx Vy Vz Ex Ey Ez. unfold ptransform. intros Hx Hy Hz H.
  rewrite itransform_rows in H.
  destruct (er_div_nn _ _ Hx) as [N0 N3]. destruct (er_div_nn _ _ Hy) as [N1 _].
  destruct (er_div_nn _ _ Hz) as [N2 _].
  destruct (lift2 (idiv F) (irow ix iy iz m 0) _) as [d0|] eqn:D0; [|discriminate].
  destruct (lift2 (idiv F) (irow ix iy iz m 1) _) as [d1|] eqn:D1; [|discriminate].
  destruct (lift2 (idiv F) (irow ix iy iz m 2) _) as [d2|] eqn:D2; [|discriminate].
  injection H as <- <- <-.
  apply lift2_some in D0. destruct D0 as (r0 & r3 & R0 & R3 & D0).
  apply lift2_some in D1. destruct D1 as (r1 & r3' & R1 & R3' & D1).
  apply lift2_some in D2. destruct D2 as (r2 & r3'' & R2 & R3'' & D2).
  rewrite R3 in R3', R3''. injection R3' as <-. injection R3'' as <-.
  destruct (irow_sound _ _ _ _ _ _ _ _ _ Vx Vy Vz Ex Ey Ez N0 R0) as [V0 E0].
  destruct (irow_sound _ _ _ _ _ _ _ _ _ Vx Vy Vz Ex Ey Ez N1 R1) as [V1 E1].
  destruct (irow_sound _ _ _ _ _ _ _ _ _ Vx Vy Vz Ex Ey Ez N2 R2) as [V2 E2].
  destruct (irow_sound _ _ _ _ _ _ _ _ _ Vx Vy Vz Ex Ey Ez N3 R3) as [V3 E3].
  split; [|split].
  - exact (idiv_sound rnd mix _ _ _ _ V0 V3 E0 E3 Hx _ D0).
  - exact (idiv_sound rnd mix _ _ _ _ V1 V3 E1 E3 Hy _ D1).
  - exact (idiv_sound rnd mix _ _ _ _ V2 V3 E2 E3 Hz _ D2).
Qed.

End Transform.

Print Assumptions itransform_sound.
