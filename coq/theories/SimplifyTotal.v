(* SimplifyTotal.v — VmData::simplify never fails on a well-formed tape with a
   complete trace (simplify_total), the historical closing assertion is wrong
   (simplify_old_assert_refuted), and iterated simplification (simplify_chain). *)
From Coq Require Import List Bool Arith Lia.
From FV Require Import Ops Tape Lru Alloc SsaWf Simplify LruProof
     SimplifyValidateProof TraceFacts AllocProof SimplifyFacts SimplifyInv SimplifyProof.
Import ListNotations.

(* No ImmReg form of a choice opcode: SsaOp has no such variant (Ops.bop_has_form,
   checked against the Rust source in GenCheck.forms_match), but the model's [op]
   type can express it and [simplify] then answers Err 46. *)
Definition ir_ok {I} (o : op I) : bool :=
  match o with OBinIR b _ _ _ => negb (bop_has_choice b) | _ => true end.

Lemma has_form_ir_ok {I} (o : op I) :
  match o with OBinIR b _ _ _ => bop_has_form b ImmReg | _ => true end = true -> ir_ok o = true.
Proof. destruct o; simpl; auto. destruct b; simpl; auto. Qed.

Section Progress.
Context {I : Type}.
Notation op := (Tape.op I).

Definition known (chs : list tchoice) : Prop := Forall (fun c => c <> TUnknown) chs.

Lemma goi_ok w a : a < length (w_bind w) ->
  exists na w', get_or_insert_active w a = Ok (na, w') /\ length (w_bind w') = length (w_bind w).
Proof.
  intros H. unfold get_or_insert_active.
  destruct (nth_error (w_bind w) a) as [[b|]|] eqn:E.
  - eexists _, _. split; reflexivity.
  - eexists _, _. split; [reflexivity|]. simpl. apply list_upd_length.
  - apply nth_error_None in E. lia.
Qed.

Lemma active_ok w a : a < length (w_bind w) -> exists r, active w a = Ok r.
Proof.
  intros H. unfold active. destruct (nth_error (w_bind w) a) eqn:E; [eexists; reflexivity|].
  apply nth_error_None in E. lia.
Qed.

Lemma set_active_ok w x b : x < length (w_bind w) -> exists w', set_active w x b = Ok w'.
Proof.
  intros H. unfold set_active. apply Nat.ltb_lt in H. rewrite H. eexists; reflexivity.
Qed.

Lemma side_ok (ni : nat) w x (chs : list tchoice) : x < length (w_bind w) ->
  exists r : @action I * list tchoice,
  match active w x with
  | Err c => Err c
  | Ok (Some nx) => Ok (Emit (OUn UCopy ni nx) w 0, chs)
  | Ok None => match set_active w x ni with Ok w' => Ok (Skip w', chs) | Err c => Err c end
  end = Ok r.
Proof.
  intros H. destruct (active_ok w x H) as [[nx|] ->].
  - eexists; reflexivity.
  - destruct (set_active_ok w x ni H) as [w' ->]. eexists; reflexivity.
Qed.

Lemma next_choice_ok chs : 1 <= length chs -> known chs ->
  exists c chs', next_choice chs = Ok (c, chs') /\ c <> TUnknown.
Proof.
  intros Hl Hk. destruct chs as [|c chs]; [simpl in Hl; lia|].
  inversion Hk; subst. exists c, chs. split; [reflexivity|assumption].
Qed.

Lemma sa_progress (o : op) ni w chs :
  defining o = true -> ir_ok o = true ->
  (forall a, In a (op_args o) -> a < length (w_bind w)) ->
  ch_len o <= length chs -> known chs ->
  exists r, simplify_active o ni w chs = Ok r.
Proof.
  intros Hd Hir Ha Hl Hk. unfold ch_len in Hl.
  destruct o; try discriminate; cbn [simplify_active op_has_choice op_args ir_ok] in *.
  - eexists; reflexivity.
  - eexists; reflexivity.
  - assert (Harg := Ha arg (or_introl eq_refl)).
    assert (Hgen : exists r : @action I * list tchoice, match get_or_insert_active w arg with
                   | Ok (na, w') => Ok (Emit (OUn u ni na) w' 0, chs)
                   | Err c => Err c end = Ok r).
    { destruct (goi_ok w arg Harg) as (na & w' & -> & _). eexists; reflexivity. }
    destruct u; try exact Hgen. apply side_ok, Harg.
  - assert (Hlh := Ha lhs (or_introl eq_refl)). assert (Hrh := Ha rhs (or_intror (or_introl eq_refl))).
    assert (Hboth : forall cc chs1, exists r : @action I * list tchoice,
       match get_or_insert_active w lhs with
       | Err c => Err c
       | Ok (nl, w1) =>
           match get_or_insert_active w1 rhs with
           | Err c => Err c
           | Ok (nr, w2) => Ok (Emit (OBinRR b ni nl nr) w2 cc, chs1)
           end
       end = Ok r).
    { intros cc chs1. destruct (goi_ok w lhs Hlh) as (nl & w1 & -> & Hlen).
      destruct (goi_ok w1 rhs ltac:(lia)) as (nr & w2 & -> & _). eexists; reflexivity. }
    destruct (bop_has_choice b); [|apply Hboth].
    destruct (next_choice_ok chs Hl Hk) as (c & chs' & -> & Hc).
    destruct c; try congruence; [apply side_ok, Hlh|apply side_ok, Hrh|apply Hboth].
  - assert (Harg := Ha arg (or_introl eq_refl)).
    assert (Hgen : forall cc chs1, exists r : @action I * list tchoice, match get_or_insert_active w arg with
                   | Ok (na, w') => Ok (Emit (OBinRI b ni na imm) w' cc, chs1)
                   | Err c => Err c end = Ok r).
    { intros cc chs1. destruct (goi_ok w arg Harg) as (na & w' & -> & _). eexists; reflexivity. }
    destruct (bop_has_choice b); [|apply Hgen].
    destruct (next_choice_ok chs Hl Hk) as (c & chs' & -> & Hc).
    destruct c; try congruence; [apply side_ok, Harg|eexists; reflexivity|apply Hgen].
  - apply negb_true_iff in Hir. rewrite Hir.
    destruct (goi_ok w arg (Ha arg (or_introl eq_refl))) as (na & w' & -> & _). eexists; reflexivity.
Qed.

Lemma simplify_op_progress N (st : @sst I) (o : op) live defd st_wf :
  wf_step N o (live, defd) = Some st_wf -> ir_ok o = true ->
  length (w_bind (s_ws st)) = N ->
  ch_len o <= length (s_choices st) -> known (s_choices st) ->
  exists st1, simplify_op st o = Ok st1.
Proof.
  intros Hwf Hir Hlen Hl Hk. destruct st_wf as [live1 defd1].
  destruct (op_out o) as [index|] eqn:Hout.
  - destruct (wf_step_def_inv _ _ _ _ _ _ _ Hwf Hout) as (Hssa & _ & _ & HiN & Hargs & _).
    assert (Hd : defining o = true) by (destruct o; try discriminate; reflexivity).
    destruct (active_ok (s_ws st) index ltac:(lia)) as [r Hr].
    assert (Hsa : forall ni, exists r, simplify_active o ni (s_ws st) (s_choices st) = Ok r).
    { intros ni. apply sa_progress; auto. intros a Ha'. destruct (Hargs a Ha') as (_ & _ & H). lia. }
    assert (Hnc : op_has_choice o = true -> exists c chs', next_choice (s_choices st) = Ok (c, chs')).
    { intros Hc. unfold ch_len in Hl. rewrite Hc in Hl.
      destruct (next_choice_ok _ Hl Hk) as (c & chs' & E & _). eauto. }
    destruct o; try discriminate; simpl in Hout; injection Hout as ->;
      cbn [simplify_op op_out]; rewrite Hr;
      (destruct r as [ni|];
       [ destruct (Hsa ni) as [[[o' w' cc|w'] chs'] ->]; eexists; reflexivity
       | cbn [op_has_choice] in *;
         first [ eexists; reflexivity
               | match goal with |- context [bop_has_choice ?b] => destruct (bop_has_choice b) end;
                 [destruct (Hnc eq_refl) as (c & chs' & ->); eexists; reflexivity|eexists; reflexivity] ] ]).
  - destruct (wf_step_out_inv _ _ _ _ _ _ Hwf Hout) as (Hargs & _).
    destruct o; try discriminate. simpl.
    destruct (Hargs arg (or_introl eq_refl)) as [_ H].
    destruct (goi_ok (s_ws st) arg ltac:(lia)) as (na & w' & -> & _). eexists; reflexivity.
Qed.

Lemma known_app_r (a b : list tchoice) : known (a ++ b) -> known b.
Proof. unfold known. rewrite Forall_app. tauto. Qed.

Lemma simplify_ops_progress N (ops : list op) : forall (st : @sst I) live defd st_wf,
  wf_run N ops (live, defd) = Some st_wf -> forallb ir_ok ops = true ->
  length (w_bind (s_ws st)) = N ->
  count_choices ops <= length (s_choices st) -> known (s_choices st) ->
  exists st', simplify_ops ops st = Ok st'.
Proof.
  induction ops as [|o ops IH]; intros st live defd st_wf Hwf Hir Hlen Hl Hk.
  - eexists; reflexivity.
  - cbn [wf_run simplify_ops] in *. apply andb_prop in Hir. destruct Hir as [Hir1 Hir2].
    destruct (wf_step N o (live, defd)) as [[live1 defd1]|] eqn:Ewf; [|discriminate].
    rewrite count_choices_cons in Hl. fold (ch_len o) in Hl.
    destruct (simplify_op_progress N st o live defd _ Ewf Hir1 Hlen ltac:(lia) Hk) as [st1 E1].
    rewrite E1.
    assert (Hssa : is_ssa_op o = true).
    { unfold wf_step in Ewf. destruct (is_ssa_op o); [reflexivity|discriminate]. }
    pose proof (simplify_op_mono (unit_sem I) [] (fun v => match v with tt => eq_refl end) st o st1 E1)
      as (Hlen1 & _).
    assert (Hch : exists cs, s_choices st = cs ++ s_choices st1 /\ length cs = ch_len o).
    { pose proof (simplify_op_class (unit_sem I) [] (fun v => match v with tt => eq_refl end)
                    st o st1 Hssa E1) as C.
      destruct C as [reg i nr -> _ _ Hch _ _|index cs _ _ Hch Hcl _ _ _ _ _|index cs ni act _ _ Hch Hcl _ _ _ _].
      - exists []. split; [symmetry; exact Hch|reflexivity].
      - exists cs. split; assumption.
      - exists cs. split; assumption. }
    destruct Hch as (cs & Hch & Hcl).
    apply (IH st1 live1 defd1 st_wf Hwf Hir2).
    + congruence.
    + rewrite Hch, app_length in Hl. lia.
    + rewrite Hch in Hk. apply known_app_r in Hk. exact Hk.
Qed.

End Progress.

(* ---------- (3) totality ---------- *)
(* the closing assertion  count + output_count == ops_out.len()  always holds *)
Theorem simplify_closing_assertion :
  forall (I : Type) (parent : list (op I)) (chs : list tchoice) (st : @sst I),
    ssa_wf parent = true ->
    simplify_ops parent (st_init (length parent) chs) = Ok st ->
    simplify_final_ok true (w_count (s_ws st)) (s_oc st) (length (rev (s_out st))) = true.
Proof.
  intros I parent chs st Hwf Hs.
  destruct (simplify_walk_facts (unit_sem I) [] (fun v => match v with tt => eq_refl end) parent _ st Hwf Hs)
    as (tr & _ & _ & _ & Hlen & _).
  simpl. apply Nat.eqb_eq. exact Hlen.
Qed.

Theorem simplify_total :
  forall (I : Type) (m : nat) (parent : list (op I)) (trace : list tchoice),
    3 <= m -> m <= 255 ->
    ssa_wf parent = true ->
    forallb ir_ok parent = true ->          (* added: see simplify_total_needs_ir_ok *)
    length trace = count_choices parent ->
    ~ In TUnknown trace ->
    exists z, simplify true m parent (count_choices parent) trace = Ok z.
Proof.
  intros I m parent trace Hm3 Hm255 Hwf Hir Hlen Hk.
  assert (Hrun : exists fin, wf_run (length parent) parent ([], []) = Some fin).
  { unfold ssa_wf in Hwf. rewrite wf_walk_run in Hwf.
    destruct (wf_run (length parent) parent ([], [])) as [fin|]; [eauto|discriminate]. }
  destruct Hrun as [fin Hrun].
  destruct (simplify_ops_progress (length parent) parent (st_init (length parent) (rev trace)) [] [] fin
              Hrun Hir) as [st Hs].
  { simpl. apply repeat_length. }
  { simpl. rewrite rev_length. lia. }
  { simpl. unfold known. apply Forall_forall. intros c Hc ->. apply Hk. apply in_rev. exact Hc. }
  pose proof (simplify_closing_assertion I parent _ st Hwf Hs) as Hfin.
  destruct (simplify_walk_facts (unit_sem I) [] (fun v => match v with tt => eq_refl end) parent _ st Hwf Hs)
    as (tr & _ & _ & Hcnt & _ & Hwfc & _).
  assert (Hwfc' : wf_walk (length parent) (rev (s_out st)) ([], []) = true)
    by (eapply wf_walk_bound_mono; eassumption).
  destruct (alloc_correct_gen unit I (unit_sem I) m (length parent) (length parent) _ Hm3 Hm255 (le_n _) Hwfc')
    as (rt & slots & Ha & _).
  unfold simplify. apply Nat.eqb_eq in Hlen. rewrite Hlen. cbn [negb].
  fold (@st_init I (length parent) (rev trace)). rewrite Hs. cbv zeta. rewrite Hfin. cbn [negb]. rewrite Ha.
  eexists; reflexivity.
Qed.

(* why the extra hypothesis: min(7, x) written as an ImmReg op is well formed but unsupported *)
Example simplify_total_needs_ir_ok :
  let parent := [OOutput 0 0; OBinIR BMin 0 1 7; OInput 1 0] in
  ssa_wf parent = true /\ simplify true 4 parent (count_choices parent) [] = Err 46.
Proof. vm_compute. split; reflexivity. Qed.

(* the historical assertion  count + 1 == ops_out.len()  fails on any tape with two outputs *)
Example simplify_old_assert_refuted :
  let parent : list (op nat) := [OOutput 0 0; OOutput 0 1; OInput 0 0] in
  ssa_wf parent = true /\
  simplify false 4 parent (count_choices parent) [] = Err 40 /\
  exists z, simplify true 4 parent (count_choices parent) [] = Ok z.
Proof. vm_compute. split; [reflexivity|]. split; [reflexivity|]. eexists; reflexivity. Qed.

Example simplify_old_assert_refuted_2 :
  let parent : list (op nat) :=
    [OOutput 0 0; OOutput 1 1; OBinRR BMin 0 2 3; OBinRR BAdd 1 2 3; OInput 2 0; OInput 3 1] in
  ssa_wf parent = true /\
  simplify false 4 parent (count_choices parent) [TLeft] = Err 40 /\
  exists z, simplify true 4 parent (count_choices parent) [TLeft] = Ok z.
Proof. vm_compute. split; [reflexivity|]. split; [reflexivity|]. eexists; reflexivity. Qed.

(* ---------- (4) iterated simplification ---------- *)
(* the outputs of a well-formed SSA tape do not depend on what the slots held before *)
Lemma wf_outputs_indep {V I} (sem : Sem V I) (t : list (op I)) :
  ssa_wf t = true ->
  forall inputs (e0 e0' : env (V:=V)) out0,
    m_out (eval_tape sem t inputs e0 out0) = m_out (eval_tape sem t inputs e0' out0).
Proof.
  intros Hwf inputs e0 e0' out0.
  destruct (alloc_correct V I sem 3 t ltac:(lia) ltac:(lia) Hwf) as (rt & slots & _ & Hobs).
  rewrite (proj1 (Hobs inputs e0 e0 out0)), (proj1 (Hobs inputs e0' e0 out0)). reflexivity.
Qed.

Section Chain.
Context {V I : Type}.
Variable sem : Sem V I.
Hypothesis copy_id : forall v, s_un sem UCopy v = v.
Variable inputs : list V.
Variable out0 : list V.
Variables (ao : bool) (m : nat).

(* t' is obtained from t by successive simplifications, each with a trace valid at [inputs]
   for the tape it is applied to *)
Inductive simp_chain : list (op I) -> list (op I) -> Prop :=
| chain_nil t : simp_chain t t
| chain_step t trace z e1 t' :
    simplify ao m t (count_choices t) trace = Ok z ->
    valid_at sem inputs t e1 out0 trace ->
    simp_chain (z_ssa z) t' ->
    simp_chain t t'.

Theorem simplify_chain t t' :
  ssa_wf t = true -> simp_chain t t' ->
  ssa_wf t' = true /\
  forall e0 e0' : env,
    m_out (eval_tape sem t inputs e0 out0) = m_out (eval_tape sem t' inputs e0' out0).
Proof.
  intros Hwf Hc. induction Hc as [t|t trace z e1 t' Hs Hval Hc IH].
  - split; [exact Hwf|]. intros e0 e0'. apply wf_outputs_indep, Hwf.
  - destruct (simplify_ssa_correct V I sem copy_id ao m t trace inputs e1 e1 out0 z Hwf Hs Hval)
      as (E & _ & Hwfz & _).
    destruct (IH Hwfz) as [Hwf' IHo]. split; [exact Hwf'|].
    intros e0 e0'. rewrite (wf_outputs_indep sem t Hwf inputs e0 e1 out0), E. apply IHo.
Qed.

(* the same through the register tape of the last stage *)
Corollary simplify_chain_reg t t' trace z e1 :
  ssa_wf t = true -> simp_chain t t' ->
  simplify ao m t' (count_choices t') trace = Ok z ->
  valid_at sem inputs t' e1 out0 trace ->
  forall e0 e0' : env,
    m_out (eval_tape sem t inputs e0 out0) = m_out (eval_tape sem (z_reg z) inputs e0' out0).
Proof.
  intros Hwf Hc Hs Hval e0 e0'.
  destruct (simplify_chain t t' Hwf Hc) as [Hwf' E].
  rewrite (E e0 e1).
  apply (simplify_reg_outputs V I sem copy_id ao m t' trace inputs e1 e0' out0 z Hwf' Hs Hval).
Qed.

End Chain.

Print Assumptions simplify_ssa_struct.
Print Assumptions simplify_ssa_correct.
Print Assumptions simplify_reg_correct.
Print Assumptions simplify_reg_outputs.
Print Assumptions simplify_closing_assertion.
Print Assumptions simplify_total.
Print Assumptions simplify_old_assert_refuted.
Print Assumptions simplify_chain.
Print Assumptions simplify_chain_reg.

(* ---------- the trace recorded at an input is valid there ---------- *)
From FV Require Import TraceValid.

Corollary simplify_recorded_trace :
  forall (V I : Type) (sem : Sem V I),
    (forall v, s_un sem UCopy v = v) -> choice_law sem ->
  forall (ao : bool) (m : nat) (parent : list (op I)) (inputs : list V) (e0 e0' : env)
         (out0 : list V) (z : simplified I),
    ssa_wf parent = true ->
    simplify ao m parent (count_choices parent)
             (rev (m_trace (eval_tape sem parent inputs e0 out0))) = Ok z ->
    m_out (eval_tape sem parent inputs e0 out0) = m_out (eval_tape sem (z_ssa z) inputs e0' out0) /\
    m_out (eval_tape sem parent inputs e0 out0) = m_out (eval_tape sem (z_reg z) inputs e0' out0).
Proof.
  intros V I sem copy_id Hlaw ao m parent inputs e0 e0' out0 z Hwf Hs.
  pose proof (recorded_trace_valid sem inputs Hlaw parent e0 out0) as Hval.
  split.
  - apply (simplify_ssa_correct V I sem copy_id ao m parent _ inputs e0 e0' out0 z Hwf Hs Hval).
  - apply (simplify_reg_outputs V I sem copy_id ao m parent _ inputs e0 e0' out0 z Hwf Hs Hval).
Qed.
Print Assumptions simplify_recorded_trace.
