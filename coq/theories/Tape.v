(* Tape.v — one instruction type for SSA tapes (SsaOp) and register tapes
   (RegOp = SsaOp + Load/Store), and one evaluator, parametric in the value
   type and in the meaning of every opcode.

   vm/mod.rs has four interpreter loops (interval, point, float slice, grad
   slice).  Each is `for op in tape.iter_asm() { match op { ... v[out] = f(v[arg]) } }`;
   the model is [run] with the loop's own [Sem].  Evaluating an SSA tape "operation
   by operation" is the same [run] with slots indexed by SSA variable. *)
From Coq Require Import List Bool Arith.
From FV Require Import Ops.
Import ListNotations.

Section Tape.
Context {I : Type}.   (* immediates *)

Inductive op :=
| OOutput (arg i : nat)
| OInput (out i : nat)
| OCopyImm (out : nat) (imm : I)
| OUn (u : uop) (out arg : nat)
| OBinRR (b : bop) (out lhs rhs : nat)
| OBinRI (b : bop) (out arg : nat) (imm : I)     (* reg (op) imm *)
| OBinIR (b : bop) (out arg : nat) (imm : I)     (* imm (op) reg *)
| OLoad (reg mem : nat)                          (* reg <- mem *)
| OStore (reg mem : nat).                        (* mem <- reg *)

Definition is_ssa_op (o : op) : bool :=
  match o with OLoad _ _ | OStore _ _ => false | _ => true end.

(* SsaOp::output() *)
Definition op_out (o : op) : option nat :=
  match o with
  | OOutput _ _ => None
  | OInput out _ | OCopyImm out _ | OUn _ out _ | OBinRR _ out _ _
  | OBinRI _ out _ _ | OBinIR _ out _ _ => Some out
  | OLoad r _ => Some r
  | OStore _ m => Some m
  end.

(* SsaOp::has_choice() *)
Definition op_has_choice (o : op) : bool :=
  match o with
  | OBinRR b _ _ _ | OBinRI b _ _ _ => bop_has_choice b
  | _ => false    (* no ImmReg variant of a choice opcode exists (GenCheck.forms_match) *)
  end.

(* variables read *)
Definition op_args (o : op) : list nat :=
  match o with
  | OOutput a _ => [a]
  | OInput _ _ | OCopyImm _ _ => []
  | OUn _ _ a | OBinRI _ _ a _ | OBinIR _ _ a _ => [a]
  | OBinRR _ _ l r => [l; r]
  | OLoad _ m => [m]
  | OStore r _ => [r]
  end.

Definition count_choices (t : list op) : nat :=
  length (filter op_has_choice t).
Definition count_outputs (t : list op) : nat :=
  length (filter (fun o => match o with OOutput _ _ => true | _ => false end) t).

End Tape.
Arguments op : clear implicits.

(* ---- semantics ------------------------------------------------------------- *)
Inductive tchoice := TUnknown | TLeft | TRight | TBoth.

Record Sem (V I : Type) := {
  s_dflt : V;                       (* what fresh slots / outputs hold (NaN) *)
  s_imm : I -> V;
  s_un : uop -> V -> V;
  s_rr : bop -> V -> V -> V;
  s_ri : bop -> V -> I -> V;
  s_ir : bop -> I -> V -> V;
  (* the choice a tracing evaluator records for a choice opcode *)
  s_ch_rr : bop -> V -> V -> tchoice;
  s_ch_ri : bop -> V -> I -> tchoice;
}.
Arguments s_dflt {V I}. Arguments s_imm {V I}. Arguments s_un {V I}.
Arguments s_rr {V I}. Arguments s_ri {V I}. Arguments s_ir {V I}.
Arguments s_ch_rr {V I}. Arguments s_ch_ri {V I}.

Section Run.
Context {V I : Type}.
Variable sem : Sem V I.

Definition env := nat -> V.
Definition upd (e : env) (k : nat) (v : V) : env :=
  fun j => if Nat.eqb j k then v else e j.

Fixpoint list_upd {A} (l : list A) (k : nat) (v : A) : list A :=
  match l, k with
  | [], _ => []
  | _ :: xs, O => v :: xs
  | x :: xs, S k' => x :: list_upd xs k' v
  end.

Record mstate := { m_slots : env; m_out : list V; m_trace : list tchoice (* newest first *) }.

Definition set_slot (s : mstate) (k : nat) (v : V) : mstate :=
  {| m_slots := upd (m_slots s) k v; m_out := m_out s; m_trace := m_trace s |}.
Definition push_choice (s : mstate) (c : tchoice) : mstate :=
  {| m_slots := m_slots s; m_out := m_out s; m_trace := c :: m_trace s |}.

Definition step (inputs : list V) (s : mstate) (o : op I) : mstate :=
  let v := m_slots s in
  match o with
  | OOutput arg i =>
      {| m_slots := v; m_out := list_upd (m_out s) i (v arg); m_trace := m_trace s |}
  | OInput out i => set_slot s out (nth i inputs (s_dflt sem))
  | OCopyImm out imm => set_slot s out (s_imm sem imm)
  | OUn u out arg => set_slot s out (s_un sem u (v arg))
  | OBinRR b out l r =>
      let s' := set_slot s out (s_rr sem b (v l) (v r)) in
      if bop_has_choice b then push_choice s' (s_ch_rr sem b (v l) (v r)) else s'
  | OBinRI b out a imm =>
      let s' := set_slot s out (s_ri sem b (v a) imm) in
      if bop_has_choice b then push_choice s' (s_ch_ri sem b (v a) imm) else s'
  | OBinIR b out a imm => set_slot s out (s_ir sem b imm (v a))
  | OLoad r m => set_slot s r (v m)
  | OStore r m => set_slot s m (v r)
  end.

(* [ops] in evaluation order *)
Definition run_fwd (inputs : list V) (ops : list (op I)) (s : mstate) : mstate :=
  fold_left (step inputs) ops s.

Definition init_state (e0 : env) (out0 : list V) : mstate :=
  {| m_slots := e0; m_out := out0; m_trace := [] |}.

(* Tapes are stored root-first (reverse evaluation order), exactly as
   SsaTape::tape and RegTape::tape; iter_asm() is [rev]. *)
Definition eval_tape (tape : list (op I)) (inputs : list V) (e0 : env) (out0 : list V) : mstate :=
  run_fwd inputs (rev tape) (init_state e0 out0).

Definition fresh_out (n : nat) : list V := repeat (s_dflt sem) n.
Definition fresh_env : env := fun _ => s_dflt sem.

Definition eval_outputs (tape : list (op I)) (noutputs : nat) (inputs : list V) : list V :=
  m_out (eval_tape tape inputs fresh_env (fresh_out noutputs)).

(* trace in evaluation order (index j = j-th choice clause evaluated) *)
Definition eval_trace (tape : list (op I)) (noutputs : nat) (inputs : list V) : list tchoice :=
  rev (m_trace (eval_tape tape inputs fresh_env (fresh_out noutputs))).

End Run.
