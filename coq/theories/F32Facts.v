(* F32Facts.v — algebraic facts about the f32 model of F32.v:
   A. commutativity of add / mul / min / max  (used to discharge the commutation
      hypothesis of flatten_correct on the f32 semantics);
   B. soundness of the constant-folding rewrites of fidget's Context builder;
   C. of_bits / to_bits round trips.
   All equalities are Leibniz equalities on binary_float 24 128. *)
From Coq Require Import ZArith List Bool Lia Reals Psatz.
From Flocq Require Import Core.Core Core.Zaux Core.FLX.
From Flocq Require IEEE754.Binary IEEE754.Bits.
From Flocq Require Import IEEE754.BinarySingleNaN.
From FV Require Import F32 Ops Tape F32Sem.
Import ListNotations.
Open Scope Z_scope.

(* ------------------------------------------------------------------------- *)
(* A. commutativity                                                           *)
(* ------------------------------------------------------------------------- *)

Theorem fadd_comm : forall a b, fadd a b = fadd b a.
Proof.
  intros [sa|sa| |sa ma ea Ha] [sb|sb| |sb mb eb Hb]; try reflexivity;
    try (destruct sa, sb; reflexivity).
  unfold fadd, Bplus, Fplus_naive.
  rewrite (Z.min_comm eb ea). f_equal. apply Z.add_comm.
Qed.

Theorem fmul_comm : forall a b, fmul a b = fmul b a.
Proof.
  intros [sa|sa| |sa ma ea Ha] [sb|sb| |sb mb eb Hb]; try reflexivity;
    try (destruct sa, sb; reflexivity).
  unfold fmul, Bmult. apply B2SF_inj. rewrite !B2SF_SF2B.
  rewrite (xorb_comm sb sa), (Pos.mul_comm mb ma), (Z.add_comm eb ea). reflexivity.
Qed.

(* Bcompare = Some Eq means Leibniz-equal, except for zeros of opposite sign *)
Lemma Bcompare_Eq_inv (a b : f32) :
  Bcompare a b = Some Eq ->
  a = b \/ (exists sa sb, a = B754_zero sa /\ b = B754_zero sb).
Proof.
  destruct a as [sa|sa| |sa ma ea Ha], b as [sb|sb| |sb mb eb Hb];
    try (destruct sa; discriminate); try (destruct sb; discriminate); try discriminate.
  - right; eauto.
  - destruct sa, sb; try discriminate; auto.
  - intros H. left. apply B2SF_inj. simpl. revert H. unfold Bcompare; simpl.
    change (Pos.compare_cont Eq ma mb) with (Pos.compare ma mb).
    destruct sa, sb; try discriminate;
      (destruct (Z.compare_spec ea eb); try discriminate;
       destruct (Pos.compare_spec ma mb); try discriminate; congruence).
Qed.

Lemma fltb_compare a b : fltb a b = match Bcompare a b with Some Lt => true | _ => false end.
Proof. reflexivity. Qed.

Lemma Bcompare_None (a b : f32) : Bcompare a b = None <-> is_nanb a || is_nanb b = true.
Proof.
  destruct a as [sa|sa| |sa ma ea Ha], b as [sb|sb| |sb mb eb Hb]; simpl;
    unfold Bcompare; simpl; try (split; (reflexivity || discriminate));
    try (destruct sa; split; discriminate); try (destruct sb; split; discriminate).
Qed.

Theorem fmin_comm : forall a b, fst (fmin_choice a b) = fst (fmin_choice b a).
Proof.
  intros a b. unfold fmin_choice. rewrite !fltb_compare, (Bcompare_swap _ _ a b).
  rewrite (orb_comm (is_nanb b)).
  destruct (Bcompare a b) as [[| |]|] eqn:E; simpl; try reflexivity.
  - destruct (is_nanb a || is_nanb b); [reflexivity|].
    destruct (Bcompare_Eq_inv a b E) as [->|(sa & sb & -> & ->)].
    + destruct (signb b); reflexivity.
    + destruct sa, sb; reflexivity.
  - apply Bcompare_None in E. rewrite E. reflexivity.
Qed.

Theorem fmax_comm : forall a b, fst (fmax_choice a b) = fst (fmax_choice b a).
Proof.
  intros a b. unfold fmax_choice, fgtb. rewrite !fltb_compare, (Bcompare_swap _ _ a b).
  rewrite (orb_comm (is_nanb b)).
  destruct (Bcompare a b) as [[| |]|] eqn:E; simpl; try reflexivity.
  - destruct (is_nanb a || is_nanb b); [reflexivity|].
    destruct (Bcompare_Eq_inv a b E) as [->|(sa & sb & -> & ->)].
    + destruct (signb b); reflexivity.
    + destruct sa, sb; reflexivity.
  - apply Bcompare_None in E. rewrite E. reflexivity.
Qed.

Theorem f32_bin_comm : forall o b x y,
  In b [BAdd; BMul; BMin; BMax] -> f32_bin o b x y = f32_bin o b y x.
Proof.
  intros o b x y H. simpl in H.
  destruct H as [<-|[<-|[<-|[<-|[]]]]]; simpl.
  - apply fadd_comm.
  - apply fmul_comm.
  - apply fmin_comm.
  - apply fmax_comm.
Qed.

(* ------------------------------------------------------------------------- *)
(* B. the rewrites of fidget's Context builder                                *)
(* ------------------------------------------------------------------------- *)

(* equal up to the sign of zero *)
Definition eqz (a b : f32) : Prop := a = b \/ (is_zerob a = true /\ is_zerob b = true).
Definition finite (a : f32) : Prop := is_finite a = true.

Lemma eqz_refl a : eqz a a. Proof. left; reflexivity. Qed.
Lemma eqz_sym a b : eqz a b -> eqz b a.
Proof. intros [->|[H1 H2]]; [left|right]; auto. Qed.
Lemma eqz_trans a b c : eqz a b -> eqz b c -> eqz a c.
Proof.
  intros [->|[H1 H2]] [<-|[H3 H4]]; try (left; reflexivity); right; auto.
Qed.

Lemma is_zerob_spec (a : f32) : is_zerob a = true <-> exists s, a = B754_zero s.
Proof.
  split.
  - destruct a as [s|s| |s m e H]; try discriminate; eauto;
      destruct s; discriminate.
  - intros [s ->]. reflexivity.
Qed.

Lemma is_zerob_zero s : is_zerob (B754_zero s) = true. Proof. reflexivity. Qed.
Lemma is_zerob_nan : is_zerob fnan = false. Proof. reflexivity. Qed.
Lemma is_zerob_inf s : is_zerob (B754_infinity s) = false. Proof. destruct s; reflexivity. Qed.
Lemma is_zerob_finite s m e H : is_zerob (B754_finite s m e H) = false.
Proof. destruct s; reflexivity. Qed.

Lemma eqz_zero s t : eqz (B754_zero s) (B754_zero t).
Proof. right; split; reflexivity. Qed.

Ltac zz :=
  repeat match goal with s : bool |- _ => destruct s end;
  first [left; reflexivity | right; split; reflexivity].

(* explicit forms of the constants 1.0 and 2.0 *)
Definition mkf (s : bool) (m : positive) (e : Z) (H : SpecFloat.bounded 24 128 m e = true) : f32 :=
  B754_finite s m e H.
Definition fone_x : f32 := mkf false 8388608 (-23) eq_refl.
Definition ftwo : f32 := of_bits 1073741824.     (* 0x40000000 *)
Definition ftwo_x : f32 := mkf false 8388608 (-22) eq_refl.

Lemma fone_eq : fone = fone_x.
Proof. apply B2SF_inj. vm_compute. reflexivity. Qed.
Lemma ftwo_eq : ftwo = ftwo_x.
Proof. apply B2SF_inj. vm_compute. reflexivity. Qed.
Lemma B2R_fone_x : B2R fone_x = 1%R.
Proof. unfold fone_x, mkf, B2R, F2R. simpl. lra. Qed.
Lemma B2R_ftwo_x : B2R ftwo_x = 2%R.
Proof. unfold ftwo_x, mkf, B2R, F2R. simpl. lra. Qed.

Lemma finite_not_nan (x : f32) : is_finite x = true -> is_nan x = false.
Proof. destruct x; auto; discriminate. Qed.

Lemma round_B2R (x : f32) :
  round radix2 (SpecFloat.fexp 24 128) (round_mode mode_NE) (B2R x) = B2R x.
Proof. apply round_generic; [apply valid_rnd_N | apply generic_format_B2R]. Qed.

Lemma B2R_sign_finite (s : bool) m e H :
  if s then (B2R (mkf s m e H) < 0)%R else (0 < B2R (mkf s m e H))%R.
Proof.
  unfold mkf, B2R. destruct s; simpl.
  - apply F2R_lt_0. simpl. lia.
  - apply F2R_gt_0. simpl. lia.
Qed.

(* ---- add ---------------------------------------------------------------- *)

(* a + a = 2.0 * a, for every a (zeros, infinities, NaN, overflow included) *)
Theorem add_self : forall a, fadd a a = fmul (of_bits 1073741824) a.
Proof.
  intros a. fold ftwo. rewrite ftwo_eq.
  destruct a as [s|s| |s m e H]; try reflexivity; try (destruct s; reflexivity).
  set (x := B754_finite s m e H).
  assert (Fx : is_finite x = true) by reflexivity.
  generalize (Bplus_correct 24 128 Hprec Hmax mode_NE x x Fx Fx).
  generalize (Bmult_correct 24 128 Hprec Hmax mode_NE ftwo_x x).
  rewrite B2R_ftwo_x.
  replace (2 * B2R x)%R with (B2R x + B2R x)%R by ring.
  fold (fadd x x). fold (fmul ftwo_x x).
  destruct Rlt_bool.
  - intros (G1 & G2 & G3) (H1 & H2 & H3).
    apply B2R_Bsign_inj; auto.
    + congruence.
    + rewrite G3 by (apply finite_not_nan; auto). rewrite H3.
      generalize (B2R_sign_finite s m e H). unfold mkf. fold x.
      change (Bsign x) with s. change (Bsign ftwo_x) with false.
      generalize (B2R x). intros r.
      destruct (Rcompare_spec (r + r) 0); destruct s; auto; intros; lra.
  - intros G [H1 _]. apply B2SF_inj. rewrite G, H1. change (Bsign x) with s. destruct s; reflexivity.
Qed.

(* Context::add builds mul(a, 2.0) *)
Theorem add_self_r : forall a, fadd a a = fmul a (of_bits 1073741824).
Proof. intros. rewrite fmul_comm. apply add_self. Qed.

(* 0 + b = b up to the sign of zero; needs no finiteness *)
Theorem add_zero_l_z : forall z b, is_zerob z = true -> eqz (fadd z b) b.
Proof.
  intros z b Hz. apply is_zerob_spec in Hz. destruct Hz as [sz ->].
  destruct b as [s|s| |s m e H]; try (left; reflexivity).
  destruct sz, s; try (left; reflexivity); apply eqz_zero.
Qed.
Theorem add_zero_r_z : forall z a, is_zerob z = true -> eqz (fadd a z) a.
Proof. intros. rewrite fadd_comm. apply add_zero_l_z; auto. Qed.
Theorem add_zero_l : forall b, finite b -> eqz (fadd fzero b) b.
Proof. intros. apply add_zero_l_z. reflexivity. Qed.
Theorem add_zero_r : forall a, finite a -> eqz (fadd a fzero) a.
Proof. intros. apply add_zero_r_z. reflexivity. Qed.
(* the only case where the equality is not Leibniz: (+0) + (-0) = +0 *)
Lemma add_zero_l_not_leibniz_refuted : fadd fzero fnzero <> fnzero.
Proof. vm_compute. discriminate. Qed.
Theorem add_zero_l_exact : forall b, b <> fnzero -> fadd fzero b = b.
Proof.
  intros [s|s| |s m e H] Hb; try reflexivity.
  destruct s; [elim Hb|]; reflexivity.
Qed.

(* ---- mul ---------------------------------------------------------------- *)

Theorem mul_one_l : forall b, fmul fone b = b.
Proof.
  intros b. rewrite fone_eq.
  destruct b as [s|s| |s m e H]; try reflexivity; try (destruct s; reflexivity).
  set (x := B754_finite s m e H).
  generalize (Bmult_correct 24 128 Hprec Hmax mode_NE fone_x x).
  rewrite B2R_fone_x, Rmult_1_l, round_B2R.
  rewrite Rlt_bool_true by apply abs_B2R_lt_emax.
  fold (fmul fone_x x). intros (G1 & G2 & G3).
  apply B2R_Bsign_inj; auto.
  rewrite G3 by (apply finite_not_nan; auto). apply xorb_false_l.
Qed.
Theorem mul_one_r : forall a, fmul a fone = a.
Proof. intros. rewrite fmul_comm. apply mul_one_l. Qed.

Theorem mul_zero_l_z : forall z b, is_zerob z = true -> finite b -> eqz (fmul z b) z.
Proof.
  intros z b Hz Fb. apply is_zerob_spec in Hz. destruct Hz as [sz ->].
  destruct b as [s|s| |s m e H]; try discriminate; zz.
Qed.
Theorem mul_zero_r_z : forall z a, is_zerob z = true -> finite a -> eqz (fmul a z) z.
Proof. intros. rewrite fmul_comm. apply mul_zero_l_z; auto. Qed.
Theorem mul_zero_l : forall b, finite b -> eqz (fmul fzero b) fzero.
Proof. intros. apply mul_zero_l_z; auto. Qed.
Theorem mul_zero_r : forall a, finite a -> eqz (fmul a fzero) fzero.
Proof. intros. apply mul_zero_r_z; auto. Qed.
(* finiteness is necessary *)
Lemma mul_zero_l_inf_refuted : fmul fzero finf = fnan /\ fmul fzero fnan = fnan.
Proof. split; reflexivity. Qed.
(* the sign: Leibniz equality fails for negative b *)
Lemma mul_zero_l_not_leibniz_refuted : fmul fzero fnone = fnzero.
Proof. apply B2SF_inj. vm_compute. reflexivity. Qed.

(* a * a is what UnaryOpcode::Square computes *)
Theorem mul_self_square : forall o a, f32_bin o BMul a a = f32_un o USquare a.
Proof. reflexivity. Qed.

(* ---- sub ---------------------------------------------------------------- *)

Theorem sub_zero_l_z : forall z b, is_zerob z = true -> eqz (fsub z b) (fneg b).
Proof.
  intros z b Hz. apply is_zerob_spec in Hz. destruct Hz as [sz ->].
  destruct b as [s|s| |s m e H]; try (left; reflexivity). zz.
Qed.
Theorem sub_zero_l : forall b, finite b -> eqz (fsub fzero b) (fneg b).
Proof. intros. apply sub_zero_l_z. reflexivity. Qed.
Lemma sub_zero_l_not_leibniz_refuted : fsub fzero fzero = fzero /\ fneg fzero = fnzero.
Proof. split; reflexivity. Qed.
Theorem sub_zero_l_exact : forall b, is_zerob b = false -> fsub fzero b = fneg b.
Proof. intros [s|s| |s m e H] Hb; try reflexivity. discriminate. Qed.

Theorem sub_zero_r : forall a, fsub a fzero = a.
Proof. intros [s|s| |s m e H]; try reflexivity. destruct s; reflexivity. Qed.
Theorem sub_zero_r_z : forall z a, is_zerob z = true -> eqz (fsub a z) a.
Proof.
  intros z a Hz. apply is_zerob_spec in Hz. destruct Hz as [sz ->].
  destruct a as [s|s| |s m e H]; try (left; reflexivity); zz.
Qed.
Lemma sub_nzero_r_not_leibniz_refuted : fsub fnzero fnzero = fzero.
Proof. reflexivity. Qed.

(* ---- div ---------------------------------------------------------------- *)

Theorem div_zero_l_z : forall z b,
  is_zerob z = true -> is_nanb b = false -> is_zerob b = false -> eqz (fdiv z b) z.
Proof.
  intros z b Hz Nb Zb. apply is_zerob_spec in Hz. destruct Hz as [sz ->].
  destruct b as [s|s| |s m e H]; try discriminate; zz.
Qed.
Theorem div_zero_l : forall b, finite b -> is_zerob b = false -> eqz (fdiv fzero b) fzero.
Proof.
  intros b Fb Zb. apply div_zero_l_z; auto. apply finite_not_nan, Fb.
Qed.
Lemma div_zero_l_refuted : fdiv fzero fzero = fnan /\ fdiv fzero fnan = fnan.
Proof. split; reflexivity. Qed.

Theorem div_one_r : forall a, fdiv a fone = a.
Proof.
  intros a. rewrite fone_eq.
  destruct a as [s|s| |s m e H]; try reflexivity; try (destruct s; reflexivity).
  set (x := B754_finite s m e H).
  assert (N1 : B2R fone_x <> 0%R) by (rewrite B2R_fone_x; lra).
  generalize (Bdiv_correct 24 128 Hprec Hmax mode_NE x fone_x N1).
  rewrite B2R_fone_x. unfold Rdiv. rewrite Rinv_1, Rmult_1_r, round_B2R.
  rewrite Rlt_bool_true by apply abs_B2R_lt_emax.
  fold (fdiv x fone_x). intros (G1 & G2 & G3).
  apply B2R_Bsign_inj; auto.
  rewrite G3 by (apply finite_not_nan; rewrite G2; reflexivity).
  simpl. apply xorb_false_r.
Qed.

(* ---- min / max ---------------------------------------------------------- *)

Lemma fltb_irrefl a : fltb a a = false.
Proof.
  rewrite fltb_compare.
  destruct (Bcompare a a) as [[| |]|] eqn:E; auto.
  generalize (Bcompare_swap _ _ a a). rewrite E. discriminate.
Qed.

Theorem min_self : forall a, fst (fmin_choice a a) = a.
Proof.
  intros a. unfold fmin_choice. rewrite fltb_irrefl.
  destruct a as [s|s| |s m e H]; simpl; try reflexivity; destruct s; reflexivity.
Qed.
Theorem max_self : forall a, fst (fmax_choice a a) = a.
Proof.
  intros a. unfold fmax_choice, fgtb. rewrite fltb_irrefl.
  destruct a as [s|s| |s m e H]; simpl; try reflexivity; destruct s; reflexivity.
Qed.

(* ---- and / or ----------------------------------------------------------- *)

Theorem and_const_l : forall c b, fst (fand_choice c b) = if is_zerob c then c else b.
Proof. intros. unfold fand_choice. destruct (is_zerob c); reflexivity. Qed.
Theorem or_const_l : forall c b, fst (for_choice c b) = if negb (is_zerob c) then c else b.
Proof. intros. unfold for_choice. destruct (is_zerob c); reflexivity. Qed.
Theorem and_zero_l_z : forall z b, is_zerob z = true -> fst (fand_choice z b) = z.
Proof. intros z b H. rewrite and_const_l, H. reflexivity. Qed.
Theorem and_nonzero_l : forall c b, is_zerob c = false -> fst (fand_choice c b) = b.
Proof. intros c b H. rewrite and_const_l, H. reflexivity. Qed.
Theorem or_zero_l_z : forall z b, is_zerob z = true -> fst (for_choice z b) = b.
Proof. intros z b H. rewrite or_const_l, H. reflexivity. Qed.
Theorem or_nonzero_l : forall c b, is_zerob c = false -> fst (for_choice c b) = c.
Proof. intros c b H. rewrite or_const_l, H. reflexivity. Qed.

Theorem or_zero_r_z : forall z a, is_zerob z = true -> eqz (fst (for_choice a z)) a.
Proof.
  intros z a Hz. rewrite or_const_l.
  destruct (is_zerob a) eqn:Ea; simpl; [right; auto | left; reflexivity].
Qed.
Theorem or_zero_r : forall a, eqz (fst (for_choice a fzero)) a.
Proof. intros. apply or_zero_r_z. reflexivity. Qed.
(* and(a, 0): the result is a zero whenever a is; when a is non-zero it is the constant *)
Theorem and_zero_r_z : forall z a, is_zerob z = true -> is_zerob (fst (fand_choice a z)) = true.
Proof.
  intros z a Hz. rewrite and_const_l. destruct (is_zerob a) eqn:Ea; auto.
Qed.

(* ------------------------------------------------------------------------- *)
(* C. of_bits / to_bits round trips                                           *)
(* ------------------------------------------------------------------------- *)

Lemma to_bits_B2BSN (g : Binary.binary_float 24 128) :
  Binary.is_nan 24 128 g = false -> to_bits (Binary.B2BSN 24 128 g) = Bits.bits_of_b32 g.
Proof.
  destruct g as [s|s|s pl Hpl|s m e H]; try discriminate; intros _.
  - destruct s; reflexivity.
  - destruct s; reflexivity.
  - unfold Bits.bits_of_b32, Bits.bits_of_binary_float, Bits.join_bits. simpl Binary.B2BSN. unfold to_bits.
    rewrite !Z.shiftl_mul_pow2 by lia.
    change (2 ^ 23) with 8388608. change (2 ^ 8) with 256. change (SpecFloat.emin (23 + 1) (2 ^ (8 - 1))) with (-149).
    destruct (Z.ltb_spec (Z.pos m) 8388608), (Zle_bool_spec 0 (Z.pos m - 8388608)); try lia; destruct s; lia.
Qed.

Lemma bits_range32 (g : Binary.binary_float 24 128) : 0 <= Bits.bits_of_b32 g < 4294967296.
Proof. apply (Bits.bits_of_binary_float_range 23 8); reflexivity. Qed.

Lemma to_bits_range f : 0 <= to_bits f < 4294967296.
Proof.
  destruct (is_nan f) eqn:N.
  - destruct f; try discriminate. simpl. lia.
  - rewrite <- (Binary.B2BSN_BSN2B' 24 128 f N).
    rewrite to_bits_B2BSN by apply Binary.is_nan_BSN2B'. apply bits_range32.
Qed.

Theorem of_bits_to_bits : forall f, of_bits (to_bits f) = f.
Proof.
  intros f. destruct (is_nan f) eqn:N.
  - destruct f; try discriminate. vm_compute. reflexivity.
  - unfold of_bits. rewrite Z.mod_small by apply to_bits_range.
    rewrite <- (Binary.B2BSN_BSN2B' 24 128 f N) at 1.
    rewrite to_bits_B2BSN by apply Binary.is_nan_BSN2B'.
    unfold Bits.b32_of_bits, Bits.bits_of_b32.
    rewrite Bits.binary_float_of_bits_of_binary_float.
    apply Binary.B2BSN_BSN2B'.
Qed.

Theorem to_bits_of_bits : forall z, 0 <= z < 4294967296 ->
  is_nanb (of_bits z) = false -> to_bits (of_bits z) = z.
Proof.
  intros z Hz N. unfold of_bits in *. rewrite Z.mod_small in * by lia.
  unfold is_nanb in N. rewrite Binary.is_nan_B2BSN in N.
  rewrite to_bits_B2BSN by exact N.
  apply (Bits.bits_of_binary_float_of_bits 23 8); try reflexivity. exact Hz.
Qed.

Theorem of_bits_nan_iff : forall z, 0 <= z < 4294967296 ->
  (is_nanb (of_bits z) = true <-> 2139095040 < z mod 2147483648).
Proof.
  intros z Hz. unfold of_bits, is_nanb. rewrite Z.mod_small by lia.
  rewrite Binary.is_nan_B2BSN. unfold Bits.b32_of_bits, Bits.binary_float_of_bits.
  rewrite Binary.is_nan_FF2B.
  unfold Bits.binary_float_of_bits_aux, Bits.split_bits.
  change (2 ^ 8 - 1) with 255.
  change (2 ^ 23) with 8388608. change (2 ^ 8) with 256.
  assert (E : z mod 2147483648 = z mod 8388608 + 8388608 * ((z / 8388608) mod 256)).
  { change 2147483648 with (8388608 * 256). apply Z.rem_mul_r; lia. }
  rewrite E.
  generalize (Z.mod_pos_bound z 8388608 eq_refl).
  generalize (Z.mod_pos_bound (z / 8388608) 256 eq_refl).
  generalize (z mod 8388608) ((z / 8388608) mod 256). intros mx ex Hex Hmx.
  destruct (Zeq_bool_spec ex 0) as [->|E0]; [|destruct (Zeq_bool_spec ex 255) as [->|E1]].
  - destruct mx; simpl; split; (discriminate || lia).
  - destruct mx; simpl; split; (discriminate || lia || auto).
  - destruct (mx + 8388608) eqn:Em; cbv [Binary.is_nan_FF]; split; (discriminate || lia).
Qed.

Corollary to_bits_of_bits_pattern : forall z, 0 <= z < 4294967296 ->
  z mod 2147483648 <= 2139095040 -> to_bits (of_bits z) = z.
Proof.
  intros z Hz Hp. apply to_bits_of_bits; auto.
  destruct (is_nanb (of_bits z)) eqn:N; auto.
  apply of_bits_nan_iff in N; auto. lia.
Qed.

(* NaN patterns are canonicalised, so the round trip fails exactly there *)
Corollary to_bits_of_bits_nan : forall z, 0 <= z < 4294967296 ->
  2139095040 < z mod 2147483648 -> to_bits (of_bits z) = 2143289344.
Proof.
  intros z Hz Hp. apply of_bits_nan_iff in Hp; auto.
  unfold is_nanb in Hp. destruct (of_bits z); try discriminate. reflexivity.
Qed.
Lemma to_bits_of_bits_nan_refuted : to_bits (of_bits 2139095041) <> 2139095041.
Proof. vm_compute. discriminate. Qed.

(* of_bits ignores everything above bit 31 *)
Lemma of_bits_mod z : of_bits (z mod 4294967296) = of_bits z.
Proof. unfold of_bits. rewrite Z.mod_mod by lia. reflexivity. Qed.

Print Assumptions fadd_comm.
Print Assumptions fmul_comm.
Print Assumptions fmin_comm.
Print Assumptions fmax_comm.
Print Assumptions f32_bin_comm.
Print Assumptions add_self.
Print Assumptions add_zero_l_z.
Print Assumptions mul_one_l.
Print Assumptions mul_zero_l_z.
Print Assumptions sub_zero_l_z.
Print Assumptions sub_zero_r.
Print Assumptions div_zero_l_z.
Print Assumptions div_one_r.
Print Assumptions min_self.
Print Assumptions max_self.
Print Assumptions or_zero_r_z.
Print Assumptions of_bits_to_bits.
Print Assumptions to_bits_of_bits.
Print Assumptions of_bits_nan_iff.
