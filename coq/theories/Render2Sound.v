(* Render2Sound.v — the tiled 2D renderer of Render2.v computes the same
   image as per-pixel evaluation.

   Part 1  list/Z-index lemmas, tile-size lemmas (shared with Render3Sound)
   Part 2  region-wise reasoning about loops over a buffer (shared)
   Part 3  the 2D renderer                                              *)

From Coq Require Import List ZArith Bool Lia FinFun.
From FV Require Import Render2.
Import ListNotations.
Open Scope Z_scope.

Set Implicit Arguments.

(** * Part 1: lists indexed by Z *)

Lemma zrange_In n i : In i (zrange n) <-> 0 <= i < n.
Proof.
  unfold zrange. rewrite in_map_iff. split.
  - intros (k & <- & Hk). apply in_seq in Hk. lia.
  - intros H. exists (Z.to_nat i). split; [lia|]. apply in_seq. lia.
Qed.

Lemma zrange_length n : length (zrange n) = Z.to_nat n.
Proof. unfold zrange. now rewrite map_length, seq_length. Qed.

Lemma zrange_NoDup n : NoDup (zrange n).
Proof.
  unfold zrange. apply FinFun.Injective_map_NoDup.
  - intros a b H. lia.
  - apply seq_NoDup.
Qed.

Lemma zrange_nonpos n : n <= 0 -> zrange n = [].
Proof. intros. unfold zrange. replace (Z.to_nat n) with O by lia. reflexivity. Qed.

Lemma zlength_nonneg A (l : list A) : 0 <= zlength l.
Proof. unfold zlength. lia. Qed.

Lemma zlength_cons A (a : A) l : zlength (a :: l) = zlength l + 1.
Proof. unfold zlength. simpl length. lia. Qed.

Lemma upd_length A (l : list A) i v : length (upd l i v) = length l.
Proof.
  revert i. induction l as [|a l IH]; intros i; simpl; [reflexivity|].
  destruct (i =? 0); simpl; [reflexivity|]. now rewrite IH.
Qed.

Lemma znth_upd_eq A (l : list A) i v d :
  0 <= i < zlength l -> znth (upd l i v) i d = v.
Proof.
  revert i. induction l as [|a l IH]; intros i Hi.
  - unfold zlength in Hi. simpl in Hi. lia.
  - rewrite zlength_cons in Hi. simpl.
    destruct (i =? 0) eqn:E; simpl; rewrite E; [reflexivity|].
    apply IH. apply Z.eqb_neq in E. lia.
Qed.

Lemma znth_upd_neq A (l : list A) i j v d :
  i <> j -> znth (upd l i v) j d = znth l j d.
Proof.
  revert i j. induction l as [|a l IH]; intros i j Hij; simpl; [reflexivity|].
  destruct (i =? 0) eqn:E; simpl.
  - apply Z.eqb_eq in E. destruct (j =? 0) eqn:E'; [|reflexivity].
    apply Z.eqb_eq in E'. lia.
  - destruct (j =? 0); [reflexivity|]. apply IH. lia.
Qed.

Lemma znth_nth A (l : list A) i d : 0 <= i -> znth l i d = nth (Z.to_nat i) l d.
Proof.
  revert i. induction l as [|a l IH]; intros i Hi; simpl.
  - now destruct (Z.to_nat i).
  - destruct (i =? 0) eqn:E.
    + apply Z.eqb_eq in E. subst. reflexivity.
    + apply Z.eqb_neq in E. rewrite IH by lia.
      replace (Z.to_nat i) with (S (Z.to_nat (i - 1))) by lia. reflexivity.
Qed.

Lemma nth_repeat' A (a : A) n i d : (i < n)%nat -> nth i (repeat a n) d = a.
Proof.
  revert i. induction n as [|n IH]; intros i Hi; [lia|].
  destruct i; simpl; [reflexivity|]. apply IH. lia.
Qed.

Lemma znth_repeat A (a : A) n i d : 0 <= i < Z.of_nat n -> znth (repeat a n) i d = a.
Proof. intros Hi. rewrite znth_nth by lia. apply nth_repeat'. lia. Qed.

Lemma znth_map A B (f : A -> B) l i d d' :
  0 <= i < zlength l -> znth (map f l) i d = f (znth l i d').
Proof.
  intros Hi. unfold zlength in Hi. rewrite !znth_nth by lia.
  rewrite nth_indep with (d' := f d') by (rewrite map_length; lia).
  apply map_nth.
Qed.

Lemma znth_zrange n i d : 0 <= i < n -> znth (zrange n) i d = i.
Proof.
  intros Hi. rewrite znth_nth by lia. unfold zrange.
  rewrite nth_indep with (d' := Z.of_nat 0) by (rewrite map_length, seq_length; lia).
  rewrite map_nth, seq_nth by lia. lia.
Qed.

Lemma list_ext_nth A (l l' : list A) d :
  length l = length l' ->
  (forall i, (i < length l)%nat -> nth i l d = nth i l' d) -> l = l'.
Proof.
  revert l'. induction l as [|a l IH]; intros [|a' l'] Hlen H; simpl in Hlen; try lia.
  - reflexivity.
  - f_equal.
    + apply (H O). simpl. lia.
    + apply IH; [lia|]. intros i Hi. apply (H (S i)). simpl. lia.
Qed.

Lemma list_ext_znth A (l l' : list A) d :
  length l = length l' ->
  (forall i, 0 <= i < zlength l -> znth l i d = znth l' i d) -> l = l'.
Proof.
  intros Hlen H. apply list_ext_nth with (d := d); [assumption|].
  intros i Hi. specialize (H (Z.of_nat i)). rewrite !znth_nth in H by lia.
  rewrite Nat2Z.id in H. apply H. unfold zlength. lia.
Qed.

(* blocks of constant length: element j*n+i of a flat_map *)
Lemma nth_flat_map_const A B (f : A -> list B) (n : nat) l d a0 j i :
  (forall a, length (f a) = n) -> (i < n)%nat -> (j < length l)%nat ->
  nth (j * n + i) (flat_map f l) d = nth i (f (nth j l a0)) d.
Proof.
  intros Hf Hi. revert j. induction l as [|a l IH]; intros j Hj; simpl in Hj; [lia|].
  simpl flat_map. destruct j.
  - simpl. rewrite app_nth1 by (rewrite Hf; lia). reflexivity.
  - rewrite app_nth2 by (rewrite Hf; simpl; lia). rewrite Hf.
    replace (S j * n + i - n)%nat with (j * n + i)%nat by (simpl; lia).
    simpl nth. apply IH. lia.
Qed.

Lemma flat_map_const_length A B (f : A -> list B) (n : nat) l :
  (forall a, length (f a) = n) -> length (flat_map f l) = (length l * n)%nat.
Proof.
  intros Hf. induction l as [|a l IH]; simpl; [reflexivity|].
  rewrite app_length, Hf, IH. reflexivity.
Qed.

Lemma znth_grid B (g : Z -> Z -> B) m n j i d :
  0 <= i < n -> 0 <= j < m ->
  znth (flat_map (fun j => map (fun i => g j i) (zrange n)) (zrange m)) (j * n + i) d
  = g j i.
Proof.
  intros Hi Hj. rewrite znth_nth by nia.
  replace (Z.to_nat (j * n + i)) with (Z.to_nat j * Z.to_nat n + Z.to_nat i)%nat by nia.
  rewrite nth_flat_map_const with (a0 := 0) (n := Z.to_nat n).
  - rewrite <- !znth_nth by lia. rewrite znth_zrange by lia.
    erewrite znth_map with (d' := 0).
    + rewrite znth_zrange by lia. reflexivity.
    + unfold zlength. rewrite zrange_length. lia.
  - intros a. now rewrite map_length, zrange_length.
  - lia.
  - rewrite zrange_length. lia.
Qed.

(** ** Tile sizes *)

(* accepted by TileSizes::new (current code, commit 382060e), for sizes that
   are usize *)
Definition ts_valid (l : list Z) : Prop :=
  tile_sizes_new l = Some l /\ Forall (fun s => 0 <= s) l.

(* accepted by TileSizes::new before commit 382060e *)
Definition ts_valid_old (l : list Z) : Prop :=
  tile_sizes_new_old l = Some l /\ Forall (fun s => 0 <= s) l.

(* what the renderers need: every size positive, each divisible by the next *)
Fixpoint chain (l : list Z) : Prop :=
  match l with
  | [] => True
  | a :: r => 0 < a /\ match r with [] => True | b :: _ => b < a /\ a mod b = 0 end /\ chain r
  end.

Lemma tile_sizes_check_chain a l :
  0 <= a -> Forall (fun s => 0 <= s) l -> tile_sizes_check a l = true ->
  match l with [] => True | b :: _ => b < a /\ is_multiple_of a b = true end /\
  (l <> [] -> chain (a :: l)).
Proof.
  revert a. induction l as [|b l IH]; intros a Ha Hl H.
  - split; [exact I|]. congruence.
  - simpl in H. destruct (a <=? b) eqn:E; [discriminate|].
    destruct (is_multiple_of a b) eqn:M; simpl in H; [|discriminate].
    apply Z.leb_gt in E. inversion Hl as [|? ? Hb Hl']; subst.
    split; [split; [lia|reflexivity]|]. intros _.
    destruct (IH b Hb Hl' H) as [Hhd Hch].
    assert (Hbpos : 0 < b).
    { destruct l as [|c l]; [|inversion Hl'; subst; destruct Hhd; lia].
      (* b is the last entry: a > b >= 0 and a is a multiple of b, so b <> 0 *)
      unfold is_multiple_of in M. destruct (b =? 0) eqn:B; [|apply Z.eqb_neq in B; lia].
      apply Z.eqb_eq in M. lia. }
    assert (Hmod : a mod b = 0).
    { unfold is_multiple_of in M. destruct (b =? 0) eqn:B.
      - apply Z.eqb_eq in B. lia.
      - now apply Z.eqb_eq in M. }
    simpl. split; [lia|]. split; [split; [lia|exact Hmod]|].
    destruct l as [|c l].
    + simpl. split; [lia|]. split; exact I.
    + apply Hch. discriminate.
Qed.

(* BEFORE commit 382060e, TileSizes::new guaranteed: non-empty; and either the
   list is exactly [0] (accepted by the old code!) or it is a positive
   divisibility chain. *)
Theorem tile_sizes_new_old_guarantee l :
  ts_valid_old l -> l <> [] /\ (l = [0] \/ chain l).
Proof.
  intros [H Hnn]. destruct l as [|a l]; [discriminate|]. split; [discriminate|].
  simpl in H. destruct (tile_sizes_check a l) eqn:C; [|discriminate].
  inversion Hnn as [|? ? Ha Hl]; subst.
  destruct (tile_sizes_check_chain Ha Hl C) as [_ Hch].
  destruct l as [|b l].
  - destruct (Z.eq_dec a 0); [left; congruence|right]. simpl. split; [lia|]. split; exact I.
  - right. apply Hch. discriminate.
Qed.

(* [0] really was accepted by the old code; render_tiles then computed
   width.div_ceil(0), a division by zero panic in Rust. *)
Lemma tile_sizes_new_zero_accepted : tile_sizes_new_old [0] = Some [0].
Proof. reflexivity. Qed.

(* REFUTED for the old code: "TileSizes::new guarantees that every tile size
   is positive" *)
Lemma ts_valid_positive_refuted :
  ~ (forall l, ts_valid_old l -> Forall (fun s => 0 < s) l).
Proof.
  intros H. specialize (H [0]). assert (Hv : ts_valid_old [0]).
  { split; [reflexivity|]. constructor; [lia|constructor]. }
  specialize (H Hv). inversion H. lia.
Qed.

(* the current code = the old code + "no entry is 0" *)
Lemma tile_sizes_new_split l :
  tile_sizes_new l = Some l <->
  existsb (fun t => t =? 0) l = false /\ tile_sizes_new_old l = Some l.
Proof.
  destruct l as [|a l]; [simpl; split; [discriminate|intros [_ H]; discriminate]|].
  unfold tile_sizes_new, tile_sizes_new_old.
  destruct (existsb (fun t => t =? 0) (a :: l)); [split; [discriminate|intros [H _]; discriminate]|].
  tauto.
Qed.

Lemma tile_sizes_new_zero_rejected l : In 0 l -> tile_sizes_new l = None.
Proof.
  intros H. destruct l as [|a l]; [reflexivity|]. unfold tile_sizes_new.
  replace (existsb (fun t => t =? 0) (a :: l)) with true; [reflexivity|].
  symmetry. apply existsb_exists. exists 0. split; [exact H|reflexivity].
Qed.

Lemma ts_valid_old_of_new l : ts_valid l -> ts_valid_old l.
Proof. intros [H Hnn]. apply tile_sizes_new_split in H. split; tauto. Qed.

Lemma chain_positive l : chain l -> Forall (fun s => 0 < s) l.
Proof.
  induction l as [|a l IH]; intros H; constructor; simpl in H; [tauto|]. apply IH. tauto.
Qed.

(* TileSizes::new (current code) guarantees: non-empty, every size positive,
   strictly descending, each size divisible by the next ([chain]). *)
Theorem tile_sizes_new_guarantee l :
  ts_valid l -> l <> [] /\ Forall (fun s => 0 < s) l /\ chain l.
Proof.
  intros Hv. pose proof (ts_valid_old_of_new Hv) as Hold.
  destruct (tile_sizes_new_old_guarantee Hold) as [Hne [E|Hch]].
  - subst l. destruct Hv as [H _]. discriminate.
  - split; [exact Hne|]. split; [now apply chain_positive|exact Hch].
Qed.

Lemma ts_valid_chain l : ts_valid l -> chain l.
Proof. intros Hv. now destruct (tile_sizes_new_guarantee Hv) as (_ & _ & H). Qed.

Lemma ts_valid_last_pos l : ts_valid l -> 0 < last l 0.
Proof.
  intros Hv. destruct (tile_sizes_new_guarantee Hv) as (Hne & Hpos & _).
  rewrite Forall_forall in Hpos. apply Hpos.
  destruct l as [|a l]; [congruence|]. clear. revert a.
  induction l as [|b l IH]; intros a; [now left|]. right. apply IH.
Qed.

Lemma chain_tail a l : chain (a :: l) -> chain l.
Proof. simpl. tauto. Qed.

Lemma chain_skipn n l : chain l -> chain (skipn n l).
Proof.
  revert l. induction n as [|n IH]; intros l H; [exact H|].
  destruct l as [|a l]; [exact I|]. simpl skipn. apply IH. eapply chain_tail; eauto.
Qed.

Lemma position_bound A (f : A -> bool) l i : position f l = Some i -> (i < length l)%nat.
Proof.
  revert i. induction l as [|a l IH]; intros i H; simpl in H; [discriminate|].
  destruct (f a); [inversion H; simpl; lia|].
  destruct (position f l) as [k|]; [|discriminate]. inversion H; subst.
  specialize (IH k eq_refl). simpl. lia.
Qed.

(* TileSizesRef::new returns a non-empty suffix *)
Theorem tile_sizes_ref_suffix l m :
  l <> [] ->
  exists pre, l = pre ++ tile_sizes_ref l m /\ tile_sizes_ref l m <> [].
Proof.
  intros Hne. unfold tile_sizes_ref.
  set (i := match position _ l with Some i => i | None => length l end).
  assert (Hi : (i - 1 < length l)%nat).
  { subst i. destruct (position (fun t => t <? m) l) eqn:E.
    - apply position_bound in E. lia.
    - destruct l; [congruence|]. simpl. lia. }
  exists (firstn (i - 1) l). split.
  - symmetry. apply firstn_skipn.
  - intros H. apply (f_equal (@length Z)) in H. rewrite skipn_length in H. simpl in H. lia.
Qed.

(* ... that still satisfies TileSizes' guarantee *)
Lemma tile_sizes_check_tail a b l :
  tile_sizes_check a (b :: l) = true -> tile_sizes_check b l = true.
Proof.
  simpl. destruct (a <=? b); [discriminate|].
  destruct (is_multiple_of a b); simpl; [auto|discriminate].
Qed.

Lemma ts_valid_old_skipn n l :
  ts_valid_old l -> skipn n l <> [] -> ts_valid_old (skipn n l).
Proof.
  revert l. induction n as [|n IH]; intros l Hv Hne; [exact Hv|].
  destruct l as [|a l]; [exact Hv|]. simpl skipn in *. apply IH; [|exact Hne].
  destruct Hv as [H Hnn]. inversion Hnn; subst.
  destruct l as [|b l]; [destruct n; simpl in Hne; congruence|].
  split; [|assumption].
  simpl in H. simpl.
  destruct (a <=? b); [discriminate|].
  destruct (is_multiple_of a b); simpl in H; [|discriminate].
  destruct (tile_sizes_check b l); [reflexivity|discriminate].
Qed.

Lemma existsb_skipn_false A (f : A -> bool) n l :
  existsb f l = false -> existsb f (skipn n l) = false.
Proof.
  revert l. induction n as [|n IH]; intros l H; [exact H|].
  destruct l as [|a l]; [reflexivity|]. simpl in *. apply orb_false_iff in H. apply IH. tauto.
Qed.

Lemma ts_valid_skipn n l : ts_valid l -> skipn n l <> [] -> ts_valid (skipn n l).
Proof.
  intros Hv Hne. pose proof (ts_valid_old_skipn n (ts_valid_old_of_new Hv) Hne) as [Ho Hnn].
  destruct Hv as [H _]. apply tile_sizes_new_split in H.
  split; [|exact Hnn]. apply tile_sizes_new_split. split; [|exact Ho].
  apply existsb_skipn_false. tauto.
Qed.

Theorem tile_sizes_ref_valid l m : ts_valid l -> ts_valid (tile_sizes_ref l m).
Proof.
  intros Hv. assert (Hne : l <> []) by (destruct Hv as [H _]; destruct l; [discriminate|congruence]).
  destruct (tile_sizes_ref_suffix m Hne) as (pre & _ & Hne').
  unfold tile_sizes_ref in *. now apply ts_valid_skipn.
Qed.

Lemma last_skipn (l : list Z) n d : skipn n l <> [] -> last (skipn n l) d = last l d.
Proof.
  revert l. induction n as [|n IH]; intros l H; [reflexivity|].
  destruct l as [|a l]; [reflexivity|]. simpl skipn in *.
  rewrite IH by assumption. destruct l; [destruct n; simpl in H; congruence|reflexivity].
Qed.

Theorem tile_sizes_ref_chain l m :
  ts_valid l ->
  let r := tile_sizes_ref l m in r <> [] /\ chain r /\ 0 < hd 0 r.
Proof.
  intros Hv r.
  assert (Hne : l <> []) by (destruct Hv as [H _]; destruct l; [discriminate|congruence]).
  destruct (tile_sizes_ref_suffix m Hne) as (pre & _ & Hne'). fold r in Hne'.
  assert (Hc : chain r) by (apply chain_skipn, ts_valid_chain; assumption).
  split; [assumption|]. split; [assumption|].
  destruct r; [congruence|]. simpl in *. tauto.
Qed.

(** ** div_ceil and root tiles *)

Lemma div_ceil_cover a b x : 0 < b -> 0 <= x < a -> 0 <= x / b < div_ceil a b.
Proof.
  intros Hb Hx. split; [apply Z.div_pos; lia|]. unfold div_ceil.
  pose proof (Z.div_mod a b ltac:(lia)) as Ha.
  pose proof (Z.mod_pos_bound a b Hb) as Hr.
  destruct (0 <? a mod b) eqn:E.
  - apply Z.ltb_lt in E. apply Z.div_lt_upper_bound; [lia|]. nia.
  - apply Z.ltb_ge in E. apply Z.div_lt_upper_bound; [lia|]. nia.
Qed.

Lemma root_tiles_In t0 w h c :
  In c (root_tiles t0 w h) <->
  exists i j, 0 <= i < div_ceil w t0 /\ 0 <= j < div_ceil h t0 /\ c = (i * t0, j * t0).
Proof.
  unfold root_tiles. rewrite in_flat_map. split.
  - intros (i & Hi & Hc). apply in_map_iff in Hc. destruct Hc as (j & <- & Hj).
    apply zrange_In in Hi. apply zrange_In in Hj. eauto.
  - intros (i & j & Hi & Hj & ->). exists i. split; [now apply zrange_In|].
    apply in_map_iff. exists j. split; [reflexivity|now apply zrange_In].
Qed.

Lemma NoDup_app' A (l l' : list A) :
  NoDup l -> NoDup l' -> (forall a, In a l -> ~ In a l') -> NoDup (l ++ l').
Proof.
  induction 1 as [|a l Hnin Hnd IH]; intros Hl' Hd; [exact Hl'|].
  simpl. constructor.
  - rewrite in_app_iff. intros [H|H]; [contradiction|]. apply (Hd a); simpl; auto.
  - apply IH; [exact Hl'|]. intros b Hb. apply Hd. simpl; auto.
Qed.

Lemma NoDup_flat_map A B (f : A -> list B) l :
  NoDup l -> (forall a, In a l -> NoDup (f a)) ->
  (forall a a' b, In a l -> In a' l -> In b (f a) -> In b (f a') -> a = a') ->
  NoDup (flat_map f l).
Proof.
  induction 1 as [|a l Hnin Hnd IH]; intros Hf Hd; simpl; [constructor|].
  apply NoDup_app'.
  - apply Hf. simpl; auto.
  - apply IH; [intros; apply Hf; simpl; auto|].
    intros a1 a2 b H1 H2. apply Hd; simpl; auto.
  - intros b Hb Hin. apply in_flat_map in Hin. destruct Hin as (a' & Ha' & Hb').
    assert (a = a') by (apply (Hd a a' b); simpl; auto). subst. contradiction.
Qed.

Lemma root_tiles_NoDup t0 w h : 0 < t0 -> NoDup (root_tiles t0 w h).
Proof.
  intros Ht. unfold root_tiles. apply NoDup_flat_map.
  - apply zrange_NoDup.
  - intros i _. apply Injective_map_NoDup; [|apply zrange_NoDup].
    intros j j' H. inversion H. nia.
  - intros i i' b _ _ H1 H2. apply in_map_iff in H1, H2.
    destruct H1 as (j & <- & _), H2 as (j' & H2 & _). inversion H2. nia.
Qed.

Lemma Forall2_znth A B (R : A -> B -> Prop) l l' d d' :
  length l = length l' ->
  (forall i, 0 <= i < zlength l -> R (znth l i d) (znth l' i d')) -> Forall2 R l l'.
Proof.
  revert l'. induction l as [|a l IH]; intros [|a' l'] Hlen H; simpl in Hlen; try lia.
  - constructor.
  - constructor.
    + apply (H 0). rewrite zlength_cons. pose proof (zlength_nonneg l). lia.
    + apply IH; [lia|]. intros i Hi. specialize (H (i + 1)).
      rewrite zlength_cons in H. simpl in H.
      replace (i + 1 =? 0) with false in H by (symmetry; apply Z.eqb_neq; lia).
      replace (i + 1 - 1) with i in H by lia. apply H. lia.
Qed.


(** * Part 2: loops that write disjoint regions of a buffer *)

Definition peqb (p q : Z * Z) : bool := (fst p =? fst q) && (snd p =? snd q).

Lemma peqb_true p q : peqb p q = true <-> p = q.
Proof.
  unfold peqb. destruct p, q. simpl. rewrite andb_true_iff, !Z.eqb_eq.
  split; [intros []; congruence|intros H; inversion H; auto].
Qed.

(* half-open pixel footprint of a tile *)
Definition in_tile (c : Z * Z) (s : Z) (p : Z * Z) : bool :=
  (fst c <=? fst p) && (fst p <? fst c + s) && (snd c <=? snd p) && (snd p <? snd c + s).

Lemma in_tile_true c s p :
  in_tile c s p = true <->
  fst c <= fst p < fst c + s /\ snd c <= snd p < snd c + s.
Proof.
  unfold in_tile. rewrite !andb_true_iff, !Z.leb_le, !Z.ltb_lt. tauto.
Qed.

Section Regions.
  Variables (S X B : Type).
  Variable at_ : S -> Z * Z -> X.
  Variable good : S -> Prop.
  Variable dom : Z * Z -> Prop.
  Variables Pre Post : Z * Z -> X -> Prop.

  (* [s'] is [s] with the pixels of region [R] brought to [Post] *)
  Definition step_ok (R : Z * Z -> bool) (s s' : S) : Prop :=
    good s' /\
    forall p, dom p ->
      (R p = true -> Post p (at_ s' p)) /\ (R p = false -> at_ s' p = at_ s p).

  Lemma step_ok_ext (R R' : Z * Z -> bool) s s' :
    (forall p, dom p -> R p = R' p) -> step_ok R s s' -> step_ok R' s s'.
  Proof.
    intros E [Hg H]. split; [exact Hg|]. intros p Hp. rewrite <- (E p Hp). now apply H.
  Qed.

  Fixpoint disj (R : B -> Z * Z -> bool) (l : list B) : Prop :=
    match l with
    | [] => True
    | x :: r =>
        (forall p, dom p -> R x p = true -> existsb (fun x' => R x' p) r = false)
        /\ disj R r
    end.

  Lemma fold_regions (f : S -> B -> S) (R : B -> Z * Z -> bool) l :
    disj R l ->
    (forall x s, In x l -> good s ->
       (forall p, dom p -> R x p = true -> Pre p (at_ s p)) ->
       step_ok (R x) s (f s x)) ->
    forall s, good s ->
      (forall p, dom p -> existsb (fun x => R x p) l = true -> Pre p (at_ s p)) ->
      step_ok (fun p => existsb (fun x => R x p) l) s (fold_left f l s).
  Proof.
    induction l as [|x l IH]; intros Hd Hstep s Hg Hpre.
    - split; [exact Hg|]. intros p _. split; [discriminate|reflexivity].
    - destruct Hd as [Hdx Hd]. simpl fold_left.
      assert (H1 : step_ok (R x) s (f s x)).
      { apply Hstep; [now left|exact Hg|]. intros p Hp Hr. apply Hpre; [exact Hp|].
        simpl. now rewrite Hr. }
      destruct H1 as [Hg1 H1].
      assert (H2 : step_ok (fun p => existsb (fun x => R x p) l) (f s x) (fold_left f l (f s x))).
      { apply IH; [exact Hd| |exact Hg1|].
        - intros x' s' Hin. apply Hstep. now right.
        - intros p Hp Hex. destruct (R x p) eqn:Hr.
          + rewrite (Hdx p Hp Hr) in Hex. discriminate.
          + rewrite (proj2 (H1 p Hp) Hr). apply Hpre; [exact Hp|].
            simpl. now rewrite Hex, orb_true_r. }
      destruct H2 as [Hg2 H2]. split; [exact Hg2|]. intros p Hp. simpl.
      destruct (H2 p Hp) as [H2a H2b]. destruct (H1 p Hp) as [H1a H1b].
      destruct (existsb (fun x0 => R x0 p) l) eqn:Hex.
      + rewrite orb_true_r. split; [auto|discriminate].
      + rewrite orb_false_r. rewrite H2b by reflexivity. split; assumption.
  Qed.

  (* from NoDup + pairwise disjointness *)
  Lemma disj_of_NoDup (R : B -> Z * Z -> bool) l :
    NoDup l ->
    (forall x x' p, In x l -> In x' l -> dom p -> R x p = true -> R x' p = true -> x = x') ->
    disj R l.
  Proof.
    induction 1 as [|x l Hnin Hnd IH]; intros Hd; [exact I|]. split.
    - intros p Hp Hr. destruct (existsb (fun x' => R x' p) l) eqn:E; [|reflexivity].
      apply existsb_exists in E. destruct E as (x' & Hin & Hr').
      assert (x = x') by (apply (Hd x x' p); simpl; auto). subst. contradiction.
    - apply IH. intros x1 x2 p H1 H2. apply Hd; simpl; auto.
  Qed.
  (* same, with uniqueness of a key *)
  Lemma disj_of_NoDup_key (K : Type) (key : B -> K) (R : B -> Z * Z -> bool) l :
    NoDup (map key l) ->
    (forall x x' p, In x l -> In x' l -> dom p -> R x p = true -> R x' p = true ->
                    key x = key x') ->
    disj R l.
  Proof.
    induction l as [|x l IH]; intros Hnd Hd; [exact I|].
    simpl in Hnd. inversion Hnd as [|? ? Hnin Hnd']; subst. split.
    - intros p Hp Hr. destruct (existsb (fun x' => R x' p) l) eqn:E; [|reflexivity].
      apply existsb_exists in E. destruct E as (x' & Hin & Hr').
      assert (key x = key x') by (apply (Hd x x' p); simpl; auto).
      exfalso. apply Hnin. rewrite H. now apply in_map.
    - apply IH; [exact Hnd'|]. intros x1 x2 p H1 H2. apply Hd; simpl; auto.
  Qed.
End Regions.

(* a double loop `for j in 0..s { for i in 0..s { .. } }` over a tile whose
   (j,i) step touches exactly pixel (cx+i, cy+j) *)
Section Grid.
  Variables (S X : Type).
  Variable at_ : S -> Z * Z -> X.
  Variable good : S -> Prop.
  Variable dom : Z * Z -> Prop.
  Variables Pre Post : Z * Z -> X -> Prop.

  Lemma existsb_row cx y s p :
    existsb (fun i => peqb p (cx + i, y)) (zrange s) =
    (cx <=? fst p) && (fst p <? cx + s) && (snd p =? y).
  Proof.
    apply eq_true_iff_eq. rewrite existsb_exists, !andb_true_iff, Z.leb_le, Z.ltb_lt, Z.eqb_eq.
    split.
    - intros (i & Hi & Hp). apply zrange_In in Hi. apply peqb_true in Hp. subst p. simpl. lia.
    - intros [[H1 H2] H3]. exists (fst p - cx). split; [apply zrange_In; lia|].
      apply peqb_true. destruct p; simpl in *. f_equal; lia.
  Qed.

  Lemma existsb_grid c s p :
    existsb (fun j => existsb (fun i => peqb p (fst c + i, snd c + j)) (zrange s)) (zrange s)
    = in_tile c s p.
  Proof.
    apply eq_true_iff_eq. rewrite existsb_exists, in_tile_true. split.
    - intros (j & Hj & H). rewrite existsb_row in H. apply zrange_In in Hj.
      rewrite !andb_true_iff, Z.leb_le, Z.ltb_lt, Z.eqb_eq in H. lia.
    - intros H. exists (snd p - snd c). split; [apply zrange_In; lia|].
      rewrite existsb_row, !andb_true_iff, Z.leb_le, Z.ltb_lt, Z.eqb_eq. lia.
  Qed.

  Lemma grid_loop (stepf : S -> Z -> Z -> S) c s st :
    (forall st i j, 0 <= i < s -> 0 <= j < s -> good st ->
       (dom (fst c + i, snd c + j) ->
        Pre (fst c + i, snd c + j) (at_ st (fst c + i, snd c + j))) ->
       step_ok at_ good dom Post (fun p => peqb p (fst c + i, snd c + j)) st (stepf st j i)) ->
    good st ->
    (forall p, dom p -> in_tile c s p = true -> Pre p (at_ st p)) ->
    step_ok at_ good dom Post (in_tile c s) st
      (fold_left (fun st j => fold_left (fun st i => stepf st j i) (zrange s) st) (zrange s) st).
  Proof.
    intros Hstep Hg Hpre.
    eapply step_ok_ext; [intros p _; apply existsb_grid|].
    apply fold_regions with (Pre := Pre)
      (R := fun j p => existsb (fun i => peqb p (fst c + i, snd c + j)) (zrange s)).
    - apply disj_of_NoDup; [apply zrange_NoDup|].
      intros j j' p _ _ _ H1 H2. rewrite existsb_row in H1, H2.
      rewrite !andb_true_iff, Z.eqb_eq in H1, H2. lia.
    - intros j st' Hj Hg' Hpre'. apply zrange_In in Hj.
      apply fold_regions with (Pre := Pre) (R := fun i p => peqb p (fst c + i, snd c + j)).
      + apply disj_of_NoDup; [apply zrange_NoDup|].
        intros i i' p _ _ _ H1 H2. apply peqb_true in H1, H2. subst p. inversion H2. lia.
      + intros i st'' Hi Hg'' Hpre''. apply zrange_In in Hi. apply Hstep; try assumption.
        intros Hd. apply Hpre''; [assumption|]. now apply peqb_true.
      + exact Hg'.
      + intros p Hp Hex. apply Hpre'; assumption.
    - exact Hg.
    - intros p Hp Hex. apply Hpre; [exact Hp|]. now rewrite <- existsb_grid.
  Qed.
End Grid.

(** * Part 3: the 2D renderer *)

(* x mod t0 for x in the root tile at [rx, rx+t0) *)
Lemma mod_in_root t0 rx x : 0 < t0 -> rx mod t0 = 0 -> rx <= x < rx + t0 -> x mod t0 = x - rx.
Proof.
  intros Ht Hr Hx. apply Z.mod_divide in Hr; [|lia]. destruct Hr as [q ->].
  replace x with ((x - q * t0) + q * t0) at 1 by lia.
  rewrite Z_mod_plus_full. apply Z.mod_small. lia.
Qed.

Section Sound2.
  Variables (tape trace ires V : Type).
  Variable ieval : tape -> Z * Z -> Z -> ires * option trace.
  Variable i_upper_neg : ires -> bool.
  Variable i_lower_pos : ires -> bool.
  Variable simplify : tape -> trace -> tape.
  Variable feval : tape -> Z * Z -> V.
  Variable vdefault : V.
  Variable neg : V -> bool.             (* value < 0 *)
  Variable posv : V -> bool.            (* value > 0 *)

  (* the closed box [cx, cx+s] x [cy, cy+s] handed to the interval evaluator *)
  Definition in_cbox (c : Z * Z) (s : Z) (p : Z * Z) : Prop :=
    fst c <= fst p <= fst c + s /\ snd c <= snd p <= snd c + s.

  Hypothesis H_posv : forall v, posv v = true -> neg v = false.
  Hypothesis H_encl_neg : forall t c s p,
      in_cbox c s p -> i_upper_neg (fst (ieval t c s)) = true -> neg (feval t p) = true.
  Hypothesis H_encl_pos : forall t c s p,
      in_cbox c s p -> i_lower_pos (fst (ieval t c s)) = true -> posv (feval t p) = true.
  Hypothesis H_simp : forall t c s tr p,
      snd (ieval t c s) = Some tr -> in_cbox c s p ->
      feval (simplify t tr) p = feval t p.

  Variable pixel_perfect : bool.
  Variable root : tape.

  Notation pix := (pixel V).
  Notation pdefault := (pdefault vdefault).

  (* what a correct pixel at position p looks like *)
  Definition pix_ok (p : Z * Z) (px : pix) : Prop :=
    match px with
    | Dist v => v = feval root p
    | Fill ins _ => pixel_perfect = false /\ ins = neg (feval root p)
    end.

  Definition PreT : Z * Z -> pix -> Prop := fun _ _ => True.

  (** ** One root tile *)
  Section RootTile.
    Variable t0 : Z.
    Variables rx ry : Z.
    Hypothesis Ht0 : 0 < t0.
    Hypothesis Hrx : rx mod t0 = 0.
    Hypothesis Hry : ry mod t0 = 0.

    Definition bat (img : list pix) (p : Z * Z) : pix := znth img (pixel_offset t0 p) pdefault.
    Definition bgood (img : list pix) : Prop := zlength img = t0 * t0.
    Definition bdom (p : Z * Z) : Prop := rx <= fst p < rx + t0 /\ ry <= snd p < ry + t0.

    Notation bstep := (step_ok bat bgood bdom pix_ok).

    Lemma pixel_offset_root p : bdom p -> pixel_offset t0 p = (fst p - rx) + (snd p - ry) * t0.
    Proof.
      intros [Hx Hy]. unfold pixel_offset.
      rewrite (mod_in_root Ht0 Hrx Hx), (mod_in_root Ht0 Hry Hy). reflexivity.
    Qed.

    (* no write is out of bounds *)
    Lemma pixel_offset_in_bounds p : bdom p -> 0 <= pixel_offset t0 p < t0 * t0.
    Proof. intros H. rewrite pixel_offset_root by assumption. destruct H. nia. Qed.

    Lemma pixel_offset_inj p q : bdom p -> bdom q -> pixel_offset t0 p = pixel_offset t0 q -> p = q.
    Proof.
      intros Hp Hq. rewrite !pixel_offset_root by assumption.
      destruct Hp as [Hp1 Hp2], Hq as [Hq1 Hq2], p as [px py], q as [qx qy]. simpl in *.
      intros Heq. assert (py = qy) by nia. f_equal; nia.
    Qed.

    (* a single `image[o] = v` *)
    Lemma upd_bstep img q v :
      bgood img -> bdom q -> pix_ok q v ->
      bstep (fun p => peqb p q) img (upd img (pixel_offset t0 q) v).
    Proof.
      intros Hg Hq Hv. split.
      - unfold bgood, zlength in *. now rewrite upd_length.
      - intros p Hp. split.
        + intros E. apply peqb_true in E. subst p. unfold bat.
          rewrite znth_upd_eq; [exact Hv|]. rewrite Hg. now apply pixel_offset_in_bounds.
        + intros E. unfold bat. apply znth_upd_neq. intros Heq.
          apply pixel_offset_inj in Heq; try assumption. subst q.
          assert (peqb p p = true) by now apply peqb_true. congruence.
    Qed.

    Definition tile_in_root (c : Z * Z) (s : Z) : Prop :=
      rx <= fst c /\ fst c + s <= rx + t0 /\ ry <= snd c /\ snd c + s <= ry + t0.

    (* for j { o = pixel_offset(corner + (0,j)); for i { image[o+i] = val j i } } *)
    Lemma write_tile (val : Z -> Z -> pix) c s img :
      tile_in_root c s -> bgood img ->
      (forall i j, 0 <= i < s -> 0 <= j < s -> pix_ok (fst c + i, snd c + j) (val j i)) ->
      bstep (in_tile c s) img
        (fold_left (fun img j =>
           fold_left (fun img i =>
             upd img (pixel_offset t0 (fst c + 0, snd c + j) + i) (val j i))
             (zrange s) img)
           (zrange s) img).
    Proof.
      intros Hin Hg Hval.
      apply grid_loop with (Pre := PreT)
        (stepf := fun img j i => upd img (pixel_offset t0 (fst c + 0, snd c + j) + i) (val j i)).
      - intros st i j Hi Hj Hg' _.
        assert (Hd : bdom (fst c + i, snd c + j)) by (unfold bdom, tile_in_root in *; simpl; lia).
        assert (Hd0 : bdom (fst c + 0, snd c + j)) by (unfold bdom, tile_in_root in *; simpl; lia).
        replace (pixel_offset t0 (fst c + 0, snd c + j) + i)
          with (pixel_offset t0 (fst c + i, snd c + j))
          by (rewrite !pixel_offset_root by assumption; simpl; lia).
        apply upd_bstep; auto.
      - exact Hg.
      - intros; exact I.
    Qed.

    (* the tape agrees with the root tape on the closed box of the tile *)
    Definition agree (t : tape) (c : Z * Z) (s : Z) : Prop :=
      forall p, in_cbox c s p -> feval t p = feval root p.

    Lemma render_tile_pixels_ok t c s img :
      0 < s -> tile_in_root c s -> agree t c s -> bgood img ->
      bstep (in_tile c s) img (render_tile_pixels feval vdefault t0 t s c img).
    Proof.
      intros Hs Hin Hag Hg. unfold render_tile_pixels.
      apply write_tile with
        (val := fun j i => Dist (znth (map (feval t)
                  (flat_map (fun j => map (fun i => (fst c + i, snd c + j)) (zrange s)) (zrange s)))
                  (j * s + i) vdefault)); try assumption.
      intros i j Hi Hj. simpl.
      erewrite znth_map with (d' := (0, 0)).
      - rewrite znth_grid with (g := fun j i => (fst c + i, snd c + j)) by assumption.
        apply Hag. unfold in_cbox. simpl. lia.
      - unfold zlength.
        rewrite flat_map_const_length with (n := Z.to_nat s)
          by (intros; now rewrite map_length, zrange_length).
        rewrite zrange_length. nia.
    Qed.

    Lemma fill_tile_ok c s img ins depth :
      tile_in_root c s -> bgood img ->
      (forall p, in_cbox c s p -> pix_ok p (Fill ins depth)) ->
      bstep (in_tile c s) img
        (fold_left (fun image y =>
           let start := pixel_offset t0 (fst c + 0, snd c + y) in
           fill_range image start s (Fill ins depth)) (zrange s) img).
    Proof.
      intros Hin Hg Hok. unfold fill_range.
      apply write_tile with (val := fun _ _ => Fill ins depth); try assumption.
      intros i j Hi Hj. apply Hok. unfold in_cbox. simpl. lia.
    Qed.

    (* sub-tiles partition the tile *)
    Lemma existsb_subtiles c s next n p :
      0 < next -> s = n * next ->
      existsb (fun j => existsb (fun i => in_tile (fst c + i * next, snd c + j * next) next p)
                                (zrange n)) (zrange n)
      = in_tile c s p.
    Proof.
      intros Hn Hs. apply eq_true_iff_eq. rewrite existsb_exists, in_tile_true. split.
      - intros (j & Hj & H). apply existsb_exists in H. destruct H as (i & Hi & H).
        apply zrange_In in Hi, Hj. apply in_tile_true in H. simpl in H. nia.
      - intros [Hx Hy].
        assert (Hdx := Z.div_mod (fst p - fst c) next ltac:(lia)).
        assert (Hdy := Z.div_mod (snd p - snd c) next ltac:(lia)).
        assert (Hmx := Z.mod_pos_bound (fst p - fst c) next Hn).
        assert (Hmy := Z.mod_pos_bound (snd p - snd c) next Hn).
        exists ((snd p - snd c) / next). split; [apply zrange_In; nia|].
        apply existsb_exists. exists ((fst p - fst c) / next). split; [apply zrange_In; nia|].
        apply in_tile_true. simpl. nia.
    Qed.

    Lemma recurse_cons s rest depth t c img :
      render_tile_recurse ieval i_upper_neg i_lower_pos simplify feval vdefault
        pixel_perfect t0 (s :: rest) depth t c img =
      let '(i, simp) := ieval t c s in
      let pixel : option pix :=
        if negb pixel_perfect then
          if i_upper_neg i then Some (Fill true depth)
          else if i_lower_pos i then Some (Fill false depth)
          else None
        else None in
      match pixel with
      | Some fill =>
          fold_left (fun image y =>
            let start := pixel_offset t0 (fst c + 0, snd c + y) in
            fill_range image start s fill) (zrange s) img
      | None =>
          let sub_tape := match simp with Some tr => simplify t tr | None => t end in
          match rest with
          | next :: _ =>
              let n := s / next in
              fold_left (fun image j =>
                fold_left (fun image i =>
                  render_tile_recurse ieval i_upper_neg i_lower_pos simplify feval vdefault
                    pixel_perfect t0 rest (S depth) sub_tape
                    (fst c + i * next, snd c + j * next) image)
                  (zrange n) image)
                (zrange n) img
          | [] => render_tile_pixels feval vdefault t0 sub_tape s c img
          end
      end.
    Proof. reflexivity. Qed.

    Lemma agree_sub t c s :
      agree t c s ->
      agree (match snd (ieval t c s) with Some tr => simplify t tr | None => t end) c s.
    Proof.
      intros Hag p Hp. destruct (snd (ieval t c s)) eqn:E; [|now apply Hag].
      rewrite (@H_simp t c s _ p E Hp). now apply Hag.
    Qed.

    Lemma agree_mono t c s c' s' :
      agree t c s ->
      fst c <= fst c' -> fst c' + s' <= fst c + s ->
      snd c <= snd c' -> snd c' + s' <= snd c + s -> agree t c' s'.
    Proof. intros Hag ? ? ? ? p [Hx Hy]. apply Hag. unfold in_cbox. lia. Qed.

    (* Worker::render_tile_recurse brings exactly the tile's pixels to pix_ok *)
    Lemma render_tile_recurse_ok sizes :
      chain sizes -> sizes <> [] ->
      forall depth t c img,
        tile_in_root c (hd 0 sizes) -> agree t c (hd 0 sizes) -> bgood img ->
        bstep (in_tile c (hd 0 sizes)) img
          (render_tile_recurse ieval i_upper_neg i_lower_pos simplify feval vdefault
             pixel_perfect t0 sizes depth t c img).
    Proof.
      induction sizes as [|s rest IH]; intros Hch Hne depth t c img Hin Hag Hg; [congruence|].
      simpl hd in *. rewrite recurse_cons.
      pose proof (agree_sub Hag) as Hsub.
      destruct (ieval t c s) as [i simp] eqn:E. simpl snd in Hsub.
      assert (Hfillneg : i_upper_neg i = true -> forall p, in_cbox c s p -> neg (feval root p) = true).
      { intros Hi p Hp. rewrite <- (Hag p Hp). apply (@H_encl_neg t c s p Hp). now rewrite E. }
      assert (Hfillpos : i_lower_pos i = true -> forall p, in_cbox c s p -> neg (feval root p) = false).
      { intros Hi p Hp. rewrite <- (Hag p Hp). apply H_posv. apply (@H_encl_pos t c s p Hp). now rewrite E. }
      assert (Hrec :
        bstep (in_tile c s) img
          (match rest with
           | next :: _ =>
               let n := s / next in
               fold_left (fun image j =>
                 fold_left (fun image i =>
                   render_tile_recurse ieval i_upper_neg i_lower_pos simplify feval vdefault
                     pixel_perfect t0 rest (S depth)
                     (match simp with Some tr => simplify t tr | None => t end)
                     (fst c + i * next, snd c + j * next) image)
                   (zrange n) image)
                 (zrange n) img
           | [] => render_tile_pixels feval vdefault t0
                     (match simp with Some tr => simplify t tr | None => t end) s c img
           end)).
      { destruct Hch as (Hs & Hnext & Hch').
        destruct rest as [|next rest'].
        - apply render_tile_pixels_ok; assumption.
        - destruct Hnext as [Hlt Hmod].
          assert (Hnpos : 0 < next) by (simpl in Hch'; tauto).
          set (n := s / next).
          assert (Hsn : s = n * next).
          { subst n. pose proof (Z.div_mod s next ltac:(lia)). lia. }
          cbv zeta. fold n.
          eapply step_ok_ext; [intros p _; apply (@existsb_subtiles c s next n p Hnpos Hsn)|].
          apply fold_regions with (Pre := PreT)
            (R := fun j p => existsb (fun i => in_tile (fst c + i * next, snd c + j * next) next p)
                                     (zrange n)).
          + apply disj_of_NoDup; [apply zrange_NoDup|].
            intros j j' p _ _ _ H1 H2.
            apply existsb_exists in H1, H2. destruct H1 as (i1 & _ & H1), H2 as (i2 & _ & H2).
            apply in_tile_true in H1, H2. simpl in H1, H2. nia.
          + intros j st Hj Hg' _. apply zrange_In in Hj.
            apply fold_regions with (Pre := PreT)
              (R := fun i p => in_tile (fst c + i * next, snd c + j * next) next p).
            * apply disj_of_NoDup; [apply zrange_NoDup|].
              intros i1 i2 p _ _ _ H1 H2. apply in_tile_true in H1, H2. simpl in H1, H2. nia.
            * intros i' st' Hi Hg'' _. apply zrange_In in Hi.
              apply (IH Hch' ltac:(discriminate)); simpl hd.
              -- unfold tile_in_root in *. simpl. nia.
              -- eapply agree_mono; [exact Hsub|simpl..]; nia.
              -- exact Hg''.
            * exact Hg'.
            * intros; exact I.
          + exact Hg.
          + intros; exact I. }
      destruct (negb pixel_perfect) eqn:PP; cbv iota.
      - apply negb_true_iff in PP. destruct (i_upper_neg i) eqn:Un.
        + apply fill_tile_ok; try assumption. intros p Hp. simpl. split; [exact PP|].
          symmetry. now apply Hfillneg.
        + destruct (i_lower_pos i) eqn:Lp.
          * apply fill_tile_ok; try assumption. intros p Hp. simpl. split; [exact PP|].
            symmetry. now apply Hfillpos.
          * exact Hrec.
      - exact Hrec.
    Qed.
  End RootTile.

  (** ** Worker::render_tile *)

  Lemma zlength_repeat A (a : A) n : 0 <= n -> zlength (repeat a (Z.to_nat n)) = n.
  Proof. intros. unfold zlength. rewrite repeat_length. lia. Qed.

  Lemma render_tile_ok sizes rx ry :
    chain sizes -> sizes <> [] ->
    let t0 := hd 0 sizes in
    rx mod t0 = 0 -> ry mod t0 = 0 ->
    let data := render_tile ieval i_upper_neg i_lower_pos simplify feval vdefault
                  pixel_perfect sizes root (rx, ry) in
    zlength data = t0 * t0 /\
    forall p, bdom t0 rx ry p -> pix_ok p (znth data (pixel_offset t0 p) pdefault).
  Proof.
    intros Hch Hne t0 Hrx Hry data.
    assert (Ht0 : 0 < t0) by (subst t0; destruct sizes; [congruence|simpl in *; tauto]).
    destruct (@render_tile_recurse_ok t0 rx ry Ht0 Hrx Hry sizes Hch Hne 0%nat root (rx, ry)
                (repeat pdefault (Z.to_nat (t0 * t0)))) as [Hg H].
    - unfold tile_in_root. fold t0. simpl. lia.
    - intros p _. reflexivity.
    - unfold bgood. apply zlength_repeat. nia.
    - split; [exact Hg|]. intros p Hp. apply (H p Hp).
      apply in_tile_true. fold t0. unfold bdom in Hp. simpl. lia.
  Qed.

  (** ** The assembly loop of pixel::render *)
  Section Assemble.
    Variables t0 w h : Z.
    Hypothesis Ht0 : 0 < t0.
    Hypothesis Hw : 0 < w.
    Hypothesis Hh : 0 < h.

    Definition iat (img : list pix) (p : Z * Z) : pix := znth img (snd p * w + fst p) pdefault.
    Definition igood (img : list pix) : Prop := zlength img = w * h.
    Definition idom (p : Z * Z) : Prop := 0 <= fst p < w /\ 0 <= snd p < h.

    Notation istep := (step_ok iat igood idom pix_ok).

    (* a tile together with its rendered buffer, as returned by render_tiles *)
    Definition tile_data_ok (td : (Z * Z) * list pix) : Prop :=
      (exists i j, 0 <= i /\ 0 <= j /\ fst td = (i * t0, j * t0)) /\
      forall i j, 0 <= i < t0 -> 0 <= j < t0 ->
        pix_ok (fst (fst td) + i, snd (fst td) + j) (znth (snd td) (j * t0 + i) pdefault).

    Lemma assemble_tile_ok tile data img :
      tile_data_ok (tile, data) -> igood img ->
      istep (in_tile tile t0) img
        (fold_left (fun image j =>
           let y := j + snd tile in
           fold_left (fun image i =>
             let x := i + fst tile in
             if (y <? h) && (x <? w)
             then upd image (y * w + x) (znth data (j * t0 + i) pdefault)
             else image)
             (zrange t0) image)
           (zrange t0) img).
    Proof.
      intros [(ti & tj & Hti & Htj & Htile) Hdata] Hg. simpl in Htile, Hdata.
      apply grid_loop with (Pre := PreT)
        (stepf := fun image j i =>
           if (j + snd tile <? h) && (i + fst tile <? w)
           then upd image ((j + snd tile) * w + (i + fst tile)) (znth data (j * t0 + i) pdefault)
           else image).
      - intros st i j Hi Hj Hg' _.
        destruct ((j + snd tile <? h) && (i + fst tile <? w)) eqn:C.
        + apply andb_true_iff in C. destruct C as [Cy Cx].
          apply Z.ltb_lt in Cy, Cx. subst tile. simpl in *.
          assert (Hb : 0 <= (j + tj * t0) * w + (i + ti * t0) < w * h) by nia.
          split.
          * unfold igood, zlength in *. now rewrite upd_length.
          * intros p Hp. split.
            -- intros E. apply peqb_true in E. subst p. unfold iat. simpl.
               replace ((tj * t0 + j) * w + (ti * t0 + i)) with ((j + tj * t0) * w + (i + ti * t0)) by lia.
               rewrite znth_upd_eq by (rewrite Hg'; exact Hb). apply Hdata; assumption.
            -- intros E. unfold iat. apply znth_upd_neq. intros Heq.
               destruct Hp as [Hpx Hpy]. destruct p as [px py]. simpl in *.
               assert (py = j + tj * t0) by nia.
               assert (px = i + ti * t0) by nia. subst.
               unfold peqb in E. simpl in E.
               rewrite andb_false_iff, !Z.eqb_neq in E. lia.
        + split; [exact Hg'|]. intros p Hp. split; [|reflexivity].
          intros E. apply peqb_true in E. subst p. destruct Hp as [Hpx Hpy]. simpl in *.
          apply andb_false_iff in C. rewrite !Z.ltb_ge in C. lia.
      - exact Hg.
      - intros; exact I.
    Qed.

    Lemma assemble_ok tiles :
      NoDup (map fst tiles) ->
      (forall td, In td tiles -> tile_data_ok td) ->
      istep (fun p => existsb (fun td => in_tile (fst td) t0 p) tiles)
        (repeat pdefault (Z.to_nat (w * h)))
        (assemble vdefault t0 w h tiles).
    Proof.
      intros Hnd Hok. unfold assemble.
      apply fold_regions with (Pre := PreT) (R := fun td p => in_tile (fst td) t0 p).
      - apply disj_of_NoDup_key with (key := @fst (Z * Z) (list pix)); [exact Hnd|].
        intros td td' p H1 H2 _ Hp1 Hp2.
        destruct (Hok td H1) as [(i1 & j1 & ? & ? & E1) _].
        destruct (Hok td' H2) as [(i2 & j2 & ? & ? & E2) _].
        apply in_tile_true in Hp1, Hp2. rewrite E1 in Hp1. rewrite E2 in Hp2. simpl in *.
        assert (i1 = i2) by nia. assert (j1 = j2) by nia. subst. congruence.
      - intros [tile data] st Hin Hg _. apply assemble_tile_ok; [now apply Hok|exact Hg].
      - unfold igood. apply zlength_repeat. nia.
      - intros; exact I.
    Qed.
  End Assemble.
  (** ** pixel::render *)

  Notation render2' := (render2 ieval i_upper_neg i_lower_pos simplify feval vdefault pixel_perfect).

  (* MAIN THEOREM (2D).  [tiles] is any list accepted by TileSizes::new; the
     image size is arbitrary (>= 1 x 1, not necessarily a multiple of a tile
     size). *)
  Theorem render2_correct tiles w h :
    ts_valid tiles -> 0 < w -> 0 < h ->
    let img := render2' tiles w h root in
    zlength img = w * h /\
    forall x y, 0 <= x < w -> 0 <= y < h -> pix_ok (x, y) (znth img (y * w + x) pdefault).
  Proof.
    intros Hv Hw Hh img.
    destruct (tile_sizes_ref_chain (Z.max w h) Hv) as (Hne & Hch & Ht0).
    set (sizes := tile_sizes_ref tiles (Z.max w h)) in *.
    set (t0 := hd 0 sizes) in *.
    assert (Hass := @assemble_ok t0 w h Ht0 Hw Hh
                      (render_tiles ieval i_upper_neg i_lower_pos simplify feval vdefault
                         pixel_perfect sizes w h root)).
    unfold render_tiles in Hass. fold t0 in Hass.
    destruct Hass as [Hg H].
    - rewrite map_map. simpl. rewrite map_id. now apply root_tiles_NoDup.
    - intros td Hin. apply in_map_iff in Hin. destruct Hin as (tile & <- & Hin).
      apply root_tiles_In in Hin. destruct Hin as (i & j & Hi & Hj & ->).
      split; [exists i, j; simpl; repeat split; lia|]. simpl fst. simpl snd.
      intros a b Ha Hb.
      assert (Hrx : (i * t0) mod t0 = 0) by apply Z_mod_mult.
      assert (Hry : (j * t0) mod t0 = 0) by apply Z_mod_mult.
      destruct (@render_tile_ok sizes (i * t0) (j * t0) Hch Hne Hrx Hry) as [_ Hp].
      fold t0 in Hp.
      assert (Hd : bdom t0 (i * t0) (j * t0) (i * t0 + a, j * t0 + b))
        by (unfold bdom; simpl; lia).
      specialize (Hp _ Hd).
      rewrite (pixel_offset_root Ht0 Hrx Hry Hd) in Hp. simpl in Hp.
      replace (i * t0 + a - i * t0 + (j * t0 + b - j * t0) * t0) with (b * t0 + a) in Hp by lia.
      exact Hp.
    - split; [exact Hg|]. intros x y Hx Hy.
      assert (Hd : idom w h (x, y)) by (unfold idom; simpl; lia).
      destruct (H (x, y) Hd) as [Hok _]. apply Hok.
      apply existsb_exists.
      exists ((x / t0 * t0, y / t0 * t0),
              render_tile ieval i_upper_neg i_lower_pos simplify feval vdefault
                pixel_perfect sizes root (x / t0 * t0, y / t0 * t0)).
      split.
      + apply in_map_iff. exists (x / t0 * t0, y / t0 * t0). split; [reflexivity|].
        apply root_tiles_In. exists (x / t0), (y / t0).
        split; [apply div_ceil_cover; lia|]. split; [apply div_ceil_cover; lia|reflexivity].
      + apply in_tile_true. simpl.
        pose proof (Z.div_mod x t0 ltac:(lia)). pose proof (Z.mod_pos_bound x t0 Ht0).
        pose proof (Z.div_mod y t0 ltac:(lia)). pose proof (Z.mod_pos_bound y t0 Ht0). nia.
  Qed.

  (* pixel-perfect mode: every pixel is exactly the point value *)
  Corollary render2_pixel_perfect tiles w h x y :
    ts_valid tiles -> 0 < w -> 0 < h -> pixel_perfect = true ->
    0 <= x < w -> 0 <= y < h ->
    znth (render2' tiles w h root) (y * w + x) pdefault = Dist (feval root (x, y)).
  Proof.
    intros Hv Hw Hh PP Hx Hy.
    destruct (render2_correct Hv Hw Hh) as [_ H]. specialize (H x y Hx Hy).
    destruct (znth _ _ _); simpl in H; [destruct H; congruence|now subst].
  Qed.

  (* either mode: Dist of the point value, or a Fill of the right sign *)
  Corollary render2_cases tiles w h x y :
    ts_valid tiles -> 0 < w -> 0 < h ->
    0 <= x < w -> 0 <= y < h ->
    let px := znth (render2' tiles w h root) (y * w + x) pdefault in
    px = Dist (feval root (x, y)) \/
    (pixel_perfect = false /\ exists d, px = Fill (neg (feval root (x, y))) d).
  Proof.
    intros Hv Hw Hh Hx Hy px.
    destruct (render2_correct Hv Hw Hh) as [_ H]. specialize (H x y Hx Hy).
    fold px in H. destruct px; simpl in H.
    - right. destruct H as [? ->]. eauto.
    - left. now subst.
  Qed.

  (* RawDistancePixel::inside() of every pixel is the sign of the point value *)
  Corollary render2_is_inside tiles w h x y :
    ts_valid tiles -> 0 < w -> 0 < h ->
    0 <= x < w -> 0 <= y < h ->
    is_inside neg (znth (render2' tiles w h root) (y * w + x) pdefault)
    = neg (feval root (x, y)).
  Proof.
    intros Hv Hw Hh Hx Hy.
    destruct (render2_cases Hv Hw Hh Hx Hy) as [->|(_ & d & ->)]; reflexivity.
  Qed.

  (** ** Interval skipping and simplification are unobservable *)

  (* equal up to replacing a distance by a fill of the same sign *)
  Definition pix_equiv (a b : pix) : Prop :=
    match a, b with
    | Dist v, Dist v' => v = v'
    | Fill ins _, Dist v' => ins = neg v'
    | Dist v, Fill ins' _ => neg v = ins'
    | Fill ins _, Fill ins' _ => ins = ins'
    end.

  Lemma pix_equiv_is_inside a b : pix_equiv a b -> is_inside neg a = is_inside neg b.
  Proof. destruct a, b; simpl; congruence. Qed.

  Lemma znth_brute2 w h x y :
    0 < w -> 0 <= x < w -> 0 <= y < h ->
    znth (brute2 feval w h root) (y * w + x) pdefault = Dist (feval root (x, y)).
  Proof.
    intros Hw Hx Hy. unfold brute2.
    erewrite znth_map with (d' := 0).
    - rewrite znth_zrange by nia.
      rewrite Z.add_comm, Z_mod_plus_full, Z.mod_small by lia.
      rewrite Z.div_add by lia. rewrite Z.div_small by lia. reflexivity.
    - unfold zlength. rewrite zrange_length. nia.
  Qed.

  Lemma brute2_length w h : 0 <= w * h -> zlength (brute2 feval w h root) = w * h.
  Proof. intros. unfold brute2, zlength. rewrite map_length, zrange_length. lia. Qed.

  Theorem render2_equiv_brute tiles w h :
    ts_valid tiles -> 0 < w -> 0 < h ->
    Forall2 pix_equiv (render2' tiles w h root) (brute2 feval w h root).
  Proof.
    intros Hv Hw Hh. destruct (render2_correct Hv Hw Hh) as [Hlen H].
    apply Forall2_znth with (d := pdefault) (d' := pdefault).
    - pose proof (@brute2_length w h ltac:(nia)). unfold zlength in *. lia.
    - intros i Hi. rewrite Hlen in Hi.
      pose proof (Z.div_mod i w ltac:(lia)) as Hdm. pose proof (Z.mod_pos_bound i w Hw) as Hm.
      assert (Hy : 0 <= i / w < h).
      { split; [apply Z.div_pos; lia|apply Z.div_lt_upper_bound; lia]. }
      replace i with (i / w * w + i mod w) by lia.
      specialize (H (i mod w) (i / w) Hm Hy).
      rewrite znth_brute2 by assumption.
      destruct (znth _ _ _); simpl in *; [tauto|assumption].
  Qed.

  Theorem render2_pixel_perfect_eq_brute tiles w h :
    ts_valid tiles -> 0 < w -> 0 < h -> pixel_perfect = true ->
    render2' tiles w h root = brute2 feval w h root.
  Proof.
    intros Hv Hw Hh PP. destruct (render2_correct Hv Hw Hh) as [Hlen _].
    apply list_ext_znth with (d := pdefault).
    - pose proof (@brute2_length w h ltac:(nia)). unfold zlength in *. lia.
    - intros i Hi. rewrite Hlen in Hi.
      pose proof (Z.div_mod i w ltac:(lia)) as Hdm. pose proof (Z.mod_pos_bound i w Hw) as Hm.
      assert (Hy : 0 <= i / w < h).
      { split; [apply Z.div_pos; lia|apply Z.div_lt_upper_bound; lia]. }
      replace i with (i / w * w + i mod w) by lia.
      rewrite znth_brute2 by assumption. now apply render2_pixel_perfect.
  Qed.
End Sound2.

(** * The hypotheses are satisfiable: the demo instance of Render2.v *)

Module Render2DemoSound.
  Import Render2Demo.

  Definition posv (v : Z) : bool := 0 <? v.

  Lemma sq_itv_sound a l u x :
    l <= x <= u -> fst (sq_itv a l u) <= (x - a) * (x - a) <= snd (sq_itv a l u).
  Proof.
    intros Hx. unfold sq_itv.
    remember (l - a) as L. remember (u - a) as U. remember (x - a) as X.
    assert (HLX : L <= X <= U) by lia. clear - HLX.
    destruct (0 <=? L) eqn:E1.
    - apply Z.leb_le in E1. simpl. split; apply Z.mul_le_mono_nonneg; lia.
    - apply Z.leb_gt in E1. destruct (U <=? 0) eqn:E2.
      + apply Z.leb_le in E2. simpl.
        replace (U * U) with ((- U) * (- U)) by ring.
        replace (X * X) with ((- X) * (- X)) by ring.
        replace (L * L) with ((- L) * (- L)) by ring.
        split; apply Z.mul_le_mono_nonneg; lia.
      + apply Z.leb_gt in E2. simpl. split; [apply Z.square_nonneg|].
        destruct (Z.le_ge_cases 0 X).
        * etransitivity; [|apply Z.le_max_r]. apply Z.mul_le_mono_nonneg; lia.
        * etransitivity; [|apply Z.le_max_l].
          replace (X * X) with ((- X) * (- X)) by ring.
          replace (L * L) with ((- L) * (- L)) by ring.
          apply Z.mul_le_mono_nonneg; lia.
  Qed.

  Lemma demo_encl t c s p :
    in_cbox c s p ->
    fst (fst (ieval t c s)) <= feval t p <= snd (fst (ieval t c s)).
  Proof.
    intros [Hx Hy]. destruct t as [[cx cy] r]. unfold ieval, feval. simpl fst. simpl snd.
    pose proof (sq_itv_sound cx Hx). pose proof (sq_itv_sound cy Hy). lia.
  Qed.

  (* the instance of the main theorem, with every hypothesis discharged *)
  Theorem demo_render2_equiv_brute pp ts w h t :
    ts_valid ts -> 0 < w -> 0 < h ->
    Forall2 (pix_equiv neg) (render pp ts w h t) (brute w h t).
  Proof.
    apply render2_equiv_brute with (posv := posv).
    - intros v. unfold posv, neg. rewrite Z.ltb_lt, Z.ltb_ge. lia.
    - intros t' c s p Hp. pose proof (demo_encl t' Hp). unfold i_upper_neg, neg.
      rewrite !Z.ltb_lt. lia.
    - intros t' c s p Hp. pose proof (demo_encl t' Hp). unfold i_lower_pos, posv.
      rewrite !Z.ltb_lt. lia.
    - reflexivity.
  Qed.
End Render2DemoSound.

Print Assumptions render2_correct.
Print Assumptions render2_pixel_perfect.
Print Assumptions render2_cases.
Print Assumptions render2_is_inside.
Print Assumptions render2_equiv_brute.
Print Assumptions render2_pixel_perfect_eq_brute.
Print Assumptions tile_sizes_new_guarantee.
Print Assumptions tile_sizes_new_old_guarantee.
Print Assumptions ts_valid_positive_refuted.
Print Assumptions tile_sizes_ref_suffix.
Print Assumptions tile_sizes_ref_valid.
Print Assumptions Render2DemoSound.demo_render2_equiv_brute.
