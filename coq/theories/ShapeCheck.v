(* ShapeCheck.v — ShapeVars::check (behind Shape::bind, which gates the renderers and the mesher):
   a table is accepted exactly when every non-axis variable of the shape is in it, whatever ELSE it holds
   and however large it is; a rejection names a variable that is really missing; binding accepts exactly
   the tables with which evaluation cannot report a missing variable. *)
From Coq Require Import List Arith Bool Lia Permutation.
From FV Require Import Alloc Flatten ShapeEval.
Import ListNotations.

Section ShapeCheck.
Context {V : Type}.

(* the loop of ShapeVars::check over the shape's VarMap in its iteration order: None = Ok(()),
   Some v = Err(MissingVar { var: v }) *)
Fixpoint vars_check (vars : @supplied V) (it : list (nat * nat)) : option nat :=
  match it with
  | [] => None
  | (v, _) :: rest =>
      if v <? 3 then vars_check vars rest
      else match vars v with Some _ => vars_check vars rest | None => Some v end
  end.

Lemma check_none_iff (vars : @supplied V) it :
  vars_check vars it = None <-> (forall v i, In (v, i) it -> 3 <= v -> vars v <> None).
Proof.
  induction it as [|[v i] rest IH]; simpl.
  - split; [intros _ v i []|reflexivity].
  - destruct (Nat.ltb_spec v 3) as [Hlt|Hge].
    + rewrite IH. split.
      * intros H v' i' [E|Hin] Hv'; [inversion E; subst; lia|eauto].
      * intros H v' i' Hin; apply (H v' i'); right; exact Hin.
    + destruct (vars v) eqn:E.
      * rewrite IH. split.
        -- intros H v' i' [E'|Hin] Hv'; [inversion E'; subst; congruence|eauto].
        -- intros H v' i' Hin; apply (H v' i'); right; exact Hin.
      * split; [discriminate|]. intros H. exfalso. apply (H v i); auto.
Qed.

Lemma check_some (vars : @supplied V) it w :
  vars_check vars it = Some w -> 3 <= w /\ vars w = None /\ exists i, In (w, i) it.
Proof.
  induction it as [|[v i] rest IH]; simpl; [discriminate|].
  destruct (Nat.ltb_spec v 3) as [Hlt|Hge].
  - intros H. destruct (IH H) as (a & b & j & Hj). repeat split; auto. exists j; right; exact Hj.
  - destruct (vars v) eqn:E.
    + intros H. destruct (IH H) as (a & b & j & Hj). repeat split; auto. exists j; right; exact Hj.
    + intros H; inversion H; subst. repeat split; auto. exists i; left; reflexivity.
Qed.

(* accepted exactly when complete: for the pairs of a VarMap in ANY iteration order *)
Theorem check_accepts_exactly_complete_tables (vars : @supplied V) (vm : varmap) it :
  Permutation it (pairs vm) ->
  (vars_check vars it = None <-> forall v, In v vm -> 3 <= v -> vars v <> None).
Proof.
  intros P. rewrite check_none_iff. split.
  - intros H v Hin Hv. apply In_nth_error in Hin. destruct Hin as (idx & Hidx).
    apply (H v idx); [|exact Hv]. apply (Permutation_in _ (Permutation_sym P)). apply in_pairs; exact Hidx.
  - intros H v i Hin Hv. apply H; [|exact Hv]. apply (Permutation_in _ P) in Hin. apply in_pairs in Hin.
    eapply nth_error_In; eauto.
Qed.

(* a rejection names a non-axis variable of the shape that the table really lacks *)
Theorem check_rejection_names_a_missing_variable (vars : @supplied V) (vm : varmap) it w :
  Permutation it (pairs vm) -> vars_check vars it = Some w -> In w vm /\ 3 <= w /\ vars w = None.
Proof.
  intros P H. destruct (check_some _ _ _ H) as (a & b & i & Hi). repeat split; auto.
  apply (Permutation_in _ P) in Hi. apply in_pairs in Hi. eapply nth_error_In; eauto.
Qed.

(* what else the table holds, and how many entries it has, is irrelevant *)
Theorem check_ignores_unrelated_entries (vars vars' : @supplied V) (vm : varmap) it :
  Permutation it (pairs vm) ->
  (forall v, In v vm -> (vars v = None <-> vars' v = None)) ->
  vars_check vars it = vars_check vars' it.
Proof.
  intros P Hag.
  assert (Hin : forall v idx, In (v, idx) it -> In v vm).
  { intros v idx H. apply (Permutation_in _ P) in H. apply in_pairs in H. eapply nth_error_In; eauto. }
  clear P. induction it as [|[v i] rest IH]; simpl; auto.
  assert (IH' : vars_check vars rest = vars_check vars' rest) by (apply IH; intros v' i' H; apply (Hin v' i'); right; exact H).
  destruct (v <? 3); auto.
  assert (Hv : In v vm) by (apply (Hin v i); left; reflexivity).
  destruct (vars v) eqn:E, (vars' v) eqn:E'; auto.
  - exfalso. apply Hag in Hv. destruct Hv as [_ H2]. specialize (H2 E'). congruence.
  - exfalso. apply Hag in Hv. destruct Hv as [H1 _]. specialize (H1 E). congruence.
Qed.

(* binding accepts exactly the tables with which slot filling succeeds (no MissingVar at evaluation) *)
Theorem check_agrees_with_evaluation (zero x y z : V) (vars : @supplied V) (vm : varmap) it :
  Permutation it (pairs vm) ->
  (vars_check vars it = None <-> exists s, scratch_of zero x y z vars vm it = Ok s).
Proof.
  intros P. rewrite (check_accepts_exactly_complete_tables vars vm it P). split.
  - intros H. exists (map (env_of zero x y z vars) vm). apply scratch_by_identity; auto.
    intros v Hin. destruct (Nat.lt_ge_cases v 3) as [Hlt|Hge]; [apply axes_always_bound; exact Hlt|].
    destruct v as [|[|[|v]]]; try lia. simpl. apply H; auto.
  - intros (s & Hs) v Hin Hv Hn.
    destruct (scratch_missing_is_error zero x y z vars vm it P) as (w & _ & _ & Hw).
    { exists v. split; [exact Hin|]. destruct v as [|[|[|v]]]; try lia. exact Hn. }
    rewrite Hs in Hw. discriminate.
Qed.

End ShapeCheck.
