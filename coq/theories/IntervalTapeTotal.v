(* IntervalTapeTotal.v — C11 at tape level, over the extended reals with NaN:
   every interval operation returns a VALID interval when it returns at all
   ([un_valid], [bin_valid]), and the interval evaluation of ANY tape never panics on
   a box of valid intervals: every output is [Some] valid interval ([tape_no_panic]).
   (Before the repair of add / sub / Mul<f32> this needed "no Add / Sub / MulRegImm":
   see the history in IntervalTotal.v.) *)
From Coq Require Import Reals Lra Lia ZArith List Bool.
From FV Require Import Ops Tape Interval Related ER ERLemmas IntervalSound IntervalTotal
  IntervalRem IntervalTotal2 IntervalTape.
Import ListNotations.
Local Open Scope R_scope.

Section Valid.
Variable rnd : er -> er.
Variable mix : er -> er -> er.
Notation F := (er_fl_gen rnd mix).

(* results are built by Interval::new, or are an operand passed through *)
Ltac vres :=
  repeat match goal with
  | H : (if ?c then _ else _) = Some _ |- _ => destruct c
  | H : match ?q with Q0 => _ | Q1 => _ | Q2 => _ | Q3 => _ end = Some _ |- _ => destruct q
  | H : fst (if ?c then _ else _) = Some _ |- _ => destruct c; cbn [fst] in H
  | H : fst (let c := _ in _) = Some _ |- _ => cbn [fst] in H
  end;
  match goal with
  | H : inew _ _ _ = Some ?r |- valid ?r => apply inew_some in H; tauto
  | H : inew_nan _ _ _ = Some ?r |- valid ?r => exact (inew_nan_some _ _ _ H)
  | H : inan _ = Some ?r |- valid ?r => apply inew_some in H; tauto
  | H : ifrom _ _ = Some ?r |- valid ?r => apply inew_some in H; tauto
  | H : four_minmax _ _ _ _ _ = Some ?r |- valid ?r => apply inew_some in H; tauto
  | H : full_trig _ = Some ?r |- valid ?r => apply inew_some in H; tauto
  | H : Some _ = Some ?r |- valid ?r => injection H as <-; assumption
  end.

Lemma iabs_valid a r : valid a -> iabs F a = Some r -> valid r.
Proof. intros V H. unfold iabs in H. vres. Qed.

Lemma un_valid u a r : valid a -> i_un F u a = Some r -> valid r.
Proof.
  intros V H. destruct u; cbn [i_un] in H;
    try (unfold ineg, iabs, irecip, isqrt, isquare, ifloor, iceil, iround, isin, icos, itan,
           iasin, iacos, iatan, iexp, iln, inot, irand in H; vres).
Qed.

Lemma bin_valid b x y r : valid x -> valid y -> i_bin F b x y = Some r -> valid r.
Proof.
  intros Vx Vy H. destruct b; cbn [i_bin] in H;
    try (unfold iadd, isub, imul, idiv, icompare, imix, imin_choice, imax_choice,
           iand_choice, ior_choice in H; vres; fail).
  - (* atan2 *) unfold iatan2 in H. vres.
  - (* rem_euclid *) unfold irem_euclid in H.
    repeat match goal with
    | H : (if ?c then _ else _) = Some _ |- _ => destruct c
    end;
    try (apply inew_some in H; tauto);
    destruct (iabs F y); try discriminate; apply inew_some in H; tauto.
Qed.

Lemma imul_f_valid a c r : imul_f F a c = Some r -> valid r.
Proof. intros H. unfold imul_f in H. vres. Qed.

End Valid.

(* ---- tapes ---------------------------------------------------------------------------------- *)
Definition ok (o : ov_er) : Prop := match o with Some i => valid i | None => False end.

Section NoPanic.
Variable rnd : er -> er.
Variable mix : er -> er -> er.
Notation F := (er_fl_gen rnd mix).
Notation isem := (interval_sem F).

Lemma ok_ifrom c : ok (ifrom F c).
Proof.
  destruct (ifrom_total' rnd mix c) as [r Hr]. rewrite Hr. cbn.
  unfold ifrom in Hr. apply inew_some in Hr. tauto.
Qed.

Lemma ok_un u o : ok o -> ok (lift1 (i_un F u) o).
Proof.
  destruct o as [a|]; cbn; [|tauto]. intros V.
  destruct (un_total rnd mix u a V) as [r Hr]. rewrite Hr. cbn. exact (un_valid rnd mix u a r V Hr).
Qed.

Lemma ok_bin b o1 o2 : ok o1 -> ok o2 -> ok (lift2 (i_bin F b) o1 o2).
Proof.
  destruct o1 as [x|], o2 as [y|]; cbn; try tauto. intros Vx Vy.
  destruct (bin_total rnd mix b x y Vx Vy) as [r Hr]. rewrite Hr. cbn.
  exact (bin_valid rnd mix b x y r Vx Vy Hr).
Qed.

Definition inv (written : list nat) (s : mstate (V:=ov_er)) : Prop :=
  (forall k, In k written -> ok (m_slots s k)) /\ Forall ok (m_out s).

Lemma forall_upd (l : list ov_er) k v : Forall ok l -> ok v -> Forall ok (list_upd l k v).
Proof.
  intros H. revert k. induction H as [|a l Ha Hl IH]; intros [|k] Hv; cbn; constructor; auto.
Qed.

Lemma inv_set written s k v : inv written s -> ok v -> inv (k :: written) (set_slot s k v).
Proof.
  intros [Hs Ho] Hv. split; [|exact Ho]. intros j Hj. cbn. unfold upd.
  destruct (Nat.eqb j k) eqn:E; [exact Hv|].
  destruct Hj as [<-|Hj]; [now rewrite Nat.eqb_refl in E | now apply Hs].
Qed.

Lemma ok_mul_f c o : ok o -> ok (lift1 (fun a => imul_f F a c) o).
Proof.
  destruct o as [a|]; cbn; [|tauto]. intros V.
  destruct (imul_f_total rnd mix c a V) as [r Hr]. rewrite Hr. cbn.
  exact (imul_f_valid rnd mix a c r Hr).
Qed.

Lemma step_inv inputs o written s :
  Forall ok inputs -> inv written s -> (forall k, In k (op_args o) -> In k written) ->
  inv (match op_out o with Some k => k :: written | None => written end) (step isem inputs s o).
Proof.
  intros Hin Hs Hargs. pose proof Hs as [Hsl Ho].
  destruct o; cbn [op_out step op_args] in *.
  - split; [exact Hsl|]. cbn. apply forall_upd; [exact Ho|]. apply Hsl, Hargs. now left.
  - apply inv_set; [exact Hs|]. cbn.
    assert (G : forall l n, Forall ok l -> ok (nth n l (inan F))).
    { intros l. induction l as [|a l IH]; intros [|n] Hl; cbn; try apply ok_ifrom;
        inversion Hl; subst; auto. }
    now apply G.
  - apply inv_set; [exact Hs|]. apply ok_ifrom.
  - apply inv_set; [exact Hs|]. apply ok_un. apply Hsl, Hargs. now left.
  - assert (R : inv (out :: written)
                  (set_slot s out (s_rr isem b (m_slots s lhs) (m_slots s rhs)))).
    { apply inv_set; [exact Hs|]. apply ok_bin; auto; apply Hsl, Hargs; cbn; auto. }
    destruct (bop_has_choice b); [|exact R]. destruct R as [R1 R2]. split; assumption.
  - assert (R : inv (out :: written) (set_slot s out (s_ri isem b (m_slots s arg) imm))).
    { apply inv_set; [exact Hs|]. cbn. unfold i_ri.
      destruct b; try (apply ok_bin; auto; try apply ok_ifrom; apply Hsl, Hargs; now left).
      apply ok_mul_f. apply Hsl, Hargs. now left. }
    destruct (bop_has_choice b); [|exact R]. destruct R as [R1 R2]. split; assumption.
  - apply inv_set; [exact Hs|]. cbn. unfold i_ir.
    apply ok_bin; auto; try apply ok_ifrom. apply Hsl, Hargs. now left.
  - apply inv_set; [exact Hs|]. apply Hsl, Hargs. now left.
  - apply inv_set; [exact Hs|]. apply Hsl, Hargs. now left.
Qed.

Lemma run_inv inputs ops : forall written s,
  Forall ok inputs -> inv written s -> reads_written ops written ->
  Forall ok (m_out (run_fwd isem inputs ops s)).
Proof.
  unfold run_fwd. induction ops as [|o ops IH]; intros written s Hin Hs Hr; cbn in *.
  - exact (proj2 Hs).
  - destruct Hr as [Hargs Hr]. eapply IH; eauto. now apply step_inv.
Qed.

(* C11 for tapes: the interval evaluation cannot panic, and every output is a valid
   interval *)
Theorem tape_no_panic tape n box :
  Forall valid box ->
  reads_written (rev tape) [] ->
  Forall ok (eval_outputs isem tape n (map Some box)).
Proof.
  intros Hbox Hr. unfold eval_outputs, eval_tape.
  apply (run_inv _ _ []); auto.
  - induction Hbox; cbn; constructor; auto.
  - split; [intros k []|]. cbn. unfold fresh_out. induction n; cbn; constructor; auto. apply ok_ifrom.
Qed.

End NoPanic.

Print Assumptions tape_no_panic.
