(* BytecodeProof.v — facts about the documentation-only decoder. *)
From Coq Require Import List Bool Arith ZArith Lia.
From FV Require Import Ops Tape Alloc Bytecode.
Import ListNotations.
Open Scope Z_scope.

Section BP.
Context {I : Type}.
Variable imm_of_bits : Z -> I.

Lemma decode_body_markers fuel : forall ws ops,
  decode_body imm_of_bits ws fuel = Some ops ->
  exists body, ws = body ++ [marker; marker] /\ length body = (2 * length ops)%nat.
Proof.
  induction fuel as [|f IH]; intros ws ops H; simpl in H; [discriminate|].
  destruct ws as [|w [|imm rest]]; try discriminate.
  destruct (Z.eqb w marker) eqn:Ew.
  - destruct (Z.eqb imm marker) eqn:Ei; [|discriminate].
    destruct rest; [|discriminate]. injection H as <-.
    apply Z.eqb_eq in Ew, Ei. subst. exists []. split; reflexivity.
  - destruct (decode_op imm_of_bits w imm) as [o|]; [|discriminate].
    destruct (decode_body imm_of_bits rest f) as [os|] eqn:Er; [|discriminate].
    injection H as <-. destruct (IH _ _ Er) as (body & -> & Hl).
    exists (w :: imm :: body). split; [reflexivity|]. simpl. lia.
Qed.

(* A word stream the decoder accepts begins FFFFFFFF 00000000 and ends FFFFFFFF FFFFFFFF,
   with exactly two words per operation in between. *)
Theorem decode_markers ws ops :
  decode imm_of_bits ws = Some ops ->
  exists body, ws = marker :: 0 :: body ++ [marker; marker] /\ length body = (2 * length ops)%nat.
Proof.
  unfold decode. destruct ws as [|w0 [|w1 body]]; try discriminate.
  destruct (Z.eqb w0 marker && Z.eqb w1 0) eqn:E; [|discriminate].
  apply andb_prop in E as [E0 E1]. apply Z.eqb_eq in E0, E1. subst.
  intros H. destruct (decode_body_markers _ _ _ H) as (b & -> & Hl). now exists b.
Qed.

(* what the bounds check means *)
Theorem in_bounds_regs regs mems (o : Tape.op I) :
  op_in_bounds regs mems o = true ->
  forall r, In r (op_regs o) -> (r < regs)%nat /\ (r < 255)%nat.
Proof.
  intros H r Hr.
  assert (G : forall x, (Nat.ltb x regs && Nat.ltb x 255)%bool = true -> (x < regs)%nat /\ (x < 255)%nat).
  { intros x Hx. apply andb_prop in Hx as [A B]. apply Nat.ltb_lt in A, B. auto. }
  destruct o; simpl in *;
    repeat match goal with
    | H : (_ && _)%bool = true |- _ => apply andb_prop in H; destruct H
    end;
    repeat match goal with
    | H : _ \/ _ |- _ => destruct H
    | H : False |- _ => contradiction
    end; subst; apply G; apply andb_true_intro; split; assumption.
Qed.

Theorem in_bounds_mem regs mems (o : Tape.op I) :
  op_in_bounds regs mems o = true ->
  forall r m, (o = OLoad r m \/ o = OStore r m) -> (mem_base <= m)%nat /\ (m - mem_base < mems)%nat.
Proof.
  intros H r m [-> | ->]; unfold op_in_bounds in H;
    apply andb_prop in H as [_ H]; apply andb_prop in H as [A B];
    apply Nat.leb_le in A; apply Nat.ltb_lt in B; auto.
Qed.

End BP.
