(* View32.v — the f32 instance of the view model: the same [View.v] definitions run in
   IEEE single precision (Flocq), bit for bit what fidget-gui computes as long as the
   dropped `0 * x` terms of the homogeneous matrices are finite (they then add a signed
   zero, which only changes the sign of a zero result).  exp2 / fmod / sin / cos go through
   the libm oracle (ids 11 exp2f, 12 fmodf, 0 sinf, 1 cosf). *)
From Coq Require Import ZArith Bool.
From Flocq Require Import IEEE754.BinarySingleNaN.
From FV Require Import F32 View.

Definition f32_of_Z (z : Z) : f32 :=
  binary_normalize 24 128 Hprec Hmax mode_NE z 0 false.

Definition f_hundred : f32 := of_bits 1120403456%Z.   (* 100.0 *)
Definition f_two : f32 := of_bits 1073741824%Z.
Definition f_tau : f32 := of_bits 1086918619%Z.       (* 0x40C90FDB *)
Definition f_pi : f32 := of_bits 1078530011%Z.        (* 0x40490FDB *)

(* f32::clamp(min, max): if self < min {min}; if self > max {max}; NaN stays NaN *)
Definition f_clamp (x lo hi : f32) : f32 :=
  if fltb x lo then lo else if fltb hi x then hi else x.

Definition f32_num (o : oracle) : Num f32 := {|
  n_add := fadd; n_sub := fsub; n_mul := fmul; n_div := fdiv; n_opp := fneg;
  n_zero := fzero; n_one := fone; n_two := f_two;
  n_neqb := fun x y => negb (feqb x y);
  n_exp2 := fun a => of_bits (o 11%Z (to_bits (fdiv a f_hundred)) 0%Z);
  n_sin := fun a => of_bits (o 0%Z (to_bits a) 0%Z);
  n_cos := fun a => of_bits (o 1%Z (to_bits a) 0%Z);
  n_fmod_tau := fun a => of_bits (o 12%Z (to_bits a) (to_bits f_tau));
  n_clamp_0_pi := fun a => f_clamp a fzero f_pi;
  n_of_Z := f32_of_Z
|}.

Definition f_run2 (o : oracle) := run2 (f32_num o).
Definition f_run3 (o : oracle) := run3 (f32_num o).
Definition f_canvas2_new (o : oracle) := canvas2_new (f32_num o).
Definition f_canvas3_new (o : oracle) := canvas3_new (f32_num o).
Definition f_screen_to_world2 (o : oracle) := screen_to_world2 (f32_num o).
Definition f_view2_w2m (o : oracle) := view2_w2m_point (f32_num o).
Definition f_view3_w2m (o : oracle) := view3_w2m_point (f32_num o).
