(* F32Interval.v — the f32 instance of the float-like structure: what runs. *)
From Coq Require Import ZArith List Bool.
From FV Require Import F32 Ops Tape Interval.

Definition f32_fl (o : oracle) : FL f32 :=
  {| fl_zero := fzero; fl_one := fone; fl_neg_one := fnone;
     fl_two := of_bits 1073741824; fl_three := of_bits 1077936128; fl_four := of_bits 1082130432;
     fl_nan := fnan; fl_inf := finf; fl_neg_inf := fninf;
     fl_pi := of_bits 1078530011; fl_tau := of_bits 1086918619; fl_neg_pi := of_bits 3226013659;
     fl_is_nan := is_nanb;
     fl_lt := fltb; fl_le := fleb; fl_eq := feqb;
     fl_add := fadd; fl_sub := fsub; fl_mul := fmul; fl_div := fdiv;
     fl_neg := fneg; fl_abs := fabs; fl_sqrt := fsqrt;
     fl_floor := ffloor; fl_ceil := fceil; fl_round := fround;
     fl_min := fmin_std; fl_max := fmax_std;
     fl_sin := libm1 o LSin; fl_cos := libm1 o LCos; fl_tan := libm1 o LTan;
     fl_asin := libm1 o LAsin; fl_acos := libm1 o LAcos; fl_atan := libm1 o LAtan;
     fl_exp := libm1 o LExp; fl_ln := libm1 o LLn;
     fl_atan2 := libm2 o LAtan2; fl_rem_euclid := libm2 o LRemEuclid;
     fl_bits_eq := fun a b => Z.eqb (to_bits a) (to_bits b);
     fl_rand := frand; fl_mix := fmix;
     fl_quadrant := fun x => match quad64 x with 1%Z => Q1 | 2%Z => Q2 | 3%Z => Q3 | _ => Q0 end |}.

Definition f32_interval_sem (o : oracle) : Sem (option (interval f32)) f32 := interval_sem (f32_fl o).

(* ---- gradients on f32 ---- *)
From FV Require Import Grad.
Definition f32_div_euclid (o : oracle) (a b : f32) : f32 := of_bits (o 10%Z (to_bits a) (to_bits b)).
Definition f32_grad_sem (o : oracle) : Sem (grad f32) f32 := grad_sem (f32_fl o) (f32_div_euclid o).
