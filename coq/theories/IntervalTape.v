(* IntervalTape.v — C03 for whole tapes: interval evaluation encloses every point
   result in the region.

   [Related.tape_related] is instantiated with
     semA := the point semantics over the extended reals ([er_sem]),
     semB := the interval semantics [interval_sem (er_fl_gen rnd mix)],
     rel v None := True                      (the interval evaluator panicked)
     rel v (Some i) := valid i /\ encl i v
     good v := v <> ENaN                     (no intermediate point value is NaN).

   The development is parametric in the set of opcodes whose interval operation has
   been proved sound ([cu], [cb]): [preserved] quantifies over all opcodes, so it is
   proved for the semantics [isem_cov] in which an uncovered opcode returns [None]
   (related to everything); on a tape that only uses covered opcodes ([tape_cov])
   [isem_cov] and [interval_sem] evaluate identically ([eval_cov_eq]).  The final
   theorems [tape_sound] / [tape_sound_nth] are about [interval_sem] itself. *)
From Coq Require Import Reals Lra Lia List Bool.
From FV Require Import Ops Tape Interval Related ER ERLemmas IntervalSound.
Import ListNotations.
Local Open Scope R_scope.

Definition ov_er := option (interval er).

(* the relation between a point value and what the interval evaluator holds *)
Definition rel (v : er) (o : ov_er) : Prop :=
  match o with None => True | Some i => valid i /\ encl i v end.
Definition good (v : er) : Prop := v <> ENaN.

Section TapeSound.
Variable rnd : er -> er.
Variable mix : er -> er -> er.
Notation F := (er_fl_gen rnd mix).
Notation psem := (er_sem rnd mix).
Notation isem := (interval_sem F).

(* the covered opcodes *)
Variable cu : uop -> bool.
Variable cb : bop -> bool.
Hypothesis Hu : forall u, cu u = true -> sound1s (i_un F u) (er_un rnd u).
Hypothesis Hb : forall b, cb b = true -> sound2s (i_bin F b) (er_bin mix b).

Definition isem_cov : Sem ov_er er :=
  {| s_dflt := s_dflt isem;
     s_imm := s_imm isem;
     s_un := fun u x => if cu u then s_un isem u x else None;
     s_rr := fun b x y => if cb b then s_rr isem b x y else None;
     s_ri := fun b x c => if cb b then s_ri isem b x c else None;
     s_ir := fun b c x => if cb b then s_ir isem b c x else None;
     s_ch_rr := s_ch_rr isem;
     s_ch_ri := s_ch_ri isem |}.

Lemma rel_ifrom c : rel c (ifrom F c).
Proof. unfold rel. destruct (ifrom F c) eqn:E; [|exact I]. now apply (ifrom_sound rnd mix). Qed.

Lemma rel_dflt : rel (s_dflt psem) (s_dflt isem).
Proof. cbn. apply rel_ifrom. Qed.

Lemma rel_lift2 b x1 x2 (y1 y2 : ov_er) :
  cb b = true -> rel x1 y1 -> rel x2 y2 -> good (er_bin mix b x1 x2) ->
  rel (er_bin mix b x1 x2) (lift2 (i_bin F b) y1 y2).
Proof.
  intros C R1 R2 G. destruct y1 as [i1|], y2 as [i2|]; cbn; try exact I.
  destruct (i_bin F b i1 i2) eqn:E; [|exact I]. cbn in R1, R2.
  destruct R1 as [V1 E1], R2 as [V2 E2]. exact (Hb b C i1 i2 x1 x2 V1 V2 E1 E2 G i E).
Qed.

Lemma preserved_cov : preserved psem isem_cov rel good.
Proof.
  constructor.
  - intros c _. apply rel_ifrom.
  - intros u x y Gx R G. cbn. destruct (cu u) eqn:C; [|exact I].
    destruct y as [i|]; cbn; [|exact I]. destruct (i_un F u i) eqn:E; [|exact I].
    cbn in R. destruct R as [V1 E1]. exact (Hu u C i x V1 E1 G i0 E).
  - intros b x1 y1 x2 y2 _ _ R1 R2 G. cbn. destruct (cb b) eqn:C; [|exact I].
    now apply rel_lift2.
  - intros b x y c _ R G. cbn. destruct (cb b) eqn:C; [|exact I].
    cbn in G. unfold i_ri.
    destruct b; try (apply rel_lift2; auto; apply rel_ifrom).
    (* MulRegImm is Mul<f32> *)
    destruct y as [i|]; cbn; [|exact I]. destruct (imul_f F i c) eqn:E; [|exact I].
    cbn in R. destruct R as [V1 E1]. exact (imul_f_sound rnd mix c i x V1 E1 G i0 E).
  - intros b c x y _ R G. cbn. destruct (cb b) eqn:C; [|exact I].
    unfold i_ir. apply rel_lift2; auto. apply rel_ifrom.
Qed.

(* ---- tapes over covered opcodes ------------------------------------------------------- *)
Definition op_cov (o : op er) : bool :=
  match o with
  | OUn u _ _ => cu u
  | OBinRR b _ _ _ | OBinRI b _ _ _ | OBinIR b _ _ _ => cb b
  | _ => true
  end.
Definition tape_cov (t : list (op er)) : bool := forallb op_cov t.

Lemma step_cov_eq inputs s o : op_cov o = true -> step isem_cov inputs s o = step isem inputs s o.
Proof. destruct o; cbn; intros C; rewrite ?C; reflexivity. Qed.

Lemma run_cov_eq inputs ops : forall s, forallb op_cov ops = true ->
  run_fwd isem_cov inputs ops s = run_fwd isem inputs ops s.
Proof.
  unfold run_fwd. induction ops as [|o ops IH]; intros s C; cbn in *; [reflexivity|].
  apply andb_true_iff in C. destruct C as [C1 C2]. rewrite step_cov_eq by exact C1. now apply IH.
Qed.

Lemma eval_cov_eq tape inputs e0 out0 : tape_cov tape = true ->
  eval_tape isem_cov tape inputs e0 out0 = eval_tape isem tape inputs e0 out0.
Proof.
  intros C. unfold eval_tape. apply run_cov_eq.
  unfold tape_cov in C. rewrite forallb_forall in *. intros o Ho. apply C. now apply in_rev.
Qed.

(* The box: a list of valid intervals, and a point inside it *)
Definition in_box (pt : list er) (box : list (interval er)) : Prop :=
  Forall2 (fun v i => valid i /\ encl i v) pt box.

Lemma in_box_rel pt box : in_box pt box -> Forall2 rel pt (map Some box).
Proof. induction 1; cbn; constructor; auto. Qed.

Lemma rel_fresh n : Forall2 rel (fresh_out psem n) (fresh_out isem n).
Proof. unfold fresh_out. induction n; cbn [repeat]; constructor; auto. apply rel_dflt. Qed.

(* C03.  For every tape over covered opcodes, every box of valid intervals and every
   point inside it: if no intermediate point value is NaN ([all_good]), every output
   of the interval evaluation is either a panic ([None]) or a valid interval that
   encloses the corresponding output of the point evaluation. *)
Theorem tape_sound tape n pt box :
  tape_cov tape = true ->
  in_box pt box ->
  reads_written (rev tape) [] ->
  all_good psem good pt (rev tape) (init_state (fresh_env psem) (fresh_out psem n)) ->
  Forall2 rel (eval_outputs psem tape n pt) (eval_outputs isem tape n (map Some box)).
Proof.
  intros C B RW G. unfold eval_outputs. rewrite <- (eval_cov_eq _ _ _ _ C).
  apply (tape_related psem isem_cov rel good preserved_cov pt (map Some box)
           (in_box_rel _ _ B) rel_dflt); auto.
  apply rel_fresh.
Qed.

Corollary tape_sound_nth tape n pt box k i :
  tape_cov tape = true ->
  in_box pt box ->
  reads_written (rev tape) [] ->
  all_good psem good pt (rev tape) (init_state (fresh_env psem) (fresh_out psem n)) ->
  nth_error (eval_outputs isem tape n (map Some box)) k = Some (Some i) ->
  exists v, nth_error (eval_outputs psem tape n pt) k = Some v /\ valid i /\ encl i v.
Proof.
  intros C B RW G Hk. pose proof (tape_sound tape n pt box C B RW G) as H.
  revert k Hk. induction H as [|v o lv lo Hvo _ IH]; intros [|k] Hk; cbn in *; try discriminate.
  - injection Hk as ->. exists v. split; [reflexivity|exact Hvo].
  - now apply IH.
Qed.

End TapeSound.


Print Assumptions tape_sound.
