(* FlattenLib.v — list/counting lemmas used by the proofs about Flatten.v,
   and the unfolding lemma for the reference semantics [ctx_eval]. *)
From Coq Require Import List Bool Arith Lia.
From FV Require Import Ops Tape Alloc Flatten CtxEval.
Import ListNotations.

(* ---- list_upd / nth ---------------------------------------------------------- *)
Lemma lu_length {A} (l : list A) k v : length (list_upd l k v) = length l.
Proof. revert k; induction l; destruct k; simpl; auto. Qed.

Lemma lu_nth_same {A} (l : list A) k v d : k < length l -> nth k (list_upd l k v) d = v.
Proof. revert k; induction l; destruct k; simpl; intros; try lia; auto. apply IHl; lia. Qed.

Lemma lu_nth_other {A} (l : list A) k j v d : j <> k -> nth j (list_upd l k v) d = nth j l d.
Proof.
  revert k j; induction l; destruct k, j; simpl; intros; try congruence; auto.
Qed.

Lemma lu_nth {A} (l : list A) k j v d :
  nth j (list_upd l k v) d = if Nat.eqb j k then (if Nat.ltb k (length l) then v else nth j l d) else nth j l d.
Proof.
  destruct (Nat.eqb_spec j k).
  - subst. destruct (Nat.ltb_spec k (length l)).
    + apply lu_nth_same; auto.
    + revert k H; induction l; destruct k; simpl; intros; auto; try lia. apply IHl; lia.
  - apply lu_nth_other; auto.
Qed.

Lemma nth_repeat' {A} (x d : A) n k : nth k (repeat x n) d = if Nat.ltb k n then x else d.
Proof.
  revert k; induction n; destruct k; simpl; auto.
  rewrite IHn. destruct (Nat.ltb_spec k n), (Nat.ltb_spec (S k) (S n)); auto; lia.
Qed.

Lemma nth_true_lt (l : list bool) k : nth k l false = true -> k < length l.
Proof.
  intros H. destruct (Nat.lt_ge_cases k (length l)); auto.
  rewrite nth_overflow in H; auto; discriminate.
Qed.

(* ---- counting false entries (fuel measure) ------------------------------------ *)
Fixpoint cf (l : list bool) : nat :=
  match l with [] => 0 | b :: r => (if b then 0 else 1) + cf r end.

Lemma cf_repeat n : cf (repeat false n) = n.
Proof. induction n; simpl; auto. Qed.

Lemma cf_upd l k : nth k l true = false -> S (cf (list_upd l k true)) = cf l.
Proof.
  revert k; induction l; destruct k; simpl; intros; try discriminate.
  - subst; auto.
  - rewrite <- (IHl k H). lia.
Qed.

Lemma nth_false_dflt (l : list bool) k : k < length l -> nth k l false = false -> nth k l true = false.
Proof. intros. rewrite (nth_indep l true false); auto. Qed.

(* ---- count_occ and bump / dec -------------------------------------------------- *)
Notation cnt := (count_occ Nat.eq_dec).

Lemma bump_length l k : length (bump l k) = length l.
Proof. apply lu_length. Qed.
Lemma dec_length l k : length (dec l k) = length l.
Proof. apply lu_length. Qed.

Lemma fold_bump_length ch l : length (fold_left bump ch l) = length l.
Proof. revert l; induction ch; simpl; intros; auto. rewrite IHch; apply bump_length. Qed.
Lemma fold_dec_length ch l : length (fold_left dec ch l) = length l.
Proof. revert l; induction ch; simpl; intros; auto. rewrite IHch; apply dec_length. Qed.

Lemma fold_bump_nth ch : forall l j, j < length l ->
  nth j (fold_left bump ch l) 0 = nth j l 0 + cnt ch j.
Proof.
  induction ch; simpl; intros; auto.
  rewrite IHch by (rewrite bump_length; auto).
  unfold bump. rewrite lu_nth.
  destruct (Nat.eqb_spec j a).
  - subst. destruct (Nat.ltb_spec a (length l)); try lia.
    destruct (Nat.eq_dec a a); try congruence; try lia.
  - destruct (Nat.eq_dec a j); try congruence; try lia.
Qed.

Lemma fold_dec_nth ch : forall l j,
  nth j (fold_left dec ch l) 0 = nth j l 0 - cnt ch j.
Proof.
  induction ch; simpl; intros; try lia.
  rewrite IHch. unfold dec. rewrite lu_nth.
  destruct (Nat.eqb_spec j a).
  - subst. destruct (Nat.eq_dec a a); try congruence.
    destruct (Nat.ltb_spec a (length l)); try lia.
    rewrite (nth_overflow l) by lia. lia.
  - destruct (Nat.eq_dec a j); try congruence; try lia.
Qed.

(* ---- the arena as a graph -------------------------------------------------------- *)
Section Graph.
Context {I : Type}.
Variable arena : list (cnode I).

Definition childs (p : nat) : list nat :=
  match nth_error arena p with Some o => children o | None => [] end.
Definition kids (l : list nat) : list nat := flat_map childs l.

Lemma kids_app l1 l2 : kids (l1 ++ l2) = kids l1 ++ kids l2.
Proof. apply flat_map_app. Qed.

Lemma cnt_app (l1 l2 : list nat) k : cnt (l1 ++ l2) k = cnt l1 k + cnt l2 k.
Proof. apply count_occ_app. Qed.

(* a duplicate-free list of nodes, all of whose parents-of-k lie in l2, has at most
   as many edges into k as l2 *)
Lemma cnt_kids_le k : forall l1 l2, NoDup l1 ->
  (forall p, In p l1 -> In k (childs p) -> In p l2) ->
  cnt (kids l1) k <= cnt (kids l2) k.
Proof.
  induction l1; simpl; intros l2 ND H; try lia.
  inversion ND; subst.
  rewrite cnt_app.
  destruct (in_dec Nat.eq_dec k (childs a)) as [Hin|Hnin].
  - assert (Ha : In a l2) by (apply H; auto).
    apply in_split in Ha. destruct Ha as (x & y & ->).
    rewrite kids_app; simpl. rewrite !cnt_app.
    specialize (IHl1 (x ++ y) H3).
    rewrite kids_app, cnt_app in IHl1.
    assert (cnt (kids l1) k <= cnt (kids x) k + cnt (kids y) k).
    { apply IHl1. intros p Hp Hk. specialize (H p (or_intror Hp) Hk).
      apply in_app_or in H. apply in_or_app. destruct H as [H|[H|H]]; auto.
      subst; contradiction. }
    lia.
  - rewrite (proj1 (count_occ_not_In Nat.eq_dec _ _) Hnin).
    apply IHl1; auto.
Qed.

Lemma cnt_kids_mono k l1 l2 : NoDup l1 -> incl l1 l2 -> cnt (kids l1) k <= cnt (kids l2) k.
Proof. intros; apply cnt_kids_le; auto. Qed.

Lemma cnt_kids_lt_ex k l1 l2 : NoDup l2 ->
  cnt (kids l1) k < cnt (kids l2) k ->
  exists p, In p l2 /\ ~ In p l1 /\ In k (childs p).
Proof.
  intros ND Hlt.
  (* search l2 for a witness *)
  assert (Hdec : (exists p, In p l2 /\ ~ In p l1 /\ In k (childs p)) \/
                 (forall p, In p l2 -> In k (childs p) -> In p l1)).
  { clear. induction l2.
    - right; intros p [].
    - destruct IHl2 as [(p & A & B & C)|IH].
      + left; exists p; simpl; auto.
      + destruct (in_dec Nat.eq_dec k (childs a)).
        * destruct (in_dec Nat.eq_dec a l1).
          -- right. intros p [->|Hp] Hk; auto.
          -- left; exists a; simpl; auto.
        * right. intros p [->|Hp] Hk; auto. contradiction. }
  destruct Hdec as [H|H]; auto.
  pose proof (cnt_kids_le k l2 l1 ND H). lia.
Qed.

End Graph.

(* ---- ctx_eval of a node in terms of ctx_eval of its children ---------------------- *)
Section Eval.
Context {V I : Type}.
Variable sem : Sem V I.
Variable env : nat -> V.

Let stepf := (fun vals (n : cnode I) => vals ++ [node_eval sem env vals n]).

Lemma fold_eval_ext : forall a vals, exists ext,
  fold_left stepf a vals = vals ++ ext /\ length ext = length a.
Proof.
  induction a; simpl; intros.
  - exists []. rewrite app_nil_r; auto.
  - destruct (IHa (stepf vals a)) as (ext & E & L).
    exists (node_eval sem env vals a :: ext). split; [|simpl; lia].
    rewrite E. unfold stepf. rewrite <- app_assoc. reflexivity.
Qed.

Lemma arena_eval_length a : length (arena_eval sem a env) = length a.
Proof.
  unfold arena_eval. destruct (fold_eval_ext a []) as (ext & E & L).
  fold stepf. rewrite E. simpl; auto.
Qed.

Lemma arena_eval_app a1 a2 : exists ext,
  arena_eval sem (a1 ++ a2) env = arena_eval sem a1 env ++ ext.
Proof.
  unfold arena_eval. rewrite fold_left_app.
  destruct (fold_eval_ext a2 (fold_left stepf a1 [])) as (ext & E & L).
  exists ext. exact E.
Qed.

Lemma node_eval_ext (o : cnode I) vals1 vals2 :
  (forall c, In c (children o) -> nth c vals1 (s_dflt sem) = nth c vals2 (s_dflt sem)) ->
  node_eval sem env vals1 o = node_eval sem env vals2 o.
Proof.
  destruct o; simpl; intros H; auto.
  - rewrite H; auto.
  - rewrite (H l), (H r); auto.
Qed.

Lemma ctx_eval_node arena k o :
  arena_wf arena -> nth_error arena k = Some o ->
  ctx_eval sem arena env k = node_eval sem env (arena_eval sem arena env) o.
Proof.
  intros WF Hk.
  destruct (nth_error_split _ _ Hk) as (a1 & a2 & -> & Hl).
  unfold ctx_eval.
  destruct (arena_eval_app (a1 ++ [o]) a2) as (ext & E).
  rewrite <- app_assoc in E. simpl in E.
  set (full := arena_eval sem (a1 ++ o :: a2) env) in *.
  assert (E1 : arena_eval sem (a1 ++ [o]) env
               = arena_eval sem a1 env ++ [node_eval sem env (arena_eval sem a1 env) o]).
  { unfold arena_eval. rewrite fold_left_app. reflexivity. }
  rewrite E1 in E.
  pose proof (arena_eval_length a1) as L1.
  rewrite E. rewrite <- app_assoc. rewrite app_nth2 by lia.
  replace (k - length (arena_eval sem a1 env)) with 0 by lia. simpl.
  apply node_eval_ext. intros c Hc.
  assert (c < k) by (eapply WF; eauto).
  rewrite app_nth1 by lia. reflexivity.
Qed.

End Eval.
