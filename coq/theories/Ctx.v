(* Ctx.v — context/mod.rs + context/indexed.rs: the deduplicating arena and every
   constructor with its rewrites (constant folding, identity elimination, operand
   reordering), `import` of a Tree (with RemapAxes / RemapAffine) and `export`.
   Nodes are arena indices; IndexMap::insert is "first equal entry, else append". *)
From Coq Require Import List Bool Arith ZArith.
From FV Require Import F32 Ops Tape Alloc Flatten F32Sem.
Import ListNotations.
Local Open Scope nat_scope.

Definition ctx := list (cnode f32).

(* OrderedFloat equality: NaN = NaN, and IEEE == otherwise (so +0 = -0) *)
Definition const_eqb (a b : f32) : bool := (is_nanb a && is_nanb b) || feqb a b.

Definition cnode_eqb (x y : cnode f32) : bool :=
  match x, y with
  | NInput a, NInput b => Nat.eqb a b
  | NConst a, NConst b => const_eqb a b
  | NUnary u a, NUnary v b => uop_eqb u v && Nat.eqb a b
  | NBinary p a b, NBinary q c d => bop_eqb p q && Nat.eqb a c && Nat.eqb b d
  | _, _ => false
  end.

Fixpoint find_node (c : ctx) (n : cnode f32) (i : nat) : option nat :=
  match c with
  | [] => None
  | x :: rest => if cnode_eqb x n then Some i else find_node rest n (S i)
  end.

(* IndexMap::insert *)
Definition insert (c : ctx) (n : cnode f32) : ctx * nat :=
  match find_node c n 0 with
  | Some i => (c, i)
  | None => (c ++ [n], length c)
  end.

Definition get_op (c : ctx) (n : nat) : option (cnode f32) := nth_error c n.
(* get_const: Ok(c) for constants, Err otherwise (BadNode included) *)
Definition get_const (c : ctx) (n : nat) : option f32 :=
  match get_op c n with Some (NConst v) => Some v | _ => None end.
Definition is_const_eq (c : ctx) (n : nat) (v : f32) : bool :=
  match get_const c n with Some x => feqb x v | None => false end.

Section Ctors.
Variable o : oracle.

Definition R := result (ctx * nat).
Definition bad : R := Err 100.   (* BadNode: an error value *)

Definition constant (c : ctx) (v : f32) : R := Ok (insert c (NConst v)).
Definition var (c : ctx) (v : nat) : R := Ok (insert c (NInput v)).

Definition op_unary (c : ctx) (a : nat) (u : uop) : R :=
  match get_op c a with
  | None => bad
  | Some (NConst v) => constant c (f32_un o u v)
  | Some _ => Ok (insert c (NUnary u a))
  end.

Definition op_binary (c : ctx) (a b : nat) (p : bop) : R :=
  match get_op c a, get_op c b with
  | None, _ | _, None => bad
  | Some (NConst x), Some (NConst y) => constant c (f32_bin o p x y)
  | Some _, Some _ => Ok (insert c (NBinary p a b))
  end.

Definition op_binary_commutative (c : ctx) (a b : nat) (p : bop) : R :=
  op_binary c (Nat.min a b) (Nat.max a b) p.

Definition ftwo : f32 := of_bits 1073741824%Z.

Definition check2 (c : ctx) (a b : nat) (k : R) : R :=
  match get_op c a, get_op c b with None, _ | _, None => bad | _, _ => k end.

Definition c_mul (c : ctx) (a b : nat) : R :=
  check2 c a b (
  if Nat.eqb a b then op_unary c a USquare
  else if is_const_eq c a fone then Ok (c, b)
  else if is_const_eq c b fone then Ok (c, a)
  else if is_const_eq c a fzero then Ok (c, a)
  else if is_const_eq c b fzero then Ok (c, b)
  else op_binary_commutative c a b BMul).

Definition c_add (c : ctx) (a b : nat) : R :=
  check2 c a b (
  if Nat.eqb a b then
    match constant c ftwo with
    | Ok (c', two) => c_mul c' a two
    | Err e => Err e
    end
  else if is_const_eq c a fzero then Ok (c, b)
  else if is_const_eq c b fzero then Ok (c, a)
  else op_binary_commutative c a b BAdd).

Definition c_min (c : ctx) (a b : nat) : R :=
  check2 c a b (if Nat.eqb a b then Ok (c, a) else op_binary_commutative c a b BMin).
Definition c_max (c : ctx) (a b : nat) : R :=
  check2 c a b (if Nat.eqb a b then Ok (c, a) else op_binary_commutative c a b BMax).

Definition c_and (c : ctx) (a b : nat) : R :=
  check2 c a b (
  match get_const c a with
  | Some v => if is_zerob v then Ok (c, a) else Ok (c, b)
  | None => op_binary c a b BAnd
  end).

Definition c_or (c : ctx) (a b : nat) : R :=
  check2 c a b (
  match get_const c a with
  | Some v => if negb (is_zerob v) then Ok (c, a) else Ok (c, b)
  | None =>
      match get_const c b with
      | Some w => if is_zerob w then Ok (c, a) else op_binary c a b BOr
      | None => op_binary c a b BOr
      end
  end).

Definition c_sub (c : ctx) (a b : nat) : R :=
  check2 c a b (
  if is_const_eq c a fzero then op_unary c b UNeg
  else if is_const_eq c b fzero then Ok (c, a)
  else op_binary c a b BSub).

Definition c_div (c : ctx) (a b : nat) : R :=
  check2 c a b (
  if is_const_eq c a fzero then Ok (c, a)
  else if is_const_eq c b fone then Ok (c, a)
  else op_binary c a b BDiv).

(* the binary builder chosen by Context::import for each opcode *)
Definition build_bin (c : ctx) (p : bop) (a b : nat) : R :=
  match p with
  | BAdd => c_add c a b | BSub => c_sub c a b | BMul => c_mul c a b | BDiv => c_div c a b
  | BMin => c_min c a b | BMax => c_max c a b | BAnd => c_and c a b | BOr => c_or c a b
  | BAtan | BCompare | BMod | BMix => op_binary c a b p
  end.

(* ---- Trees (context/tree.rs) ------------------------------------------------------ *)
(* A tree is given as a table of nodes (children before parents) to keep sharing. *)
Inductive tnode :=
| TInput (v : nat)
| TConst (c : f32)
| TUn (u : uop) (a : nat)
| TBin (b : bop) (l r : nat)
| TRemapAxes (target x y z : nat)
| TRemapAffine (target : nat) (mat : list f32).    (* 4x4 homogeneous, row-major *)

Definition bindR (r : R) (k : ctx -> nat -> R) : R :=
  match r with Ok (c, n) => k c n | Err e => Err e end.

(* import as a recursive substitution: [axes] are the nodes standing for X, Y, Z *)
Fixpoint import_rec (fuel : nat) (t : list tnode) (c : ctx) (axes : nat * nat * nat) (i : nat) : R :=
  match fuel with
  | O => Err 120
  | S f =>
      match nth_error t i with
      | None => Err 121
      | Some (TConst v) => constant c v
      | Some (TInput v) =>
          let '(ax, ay, az) := axes in
          match v with
          | 0 => Ok (c, ax) | 1 => Ok (c, ay) | 2 => Ok (c, az)
          | _ => var c v
          end
      | Some (TUn u a) =>
          bindR (import_rec f t c axes a) (fun c1 na => op_unary c1 na u)
      | Some (TBin p l r) =>
          (* Down(rhs) is popped first: the right operand is imported before the left *)
          bindR (import_rec f t c axes r) (fun c1 nr =>
          bindR (import_rec f t c1 axes l) (fun c2 nl => build_bin c2 p nl nr))
      | Some (TRemapAxes target x y z) =>
          (* pushed x, y, z; popped z first *)
          bindR (import_rec f t c axes z) (fun c1 nz =>
          bindR (import_rec f t c1 axes y) (fun c2 ny =>
          bindR (import_rec f t c2 axes x) (fun c3 nx =>
          import_rec f t c3 (nx, ny, nz) target)))
      | Some (TRemapAffine target mat) =>
          let '(ax, ay, az) := axes in
          let m i j := nth (4 * i + j) mat fzero in
          let row (c0 : ctx) (i : nat) : R :=
            bindR (constant c0 (m i 0)) (fun c1 k0 => bindR (c_mul c1 k0 ax) (fun c2 a =>
            bindR (constant c2 (m i 1)) (fun c3 k1 => bindR (c_mul c3 k1 ay) (fun c4 b =>
            bindR (constant c4 (m i 2)) (fun c5 k2 => bindR (c_mul c5 k2 az) (fun c6 cc =>
            bindR (constant c6 (m i 3)) (fun c7 d =>
            bindR (c_add c7 a b) (fun c8 ab =>
            bindR (c_add c8 cc d) (fun c9 cd => c_add c9 ab cd))))))))) in
          bindR (row c 0) (fun c1 nx => bindR (row c1 1) (fun c2 ny => bindR (row c2 2) (fun c3 nz =>
          import_rec f t c3 (nx, ny, nz) target)))
      end
  end.

(* Context::import: the initial frame is (x(), y(), z()) *)
Definition import (t : list tnode) (root : nat) (c : ctx) : R :=
  bindR (var c 0) (fun c1 x => bindR (var c1 1) (fun c2 y => bindR (var c2 2) (fun c3 z =>
  import_rec (S (length t)) t c3 (x, y, z) root))).

End Ctors.
